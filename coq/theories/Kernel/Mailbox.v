(** C08 — mailbox rendez-vous (src/kernel/activity/MailboxImpl.cpp, CommImpl.cpp::isend/irecv).
    Model only (no proofs here).  One mailbox = two queues ([comm_queue_], [done_comm_queue_]) and the permanent
    receiver.  A communication request carries the attributes the match functions can see ([clabel], [ctag]) and
    its own filter over the other side's attributes, drawn from a small decidable language.
    [isend]/[irecv]/[set_receiver]/[iprobe] mirror the C++ line by line as far as the *pairing* is concerned:
    blocking, asynchronous and detached sends all enter the kernel through CommImpl::isend, so they are one op here;
    sizes, rates and dates play no role in the pairing and are not modelled (payload id and size are carried along
    so that the delivered content is part of the statement). *)
From SGV Require Import Base.Tactics.
Local Open Scope Z_scope.

Inductive mfilter := FAll | FLabel (p : Z) | FTag (k : Z).

Record comm := mkComm {
  cid : Z;        (* issue number of the request (strictly increasing along a history) *)
  cactor : Z;     (* issuing actor *)
  clabel : Z;     (* what the other side's filter sees as "sender"/"receiver" (match data) *)
  ctag : Z;       (* what the other side's filter sees as tag *)
  cfilter : mfilter;
  cpayload : Z;   (* sends: identity of the payload *)
  csize : Z       (* sends: simulated size *)
}.

Definition accepts (f : mfilter) (other : comm) : bool :=
  match f with
  | FAll => true
  | FLabel p => clabel other =? p
  | FTag k => ctag other =? k
  end.

(* queue entry: true = SEND, false = RECEIVE *)
Definition qent := (bool * comm)%type.

Record mbox := mkMbox {
  mq : list qent;          (* comm_queue_ *)
  mdone : list qent;       (* done_comm_queue_ *)
  mperm : option Z         (* permanent_receiver_ *)
}.
Definition mbox_init : mbox := mkMbox [] [] None.

(* the lambda of MailboxImpl::find_matching_comm: type, my filter on the queued comm, its filter on me *)
Definition matches_ent (ty : bool) (me : comm) (e : qent) : bool :=
  Bool.eqb (fst e) ty && accepts (cfilter me) (snd e) && accepts (cfilter (snd e)) me.

(* std::find_if + erase: first match in queue order, and the queue without it *)
Fixpoint find_remove (ty : bool) (me : comm) (q : list qent) : option (comm * list qent) :=
  match q with
  | [] => None
  | e :: r => if matches_ent ty me e then Some (snd e, r)
              else match find_remove ty me r with
                   | Some (c, r') => Some (c, e :: r')
                   | None => None
                   end
  end.
(* remove_matching = false *)
Fixpoint find_only (ty : bool) (me : comm) (q : list qent) : option comm :=
  match q with
  | [] => None
  | e :: r => if matches_ent ty me e then Some (snd e) else find_only ty me r
  end.

Definition is_nil {A} (l : list A) : bool := match l with [] => true | _ => false end.
Definition is_some {A} (o : option A) : bool := match o with Some _ => true | None => false end.

Inductive op :=
| OSend (c : comm)
| ORecv (c : comm)
| OSetRecv (p : option Z)
| OProbe (c : comm).     (* iprobe for a SEND (IprobeKind::RECV) with c's attributes and filter *)

Inductive event :=
| EMatch (s r : comm)              (* the send s and the receive r are paired *)
| EProbe (c : comm) (found : option comm).

(* CommImpl::isend *)
Definition isend (m : mbox) (s : comm) : mbox * list event :=
  match find_remove false s (mq m) with
  | Some (r, q') => (mkMbox q' (mdone m) (mperm m), [EMatch s r])
  | None =>
      if is_some (mperm m)
      then (mkMbox (mq m) (mdone m ++ [(true, s)]) (mperm m), [])     (* push_done *)
      else (mkMbox (mq m ++ [(true, s)]) (mdone m) (mperm m), [])     (* push *)
  end.

(* CommImpl::irecv *)
Definition irecv (m : mbox) (r : comm) : mbox * list event :=
  if is_some (mperm m) && negb (is_nil (mdone m))
  then match find_remove true r (mdone m) with
       | Some (s, d') => (mkMbox (mq m) d' (mperm m), [EMatch s r])
       | None => (mkMbox (mq m ++ [(false, r)]) (mdone m) (mperm m), [])   (* pushed without looking at comm_queue_ *)
       end
  else match find_remove true r (mq m) with
       | Some (s, q') => (mkMbox q' (mdone m) (mperm m), [EMatch s r])
       | None => (mkMbox (mq m ++ [(false, r)]) (mdone m) (mperm m), [])
       end.

(* MailboxImpl::iprobe(kind = RECV): look for a SEND, done queue first when permanent, nothing removed *)
Definition iprobe (m : mbox) (c : comm) : option comm :=
  match (if is_some (mperm m) && negb (is_nil (mdone m)) then find_only true c (mdone m) else None) with
  | Some s => Some s
  | None => find_only true c (mq m)
  end.

Definition step (m : mbox) (o : op) : mbox * list event :=
  match o with
  | OSend s => isend m s
  | ORecv r => irecv m r
  | OSetRecv p => (mkMbox (mq m) (mdone m) p, [])
  | OProbe c => (m, [EProbe c (iprobe m c)])
  end.

Fixpoint run (m : mbox) (ops : list op) : mbox * list event :=
  match ops with
  | [] => (m, [])
  | o :: r => let '(m1, ev) := step m o in
              let '(m2, evs) := run m1 r in (m2, ev ++ evs)
  end.

(** projections used by the statements *)
Definition pending (ty : bool) (m : mbox) : list comm :=
  map snd (filter (fun e => Bool.eqb (fst e) ty) (mq m ++ mdone m)).
Definition pending_sends := pending true.
Definition pending_recvs := pending false.

Fixpoint matches_of (evs : list event) : list (comm * comm) :=
  match evs with
  | [] => []
  | EMatch s r :: t => (s, r) :: matches_of t
  | EProbe _ _ :: t => matches_of t
  end.
Fixpoint sends_of (ops : list op) : list comm :=
  match ops with [] => [] | OSend c :: t => c :: sends_of t | _ :: t => sends_of t end.
Fixpoint recvs_of (ops : list op) : list comm :=
  match ops with [] => [] | ORecv c :: t => c :: recvs_of t | _ :: t => recvs_of t end.

(* both sides accept each other *)
Definition compat (s r : comm) : bool := accepts (cfilter r) s && accepts (cfilter s) r.

(* histories: issue numbers strictly increase *)
Fixpoint wf (n : Z) (ops : list op) : Prop :=
  match ops with
  | [] => True
  | OSend c :: t | ORecv c :: t | OProbe c :: t => n <= cid c /\ wf (cid c + 1) t
  | OSetRecv _ :: t => wf n t
  end.
Fixpoint wf_b (n : Z) (ops : list op) : bool :=
  match ops with
  | [] => true
  | OSend c :: t | ORecv c :: t | OProbe c :: t => (n <=? cid c) && wf_b (cid c + 1) t
  | OSetRecv _ :: t => wf_b n t
  end.

(* side condition of the _partial theorems: set_receiver is never called while a send is pending in the mailbox *)
Definition guard (m : mbox) (o : op) : bool :=
  match o with
  | OSetRecv _ => is_nil (pending_sends m)
  | _ => true
  end.
Fixpoint no_pending_send_at_set_receiver (m : mbox) (ops : list op) : bool :=
  match ops with
  | [] => true
  | o :: t => guard m o && no_pending_send_at_set_receiver (fst (step m o)) t
  end.

(** what a receive obtains (C08 "the receiver gets the oldest one") *)
Definition recv_outcome (m : mbox) (r : comm) (ev : list event) : Prop :=
  (exists s, ev = [EMatch s r] /\ In s (pending_sends m) /\ compat s r = true /\
             forall s', In s' (pending_sends m) -> compat s' r = true -> cid s <= cid s') \/
  (ev = [] /\ forall s', In s' (pending_sends m) -> compat s' r = false).

(* two sends that no filter can tell apart and that filter alike: same sender, same label/tag, same own filter *)
Definition sender_equiv (s1 s2 : comm) : Prop :=
  cactor s1 = cactor s2 /\ clabel s1 = clabel s2 /\ ctag s1 = ctag s2 /\ cfilter s1 = cfilter s2.

(** ------------------------------------------------------------------------------------------------------------
    Oracle on an observed log: the requests in issue order, and for every completed/paired receive the payload
    id and size it obtained.  Decides the property text on the observation itself (no reference to [run]). *)
Record delivery := mkDel { drecv : Z; dpayload : Z; dsize : Z }.

Definition find_send (ops : list op) (payload : Z) : option comm :=
  find (fun c => cpayload c =? payload) (sends_of ops).
Definition find_recv (ops : list op) (id : Z) : option comm :=
  find (fun c => cid c =? id) (recvs_of ops).

Fixpoint nodup_z (l : list Z) : bool :=
  match l with [] => true | x :: t => negb (existsb (Z.eqb x) t) && nodup_z t end.

(* the pairs (send, receive) an observation denotes; None when a delivery names an unknown request *)
Fixpoint pairs_of (ops : list op) (dels : list delivery) : option (list (comm * comm)) :=
  match dels with
  | [] => Some []
  | d :: t => match find_send ops (dpayload d), find_recv ops (drecv d), pairs_of ops t with
              | Some s, Some r, Some ps => Some ((s, r) :: ps)
              | _, _, _ => None
              end
  end.

(* date (issue number) at which a pair was formed: when its second half was issued *)
Definition mtime (p : comm * comm) : Z := Z.max (cid (fst p)) (cid (snd p)).

(* 1: exactly-once / intact *)
Definition log_once (ops : list op) (dels : list delivery) : bool :=
  nodup_z (map cpayload (sends_of ops)) && nodup_z (map cid (sends_of ops ++ recvs_of ops)) &&
  nodup_z (map drecv dels) && nodup_z (map dpayload dels) &&
  match pairs_of ops dels with
  | None => false
  | Some ps => forallb (fun d => match find_send ops (dpayload d) with
                                 | Some s => csize s =? dsize d | None => false end) dels &&
               forallb (fun p => compat (fst p) (snd p)) ps
  end.

(* 2: oldest accepted send first: when (s,r) was formed, every older send both sides accept had already been paired *)
Definition log_oldest (ops : list op) (dels : list delivery) : bool :=
  match pairs_of ops dels with
  | None => false
  | Some ps =>
      forallb (fun p =>
        forallb (fun s' =>
          negb ((cid s' <? cid (fst p)) && compat s' (snd p)) ||
          existsb (fun p' => (cid (fst p') =? cid s') && (mtime p' <? mtime p)) ps) (sends_of ops)) ps
  end.

(* 3: nothing both sides accept is left unpaired at the end *)
Definition log_no_missed (ops : list op) (dels : list delivery) : bool :=
  match pairs_of ops dels with
  | None => false
  | Some ps =>
      forallb (fun s =>
        existsb (fun p => cid (fst p) =? cid s) ps ||
        forallb (fun r => existsb (fun p => cid (snd p) =? cid r) ps || negb (compat s r)) (recvs_of ops))
        (sends_of ops)
  end.

(** ------------------------------------------------------------------------------------------------------------
    executable entry points.  One request = 9 integers: kind cid actor label tag fk fv payload size
    kind 1 send | 2 receive | 3 set_receiver (actor = new receiver, -1 = none) | 4 iprobe *)
Definition mk_filter (fk fv : Z) : mfilter :=
  if fk =? 1 then FLabel fv else if fk =? 2 then FTag fv else FAll.

Fixpoint decode_ops (n : nat) (l : list Z) : list op * list Z :=
  match n with
  | O => ([], l)
  | S n' =>
    match l with
    | kind :: id :: actor :: label :: tag :: fk :: fv :: payload :: size :: r =>
        let c := mkComm id actor label tag (mk_filter fk fv) payload size in
        let o := if kind =? 1 then OSend c else if kind =? 2 then ORecv c
                 else if kind =? 3 then OSetRecv (if actor <? 0 then None else Some actor) else OProbe c in
        let '(os, rest) := decode_ops n' r in (o :: os, rest)
    | _ => ([], l)
    end
  end.

Fixpoint encode_events (evs : list event) : list Z :=
  match evs with
  | [] => []
  | EMatch s r :: t => 1 :: cid s :: cid r :: encode_events t
  | EProbe c f :: t => 2 :: cid c :: (match f with Some s => cpayload s | None => 0 end) :: encode_events t
  end.

(* input: nops ops...   output: side wf (kind a b)* *)
Definition run_c08 (inp : list Z) : list Z :=
  match inp with
  | n :: r => let ops := fst (decode_ops (Z.to_nat n) r) in
              (if no_pending_send_at_set_receiver mbox_init ops then 1 else 0) ::
              (if wf_b 0 ops then 1 else 0) :: encode_events (snd (run mbox_init ops))
  | _ => [-1]
  end.

Fixpoint decode_dels (l : list Z) : list delivery :=
  match l with
  | a :: b :: c :: r => mkDel a b c :: decode_dels r
  | _ => []
  end.

(* input: nops ops... (recv payload size)*   output: once oldest no_missed *)
Definition run_c08_oracle (inp : list Z) : list Z :=
  match inp with
  | n :: r => let '(ops, rest) := decode_ops (Z.to_nat n) r in
              let dels := decode_dels rest in
              [ (if log_once ops dels then 1 else 0); (if log_oldest ops dels then 1 else 0);
                (if log_no_missed ops dels then 1 else 0) ]
  | _ => [-1]
  end.
