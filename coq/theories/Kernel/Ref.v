(** Reference interleaving semantics of S4U synchronisation programs (C14), executable explorer, trace replay.
    Model only (definitions, no proofs): proofs are in RefProofs.v.

    Objects mirror the NOMC (single simcall) paths of
      MutexImpl::lock_async/unlock            (FIFO ongoing_acquisitions_, ownership handed to the first waiter),
      SemaphoreImpl::acquire_async/release    (value_ > 0 test, FIFO),
      ConditionVariableImpl::acquire_async/signal/broadcast + ConditionVariableAcquisitionImpl::finish
                                              (unlock, FIFO, re-lock through lock_async inside the same simcall),
      BarrierImpl::acquire_async              (size() < expected-1 test, release in queue order, re-arm),
      MailboxImpl / CommImpl for blocking put/get without filters (FIFO rendez-vous).
    xbt_asserts of the implementation (unlock by a non-owner, condvar wait without owning the mutex) are the explicit
    [st_crash] flag.

    Timed operations: [Sleep d] and [AcquireT s d] (Semaphore::acquire_timeout, d in 1/8 s; SemAcquisitionImpl::wait_for
    arms a sleep action when timeout >= 0, ::finish reports the timeout after ::cancel erased the acquisition from
    ongoing_acquisitions_ *in place*: exactly that waiter leaves, the others keep their relative order).  A waiter with a
    timer is blocked with [a_due = Some date]; its timer firing is the step of that (blocked) actor.
    Two readings of time, chosen by the program ([p_timed]):
      - untimed (the program contains Put/Get, whose durations are platform dependent and not modelled): sleeps are
        skips, a pending timeout may fire at any moment (nondeterministic alternative to being granted in FIFO order);
      - timed (every operation is either instantaneous or a dyadic sleep/timeout): discrete-event semantics with a
        clock [st_now]; an actor step is possible only for ready actors and for timers whose date has come; the clock
        jumps to the earliest pending date ([tick]) only when nothing else can happen. *)
From SGV Require Import Base.Tactics.
Local Open Scope Z_scope.

Inductive op :=
| Sleep (d : Z) | Lock (m : nat) | Unlock (m : nat) | Acquire (s : nat) | Release (s : nat)
| CvWait (c m : nat) | NotifyOne (c : nat) | NotifyAll (c : nat) | BarWait (b : nat)
| Put (mb : nat) (v : Z) | Get (mb : nat) | Skip | AcquireT (s : nat) (d : Z).

Record prog := mkP { p_nm : nat; p_sems : list Z; p_nc : nat; p_bars : list nat; p_nmb : nat; p_code : list (list op) }.

Record actor := mkA { a_pc : nat; a_blk : bool; a_log : list Z; a_due : option Z }.   (* log: newest first; due: armed timer *)
Record mutex := mkM { m_owner : option nat; m_q : list nat }.
Record sem := mkS { s_val : Z; s_q : list nat }.
Record bar := mkB { b_exp : nat; b_q : list nat }.
Record mbox := mkMb { mb_s : list (nat * Z); mb_r : list nat }.
Record state := mkSt { st_a : list actor; st_m : list mutex; st_s : list sem; st_c : list (list (nat * nat));
                       st_b : list bar; st_mb : list mbox; st_crash : bool; st_now : Z }.

Fixpoint upd {A} (n : nat) (x : A) (l : list A) : list A :=
  match l, n with
  | [], _ => []
  | _ :: r, O => x :: r
  | y :: r, S k => y :: upd k x r
  end.

Definition dA := mkA 0 false [] None.
Definition dM := mkM None [].
Definition dS := mkS 0 [].
Definition dB := mkB 1 [].
Definition dMb := mkMb [] [].

Definition set_a a x s := mkSt (upd a x (st_a s)) (st_m s) (st_s s) (st_c s) (st_b s) (st_mb s) (st_crash s) (st_now s).
Definition set_m m x s := mkSt (st_a s) (upd m x (st_m s)) (st_s s) (st_c s) (st_b s) (st_mb s) (st_crash s) (st_now s).
Definition set_s i x s := mkSt (st_a s) (st_m s) (upd i x (st_s s)) (st_c s) (st_b s) (st_mb s) (st_crash s) (st_now s).
Definition set_c c x s := mkSt (st_a s) (st_m s) (st_s s) (upd c x (st_c s)) (st_b s) (st_mb s) (st_crash s) (st_now s).
Definition set_b b x s := mkSt (st_a s) (st_m s) (st_s s) (st_c s) (upd b x (st_b s)) (st_mb s) (st_crash s) (st_now s).
Definition set_mb b x s := mkSt (st_a s) (st_m s) (st_s s) (st_c s) (st_b s) (upd b x (st_mb s)) (st_crash s) (st_now s).
Definition crash s := mkSt (st_a s) (st_m s) (st_s s) (st_c s) (st_b s) (st_mb s) true (st_now s).
Definition set_now t s := mkSt (st_a s) (st_m s) (st_s s) (st_c s) (st_b s) (st_mb s) (st_crash s) t.

(** the simcall of actor [a] is answered with result [r]: it will run its next operation *)
Definition complete (a : nat) (r : Z) (s : state) : state :=
  let ac := nth a (st_a s) dA in set_a a (mkA (S (a_pc ac)) false (r :: a_log ac) None) s.
Definition block (a : nat) (s : state) : state :=
  let ac := nth a (st_a s) dA in set_a a (mkA (a_pc ac) true (a_log ac) None) s.
(** blocked with a timer armed for date [t] (cpu->sleep(timeout) of ActorImpl::sleep / SemAcquisitionImpl::wait_for) *)
Definition block_until (a : nat) (t : Z) (s : state) : state :=
  let ac := nth a (st_a s) dA in set_a a (mkA (a_pc ac) true (a_log ac) (Some t)) s.

(** Every kernel action returns the new state and the actors whose simcall was answered, in answer order
    (= the order in which they are appended to actors_to_run_). *)
Definition R := (state * list nat)%type.

(* MutexImpl::lock_async + MutexAcquisitionImpl::wait_for *)
Definition mutex_lock (m a : nat) (s : state) : R :=
  let mu := nth m (st_m s) dM in
  match m_owner mu with
  | None => (complete a 0 (set_m m (mkM (Some a) (m_q mu)) s), [a])
  | Some _ => (block a (set_m m (mkM (m_owner mu) (m_q mu ++ [a])) s), [])
  end.

(* MutexImpl::unlock, owner already checked *)
Definition mutex_release (m : nat) (s : state) : R :=
  let mu := nth m (st_m s) dM in
  match m_q mu with
  | [] => (set_m m (mkM None []) s, [])
  | w :: q => (complete w 0 (set_m m (mkM (Some w) q) s), [w])
  end.

Definition owns (m a : nat) (s : state) : bool :=
  match m_owner (nth m (st_m s) dM) with Some o => Nat.eqb o a | None => false end.

(* ConditionVariableImpl::signal for one queued waiter (w, m): ConditionVariableAcquisitionImpl::finish turns the wait
   into lock_async(m)->wait_for *)
Definition cv_wake (wm : nat * nat) (acc : R) : R :=
  let '(s, ws) := acc in
  let '(w, m) := wm in
  let mu := nth m (st_m s) dM in
  match m_owner mu with
  | None => (complete w 0 (set_m m (mkM (Some w) (m_q mu)) s), ws ++ [w])
  | Some _ => (set_m m (mkM (m_owner mu) (m_q mu ++ [w])) s, ws)
  end.

(** [rm a q]: the queue without waiter [a], the others in their order (std::deque::erase of SemAcquisitionImpl::cancel) *)
Definition rm (a : nat) (q : list nat) : list nat := filter (fun x => negb (Nat.eqb x a)) q.

(** [tm]: timed reading (sleeps take time) *)
Definition exec (tm : bool) (a : nat) (o : op) (s : state) : R :=
  match o with
  | Sleep d => if tm && (0 <? d) then (block_until a (st_now s + d) s, []) else (complete a 0 s, [a])
  | Skip => (complete a 0 s, [a])
  | AcquireT i d =>
      let se := nth i (st_s s) dS in
      if 0 <? s_val se then (complete a 0 (set_s i (mkS (s_val se - 1) (s_q se)) s), [a])
      else let s1 := set_s i (mkS (s_val se) (s_q se ++ [a])) s in
           if d <? 0 then (block a s1, [])                         (* wait_for: no timer when timeout < 0 *)
           else (block_until a (st_now s + d) s1, [])
  | Lock m => mutex_lock m a s
  | Unlock m =>
      if owns m a s then let '(s1, ws) := mutex_release m s in (complete a 0 s1, ws ++ [a])
      else (crash s, [])
  | Acquire i =>
      let se := nth i (st_s s) dS in
      if 0 <? s_val se then (complete a 0 (set_s i (mkS (s_val se - 1) (s_q se)) s), [a])
      else (block a (set_s i (mkS (s_val se) (s_q se ++ [a])) s), [])
  | Release i =>
      let se := nth i (st_s s) dS in
      match s_q se with
      | [] => (complete a 0 (set_s i (mkS (s_val se + 1) []) s), [a])
      | w :: q => (complete a 0 (complete w 0 (set_s i (mkS (s_val se) q) s)), [w; a])
      end
  | CvWait c m =>
      if owns m a s then
        let '(s1, ws) := mutex_release m s in
        (block a (set_c c (nth c (st_c s1) [] ++ [(a, m)]) s1), ws)
      else (crash s, [])
  | NotifyOne c =>
      match nth c (st_c s) [] with
      | [] => (complete a 0 s, [a])
      | wm :: q => let '(s1, ws) := cv_wake wm (set_c c q s, []) in (complete a 0 s1, ws ++ [a])
      end
  | NotifyAll c =>
      let q := nth c (st_c s) [] in
      let '(s1, ws) := fold_left (fun acc wm => cv_wake wm acc) q (set_c c [] s, []) in
      (complete a 0 s1, ws ++ [a])
  | BarWait b =>
      let ba := nth b (st_b s) dB in
      if Nat.eqb (b_exp ba) 0 || Nat.ltb (length (b_q ba)) (b_exp ba - 1)
      then (block a (set_b b (mkB (b_exp ba) (b_q ba ++ [a])) s), [])
      else (complete a 1 (fold_left (fun s' w => complete w 0 s') (b_q ba) (set_b b (mkB (b_exp ba) []) s)),
            b_q ba ++ [a])
  | Put mb v =>
      let bx := nth mb (st_mb s) dMb in
      match mb_r bx with
      | [] => (block a (set_mb mb (mkMb (mb_s bx ++ [(a, v)]) []) s), [])
      | r :: q => (complete a 0 (complete r v (set_mb mb (mkMb (mb_s bx) q) s)), [r; a])
      end
  | Get mb =>
      let bx := nth mb (st_mb s) dMb in
      match mb_s bx with
      | [] => (block a (set_mb mb (mkMb [] (mb_r bx ++ [a])) s), [])
      | (sd, v) :: q => (complete a v (complete sd 0 (set_mb mb (mkMb q (mb_r bx)) s)), [sd; a])
      end
  end.

(** The timer of blocked actor [a] (current operation [o]) fires: a timed acquisition leaves the queue and answers
    "timed out" (1); a sleep is over. *)
Definition fire (a : nat) (o : op) (s : state) : R :=
  match o with
  | AcquireT i _ => let se := nth i (st_s s) dS in (complete a 1 (set_s i (mkS (s_val se) (rm a (s_q se))) s), [a])
  | _ => (complete a 0 s, [a])
  end.

Definition op_timed (o : op) : bool := match o with Put _ _ | Get _ => false | _ => true end.
Definition p_timed (P : prog) : bool := forallb (forallb op_timed) (p_code P).
(** may a timer armed for date [t] fire now? *)
Definition due_ok (P : prog) (s : state) (t : Z) : bool := negb (p_timed P) || (t <=? st_now s).

(** One step of actor [a]: defined iff the run has not crashed, [a] exists, has an operation left and is either not
    blocked (it executes the operation) or blocked with a timer that may fire (the timer fires). *)
Definition actor_step (P : prog) (a : nat) (s : state) : option R :=
  if st_crash s then None else
  match nth_error (st_a s) a, nth_error (p_code P) a with
  | Some ac, Some ops =>
      match nth_error ops (a_pc ac) with
      | Some o =>
          if a_blk ac then
            match a_due ac with
            | Some t => if due_ok P s t then Some (fire a o s) else None
            | None => None
            end
          else Some (exec (p_timed P) a o s)
      | None => None
      end
  | _, _ => None
  end.

Definition init (P : prog) : state :=
  mkSt (map (fun _ => dA) (p_code P)) (repeat dM (p_nm P)) (map (fun v => mkS v []) (p_sems P))
       (repeat [] (p_nc P)) (map (fun n => mkB n []) (p_bars P)) (repeat dMb (p_nmb P)) false 0.

Definition unfinished_b (P : prog) (s : state) (a : nat) : bool :=
  match nth_error (st_a s) a, nth_error (p_code P) a with
  | Some ac, Some ops => Nat.ltb (a_pc ac) (length ops)
  | _, _ => false
  end.

(** Passage of time (timed reading only): when no actor can step, the clock jumps to the earliest armed timer. *)
Definition due_of (P : prog) (s : state) (a : nat) : option Z :=
  match nth_error (st_a s) a with
  | Some ac => if unfinished_b P s a && a_blk ac then a_due ac else None
  | None => None
  end.
Definition dues (P : prog) (s : state) : list Z :=
  flat_map (fun a => match due_of P s a with Some t => [t] | None => [] end) (seq 0 (length (p_code P))).
Definition quiescent (P : prog) (s : state) : bool :=
  forallb (fun a => match actor_step P a s with Some _ => false | None => true end) (seq 0 (length (p_code P))).
Definition tick (P : prog) (s : state) : option state :=
  if negb (st_crash s) && p_timed P && quiescent P s then
    match dues P s with
    | [] => None
    | t :: r => Some (set_now (fold_left Z.min r t) s)
    end
  else None.

Definition succs (P : prog) (s : state) : list state :=
  flat_map (fun a => match actor_step P a s with Some (s', _) => [s'] | None => [] end) (seq 0 (length (p_code P)))
  ++ match tick P s with Some s' => [s'] | None => [] end.

Definition is_terminal (P : prog) (s : state) : bool :=
  match succs P s with [] => true | _ => false end.

(** decidable equality of states (for the visited list) *)
Definition actor_eq_dec : forall x y : actor, {x = y} + {x <> y}.
Proof. decide equality; [decide equality; apply Z.eq_dec | apply (list_eq_dec Z.eq_dec) | apply bool_dec | apply Nat.eq_dec]. Defined.
Definition optnat_eq_dec : forall x y : option nat, {x = y} + {x <> y}.
Proof. decide equality; apply Nat.eq_dec. Defined.
Definition mutex_eq_dec : forall x y : mutex, {x = y} + {x <> y}.
Proof. decide equality; [apply (list_eq_dec Nat.eq_dec) | apply optnat_eq_dec]. Defined.
Definition sem_eq_dec : forall x y : sem, {x = y} + {x <> y}.
Proof. decide equality; [apply (list_eq_dec Nat.eq_dec) | apply Z.eq_dec]. Defined.
Definition bar_eq_dec : forall x y : bar, {x = y} + {x <> y}.
Proof. decide equality; [apply (list_eq_dec Nat.eq_dec) | apply Nat.eq_dec]. Defined.
Definition natnat_eq_dec : forall x y : nat * nat, {x = y} + {x <> y}.
Proof. decide equality; apply Nat.eq_dec. Defined.
Definition natz_eq_dec : forall x y : nat * Z, {x = y} + {x <> y}.
Proof. decide equality; [apply Z.eq_dec | apply Nat.eq_dec]. Defined.
Definition mbox_eq_dec : forall x y : mbox, {x = y} + {x <> y}.
Proof. decide equality; [apply (list_eq_dec Nat.eq_dec) | apply (list_eq_dec natz_eq_dec)]. Defined.
Definition state_eq_dec : forall x y : state, {x = y} + {x <> y}.
Proof.
  decide equality;
    [ apply Z.eq_dec | apply bool_dec | apply (list_eq_dec mbox_eq_dec) | apply (list_eq_dec bar_eq_dec)
    | apply (list_eq_dec (list_eq_dec natnat_eq_dec)) | apply (list_eq_dec sem_eq_dec)
    | apply (list_eq_dec mutex_eq_dec) | apply (list_eq_dec actor_eq_dec) ].
Defined.

(** Generic fuelled DFS with a visited list. Returns every state reachable from the stack (plus [visited]). *)
Section Dfs.
  Context {St : Type} (eq_dec : forall x y : St, {x = y} + {x <> y}) (next : St -> list St).
  Fixpoint dfs (fuel : nat) (stack visited : list St) : option (list St) :=
    match fuel with
    | O => None
    | S f =>
        match stack with
        | [] => Some visited
        | s :: rest => if in_dec eq_dec s visited then dfs f rest visited
                       else dfs f (next s ++ rest) (s :: visited)
        end
    end.
End Dfs.

Definition explore_all (fuel : nat) (P : prog) : option (list state) :=
  dfs state_eq_dec (succs P) fuel [init P] [].
Definition explore (fuel : nat) (P : prog) : option (list state) :=
  match explore_all fuel P with Some V => Some (filter (is_terminal P) V) | None => None end.

(** Replay of a schedule (list of actor ids = the order in which operations were started and timers fired).  The
    passage of time is implicit: when the scheduled actor cannot step, the clock ticks once (which is possible only if
    nobody can step) and the actor must then be able to. *)
Definition step_or_tick (P : prog) (a : nat) (s : state) : option R :=
  match actor_step P a s with
  | Some r => Some r
  | None => match tick P s with Some s1 => actor_step P a s1 | None => None end
  end.
Fixpoint replay (P : prog) (sched : list nat) (s : state) : option state :=
  match sched with
  | [] => Some s
  | a :: r => match step_or_tick P a s with Some (s', _) => replay P r s' | None => None end
  end.

(** Deterministic model of EngineImpl::run for untimed programs: sub-rounds over actors_to_run_; every actor of the list
    issues its next simcall (or terminates), simcalls are handled in list order, answered actors are appended to the
    next list in answer order.  Returns the final state and the trace (order in which operations were started). *)
Fixpoint handle_all (P : prog) (l : list nat) (s : state) (next tr : list nat) : state * list nat * list nat :=
  match l with
  | [] => (s, next, tr)
  | a :: r => match actor_step P a s with
              | Some (s', ws) => handle_all P r s' (next ++ ws) (tr ++ [a])
              | None => handle_all P r s next tr     (* the actor terminated (or the run crashed): no simcall *)
              end
  end.
Fixpoint sched_run (fuel : nat) (P : prog) (l : list nat) (s : state) (tr : list nat) : option (state * list nat) :=
  match fuel with
  | O => None
  | S f => match l with
           | [] => Some (s, tr)
           | _ => let '(s', next, tr') := handle_all P l s [] tr in sched_run f P next s' tr'
           end
  end.
Definition engine_run (fuel : nat) (P : prog) : option (state * list nat) :=
  match sched_run fuel P (seq 0 (length (p_code P))) (init P) [] with
  | Some (s, tr) => if is_terminal P s then Some (s, tr) else None
  | None => None
  end.

(** The engine reports a deadlock when no actor can run, no timer is armed and some actor has not terminated. *)
Definition deadlock_b (P : prog) (s : state) : bool :=
  negb (st_crash s) && is_terminal P s && existsb (unfinished_b P s) (seq 0 (length (p_code P))).

(** ------------------------------------------------------------------ integer-list protocol of the extracted driver *)
Definition zn (z : Z) : nat := Z.to_nat z.
Definition decode_op (c a b : Z) : op :=
  if c =? 0 then Sleep a else if c =? 1 then Lock (zn a) else if c =? 2 then Unlock (zn a)
  else if c =? 3 then Acquire (zn a) else if c =? 4 then Release (zn a) else if c =? 5 then CvWait (zn a) (zn b)
  else if c =? 6 then NotifyOne (zn a) else if c =? 7 then NotifyAll (zn a) else if c =? 8 then BarWait (zn a)
  else if c =? 9 then Put (zn a) b else if c =? 10 then Get (zn a) else if c =? 19 then AcquireT (zn a) b else Skip.
Fixpoint decode_ops (n : nat) (l : list Z) : list op * list Z :=
  match n with
  | O => ([], l)
  | S k => match l with
           | c :: a :: b :: r => let '(os, rest) := decode_ops k r in (decode_op c a b :: os, rest)
           | _ => ([], [])
           end
  end.
Fixpoint decode_actors (n : nat) (l : list Z) : list (list op) * list Z :=
  match n with
  | O => ([], l)
  | S k => match l with
           | _host :: nops :: r =>
               let '(os, r1) := decode_ops (zn nops) r in
               let '(rest, r2) := decode_actors k r1 in (os :: rest, r2)
           | _ => ([], [])
           end
  end.
(* case := NA NM NS cap.. NC NB cnt.. NMB actors..   (same line as harness/eng3_interp.cpp); returns the unread tail *)
Definition decode_prog (l : list Z) : prog * list Z :=
  match l with
  | na :: nm :: ns :: r =>
      let '(caps, r1) := take_n (zn ns) r in
      match r1 with
      | nc :: nb :: r2 =>
          let '(cnts, r3) := take_n (zn nb) r2 in
          match r3 with
          | nmb :: r4 => let '(code, r5) := decode_actors (zn na) r4 in
                         (mkP (zn nm) caps (zn nc) (map zn cnts) (zn nmb) code, r5)
          | _ => (mkP 0 [] 0 [] 0 [], [])
          end
      | _ => (mkP 0 [] 0 [] 0 [], [])
      end
  | _ => (mkP 0 [] 0 [] 0 [], [])
  end.

(* observation of a state: crash deadlock  then per actor: pc blocked loglen log(oldest first)  then semaphore values *)
Definition obs (P : prog) (s : state) : list Z :=
  [if st_crash s then 1 else 0; if deadlock_b P s then 1 else 0]
  ++ flat_map (fun ac => Z.of_nat (a_pc ac) :: (if a_blk ac then 1 else 0) :: Z.of_nat (length (a_log ac)) :: rev (a_log ac)) (st_a s)
  ++ map s_val (st_s s).

(* run_c14_explore: FUEL prog -> 1 n len_1 obs_1 .. len_n obs_n   |  0 (fuel exhausted) *)
Definition run_c14_explore (l : list Z) : list Z :=
  match l with
  | fuel :: r =>
      let '(P, _) := decode_prog r in
      match explore (zn fuel) P with
      | Some T => 1 :: Z.of_nat (length T) :: flat_map (fun s => let o := obs P s in Z.of_nat (length o) :: o) T
      | None => [0]
      end
  | [] => [0]
  end.
(* run_c14_replay: prog ++ [n; a_1..a_n] -> 1 terminal obs | 0 (schedule not executable) *)
Definition run_c14_replay (l : list Z) : list Z :=
  let '(P, r) := decode_prog l in
  match r with
  | n :: sch =>
      match replay P (map zn (fst (take_n (zn n) sch))) (init P) with
      | Some s => 1 :: (if is_terminal P s then 1 else 0) :: obs P s
      | None => [0]
      end
  | [] => [0]
  end.
(* run_c14_engine: FUEL prog -> 1 ntr tr.. obs | 0 *)
Definition run_c14_engine (l : list Z) : list Z :=
  match l with
  | fuel :: r =>
      let '(P, _) := decode_prog r in
      match engine_run (zn fuel) P with
      | Some (s, tr) => 1 :: Z.of_nat (length tr) :: map Z.of_nat tr ++ obs P s
      | None => [0]
      end
  | [] => [0]
  end.
