(** C07 — proofs about SGV.Kernel.Barrier (all histories, every barrier size 1 <= n < 2^32). *)
From SGV Require Import Base.Tactics Kernel.Barrier.
Local Open Scope Z_scope.

(** zseq *)
Lemma zseq_length : forall len s, length (zseq s len) = len.
Proof. induction len as [|k IH]; intros s; cbn; [reflexivity | now rewrite IH]. Qed.

Lemma zseq_snoc : forall len s, zseq s (S len) = zseq s len ++ [s + Z.of_nat len].
Proof.
  induction len as [|k IH]; intros s.
  - cbn. now rewrite Z.add_0_r.
  - change (zseq s (S (S k))) with (s :: zseq (s + 1) (S k)). rewrite IH. cbn [zseq app].
    do 3 f_equal. lia.
Qed.

Lemma In_zseq : forall len s x, In x (zseq s len) <-> s <= x < s + Z.of_nat len.
Proof.
  induction len as [|k IH]; intros s x; cbn [zseq In].
  - split; [tauto | lia].
  - rewrite IH. lia.
Qed.

Lemma W32_eq : W32 = 4294967296.
Proof. reflexivity. Qed.

(** the invariant of reachable states *)
Definition qlen (b : bar) : Z := Z.of_nat (length (queue b)).
Definition Inv (n : Z) (b : bar) : Prop :=
  expected b = n /\ 0 <= arrived b /\ qlen b = arrived b mod n /\
  map snd (queue b) = zseq (arrived b - qlen b) (length (queue b)).

Lemma inv_init : forall n, 1 <= n < W32 -> Inv n (init n).
Proof.
  intros n Hn. pose proof W32_eq as HW. unfold Inv, init, qlen. cbn. repeat split; try lia.
Qed.

Lemma wrap_pred : forall n, 1 <= n < W32 -> (n - 1) mod W32 = n - 1.
Proof. intros n Hn. pose proof W32_eq as HW. apply Z.mod_small. lia. Qed.

Lemma mod_succ_small : forall a n, 0 <= a -> 0 < n -> a mod n + 1 < n -> (a + 1) mod n = a mod n + 1.
Proof.
  intros a n Ha Hn Hlt. symmetry. apply Z.mod_unique with (q := a / n).
  - left. pose proof (Z.mod_pos_bound a n Hn). lia.
  - pose proof (Z.div_mod a n). lia.
Qed.

Lemma mod_succ_wrap : forall a n, 0 <= a -> 0 < n -> a mod n + 1 = n -> (a + 1) mod n = 0.
Proof.
  intros a n Ha Hn Heq. symmetry. apply Z.mod_unique with (q := a / n + 1).
  - left. lia.
  - pose proof (Z.div_mod a n). lia.
Qed.

Lemma inv_step : forall n b p, 1 <= n < W32 -> Inv n b -> Inv n (fst (step b p)).
Proof.
  intros n b p Hn (He & Ha & Hl & Hq). unfold step.
  destruct (in_queue p (queue b)) eqn:Hin; [cbn; repeat split; assumption|].
  rewrite He, (wrap_pred n Hn).
  assert (Hb : 0 <= arrived b mod n < n) by (apply Z.mod_pos_bound; lia).
  destruct (Z.of_nat (length (queue b)) <? n - 1) eqn:Hc; cbn [fst]; unfold Inv, qlen in *; cbn [expected arrived queue].
  - assert (Hm : (arrived b + 1) mod n = arrived b mod n + 1) by (apply mod_succ_small; lia).
    repeat split; try lia.
    + rewrite app_length. cbn [length]. lia.
    + rewrite map_app, app_length. cbn [map length snd].
      replace (length (queue b) + 1)%nat with (S (length (queue b))) by lia.
      rewrite zseq_snoc, Hq. f_equal; [f_equal; lia | f_equal; lia].
  - assert (Hm : (arrived b + 1) mod n = 0) by (apply mod_succ_wrap; lia).
    repeat split; cbn; try lia.
Qed.

Lemma exec_inv_gen : forall n ops b, 1 <= n < W32 -> Inv n b ->
  Inv n (fold_left (fun b p => fst (step b p)) ops b).
Proof.
  intros n ops. induction ops as [|p r IH]; intros b Hn Hb; cbn; [assumption|].
  apply IH; [assumption | now apply inv_step].
Qed.

Lemma exec_inv : forall n ops, 1 <= n < W32 -> Inv n (exec n ops).
Proof. intros. apply exec_inv_gen; [assumption | now apply inv_init]. Qed.

(** what one accepted arrival does in a reachable state *)
Lemma step_release_inv : forall n b p b' w me, 1 <= n < W32 -> Inv n b -> step b p = (b', Release w me) ->
  (arrived b + 1) mod n = 0 /\
  map snd (w ++ [me]) = zseq (arrived b + 1 - n) (Z.to_nat n) /\
  fst me = p /\ queue b' = [] /\ arrived b' = arrived b + 1.
Proof.
  intros n b p b' w me Hn (He & Ha & Hl & Hq) Hs. unfold step in Hs.
  destruct (in_queue p (queue b)); [discriminate|].
  rewrite He, (wrap_pred n Hn) in Hs.
  assert (Hb : 0 <= arrived b mod n < n) by (apply Z.mod_pos_bound; lia).
  destruct (Z.of_nat (length (queue b)) <? n - 1) eqn:Hc; [discriminate|].
  inv Hs. unfold qlen in *. cbn.
  assert (Hlen : Z.of_nat (length (queue b)) = expected b - 1) by lia.
  repeat split.
  - apply mod_succ_wrap; lia.
  - rewrite map_app. cbn [map snd].
    replace (Z.to_nat (expected b)) with (S (length (queue b))) by lia.
    rewrite zseq_snoc, Hq. f_equal; [f_equal; lia | f_equal; lia].
Qed.

Lemma step_blocked_inv : forall n b p b', 1 <= n < W32 -> Inv n b -> step b p = (b', Blocked) ->
  (arrived b + 1) mod n <> 0 /\ queue b' = queue b ++ [(p, arrived b)] /\ arrived b' = arrived b + 1.
Proof.
  intros n b p b' Hn (He & Ha & Hl & Hq) Hs. unfold step in Hs.
  destruct (in_queue p (queue b)); [discriminate|].
  rewrite He, (wrap_pred n Hn) in Hs.
  assert (Hb : 0 <= arrived b mod n < n) by (apply Z.mod_pos_bound; lia).
  destruct (Z.of_nat (length (queue b)) <? n - 1) eqn:Hc; [|discriminate].
  inv Hs. unfold qlen in *. cbn. repeat split.
  rewrite mod_succ_small; lia.
Qed.

Lemma step_rejected : forall b p b', step b p = (b', Rejected) <-> in_queue p (queue b) = true /\ b' = b.
Proof.
  intros b p b'. unfold step. destruct (in_queue p (queue b)).
  - split; [intros H; inv H; auto | intros [_ ->]; reflexivity].
  - destruct (Z.of_nat (length (queue b)) <? (expected b - 1) mod W32); split; intros H; try discriminate; destruct H; discriminate.
Qed.

(** theorems over all histories *)
Theorem groups : forall n ops p b' w me, 1 <= n < W32 ->
  step (exec n ops) p = (b', Release w me) ->
  let m := arrived (exec n ops) + 1 in
  m mod n = 0 /\ map snd (w ++ [me]) = zseq (m - n) (Z.to_nat n) /\ fst me = p.
Proof.
  intros n ops p b' w me Hn Hs m.
  destruct (step_release_inv n _ p b' w me Hn (exec_inv n ops Hn) Hs) as (H1 & H2 & H3 & _). auto.
Qed.

Theorem release_iff_complete : forall n ops p, 1 <= n < W32 ->
  in_queue p (queue (exec n ops)) = false ->
  ((exists w me, snd (step (exec n ops) p) = Release w me) <-> (arrived (exec n ops) + 1) mod n = 0).
Proof.
  intros n ops p Hn Hin. pose proof (exec_inv n ops Hn) as HI.
  destruct (step (exec n ops) p) as [b' o] eqn:Hs. cbn [snd]. destruct o.
  - apply step_rejected in Hs. destruct Hs as [Hs _]. congruence.
  - destruct (step_blocked_inv n _ p b' Hn HI Hs) as (Hne & _). split; [intros (w & me & H); discriminate | tauto].
  - destruct (step_release_inv n _ p b' woken self Hn HI Hs) as (H0 & _). split; [auto | eauto].
Qed.

Theorem no_early_return : forall n ops p b' w me e, 1 <= n < W32 ->
  step (exec n ops) p = (b', Release w me) -> In e (w ++ [me]) ->
  arrived (exec n ops) + 1 = n * (snd e / n + 1).
Proof.
  intros n ops p b' w me e Hn Hs Hin.
  destruct (groups n ops p b' w me Hn Hs) as (Hm & Hseq & _).
  pose proof (exec_inv n ops Hn) as (_ & Ha & _).
  assert (He : In (snd e) (map snd (w ++ [me]))) by (apply in_map; assumption).
  rewrite Hseq in He. apply In_zseq in He. rewrite Z2Nat.id in He by lia.
  set (m := arrived (exec n ops) + 1) in *.
  assert (Hmk : m = n * (m / n)) by (pose proof (Z.div_mod m n); lia).
  assert (Hk : snd e / n = m / n - 1).
  { symmetry. apply Z.div_unique with (r := snd e - n * (m / n - 1)); [left|]; nia. }
  rewrite Hk. lia.
Qed.

Theorem state_closed_form : forall n ops, 1 <= n < W32 ->
  let b := exec n ops in
  Z.of_nat (length (queue b)) = arrived b mod n /\
  map snd (queue b) = zseq (n * (arrived b / n)) (length (queue b)).
Proof.
  intros n ops Hn b. destruct (exec_inv n ops Hn) as (_ & Ha & Hl & Hq). fold b in Ha, Hl, Hq. unfold qlen in *.
  split; [assumption|]. rewrite Hq. f_equal. pose proof (Z.div_mod (arrived b) n). lia.
Qed.

Theorem rearm : forall n ops p b' w me, 1 <= n < W32 ->
  step (exec n ops) p = (b', Release w me) -> queue b' = [] /\ arrived b' mod n = 0.
Proof.
  intros n ops p b' w me Hn Hs.
  destruct (step_release_inv n _ p b' w me Hn (exec_inv n ops Hn) Hs) as (H1 & _ & _ & H4 & H5).
  rewrite H5. auto.
Qed.

(** every accepted arrival is counted exactly once *)
Definition accepted (o : out) : bool := match o with Rejected => false | _ => true end.

Lemma run_arrived_gen : forall ops b,
  arrived (fold_left (fun b p => fst (step b p)) ops b) =
  arrived b + Z.of_nat (length (filter accepted (run b ops))).
Proof.
  induction ops as [|p r IH]; intros b; cbn [fold_left run]; [cbn; lia|].
  destruct (step b p) as [b' o] eqn:Hs. cbn [fst filter]. rewrite IH.
  unfold step in Hs. destruct (in_queue p (queue b)).
  - inv Hs. cbn. lia.
  - destruct (Z.of_nat (length (queue b)) <? (expected b - 1) mod W32); inv Hs; cbn [accepted arrived length]; lia.
Qed.

Theorem arrival_counter : forall n ops,
  arrived (exec n ops) = Z.of_nat (length (filter accepted (run (init n) ops))).
Proof. intros. unfold exec. rewrite run_arrived_gen. reflexivity. Qed.

(** size 0: expected_actors_ - 1 wraps to 2^32 - 1; no group is ever released (until 2^32 - 1 actors wait) *)
Lemma zero_gen : forall ops b, expected b = 0 ->
  Z.of_nat (length (queue b)) + Z.of_nat (length ops) < W32 - 1 ->
  Forall (fun o => o = Blocked \/ o = Rejected) (run b ops).
Proof.
  induction ops as [|p r IH]; intros b He Hl; cbn [run]; [constructor|].
  destruct (step b p) as [b' o] eqn:Hs. unfold step in Hs.
  assert (Hw : (0 - 1) mod W32 = W32 - 1) by reflexivity.
  destruct (in_queue p (queue b)).
  - inv Hs. constructor; [auto|]. apply IH; [assumption|]. cbn [length] in Hl. lia.
  - rewrite He, Hw in Hs. cbn [length] in Hl.
    destruct (Z.of_nat (length (queue b)) <? W32 - 1) eqn:Hc; [|lia].
    inv Hs. constructor; [auto|]. apply IH; [reflexivity|]. cbn [queue]. rewrite app_length. cbn [length]. lia.
Qed.

Theorem zero_never_releases : forall ops, Z.of_nat (length ops) < W32 - 1 ->
  Forall (fun o => o = Blocked \/ o = Rejected) (run (init 0) ops).
Proof. intros ops H. apply zero_gen; [reflexivity | cbn [init queue length]; lia]. Qed.

(** the oracle says what it should *)
Definition arrival_ok (n m : Z) (arrs : list arrival) (i : Z) (a : arrival) : Prop :=
  let c := n * (i / n + 1) in
  (c <= m -> c <= a_pos a /\ exists l, nth_error arrs (Z.to_nat (c - 1)) = Some l /\ a_ret a = a_req l) /\
  (m < c -> a_pos a < 0).

Lemma judge_one_sound : forall n m arrs i a, 1 <= n -> 0 <= i ->
  (judge_one n m arrs i a = 0 <-> arrival_ok n m arrs i a).
Proof.
  intros n m arrs i a Hn Hi. unfold judge_one, arrival_ok.
  assert (Hpos : 0 < n * (i / n + 1)) by (pose proof (Z.div_pos i n Hi); nia).
  set (c := n * (i / n + 1)) in *. clearbody c.
  destruct (c <=? m) eqn:Hc.
  - destruct (a_pos a <? 0) eqn:H0.
    { split; [discriminate | intros [H _]]. destruct H as [H _]; lia. }
    destruct (a_pos a <? c) eqn:H1.
    { split; [discriminate | intros [H _]]. destruct H as [H _]; lia. }
    destruct (nth_error arrs (Z.to_nat (c - 1))) as [l|] eqn:Hnth.
    + destruct (a_ret a =? a_req l) eqn:He.
      * split; [intros _ | reflexivity]. split; [intros _ | lia]. split; [lia|]. exists l. split; [reflexivity | lia].
      * split; [discriminate | intros [H _]]. destruct H as (_ & l' & Hl' & Hr); [lia|]. inv Hl'. lia.
    + split; [discriminate | intros [H _]]. destruct H as (_ & l' & Hl' & _); [lia | discriminate].
  - destruct (a_pos a <? 0) eqn:H0.
    + split; [intros _ | reflexivity]. split; lia.
    + split; [discriminate | intros [_ H]]. lia.
Qed.

Lemma judge_from_nth : forall n m arrs l i k a, nth_error l k = Some a ->
  nth_error (judge_from n m arrs i l) k = Some (judge_one n m arrs (i + Z.of_nat k) a).
Proof.
  induction l as [|x r IH]; intros i k a Hk; destruct k; cbn in *; try discriminate.
  - inv Hk. now rewrite Z.add_0_r.
  - rewrite (IH (i + 1) k a Hk). do 2 f_equal. lia.
Qed.

Lemma judge_from_length : forall n m arrs l i, length (judge_from n m arrs i l) = length l.
Proof. induction l; intros; cbn; [reflexivity | now rewrite IHl]. Qed.

Theorem judge_sound : forall n arrs, 1 <= n ->
  (Forall (fun v => v = 0) (judge n arrs) <->
  (forall k a, nth_error arrs k = Some a -> arrival_ok n (Z.of_nat (length arrs)) arrs (Z.of_nat k) a)).
Proof.
  intros n arrs Hn. unfold judge. rewrite Forall_forall. split.
  - intros H k a Hk. apply judge_one_sound; [lia | lia |]. apply H.
    pose proof (judge_from_nth n (Z.of_nat (length arrs)) arrs arrs 0 k a Hk) as Hj.
    rewrite Z.add_0_l in Hj. eapply nth_error_In; eassumption.
  - intros H v Hv. apply In_nth_error in Hv. destruct Hv as [k Hk].
    destruct (nth_error arrs k) as [a|] eqn:Ha.
    + rewrite (judge_from_nth _ _ _ _ 0 k a Ha) in Hk. rewrite Z.add_0_l in Hk. inv Hk. apply judge_one_sound; [lia | lia |]. now apply H.
    + apply nth_error_None in Ha. assert (Hs : nth_error (judge_from n (Z.of_nat (length arrs)) arrs 0 arrs) k <> None) by congruence.
      apply nth_error_Some in Hs. rewrite judge_from_length in Hs. lia.
Qed.

(** ============================================================================================================
    The two-simcall protocol: every interleaving of ALock / AWait by any number of actors, any reuse. *)
Definition key (a : acq) : pid * Z := (q_pid a, q_idx a).
Definition ungranted (a : acq) : bool := negb (q_granted a).
(* number of arrivals that belong to complete groups *)
Definition bound (b : bar) : Z := arrived b - qlen b.

Definition SInv (n : Z) (s : sbar) : Prop :=
  Inv n (s_bar s) /\
  map key (filter ungranted (s_acqs s)) = queue (s_bar s) /\
  Forall (fun a => q_granted a = true -> q_waiting a = false /\ q_idx a < bound (s_bar s)) (s_acqs s).

Lemma bound_closed : forall n b, 1 <= n -> Inv n b -> bound b = n * (arrived b / n).
Proof.
  intros n b Hn (_ & Ha & Hl & _). unfold bound. rewrite Hl. pose proof (Z.div_mod (arrived b) n). lia.
Qed.

Lemma find_acq_some : forall p l a, find_acq p l = Some a -> In a l /\ q_pid a = p.
Proof. intros p l a H. apply find_some in H. destruct H as [H1 H2]. split; [assumption | lia]. Qed.

Lemma find_acq_none : forall p l a, find_acq p l = None -> In a l -> q_pid a <> p.
Proof. intros p l a H Hin. pose proof (find_none _ _ H a Hin) as Hx. cbn in Hx. lia. Qed.

Lemma filter_remove_first : forall p l a, find_acq p l = Some a -> q_granted a = true ->
  filter ungranted (remove_first p l) = filter ungranted l.
Proof.
  induction l as [|x r IH]; intros a Hf Hg; [discriminate|].
  unfold find_acq in Hf. cbn [find remove_first] in *. destruct (q_pid x =? p) eqn:Hp.
  - inv Hf. cbn [filter]. unfold ungranted at 2. rewrite Hg. reflexivity.
  - cbn [filter]. rewrite (IH a Hf Hg). reflexivity.
Qed.

Lemma filter_upd_first : forall p f l, (forall x, key (f x) = key x /\ q_granted (f x) = q_granted x) ->
  map key (filter ungranted (upd_first p f l)) = map key (filter ungranted l).
Proof.
  intros p f l Hf. induction l as [|x r IH]; [reflexivity|].
  cbn [upd_first]. destruct (q_pid x =? p).
  - cbn [filter]. unfold ungranted. destruct (Hf x) as [Hk Hg]. rewrite Hg.
    destruct (q_granted x); cbn [negb map]; [reflexivity | now rewrite Hk].
  - cbn [filter]. destruct (ungranted x); cbn [map]; now rewrite IH.
Qed.

Lemma Forall_remove_first : forall (P : acq -> Prop) p l, Forall P l -> Forall P (remove_first p l).
Proof.
  intros P p l H. induction H as [|x r Hx Hr IH]; cbn [remove_first]; [constructor|].
  destruct (q_pid x =? p); [assumption | now constructor].
Qed.

Lemma Forall_upd_first : forall (P : acq -> Prop) p f l a, Forall P l -> find_acq p l = Some a -> P (f a) ->
  Forall P (upd_first p f l).
Proof.
  intros P p f l a H. induction H as [|x r Hx Hr IH]; intros Hf Hp; [discriminate|].
  unfold find_acq in Hf. cbn [find upd_first] in *. destruct (q_pid x =? p).
  - inv Hf. now constructor.
  - constructor; [assumption | now apply IH].
Qed.

Lemma ungranted_in_queue : forall l q a, map key (filter ungranted l) = q -> In a l -> q_granted a = false ->
  In (key a) q.
Proof.
  intros l q a Hq Hin Hg. rewrite <- Hq. apply in_map. apply filter_In. split; [assumption|].
  unfold ungranted. now rewrite Hg.
Qed.

Lemma in_queue_true : forall e q, In e q -> in_queue (fst e) q = true.
Proof. intros e q H. unfold in_queue. apply existsb_exists. exists e. split; [assumption | apply Z.eqb_refl]. Qed.

Lemma in_queue_acq : forall l q p, map key (filter ungranted l) = q -> in_queue p q = true ->
  exists a, In a l /\ q_pid a = p /\ q_granted a = false.
Proof.
  intros l q p Hq Hin. unfold in_queue in Hin. apply existsb_exists in Hin. destruct Hin as (e & He & Hp).
  rewrite <- Hq in He. apply in_map_iff in He. destruct He as (a & Hk & Ha). apply filter_In in Ha.
  destruct Ha as [Ha Hu]. exists a. subst e. cbn in Hp. unfold ungranted in Hu.
  repeat split; [assumption | lia | now destruct (q_granted a)].
Qed.

Lemma grant_all_granted : forall q l, (forall a, In a l -> q_granted a = false -> in_queue (q_pid a) q = true) ->
  filter ungranted (grant_acqs q l) = [].
Proof.
  intros q l. induction l as [|a r IH]; intros H; [reflexivity|].
  assert (Hr : forall x, In x r -> q_granted x = false -> in_queue (q_pid x) q = true)
    by (intros x Hx; apply H; now right).
  cbn [grant_acqs]. destruct (in_queue (q_pid a) q) eqn:Hq.
  - destruct (q_waiting a); [now apply IH|]. cbn [filter]. unfold ungranted at 1. cbn. now apply IH.
  - cbn [filter]. unfold ungranted at 1. destruct (q_granted a) eqn:Hg; cbn [negb]; [now apply IH|].
    rewrite (H a (or_introl eq_refl) Hg) in Hq. discriminate.
Qed.

Lemma grant_forall : forall q l B B',
  Forall (fun a => q_granted a = true -> q_waiting a = false /\ q_idx a < B) l ->
  (forall a, In a l -> q_granted a = false -> q_idx a < B') -> B <= B' ->
  Forall (fun a => q_granted a = true -> q_waiting a = false /\ q_idx a < B') (grant_acqs q l).
Proof.
  intros q l B B' H. induction H as [|a r Ha Hr IH]; intros Hu HB; cbn [grant_acqs]; [constructor|].
  assert (IH' : Forall (fun a => q_granted a = true -> q_waiting a = false /\ q_idx a < B') (grant_acqs q r))
    by (apply IH; [intros x Hx; apply Hu; now right | assumption]).
  destruct (in_queue (q_pid a) q).
  - destruct (q_waiting a) eqn:Hw; [assumption|]. constructor; [|assumption].
    intros _. cbn [set_granted q_waiting q_idx]. split; [assumption|].
    destruct (q_granted a) eqn:Hg.
    + destruct (Ha eq_refl). lia.
    + apply Hu; [now left | assumption].
  - constructor; [|assumption]. intros Hg. destruct (Ha Hg). split; [assumption | lia].
Qed.

(* an actor that may issue ALock is not in the queue: the one-simcall [step] does not reject it *)
Lemma lock_not_in_queue : forall n s p, SInv n s -> find_acq p (s_acqs s) = None ->
  in_queue p (queue (s_bar s)) = false.
Proof.
  intros n s p (_ & Hq & _) Hf. destruct (in_queue p (queue (s_bar s))) eqn:Hin; [|reflexivity].
  destruct (in_queue_acq _ _ _ Hq Hin) as (a & Ha & Hp & _).
  exfalso. exact (find_acq_none p _ a Hf Ha Hp).
Qed.

(* one accepted ALock IS one step of the one-simcall protocol *)
Lemma sstep_lock_bar : forall n s p, SInv n s -> find_acq p (s_acqs s) = None ->
  step (s_bar s) p = (s_bar (fst (sstep s (ALock p))), proj_out (s_bar s) (snd (sstep s (ALock p)))).
Proof.
  intros n s p HI Hf. unfold step, sstep. rewrite Hf, (lock_not_in_queue n s p HI Hf).
  destruct (Z.of_nat (length (queue (s_bar s))) <? (expected (s_bar s) - 1) mod W32); reflexivity.
Qed.

Lemma sstep_wait_bar : forall s p, s_bar (fst (sstep s (AWait p))) = s_bar s.
Proof.
  intros s p. unfold sstep. destruct (find_acq p (s_acqs s)) as [a|]; [|reflexivity].
  destruct (q_waiting a); [reflexivity|]. destruct (q_granted a); reflexivity.
Qed.

Lemma sinv_init : forall n, 1 <= n < W32 -> SInv n (sinit n).
Proof. intros n Hn. split; [now apply inv_init|]. split; [reflexivity | constructor]. Qed.

Lemma queue_idx_bounds : forall n b e, Inv n b -> In e (queue b) -> bound b <= snd e < arrived b.
Proof.
  intros n b e (_ & _ & _ & Hq) He. assert (H : In (snd e) (map snd (queue b))) by now apply in_map.
  rewrite Hq in H. apply In_zseq in H. unfold bound, qlen in *. lia.
Qed.

Lemma sinv_step : forall n s o, 1 <= n < W32 -> SInv n s -> SInv n (fst (sstep s o)).
Proof.
  intros n s o Hn HI. pose proof HI as (Hb & Hq & Hg). destruct o as [p|p].
  - (* ALock *)
    destruct (find_acq p (s_acqs s)) as [a|] eqn:Hf.
    { unfold sstep. rewrite Hf. exact HI. }
    pose proof (sstep_lock_bar n s p HI Hf) as Hs.
    assert (Hb' : Inv n (s_bar (fst (sstep s (ALock p))))).
    { pose proof (inv_step n (s_bar s) p Hn Hb) as H. rewrite Hs in H. exact H. }
    split; [exact Hb'|]. clear Hs Hb'. unfold sstep. rewrite Hf.
    destruct (Z.of_nat (length (queue (s_bar s))) <? (expected (s_bar s) - 1) mod W32) eqn:Hc; cbn [fst s_bar s_acqs].
    + split.
      * rewrite filter_app, map_app, Hq. reflexivity.
      * apply Forall_app. split.
        -- eapply Forall_impl; [|exact Hg]. intros a Ha Hga. destruct (Ha Hga) as [H1 H2]. split; [assumption|].
           unfold bound, qlen in *. cbn [arrived queue]. rewrite app_length. cbn [length]. lia.
        -- constructor; [|constructor]. cbn. discriminate.
    + split.
      * rewrite filter_app, grant_all_granted; [reflexivity|].
        intros a Ha Hga. apply (in_queue_true (key a)). eapply ungranted_in_queue; eassumption.
      * apply Forall_app. split.
        -- apply grant_forall with (B := bound (s_bar s)); [exact Hg | |].
           ++ intros a Ha Hga. pose proof (ungranted_in_queue _ _ a Hq Ha Hga) as Hin.
              pose proof (queue_idx_bounds n _ _ Hb Hin) as Hbd. unfold bound, qlen. cbn. cbn in Hbd. lia.
           ++ unfold bound, qlen. cbn. lia.
        -- constructor; [|constructor]. intros _. unfold bound, qlen. cbn. split; [reflexivity | lia].
  - (* AWait *)
    unfold sstep. destruct (find_acq p (s_acqs s)) as [a|] eqn:Hf; [|exact HI].
    destruct (q_waiting a) eqn:Hw; [exact HI|].
    destruct (q_granted a) eqn:Hga; cbn [fst]; (split; [exact Hb|]); cbn [s_bar s_acqs]; split.
    + rewrite (filter_remove_first p _ a Hf Hga). exact Hq.
    + now apply Forall_remove_first.
    + rewrite filter_upd_first; [exact Hq|]. intros x. split; reflexivity.
    + apply Forall_upd_first with (a := a); [exact Hg | exact Hf|]. cbn. rewrite Hga. discriminate.
Qed.

Lemma sexec_inv_gen : forall n ops s, 1 <= n < W32 -> SInv n s ->
  SInv n (fold_left (fun s o => fst (sstep s o)) ops s).
Proof.
  intros n ops. induction ops as [|o r IH]; intros s Hn Hs; cbn; [assumption|].
  apply IH; [assumption | now apply sinv_step].
Qed.

Theorem split_inv : forall n ops, 1 <= n < W32 -> SInv n (sexec n ops).
Proof. intros. apply sexec_inv_gen; [assumption | now apply sinv_init]. Qed.

(* a live acquisition is granted exactly when the n arrivals of its group happened *)
Lemma granted_iff_complete : forall n s a, 1 <= n < W32 -> SInv n s -> In a (s_acqs s) ->
  (q_granted a = true <-> n * (q_idx a / n + 1) <= arrived (s_bar s)).
Proof.
  intros n s a Hn (Hb & Hq & Hg) Ha. pose proof (bound_closed n _ ltac:(lia) Hb) as HB.
  pose proof Hb as (_ & Har & _). pose proof (fun e => queue_idx_bounds n (s_bar s) e Hb) as HQ.
  set (A := arrived (s_bar s)) in *.
  destruct (q_granted a) eqn:Hga.
  - split; [intros _ | reflexivity]. rewrite Forall_forall in Hg. destruct (Hg a Ha Hga) as [_ Hi].
    rewrite HB in Hi. assert (q_idx a / n < A / n) by (apply Z.div_lt_upper_bound; lia).
    pose proof (Z.div_mod A n). pose proof (Z.mod_pos_bound A n). nia.
  - split; [discriminate | intros Hc]. exfalso.
    pose proof (ungranted_in_queue _ _ a Hq Ha Hga) as Hin.
    assert (Hbd : bound (s_bar s) <= q_idx a < A).
    { apply (HQ (key a)). assumption. }
    rewrite HB in Hbd. assert (A / n <= q_idx a / n) by (apply Z.div_le_lower_bound; lia).
    pose proof (Z.div_mod A n). pose proof (Z.mod_pos_bound A n). nia.
Qed.

(* [no_early_return] for any reachable state of the one-simcall protocol *)
Lemma release_exact : forall n b p b' w me e, 1 <= n < W32 -> Inv n b ->
  step b p = (b', Release w me) -> In e (w ++ [me]) -> arrived b + 1 = n * (snd e / n + 1).
Proof.
  intros n b p b' w me e Hn HI Hs Hin.
  destruct (step_release_inv n b p b' w me Hn HI Hs) as (Hm & Hseq & _).
  destruct HI as (_ & Ha & _).
  assert (He : In (snd e) (map snd (w ++ [me]))) by (apply in_map; assumption).
  rewrite Hseq in He. apply In_zseq in He. rewrite Z2Nat.id in He by lia.
  set (m := arrived b + 1) in *.
  assert (Hmk : m = n * (m / n)) by (pose proof (Z.div_mod m n); lia).
  assert (Hk : snd e / n = m / n - 1).
  { symmetry. apply Z.div_unique with (r := snd e - n * (m / n - 1)); [left|]; nia. }
  rewrite Hk. lia.
Qed.

(** a wait returns only when the n arrivals of its group happened *)
Theorem split_no_early_return : forall n ops o s' x e, 1 <= n < W32 ->
  sstep (sexec n ops) o = (s', x) -> In e (returned x) -> n * (snd e / n + 1) <= arrived (s_bar s').
Proof.
  intros n ops o s' x e Hn Hs He. pose proof (split_inv n ops Hn) as HI. set (s := sexec n ops) in *.
  destruct o as [p|p].
  - destruct (find_acq p (s_acqs s)) as [a|] eqn:Hf.
    { unfold sstep in Hs. rewrite Hf in Hs. inv Hs. destruct He. }
    pose proof (sstep_lock_bar n s p HI Hf) as Hb. rewrite Hs in Hb. cbn [fst snd] in Hb.
    assert (Hx : x = SQueued \/ exists self, x = SGrant (filter (is_waiting (s_acqs s)) (queue (s_bar s)))
                                  (filter (fun e => negb (is_waiting (s_acqs s) e)) (queue (s_bar s))) self).
    { unfold sstep in Hs. rewrite Hf in Hs.
      destruct (Z.of_nat (length (queue (s_bar s))) <? (expected (s_bar s) - 1) mod W32); inv Hs; eauto. }
    destruct Hx as [->|(self & ->)]; cbn [returned] in He; [destruct He|]. cbn [proj_out] in Hb.
    destruct HI as (Hinv & _).
    assert (Hin : In e (queue (s_bar s) ++ [self])).
    { apply in_or_app. left. apply filter_In in He. tauto. }
    pose proof (release_exact n _ p _ _ _ e Hn Hinv Hb Hin) as Hx.
    destruct (step_release_inv n _ p _ _ _ Hn Hinv Hb) as (_ & _ & _ & _ & Ha). lia.
  - unfold sstep in Hs. destruct (find_acq p (s_acqs s)) as [a|] eqn:Hf; [|inv Hs; destruct He].
    destruct (q_waiting a); [inv Hs; destruct He|].
    destruct (q_granted a) eqn:Hg; inv Hs; cbn [returned] in He; [|destruct He].
    destruct He as [<-|[]]. cbn [snd s_bar].
    apply (granted_iff_complete n s a Hn HI); [|assumption]. apply (find_acq_some p _ a Hf).
Qed.

(** a wait on a live acquisition returns at once iff its group is complete, blocks iff it is not *)
Theorem split_wait_iff_complete : forall n ops p a, 1 <= n < W32 ->
  let s := sexec n ops in
  find_acq p (s_acqs s) = Some a -> q_waiting a = false ->
  (n * (q_idx a / n + 1) <= arrived (s_bar s) -> snd (sstep s (AWait p)) = SReturns (p, q_idx a)) /\
  (arrived (s_bar s) < n * (q_idx a / n + 1) -> snd (sstep s (AWait p)) = SBlocks).
Proof.
  intros n ops p a Hn s Hf Hw. pose proof (split_inv n ops Hn) as HI. fold s in HI.
  pose proof (granted_iff_complete n s a Hn HI (proj1 (find_acq_some p _ a Hf))) as Hg.
  unfold sstep. rewrite Hf, Hw. destruct (q_granted a); cbn [snd]; split; intros H; try reflexivity.
  - destruct Hg as [Hg _]. specialize (Hg eq_refl). lia.
  - destruct Hg as [_ Hg]. specialize (Hg H). discriminate.
Qed.

(** nobody stays blocked once its group is complete: the blocked waiters are in the queue (their group is the
    current, incomplete one) *)
Theorem split_blocked_incomplete : forall n ops a, 1 <= n < W32 ->
  let s := sexec n ops in
  In a (s_acqs s) -> q_waiting a = true ->
  q_granted a = false /\ In (q_pid a, q_idx a) (queue (s_bar s)) /\ arrived (s_bar s) < n * (q_idx a / n + 1).
Proof.
  intros n ops a Hn s Ha Hw. pose proof (split_inv n ops Hn) as HI. fold s in HI.
  pose proof (granted_iff_complete n s a Hn HI Ha) as Hg. destruct HI as (_ & Hq & Hf).
  rewrite Forall_forall in Hf. specialize (Hf a Ha).
  destruct (q_granted a) eqn:Hga.
  - destruct (Hf eq_refl) as [H _]. congruence.
  - split; [reflexivity|]. split; [exact (ungranted_in_queue _ _ a Hq Ha Hga)|].
    destruct (Z_lt_le_dec (arrived (s_bar s)) (n * (q_idx a / n + 1))) as [|Hc]; [assumption|].
    destruct Hg as [_ Hg]. specialize (Hg Hc). discriminate.
Qed.

(** the live acquisitions that are not granted are exactly the queue, in order: the barrier state is the one of
    the one-simcall protocol; after a grant nothing of the released group is left in it *)
Theorem split_state : forall n ops, 1 <= n < W32 ->
  let s := sexec n ops in
  map key (filter ungranted (s_acqs s)) = queue (s_bar s) /\
  Z.of_nat (length (queue (s_bar s))) = arrived (s_bar s) mod n /\
  map snd (queue (s_bar s)) = zseq (n * (arrived (s_bar s) / n)) (length (queue (s_bar s))).
Proof.
  intros n ops Hn s. destruct (split_inv n ops Hn) as (Hb & Hq & _). fold s in Hb, Hq.
  split; [assumption|]. destruct Hb as (_ & Ha & Hl & Hs). unfold qlen in *. split; [assumption|].
  rewrite Hs. f_equal. pose proof (Z.div_mod (arrived (s_bar s)) n). lia.
Qed.

Theorem split_grant : forall n ops p s' w mk me, 1 <= n < W32 ->
  let s := sexec n ops in
  sstep s (ALock p) = (s', SGrant w mk me) ->
  step (s_bar s) p = (s_bar s', Release (queue (s_bar s)) me) /\
  (forall e, In e (queue (s_bar s)) <-> In e w \/ In e mk) /\
  (forall e, In e w <-> In e (queue (s_bar s)) /\ is_waiting (s_acqs s) e = true) /\
  queue (s_bar s') = [] /\ filter ungranted (s_acqs s') = [] /\ arrived (s_bar s') mod n = 0.
Proof.
  intros n ops p s' w mk me Hn s Hs. pose proof (split_inv n ops Hn) as HI. fold s in HI.
  destruct (find_acq p (s_acqs s)) as [a|] eqn:Hf.
  { unfold sstep in Hs. rewrite Hf in Hs. discriminate. }
  pose proof (sstep_lock_bar n s p HI Hf) as Hb. rewrite Hs in Hb. cbn [fst snd proj_out] in Hb.
  pose proof (sinv_step n s (ALock p) Hn HI) as HI'. rewrite Hs in HI'. cbn [fst] in HI'.
  destruct HI as (Hinv & _).
  destruct (step_release_inv n _ p _ _ _ Hn Hinv Hb) as (Hm & _ & _ & Hq' & Ha').
  assert (Hw : w = filter (is_waiting (s_acqs s)) (queue (s_bar s)) /\
               mk = filter (fun e => negb (is_waiting (s_acqs s) e)) (queue (s_bar s))).
  { unfold sstep in Hs. rewrite Hf in Hs.
    destruct (Z.of_nat (length (queue (s_bar s))) <? (expected (s_bar s) - 1) mod W32); inv Hs. auto. }
  destruct Hw as [-> ->]. clear Hs.
  split; [assumption|]. split; [|split].
  - intros e. rewrite !filter_In. destruct (is_waiting (s_acqs s) e); cbn [negb]; intuition congruence.
  - intros e. rewrite filter_In. tauto.
  - split; [assumption|]. split.
    + destruct HI' as (_ & Hq2 & _). rewrite Hq' in Hq2. now apply map_eq_nil in Hq2.
    + rewrite Ha'. assumption.
Qed.

(** refinement: the barrier component of the split protocol after any interleaving is the state of the one-simcall
    protocol after the accepted ALocks (in their order), none of which it rejects, and it forms the same groups *)
Lemma split_refines_gen : forall n ops s, 1 <= n < W32 -> SInv n s ->
  s_bar (fold_left (fun s o => fst (sstep s o)) ops s) =
    fold_left (fun b p => fst (step b p)) (map fst (locks s ops)) (s_bar s) /\
  run (s_bar s) (map fst (locks s ops)) = map snd (locks s ops).
Proof.
  intros n ops. induction ops as [|o r IH]; intros s Hn HI; [split; reflexivity|].
  pose proof (sinv_step n s o Hn HI) as HI'. cbn [fold_left locks].
  destruct o as [p|p].
  - destruct (find_acq p (s_acqs s)) as [a|] eqn:Hf.
    + assert (Hs : sstep s (ALock p) = (s, SRejected)) by (unfold sstep; now rewrite Hf).
      rewrite Hs in *. cbn [fst] in *. apply IH; assumption.
    + pose proof (sstep_lock_bar n s p HI Hf) as Hb.
      destruct (sstep s (ALock p)) as [s1 x] eqn:Hs. cbn [fst snd] in *.
      assert (Hx : x <> SRejected).
      { unfold sstep in Hs. rewrite Hf in Hs.
        destruct (Z.of_nat (length (queue (s_bar s))) <? (expected (s_bar s) - 1) mod W32); inv Hs; discriminate. }
      destruct (IH s1 Hn HI') as [IH1 IH2].
      destruct x; try congruence; cbn [map fst snd fold_left run]; rewrite Hb; cbn [fst]; (split; [assumption|]);
        rewrite IH2; reflexivity.
  - pose proof (sstep_wait_bar s p) as Hb. destruct (sstep s (AWait p)) as [s1 x]. cbn [fst] in *.
    destruct (IH s1 Hn HI') as [IH1 IH2]. rewrite Hb in IH1, IH2. split; assumption.
Qed.

Theorem split_refines : forall n ops, 1 <= n < W32 ->
  let lk := locks (sinit n) ops in
  s_bar (sexec n ops) = exec n (map fst lk) /\
  run (init n) (map fst lk) = map snd lk /\
  Forall (fun o => accepted o = true) (map snd lk).
Proof.
  intros n ops Hn lk. destruct (split_refines_gen n ops (sinit n) Hn (sinv_init n Hn)) as [H1 H2].
  split; [exact H1|]. split; [exact H2|].
  clear. unfold lk. generalize (sinit n). induction ops as [|o r IH]; intros s; cbn [locks map]; [constructor|].
  destruct (sstep s o) as [s1 x]. destruct o as [p|p]; [|apply IH].
  destruct x; cbn [map snd]; try apply IH; (constructor; [reflexivity | apply IH]).
Qed.

(** arrivals are numbered in ALock order: [arrived] counts the accepted ALocks *)
Theorem split_arrival_counter : forall n ops, 1 <= n < W32 ->
  arrived (s_bar (sexec n ops)) = Z.of_nat (length (locks (sinit n) ops)).
Proof.
  intros n ops Hn. destruct (split_refines n ops Hn) as (H1 & H2 & H3).
  rewrite H1, arrival_counter, H2.
  assert (Hf : forall l, Forall (fun o => accepted o = true) l -> filter accepted l = l).
  { clear. induction l as [|x r IHl]; intros H; [reflexivity|]. inversion H as [|? ? Hx Hr]; subst.
    cbn [filter]. rewrite Hx. now rewrite IHl. }
  rewrite Hf by assumption. now rewrite map_length.
Qed.
