(** C07 — proofs about SGV.Kernel.Barrier (all histories, every barrier size 1 <= n < 2^32). *)
From SGV Require Import Base.Tactics Kernel.Barrier.
Local Open Scope Z_scope.

(** zseq *)
Lemma zseq_length : forall len s, length (zseq s len) = len.
Proof. induction len as [|k IH]; intros s; cbn; [reflexivity | now rewrite IH]. Qed.

Lemma zseq_snoc : forall len s, zseq s (S len) = zseq s len ++ [s + Z.of_nat len].
Proof.
  induction len as [|k IH]; intros s.
  - cbn. now rewrite Z.add_0_r.
  - change (zseq s (S (S k))) with (s :: zseq (s + 1) (S k)). rewrite IH. cbn [zseq app].
    do 3 f_equal. lia.
Qed.

Lemma In_zseq : forall len s x, In x (zseq s len) <-> s <= x < s + Z.of_nat len.
Proof.
  induction len as [|k IH]; intros s x; cbn [zseq In].
  - split; [tauto | lia].
  - rewrite IH. lia.
Qed.

Lemma W32_eq : W32 = 4294967296.
Proof. reflexivity. Qed.

(** the invariant of reachable states *)
Definition qlen (b : bar) : Z := Z.of_nat (length (queue b)).
Definition Inv (n : Z) (b : bar) : Prop :=
  expected b = n /\ 0 <= arrived b /\ qlen b = arrived b mod n /\
  map snd (queue b) = zseq (arrived b - qlen b) (length (queue b)).

Lemma inv_init : forall n, 1 <= n < W32 -> Inv n (init n).
Proof.
  intros n Hn. pose proof W32_eq as HW. unfold Inv, init, qlen. cbn. repeat split; try lia.
Qed.

Lemma wrap_pred : forall n, 1 <= n < W32 -> (n - 1) mod W32 = n - 1.
Proof. intros n Hn. pose proof W32_eq as HW. apply Z.mod_small. lia. Qed.

Lemma mod_succ_small : forall a n, 0 <= a -> 0 < n -> a mod n + 1 < n -> (a + 1) mod n = a mod n + 1.
Proof.
  intros a n Ha Hn Hlt. symmetry. apply Z.mod_unique with (q := a / n).
  - left. pose proof (Z.mod_pos_bound a n Hn). lia.
  - pose proof (Z.div_mod a n). lia.
Qed.

Lemma mod_succ_wrap : forall a n, 0 <= a -> 0 < n -> a mod n + 1 = n -> (a + 1) mod n = 0.
Proof.
  intros a n Ha Hn Heq. symmetry. apply Z.mod_unique with (q := a / n + 1).
  - left. lia.
  - pose proof (Z.div_mod a n). lia.
Qed.

Lemma inv_step : forall n b p, 1 <= n < W32 -> Inv n b -> Inv n (fst (step b p)).
Proof.
  intros n b p Hn (He & Ha & Hl & Hq). unfold step.
  destruct (in_queue p (queue b)) eqn:Hin; [cbn; repeat split; assumption|].
  rewrite He, (wrap_pred n Hn).
  assert (Hb : 0 <= arrived b mod n < n) by (apply Z.mod_pos_bound; lia).
  destruct (Z.of_nat (length (queue b)) <? n - 1) eqn:Hc; cbn [fst]; unfold Inv, qlen in *; cbn [expected arrived queue].
  - assert (Hm : (arrived b + 1) mod n = arrived b mod n + 1) by (apply mod_succ_small; lia).
    repeat split; try lia.
    + rewrite app_length. cbn [length]. lia.
    + rewrite map_app, app_length. cbn [map length snd].
      replace (length (queue b) + 1)%nat with (S (length (queue b))) by lia.
      rewrite zseq_snoc, Hq. f_equal; [f_equal; lia | f_equal; lia].
  - assert (Hm : (arrived b + 1) mod n = 0) by (apply mod_succ_wrap; lia).
    repeat split; cbn; try lia.
Qed.

Lemma exec_inv_gen : forall n ops b, 1 <= n < W32 -> Inv n b ->
  Inv n (fold_left (fun b p => fst (step b p)) ops b).
Proof.
  intros n ops. induction ops as [|p r IH]; intros b Hn Hb; cbn; [assumption|].
  apply IH; [assumption | now apply inv_step].
Qed.

Lemma exec_inv : forall n ops, 1 <= n < W32 -> Inv n (exec n ops).
Proof. intros. apply exec_inv_gen; [assumption | now apply inv_init]. Qed.

(** what one accepted arrival does in a reachable state *)
Lemma step_release_inv : forall n b p b' w me, 1 <= n < W32 -> Inv n b -> step b p = (b', Release w me) ->
  (arrived b + 1) mod n = 0 /\
  map snd (w ++ [me]) = zseq (arrived b + 1 - n) (Z.to_nat n) /\
  fst me = p /\ queue b' = [] /\ arrived b' = arrived b + 1.
Proof.
  intros n b p b' w me Hn (He & Ha & Hl & Hq) Hs. unfold step in Hs.
  destruct (in_queue p (queue b)); [discriminate|].
  rewrite He, (wrap_pred n Hn) in Hs.
  assert (Hb : 0 <= arrived b mod n < n) by (apply Z.mod_pos_bound; lia).
  destruct (Z.of_nat (length (queue b)) <? n - 1) eqn:Hc; [discriminate|].
  inv Hs. unfold qlen in *. cbn.
  assert (Hlen : Z.of_nat (length (queue b)) = expected b - 1) by lia.
  repeat split.
  - apply mod_succ_wrap; lia.
  - rewrite map_app. cbn [map snd].
    replace (Z.to_nat (expected b)) with (S (length (queue b))) by lia.
    rewrite zseq_snoc, Hq. f_equal; [f_equal; lia | f_equal; lia].
Qed.

Lemma step_blocked_inv : forall n b p b', 1 <= n < W32 -> Inv n b -> step b p = (b', Blocked) ->
  (arrived b + 1) mod n <> 0 /\ queue b' = queue b ++ [(p, arrived b)] /\ arrived b' = arrived b + 1.
Proof.
  intros n b p b' Hn (He & Ha & Hl & Hq) Hs. unfold step in Hs.
  destruct (in_queue p (queue b)); [discriminate|].
  rewrite He, (wrap_pred n Hn) in Hs.
  assert (Hb : 0 <= arrived b mod n < n) by (apply Z.mod_pos_bound; lia).
  destruct (Z.of_nat (length (queue b)) <? n - 1) eqn:Hc; [|discriminate].
  inv Hs. unfold qlen in *. cbn. repeat split.
  rewrite mod_succ_small; lia.
Qed.

Lemma step_rejected : forall b p b', step b p = (b', Rejected) <-> in_queue p (queue b) = true /\ b' = b.
Proof.
  intros b p b'. unfold step. destruct (in_queue p (queue b)).
  - split; [intros H; inv H; auto | intros [_ ->]; reflexivity].
  - destruct (Z.of_nat (length (queue b)) <? (expected b - 1) mod W32); split; intros H; try discriminate; destruct H; discriminate.
Qed.

(** theorems over all histories *)
Theorem groups : forall n ops p b' w me, 1 <= n < W32 ->
  step (exec n ops) p = (b', Release w me) ->
  let m := arrived (exec n ops) + 1 in
  m mod n = 0 /\ map snd (w ++ [me]) = zseq (m - n) (Z.to_nat n) /\ fst me = p.
Proof.
  intros n ops p b' w me Hn Hs m.
  destruct (step_release_inv n _ p b' w me Hn (exec_inv n ops Hn) Hs) as (H1 & H2 & H3 & _). auto.
Qed.

Theorem release_iff_complete : forall n ops p, 1 <= n < W32 ->
  in_queue p (queue (exec n ops)) = false ->
  ((exists w me, snd (step (exec n ops) p) = Release w me) <-> (arrived (exec n ops) + 1) mod n = 0).
Proof.
  intros n ops p Hn Hin. pose proof (exec_inv n ops Hn) as HI.
  destruct (step (exec n ops) p) as [b' o] eqn:Hs. cbn [snd]. destruct o.
  - apply step_rejected in Hs. destruct Hs as [Hs _]. congruence.
  - destruct (step_blocked_inv n _ p b' Hn HI Hs) as (Hne & _). split; [intros (w & me & H); discriminate | tauto].
  - destruct (step_release_inv n _ p b' woken self Hn HI Hs) as (H0 & _). split; [auto | eauto].
Qed.

Theorem no_early_return : forall n ops p b' w me e, 1 <= n < W32 ->
  step (exec n ops) p = (b', Release w me) -> In e (w ++ [me]) ->
  arrived (exec n ops) + 1 = n * (snd e / n + 1).
Proof.
  intros n ops p b' w me e Hn Hs Hin.
  destruct (groups n ops p b' w me Hn Hs) as (Hm & Hseq & _).
  pose proof (exec_inv n ops Hn) as (_ & Ha & _).
  assert (He : In (snd e) (map snd (w ++ [me]))) by (apply in_map; assumption).
  rewrite Hseq in He. apply In_zseq in He. rewrite Z2Nat.id in He by lia.
  set (m := arrived (exec n ops) + 1) in *.
  assert (Hmk : m = n * (m / n)) by (pose proof (Z.div_mod m n); lia).
  assert (Hk : snd e / n = m / n - 1).
  { symmetry. apply Z.div_unique with (r := snd e - n * (m / n - 1)); [left|]; nia. }
  rewrite Hk. lia.
Qed.

Theorem state_closed_form : forall n ops, 1 <= n < W32 ->
  let b := exec n ops in
  Z.of_nat (length (queue b)) = arrived b mod n /\
  map snd (queue b) = zseq (n * (arrived b / n)) (length (queue b)).
Proof.
  intros n ops Hn b. destruct (exec_inv n ops Hn) as (_ & Ha & Hl & Hq). fold b in Ha, Hl, Hq. unfold qlen in *.
  split; [assumption|]. rewrite Hq. f_equal. pose proof (Z.div_mod (arrived b) n). lia.
Qed.

Theorem rearm : forall n ops p b' w me, 1 <= n < W32 ->
  step (exec n ops) p = (b', Release w me) -> queue b' = [] /\ arrived b' mod n = 0.
Proof.
  intros n ops p b' w me Hn Hs.
  destruct (step_release_inv n _ p b' w me Hn (exec_inv n ops Hn) Hs) as (H1 & _ & _ & H4 & H5).
  rewrite H5. auto.
Qed.

(** every accepted arrival is counted exactly once *)
Definition accepted (o : out) : bool := match o with Rejected => false | _ => true end.

Lemma run_arrived_gen : forall ops b,
  arrived (fold_left (fun b p => fst (step b p)) ops b) =
  arrived b + Z.of_nat (length (filter accepted (run b ops))).
Proof.
  induction ops as [|p r IH]; intros b; cbn [fold_left run]; [cbn; lia|].
  destruct (step b p) as [b' o] eqn:Hs. cbn [fst filter]. rewrite IH.
  unfold step in Hs. destruct (in_queue p (queue b)).
  - inv Hs. cbn. lia.
  - destruct (Z.of_nat (length (queue b)) <? (expected b - 1) mod W32); inv Hs; cbn [accepted arrived length]; lia.
Qed.

Theorem arrival_counter : forall n ops,
  arrived (exec n ops) = Z.of_nat (length (filter accepted (run (init n) ops))).
Proof. intros. unfold exec. rewrite run_arrived_gen. reflexivity. Qed.

(** size 0: expected_actors_ - 1 wraps to 2^32 - 1; no group is ever released (until 2^32 - 1 actors wait) *)
Lemma zero_gen : forall ops b, expected b = 0 ->
  Z.of_nat (length (queue b)) + Z.of_nat (length ops) < W32 - 1 ->
  Forall (fun o => o = Blocked \/ o = Rejected) (run b ops).
Proof.
  induction ops as [|p r IH]; intros b He Hl; cbn [run]; [constructor|].
  destruct (step b p) as [b' o] eqn:Hs. unfold step in Hs.
  assert (Hw : (0 - 1) mod W32 = W32 - 1) by reflexivity.
  destruct (in_queue p (queue b)).
  - inv Hs. constructor; [auto|]. apply IH; [assumption|]. cbn [length] in Hl. lia.
  - rewrite He, Hw in Hs. cbn [length] in Hl.
    destruct (Z.of_nat (length (queue b)) <? W32 - 1) eqn:Hc; [|lia].
    inv Hs. constructor; [auto|]. apply IH; [reflexivity|]. cbn [queue]. rewrite app_length. cbn [length]. lia.
Qed.

Theorem zero_never_releases : forall ops, Z.of_nat (length ops) < W32 - 1 ->
  Forall (fun o => o = Blocked \/ o = Rejected) (run (init 0) ops).
Proof. intros ops H. apply zero_gen; [reflexivity | cbn [init queue length]; lia]. Qed.

(** the oracle says what it should *)
Definition arrival_ok (n m : Z) (arrs : list arrival) (i : Z) (a : arrival) : Prop :=
  let c := n * (i / n + 1) in
  (c <= m -> c <= a_pos a /\ exists l, nth_error arrs (Z.to_nat (c - 1)) = Some l /\ a_ret a = a_req l) /\
  (m < c -> a_pos a < 0).

Lemma judge_one_sound : forall n m arrs i a, 1 <= n -> 0 <= i ->
  (judge_one n m arrs i a = 0 <-> arrival_ok n m arrs i a).
Proof.
  intros n m arrs i a Hn Hi. unfold judge_one, arrival_ok.
  assert (Hpos : 0 < n * (i / n + 1)) by (pose proof (Z.div_pos i n Hi); nia).
  set (c := n * (i / n + 1)) in *. clearbody c.
  destruct (c <=? m) eqn:Hc.
  - destruct (a_pos a <? 0) eqn:H0.
    { split; [discriminate | intros [H _]]. destruct H as [H _]; lia. }
    destruct (a_pos a <? c) eqn:H1.
    { split; [discriminate | intros [H _]]. destruct H as [H _]; lia. }
    destruct (nth_error arrs (Z.to_nat (c - 1))) as [l|] eqn:Hnth.
    + destruct (a_ret a =? a_req l) eqn:He.
      * split; [intros _ | reflexivity]. split; [intros _ | lia]. split; [lia|]. exists l. split; [reflexivity | lia].
      * split; [discriminate | intros [H _]]. destruct H as (_ & l' & Hl' & Hr); [lia|]. inv Hl'. lia.
    + split; [discriminate | intros [H _]]. destruct H as (_ & l' & Hl' & _); [lia | discriminate].
  - destruct (a_pos a <? 0) eqn:H0.
    + split; [intros _ | reflexivity]. split; lia.
    + split; [discriminate | intros [_ H]]. lia.
Qed.

Lemma judge_from_nth : forall n m arrs l i k a, nth_error l k = Some a ->
  nth_error (judge_from n m arrs i l) k = Some (judge_one n m arrs (i + Z.of_nat k) a).
Proof.
  induction l as [|x r IH]; intros i k a Hk; destruct k; cbn in *; try discriminate.
  - inv Hk. now rewrite Z.add_0_r.
  - rewrite (IH (i + 1) k a Hk). do 2 f_equal. lia.
Qed.

Lemma judge_from_length : forall n m arrs l i, length (judge_from n m arrs i l) = length l.
Proof. induction l; intros; cbn; [reflexivity | now rewrite IHl]. Qed.

Theorem judge_sound : forall n arrs, 1 <= n ->
  (Forall (fun v => v = 0) (judge n arrs) <->
  (forall k a, nth_error arrs k = Some a -> arrival_ok n (Z.of_nat (length arrs)) arrs (Z.of_nat k) a)).
Proof.
  intros n arrs Hn. unfold judge. rewrite Forall_forall. split.
  - intros H k a Hk. apply judge_one_sound; [lia | lia |]. apply H.
    pose proof (judge_from_nth n (Z.of_nat (length arrs)) arrs arrs 0 k a Hk) as Hj.
    rewrite Z.add_0_l in Hj. eapply nth_error_In; eassumption.
  - intros H v Hv. apply In_nth_error in Hv. destruct Hv as [k Hk].
    destruct (nth_error arrs k) as [a|] eqn:Ha.
    + rewrite (judge_from_nth _ _ _ _ 0 k a Ha) in Hk. rewrite Z.add_0_l in Hk. inv Hk. apply judge_one_sound; [lia | lia |]. now apply H.
    + apply nth_error_None in Ha. assert (Hs : nth_error (judge_from n (Z.of_nat (length arrs)) arrs 0 arrs) k <> None) by congruence.
      apply nth_error_Some in Hs. rewrite judge_from_length in Hs. lia.
Qed.
