(** C09 — proofs about the message-queue model (SGV.Kernel.MQueue). *)
From SGV Require Import Base.Tactics Kernel.MQueue.
Local Open Scope Z_scope.

Definition tagq (ty : bool) (l : list mess) : list mqent := map (pair ty) l.

Lemma find_first_other : forall ty l, find_first (negb ty) (tagq ty l) = None.
Proof. unfold tagq. induction l as [|x l IH]; [reflexivity|]. cbn. rewrite IH. destruct ty; reflexivity. Qed.
Lemma find_first_same : forall ty x l, find_first ty (tagq ty (x :: l)) = Some (x, tagq ty l).
Proof. intros. unfold tagq. cbn. rewrite Bool.eqb_reflx. reflexivity. Qed.
Lemma tagq_snoc : forall ty l x, tagq ty l ++ [(ty, x)] = tagq ty (l ++ [x]).
Proof. intros. unfold tagq. rewrite map_app. reflexivity. Qed.

Lemma qrun_cons : forall q o t, qrun q (o :: t) =
  (fst (qrun (fst (qstep q o)) t), snd (qstep q o) ++ snd (qrun (fst (qstep q o)) t)).
Proof. intros. cbn [qrun]. destruct (qstep q o) as [q1 ev]. cbn [fst snd]. destruct (qrun q1 t). reflexivity. Qed.

(* the heart: from a queue holding only puts P (resp. only gets G), the pairs formed are the zip of all puts and
   all gets in issue order, and what remains queued is what the zip leaves over *)
Lemma qrun_spec : forall ops,
  (forall P, snd (qrun (tagq true P) ops) = combine (P ++ puts_of ops) (gets_of ops) /\
             fst (qrun (tagq true P) ops) =
               tagq true (skipn (length (gets_of ops)) (P ++ puts_of ops)) ++
               tagq false (skipn (length (P ++ puts_of ops)) (gets_of ops))) /\
  (forall G, snd (qrun (tagq false G) ops) = combine (puts_of ops) (G ++ gets_of ops) /\
             fst (qrun (tagq false G) ops) =
               tagq true (skipn (length (G ++ gets_of ops)) (puts_of ops)) ++
               tagq false (skipn (length (puts_of ops)) (G ++ gets_of ops))).
Proof.
  induction ops as [|o t [IHP IHG]]; split.
  - intros P. cbn. rewrite !app_nil_r. split; [destruct P; reflexivity|]. rewrite skipn_nil. cbn.
    rewrite app_nil_r. reflexivity.
  - intros G. cbn. rewrite ?app_nil_r. split; [reflexivity|]. rewrite skipn_nil. reflexivity.
  - intros P. rewrite qrun_cons. destruct o as [p|g]; cbn [qstep puts_of gets_of].
    + unfold iput. change false with (negb true). rewrite find_first_other. cbn [fst snd app].
      rewrite tagq_snoc. destruct (IHP (P ++ [p])) as [A B]. rewrite A, B, <- !app_assoc. cbn [app]. split; reflexivity.
    + unfold iget. destruct P as [|p0 P'].
      * cbn [tagq map find_first fst snd app]. change [(false, g)] with (tagq false [g]).
        destruct (IHG [g]) as [A B]. rewrite A, B. cbn [app length skipn]. split; [reflexivity|].
        destruct (puts_of t); reflexivity.
      * rewrite find_first_same. cbn [fst snd app]. destruct (IHP P') as [A B]. rewrite A, B.
        cbn [app length skipn combine]. split; reflexivity.
  - intros G. rewrite qrun_cons. destruct o as [p|g]; cbn [qstep puts_of gets_of].
    + unfold iput. destruct G as [|g0 G'].
      * cbn [tagq map find_first fst snd app]. change [(true, p)] with (tagq true [p]).
        destruct (IHP [p]) as [A B]. rewrite A, B. cbn [app length skipn]. split; [reflexivity|].
        destruct (gets_of t); reflexivity.
      * rewrite find_first_same. cbn [fst snd app]. destruct (IHG G') as [A B]. rewrite A, B.
        cbn [app length skipn combine]. split; reflexivity.
    + unfold iget. change true with (negb false). rewrite find_first_other. cbn [fst snd app].
      rewrite tagq_snoc. destruct (IHG (G ++ [g])) as [A B]. rewrite A, B, <- !app_assoc. cbn [app]. split; reflexivity.
Qed.

Theorem fifo : forall ops, snd (qrun [] ops) = combine (puts_of ops) (gets_of ops).
Proof. intros. destruct (qrun_spec ops) as [H _]. destruct (H []) as [A _]. exact A. Qed.

Theorem final_queue : forall ops,
  fst (qrun [] ops) = tagq true (skipn (length (gets_of ops)) (puts_of ops)) ++
                      tagq false (skipn (length (puts_of ops)) (gets_of ops)).
Proof. intros. destruct (qrun_spec ops) as [H _]. destruct (H []) as [_ B]. exact B. Qed.

Lemma skipn_nil_or : forall {A} (a b : list A), skipn (length b) a = [] \/ skipn (length a) b = [].
Proof.
  induction a as [|x a IH]; intros b; [left; destruct (length b); reflexivity|].
  destruct b as [|y b]; [right; reflexivity|]. cbn. apply IH.
Qed.

Theorem homogeneous : forall ops,
  let q := fst (qrun [] ops) in (forall e, In e q -> fst e = true) \/ (forall e, In e q -> fst e = false).
Proof.
  intros ops q. unfold q. rewrite final_queue.
  destruct (skipn_nil_or (puts_of ops) (gets_of ops)) as [E|E]; rewrite E; cbn [tagq map app].
  - right. intros e I. apply in_map_iff in I. destruct I as (x & <- & _). reflexivity.
  - left. rewrite app_nil_r. intros e I. apply in_map_iff in I. destruct I as (x & <- & _). reflexivity.
Qed.

Lemma combine_fst_skipn : forall {A B} (a : list A) (b : list B), map fst (combine a b) ++ skipn (length b) a = a.
Proof.
  induction a as [|x a IH]; intros b; [destruct (length b); reflexivity|]. destruct b as [|y b]; [reflexivity|].
  cbn. f_equal. apply IH.
Qed.
Lemma combine_snd_skipn : forall {A B} (a : list A) (b : list B), map snd (combine a b) ++ skipn (length a) b = b.
Proof.
  induction a as [|x a IH]; intros b; [reflexivity|]. destruct b as [|y b]; [reflexivity|]. cbn. f_equal. apply IH.
Qed.
Lemma qpending_tagq_same : forall ty l, qpending ty (tagq ty l) = l.
Proof. induction l as [|x l IH]; [reflexivity|]. unfold qpending in *. cbn. rewrite Bool.eqb_reflx. cbn. f_equal. exact IH. Qed.
Lemma qpending_tagq_other : forall ty l, qpending ty (tagq (negb ty) l) = [].
Proof. induction l as [|x l IH]; [reflexivity|]. unfold qpending in *. cbn. destruct ty; cbn; exact IH. Qed.
Lemma qpending_app : forall ty a b, qpending ty (a ++ b) = qpending ty a ++ qpending ty b.
Proof. intros. unfold qpending. rewrite filter_app, map_app. reflexivity. Qed.

(* every put is delivered to exactly one get or is still queued, and symmetrically; order included *)
Theorem exactly_once : forall ops,
  let res := qrun [] ops in
  puts_of ops = map fst (snd res) ++ qpending true (fst res) /\
  gets_of ops = map snd (snd res) ++ qpending false (fst res).
Proof.
  intros ops res. unfold res. rewrite fifo, final_queue, !qpending_app.
  rewrite (qpending_tagq_same true), (qpending_tagq_same false).
  rewrite (qpending_tagq_other true : forall l, qpending true (tagq false l) = []).
  rewrite (qpending_tagq_other false : forall l, qpending false (tagq true l) = []).
  rewrite app_nil_r. cbn [app]. split; symmetry; [apply combine_fst_skipn|apply combine_snd_skipn].
Qed.

(* k-th get <-> k-th put *)
Theorem kth : forall ops k p g,
  nth_error (snd (qrun [] ops)) k = Some (p, g) <->
  nth_error (puts_of ops) k = Some p /\ nth_error (gets_of ops) k = Some g.
Proof.
  intros ops k p g. rewrite fifo. generalize (puts_of ops) (gets_of ops). clear ops. intros a. revert k.
  induction a as [|x a IH]; intros k b.
  - cbn. destruct k; cbn; split; intros H; try discriminate; destruct H; discriminate.
  - destruct b as [|y b].
    + cbn. destruct k; cbn; split; intros H; try discriminate; destruct H; discriminate.
    + destruct k; cbn.
      * split; [intros H; inv H; auto|intros [H1 H2]; inv H1; inv H2; reflexivity].
      * apply IH.
Qed.

Lemma zeq_list_sound : forall a b, zeq_list a b = true -> a = b.
Proof.
  induction a as [|x a IH]; destruct b as [|y b]; cbn; intros H; try discriminate; [reflexivity|].
  apply andb_prop in H. destruct H as [H1 H2]. f_equal; [lia|apply IH; exact H2].
Qed.
Theorem oracle_sound : forall ops obs, mq_log_ok ops obs = true ->
  obs = flat_map (fun pg => [mid (snd pg); mpayload (fst pg)]) (combine (puts_of ops) (gets_of ops)).
Proof. intros ops obs H. apply zeq_list_sound in H. exact H. Qed.
