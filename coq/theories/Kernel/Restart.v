(** C11 (auto-restart part) — host turn_off / turn_on with auto-restart actors and their on_exit lists.
    Model only (no proofs here). Mirrors, function by function:
      ActorIDTrait (pid_ = maxpid_++), ActorImpl::on_exit (a shared_ptr to a vector allocated by the constructor),
      ActorImpl::create(name, code, data, host, parent) / start (throws on an off host, the pid is consumed),
      ActorImpl::create(ProcessArg* ) (copies the CONTENT of the recorded list into the new actor's own list),
      ProcessArg(host, actor) (keeps the actor's shared_ptr: the record SHARES the list of the actor it is made from),
      s4u::Actor::set_auto_restart / on_exit / set_kill_time, ActorImpl::cleanup_from_self (callbacks most recent
      first, then on_exit.reset()), sg_platf_new_actor (deployment record without list), HostImpl::turn_off (kill every
      hosted actor, drop the records that are not auto_restart), HostImpl::turn_on (create one actor per record),
      s4u::Host::turn_on/turn_off (no-op when already on/off).
    The heap of callback vectors is explicit: a vector is named by the pid of the actor whose constructor allocated it,
    an [a_list]/[g_list] is a pointer (an address) into that heap, so that aliasing between an actor and a boot record
    is expressible (it exists in the real code between the actor that called set_auto_restart and its record).
    Time is an integer number of ticks given by [KTick]; when things happen is decided by the caller (the history).
    [alias = true] is the variant "actor->on_exit = args->on_exit" (share instead of copy) used for a refutation. *)
From SGV Require Import Base.Tactics.
Local Open Scope Z_scope.

Record actor := mkA { a_pid : Z; a_host : Z; a_code : Z; a_alive : bool; a_list : option Z; a_auto : bool;
                      a_kill : Z (* date of the kill timer, 0 = none (ActorImpl::get_kill_time) *);
                      a_end : Z (* date of the end, meaningful when not alive *) }.
Record parg := mkG { g_code : Z; g_host : Z; g_auto : bool; g_list : option Z; g_kill : Z }.
Record host := mkH { h_id : Z; h_on : bool; h_boot : list parg }.
Inductive entry :=
| ECreate (pid code hst date : Z)
| EExit (pid tag date : Z)          (* an on_exit callback runs in the dying actor [pid] *)
| ETerm (pid date : Z).             (* Actor::on_termination *)
Record kstate := mkK { now : Z; next_pid : Z; heap : list (Z * list Z); actors : list actor; hosts : list host;
                       log : list entry (* most recent first *) }.

Inductive kev :=
| KTick (t : Z)                       (* the clock reaches t *)
| KCreate (h code : Z)                (* Host::add_actor / Actor::create *)
| KBootArg (h code : Z) (auto : bool) (kill : Z)   (* sg_platf_new_actor with start_time <= now *)
| KOnExit (p tag : Z)                 (* Actor::on_exit on actor p *)
| KSetKill (p t : Z)                  (* Actor::set_kill_time *)
| KSetAuto (p : Z)                    (* Actor::set_auto_restart(true) *)
| KEnd (p : Z)                        (* actor p ends (return, kill, kill timer): cleanup_from_self/_from_kernel *)
| KHostOff (h : Z)
| KHostOn (h : Z).

Fixpoint lookup (k : Z) (h : list (Z * list Z)) : list Z :=
  match h with [] => [] | (k', v) :: r => if k' =? k then v else lookup k r end.
Definition store (k : Z) (v : list Z) (h : list (Z * list Z)) := (k, v) :: h.
Definition get_actor (p : Z) (l : list actor) := find (fun a => a_pid a =? p) l.
Definition upd_actor (p : Z) (f : actor -> actor) (l : list actor) := map (fun a => if a_pid a =? p then f a else a) l.
Definition get_host (h : Z) (l : list host) := find (fun x => h_id x =? h) l.
Definition upd_host (h : Z) (f : host -> host) (l : list host) := map (fun x => if h_id x =? h then f x else x) l.
Definition host_is_on (h : Z) (s : kstate) := match get_host h (hosts s) with Some x => h_on x | None => false end.

Definition set_now s t := mkK t (next_pid s) (heap s) (actors s) (hosts s) (log s).
Definition set_heap s h := mkK (now s) (next_pid s) h (actors s) (hosts s) (log s).
Definition set_actors s l := mkK (now s) (next_pid s) (heap s) l (hosts s) (log s).
Definition set_hosts s l := mkK (now s) (next_pid s) (heap s) (actors s) l (log s).

Definition with_list (o : option Z) a := mkA (a_pid a) (a_host a) (a_code a) (a_alive a) o (a_auto a) (a_kill a) (a_end a).
Definition with_auto (b : bool) a := mkA (a_pid a) (a_host a) (a_code a) (a_alive a) (a_list a) b (a_kill a) (a_end a).
Definition with_kill (t : Z) a := mkA (a_pid a) (a_host a) (a_code a) (a_alive a) (a_list a) (a_auto a) t (a_end a).
Definition dead_at (t : Z) a := mkA (a_pid a) (a_host a) (a_code a) false None (a_auto a) 0 t.

(* ActorImpl::create(name, code, data, host, parent): init() takes the next pid and the constructor allocates an empty
   vector; start() throws HostFailureException on an off host (nothing is left but the consumed pid) *)
Definition create_plain (s : kstate) (h code : Z) : kstate :=
  let p := next_pid s in
  if host_is_on h s then
    mkK (now s) (p + 1) (store p [] (heap s)) (actors s ++ [mkA p h code true (Some p) false 0 0]) (hosts s)
        (ECreate p code h (now s) :: log s)
  else mkK (now s) (p + 1) (heap s) (actors s) (hosts s) (log s).

(* ActorImpl::set_kill_time *)
Definition set_kill (s : kstate) (p t : Z) : kstate :=
  if t <=? now s then s else set_actors s (upd_actor p (with_kill t) (actors s)).

(* ActorImpl::create(ProcessArg* ) *)
Definition create_arg (alias : bool) (s : kstate) (g : parg) : kstate :=
  let p := next_pid s in
  let s1 := create_plain s (g_host g) (g_code g) in
  if host_is_on (g_host g) s then
    let s2 := match g_list g with
              | Some o => if alias then set_actors s1 (upd_actor p (with_list (Some o)) (actors s1))   (* variant *)
                          else set_heap s1 (store p (lookup o (heap s1)) (heap s1))   (* *actor->on_exit = *args->on_exit *)
              | None => s1
              end in
    let s3 := if g_kill g >=? 0 then set_kill s2 p (g_kill g) else s2 in
    if g_auto g then set_actors s3 (upd_actor p (with_auto true) (actors s3)) else s3
  else s1.

(* cleanup_from_self: the callbacks, most recently registered first, then on_exit.reset(); cleanup_from_kernel: the
   termination signal.  [log] is most recent first: the callback registered first is the last one to run. *)
Definition kend (s : kstate) (p : Z) : kstate :=
  match get_actor p (actors s) with
  | Some a =>
      if a_alive a then
        let cbs := match a_list a with Some addr => lookup addr (heap s) | None => [] end in
        mkK (now s) (next_pid s) (heap s) (upd_actor p (dead_at (now s)) (actors s)) (hosts s)
            (ETerm p (now s) :: map (fun c => EExit p c (now s)) cbs ++ log s)
      else s
  | None => s
  end.

Definition on_host (h : Z) (a : actor) := a_alive a && (a_host a =? h).

Definition kstep (alias : bool) (s : kstate) (e : kev) : kstate :=
  match e with
  | KTick t => set_now s (Z.max (now s) t)
  | KCreate h code => create_plain s h code
  | KBootArg h code auto kill =>
      let g := mkG code h auto None kill in
      create_arg alias (set_hosts s (upd_host h (fun x => mkH (h_id x) (h_on x) (h_boot x ++ [g])) (hosts s))) g
  | KOnExit p tag =>
      match get_actor p (actors s) with
      | Some a => match a_list a with
                  | Some addr => set_heap s (store addr (lookup addr (heap s) ++ [tag]) (heap s))
                  | None => s
                  end
      | None => s
      end
  | KSetKill p t =>
      match get_actor p (actors s) with
      | Some a => if a_alive a then set_kill s p t else s
      | None => s
      end
  | KSetAuto p =>
      match get_actor p (actors s) with
      | Some a =>
          if a_alive a && negb (a_auto a) then
            let g := mkG (a_code a) (a_host a) true (a_list a) (a_kill a) in       (* ProcessArg(host, actor) *)
            set_hosts (set_actors s (upd_actor p (with_auto true) (actors s)))
                      (upd_host (a_host a) (fun x => mkH (h_id x) (h_on x) (h_boot x ++ [g])) (hosts s))
          else s
      | None => s
      end
  | KEnd p => kend s p
  | KHostOff h =>
      if host_is_on h s then
        let s1 := set_hosts s (upd_host h (fun x => mkH (h_id x) false (h_boot x)) (hosts s)) in
        let s2 := fold_left kend (map a_pid (filter (on_host h) (actors s1))) s1 in
        set_hosts s2 (upd_host h (fun x => mkH (h_id x) (h_on x) (filter g_auto (h_boot x))) (hosts s2))
      else s
  | KHostOn h =>
      match get_host h (hosts s) with
      | Some x =>
          if h_on x then s
          else fold_left (create_arg alias) (h_boot x)
                         (set_hosts s (upd_host h (fun y => mkH (h_id y) true (h_boot y)) (hosts s)))
      | None => s
      end
  end.

Definition krun (alias : bool) (s : kstate) (evs : list kev) : kstate := fold_left (kstep alias) evs s.

Fixpoint mk_hosts (n : nat) : list host :=
  match n with O => [mkH 0 true []] | S n' => mk_hosts n' ++ [mkH (Z.of_nat n) true []] end.
(* hosts 0..nh, all on; pid 0 is maestro *)
Definition kinit (nh : Z) : kstate := mkK 0 1 [] [] (mk_hosts (Z.to_nat nh)) [].

(* what the callbacks observed at the end of actor p, most recent first: (tag, date) *)
Fixpoint exits (p : Z) (l : list entry) : list (Z * Z) :=
  match l with
  | [] => []
  | EExit q c d :: r => if q =? p then (c, d) :: exits p r else exits p r
  | _ :: r => exits p r
  end.

(** ---------------------------------------------------------------------------------------------------------------
    Programs: a controller acting at the dates 4, 8, 12, ... (tick = 1/4 s) and victims whose every incarnation registers
    tagged callbacks when it starts and one tick later, and returns after 4*life+2 ticks; kill times are 4k+3. The
    function below only decides WHEN each kernel event happens (no two kinds of events share a date); the outcome is
    [krun] of the produced history. *)
Record ispec := mkI { i_start : list Z; i_auto : bool; i_late : list Z; i_life : Z }.
Record vspec := mkV { v_host : Z; v_mode : Z; v_kill : Z; v_pre : list Z; v_post : list Z; v_beh : list ispec }.
Record sim := mkS { ks : kstate; hist : list kev; meta : list (Z * (Z * Z)) (* pid -> (victim, born) *) }.

Definition emit (st : sim) (e : kev) : sim := mkS (kstep false (ks st) e) (e :: hist st) (meta st).
Definition emits (st : sim) (es : list kev) : sim := fold_left emit es st.

Definition beh_of (vs : list vspec) (v : Z) (inc : nat) : ispec :=
  match nth_error vs (Z.to_nat (v - 1)) with
  | Some sp => nth (Nat.min inc (length (v_beh sp) - 1)) (v_beh sp) (mkI [] false [] 0)
  | None => mkI [] false [] 0
  end.

(* which incarnation (0-based) of its victim the actor [p] is *)
Fixpoint inc_in (p v : Z) (m : list (Z * (Z * Z))) (acc : nat) : nat :=
  match m with
  | [] => acc
  | (q, (w, _)) :: r => if q =? p then acc else inc_in p v r (if w =? v then S acc else acc)
  end.

(* the codes of the new victims start at the current date: each registration and set_auto_restart is one simcall, that is
   one sub-round of the scheduling round; simcalls of one sub-round are handled in pid order. Round r: the r-th start
   callback of every new actor, or its set_auto_restart when it has exactly r start callbacks. *)
Definition start_round (vs : list vspec) (r : nat) (st : sim) (a : actor) : sim :=
  let b := beh_of vs (a_code a) (inc_in (a_pid a) (a_code a) (meta st) 0) in
  match nth_error (i_start b) r with
  | Some tag => emit st (KOnExit (a_pid a) tag)
  | None => if Nat.eqb r (length (i_start b)) && i_auto b then emit st (KSetAuto (a_pid a)) else st
  end.

Definition start_new (vs : list vspec) (st : sim) (from : Z) : sim :=
  let news := filter (fun a => (from <=? a_pid a) && a_alive a && negb (a_code a =? 0)) (actors (ks st)) in
  let st1 := mkS (ks st) (hist st) (meta st ++ map (fun a => (a_pid a, (a_code a, now (ks st)))) news) in
  let rounds := fold_left (fun m a => Nat.max m (length (i_start (beh_of vs (a_code a) (inc_in (a_pid a) (a_code a) (meta st1) 0)))))
                          news O in
  fold_left (fun st' r => fold_left (start_round vs r) news st') (seq 0 (S rounds)) st1.

(* what one living victim does at tick t *)
Definition victim_tick (vs : list vspec) (t : Z) (st : sim) (m : Z * (Z * Z)) : sim :=
  let '(p, (v, born)) := m in
  match get_actor p (actors (ks st)) with
  | Some a =>
      if a_alive a then
        let b := beh_of vs v (inc_in p v (meta st) 0) in
        let st1 := if t =? born + 1 then emits st (map (KOnExit p) (i_late b)) else st in
        if (a_kill a =? t) || (t =? born + 4 * i_life b + 2) then emit st1 (KEnd p) else st1
      else st
  | None => st
  end.

Definition last_of (v : Z) (m : list (Z * (Z * Z))) : Z :=
  fold_left (fun acc x => if fst (snd x) =? v then fst x else acc) m 0.

Definition ctl_step (vs : list vspec) (st : sim) (c : Z * Z) : sim :=
  let '(code, arg) := c in
  let from := next_pid (ks st) in
  if code =? 1 then emit st (KHostOff arg)
  else if code =? 2 then start_new vs (emit st (KHostOn arg)) from
  else if code =? 3 then emit st (KEnd (last_of arg (meta st)))
  else st.

Fixpoint ticks (vs : list vspec) (steps : list (Z * Z)) (ctl : Z) (fuel : nat) (t : Z) (st : sim) : sim :=
  match fuel with
  | O => st
  | S f =>
      let st0 := emit st (KTick t) in
      let st1 := fold_left (victim_tick vs t) (meta st0) st0 in
      if t mod 4 =? 0 then
        match steps with
        | c :: rest =>
            let st2 := ctl_step vs st1 c in
            let st3 := match rest with [] => emit st2 (KEnd ctl) | _ => st2 end in
            ticks vs rest ctl f (t + 1) st3
        | [] => ticks vs [] ctl f (t + 1) st1
        end
      else ticks vs steps ctl f (t + 1) st1
  end.

(* main(): the victims in order, then the controller; then every actor starts, in pid order, at date 0 *)
Definition main_victim (st : sim) (vsp : Z * vspec) : sim :=
  let '(v, sp) := vsp in
  let p := next_pid (ks st) in
  if v_mode sp <=? 1 then
    let st1 := emits (emit st (KCreate (v_host sp) v)) (map (KOnExit p) (v_pre sp)) in
    let st2 := if 0 <? v_kill sp then emit st1 (KSetKill p (v_kill sp)) else st1 in
    let st3 := if v_mode sp =? 1 then emit st2 (KSetAuto p) else st2 in
    emits st3 (map (KOnExit p) (v_post sp))
  else
    let st1 := emit st (KBootArg (v_host sp) v (v_mode sp =? 2) (if 0 <? v_kill sp then v_kill sp else -1)) in
    emits st1 (map (KOnExit p) (v_pre sp ++ v_post sp)).

Fixpoint number {A} (i : Z) (l : list A) : list (Z * A) :=
  match l with [] => [] | x :: r => (i, x) :: number (i + 1) r end.

Definition maxl (l : list Z) : Z := fold_left Z.max l 0.

Definition history (nh : Z) (vs : list vspec) (steps : list (Z * Z)) : list kev :=
  let st0 := mkS (kinit nh) [] [] in
  let st1 := fold_left main_victim (number 1 vs) st0 in
  let ctl := next_pid (ks st1) in
  let st2 := emit st1 (KCreate 0 0) in
  let st3 := start_new vs st2 1 in
  let st3' := match steps with [] => emit st3 (KEnd ctl) | _ => st3 end in
  let horizon := 4 * (Z.of_nat (length steps) + 2) + 4 * maxl (flat_map (fun sp => map i_life (v_beh sp)) vs)
                 + maxl (map v_kill vs) + 8 in
  rev (hist (ticks vs steps ctl (Z.to_nat horizon) 1 st3')).

(** integer-list protocol:  nh nv victim* nsteps (code arg)*
      victim = host mode kill npre pre* npost post* nbeh beh* ;  beh = auto nstart start* nlate late* life
    answer: the log, oldest first:  1 pid code host date | 2 pid tag date | 3 pid date *)
Definition take_list (l : list Z) : list Z * list Z :=
  match l with n :: r => take_n (Z.to_nat n) r | [] => ([], []) end.

Fixpoint dec_behs (n : nat) (l : list Z) : list ispec * list Z :=
  match n with
  | O => ([], l)
  | S n' =>
      match l with
      | auto :: r =>
          let '(st, r1) := take_list r in
          let '(lt, r2) := take_list r1 in
          match r2 with
          | life :: r3 => let '(bs, rest) := dec_behs n' r3 in (mkI st (negb (auto =? 0)) lt life :: bs, rest)
          | [] => ([], [])
          end
      | [] => ([], [])
      end
  end.

Fixpoint dec_victims (n : nat) (l : list Z) : list vspec * list Z :=
  match n with
  | O => ([], l)
  | S n' =>
      match l with
      | h :: mode :: kill :: r =>
          let '(pre, r1) := take_list r in
          let '(post, r2) := take_list r1 in
          match r2 with
          | nb :: r3 =>
              let '(bs, r4) := dec_behs (Z.to_nat nb) r3 in
              let '(vs, rest) := dec_victims n' r4 in
              (mkV h mode kill pre post bs :: vs, rest)
          | [] => ([], [])
          end
      | _ => ([], [])
      end
  end.

Definition enc_entry (e : entry) : list Z :=
  match e with
  | ECreate p c h d => [1; p; c; h; d]
  | EExit p c d => [2; p; c; d]
  | ETerm p d => [3; p; d]
  end.

Definition run_c11_restart (inp : list Z) : list Z :=
  match inp with
  | nh :: nv :: r =>
      let '(vs, r1) := dec_victims (Z.to_nat nv) r in
      match r1 with
      | ns :: r2 =>
          let '(steps, _) := take_pairs (Z.to_nat ns) r2 in
          flat_map enc_entry (rev (log (krun false (kinit nh) (history nh vs steps))))
      | [] => []
      end
  | _ => []
  end.

(* three reboots of an auto-restart actor (callbacks 100, 101 registered by main before / after set_auto_restart; the
   restarted incarnations register 11 then 12, 21, 31); used by the non-vacuity example and the refutation of the variant *)
Definition c11_demo : list kev :=
  history 1 [mkV 1 1 0 [100] [101] [mkI [] false [] 9; mkI [11] false [12] 9; mkI [21] false [] 9; mkI [31] false [] 9]]
          [(1, 1); (2, 1); (1, 1); (2, 1); (1, 1); (2, 1); (1, 1)].
