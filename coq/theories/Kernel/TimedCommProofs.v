(** TimedCommProofs.v — proofs about Kernel/TimedComm.v (C12 on communications and I/Os). *)
From SGV Require Import Base.Tactics Kernel.TimedComm.
Local Open Scope Z_scope.

(* ============================================================================================== one timed wait *)
Fixpoint incr (l : list Z) : Prop :=
  match l with a :: (b :: _) as r => a < b /\ incr r | _ => True end.

Lemma incr_tail : forall a l, incr (a :: l) -> incr l.
Proof. intros a [|b l] H; [exact I | exact (proj2 H)]. Qed.

Lemma incr_head_lt : forall l a, incr (a :: l) -> Forall (fun y => a < y) l.
Proof.
  induction l as [|b l IH]; intros a H; constructor.
  - exact (proj1 H).
  - destruct H as [Hab Hr]. specialize (IH b Hr).
    eapply Forall_impl; [|exact IH]. cbn. intros; lia.
Qed.

Lemma incr_split : forall l1 x l2, incr (l1 ++ x :: l2) -> Forall (fun y => y < x) l1 /\ Forall (fun y => x < y) l2.
Proof.
  induction l1 as [|a l1 IH]; intros x l2 H.
  - split; [constructor | apply incr_head_lt; exact H].
  - cbn [app] in H. pose proof (incr_head_lt _ _ H) as Hall.
    destruct (IH x l2 (incr_tail _ _ H)) as [H1 H2]. split; [|exact H2].
    constructor; [|exact H1]. rewrite Forall_app in Hall. destruct Hall as [_ Hx]. inv Hx. assumption.
Qed.

Definition waiting (e : episode) : Prop := e_res e = EWaiting.

Lemma ep_over_fix : forall pr oc m e, e_res e <> EWaiting -> ep_visit pr oc m e = e.
Proof. intros pr oc m e H. unfold ep_visit. destruct (e_res e); congruence. Qed.

Lemma ep_run_cons : forall pr oc m ms e, ep_run pr oc (m :: ms) e = ep_run pr oc ms (ep_visit pr oc m e).
Proof. reflexivity. Qed.

Lemma ep_run_over : forall pr oc ms e, e_res e <> EWaiting -> ep_run pr oc ms e = e.
Proof.
  intros pr oc ms. induction ms as [|m ms IH]; intros e H; [reflexivity|].
  rewrite ep_run_cons. rewrite ep_over_fix by exact H. apply IH; exact H.
Qed.

Lemma ep_run_app : forall pr oc l1 l2 e, ep_run pr oc (l1 ++ l2) e = ep_run pr oc l2 (ep_run pr oc l1 e).
Proof. intros. unfold ep_run. apply fold_left_app. Qed.

(* the action is not popped at date m: m is before its completion date and not within the precision of it *)
Definition not_due (pr m tc : Z) (io : bool) : Prop := due pr m tc io = false.

(* a visit before both the completion and the deadline changes nothing (action running) *)
Lemma ep_idle_running : forall pr oc m e tc,
  waiting e -> e_act e = Some (ARun tc) -> not_due pr m tc (e_io e) ->
  (forall dl, e_dl e = Some dl -> m < dl) -> ep_visit pr oc m e = e.
Proof.
  intros pr oc m [act dl0 peer du io r st] tc Hw Ha Hd Hdl. unfold ep_visit, waiting, not_due, ep_set in *. cbn in *. subst.
  cbn [pop_astate]. rewrite Hd.
  destruct dl0 as [dl|].
  - specialize (Hdl dl eq_refl). replace (dl <=? m) with false by lia. cbn. destruct peer; reflexivity.
  - cbn. destruct peer; reflexivity.
Qed.

Lemma ep_idle_run : forall pr oc ms e tc,
  waiting e -> e_act e = Some (ARun tc) ->
  Forall (fun m => not_due pr m tc (e_io e) /\ forall dl, e_dl e = Some dl -> m < dl) ms -> ep_run pr oc ms e = e.
Proof.
  intros pr oc ms. induction ms as [|m ms IH]; intros e tc Hw Ha HF; [reflexivity|].
  inv HF. destruct H1 as [Hd Hdl]. rewrite ep_run_cons.
  rewrite (ep_idle_running pr oc m e tc Hw Ha Hd Hdl). eapply IH; eauto.
Qed.

(* a visit before the deadline and before the peer arrives changes nothing (no action yet) *)
Lemma ep_idle_unmatched : forall pr oc m e,
  waiting e -> e_act e = None -> (forall tp, e_peer e = Some tp -> m < tp) ->
  (forall dl, e_dl e = Some dl -> m < dl) -> ep_visit pr oc m e = e.
Proof.
  intros pr oc m [act dl0 peer du io r st] Hw Ha Hp Hdl. unfold ep_visit, waiting, ep_set in *. cbn in *. subst.
  cbn [pop_astate timer_skips ended_result negb].
  destruct dl0 as [dl|].
  - specialize (Hdl dl eq_refl). replace (dl <=? m) with false by lia. cbn.
    destruct peer as [tp|]; [|reflexivity]. specialize (Hp tp eq_refl). replace (tp <=? m) with false by lia. reflexivity.
  - destruct peer as [tp|]; [|reflexivity]. specialize (Hp tp eq_refl). replace (tp <=? m) with false by lia. reflexivity.
Qed.

Lemma ep_idle_run_unmatched : forall pr oc ms e,
  waiting e -> e_act e = None ->
  Forall (fun m => (forall tp, e_peer e = Some tp -> m < tp) /\ forall dl, e_dl e = Some dl -> m < dl) ms -> ep_run pr oc ms e = e.
Proof.
  intros pr oc ms. induction ms as [|m ms IH]; intros e Hw Ha HF; [reflexivity|].
  inv HF. destruct H1 as [Hp Hdl]. rewrite ep_run_cons.
  rewrite (ep_idle_unmatched pr oc m e Hw Ha Hp Hdl). eapply IH; eauto.
Qed.

(* what "cancelled" means for the activity: out of the mailbox / its action out of the heap for ever *)
Definition cancelled (e : episode) : Prop := e_cst e = CCanceled \/ e_act e = Some AFailed.

(* dates closer than the precision are merged by the engine: the statement is about dates that are either equal or
   at least the precision apart *)
Definition separated (pr tc : Z) (ms : list Z) : Prop := forall m, In m ms -> Z.abs (tc - m) < pr -> m = tc.

Lemma due_self : forall pr tc io, 0 < pr -> due pr tc tc io = true.
Proof. intros. unfold due. destruct io; lia. Qed.
Lemma not_due_before : forall pr m tc io, m < tc -> (Z.abs (tc - m) < pr -> m = tc) -> not_due pr m tc io.
Proof. intros. unfold not_due, due. destruct io; lia. Qed.

(** The activity already has its action when the wait is issued (exec, I/O, comm whose peer is there): completion date tc. *)
Theorem wait_exact_running : forall pr oc ms e tc td,
  0 < pr -> incr ms -> separated pr tc ms ->
  waiting e -> e_act e = Some (ARun tc) -> e_dl e = Some td ->
  In td ms -> (tc <= td -> In tc ms) ->
  let e' := ep_run pr oc ms e in
  (tc <= td -> e_res e' = EDone tc /\ e_cst e' = CDone tc) /\
  (td < tc -> e_res e' = ETimeout td /\ (oc = true -> cancelled e')).
Proof.
  intros pr oc ms e tc td Hpr Hinc Hsep Hw Ha Hdl Htd Htc. cbn zeta. split; intros Hcmp.
  - (* completes at tc <= td *)
    destruct (in_split _ _ (Htc Hcmp)) as (l1 & l2 & ->). rewrite ep_run_app.
    destruct (incr_split _ _ _ Hinc) as [Hb _].
    rewrite (ep_idle_run pr oc l1 e tc Hw Ha).
    2:{ rewrite Forall_forall in *. intros m Hm. specialize (Hb m Hm). cbn in Hb. split.
        - apply not_due_before; [lia|]. intros. apply Hsep; [apply in_or_app; left; exact Hm | assumption].
        - intros dl Hd. rewrite Hdl in Hd. inv Hd. lia. }
    rewrite ep_run_cons.
    assert (Hv : e_res (ep_visit pr oc tc e) = EDone tc /\ e_cst (ep_visit pr oc tc e) = CDone tc).
    { unfold ep_visit, waiting in *. rewrite Hw, Ha, Hdl. cbn [pop_astate]. rewrite due_self by exact Hpr.
      cbn [timer_skips negb]. rewrite andb_false_r. cbn. split; reflexivity. }
    rewrite ep_run_over; [exact Hv | destruct Hv as [Hr _]; rewrite Hr; discriminate].
  - (* deadline first *)
    destruct (in_split _ _ Htd) as (l1 & l2 & ->). rewrite ep_run_app.
    destruct (incr_split _ _ _ Hinc) as [Hb _].
    rewrite (ep_idle_run pr oc l1 e tc Hw Ha).
    2:{ rewrite Forall_forall in *. intros m Hm. specialize (Hb m Hm). cbn in Hb. split.
        - apply not_due_before; [lia|]. intros. apply Hsep; [apply in_or_app; left; exact Hm | assumption].
        - intros dl Hd. rewrite Hdl in Hd. inv Hd. lia. }
    rewrite ep_run_cons.
    assert (Hnd : due pr td tc (e_io e) = false).
    { apply not_due_before; [lia|]. intros. apply Hsep; [apply in_or_app; right; left; reflexivity | assumption]. }
    assert (Hv : e_res (ep_visit pr oc td e) = ETimeout td /\ (oc = true -> cancelled (ep_visit pr oc td e))).
    { unfold ep_visit, waiting, cancelled in *. rewrite Hw, Ha, Hdl. cbn [pop_astate]. rewrite Hnd.
      cbn [timer_skips negb]. replace (td <=? td) with true by lia. cbn [andb].
      destruct oc; cbn; split; auto; discriminate. }
    rewrite ep_run_over; [exact Hv | destruct Hv as [Hr _]; rewrite Hr; discriminate].
Qed.

(** The comm is still unmatched when the wait is issued (no action): the peer posts at ts (a visited date, before or at
    the deadline or after it), the action then created completes at tc = ts + d.  The callback reads the action when the
    deadline fires, so a completion exactly at the deadline is a completion. *)
Theorem wait_exact_unmatched : forall pr oc ms e ts td,
  0 < pr -> 0 < e_dur e -> incr ms -> separated pr (ts + e_dur e) ms ->
  waiting e -> e_act e = None -> e_cst e = CWaiting -> e_peer e = Some ts -> e_dl e = Some td ->
  In td ms -> (ts <= td -> In ts ms) -> (ts + e_dur e <= td -> In (ts + e_dur e) ms) ->
  let tc := ts + e_dur e in
  let e' := ep_run pr oc ms e in
  (tc <= td -> e_res e' = EDone tc /\ e_cst e' = CDone tc) /\
  (td < tc -> e_res e' = ETimeout td /\ (oc = true -> cancelled e')).
Proof.
  intros pr oc ms e ts td Hpr Hd Hinc Hsep Hw Ha Hst Hp Hdl Htd Hts Htc. cbn zeta.
  destruct (Z_lt_le_dec td ts) as [Hlt|Hle].
  - (* the deadline comes before the peer *)
    split; intros Hcmp; [lia|].
    destruct (in_split _ _ Htd) as (l1 & l2 & ->). rewrite ep_run_app.
    destruct (incr_split _ _ _ Hinc) as [Hb _].
    rewrite (ep_idle_run_unmatched pr oc l1 e Hw Ha).
    2:{ rewrite Forall_forall in *. intros m Hm. specialize (Hb m Hm). cbn in Hb. split.
        - intros tp Ht. rewrite Hp in Ht. inv Ht. lia.
        - intros dl Hx. rewrite Hdl in Hx. inv Hx. lia. }
    rewrite ep_run_cons.
    assert (Hv : e_res (ep_visit pr oc td e) = ETimeout td /\ (oc = true -> cancelled (ep_visit pr oc td e))).
    { unfold ep_visit, waiting, cancelled in *. rewrite Hw, Ha, Hdl. cbn [pop_astate timer_skips negb].
      replace (td <=? td) with true by lia. cbn [andb].
      rewrite Hst. destruct oc; cbn; split; auto; discriminate. }
    rewrite ep_run_over; [exact Hv | destruct Hv as [Hr _]; rewrite Hr; discriminate].
  - (* the peer arrives at ts <= td *)
    destruct (in_split _ _ (Hts Hle)) as (l1 & l2 & Hms). subst ms. rewrite ep_run_app.
    destruct (incr_split _ _ _ Hinc) as [Hb Ha2].
    rewrite (ep_idle_run_unmatched pr oc l1 e Hw Ha).
    2:{ rewrite Forall_forall in *. intros m Hm. specialize (Hb m Hm). cbn in Hb. split.
        - intros tp Ht. rewrite Hp in Ht. inv Ht. lia.
        - intros dl Hx. rewrite Hdl in Hx. inv Hx. lia. }
    rewrite ep_run_cons.
    destruct (Z.eq_dec td ts) as [Heq|Hne].
    + (* the deadline at the very date the peer posts: the timer fires before the sub-round of the peer *)
      subst td. split; intros Hcmp; [lia|].
      assert (Hv : e_res (ep_visit pr oc ts e) = ETimeout ts /\ (oc = true -> cancelled (ep_visit pr oc ts e))).
      { unfold ep_visit, waiting, cancelled in *. rewrite Hw, Ha, Hdl. cbn [pop_astate timer_skips negb].
        replace (ts <=? ts) with true by lia. cbn [andb].
        rewrite Hst. destruct oc; cbn; split; auto; discriminate. }
      rewrite ep_run_over; [exact Hv | destruct Hv as [Hr _]; rewrite Hr; discriminate].
    + (* the action is created at ts; the rest is the running case *)
      set (e1 := ep_visit pr oc ts e).
      assert (H1 : waiting e1 /\ e_act e1 = Some (ARun (ts + e_dur e)) /\ e_dl e1 = Some td /\ e_dur e1 = e_dur e).
      { subst e1. unfold ep_visit, waiting in *. rewrite Hw, Ha, Hdl, Hp. cbn [pop_astate timer_skips negb ended_result].
        replace (td <=? ts) with false by lia. cbn [andb]. replace (ts <=? ts) with true by lia. cbn. auto. }
      destruct H1 as (Hw1 & Ha1 & Hdl1 & Hd1).
      assert (Hinc2 : incr l2). { clear - Hinc. induction l1; cbn [app] in Hinc; [exact (incr_tail _ _ Hinc) | apply IHl1; exact (incr_tail _ _ Hinc)]. }
      assert (Hin2 : forall x, ts < x -> In x (l1 ++ ts :: l2) -> In x l2).
      { intros x Hx Hi. apply in_app_or in Hi. destruct Hi as [Hi|[Hi|Hi]]; auto.
        - rewrite Forall_forall in Hb. specialize (Hb x Hi). cbn in Hb. lia.
        - lia. }
      assert (Hsep2 : separated pr (ts + e_dur e) l2).
      { intros m Hm. apply Hsep. apply in_or_app. right. right. exact Hm. }
      pose proof (wait_exact_running pr oc l2 e1 (ts + e_dur e) td Hpr Hinc2 Hsep2 Hw1 Ha1 Hdl1) as HR.
      cbn zeta in HR. apply HR.
      * apply Hin2; [lia | exact Htd].
      * intros Hc. apply Hin2; [lia | exact (Htc Hc)].
Qed.

(** Nobody ever posts the other side: timeout exactly at the deadline. *)
Theorem wait_never_matched : forall pr oc ms e td,
  incr ms -> waiting e -> e_act e = None -> e_cst e = CWaiting -> e_peer e = None -> e_dl e = Some td -> In td ms ->
  let e' := ep_run pr oc ms e in e_res e' = ETimeout td /\ (oc = true -> cancelled e').
Proof.
  intros pr oc ms e td Hinc Hw Ha Hst Hp Hdl Htd. cbn zeta.
  destruct (in_split _ _ Htd) as (l1 & l2 & ->). rewrite ep_run_app.
  destruct (incr_split _ _ _ Hinc) as [Hb _].
  rewrite (ep_idle_run_unmatched pr oc l1 e Hw Ha).
  2:{ rewrite Forall_forall in *. intros m Hm. specialize (Hb m Hm). cbn in Hb. split.
      - intros tp Ht. rewrite Hp in Ht. discriminate.
      - intros dl Hx. rewrite Hdl in Hx. inv Hx. lia. }
  rewrite ep_run_cons.
  assert (Hv : e_res (ep_visit pr oc td e) = ETimeout td /\ (oc = true -> cancelled (ep_visit pr oc td e))).
  { unfold ep_visit, waiting, cancelled in *. rewrite Hw, Ha, Hdl. cbn [pop_astate timer_skips negb].
    replace (td <=? td) with true by lia. cbn [andb].
    rewrite Hst. destruct oc; cbn; split; auto; discriminate. }
  rewrite ep_run_over; [exact Hv | destruct Hv as [Hr _]; rewrite Hr; discriminate].
Qed.

(** Without a deadline (wait()): completes at tc. *)
Theorem wait_untimed_running : forall pr oc ms e tc,
  0 < pr -> incr ms -> separated pr tc ms -> waiting e -> e_act e = Some (ARun tc) -> e_dl e = None -> In tc ms ->
  e_res (ep_run pr oc ms e) = EDone tc.
Proof.
  intros pr oc ms e tc Hpr Hinc Hsep Hw Ha Hdl Htc.
  destruct (in_split _ _ Htc) as (l1 & l2 & ->). rewrite ep_run_app.
  destruct (incr_split _ _ _ Hinc) as [Hb _].
  rewrite (ep_idle_run pr oc l1 e tc Hw Ha).
  2:{ rewrite Forall_forall in *. intros m Hm. specialize (Hb m Hm). cbn in Hb. split.
      - apply not_due_before; [lia|]. intros. apply Hsep; [apply in_or_app; left; exact Hm | assumption].
      - intros dl Hd. rewrite Hdl in Hd. discriminate. }
  rewrite ep_run_cons.
  assert (Hv : e_res (ep_visit pr oc tc e) = EDone tc).
  { unfold ep_visit, waiting in *. rewrite Hw, Ha, Hdl. cbn [pop_astate]. rewrite due_self by exact Hpr. cbn. reflexivity. }
  rewrite ep_run_over; [exact Hv | rewrite Hv; discriminate].
Qed.

(* ============================================================================================== the engine steps *)
Lemma get_actor_pid : forall p l a, get_actor p l = Some a -> a_pid a = p.
Proof. intros p l. induction l as [|b l IH]; cbn; intros a H; [discriminate|]. destruct (a_pid b =? p) eqn:E; [inv H; lia | auto]. Qed.

Lemma get_upd_actor_same : forall p f l a, get_actor p l = Some a -> a_pid (f a) = p ->
  get_actor p (upd_actor p f l) = Some (f a).
Proof.
  intros p f l. induction l as [|b l IH]; cbn; intros a H Hf; [discriminate|].
  destruct (a_pid b =? p) eqn:E.
  - injection H as ->. cbn. replace (a_pid (f a) =? p) with true by lia. reflexivity.
  - cbn. rewrite E. auto.
Qed.

Lemma get_upd_actor_other : forall p q f l, p <> q -> (forall a, a_pid (f a) = a_pid a) ->
  get_actor q (upd_actor p f l) = get_actor q l.
Proof.
  intros p q f l. induction l as [|b l IH]; cbn; intros Hpq Hf; [reflexivity|].
  destruct (a_pid b =? p) eqn:E; cbn.
  - rewrite Hf. replace (a_pid b =? q) with false by lia. reflexivity.
  - destruct (a_pid b =? q); auto.
Qed.

Lemma get_upd_set_st : forall p st l a, get_actor p l = Some a ->
  get_actor p (upd_actor p (fun a => set_st a st) l) = Some (set_st a st).
Proof. intros p st l a H. apply (get_upd_actor_same p (fun a => set_st a st) l a H). cbn. eapply get_actor_pid; exact H. Qed.

Lemma get_comm_key : forall k l x, get_comm k l = Some x -> c_key x = k.
Proof. intros k l. induction l as [|b l IH]; cbn; intros x H; [discriminate|]. destruct (c_key b =? k) eqn:E; [inv H; lia | auto]. Qed.

Lemma get_upd_comm_same : forall k f l x, get_comm k l = Some x -> c_key (f x) = k ->
  get_comm k (upd_comm k f l) = Some (f x).
Proof.
  intros k f l. induction l as [|b l IH]; cbn; intros x H Hf; [discriminate|].
  destruct (c_key b =? k) eqn:E.
  - injection H as ->. cbn. replace (c_key (f x) =? k) with true by lia. reflexivity.
  - cbn. rewrite E. auto.
Qed.

(** When the deadline of a wait_for is reached, the callback looks at the action the activity has NOW: finished (or
    failed) in this very solve() -> the timer does nothing and the wait goes on (it is answered by handle_ended_actions
    at the same date); anything else, including "no action yet" for an unmatched comm -> TimeoutException at that date. *)
Lemma timeout_spec : forall s p a k dl x,
  get_actor p (actors s) = Some a -> a_st a = SBlocked (BWait k (Some dl)) -> dl <= clock s ->
  get_comm k (comms s) = Some x ->
  exists a', get_actor p (actors (fire_timeout s p)) = Some a' /\ clock (fire_timeout s p) = clock s /\
    if timer_skips (c_act x) then a_st a' = SBlocked (BWait k None) /\ comms (fire_timeout s p) = comms s
    else a_st a' = SReady 1 (seq s).
Proof.
  intros s p a k dl x Hg Hst Hdl Hc. unfold fire_timeout. rewrite Hg, Hst. replace (dl <=? clock s) with true by lia. rewrite Hc.
  pose proof (get_actor_pid _ _ _ Hg) as Hp.
  destruct (timer_skips (c_act x)).
  - exists (set_st a (SBlocked (BWait k None))). repeat split.
    unfold mod_actor. cbn. apply get_upd_set_st; exact Hg.
  - exists (set_st a (SReady 1 (seq s))). repeat split.
    unfold answer, bump, mod_actor, mod_comm. cbn. apply get_upd_set_st; exact Hg.
Qed.

Lemma timeout_not_before : forall s p a k dl,
  get_actor p (actors s) = Some a -> a_st a = SBlocked (BWait k (Some dl)) -> clock s < dl -> fire_timeout s p = s.
Proof. intros s p a k dl Hg Hst Hlt. unfold fire_timeout. rewrite Hg, Hst. replace (dl <=? clock s) with false by lia. reflexivity. Qed.

(** A comm posted while nobody waits on the other side has no action; the action (with its completion date) is created
    by the post that matches it. *)
Lemma put_unmatched_no_action : forall s p c d s',
  post_put s p c d = Some s' -> waiting_recv c (comms s) = None ->
  exists x, comms s' = comms s ++ [x] /\ c_id x = c /\ c_snd x = Some p /\ c_rcv x = None /\ c_st x = CWaiting /\ c_act x = None /\ c_wait x = [].
Proof.
  intros s p c d s' H Hn. unfold post_put in H. rewrite Hn in H.
  destruct ((d <? 1) || has_snd c (comms s) || has_id c (filter c_io (comms s)) || known c p (comms s)); [discriminate|].
  inv H. eexists. split; [reflexivity|]. cbn. repeat split.
Qed.

Lemma get_unmatched_no_action : forall s p c s',
  post_get s p c = Some s' -> waiting_send c (comms s) = None ->
  exists x, comms s' = comms s ++ [x] /\ c_id x = c /\ c_rcv x = Some p /\ c_snd x = None /\ c_st x = CWaiting /\ c_act x = None /\ c_wait x = [].
Proof.
  intros s p c s' H Hn. unfold post_get in H. rewrite Hn in H.
  destruct (has_rcv c (comms s) || has_id c (filter c_io (comms s)) || known c p (comms s)); [discriminate|].
  inv H. eexists. split; [reflexivity|]. cbn. repeat split.
Qed.

Lemma get_matches_creates_action : forall s p c s' x,
  post_get s p c = Some s' -> waiting_send c (comms s) = Some x -> get_comm (c_key x) (comms s) = Some x ->
  exists x', get_comm (c_key x) (comms s') = Some x' /\ c_st x' = CRunning /\ c_act x' = Some (ARun (clock s + c_dur x)) /\
             c_wait x' = c_wait x /\ clock s' = clock s.
Proof.
  intros s p c s' x H Hm Hk. unfold post_get in H. rewrite Hm in H.
  destruct (has_rcv c (comms s) || has_id c (filter c_io (comms s)) || known c p (comms s)); [discriminate|].
  inv H. eexists. split; [unfold mod_comm; cbn; apply get_upd_comm_same; [exact Hk | reflexivity] |]. cbn. repeat split.
Qed.

Lemma put_matches_creates_action : forall s p c d s' x,
  post_put s p c d = Some s' -> waiting_recv c (comms s) = Some x -> get_comm (c_key x) (comms s) = Some x ->
  exists x', get_comm (c_key x) (comms s') = Some x' /\ c_st x' = CRunning /\ c_act x' = Some (ARun (clock s + d)) /\
             c_wait x' = c_wait x /\ clock s' = clock s.
Proof.
  intros s p c d s' x H Hm Hk. unfold post_put in H. rewrite Hm in H.
  destruct ((d <? 1) || has_snd c (comms s) || has_id c (filter c_io (comms s)) || known c p (comms s)); [discriminate|].
  inv H. eexists. split; [unfold mod_comm; cbn; apply get_upd_comm_same; [exact Hk | reflexivity] |]. cbn. repeat split.
Qed.

(** finish(): every registered waiter is answered (0 for a finished action, 3 for a cancelled one) at the current date. *)
Lemma answer_fold : forall r l s q,
  In q l -> get_actor q (actors s) <> None ->
  exists a' n, get_actor q (actors (fold_left (fun s q => answer s q r) l s)) = Some a' /\ a_st a' = SReady r n.
Proof.
  intros r l. induction l as [|h l IH] using rev_ind; intros s q Hin Hex; [destruct Hin|].
  rewrite fold_left_app. cbn [fold_left].
  set (s1 := fold_left (fun s q => answer s q r) l s).
  assert (Hex1 : forall z, get_actor z (actors s) <> None -> get_actor z (actors s1) <> None).
  { subst s1. clear. revert s. induction l as [|h l IH]; intros s z Hz; [exact Hz|]. cbn [fold_left]. apply IH.
    unfold answer, bump, mod_actor. cbn. destruct (get_actor z (actors s)) as [az|] eqn:Ez; [|congruence].
    destruct (Z.eq_dec h z) as [->|Hne].
    - rewrite (get_upd_set_st _ _ _ _ Ez). discriminate.
    - rewrite get_upd_actor_other; [congruence | exact Hne | reflexivity]. }
  destruct (Z.eq_dec h q) as [->|Hne].
  - destruct (get_actor q (actors s1)) as [aq|] eqn:Eq; [|exfalso; exact (Hex1 q Hex Eq)].
    exists (set_st aq (SReady r (seq s1))), (seq s1). split; [|reflexivity].
    unfold answer, bump, mod_actor. cbn. apply get_upd_set_st; exact Eq.
  - apply in_app_or in Hin. destruct Hin as [Hin|[Hin|[]]]; [|congruence].
    destruct (IH s q Hin Hex) as (a' & n & Hg & Hs). exists a', n. split; [|exact Hs].
    unfold answer, bump, mod_actor. cbn. rewrite get_upd_actor_other; [exact Hg | exact Hne | reflexivity].
Qed.

Lemma fold_answer_comms : forall r l s, comms (fold_left (fun s q => answer s q r) l s) = comms s /\
                                        clock (fold_left (fun s q => answer s q r) l s) = clock s.
Proof. intros r l. induction l as [|h l IH]; intros s; [split; reflexivity|]. cbn [fold_left]. destruct (IH (answer s h r)) as [H1 H2]. rewrite H1, H2. split; reflexivity. Qed.

Lemma end_rec_spec : forall s k x r,
  get_comm k (comms s) = Some x -> ended_result (c_act x) = Some r ->
  let s' := end_rec s k in
  clock s' = clock s /\
  (exists x', get_comm k (comms s') = Some x' /\ c_act x' = None /\ c_wait x' = [] /\
              c_st x' = if r =? 0 then CDone (clock s) else if c_io x then CCanceled else CFailed) /\
  (forall q, In q (c_wait x) -> get_actor q (actors s) <> None ->
     exists a' n, get_actor q (actors s') = Some a' /\ a_st a' = SReady r n).
Proof.
  intros s k x r Hk Hr. cbn zeta. unfold end_rec. rewrite Hk, Hr.
  set (s1 := mod_comm s k _).
  destruct (fold_answer_comms r (c_wait x) s1) as [Hc Hcl]. split; [rewrite Hcl; reflexivity|]. split.
  - rewrite Hc. eexists. split; [subst s1; unfold mod_comm; cbn; apply get_upd_comm_same; [exact Hk | cbn; eapply get_comm_key; exact Hk] |].
    cbn. repeat split.
  - intros q Hq Hex. apply answer_fold; [exact Hq | exact Hex].
Qed.

(** cancel() (wait_for_or_cancel after a timeout, or the end of the actor): a comm still in its mailbox is CANCELED and
    leaves it; the action of a running activity is FAILED and out of the heap: in both cases it never completes. *)
Lemma cancel_spec : forall p x,
  (c_st x = CWaiting -> c_act x = None /\ c_io x = false) -> (c_st x = CWaiting \/ c_st x = CRunning) ->
  let y := cancel_rec p x in
  (forall dt, c_act y <> Some (ARun dt)) /\ c_act y <> Some AFin \/ c_act x = Some AFin /\ c_act y = Some AFin.
Proof.
  intros p x Hw Hst. cbn zeta. unfold cancel_rec. destruct Hst as [Hs|Hs]; rewrite Hs.
  - destruct (Hw Hs) as [Ha Hio]. rewrite Hio. cbn. rewrite Ha. left. split; [intros; discriminate | discriminate].
  - destruct (c_act x) as [[dt| |]|] eqn:Ea; cbn; try (left; split; [intros; discriminate | discriminate]).
    right. split; reflexivity.
Qed.

Lemma cancel_waiting_canceled : forall p x, c_st x = CWaiting -> c_io x = false -> c_st (cancel_rec p x) = CCanceled.
Proof. intros p x Hs Hio. unfold cancel_rec. rewrite Hs, Hio. reflexivity. Qed.
Lemma cancel_running_failed : forall p x dt, c_st x = CRunning -> c_act x = Some (ARun dt) -> c_act (cancel_rec p x) = Some AFailed.
Proof. intros p x dt Hs Ha. unfold cancel_rec. rewrite Hs, Ha. reflexivity. Qed.

(** solve() stops at the earliest pending date: no deadline and no completion date is jumped over. *)
Lemma fold_omin_mono : forall l x m, fold_left omin l (Some x) = Some m -> m <= x.
Proof. induction l as [|h l IH]; intros x m H; [inv H; lia|]. cbn in H. specialize (IH _ _ H). lia. Qed.

Lemma fold_omin_le : forall l a d, In d l -> forall m, fold_left omin l a = Some m -> m <= d.
Proof.
  induction l as [|h l IH]; intros a d Hin m H; [destruct Hin|]. cbn [fold_left] in H.
  destruct Hin as [->|Hin]; [|eapply IH; eauto].
  destruct a as [x|]; cbn in H; apply fold_omin_mono in H; lia.
Qed.

Lemma clock_fold : forall (A : Type) (f : state -> A -> state) l s, (forall s x, clock (f s x) = clock s) -> clock (fold_left f l s) = clock s.
Proof. intros A f l. induction l as [|h l IH]; intros s Hf; [reflexivity|]. cbn. rewrite IH by exact Hf. apply Hf. Qed.

Lemma clock_end_rec : forall s k, clock (end_rec s k) = clock s.
Proof.
  intros s k. unfold end_rec. destruct (get_comm k (comms s)) as [x|]; [|reflexivity].
  destruct (ended_result (c_act x)) as [r|]; [|reflexivity].
  destruct (fold_answer_comms r (c_wait x) (mod_comm s k (fun x0 => set_comm x0 (if r =? 0 then CDone (clock s) else if c_io x then CCanceled else CFailed) None [] (c_wait x0 ++ c_closed x0)))) as [_ H].
  rewrite H. reflexivity.
Qed.
Lemma clock_end_sleep : forall s p, clock (end_sleep s p) = clock s.
Proof. intros s p. unfold end_sleep. destruct (get_actor p (actors s)) as [a|]; [|reflexivity]. destruct (a_st a) as [| | |[| |]|]; reflexivity. Qed.
Lemma clock_handle_ended : forall s, clock (handle_ended s) = clock s.
Proof.
  intros s. unfold handle_ended. rewrite clock_fold by apply clock_end_sleep.
  rewrite clock_fold by apply clock_end_rec. rewrite clock_fold by apply clock_end_rec. reflexivity.
Qed.
Lemma clock_fire_timeout : forall s p, clock (fire_timeout s p) = clock s.
Proof.
  intros s p. unfold fire_timeout. destruct (get_actor p (actors s)) as [a|]; [|reflexivity].
  destruct (a_st a) as [| | |[| |k [dl|]]|]; try reflexivity.
  destruct (dl <=? clock s); [|reflexivity]. destruct (get_comm k (comms s)) as [x|]; [|reflexivity].
  destruct (timer_skips (c_act x)); reflexivity.
Qed.

Lemma advance_stops_at_earliest : forall s s' d,
  advance s = Some s' -> In d (all_dates s) -> stuck s' = false -> clock s' <= d.
Proof.
  intros s s' d H Hin Hst. unfold advance in H. destruct (next_date s) as [m|] eqn:En; [|discriminate].
  pose proof (fold_omin_le _ None d Hin m En) as Hle.
  destruct (m <? clock s) eqn:Em.
  - inv H. cbn in Hst. discriminate.
  - inv H. rewrite clock_handle_ended. unfold fire_timers. rewrite clock_fold by apply clock_fire_timeout. cbn. exact Hle.
Qed.

(** the dates of a waiting actor and of a running action are among the pending dates *)
Lemma deadline_is_pending : forall s a k dl, In a (actors s) -> a_st a = SBlocked (BWait k (Some dl)) -> In dl (all_dates s).
Proof.
  intros s a k dl Hin Hst. unfold all_dates. apply in_or_app. left. apply in_flat_map. exists a. split; [exact Hin|].
  unfold actor_dates. rewrite Hst. left. reflexivity.
Qed.
Lemma completion_is_pending : forall s x dt, In x (comms s) -> c_act x = Some (ARun dt) -> In dt (all_dates s).
Proof.
  intros s x dt Hin Ha. unfold all_dates. apply in_or_app. right. apply in_flat_map. exists x. split; [exact Hin|].
  unfold comm_dates. rewrite Ha. left. reflexivity.
Qed.

(** the action of a comm is popped (FINISHED) by solve() exactly when its date is within the precision of the new clock *)
Lemma comm_pop_spec : forall s m x dt, c_act x = Some (ARun dt) ->
  c_act (pop_comm s m x) = if due (prec s) m dt (c_io x) then Some AFin else Some (ARun dt).
Proof. intros s m x dt Ha. unfold pop_comm, set_act, set_comm, pop_astate. cbn. rewrite Ha. destruct (due (prec s) m dt (c_io x)); reflexivity. Qed.
