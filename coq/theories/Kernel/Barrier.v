(** C07 — Barrier (src/kernel/activity/BarrierImpl.cpp, src/s4u/s4u_Barrier.cpp, non-MC path).

    [s4u::Barrier::wait] outside the model checker is ONE blocking simcall:
        auto p = pimpl_->acquire_async(issuer); p->wait_for(issuer, -1); observer.set_result(was_last());
    so an actor sitting in [ongoing_acquisitions_] is always blocked in that simcall (it is in its
    [waiting_synchros_]): the test "if the issuer is blocked on the acquisition then finish()" of the release loop is
    always true on this path and is not represented.  The two-simcall MC path (BARRIER_ASYNC_LOCK / BARRIER_WAIT) is
    NOT modelled here.

    Ghost state: [arrived] counts the accepted arrivals and every queue entry carries the index of its arrival.
    Nothing in [step] branches on ghost values; they only let the theorems speak about "the i-th arrival". *)
From SGV Require Import Base.Tactics.
Local Open Scope Z_scope.

Definition pid := Z.
Definition W32 : Z := 2 ^ 32.            (* expected_actors_ is an unsigned int *)

Record bar := mkBar { expected : Z; arrived : Z; queue : list (pid * Z) }.

Inductive out :=
| Rejected                                           (* the caller is blocked in a wait on this barrier: it cannot run *)
| Blocked                                            (* pushed to ongoing_acquisitions_; was_last() = false *)
| Release (woken : list (pid * Z)) (self : pid * Z). (* granted_ + finish() for every queued one, queue cleared,
                                                        the caller is granted at once; was_last() = true for it *)

Definition in_queue (p : pid) (q : list (pid * Z)) : bool := existsb (fun e => fst e =? p) q.

(* BarrierImpl::acquire_async followed by BarrierAcquisitionImpl::wait_for *)
Definition step (b : bar) (p : pid) : bar * out :=
  if in_queue p (queue b) then (b, Rejected)
  else
    let me := (p, arrived b) in
    if Z.of_nat (length (queue b)) <? (expected b - 1) mod W32         (* size() < expected_actors_ - 1, unsigned *)
    then (mkBar (expected b) (arrived b + 1) (queue b ++ [me]), Blocked)
    else (mkBar (expected b) (arrived b + 1) [], Release (queue b) me).

Definition init (n : Z) : bar := mkBar (n mod W32) 0 [].

Definition exec (n : Z) (ops : list pid) : bar := fold_left (fun b p => fst (step b p)) ops (init n).

Fixpoint run (b : bar) (ops : list pid) : list out :=
  match ops with
  | [] => []
  | p :: r => let '(b', o) := step b p in o :: run b' r
  end.

(** consecutive integers *)
Fixpoint zseq (start : Z) (len : nat) : list Z :=
  match len with O => [] | S k => start :: zseq (start + 1) k end.

(** ------------------------------------------------------------------------------------------------------------
    Executable entry point (extraction).  Input:  n  (op pid)*   with op 7 = wait, op 10 = peek (state dump).
    Output per op:  wait -> code k q1..qk   (code 0 rejected, 1 blocked, 2 release; q = woken pids in wake order)
                    peek -> 3 k q1..qk      (pids in ongoing_acquisitions_) *)
Fixpoint run_io (b : bar) (l : list Z) (fuel : nat) : list Z :=
  match fuel with
  | O => []
  | S f =>
    match l with
    | op :: p :: r =>
      if op =? 10 then 3 :: Z.of_nat (length (queue b)) :: map fst (queue b) ++ run_io b r f
      else
        let '(b', o) := step b p in
        match o with
        | Rejected => 0 :: 0 :: run_io b' r f
        | Blocked => 1 :: 0 :: run_io b' r f
        | Release w _ => 2 :: Z.of_nat (length w) :: map fst w ++ run_io b' r f
        end
    | _ => []
    end
  end.
Definition run_c07 (inp : list Z) : list Z :=
  match inp with
  | n :: r => run_io (init n) r (length r)
  | _ => [-1]
  end.

(** ------------------------------------------------------------------------------------------------------------
    Oracle on what the implementation was seen doing.  One barrier of size n (1 <= n); the arrivals in the order the
    kernel executed them, each with: date of the request, [ret_pos] = how many arrivals had been requested when the
    call was seen returning (-1: it never returned), date of the return.
    Verdict per arrival: 0 fine, 1 returned before its group was complete, 2 its group completed but it did not
    return, 3 it returned although its group never completed, 4 it returned at a date other than the date of the
    arrival that completed its group. *)
Record arrival := mkArr { a_req : Z; a_pos : Z; a_ret : Z }.

Definition judge_one (n m : Z) (arrs : list arrival) (i : Z) (a : arrival) : Z :=
  let c := n * (i / n + 1) in              (* number of arrivals that completes the group of arrival i *)
  if c <=? m then
    if a_pos a <? 0 then 2
    else if a_pos a <? c then 1
    else match nth_error arrs (Z.to_nat (c - 1)) with
         | Some l => if a_ret a =? a_req l then 0 else 4
         | None => 4
         end
  else if a_pos a <? 0 then 0 else 3.

Fixpoint judge_from (n m : Z) (arrs : list arrival) (i : Z) (l : list arrival) : list Z :=
  match l with
  | [] => []
  | a :: r => judge_one n m arrs i a :: judge_from n m arrs (i + 1) r
  end.
Definition judge (n : Z) (arrs : list arrival) : list Z :=
  judge_from n (Z.of_nat (length arrs)) arrs 0 arrs.

Fixpoint take_arrs (l : list Z) (fuel : nat) : list arrival :=
  match fuel with
  | O => []
  | S f => match l with
           | a :: b :: c :: r => mkArr a b c :: take_arrs r f
           | _ => []
           end
  end.
(* input: n (req pos ret)* *)
Definition run_c07_judge (inp : list Z) : list Z :=
  match inp with
  | n :: r => if n <=? 0 then [-1] else judge n (take_arrs r (length r))
  | _ => [-1]
  end.

(** ============================================================================================================
    The two-simcall protocol (model checker, replay mode: [MC_is_active() || MC_record_replay_is_active()]):
        auto acq = simcall_answered(BARRIER_ASYNC_LOCK){ pimpl_->acquire_async(issuer) };      -- [ALock p]
        simcall_blocking(BARRIER_WAIT){ acq->wait_for(issuer, -1) };                            -- [AWait p]
    Any other actor may run between the two.  An acquisition lives from its creation by [acquire_async] until the
    wait on it returns; [s_acqs] lists the live ones in creation order: issuer, ghost arrival number, [granted_], and
    whether the issuer is blocked in [wait_for] on it (it is in the issuer's [waiting_synchros_]).
    [acquire_async] by the last of a group walks [ongoing_acquisitions_]: every acquisition becomes granted; the ones
    whose issuer is blocked on them are finish()ed (the issuer resumes: they are no longer live); the queue is
    cleared.  [wait_for] finishes at once when the acquisition is granted, else the issuer stays blocked.
    A model checker only fires an enabled BARRIER_WAIT (a granted one); the model also covers the wait issued before
    the grant (what the one-simcall path does), so every interleaving of the two simcalls is a list of [sop]. *)
Inductive sop := ALock (p : pid) | AWait (p : pid).

Record acq := mkAcq { q_pid : pid; q_idx : Z; q_granted : bool; q_waiting : bool }.
Record sbar := mkS { s_bar : bar; s_acqs : list acq }.

Inductive sout :=
| SRejected                      (* the actor has no such simcall pending (ALock while it holds an acquisition, AWait
                                    without one or while already blocked): nothing happens *)
| SQueued                        (* ALock: pushed to ongoing_acquisitions_, not granted *)
| SGrant (woken marked : list (pid * Z)) (self : pid * Z)
                                 (* ALock by the last of a group: [woken] were blocked in wait_for and resume now,
                                    [marked] are granted and will return as soon as they wait; queue cleared *)
| SBlocks                        (* AWait on an acquisition that is not granted yet *)
| SReturns (self : pid * Z).     (* AWait on a granted acquisition: returns at once *)

Definition find_acq (p : pid) (l : list acq) : option acq := find (fun a => q_pid a =? p) l.

Fixpoint remove_first (p : pid) (l : list acq) : list acq :=
  match l with
  | [] => []
  | a :: r => if q_pid a =? p then r else a :: remove_first p r
  end.
Fixpoint upd_first (p : pid) (f : acq -> acq) (l : list acq) : list acq :=
  match l with
  | [] => []
  | a :: r => if q_pid a =? p then f a :: r else a :: upd_first p f r
  end.
Definition set_waiting (a : acq) : acq := mkAcq (q_pid a) (q_idx a) (q_granted a) true.
Definition set_granted (a : acq) : acq := mkAcq (q_pid a) (q_idx a) true (q_waiting a).

(* is the issuer of queue entry e blocked on its acquisition? *)
Definition is_waiting (l : list acq) (e : pid * Z) : bool :=
  match find_acq (fst e) l with Some a => q_waiting a | None => false end.

(* the release loop of acquire_async seen from the live acquisitions *)
Fixpoint grant_acqs (q : list (pid * Z)) (l : list acq) : list acq :=
  match l with
  | [] => []
  | a :: r => if in_queue (q_pid a) q
              then (if q_waiting a then grant_acqs q r else set_granted a :: grant_acqs q r)
              else a :: grant_acqs q r
  end.

Definition sstep (s : sbar) (o : sop) : sbar * sout :=
  let b := s_bar s in
  match o with
  | ALock p =>
    match find_acq p (s_acqs s) with
    | Some _ => (s, SRejected)
    | None =>
      let me := (p, arrived b) in
      if Z.of_nat (length (queue b)) <? (expected b - 1) mod W32
      then (mkS (mkBar (expected b) (arrived b + 1) (queue b ++ [me])) (s_acqs s ++ [mkAcq p (arrived b) false false]),
            SQueued)
      else (mkS (mkBar (expected b) (arrived b + 1) [])
                (grant_acqs (queue b) (s_acqs s) ++ [mkAcq p (arrived b) true false]),
            SGrant (filter (is_waiting (s_acqs s)) (queue b))
                   (filter (fun e => negb (is_waiting (s_acqs s) e)) (queue b)) me)
    end
  | AWait p =>
    match find_acq p (s_acqs s) with
    | None => (s, SRejected)
    | Some a =>
      if q_waiting a then (s, SRejected)
      else if q_granted a then (mkS b (remove_first p (s_acqs s)), SReturns (p, q_idx a))
      else (mkS b (upd_first p set_waiting (s_acqs s)), SBlocks)
    end
  end.

Definition sinit (n : Z) : sbar := mkS (init n) [].
Definition sexec (n : Z) (ops : list sop) : sbar := fold_left (fun s o => fst (sstep s o)) ops (sinit n).
Fixpoint srun (s : sbar) (ops : list sop) : list sout :=
  match ops with
  | [] => []
  | o :: r => let '(s', x) := sstep s o in x :: srun s' r
  end.

(* the waits that return because of a step *)
Definition returned (o : sout) : list (pid * Z) :=
  match o with SGrant w _ _ => w | SReturns e => [e] | _ => [] end.

(* projection on the one-simcall protocol: the accepted ALocks, in order, with what [step] answers *)
Definition proj_out (b : bar) (o : sout) : out :=
  match o with SGrant _ _ me => Release (queue b) me | _ => Blocked end.
Fixpoint locks (s : sbar) (ops : list sop) : list (pid * out) :=
  match ops with
  | [] => []
  | o :: r =>
    let '(s', x) := sstep s o in
    match o, x with
    | ALock _, SRejected => locks s' r
    | ALock p, _ => (p, proj_out (s_bar s) x) :: locks s' r
    | AWait _, _ => locks s' r
    end
  end.

(** Executable entry point.  Input: n (op pid)*  with op 0 = ALock, 1 = AWait.
    Output per op: code (0 rejected 1 queued 2 grant 3 blocks 4 returns)  k woken pids (wake order)
                   k queue pids   k (pid granted waiting)* live acquisitions in creation order *)
Definition b2z (b : bool) : Z := if b then 1 else 0.
Definition dump_s (s : sbar) : list Z :=
  Z.of_nat (length (queue (s_bar s))) :: map fst (queue (s_bar s)) ++
  Z.of_nat (length (s_acqs s)) :: flat_map (fun a => [q_pid a; b2z (q_granted a); b2z (q_waiting a)]) (s_acqs s).
Fixpoint srun_io (s : sbar) (l : list Z) (fuel : nat) : list Z :=
  match fuel with
  | O => []
  | S f =>
    match l with
    | op :: p :: r =>
      let '(s', o) := sstep s (if op =? 0 then ALock p else AWait p) in
      let head := match o with
                  | SRejected => [0; 0]
                  | SQueued => [1; 0]
                  | SGrant w _ _ => 2 :: Z.of_nat (length w) :: map fst w
                  | SBlocks => [3; 0]
                  | SReturns _ => [4; 0]
                  end in
      head ++ dump_s s' ++ srun_io s' r f
    | _ => []
    end
  end.
Definition run_c07_split (inp : list Z) : list Z :=
  match inp with
  | n :: r => srun_io (sinit n) r (length r)
  | _ => [-1]
  end.
