(** C07 — Barrier (src/kernel/activity/BarrierImpl.cpp, src/s4u/s4u_Barrier.cpp, non-MC path).

    [s4u::Barrier::wait] outside the model checker is ONE blocking simcall:
        auto p = pimpl_->acquire_async(issuer); p->wait_for(issuer, -1); observer.set_result(was_last());
    so an actor sitting in [ongoing_acquisitions_] is always blocked in that simcall (it is in its
    [waiting_synchros_]): the test "if the issuer is blocked on the acquisition then finish()" of the release loop is
    always true on this path and is not represented.  The two-simcall MC path (BARRIER_ASYNC_LOCK / BARRIER_WAIT) is
    NOT modelled here.

    Ghost state: [arrived] counts the accepted arrivals and every queue entry carries the index of its arrival.
    Nothing in [step] branches on ghost values; they only let the theorems speak about "the i-th arrival". *)
From SGV Require Import Base.Tactics.
Local Open Scope Z_scope.

Definition pid := Z.
Definition W32 : Z := 2 ^ 32.            (* expected_actors_ is an unsigned int *)

Record bar := mkBar { expected : Z; arrived : Z; queue : list (pid * Z) }.

Inductive out :=
| Rejected                                           (* the caller is blocked in a wait on this barrier: it cannot run *)
| Blocked                                            (* pushed to ongoing_acquisitions_; was_last() = false *)
| Release (woken : list (pid * Z)) (self : pid * Z). (* granted_ + finish() for every queued one, queue cleared,
                                                        the caller is granted at once; was_last() = true for it *)

Definition in_queue (p : pid) (q : list (pid * Z)) : bool := existsb (fun e => fst e =? p) q.

(* BarrierImpl::acquire_async followed by BarrierAcquisitionImpl::wait_for *)
Definition step (b : bar) (p : pid) : bar * out :=
  if in_queue p (queue b) then (b, Rejected)
  else
    let me := (p, arrived b) in
    if Z.of_nat (length (queue b)) <? (expected b - 1) mod W32         (* size() < expected_actors_ - 1, unsigned *)
    then (mkBar (expected b) (arrived b + 1) (queue b ++ [me]), Blocked)
    else (mkBar (expected b) (arrived b + 1) [], Release (queue b) me).

Definition init (n : Z) : bar := mkBar (n mod W32) 0 [].

Definition exec (n : Z) (ops : list pid) : bar := fold_left (fun b p => fst (step b p)) ops (init n).

Fixpoint run (b : bar) (ops : list pid) : list out :=
  match ops with
  | [] => []
  | p :: r => let '(b', o) := step b p in o :: run b' r
  end.

(** consecutive integers *)
Fixpoint zseq (start : Z) (len : nat) : list Z :=
  match len with O => [] | S k => start :: zseq (start + 1) k end.

(** ------------------------------------------------------------------------------------------------------------
    Executable entry point (extraction).  Input:  n  (op pid)*   with op 7 = wait, op 10 = peek (state dump).
    Output per op:  wait -> code k q1..qk   (code 0 rejected, 1 blocked, 2 release; q = woken pids in wake order)
                    peek -> 3 k q1..qk      (pids in ongoing_acquisitions_) *)
Fixpoint run_io (b : bar) (l : list Z) (fuel : nat) : list Z :=
  match fuel with
  | O => []
  | S f =>
    match l with
    | op :: p :: r =>
      if op =? 10 then 3 :: Z.of_nat (length (queue b)) :: map fst (queue b) ++ run_io b r f
      else
        let '(b', o) := step b p in
        match o with
        | Rejected => 0 :: 0 :: run_io b' r f
        | Blocked => 1 :: 0 :: run_io b' r f
        | Release w _ => 2 :: Z.of_nat (length w) :: map fst w ++ run_io b' r f
        end
    | _ => []
    end
  end.
Definition run_c07 (inp : list Z) : list Z :=
  match inp with
  | n :: r => run_io (init n) r (length r)
  | _ => [-1]
  end.

(** ------------------------------------------------------------------------------------------------------------
    Oracle on what the implementation was seen doing.  One barrier of size n (1 <= n); the arrivals in the order the
    kernel executed them, each with: date of the request, [ret_pos] = how many arrivals had been requested when the
    call was seen returning (-1: it never returned), date of the return.
    Verdict per arrival: 0 fine, 1 returned before its group was complete, 2 its group completed but it did not
    return, 3 it returned although its group never completed, 4 it returned at a date other than the date of the
    arrival that completed its group. *)
Record arrival := mkArr { a_req : Z; a_pos : Z; a_ret : Z }.

Definition judge_one (n m : Z) (arrs : list arrival) (i : Z) (a : arrival) : Z :=
  let c := n * (i / n + 1) in              (* number of arrivals that completes the group of arrival i *)
  if c <=? m then
    if a_pos a <? 0 then 2
    else if a_pos a <? c then 1
    else match nth_error arrs (Z.to_nat (c - 1)) with
         | Some l => if a_ret a =? a_req l then 0 else 4
         | None => 4
         end
  else if a_pos a <? 0 then 0 else 3.

Fixpoint judge_from (n m : Z) (arrs : list arrival) (i : Z) (l : list arrival) : list Z :=
  match l with
  | [] => []
  | a :: r => judge_one n m arrs i a :: judge_from n m arrs (i + 1) r
  end.
Definition judge (n : Z) (arrs : list arrival) : list Z :=
  judge_from n (Z.of_nat (length arrs)) arrs 0 arrs.

Fixpoint take_arrs (l : list Z) (fuel : nat) : list arrival :=
  match fuel with
  | O => []
  | S f => match l with
           | a :: b :: c :: r => mkArr a b c :: take_arrs r f
           | _ => []
           end
  end.
(* input: n (req pos ret)* *)
Definition run_c07_judge (inp : list Z) : list Z :=
  match inp with
  | n :: r => if n <=? 0 then [-1] else judge n (take_arrs r (length r))
  | _ => [-1]
  end.
