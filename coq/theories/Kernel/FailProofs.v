(** C10 — proofs about SGV.Kernel.Fail *)
From SGV Require Import Base.Tactics Kernel.Fail.
Local Open Scope Z_scope.

Lemma uses_no_wait : forall f, uses f no_wait = false.
Proof. intros [h|l]; reflexivity. Qed.

(** after the failure has been handled, no live actor is still registered on an activity that uses the off resource *)
Theorem all_waiters_answered : forall f a, a_alive (post f a) = true -> uses f (a_wait (post f a)) = false.
Proof.
  intros f a. unfold post, expected.
  destruct (a_alive a) eqn:Ea; cbn [negb].
  - destruct (on_failed_host f a); cbn; [discriminate|].
    destruct (uses f (a_wait a)) eqn:Eu.
    + destruct (w_kind (a_wait a) =? 4); cbn; intros _; apply uses_no_wait.
    + intros _. exact Eu.
  - cbn. rewrite Ea. discriminate.
Qed.

(** which exception a surviving waiter gets *)
Theorem exception_kind : forall f a, a_alive a = true -> on_failed_host f a = false -> uses f (a_wait a) = true ->
  (w_kind (a_wait a) = 4 -> expected f a = 2) /\ (w_kind (a_wait a) <> 4 -> expected f a = 3).
Proof.
  intros f a Ha Hh Hu. unfold expected. rewrite Ha, Hh, Hu. cbn [negb].
  split; intros H; [rewrite H; reflexivity|]. destruct (w_kind (a_wait a) =? 4) eqn:E; [lia|reflexivity].
Qed.

(** only comms, execs and sleeps use resources; an exec/sleep waiter that survives waits for a remote execution *)
Theorem uses_kinds : forall f w, uses f w = true -> w_kind w = 4 \/ w_kind w = 1 \/ w_kind w = 2.
Proof.
  intros [h|l] w; unfold uses.
  - destruct (w_kind w =? 4) eqn:E4; [lia|]. destruct (w_kind w =? 1) eqn:E1; [lia|]. destruct (w_kind w =? 2) eqn:E2; [lia|].
    cbn. discriminate.
  - destruct (w_kind w =? 4) eqn:E4; [lia|]. cbn. discriminate.
Qed.

(** actors of the failed host are killed (their on_exit callbacks then see failed = true: ActorImpl::cleanup_from_self
    passes wannadie(), which exit() has set) and nobody else is *)
Theorem killed_iff_on_failed_host : forall f a, a_alive a = true -> (expected f a = 1 <-> on_failed_host f a = true).
Proof.
  intros f a Ha. unfold expected. rewrite Ha. cbn [negb]. destruct (on_failed_host f a); [split; reflexivity|].
  destruct (uses f (a_wait a)); [destruct (w_kind (a_wait a) =? 4)|]; split; intros; discriminate.
Qed.

(** nobody goes on normally through an off resource: a live actor blocked on an activity that uses the resource that goes
    off is killed or served an exception, whatever its host *)
Theorem no_success_through_off : forall f a, a_alive a = true -> uses f (a_wait a) = true ->
  expected f a = 1 \/ expected f a = 2 \/ expected f a = 3.
Proof.
  intros f a Ha Hu. unfold expected. rewrite Ha, Hu. cbn [negb].
  destruct (on_failed_host f a); [left; reflexivity|]. destruct (w_kind (a_wait a) =? 4); right; [left|right]; reflexivity.
Qed.

(** the oracle is sound: an accepted observation satisfies the four clauses of the property for every actor *)
Definition clause_ok (f : fault) (o : obs) : Prop :=
  let a := o_actor o in
  (a_alive a = true -> on_failed_host f a = true -> o_killed o = true /\ o_failed o = true) /\
  (a_alive a = true -> on_failed_host f a = false -> uses f (a_wait a) = true ->
     (w_kind (a_wait a) = 4 -> o_exc o = 1) /\ (w_kind (a_wait a) <> 4 -> o_exc o = 2)) /\
  (w_kind (o_end o) <> 0 -> uses f (o_end o) = false) /\
  (a_alive a = true -> uses f (a_wait a) = true -> o_done o = false).

Lemma verdict_sound : forall f o, verdict f o = 0 -> clause_ok f o.
Proof.
  intros f o. unfold verdict, clause_ok. cbn zeta.
  destruct (uses f (o_end o)) eqn:Ee; destruct (w_kind (o_end o) =? 0) eqn:E0; cbn [andb negb]; try discriminate;
  (destruct (a_alive (o_actor o)) eqn:Ea; cbn [negb];
   [|intros _; repeat split; intros; try discriminate; try reflexivity; lia]);
  (destruct (uses f (a_wait (o_actor o))) eqn:Eu; destruct (o_done o) eqn:Ed; cbn [andb]; try discriminate);
  (destruct (on_failed_host f (o_actor o)) eqn:Eh;
   [destruct (o_killed o); cbn [negb]; [|discriminate]; destruct (o_failed o); cbn [negb]; [|discriminate];
    intros _; repeat split; intros; try discriminate; try reflexivity; lia|]);
  try (intros _; repeat split; intros; try discriminate; try reflexivity; lia);
  (destruct (o_exc o =? 0) eqn:Ex; [discriminate|]; destruct (w_kind (a_wait (o_actor o)) =? 4) eqn:E4;
   [destruct (o_exc o =? 1) eqn:E1; [|discriminate]|destruct (o_exc o =? 2) eqn:E2; [|discriminate]];
   intros _; repeat split; intros; try discriminate; try reflexivity; lia).
Qed.

Theorem oracle_sound : forall f l, failure_log_ok f l = true -> Forall (clause_ok f) l.
Proof.
  intros f l H. unfold failure_log_ok in H. rewrite forallb_forall in H. apply Forall_forall. intros o Ho.
  apply verdict_sound. specialize (H o Ho). lia.
Qed.

(** the oracle rejects every observation in which an activity using the off resource completed successfully *)
Theorem oracle_rejects_success_through_off : forall f o, a_alive (o_actor o) = true -> uses f (a_wait (o_actor o)) = true ->
  o_done o = true -> verdict f o <> 0.
Proof.
  intros f o Ha Hu Hd. unfold verdict. cbn zeta. rewrite Ha, Hu, Hd. cbn [negb andb].
  destruct (uses f (o_end o) && negb (w_kind (o_end o) =? 0)); discriminate.
Qed.

(** what the model predicts is accepted by the oracle (so the two agree, and the oracle is not vacuous) *)
Definition obs_of_model (f : fault) (a : actor) : obs :=
  mkObs a (expected f a =? 1) (expected f a =? 1) (if expected f a =? 2 then 1 else if expected f a =? 3 then 2 else 0) false no_wait.
Theorem model_passes_oracle : forall f l, failure_log_ok f (map (obs_of_model f) l) = true.
Proof.
  intros f l. unfold failure_log_ok. rewrite forallb_forall. intros o Ho. apply in_map_iff in Ho. destruct Ho as [a [<- _]].
  unfold verdict, obs_of_model. cbn [o_actor o_end o_killed o_failed o_exc o_done]. rewrite uses_no_wait. cbn [andb].
  rewrite Bool.andb_false_r.
  unfold expected. destruct (a_alive a); cbn [negb]; [|reflexivity].
  destruct (on_failed_host f a); [reflexivity|]. destruct (uses f (a_wait a)); [|reflexivity].
  destruct (w_kind (a_wait a) =? 4); reflexivity.
Qed.
