(** C06 — proofs about the condition-variable model (SGV.Kernel.CondVar). *)
From SGV Require Import Base.Tactics Kernel.CondVar.
Local Open Scope Z_scope.

(** * the mutex side: a grant happens only from "free" and makes the grantee the owner *)
Lemma mlock_free : forall s a k, owner s = None ->
  mlock s a k = (mkCv (Some a) (mwait s) (cwait s), [ret a k]).
Proof. intros s a k H. unfold mlock. rewrite H. reflexivity. Qed.
Lemma mlock_busy : forall s a k b, owner s = Some b ->
  mlock s a k = (mkCv (Some b) (mwait s ++ [(a, k)]) (cwait s), []).
Proof. intros s a k b H. unfold mlock. rewrite H. reflexivity. Qed.
Lemma mlock_cwait : forall s a k, cwait (fst (mlock s a k)) = cwait s.
Proof. intros. unfold mlock. destruct (owner s); reflexivity. Qed.

Lemma grants_app : forall a b, grants (a ++ b) = grants a ++ grants b.
Proof. intros. unfold grants. apply flat_map_app. Qed.
Lemma grants_ret : forall a k, grants [ret a k] = [a].
Proof. intros a [|f]; reflexivity. Qed.

(** * notify_one *)
Theorem notify_one_lost : forall s, cwait s = [] -> signal s = (s, []).
Proof. intros s H. unfold signal. rewrite H. reflexivity. Qed.

Theorem notify_one_wakes_head : forall s a t r, cwait s = (a, t) :: r ->
  let s' := fst (signal s) in let o := snd (signal s) in
  cwait s' = r /\
  match owner s with
  | None => owner s' = Some a /\ mwait s' = mwait s /\ o = [WaitReturn a false]
  | Some b => owner s' = Some b /\ mwait s' = mwait s ++ [(a, MRelock false)] /\ o = []
  end.
Proof.
  intros s a t r H. unfold signal. rewrite H. unfold mlock. cbn [owner mwait cwait].
  destruct (owner s) as [b|]; cbn; repeat split; reflexivity.
Qed.

(** * notify_all *)
Definition relockers (l : list (Z * option Z)) : list (Z * mkind) := map (fun w => (fst w, MRelock false)) l.

Lemma broadcast_busy : forall n s b, owner s = Some b -> (length (cwait s) <= n)%nat ->
  broadcast_n n s = (mkCv (Some b) (mwait s ++ relockers (cwait s)) [], []).
Proof.
  induction n as [|n IH]; intros s b O L.
  - destruct s as [ow mw cw]. cbn in *. destruct cw; [|cbn in L; lia]. cbn. rewrite app_nil_r. subst. reflexivity.
  - cbn [broadcast_n]. destruct s as [ow mw cw]. cbn [cwait owner mwait] in *. subst ow. destruct cw as [|[a t] r].
    + cbn. rewrite app_nil_r. reflexivity.
    + unfold signal. cbn [cwait owner mwait]. rewrite (mlock_busy (mkCv (Some b) mw r) a (MRelock false) b eq_refl). cbn [owner mwait cwait].
      rewrite (IH (mkCv (Some b) (mw ++ [(a, MRelock false)]) r) b eq_refl); [|cbn in *; lia]. cbn [owner mwait cwait relockers map fst app].
      rewrite <- app_assoc. reflexivity.
Qed.

Theorem notify_all_wakes_all : forall s,
  let s' := fst (broadcast s) in let o := snd (broadcast s) in
  cwait s' = [] /\
  match owner s, cwait s with
  | Some b, l => owner s' = Some b /\ mwait s' = mwait s ++ relockers l /\ o = []
  | None, [] => s' = s /\ o = []
  | None, (a, _) :: r => owner s' = Some a /\ mwait s' = mwait s ++ relockers r /\ o = [WaitReturn a false]
  end.
Proof.
  intros s. unfold broadcast. destruct s as [ow mw cw]. cbn [cwait owner mwait]. destruct ow as [b|].
  - rewrite (broadcast_busy (length cw) (mkCv (Some b) mw cw) b eq_refl (le_n _)). cbn. repeat split; reflexivity.
  - destruct cw as [|[a t] r]; [cbn; repeat split; reflexivity|].
    cbn [length broadcast_n cwait]. unfold signal. cbn [cwait owner mwait]. rewrite mlock_free by reflexivity.
    cbn [owner mwait cwait]. rewrite (broadcast_busy (length r) (mkCv (Some a) mw r) a eq_refl); [|cbn; lia]. cbn. repeat split; reflexivity.
Qed.

(** * timers *)
Lemma pick_spec : forall d l,
  match pick d l with
  | None => Forall (fun w => overdue d w = false) l
  | Some (w, rest) => exists l1 l2, l = l1 ++ w :: l2 /\ rest = l1 ++ l2 /\ overdue d w = true /\
                                    Forall (fun w' => overdue d w' = true -> dl w <= dl w') l
  end.
Proof.
  induction l as [|w r IH]; cbn [pick]; [constructor|].
  destruct (pick d r) as [[w' r']|].
  - destruct IH as (l1 & l2 & E & E' & O & M).
    destruct (overdue d w && (dl w <=? dl w')) eqn:C.
    + apply andb_prop in C. destruct C as [C1 C2]. exists [], r. repeat split; auto.
      constructor; [lia|]. eapply Forall_impl; [|exact M]. cbn. intros x H Hx. specialize (H Hx). lia.
    + exists (w :: l1), l2. subst. repeat split; auto. constructor; [|exact M]. intros Hw. rewrite Hw in C. cbn in C. lia.
  - destruct (overdue d w) eqn:C.
    + exists [], r. repeat split; auto. constructor; [lia|]. eapply Forall_impl; [|exact IH]. cbn. intros x H Hx. congruence.
    + constructor; assumption.
Qed.

Lemma filter_all_id : forall {A} (f : A -> bool) l, (forall x, In x l -> f x = true) -> filter f l = l.
Proof.
  induction l as [|x l IH]; intros H; [reflexivity|]. cbn. rewrite (H x (or_introl eq_refl)). f_equal. apply IH.
  intros y I. apply H. right. exact I.
Qed.

Definition keep (d : Z) (l : list (Z * option Z)) := filter (fun w => negb (overdue d w)) l.

(* after the timers, the queue is exactly the waiters whose deadline is still ahead, in the same order *)
Lemma fire_n_cwait : forall n d s, (length (cwait s) <= n)%nat -> cwait (fst (fire_n n d s)) = keep d (cwait s).
Proof.
  induction n as [|n IH]; intros d s L.
  - destruct (cwait s) eqn:E; [cbn; rewrite E; reflexivity|cbn in L; lia].
  - cbn [fire_n]. pose proof (pick_spec d (cwait s)) as P. destruct (pick d (cwait s)) as [[w rest]|].
    + destruct P as (l1 & l2 & E & E' & O & _).
      destruct (mlock (mkCv (owner s) (mwait s) rest) (fst w) (MRelock true)) as [s1 o1] eqn:M.
      destruct (fire_n n d s1) as [s2 o2] eqn:F. cbn [fst].
      assert (C1 : cwait s1 = rest) by (pose proof (mlock_cwait (mkCv (owner s) (mwait s) rest) (fst w) (MRelock true)) as X;
                                        rewrite M in X; exact X).
      specialize (IH d s1). rewrite F in IH. cbn [fst] in IH. rewrite IH.
      * rewrite C1, E, E'. unfold keep. rewrite !filter_app. cbn [filter]. rewrite O. reflexivity.
      * rewrite C1, E'. rewrite E in L. rewrite app_length in *. cbn in L. lia.
    + cbn [fst]. unfold keep. symmetry. apply filter_all_id. rewrite Forall_forall in P.
      intros x I. rewrite (P x I). reflexivity.
Qed.

Theorem timers_fire_exactly_when_due : forall d s, cwait (fst (fire d s)) = keep d (cwait s).
Proof. intros. unfold fire. apply fire_n_cwait. apply le_n. Qed.

Theorem no_overdue_waiter_after_timers : forall d s w, In w (cwait (fst (fire d s))) -> overdue d w = false.
Proof.
  intros d s w I. rewrite timers_fire_exactly_when_due in I. unfold keep in I. apply filter_In in I.
  destruct I as [_ I]. apply negb_true_iff in I. exact I.
Qed.

(* a waiter woken by a notify at date d still had its deadline ahead: it was "notified within t" *)
Theorem notified_before_deadline : forall s d a D r,
  cwait (fst (fire d s)) = (a, Some D) :: r -> d < D.
Proof.
  intros s d a D r H. pose proof (no_overdue_waiter_after_timers d s (a, Some D)) as N.
  rewrite H in N. specialize (N (or_introl eq_refl)). unfold overdue in N. cbn in N. lia.
Qed.

(** * who may be told "timeout" and who "no timeout": the flag is fixed when the waiter leaves the queue *)
Definition flag_ok (f : bool) (x : out) : Prop := match x with WaitReturn _ g => g = f | Acquired _ => False | Error => True end.
Definition qflag_ok (f : bool) (e : Z * mkind) : Prop := snd e = MRelock f.

Lemma fire_n_flags : forall n d s,
  Forall (flag_ok true) (snd (fire_n n d s)) /\
  exists added, mwait (fst (fire_n n d s)) = mwait s ++ added /\ Forall (qflag_ok true) added.
Proof.
  induction n as [|n IH]; intros d s.
  - cbn. split; [constructor|]. exists []. rewrite app_nil_r. split; [reflexivity|constructor].
  - cbn [fire_n]. destruct (pick d (cwait s)) as [[w rest]|].
    + unfold mlock. cbn [owner mwait cwait]. destruct (owner s) as [b|].
      * specialize (IH d (mkCv (Some b) (mwait s ++ [(fst w, MRelock true)]) rest)).
        destruct (fire_n n d _) as [s2 o2]. cbn [fst snd] in *. destruct IH as (A & added & B & C). split; [exact A|].
        exists ((fst w, MRelock true) :: added). cbn [mwait] in B. rewrite B, <- app_assoc. split; [reflexivity|].
        constructor; [reflexivity|exact C].
      * specialize (IH d (mkCv (Some (fst w)) (mwait s) rest)).
        destruct (fire_n n d _) as [s2 o2]. cbn [fst snd] in *. destruct IH as (A & added & B & C).
        split; [constructor; [reflexivity|exact A]|]. exists added. split; assumption.
    + cbn. split; [constructor|]. exists []. rewrite app_nil_r. split; [reflexivity|constructor].
Qed.

Theorem timers_report_timeout : forall d s,
  Forall (flag_ok true) (snd (fire d s)) /\
  exists added, mwait (fst (fire d s)) = mwait s ++ added /\ Forall (qflag_ok true) added.
Proof. intros. apply fire_n_flags. Qed.

Theorem notify_reports_no_timeout : forall s,
  Forall (flag_ok false) (snd (signal s)) /\ Forall (flag_ok false) (snd (broadcast s)) /\
  (exists added, mwait (fst (broadcast s)) = mwait s ++ added /\ Forall (qflag_ok false) added).
Proof.
  intros s. split; [|split].
  - unfold signal. destruct (cwait s) as [|[a t] r]; [constructor|]. unfold mlock. cbn [owner].
    destruct (owner s); cbn; repeat constructor.
  - pose proof (notify_all_wakes_all s) as (_ & H). cbn zeta in H. destruct (owner s) as [b|].
    + destruct H as (_ & _ & ->). constructor.
    + destruct (cwait s) as [|[a t] r]; [destruct H as [_ ->]; constructor|]. destruct H as (_ & _ & ->). repeat constructor.
  - pose proof (notify_all_wakes_all s) as (_ & H). cbn zeta in H.
    assert (R : forall l, Forall (qflag_ok false) (relockers l)) by (induction l; constructor; [reflexivity|assumption]).
    destruct (owner s) as [b|].
    + destruct H as (_ & -> & _). eexists; split; [reflexivity|apply R].
    + destruct (cwait s) as [|[a t] r]; [destruct H as [-> _]; exists []; rewrite app_nil_r; split; [reflexivity|constructor]|].
      destruct H as (_ & -> & _). eexists; split; [reflexivity|apply R].
Qed.

(* the flag a wait returns with is the one written in the mutex queue when it left the condition's queue *)
Theorem unlock_returns_queued_flag : forall s b k r, mwait s = (b, k) :: r ->
  snd (munlock s) = [ret b k] /\ owner (fst (munlock s)) = Some b.
Proof. intros s b k r H. unfold munlock. rewrite H. split; reflexivity. Qed.

(** * a wait returns only to the owner of the mutex *)
Lemma mlock_grants : forall s a k, forall x, In x (grants (snd (mlock s a k))) -> owner (fst (mlock s a k)) = Some x.
Proof.
  intros s a k x I. unfold mlock in *. destruct (owner s); cbn [fst snd] in *; [destruct I|].
  rewrite grants_ret in I. destruct I as [<-|[]]. reflexivity.
Qed.
Lemma mlock_keeps_owner : forall s a k b, owner s = Some b ->
  owner (fst (mlock s a k)) = Some b /\ snd (mlock s a k) = [].
Proof. intros s a k b H. rewrite (mlock_busy _ _ _ _ H). split; reflexivity. Qed.

Lemma fire_n_busy : forall n d s b, owner s = Some b ->
  owner (fst (fire_n n d s)) = Some b /\ snd (fire_n n d s) = [].
Proof.
  induction n as [|n IH]; intros d s b O; [split; [exact O|reflexivity]|]. cbn [fire_n].
  destruct (pick d (cwait s)) as [[w rest]|]; [|split; [exact O|reflexivity]].
  rewrite (mlock_busy _ _ _ b) by exact O.
  specialize (IH d (mkCv (Some b) (mwait s ++ [(fst w, MRelock true)]) rest) b eq_refl).
  destruct (fire_n n d _) as [s2 o2]. cbn [fst snd] in *. destruct IH as [A ->]. split; [exact A|reflexivity].
Qed.

Theorem timers_return_to_owner : forall d s x, In x (grants (snd (fire d s))) -> owner (fst (fire d s)) = Some x.
Proof.
  intros d s x. unfold fire. generalize (length (cwait s)). intros n. revert s. induction n as [|n IH]; intros s I; [destruct I|].
  cbn [fire_n] in *. destruct (pick d (cwait s)) as [[w rest]|]; [|destruct I].
  destruct (owner s) as [b|] eqn:O.
  - unfold mlock in *. cbn [owner mwait cwait] in *.
    destruct (fire_n_busy n d (mkCv (Some b) (mwait s ++ [(fst w, MRelock true)]) rest) b eq_refl) as [A B].
    destruct (fire_n n d _) as [s2 o2]. cbn [fst snd] in *. subst o2. destruct I.
  - unfold mlock in *. cbn [owner mwait cwait] in *.
    destruct (fire_n_busy n d (mkCv (Some (fst w)) (mwait s) rest) (fst w) eq_refl) as [A B].
    destruct (fire_n n d _) as [s2 o2]. cbn [fst snd] in *. subst o2. rewrite app_nil_r, grants_ret in I.
    destruct I as [<-|[]]. exact A.
Qed.

Theorem request_returns_to_owner : forall dlf s d o x,
  In x (grants (snd (apply_op dlf s d o))) -> owner (fst (apply_op dlf s d o)) = Some x.
Proof.
  intros dlf s d o x I. destruct o as [a|a|a t| | |]; cbn [apply_op] in *.
  - apply mlock_grants. exact I.
  - destruct (is_owner s a); [|destruct I]. unfold munlock in *. destruct (mwait s) as [|[b k] r]; cbn [fst snd] in *; [destruct I|].
    rewrite grants_ret in I. destruct I as [<-|[]]. reflexivity.
  - destruct (is_owner s a); [|destruct I]. unfold munlock in *. destruct (mwait s) as [|[b k] r]; cbn [fst snd owner] in *; [destruct I|].
    rewrite grants_ret in I. destruct I as [<-|[]]. reflexivity.
  - unfold signal in *. destruct (cwait s) as [|[a t] r]; [destruct I|]. apply mlock_grants. exact I.
  - pose proof (notify_all_wakes_all s) as (_ & H). cbn zeta in H. destruct (owner s) as [b|].
    + destruct H as (_ & _ & E). rewrite E in I. destruct I.
    + destruct (cwait s) as [|[a t] r]; [destruct H as [_ E]; rewrite E in I; destruct I|].
      destruct H as (O & _ & E). rewrite E in I. cbn in I. destruct I as [<-|[]]. exact O.
  - destruct I.
Qed.

(** * wait_for(0): the pinned kernel never arms the timer *)
Definition cz_hist : list (Z * cop) := [(0, CLock 1); (0, CWait 1 (Some 0)); (100, CTick)].
Lemma wait_for_zero_refuted :
  map fst (cwait (fst (crun_gen deadline_pinned cv_init cz_hist))) = [1] /\
  flat_map (fun oo => grants (fst oo) ++ grants (snd oo)) (snd (crun_gen deadline_pinned cv_init cz_hist)) = [1].
Proof. vm_compute. split; reflexivity. Qed.
Lemma wait_for_zero_repaired :
  cwait (fst (crun cv_init cz_hist)) = [] /\
  snd (crun cv_init cz_hist) = [([], [Acquired 1]); ([], []); ([WaitReturn 1 true], [])].
Proof. vm_compute. split; reflexivity. Qed.
