(** Proofs about the reference semantics: the explorer is sound and complete, replayed schedules and the engine model's
    run are reference executions, deadlocks are exactly the terminal states with an unfinished actor. *)
From SGV Require Import Base.Tactics Kernel.Ref.
Local Open Scope Z_scope.

(** * Generic DFS *)
Section DfsProofs.
  Context {St : Type} (eq_dec : forall x y : St, {x = y} + {x <> y}) (next : St -> list St).

  Inductive reach (x : St) : St -> Prop :=
  | reach_refl : reach x x
  | reach_step : forall y z, reach x y -> In z (next y) -> reach x z.

  Lemma dfs_sound : forall (Rch : St -> Prop), (forall x y, Rch x -> In y (next x) -> Rch y) ->
    forall fuel stack visited V, dfs eq_dec next fuel stack visited = Some V ->
    (forall x, In x stack -> Rch x) -> (forall x, In x visited -> Rch x) -> forall x, In x V -> Rch x.
  Proof.
    intros Rch Hcl fuel. induction fuel as [|f IH]; intros stack visited V Hd Hs Hv x Hx; cbn [dfs] in Hd.
    - discriminate.
    - destruct stack as [|s rest].
      + inv Hd. auto.
      + destruct (in_dec eq_dec s visited) as [Hin|Hnin].
        * eapply IH; eauto. intros y Hy. apply Hs. now right.
        * eapply IH; eauto.
          -- intros y Hy. apply in_app_or in Hy. destruct Hy as [Hy|Hy].
             ++ eapply Hcl; [apply Hs; now left | exact Hy].
             ++ apply Hs. now right.
          -- intros y [Hy|Hy]; [subst; apply Hs; now left | auto].
  Qed.

  Definition closed_inv (stack visited : list St) : Prop :=
    forall v, In v visited -> forall y, In y (next v) -> In y visited \/ In y stack.

  Lemma dfs_closed : forall fuel stack visited V, dfs eq_dec next fuel stack visited = Some V ->
    closed_inv stack visited ->
    incl visited V /\ incl stack V /\ (forall v, In v V -> forall y, In y (next v) -> In y V).
  Proof.
    induction fuel as [|f IH]; intros stack visited V Hd Hinv; cbn [dfs] in Hd.
    - discriminate.
    - destruct stack as [|s rest].
      + inv Hd. repeat split.
        * apply incl_refl.
        * intros x [].
        * intros v Hv y Hy. destruct (Hinv v Hv y Hy) as [H|[]]. exact H.
      + destruct (in_dec eq_dec s visited) as [Hin|Hnin].
        * assert (Hinv' : closed_inv rest visited).
          { intros v Hv y Hy. destruct (Hinv v Hv y Hy) as [H|[H|H]]; [now left | subst; now left | now right]. }
          destruct (IH _ _ _ Hd Hinv') as (H1 & H2 & H3). repeat split; auto.
          intros x [Hx|Hx]; [subst; apply H1; exact Hin | apply H2; exact Hx].
        * assert (Hinv' : closed_inv (next s ++ rest) (s :: visited)).
          { intros v [Hv|Hv] y Hy.
            - subst. right. apply in_or_app. now left.
            - destruct (Hinv v Hv y Hy) as [H|[H|H]].
              + left. now right.
              + subst. left. now left.
              + right. apply in_or_app. now right. }
          destruct (IH _ _ _ Hd Hinv') as (H1 & H2 & H3). repeat split; auto.
          -- intros x Hx. apply H1. now right.
          -- intros x [Hx|Hx]; [subst; apply H1; now left | apply H2; apply in_or_app; now right].
  Qed.

  Theorem dfs_correct : forall fuel x0 V, dfs eq_dec next fuel [x0] [] = Some V -> forall x, reach x0 x <-> In x V.
  Proof.
    intros fuel x0 V Hd x. split.
    - destruct (dfs_closed _ _ _ _ Hd) as (_ & H2 & H3).
      { intros v []. }
      induction 1 as [|y z Hr IHr Hz].
      + apply H2. now left.
      + eapply H3; eauto.
    - eapply (dfs_sound (reach x0)); eauto.
      + intros a b Ha Hb. eapply reach_step; eauto.
      + intros y [Hy|[]]. subst. apply reach_refl.
      + intros y [].
  Qed.
End DfsProofs.

(** * Reference semantics as relations *)
(** a step of the reference: an actor executes its next operation, or the timer of a blocked actor fires
    ([actor_step]); or, in the timed reading, the clock jumps to the earliest armed timer when nothing else can happen *)
Definition Ref_step (P : prog) (s s' : state) : Prop :=
  (exists a ws, actor_step P a s = Some (s', ws)) \/ tick P s = Some s'.

Inductive reachable (P : prog) : state -> Prop :=
| reachable_init : reachable P (init P)
| reachable_step : forall s s', reachable P s -> Ref_step P s s' -> reachable P s'.

Definition terminal (P : prog) (s : state) : Prop := forall s', ~ Ref_step P s s'.
Definition reachable_terminal (P : prog) (s : state) : Prop := reachable P s /\ terminal P s.

Lemma actor_step_lt : forall P a s r, actor_step P a s = Some r -> (a < length (p_code P))%nat.
Proof.
  intros P a s r E. unfold actor_step in E. destruct (st_crash s); [discriminate|].
  destruct (nth_error (st_a s) a); [|discriminate].
  destruct (nth_error (p_code P) a) eqn:En; [|discriminate].
  apply nth_error_Some. congruence.
Qed.

Lemma succs_spec : forall P s s', In s' (succs P s) <-> Ref_step P s s'.
Proof.
  intros P s s'. unfold succs, Ref_step. rewrite in_app_iff, in_flat_map. split.
  - intros [(a & _ & Hin)|Hin].
    + destruct (actor_step P a s) as [[s1 ws]|] eqn:E; [|destruct Hin].
      destruct Hin as [Hin|[]]. subst. left. eauto.
    + destruct (tick P s) as [s1|]; [|destruct Hin]. destruct Hin as [Hin|[]]. subst. now right.
  - intros [(a & ws & E)|E].
    + left. exists a. split.
      * apply in_seq. split; [lia|]. cbn. eapply actor_step_lt; eauto.
      * rewrite E. now left.
    + right. rewrite E. now left.
Qed.

Lemma reach_reachable : forall P s, reach (succs P) (init P) s <-> reachable P s.
Proof.
  intros P s. split; induction 1.
  - constructor.
  - econstructor; eauto. now apply succs_spec.
  - constructor.
  - econstructor; eauto. now apply succs_spec.
Qed.

Lemma is_terminal_spec : forall P s, is_terminal P s = true <-> terminal P s.
Proof.
  intros P s. unfold is_terminal, terminal. split.
  - intros H s' Hs. apply succs_spec in Hs. destruct (succs P s); [destruct Hs | discriminate].
  - intros H. destruct (succs P s) as [|x l] eqn:E; [reflexivity|].
    exfalso. apply (H x). apply succs_spec. rewrite E. now left.
Qed.

Theorem explore_all_correct : forall fuel P V, explore_all fuel P = Some V -> forall s, reachable P s <-> In s V.
Proof.
  intros fuel P V H s. rewrite <- reach_reachable. unfold explore_all in H. eapply dfs_correct; eauto.
Qed.

Theorem explore_correct : forall fuel P T, explore fuel P = Some T -> forall s, reachable_terminal P s <-> In s T.
Proof.
  intros fuel P T H s. unfold explore in H. destruct (explore_all fuel P) as [V|] eqn:E; [|discriminate].
  inv H. rewrite filter_In, is_terminal_spec. unfold reachable_terminal.
  rewrite (explore_all_correct _ _ _ E). tauto.
Qed.

(** * A timeout removes exactly the waiter that timed out *)
Lemma rm_notin : forall a q, ~ In a q -> rm a q = q.
Proof.
  intros a q. induction q as [|x r IH]; intros H; cbn [rm filter]; [reflexivity|].
  destruct (Nat.eqb x a) eqn:E.
  - apply Nat.eqb_eq in E. subst. exfalso. apply H. now left.
  - cbn [negb]. f_equal. apply IH. intros Hin. apply H. now right.
Qed.

Theorem rm_exact : forall a q1 q2, ~ In a q1 -> ~ In a q2 -> rm a (q1 ++ a :: q2) = q1 ++ q2.
Proof.
  intros a q1 q2 H1 H2. unfold rm. rewrite filter_app. cbn [filter]. rewrite Nat.eqb_refl. cbn [negb].
  f_equal; [exact (rm_notin a q1 H1) | exact (rm_notin a q2 H2)].
Qed.

Lemma upd_nth_same : forall {A} n (x d : A) l, (n < length l)%nat -> nth n (upd n x l) d = x.
Proof.
  intros A n x d l. revert n. induction l as [|y r IH]; intros n H; cbn in H; [lia|].
  destruct n; cbn; [reflexivity | apply IH; lia].
Qed.

(** the step "the timer of [a], queued on semaphore [i], fires": [a] answers 1 (timed out), the queue of [i] loses
    exactly [a] and keeps the order of the other waiters, the value is unchanged *)
Theorem fire_acquire_keeps_order : forall a i d s q1 q2, (i < length (st_s s))%nat ->
  s_q (nth i (st_s s) dS) = q1 ++ a :: q2 -> ~ In a q1 -> ~ In a q2 ->
  let '(s', ws) := fire a (AcquireT i d) s in
  nth i (st_s s') dS = mkS (s_val (nth i (st_s s) dS)) (q1 ++ q2) /\ ws = [a].
Proof.
  intros a i d s q1 q2 Hi Hq H1 H2. cbn [fire]. split; [|reflexivity].
  unfold complete, set_a, set_s. cbn [st_s]. rewrite upd_nth_same by exact Hi.
  rewrite Hq, rm_exact by assumption. reflexivity.
Qed.

(** * Deadlocks *)
Definition unfinished (P : prog) (s : state) (a : nat) : Prop :=
  exists ac ops, nth_error (st_a s) a = Some ac /\ nth_error (p_code P) a = Some ops /\ (a_pc ac < length ops)%nat.

(** A reference deadlock: the run did not crash, some actor still has operations to execute, and every such actor is
    blocked in the wait queue of a synchronisation object without any timer armed (a sleeping actor or a timed
    acquisition will be released by its timer: never a deadlock). *)
Definition Ref_deadlock (P : prog) (s : state) : Prop :=
  st_crash s = false /\ (exists a, unfinished P s a) /\
  forall a ac, unfinished P s a -> nth_error (st_a s) a = Some ac -> a_blk ac = true /\ a_due ac = None.

Lemma actor_step_none : forall P a s, actor_step P a s = None <->
  st_crash s = true \/ nth_error (st_a s) a = None \/ nth_error (p_code P) a = None \/
  exists ac ops, nth_error (st_a s) a = Some ac /\ nth_error (p_code P) a = Some ops /\
                 ((length ops <= a_pc ac)%nat \/
                  (a_blk ac = true /\ (a_due ac = None \/ exists t, a_due ac = Some t /\ due_ok P s t = false))).
Proof.
  intros P a s. unfold actor_step.
  destruct (st_crash s); [split; auto|].
  destruct (nth_error (st_a s) a) as [ac|] eqn:Ea; [|split; auto].
  destruct (nth_error (p_code P) a) as [ops|] eqn:Ep; [|split; auto].
  destruct (nth_error ops (a_pc ac)) as [o|] eqn:Eo.
  - assert (Hlt : (a_pc ac < length ops)%nat) by (apply nth_error_Some; congruence).
    destruct (a_blk ac) eqn:Eb.
    + destruct (a_due ac) as [t|] eqn:Ed.
      * destruct (due_ok P s t) eqn:Eok.
        -- split; [discriminate|].
           intros [H|[H|[H|(ac' & ops' & H1 & H2 & H3)]]]; try discriminate.
           inv H1. inv H2. destruct H3 as [H3|(_ & [H3|(t' & H3 & H4)])]; [lia | congruence | congruence].
        -- split; auto. intros _. right. right. right. exists ac, ops. repeat split; auto.
           right. split; auto. right. exists t. auto.
      * split; auto. intros _. right. right. right. exists ac, ops. repeat split; auto.
    + split; [discriminate|].
      intros [H|[H|[H|(ac' & ops' & H1 & H2 & H3)]]]; try discriminate.
      inv H1. inv H2. destruct H3 as [H3|(H3 & _)]; [lia | congruence].
  - split; auto. intros _. right. right. right. exists ac, ops. repeat split; auto.
    left. now apply nth_error_None.
Qed.

Lemma unfinished_b_spec : forall P s a, unfinished_b P s a = true <-> unfinished P s a.
Proof.
  intros P s a. unfold unfinished_b, unfinished.
  destruct (nth_error (st_a s) a) as [ac|]; [|split; [discriminate | intros (? & ? & ? & _); discriminate]].
  destruct (nth_error (p_code P) a) as [ops|]; [|split; [discriminate | intros (? & ? & _ & ? & _); discriminate]].
  rewrite Nat.ltb_lt. split.
  - intros H. exists ac, ops. auto.
  - intros (ac' & ops' & H1 & H2 & H3). inv H1. inv H2. exact H3.
Qed.

Lemma quiescent_spec : forall P s, quiescent P s = true <-> forall a, actor_step P a s = None.
Proof.
  intros P s. unfold quiescent. rewrite forallb_forall. split.
  - intros H a. destruct (actor_step P a s) as [r|] eqn:E; [|reflexivity].
    assert (Hin : In a (seq 0 (length (p_code P)))).
    { apply in_seq. split; [lia|]. cbn. eapply actor_step_lt; eauto. }
    specialize (H a Hin). rewrite E in H. discriminate.
  - intros H a _. now rewrite H.
Qed.

Lemma dues_in : forall P s a t, due_of P s a = Some t -> In t (dues P s).
Proof.
  intros P s a t H. unfold dues. apply in_flat_map. exists a. split.
  - apply in_seq. split; [lia|]. cbn. unfold due_of in H.
    destruct (nth_error (st_a s) a) as [ac|] eqn:Ea; [|discriminate].
    destruct (unfinished_b P s a) eqn:Eu; [|discriminate].
    apply unfinished_b_spec in Eu. destruct Eu as (? & ops & _ & Hp & _). apply nth_error_Some. congruence.
  - rewrite H. now left.
Qed.

Lemma dues_nil : forall P s, dues P s = [] <-> forall a, due_of P s a = None.
Proof.
  intros P s. split.
  - intros H a. destruct (due_of P s a) as [t|] eqn:E; [|reflexivity].
    apply dues_in in E. rewrite H in E. destruct E.
  - intros H. unfold dues. destruct (flat_map _ _) as [|t r] eqn:E; [reflexivity|].
    assert (Hin : In t (t :: r)) by now left. rewrite <- E in Hin. apply in_flat_map in Hin.
    destruct Hin as (a & _ & Hin). rewrite H in Hin. destruct Hin.
Qed.

(** when time can pass: timed reading, no crash, nobody can step, some unfinished blocked actor has a timer *)
Lemma tick_some : forall P s, (exists s', tick P s = Some s') <->
  st_crash s = false /\ p_timed P = true /\ (forall a, actor_step P a s = None) /\ exists a t, due_of P s a = Some t.
Proof.
  intros P s. unfold tick. split.
  - intros (s' & H).
    destruct (st_crash s); [discriminate|]. destruct (p_timed P); [|discriminate].
    destruct (quiescent P s) eqn:Eq; [|discriminate]. cbn in H.
    repeat split; auto.
    + now apply quiescent_spec.
    + destruct (dues P s) as [|t r] eqn:Ed; [discriminate|].
      assert (Hin : In t (dues P s)) by (rewrite Ed; now left).
      unfold dues in Hin. apply in_flat_map in Hin. destruct Hin as (a & _ & Hin).
      destruct (due_of P s a) as [t'|] eqn:E; [|destruct Hin]. eauto.
  - intros (Hc & Ht & Hq & a & t & Hd).
    rewrite Hc, Ht. apply quiescent_spec in Hq. rewrite Hq. cbn.
    destruct (dues P s) as [|t' r] eqn:Ed.
    + apply dues_in in Hd. rewrite Ed in Hd. destruct Hd.
    + eauto.
Qed.

Theorem deadlock_iff : forall P s, st_crash s = false ->
  ((terminal P s /\ exists a, unfinished P s a) <-> Ref_deadlock P s).
Proof.
  intros P s Hc. split.
  - intros (Ht & Hu). split; [exact Hc|]. split; [exact Hu|].
    assert (Hq : forall a, actor_step P a s = None).
    { intros a. destruct (actor_step P a s) as [[s' ws]|] eqn:E; [|reflexivity].
      exfalso. apply (Ht s'). left. exists a, ws. exact E. }
    intros a ac (ac' & ops & H1 & H2 & H3) Hac. rewrite H1 in Hac. inv Hac.
    pose proof (Hq a) as E. apply actor_step_none in E.
    destruct E as [E|[E|[E|(ac' & ops' & E1 & E2 & E3)]]]; try congruence.
    rewrite H1 in E1. inv E1. rewrite H2 in E2. inv E2.
    destruct E3 as [E3|(Eb & [Ed|(t & Ed & Eok)])]; [lia | auto |].
    (* an armed timer that may not fire yet: timed reading, and then the clock can tick *)
    exfalso.
    assert (Htm : p_timed P = true).
    { unfold due_ok in Eok. destruct (p_timed P); [reflexivity | discriminate]. }
    assert (Hd : due_of P s a = Some t).
    { unfold due_of. rewrite H1.
      assert (Hub : unfinished_b P s a = true) by (apply unfinished_b_spec; exists ac', ops'; auto).
      rewrite Hub, Eb. exact Ed. }
    destruct (proj2 (tick_some P s)) as (s' & Hs'); [repeat split; eauto|].
    apply (Ht s'). now right.
  - intros (_ & Hu & Hb). split; [|exact Hu].
    intros s' [(a & ws & E)|E].
    + unfold actor_step in E. rewrite Hc in E.
      destruct (nth_error (st_a s) a) as [ac|] eqn:Ea; [|discriminate].
      destruct (nth_error (p_code P) a) as [ops|] eqn:Ep; [|discriminate].
      destruct (nth_error ops (a_pc ac)) eqn:Eo; [|discriminate].
      assert (Hlt : (a_pc ac < length ops)%nat) by (apply nth_error_Some; congruence).
      destruct (Hb a ac) as (Hub & Hud); [exists ac, ops; auto | exact Ea |].
      rewrite Hub, Hud in E. discriminate.
    + destruct (proj1 (tick_some P s)) as (_ & _ & _ & a & t & Hd); [eauto|].
      unfold due_of in Hd. destruct (nth_error (st_a s) a) as [ac|] eqn:Ea; [|discriminate].
      destruct (unfinished_b P s a) eqn:Eu; [|discriminate]. apply unfinished_b_spec in Eu.
      destruct (Hb a ac Eu Ea) as (Hub & Hud). rewrite Hub, Hud in Hd. discriminate.
Qed.

Theorem deadlock_b_spec : forall P s, deadlock_b P s = true <-> Ref_deadlock P s.
Proof.
  intros P s. unfold deadlock_b. rewrite !andb_true_iff, negb_true_iff, is_terminal_spec, existsb_exists.
  split.
  - intros ((Hc & Ht) & (a & _ & Hu)). apply deadlock_iff; auto. split; auto. exists a. now apply unfinished_b_spec.
  - intros H. pose proof H as (Hc & _). apply deadlock_iff in H; auto. destruct H as (Ht & a & Hu).
    repeat split; auto. exists a. split; [|now apply unfinished_b_spec].
    destruct Hu as (ac & ops & _ & H2 & _). apply in_seq. split; [lia|]. cbn. apply nth_error_Some. congruence.
Qed.

(** * Replay and engine model are reference executions *)
Theorem replay_reachable : forall P sched s s', reachable P s -> replay P sched s = Some s' -> reachable P s'.
Proof.
  intros P sched. induction sched as [|a r IH]; intros s s' Hr H; cbn [replay] in H.
  - inv H. exact Hr.
  - destruct (step_or_tick P a s) as [[s1 ws]|] eqn:E; [|discriminate].
    apply (IH s1 s'); [|exact H]. unfold step_or_tick in E.
    destruct (actor_step P a s) as [r0|] eqn:E1.
    + inv E. apply (reachable_step P s s1 Hr). left. exists a, ws. exact E1.
    + destruct (tick P s) as [s0|] eqn:E2; [|discriminate].
      apply (reachable_step P s0 s1); [|left; exists a, ws; exact E].
      apply (reachable_step P s s0 Hr). now right.
Qed.

Lemma handle_all_replay : forall P l s next tr s' next' tr',
  handle_all P l s next tr = (s', next', tr') ->
  exists sch, tr' = tr ++ sch /\ replay P sch s = Some s'.
Proof.
  intros P l. induction l as [|a r IH]; intros s next tr s' next' tr' H; cbn [handle_all] in H.
  - inv H. exists []. rewrite app_nil_r. auto.
  - destruct (actor_step P a s) as [[s1 ws]|] eqn:E.
    + destruct (IH _ _ _ _ _ _ H) as (sch & H1 & H2). exists (a :: sch). split.
      * rewrite H1, <- app_assoc. reflexivity.
      * cbn [replay]. unfold step_or_tick. rewrite E. exact H2.
    + eauto.
Qed.

Lemma replay_app : forall P a b s s1 s2, replay P a s = Some s1 -> replay P b s1 = Some s2 -> replay P (a ++ b) s = Some s2.
Proof.
  intros P a. induction a as [|x r IH]; intros b s s1 s2 H1 H2; cbn [replay app] in *.
  - inv H1. exact H2.
  - destruct (step_or_tick P x s) as [[s' ws]|]; [|discriminate]. eauto.
Qed.

Lemma sched_run_replay : forall fuel P l s tr s' tr',
  sched_run fuel P l s tr = Some (s', tr') -> exists sch, tr' = tr ++ sch /\ replay P sch s = Some s'.
Proof.
  induction fuel as [|f IH]; intros P l s tr s' tr' H; cbn [sched_run] in H; [discriminate|].
  destruct l as [|a r].
  - inv H. exists []. rewrite app_nil_r. auto.
  - destruct (handle_all P (a :: r) s [] tr) as [[s1 next] tr1] eqn:E.
    destruct (handle_all_replay _ _ _ _ _ _ _ _ E) as (sch1 & H1 & H2).
    destruct (IH _ _ _ _ _ _ H) as (sch2 & H3 & H4).
    exists (sch1 ++ sch2). split.
    + rewrite H3, H1, app_assoc. reflexivity.
    + eapply replay_app; eauto.
Qed.

(** the engine model's run is the replay of its own trace, ends in a reachable terminal state *)
Theorem engine_run_refines : forall fuel P s tr, engine_run fuel P = Some (s, tr) ->
  replay P tr (init P) = Some s /\ reachable_terminal P s.
Proof.
  intros fuel P s tr H. unfold engine_run in H.
  destruct (sched_run fuel P (seq 0 (length (p_code P))) (init P) []) as [[s1 tr1]|] eqn:E; [|discriminate].
  destruct (is_terminal P s1) eqn:Et; [|discriminate]. inv H.
  destruct (sched_run_replay _ _ _ _ _ _ _ E) as (sch & H1 & H2). cbn in H1. subst.
  split; [exact H2|]. split.
  - eapply replay_reachable; eauto. constructor.
  - now apply is_terminal_spec.
Qed.

(** a program whose reference semantics has no reachable deadlock: no execution (replayed schedule, engine model) ends
    in a state that [deadlock_b] flags *)
Theorem no_deadlock_never_reported : forall P sched s,
  (forall t, reachable P t -> ~ Ref_deadlock P t) ->
  replay P sched (init P) = Some s -> deadlock_b P s = false.
Proof.
  intros P sched s Hno Hr. destruct (deadlock_b P s) eqn:E; [|reflexivity].
  exfalso. apply (Hno s).
  - eapply replay_reachable; eauto. constructor.
  - now apply deadlock_b_spec.
Qed.
