(** TimedComm.v — executable model of timed waits on communications and I/Os for C12 (no proofs here).
    A small engine in the style of Kernel/Engine.v (integer ticks, [prec] = precision/timing in ticks, queues derived from
    the status of actors and activities) restricted to what a timed wait on a Comm / Io needs:
      this_actor::sleep_for, Mailbox::put_async / get_async (one mailbox per comm id, one put and one get per id),
      Disk::read_async / write_async, Comm|Io::wait_for(t), wait_for_or_cancel(t), Mailbox::put(.., t) / get(t).
    Anchors: ActivityImpl::{wait_for, register_simcall}, CommImpl::{isend, irecv, start, cancel, finish}, IoImpl::finish,
    ActivityImpl::cancel, resource::Action::cancel, s4u::Activity::{wait_for, wait_for_or_cancel, cancel}, s4u::Comm::wait_for,
    EngineImpl::run (solve; Timer::execute_all; handle_ended_actions: failed actions, then done actions).
    The point of the model: a CommImpl has NO model action ([c_act] = None) until both sides are posted (CommImpl::start
    runs when the state becomes READY), and the timeout callback installed by ActivityImpl::wait_for reads the action
    *when the timer fires* ([timer_skips] is applied to the record looked up in the current state by [fire_timeout]). *)
From SGV Require Import Base.Tactics.
Local Open Scope Z_scope.

Inductive op :=
| KSleep (d : Z)
| KPut (c d : Z) (q : bool)        (* put_async on mailbox c, payload lasting d ticks; q: first half of Mailbox::put(.., t) *)
| KGet (c : Z) (q : bool)          (* get_async; q: first half of Mailbox::get(t) *)
| KIo (c d : Z)                    (* Disk::read_async / write_async on the private disk of activity c *)
| KWait (c t : Z) (oc : bool)      (* wait_for(t) (t < 0: wait()) / wait_for_or_cancel(t) on one's own side of c *)
| KPutW (c d t : Z)                (* put_init()->wait_for(t): Comm::send, isend and wait_for in ONE simcall *)
| KGetW (c t : Z)                  (* get_init()->wait_for(t): Comm::recv *)
| KCancel (c : Z)                  (* internal: the Activity::cancel() simcall of wait_for_or_cancel after a timeout *)
| KBad.

(* resource::Action of the activity: in the heap with its completion date / FINISHED, popped by the last solve() and not
   handled yet / FAILED (cancelled), not handled yet *)
Inductive astate := ARun (dt : Z) | AFin | AFailed.
(* activity::State: WAITING (in the mailbox) / RUNNING / DONE / CANCELED / LINK_FAILURE-FAILED *)
Inductive cst := CWaiting | CRunning | CDone (t : Z) | CCanceled | CFailed.

Record comm := mkC {
  c_key : Z;                 (* identity of the CommImpl / IoImpl object (creation rank) *)
  c_id : Z; c_io : bool; c_dur : Z;
  c_snd : option Z; c_rcv : option Z;   (* src_actor_ / dst_actor_ (Io: owner in c_snd) *)
  c_st : cst;
  c_act : option astate;     (* model_action_ : None until CommImpl::start() found both sides, and after clean_action() *)
  c_wait : list Z;           (* simcalls_ : registered waiters, oldest first *)
  c_closed : list Z }.       (* actors whose wait on it was answered by finish() or that cancelled it *)

Inductive block := BSleep (dt : Z) | BFin | BWait (k : Z) (dl : option Z).
Inductive status := SStart (n : Z) | SReady (r n : Z) | SCalled | SBlocked (b : block) | SDead.
Record actor := mkA { a_pid : Z; a_cur : op; a_prog : list op; a_idx : Z; a_st : status; a_t0 : Z }.

Inductive entry := ERet (p i t0 t1 r : Z).

Record state := mkS { clock : Z; prec : Z; seq : Z; actors : list actor; comms : list comm; log : list entry;
                      amb : bool; stuck : bool }.

(* ---------------------------------------------------------------------------------------------- local rules *)
(* These three functions are the whole of the timed-wait logic; the engine below and the single-wait episode of
   [ep_step] are both built from them. *)

(* update_actions_state: lazy models (network) pop an action whose date double_equals the clock; the disk model
   (full update) ends it when nothing remains *)
Definition due (pr m dt : Z) (io : bool) : bool := if io then dt <=? m else Z.abs (dt - m) <? pr.
Definition pop_astate (pr m : Z) (io : bool) (a : option astate) : option astate :=
  match a with Some (ARun dt) => if due pr m dt io then Some AFin else a | _ => a end.
(* the timeout callback: "if (model_action_ && (state == FINISHED || state == FAILED)) return;" evaluated on the action
   the activity has when the timer fires *)
Definition timer_skips (a : option astate) : bool := match a with Some AFin | Some AFailed => true | _ => false end.
(* handle_ended_actions -> finish(): result given to the registered waiters (0 completed, 3 NetworkFailureException) *)
Definition ended_result (a : option astate) : option Z :=
  match a with Some AFin => Some 0 | Some AFailed => Some 3 | _ => None end.

(* ---------------------------------------------------------------------------------------------- setters *)
Definition set_st (a : actor) (st : status) : actor := mkA (a_pid a) (a_cur a) (a_prog a) (a_idx a) st (a_t0 a).
Definition set_cur (a : actor) (o : op) : actor := mkA (a_pid a) o (a_prog a) (a_idx a) SCalled (a_t0 a).
Definition start_op (a : actor) (o : op) (rest : list op) (i clk : Z) : actor := mkA (a_pid a) o rest i SCalled clk.

Definition set_comm (x : comm) (st : cst) (act : option astate) (w cl : list Z) : comm :=
  mkC (c_key x) (c_id x) (c_io x) (c_dur x) (c_snd x) (c_rcv x) st act w cl.
Definition set_act (x : comm) (act : option astate) : comm := set_comm x (c_st x) act (c_wait x) (c_closed x).

Definition set_actors (s : state) (l : list actor) : state := mkS (clock s) (prec s) (seq s) l (comms s) (log s) (amb s) (stuck s).
Definition set_comms (s : state) (l : list comm) : state := mkS (clock s) (prec s) (seq s) (actors s) l (log s) (amb s) (stuck s).
Definition add_log (s : state) (e : entry) : state := mkS (clock s) (prec s) (seq s) (actors s) (comms s) (e :: log s) (amb s) (stuck s).
Definition set_clock (s : state) (c : Z) : state := mkS c (prec s) (seq s) (actors s) (comms s) (log s) (amb s) (stuck s).
Definition set_amb (s : state) (b : bool) : state := mkS (clock s) (prec s) (seq s) (actors s) (comms s) (log s) (amb s || b) (stuck s).
Definition set_stuck (s : state) : state := mkS (clock s) (prec s) (seq s) (actors s) (comms s) (log s) (amb s) true.
Definition bump (s : state) : state := mkS (clock s) (prec s) (seq s + 1) (actors s) (comms s) (log s) (amb s) (stuck s).

Fixpoint upd_actor (p : Z) (f : actor -> actor) (l : list actor) : list actor :=
  match l with [] => [] | a :: r => if a_pid a =? p then f a :: r else a :: upd_actor p f r end.
Fixpoint get_actor (p : Z) (l : list actor) : option actor :=
  match l with [] => None | a :: r => if a_pid a =? p then Some a else get_actor p r end.
Fixpoint upd_comm (k : Z) (f : comm -> comm) (l : list comm) : list comm :=
  match l with [] => [] | x :: r => if c_key x =? k then f x :: r else x :: upd_comm k f r end.
Fixpoint get_comm (k : Z) (l : list comm) : option comm :=
  match l with [] => None | x :: r => if c_key x =? k then Some x else get_comm k r end.
Definition mod_actor (s : state) (p : Z) (f : actor -> actor) : state := set_actors s (upd_actor p f (actors s)).
Definition mod_comm (s : state) (k : Z) (f : comm -> comm) : state := set_comms s (upd_comm k f (comms s)).

Definition clamp (pr d : Z) : Z := if 0 <? d then Z.max d pr else d.   (* CpuCas01::sleep *)
Definition oeq (o : option Z) (p : Z) : bool := match o with Some q => q =? p | None => false end.
Definition mem (p : Z) (l : list Z) : bool := existsb (Z.eqb p) l.
Definition party (p : Z) (x : comm) : bool := oeq (c_snd x) p || oeq (c_rcv x) p.

(* simcall_answer(): the actor is appended to actors_to_run_ *)
Definition answer (s : state) (p r : Z) : state := bump (mod_actor s p (fun a => set_st a (SReady r (seq s)))).

(* the activity of id c in which actor p takes part *)
Definition find_mine (c p : Z) (l : list comm) : option comm := find (fun x => (c_id x =? c) && party p x) l.

(* ---------------------------------------------------------------------------------------------- cancel *)
(* CommImpl::cancel: WAITING -> removed from the mailbox, CANCELED; RUNNING -> model_action_->cancel() (FAILED, out of the
   heap; the activity is finished by the next handle_ended_actions).  ActivityImpl::cancel (Io): action cancelled, CANCELED. *)
Definition cancel_rec (p : Z) (x : comm) : comm :=
  let cl := p :: c_closed x in
  match c_st x with
  | CWaiting => if c_io x then x else set_comm x CCanceled (c_act x) (c_wait x) cl
  | CRunning =>
    let act := match c_act x with Some (ARun _) => Some AFailed | a => a end in
    set_comm x (if c_io x then CCanceled else CRunning) act (c_wait x) cl
  | _ => set_comm x (c_st x) (c_act x) (c_wait x) cl
  end.

(* the actor's function returned: ActorImpl::cleanup_from_self cancels the activities it still takes part in *)
Definition terminate (s : state) (p : Z) : state :=
  mod_actor (set_comms s (map (fun x => if party p x then cancel_rec p x else x) (comms s))) p (fun a => set_st a SDead).

(* ---------------------------------------------------------------------------------------------- run phase *)
Fixpoint start_ops (p : Z) (prog : list op) (i : Z) (s : state) : state :=
  match prog with
  | [] => terminate s p
  | KSleep d :: rest =>
    if d <=? 0 then start_ops p rest (i + 1) (add_log s (ERet p i (clock s) (clock s) 0))
    else mod_actor s p (fun a => start_op a (KSleep d) rest i (clock s))
  | o :: rest => mod_actor s p (fun a => start_op a o rest i (clock s))
  end.

Definition quiet_op (o : op) : bool := match o with KPut _ _ q | KGet _ q => q | _ => false end.

Definition run_actor (s : state) (p : Z) : state :=
  match get_actor p (actors s) with
  | None => s
  | Some a =>
    match a_st a with
    | SStart _ => start_ops p (a_prog a) 0 s
    | SReady r _ =>
      match a_cur a with
      | KWait c _ true =>
        if r =? 1 then mod_actor s p (fun a => set_cur a (KCancel c))     (* catch TimeoutException: cancel(), then rethrow *)
        else start_ops p (a_prog a) (a_idx a + 1) (add_log s (ERet p (a_idx a) (a_t0 a) (clock s) r))
      | o =>
        if quiet_op o then
          if r =? 0 then start_ops p (a_prog a) (a_idx a) s                  (* Mailbox::put/get(timeout) goes on with its wait *)
          else start_ops p (tl (a_prog a)) (a_idx a + 1) (add_log s (ERet p (a_idx a) (a_t0 a) (clock s) r))
        else start_ops p (a_prog a) (a_idx a + 1) (add_log s (ERet p (a_idx a) (a_t0 a) (clock s) r))
      end
    | _ => s
    end
  end.

(* ---------------------------------------------------------------------------------------------- simcalls *)
Definition deadline (s : state) (t : Z) : option Z := if t <? 0 then None else Some (clock s + t).
Definition fresh_key (s : state) : Z := Z.of_nat (length (comms s)).
Definition has_snd (c : Z) (l : list comm) : bool := existsb (fun x => (c_id x =? c) && match c_snd x with Some _ => true | None => false end) l.
Definition has_rcv (c : Z) (l : list comm) : bool := existsb (fun x => (c_id x =? c) && match c_rcv x with Some _ => true | None => false end) l.
Definition has_id (c : Z) (l : list comm) : bool := existsb (fun x => c_id x =? c) l.
(* MailboxImpl::find_matching_comm: the oldest waiting comm of the other type *)
Definition waiting_recv (c : Z) (l : list comm) : option comm :=
  find (fun x => (c_id x =? c) && negb (c_io x) && match c_st x, c_snd x with CWaiting, None => true | _, _ => false end) l.
Definition waiting_send (c : Z) (l : list comm) : option comm :=
  find (fun x => (c_id x =? c) && negb (c_io x) && match c_st x, c_rcv x with CWaiting, None => true | _, _ => false end) l.

Definition known (c p : Z) (l : list comm) : bool := match find_mine c p l with Some _ => true | None => false end.
(* CommImpl::isend / irecv; None = rejected by the interpreter *)
Definition post_put (s : state) (p c d : Z) : option state :=
  if (d <? 1) || has_snd c (comms s) || has_id c (filter c_io (comms s)) || known c p (comms s) then None
  else match waiting_recv c (comms s) with
       | Some x =>   (* READY: CommImpl::start() creates the network action now *)
         Some (mod_comm s (c_key x) (fun x => mkC (c_key x) c false d (Some p) (c_rcv x) CRunning (Some (ARun (clock s + d))) (c_wait x) (c_closed x)))
       | None => Some (set_comms s (comms s ++ [mkC (fresh_key s) c false d (Some p) None CWaiting None [] []]))
       end.
Definition post_get (s : state) (p c : Z) : option state :=
  if has_rcv c (comms s) || has_id c (filter c_io (comms s)) || known c p (comms s) then None
  else match waiting_send c (comms s) with
       | Some x =>
         Some (mod_comm s (c_key x) (fun x => mkC (c_key x) c false (c_dur x) (c_snd x) (Some p) CRunning (Some (ARun (clock s + c_dur x))) (c_wait x) (c_closed x)))
       | None => Some (set_comms s (comms s ++ [mkC (fresh_key s) c false 0 None (Some p) CWaiting None [] []]))
       end.
Definition close_side (p : Z) (x : comm) : comm := set_comm x (c_st x) (c_act x) (c_wait x) (p :: c_closed x).
(* ActivityImpl::wait_for: register the simcall; finish() at once when the activity is over; else arm the timer.
   [once]: the s4u handle cannot be waited again (one-simcall send/recv) *)
Definition do_wait (s : state) (p c t : Z) (once : bool) : state :=
  match find_mine c p (comms s) with
  | None => answer s p (-9)
  | Some x =>
    if mem p (c_closed x) then answer s p (-9)
    else match c_st x with
         | CDone _ => answer (mod_comm s (c_key x) (close_side p)) p 0
         | CFailed => answer (mod_comm s (c_key x) (close_side p)) p 3
         | CCanceled => answer (mod_comm s (c_key x) (close_side p)) p 2
         | _ => mod_actor (mod_comm s (c_key x) (fun x => set_comm x (c_st x) (c_act x) (c_wait x ++ [p]) (if once then p :: c_closed x else c_closed x)))
                          p (fun a => set_st a (SBlocked (BWait (c_key x) (deadline s t))))
         end
  end.

Definition handle_simcall (s : state) (p : Z) : state :=
  match get_actor p (actors s) with
  | None => s
  | Some a =>
    match a_st a with
    | SCalled =>
      match a_cur a with
      | KSleep d => mod_actor s p (fun a => set_st a (SBlocked (BSleep (clock s + clamp (prec s) d))))
      | KPut c d _ => match post_put s p c d with Some s1 => answer s1 p 0 | None => answer s p (-9) end
      | KGet c _ => match post_get s p c with Some s1 => answer s1 p 0 | None => answer s p (-9) end
      | KPutW c d t => match post_put s p c d with Some s1 => do_wait s1 p c t true | None => answer s p (-9) end
      | KGetW c t => match post_get s p c with Some s1 => do_wait s1 p c t true | None => answer s p (-9) end
      | KIo c d =>
        if (d <? 1) || has_id c (comms s) then answer s p (-9)
        else answer (set_comms s (comms s ++ [mkC (fresh_key s) c true d (Some p) None CRunning (Some (ARun (clock s + d))) [] []])) p 0
      | KWait c t _ => do_wait s p c t false
      | KCancel c =>
        match find_mine c p (comms s) with
        | None => answer s p 1
        | Some x => answer (mod_comm s (c_key x) (cancel_rec p)) p 1
        end
      | KBad => answer s p (-9)
      end
    | _ => s
    end
  end.

(* ---------------------------------------------------------------------------------------------- ended actions *)
(* ActivityImpl/CommImpl/IoImpl::finish(): state from the action, clean_action(), every registered simcall answered *)
Definition end_rec (s : state) (k : Z) : state :=
  match get_comm k (comms s) with
  | None => s
  | Some x =>
    match ended_result (c_act x) with
    | None => s
    | Some r =>
      let st := if r =? 0 then CDone (clock s) else if c_io x then CCanceled else CFailed in
      fold_left (fun s q => answer s q r) (c_wait x)
                (mod_comm s k (fun x => set_comm x st None [] (c_wait x ++ c_closed x)))
    end
  end.
Definition end_sleep (s : state) (p : Z) : state :=
  match get_actor p (actors s) with
  | Some a => match a_st a with SBlocked BFin => answer s p 0 | _ => s end
  | None => s
  end.
Definition is_failed (x : comm) : bool := match c_act x with Some AFailed => true | _ => false end.
Definition is_fin (x : comm) : bool := match c_act x with Some AFin => true | _ => false end.
Definition keys (l : list comm) : list Z := map c_key l.
Definition pids (s : state) : list Z := map a_pid (actors s).
(* failed actions first, then done actions *)
Definition handle_ended (s : state) : state :=
  let s1 := fold_left end_rec (keys (filter is_failed (comms s))) s in
  let s2 := fold_left end_rec (keys (filter is_fin (comms s1))) s1 in
  fold_left end_sleep (pids s2) s2.

(* ---------------------------------------------------------------------------------------------- sub-round *)
Definition runnable_pos (a : actor) : option Z := match a_st a with SStart n | SReady _ n => Some n | _ => None end.
Fixpoint insert_pos (x : Z * Z) (l : list (Z * Z)) : list (Z * Z) :=
  match l with [] => [x] | y :: r => if fst x <? fst y then x :: l else y :: insert_pos x r end.
Definition to_run (s : state) : list Z :=
  map snd (fold_right insert_pos [] (flat_map (fun a => match runnable_pos a with Some n => [(n, a_pid a)] | None => [] end) (actors s))).
Definition count {A} (f : A -> bool) (l : list A) : Z := Z.of_nat (length (filter f l)).

Definition subround (s : state) : state :=
  let l := to_run s in
  let s1 := fold_left handle_simcall l (fold_left run_actor l s) in
  handle_ended (set_amb s1 (2 <=? count is_failed (comms s1))).

Fixpoint drain (fuel : nat) (s : state) : state :=
  match fuel with
  | O => s
  | S f => match to_run s with [] => s | _ => drain f (subround s) end
  end.

(* ---------------------------------------------------------------------------------------------- time *)
Definition omin (a : option Z) (b : Z) : option Z := match a with None => Some b | Some x => Some (Z.min x b) end.
Definition actor_dates (a : actor) : list Z :=
  match a_st a with SBlocked (BSleep dt) => [dt] | SBlocked (BWait _ (Some dl)) => [dl] | _ => [] end.
Definition comm_dates (x : comm) : list Z := match c_act x with Some (ARun dt) => [dt] | _ => [] end.
Definition all_dates (s : state) : list Z := flat_map actor_dates (actors s) ++ flat_map comm_dates (comms s).
Definition next_date (s : state) : option Z := fold_left omin (all_dates s) None.

Definition pop_actor (s : state) (m : Z) (a : actor) : actor :=
  match a_st a with SBlocked (BSleep dt) => if due (prec s) m dt false then set_st a (SBlocked BFin) else a | _ => a end.
Definition pop_comm (s : state) (m : Z) (x : comm) : comm := set_act x (pop_astate (prec s) m (c_io x) (c_act x)).

(* one timer of Timer::execute_all: the callback set by ActivityImpl::wait_for *)
Definition fire_timeout (s : state) (p : Z) : state :=
  match get_actor p (actors s) with
  | None => s
  | Some a =>
    match a_st a with
    | SBlocked (BWait k (Some dl)) =>
      if dl <=? clock s then
        match get_comm k (comms s) with
        | Some x =>
          if timer_skips (c_act x) then mod_actor s p (fun a => set_st a (SBlocked (BWait k None)))   (* terminated right on time *)
          else answer (mod_comm s k (fun x => set_comm x (c_st x) (c_act x) (filter (fun q => negb (q =? p)) (c_wait x)) (c_closed x))) p 1
        | None => answer s p 1
        end
      else s
    | _ => s
    end
  end.
Definition fire_timers (s : state) : state := fold_left fire_timeout (pids s) s.
Definition timer_answers (s : state) (a : actor) : bool :=
  match a_st a with
  | SBlocked (BWait k (Some dl)) =>
    (dl <=? clock s) && match get_comm k (comms s) with Some x => negb (timer_skips (c_act x)) | None => true end
  | _ => false
  end.
Definition popped (a : actor) : bool := match a_st a with SBlocked BFin => true | _ => false end.

(* solve() + update_actions_state, then Timer::execute_all, then handle_ended_actions. None = the simulation is over.
   [amb]: two timers answering, or two actions ending, at one date (heap / model order not modelled). *)
Definition advance (s : state) : option state :=
  match next_date s with
  | None => None
  | Some m =>
    if m <? clock s then Some (set_stuck s)
    else
      let s1 := set_clock s m in
      let s2 := set_comms (set_actors s1 (map (pop_actor s1 m) (actors s1))) (map (pop_comm s1 m) (comms s1)) in
      let s3 := set_amb s2 ((2 <=? count popped (actors s2) + count is_fin (comms s2)) || (2 <=? count (timer_answers s2) (actors s2))) in
      Some (handle_ended (fire_timers s3))
  end.

Fixpoint run (fuel : nat) (s : state) : state * bool :=
  match fuel with
  | O => (s, false)
  | S f =>
    let s1 := drain fuel s in
    if stuck s1 then (s1, true) else
    match advance s1 with
    | None => (s1, true)
    | Some s2 => if stuck s2 then (s2, true) else run f s2
    end
  end.

Definition init_actor (p : Z) (prog : list op) : actor := mkA p KBad prog 0 (SStart p) 0.
Fixpoint init_actors (p : Z) (progs : list (list op)) : list actor :=
  match progs with [] => [] | pr :: r => init_actor p pr :: init_actors (p + 1) r end.
Definition init (pr : Z) (progs : list (list op)) : state :=
  mkS 0 pr (Z.of_nat (length progs) + 1) (init_actors 1 progs) [] [] false false.

(* ---------------------------------------------------------------------------------------------- one timed wait *)
(* The life of ONE timed wait seen from the waiter, built from the same three local rules in the order of [advance]:
   the waiter registered at date t0 with deadline [e_dl]; the activity's action is [e_act] (None while the peer has not
   posted its side); the peer posts at date [e_peer] (None: already there, or never), which creates the action with
   completion date e_peer + e_dur.  [ep_visit m] is what the engine does when the clock reaches m. *)
Inductive eres := EWaiting | EDone (t : Z) | ETimeout (t : Z) | EFailed (t : Z).
Record episode := mkE { e_act : option astate; e_dl : option Z; e_peer : option Z; e_dur : Z; e_io : bool; e_res : eres;
                        e_cst : cst }.
Definition ep_set (e : episode) (act : option astate) (dl : option Z) (peer : option Z) (r : eres) (st : cst) : episode :=
  mkE act dl peer (e_dur e) (e_io e) r st.

Definition ep_visit (pr : Z) (oc : bool) (m : Z) (e : episode) : episode :=
  match e_res e with
  | EWaiting =>
    (* solve(): the action is popped when due *)
    let act := pop_astate pr m (e_io e) (e_act e) in
    (* Timer::execute_all: the deadline callback reads the action as it is now *)
    let timed_out := match e_dl e with Some dl => (dl <=? m) && negb (timer_skips act) | None => false end in
    if timed_out then
      (* wait_for_or_cancel: cancel() in the next sub-round, same date *)
      if oc then ep_set e (match act with Some (ARun _) => Some AFailed | a => a end) None None (ETimeout m)
                        (match e_cst e with CWaiting => CCanceled | st => if e_io e then CCanceled else st end)
      else ep_set e act None (e_peer e) (ETimeout m) (e_cst e)
    else
      (* handle_ended_actions *)
      match ended_result act with
      | Some r => ep_set e None None None (if r =? 0 then EDone m else EFailed m) (if r =? 0 then CDone m else CFailed)
      | None =>
        (* sub-rounds at date m: the peer posts its side, CommImpl::start() creates the action *)
        match e_peer e, act with
        | Some tp, None => if tp <=? m then ep_set e (Some (ARun (m + e_dur e))) (e_dl e) None EWaiting CRunning
                           else ep_set e act (e_dl e) (e_peer e) EWaiting (e_cst e)
        | _, _ => ep_set e act (e_dl e) (e_peer e) EWaiting (e_cst e)
        end
      end
  | _ => e
  end.

Definition ep_run (pr : Z) (oc : bool) (ms : list Z) (e : episode) : episode := fold_left (fun e m => ep_visit pr oc m e) ms e.

(* ---------------------------------------------------------------------------------------------- integer-list protocol *)
(* ops: 1 d sleep | 2 c d put_async | 3 c get_async | 4 c t wait_for | 5 c d t Mailbox::put(.., t) | 6 c t Mailbox::get(t)
        | 7 c d Io async | 8 c t wait_for_or_cancel | 9 c d t put_init()->wait_for(t) | 10 c t get_init()->wait_for(t) *)
Definition decode_op (l : list Z) : list op * list Z :=
  match l with
  | 1 :: d :: r => ([KSleep d], r)
  | 2 :: c :: d :: r => ([KPut c d false], r)
  | 3 :: c :: r => ([KGet c false], r)
  | 4 :: c :: t :: r => ([KWait c t false], r)
  | 5 :: c :: d :: t :: r => ([KPut c d true; KWait c t true], r)
  | 6 :: c :: t :: r => ([KGet c true; KWait c t true], r)
  | 7 :: c :: d :: r => ([KIo c d], r)
  | 8 :: c :: t :: r => ([KWait c t true], r)
  | 9 :: c :: d :: t :: r => ([KPutW c d t], r)
  | 10 :: c :: t :: r => ([KGetW c t], r)
  | _ :: r => ([KBad], r)
  | [] => ([KBad], [])
  end.
Fixpoint decode_ops (n : nat) (l : list Z) : list op * list Z :=
  match n with
  | O => ([], l)
  | S n' => let '(o, r) := decode_op l in let '(os, r') := decode_ops n' r in (o ++ os, r')
  end.
Fixpoint decode_progs (n : nat) (l : list Z) : list (list op) :=
  match n with
  | O => []
  | S n' => match l with
            | nops :: r => let '(os, r') := decode_ops (Z.to_nat nops) r in os :: decode_progs n' r'
            | [] => [] :: decode_progs n' []
            end
  end.
Definition b2z (b : bool) : Z := if b then 1 else 0.
Definition encode_entry (e : entry) : list Z := match e with ERet p i t0 t1 r => [p; i; t0; t1; r] end.
(* input: k p n progs ; output: ended amb stuck clock then 5 integers per returned operation *)
Definition run_tc (l : list Z) : list Z :=
  match l with
  | _ :: pr :: n :: r =>
    let '(s, fin) := run 4000 (init pr (decode_progs (Z.to_nat n) r)) in
    [b2z fin; b2z (amb s); b2z (stuck s); clock s] ++ flat_map encode_entry (rev (log s))
  | _ => []
  end.
