(** C08 — proofs about the mailbox model (SGV.Kernel.Mailbox). *)
From SGV Require Import Base.Tactics Kernel.Mailbox.
From Coq Require Import Permutation.
Local Open Scope Z_scope.

(** * decidable equality, permutations through counting *)
Lemma mfilter_eq_dec : forall a b : mfilter, {a = b} + {a <> b}.
Proof. decide equality; apply Z.eq_dec. Defined.
Lemma comm_eq_dec : forall a b : comm, {a = b} + {a <> b}.
Proof. decide equality; try apply Z.eq_dec; apply mfilter_eq_dec. Defined.

Notation cnt := (count_occ comm_eq_dec).

Ltac perm_count :=
  apply (Permutation_count_occ comm_eq_dec); intro;
  repeat (rewrite ?count_occ_app; cbn [count_occ app map fst snd]);
  repeat match goal with |- context [comm_eq_dec ?a ?b] => destruct (comm_eq_dec a b) end;
  try lia.

(** * find_remove *)
Lemma matches_ent_kind : forall ty me e, matches_ent ty me e = true -> fst e = ty.
Proof.
  intros ty me [k c] H. unfold matches_ent in H. cbn [fst snd] in *.
  destruct k, ty; cbn in H; try discriminate; reflexivity.
Qed.

Lemma find_remove_some : forall ty me q c q',
  find_remove ty me q = Some (c, q') ->
  exists l1 l2, q = l1 ++ (ty, c) :: l2 /\ q' = l1 ++ l2 /\ matches_ent ty me (ty, c) = true /\
                Forall (fun e => matches_ent ty me e = false) l1.
Proof.
  induction q as [|e q IH]; intros c q' H; cbn [find_remove] in H; [discriminate|].
  destruct (matches_ent ty me e) eqn:E.
  - inv H. exists [], q'. pose proof (matches_ent_kind _ _ _ E) as K. destruct e as [k c0]. cbn [fst snd] in *. subst k.
    repeat split; auto.
  - destruct (find_remove ty me q) as [[c1 r1]|] eqn:F; [|discriminate]. inv H.
    destruct (IH _ _ eq_refl) as (l1 & l2 & -> & -> & M & N).
    exists (e :: l1), l2. repeat split; auto.
Qed.

Lemma find_remove_none : forall ty me q,
  find_remove ty me q = None -> Forall (fun e => matches_ent ty me e = false) q.
Proof.
  induction q as [|e q IH]; intros H; cbn [find_remove] in H; [constructor|].
  destruct (matches_ent ty me e) eqn:E; [discriminate|].
  destruct (find_remove ty me q) as [[c1 r1]|] eqn:F; [discriminate|]. constructor; auto.
Qed.

Lemma matches_send : forall r s, matches_ent true r (true, s) = compat s r.
Proof. intros. unfold matches_ent, compat. cbn. reflexivity. Qed.
Lemma matches_recv : forall r s, matches_ent false s (false, r) = compat s r.
Proof. intros. unfold matches_ent, compat. cbn. apply andb_comm. Qed.
Lemma matches_other : forall ty me c, matches_ent ty me (negb ty, c) = false.
Proof. intros. unfold matches_ent. cbn. destruct ty; reflexivity. Qed.

(** * pending requests *)
Definition pend (ty : bool) (l : list qent) : list comm := map snd (filter (fun e => Bool.eqb (fst e) ty) l).
Lemma pend_app : forall ty a b, pend ty (a ++ b) = pend ty a ++ pend ty b.
Proof. intros. unfold pend. rewrite filter_app, map_app. reflexivity. Qed.
Lemma pending_pend : forall ty m, pending ty m = pend ty (mq m) ++ pend ty (mdone m).
Proof. intros. unfold pending. fold (pend ty (mq m ++ mdone m)). apply pend_app. Qed.
Lemma pend_cons_same : forall ty c l, pend ty ((ty, c) :: l) = c :: pend ty l.
Proof. intros. unfold pend. cbn. rewrite Bool.eqb_reflx. reflexivity. Qed.
Lemma pend_cons_other : forall ty c l, pend ty ((negb ty, c) :: l) = pend ty l.
Proof. intros. unfold pend. cbn. destruct ty; reflexivity. Qed.
Lemma in_pend : forall ty c l, In c (pend ty l) <-> In (ty, c) l.
Proof.
  intros. unfold pend. rewrite in_map_iff. split.
  - intros ([k c0] & E & I). cbn in E. subst c0. apply filter_In in I. destruct I as [I K]. cbn in K.
    apply Bool.eqb_prop in K. subst. exact I.
  - intros I. exists (ty, c). split; auto. apply filter_In. split; auto. cbn. apply Bool.eqb_reflx.
Qed.
Lemma in_pending : forall ty c m, In c (pending ty m) <-> In (ty, c) (mq m ++ mdone m).
Proof. intros. unfold pending. apply (in_pend ty c (mq m ++ mdone m)). Qed.

Lemma matches_of_app : forall a b, matches_of (a ++ b) = matches_of a ++ matches_of b.
Proof. induction a as [|[s r|c f] a IH]; intros; cbn; rewrite ?IH; reflexivity. Qed.

(** * exactly once: conservation of requests, as multisets *)
Definition sends1 (o : op) : list comm := match o with OSend c => [c] | _ => [] end.
Definition recvs1 (o : op) : list comm := match o with ORecv c => [c] | _ => [] end.

Lemma step_conserves_sends : forall m o m' ev, step m o = (m', ev) ->
  Permutation (pending_sends m ++ sends1 o) (map fst (matches_of ev) ++ pending_sends m').
Proof.
  intros m o m' ev H. unfold pending_sends. rewrite !pending_pend.
  destruct o as [s|r|p|c]; cbn [step sends1] in *.
  - unfold isend in H. destruct (find_remove false s (mq m)) as [[r q']|] eqn:F.
    + inv H. apply find_remove_some in F. destruct F as (l1 & l2 & E & -> & _ & _). rewrite E.
      cbn [mq mdone matches_of map fst]. rewrite !pend_app. change (false, r) with (negb true, r).
      rewrite pend_cons_other. perm_count.
    + destruct (is_some (mperm m)); inv H; cbn [mq mdone matches_of map fst]; rewrite !pend_app, pend_cons_same;
        cbn [pend filter map]; perm_count.
  - unfold irecv in H. destruct (is_some (mperm m) && negb (is_nil (mdone m))).
    + destruct (find_remove true r (mdone m)) as [[s d']|] eqn:F.
      * inv H. apply find_remove_some in F. destruct F as (l1 & l2 & E & -> & _ & _). rewrite E.
        cbn [mq mdone matches_of map fst]. rewrite !pend_app, pend_cons_same. perm_count.
      * inv H. cbn [mq mdone matches_of map fst]. rewrite !pend_app. change (false, r) with (negb true, r).
        rewrite pend_cons_other. cbn [pend filter map]. perm_count.
    + destruct (find_remove true r (mq m)) as [[s q']|] eqn:F.
      * inv H. apply find_remove_some in F. destruct F as (l1 & l2 & E & -> & _ & _). rewrite E.
        cbn [mq mdone matches_of map fst]. rewrite !pend_app, pend_cons_same. perm_count.
      * inv H. cbn [mq mdone matches_of map fst]. rewrite !pend_app. change (false, r) with (negb true, r).
        rewrite pend_cons_other. cbn [pend filter map]. perm_count.
  - inv H. cbn [mq mdone matches_of map fst]. perm_count.
  - inv H. cbn [mq mdone matches_of map fst]. perm_count.
Qed.

Lemma step_conserves_recvs : forall m o m' ev, step m o = (m', ev) ->
  Permutation (pending_recvs m ++ recvs1 o) (map snd (matches_of ev) ++ pending_recvs m').
Proof.
  intros m o m' ev H. unfold pending_recvs. rewrite !pending_pend.
  destruct o as [s|r|p|c]; cbn [step recvs1] in *.
  - unfold isend in H. destruct (find_remove false s (mq m)) as [[r q']|] eqn:F.
    + inv H. apply find_remove_some in F. destruct F as (l1 & l2 & E & -> & _ & _). rewrite E.
      cbn [mq mdone matches_of map snd]. rewrite !pend_app, pend_cons_same. perm_count.
    + destruct (is_some (mperm m)); inv H; cbn [mq mdone matches_of map snd]; rewrite !pend_app;
        change (true, s) with (negb false, s); rewrite pend_cons_other; cbn [pend filter map]; perm_count.
  - unfold irecv in H. destruct (is_some (mperm m) && negb (is_nil (mdone m))).
    + destruct (find_remove true r (mdone m)) as [[s d']|] eqn:F.
      * inv H. apply find_remove_some in F. destruct F as (l1 & l2 & E & -> & _ & _). rewrite E.
        cbn [mq mdone matches_of map snd]. rewrite !pend_app. change (true, s) with (negb false, s).
        rewrite pend_cons_other. perm_count.
      * inv H. cbn [mq mdone matches_of map snd]. rewrite !pend_app, pend_cons_same. cbn [pend filter map]. perm_count.
    + destruct (find_remove true r (mq m)) as [[s q']|] eqn:F.
      * inv H. apply find_remove_some in F. destruct F as (l1 & l2 & E & -> & _ & _). rewrite E.
        cbn [mq mdone matches_of map snd]. rewrite !pend_app. change (true, s) with (negb false, s).
        rewrite pend_cons_other. perm_count.
      * inv H. cbn [mq mdone matches_of map snd]. rewrite !pend_app, pend_cons_same. cbn [pend filter map]. perm_count.
  - inv H. cbn [mq mdone matches_of map snd]. perm_count.
  - inv H. cbn [mq mdone matches_of map snd]. perm_count.
Qed.

Lemma sends_of_cons : forall o t, sends_of (o :: t) = sends1 o ++ sends_of t.
Proof. destruct o; reflexivity. Qed.
Lemma recvs_of_cons : forall o t, recvs_of (o :: t) = recvs1 o ++ recvs_of t.
Proof. destruct o; reflexivity. Qed.

Lemma run_cons : forall m o t, run m (o :: t) =
  (fst (run (fst (step m o)) t), snd (step m o) ++ snd (run (fst (step m o)) t)).
Proof. intros. cbn [run]. destruct (step m o) as [m1 ev]. cbn [fst snd]. destruct (run m1 t). reflexivity. Qed.

Lemma run_conserves_sends : forall ops m,
  Permutation (pending_sends m ++ sends_of ops)
              (map fst (matches_of (snd (run m ops))) ++ pending_sends (fst (run m ops))).
Proof.
  induction ops as [|o t IH]; intros m.
  - cbn. rewrite app_nil_r. apply Permutation_refl.
  - rewrite run_cons. cbn [fst snd]. rewrite sends_of_cons, matches_of_app, map_app.
    pose proof (step_conserves_sends m o _ _ (surjective_pairing _)) as S1.
    specialize (IH (fst (step m o))).
    rewrite (Permutation_count_occ comm_eq_dec) in S1, IH.
    apply (Permutation_count_occ comm_eq_dec). intro x. specialize (S1 x). specialize (IH x).
    rewrite !count_occ_app in *. lia.
Qed.

Lemma run_conserves_recvs : forall ops m,
  Permutation (pending_recvs m ++ recvs_of ops)
              (map snd (matches_of (snd (run m ops))) ++ pending_recvs (fst (run m ops))).
Proof.
  induction ops as [|o t IH]; intros m.
  - cbn. rewrite app_nil_r. apply Permutation_refl.
  - rewrite run_cons. cbn [fst snd]. rewrite recvs_of_cons, matches_of_app, map_app.
    pose proof (step_conserves_recvs m o _ _ (surjective_pairing _)) as S1.
    specialize (IH (fst (step m o))).
    rewrite (Permutation_count_occ comm_eq_dec) in S1, IH.
    apply (Permutation_count_occ comm_eq_dec). intro x. specialize (S1 x). specialize (IH x).
    rewrite !count_occ_app in *. lia.
Qed.

(* every pair is made of requests that accept each other *)
Lemma step_pairs_compat : forall m o m' ev s r, step m o = (m', ev) -> In (s, r) (matches_of ev) -> compat s r = true.
Proof.
  intros m o m' ev s r H I. destruct o as [s0|r0|p|c]; cbn [step] in H.
  - unfold isend in H. destruct (find_remove false s0 (mq m)) as [[r1 q']|] eqn:F.
    + inv H. cbn in I. destruct I as [I|[]]. inversion I; subst. apply find_remove_some in F.
      destruct F as (? & ? & _ & _ & M & _). rewrite matches_recv in M. exact M.
    + destruct (is_some (mperm m)); inv H; destruct I.
  - unfold irecv in H. destruct (is_some (mperm m) && negb (is_nil (mdone m))).
    + destruct (find_remove true r0 (mdone m)) as [[s1 d']|] eqn:F; inv H; cbn in I; [|destruct I].
      destruct I as [I|[]]. inversion I; subst. apply find_remove_some in F.
      destruct F as (? & ? & _ & _ & M & _). rewrite matches_send in M. exact M.
    + destruct (find_remove true r0 (mq m)) as [[s1 d']|] eqn:F; inv H; cbn in I; [|destruct I].
      destruct I as [I|[]]. inversion I; subst. apply find_remove_some in F.
      destruct F as (? & ? & _ & _ & M & _). rewrite matches_send in M. exact M.
  - inv H. destruct I.
  - inv H. destruct I.
Qed.

Lemma run_pairs_compat : forall ops m s r, In (s, r) (matches_of (snd (run m ops))) -> compat s r = true.
Proof.
  induction ops as [|o t IH]; intros m s r I.
  - destruct I.
  - rewrite run_cons in I. cbn [snd] in I. rewrite matches_of_app in I. apply in_app_or in I. destruct I as [I|I].
    + eapply step_pairs_compat; [apply surjective_pairing|exact I].
    + eapply IH; exact I.
Qed.

Theorem exactly_once : forall ops,
  let res := run mbox_init ops in
  Permutation (sends_of ops) (map fst (matches_of (snd res)) ++ pending_sends (fst res)) /\
  Permutation (recvs_of ops) (map snd (matches_of (snd res)) ++ pending_recvs (fst res)) /\
  (forall s r, In (s, r) (matches_of (snd res)) ->
     In s (sends_of ops) /\ In r (recvs_of ops) /\ compat s r = true).
Proof.
  intros ops res. pose proof (run_conserves_sends ops mbox_init) as PS. pose proof (run_conserves_recvs ops mbox_init) as PR.
  cbn [pending_sends pending_recvs pending mbox_init mq mdone app filter map] in PS, PR. fold res in PS, PR.
  split; [exact PS|]. split; [exact PR|]. intros s r I. repeat split.
  - eapply Permutation_in; [apply Permutation_sym; exact PS|]. apply in_or_app. left.
    change s with (fst (s, r)). apply in_map. exact I.
  - eapply Permutation_in; [apply Permutation_sym; exact PR|]. apply in_or_app. left.
    change r with (snd (s, r)). apply in_map. exact I.
  - eapply run_pairs_compat. exact I.
Qed.

Lemma nodup_app_l : forall {A} (a b : list A), NoDup (a ++ b) -> NoDup a.
Proof.
  induction a as [|x a IH]; intros b H; [constructor|]. cbn in H. inversion H as [|? ? N1 N2]; subst.
  constructor; [|eapply IH; exact N2]. intro I. apply N1. apply in_or_app. left. exact I.
Qed.

(* with distinct issue numbers nothing is delivered twice and no receive is served twice *)
Theorem no_duplicate_delivery : forall ops,
  NoDup (map cid (sends_of ops)) -> NoDup (map cid (recvs_of ops)) ->
  let ms := matches_of (snd (run mbox_init ops)) in
  NoDup (map cid (map fst ms)) /\ NoDup (map cid (map snd ms)).
Proof.
  intros ops NS NR ms. destruct (exactly_once ops) as (PS & PR & _). fold ms in PS, PR. split.
  - eapply (Permutation_map cid) in PS. eapply Permutation_NoDup in NS; [|exact PS]. rewrite map_app in NS.
    eapply nodup_app_l. exact NS.
  - eapply (Permutation_map cid) in PR. eapply Permutation_NoDup in NR; [|exact PR]. rewrite map_app in NR.
    eapply nodup_app_l. exact NR.
Qed.

(** * the invariant behind "oldest accepted first" *)
Fixpoint sorted (l : list qent) : Prop :=
  match l with
  | [] => True
  | a :: t => Forall (fun b => cid (snd a) < cid (snd b)) t /\ sorted t
  end.
Definition bounded (n : Z) (l : list qent) : Prop := Forall (fun e => cid (snd e) < n) l.

Lemma sorted_after : forall l1 a l2, sorted (l1 ++ a :: l2) -> Forall (fun b => cid (snd a) < cid (snd b)) l2.
Proof.
  induction l1 as [|x l1 IH]; intros a l2 H; cbn in H; destruct H as [H1 H2]; [exact H1|]. eapply IH; exact H2.
Qed.
Lemma sorted_remove : forall l1 a l2, sorted (l1 ++ a :: l2) -> sorted (l1 ++ l2).
Proof.
  induction l1 as [|x l1 IH]; intros a l2 H; cbn in H; destruct H as [H1 H2]; cbn; [exact H2|].
  split; [|eapply IH; exact H2]. apply Forall_app in H1. destruct H1 as [A B]. inversion B; subst.
  apply Forall_app. split; assumption.
Qed.
Lemma sorted_snoc : forall l a, sorted l -> Forall (fun b => cid (snd b) < cid (snd a)) l -> sorted (l ++ [a]).
Proof.
  induction l as [|x l IH]; intros a S F; cbn; [split; [constructor|exact I]|].
  destruct S as [S1 S2]. inversion F; subst. split; [|apply IH; assumption].
  apply Forall_app. split; [exact S1|]. constructor; [assumption|constructor].
Qed.
Lemma bounded_mono : forall n n' l, bounded n l -> n <= n' -> bounded n' l.
Proof. intros n n' l B L. unfold bounded in *. eapply Forall_impl; [|exact B]. cbn. intros; lia. Qed.
Lemma bounded_remove : forall n l1 a l2, bounded n (l1 ++ a :: l2) -> bounded n (l1 ++ l2).
Proof.
  unfold bounded. intros n l1 a l2 H. apply Forall_app in H. destruct H as [A B]. inversion B; subst.
  apply Forall_app; split; assumption.
Qed.
Lemma bounded_snoc : forall n l a, bounded n l -> sorted l -> n <= cid (snd a) ->
  bounded (cid (snd a) + 1) (l ++ [a]) /\ sorted (l ++ [a]).
Proof.
  intros n l a B S L. split.
  - unfold bounded in *. apply Forall_app. split; [|constructor; [lia|constructor]].
    eapply Forall_impl; [|exact B]. cbn. intros; lia.
  - apply sorted_snoc; [exact S|]. unfold bounded in B. eapply Forall_impl; [|exact B]. cbn. intros; lia.
Qed.

Definition mode_ok (m : mbox) : Prop :=
  match mperm m with
  | Some _ => forall e, In e (mq m) -> fst e = false
  | None => mdone m = []
  end.
Definition no_missed (m : mbox) : Prop :=
  forall s r, In (true, s) (mq m ++ mdone m) -> In (false, r) (mq m ++ mdone m) -> compat s r = false.

Record Inv (m : mbox) (n : Z) : Prop := {
  inv_sq : sorted (mq m);
  inv_sd : sorted (mdone m);
  inv_bq : bounded n (mq m);
  inv_bd : bounded n (mdone m);
  inv_done_sends : forall e, In e (mdone m) -> fst e = true;
  inv_mode : mode_ok m;
  inv_nm : no_missed m
}.

Lemma inv_init : Inv mbox_init 0.
Proof. constructor; cbn; try constructor; try reflexivity; intros; try contradiction. intros s r []. Qed.

(* first match in a sorted queue = oldest compatible send *)
Lemma find_remove_oldest : forall r q s q', sorted q -> find_remove true r q = Some (s, q') ->
  In (true, s) q /\ compat s r = true /\
  forall s', In (true, s') q -> compat s' r = true -> cid s <= cid s'.
Proof.
  intros r q s q' S F. apply find_remove_some in F. destruct F as (l1 & l2 & -> & -> & M & N).
  rewrite matches_send in M. split; [apply in_elt|]. split; [exact M|]. intros s' I C.
  apply in_app_or in I. destruct I as [I|[I|I]].
  - rewrite Forall_forall in N. specialize (N _ I). rewrite matches_send in N. congruence.
  - inv I. lia.
  - apply sorted_after in S. rewrite Forall_forall in S. specialize (S _ I). cbn in S. lia.
Qed.
Lemma find_remove_none_send : forall r q, find_remove true r q = None ->
  forall s', In (true, s') q -> compat s' r = false.
Proof.
  intros r q F s' I. apply find_remove_none in F. rewrite Forall_forall in F. specialize (F _ I).
  rewrite matches_send in F. exact F.
Qed.
Lemma find_remove_none_recv : forall s q, find_remove false s q = None ->
  forall r', In (false, r') q -> compat s r' = false.
Proof.
  intros s q F r' I. apply find_remove_none in F. rewrite Forall_forall in F. specialize (F _ I).
  rewrite matches_recv in F. exact F.
Qed.

(* where the pending sends are *)
Lemma sends_where : forall m n, Inv m n ->
  if is_some (mperm m) && negb (is_nil (mdone m))
  then forall s, In (true, s) (mq m ++ mdone m) -> In (true, s) (mdone m)
  else forall s, In (true, s) (mq m ++ mdone m) -> In (true, s) (mq m).
Proof.
  intros m n I. pose proof (inv_mode _ _ I) as M. unfold mode_ok in M.
  destruct (mperm m) as [p|] eqn:P; cbn [is_some andb].
  - destruct (mdone m) as [|d dd] eqn:D; cbn [is_nil negb].
    + intros s H. rewrite app_nil_r in H. exact H.
    + intros s H. apply in_app_or in H. destruct H as [H|H]; [|exact H]. apply M in H. discriminate.
  - intros s H. rewrite M, app_nil_r in H. exact H.
Qed.

Lemma irecv_oldest : forall m n r, Inv m n -> recv_outcome m r (snd (irecv m r)).
Proof.
  intros m n r I. pose proof (sends_where _ _ I) as W. unfold irecv, recv_outcome, pending_sends.
  destruct (is_some (mperm m) && negb (is_nil (mdone m))).
  - destruct (find_remove true r (mdone m)) as [[s d']|] eqn:F; cbn [snd].
    + left. exists s. destruct (find_remove_oldest _ _ _ _ (inv_sd _ _ I) F) as (A & B & C).
      split; [reflexivity|]. split; [apply in_pending; apply in_or_app; right; exact A|]. split; [exact B|].
      intros s' H. apply in_pending in H. apply W in H. apply C. exact H.
    + right. split; [reflexivity|]. intros s' H. apply in_pending in H. apply W in H.
      eapply find_remove_none_send; eassumption.
  - destruct (find_remove true r (mq m)) as [[s d']|] eqn:F; cbn [snd].
    + left. exists s. destruct (find_remove_oldest _ _ _ _ (inv_sq _ _ I) F) as (A & B & C).
      split; [reflexivity|]. split; [apply in_pending; apply in_or_app; left; exact A|]. split; [exact B|].
      intros s' H. apply in_pending in H. apply W in H. apply C. exact H.
    + right. split; [reflexivity|]. intros s' H. apply in_pending in H. apply W in H.
      eapply find_remove_none_send; eassumption.
Qed.

(** * preservation *)
Definition nxt1 (n : Z) (o : op) : Z :=
  match o with OSend c | ORecv c | OProbe c => cid c + 1 | OSetRecv _ => n end.
Definition wf1 (n : Z) (o : op) : Prop :=
  match o with OSend c | ORecv c | OProbe c => n <= cid c | OSetRecv _ => True end.

Lemma in_remove_elt : forall {A} (x a : A) l1 l2, In x (l1 ++ l2) -> In x (l1 ++ a :: l2).
Proof. intros. apply in_app_or in H. apply in_or_app. destruct H; [left|right; right]; assumption. Qed.

Lemma step_inv : forall m n o, Inv m n -> wf1 n o -> guard m o = true -> Inv (fst (step m o)) (nxt1 n o).
Proof.
  intros m n o I W G. pose proof (sends_where _ _ I) as SW.
  destruct I as [Sq Sd Bq Bd Ds Mo Nm].
  destruct o as [s|r|p|c]; cbn [step wf1 nxt1 guard] in *.
  - (* isend *)
    unfold isend. destruct (find_remove false s (mq m)) as [[r q']|] eqn:F; cbn [fst].
    + apply find_remove_some in F. destruct F as (l1 & l2 & E & -> & _ & _).
      constructor; cbn [mq mdone mperm].
      * rewrite E in Sq. eapply sorted_remove; exact Sq.
      * exact Sd.
      * rewrite E in Bq. eapply bounded_mono; [eapply bounded_remove; exact Bq|lia].
      * eapply bounded_mono; [exact Bd|lia].
      * exact Ds.
      * unfold mode_ok in *. cbn [mperm mq mdone]. destruct (mperm m); [|exact Mo].
        intros e H. apply Mo. rewrite E. apply in_remove_elt. exact H.
      * unfold no_missed in *. cbn [mq mdone]. intros s0 r0 H1 H2. apply Nm; rewrite E, <- app_assoc; cbn [app];
          rewrite <- app_assoc in H1, H2; apply in_remove_elt; assumption.
    + pose proof (find_remove_none_recv _ _ F) as NR.
      destruct (mperm m) as [p|] eqn:P; cbn [is_some fst].
      * destruct (bounded_snoc n (mdone m) (true, s) Bd Sd W) as [B1 S1].
        constructor; cbn [mq mdone mperm].
        -- exact Sq.
        -- exact S1.
        -- eapply bounded_mono; [exact Bq|lia].
        -- exact B1.
        -- intros e H. apply in_app_or in H. destruct H as [H|[H|[]]]; [apply Ds; exact H|subst; reflexivity].
        -- unfold mode_ok in *. cbn [mperm mq mdone]. rewrite P in *. exact Mo.
        -- unfold no_missed in *. cbn [mq mdone]. intros s0 r0 H1 H2. rewrite app_assoc in H1, H2.
           apply in_app_or in H1. apply in_app_or in H2.
           destruct H2 as [H2|[H2|[]]]; [|discriminate].
           destruct H1 as [H1|[H1|[]]]; [apply Nm; assumption|]. inv H1.
           apply in_app_or in H2. destruct H2 as [H2|H2]; [apply NR; exact H2|]. apply Ds in H2. discriminate.
      * destruct (bounded_snoc n (mq m) (true, s) Bq Sq W) as [B1 S1].
        unfold mode_ok in Mo. rewrite P in Mo.
        constructor; cbn [mq mdone mperm].
        -- exact S1.
        -- exact Sd.
        -- exact B1.
        -- eapply bounded_mono; [exact Bd|lia].
        -- exact Ds.
        -- unfold mode_ok. cbn [mperm mq mdone]. exact Mo.
        -- unfold no_missed in *. cbn [mq mdone]. rewrite Mo in *. rewrite app_nil_r in *. intros s0 r0 H1 H2.
           apply in_app_or in H1. apply in_app_or in H2.
           destruct H2 as [H2|[H2|[]]]; [|discriminate].
           destruct H1 as [H1|[H1|[]]]; [apply Nm; assumption|]. inv H1. apply NR; exact H2.
  - (* irecv *)
    unfold irecv. destruct (is_some (mperm m) && negb (is_nil (mdone m))) eqn:C.
    + destruct (find_remove true r (mdone m)) as [[s d']|] eqn:F; cbn [fst].
      * apply find_remove_some in F. destruct F as (l1 & l2 & E & -> & _ & _).
        constructor; cbn [mq mdone mperm].
        -- exact Sq.
        -- rewrite E in Sd. eapply sorted_remove; exact Sd.
        -- eapply bounded_mono; [exact Bq|lia].
        -- rewrite E in Bd. eapply bounded_mono; [eapply bounded_remove; exact Bd|lia].
        -- intros e H. apply Ds. rewrite E. apply in_remove_elt. exact H.
        -- unfold mode_ok in *. cbn [mperm mq mdone]. destruct (mperm m); [exact Mo|]. cbn in C. discriminate.
        -- unfold no_missed in *. cbn [mq mdone]. intros s0 r0 H1 H2. apply Nm; rewrite E;
             rewrite app_assoc; rewrite app_assoc in H1, H2; apply in_remove_elt; assumption.
      * pose proof (find_remove_none_send _ _ F) as NS.
        destruct (bounded_snoc n (mq m) (false, r) Bq Sq W) as [B1 S1].
        constructor; cbn [mq mdone mperm].
        -- exact S1.
        -- exact Sd.
        -- exact B1.
        -- eapply bounded_mono; [exact Bd|lia].
        -- exact Ds.
        -- unfold mode_ok in *. cbn [mperm mq mdone]. destruct (mperm m); [|cbn in C; discriminate].
           intros e H. apply in_app_or in H. destruct H as [H|[H|[]]]; [apply Mo; exact H|subst; reflexivity].
        -- unfold no_missed in *. cbn [mq mdone]. intros s0 r0 H1 H2.
           assert (H1' : In (true, s0) (mq m ++ mdone m)).
           { rewrite <- app_assoc in H1. apply in_app_or in H1. destruct H1 as [H1|H1]; [apply in_or_app; left; exact H1|].
             cbn in H1. destruct H1 as [H1|H1]; [discriminate|]. apply in_or_app; right; exact H1. }
           rewrite <- app_assoc in H2. apply in_app_or in H2. destruct H2 as [H2|H2].
           ++ apply Nm; [exact H1'|apply in_or_app; left; exact H2].
           ++ cbn in H2. destruct H2 as [H2|H2].
              ** inv H2. apply NS. apply SW. exact H1'.
              ** apply Nm; [exact H1'|apply in_or_app; right; exact H2].
    + destruct (find_remove true r (mq m)) as [[s q']|] eqn:F; cbn [fst].
      * apply find_remove_some in F. destruct F as (l1 & l2 & E & -> & _ & _).
        constructor; cbn [mq mdone mperm].
        -- rewrite E in Sq. eapply sorted_remove; exact Sq.
        -- exact Sd.
        -- rewrite E in Bq. eapply bounded_mono; [eapply bounded_remove; exact Bq|lia].
        -- eapply bounded_mono; [exact Bd|lia].
        -- exact Ds.
        -- unfold mode_ok in *. cbn [mperm mq mdone]. destruct (mperm m); [|exact Mo].
           intros e H. apply Mo. rewrite E. apply in_remove_elt. exact H.
        -- unfold no_missed in *. cbn [mq mdone]. intros s0 r0 H1 H2. apply Nm; rewrite E, <- app_assoc; cbn [app];
             rewrite <- app_assoc in H1, H2; apply in_remove_elt; assumption.
      * pose proof (find_remove_none_send _ _ F) as NS.
        destruct (bounded_snoc n (mq m) (false, r) Bq Sq W) as [B1 S1].
        constructor; cbn [mq mdone mperm].
        -- exact S1.
        -- exact Sd.
        -- exact B1.
        -- eapply bounded_mono; [exact Bd|lia].
        -- exact Ds.
        -- unfold mode_ok in *. cbn [mperm mq mdone]. destruct (mperm m); [|exact Mo].
           intros e H. apply in_app_or in H. destruct H as [H|[H|[]]]; [apply Mo; exact H|subst; reflexivity].
        -- unfold no_missed in *. cbn [mq mdone]. intros s0 r0 H1 H2.
           assert (H1' : In (true, s0) (mq m ++ mdone m)).
           { rewrite <- app_assoc in H1. apply in_app_or in H1. destruct H1 as [H1|H1]; [apply in_or_app; left; exact H1|].
             cbn in H1. destruct H1 as [H1|H1]; [discriminate|]. apply in_or_app; right; exact H1. }
           rewrite <- app_assoc in H2. apply in_app_or in H2. destruct H2 as [H2|H2].
           ++ apply Nm; [exact H1'|apply in_or_app; left; exact H2].
           ++ cbn in H2. destruct H2 as [H2|H2].
              ** inv H2. apply NS. apply SW. exact H1'.
              ** apply Nm; [exact H1'|apply in_or_app; right; exact H2].
  - (* set_receiver, no send pending *)
    cbn [fst]. assert (NoS : forall s, ~ In (true, s) (mq m ++ mdone m)).
    { intros s H. apply in_pending in H. fold (pending_sends m) in H. destruct (pending_sends m); [destruct H|discriminate]. }
    constructor; cbn [mq mdone mperm]; try assumption.
    + unfold mode_ok. cbn [mperm mq mdone]. destruct p.
      * intros [k c] H. destruct k; [|reflexivity]. exfalso. eapply NoS. apply in_or_app. left. exact H.
      * destruct (mdone m) as [|[k c] dd] eqn:D; [reflexivity|]. exfalso.
        assert (k = true) by (apply (Ds (k, c)); left; reflexivity). subst k.
        eapply NoS. apply in_or_app. right. left. reflexivity.
  - (* iprobe *)
    cbn [fst]. constructor; try assumption; eapply bounded_mono; try eassumption; lia.
Qed.

(** * histories *)
Fixpoint nxt (n : Z) (ops : list op) : Z := match ops with [] => n | o :: t => nxt (nxt1 n o) t end.

Lemma wf_cons : forall n o t, wf n (o :: t) <-> wf1 n o /\ wf (nxt1 n o) t.
Proof. destruct o; cbn; tauto. Qed.
Lemma wf_app : forall a n b, wf n (a ++ b) <-> wf n a /\ wf (nxt n a) b.
Proof.
  induction a as [|o a IH]; intros n b; cbn [app nxt]; [cbn; tauto|]. rewrite !wf_cons, IH. tauto.
Qed.
Lemma nxt1_ge : forall n o, wf1 n o -> n <= nxt1 n o.
Proof. destruct o; cbn; lia. Qed.
Lemma wf_in_sends : forall ops n s, wf n ops -> In s (sends_of ops) -> n <= cid s.
Proof.
  induction ops as [|o t IH]; intros n s W I; [destruct I|]. apply wf_cons in W. destruct W as [W1 Wt].
  rewrite sends_of_cons in I. apply in_app_or in I. destruct I as [I|I].
  - destruct o; cbn in I; try contradiction. destruct I as [<-|[]]. exact W1.
  - specialize (IH _ _ Wt I). pose proof (nxt1_ge _ _ W1). lia.
Qed.

Lemma run_fst_app : forall a m b, fst (run m (a ++ b)) = fst (run (fst (run m a)) b).
Proof. induction a as [|o a IH]; intros m b; [reflexivity|]. cbn [app]. rewrite !run_cons. cbn [fst]. apply IH. Qed.
Lemma side_app : forall a m b,
  no_pending_send_at_set_receiver m (a ++ b) =
  no_pending_send_at_set_receiver m a && no_pending_send_at_set_receiver (fst (run m a)) b.
Proof.
  induction a as [|o a IH]; intros m b; [reflexivity|]. cbn [app no_pending_send_at_set_receiver].
  rewrite IH, run_cons. cbn [fst]. rewrite andb_assoc. reflexivity.
Qed.

Lemma run_inv : forall ops m n, Inv m n -> wf n ops -> no_pending_send_at_set_receiver m ops = true ->
  Inv (fst (run m ops)) (nxt n ops).
Proof.
  induction ops as [|o t IH]; intros m n I W S; [exact I|]. apply wf_cons in W. destruct W as [W1 Wt].
  cbn [no_pending_send_at_set_receiver] in S. apply andb_prop in S. destruct S as [G St].
  rewrite run_cons. cbn [fst nxt]. apply IH; [apply step_inv; assumption|exact Wt|exact St].
Qed.

Theorem oldest_accepted_partial : forall pre r post,
  wf 0 (pre ++ ORecv r :: post) ->
  no_pending_send_at_set_receiver mbox_init (pre ++ ORecv r :: post) = true ->
  let m := fst (run mbox_init pre) in recv_outcome m r (snd (step m (ORecv r))).
Proof.
  intros pre r post W S m. apply wf_app in W. destruct W as [W _]. rewrite side_app in S.
  apply andb_prop in S. destruct S as [S _]. eapply irecv_oldest. eapply run_inv; [apply inv_init|exact W|exact S].
Qed.

Theorem no_missed_match_partial : forall ops,
  wf 0 ops -> no_pending_send_at_set_receiver mbox_init ops = true ->
  let m := fst (run mbox_init ops) in
  forall s r, In s (pending_sends m) -> In r (pending_recvs m) -> compat s r = false.
Proof.
  intros ops W S m s r Hs Hr. pose proof (run_inv ops _ _ inv_init W S) as I. fold m in I.
  apply (inv_nm _ _ I); [apply in_pending in Hs|apply in_pending in Hr]; assumption.
Qed.

(** * pairwise FIFO *)
Lemma equiv_compat : forall s1 s2 r, sender_equiv s1 s2 -> compat s1 r = compat s2 r.
Proof.
  intros s1 s2 r (A & B & C & D). unfold compat. rewrite D. f_equal. unfold accepts. destruct (cfilter r); congruence.
Qed.

Lemma step_one_match : forall m o,
  matches_of (snd (step m o)) = [] \/ exists s r, matches_of (snd (step m o)) = [(s, r)].
Proof.
  intros m o. destruct o as [s|r|p|c]; cbn [step].
  - unfold isend. destruct (find_remove false s (mq m)) as [[r q']|]; [right; eexists; eexists; reflexivity|].
    destruct (is_some (mperm m)); left; reflexivity.
  - unfold irecv. destruct (is_some (mperm m) && negb (is_nil (mdone m)));
      [destruct (find_remove true r (mdone m)) as [[s d']|]|destruct (find_remove true r (mq m)) as [[s d']|]];
      try (right; eexists; eexists; reflexivity); left; reflexivity.
  - left; reflexivity.
  - left; reflexivity.
Qed.

Lemma inv_pending_bound : forall m n s, Inv m n -> In s (pending_sends m) -> cid s < n.
Proof.
  intros m n s I H. apply in_pending in H. apply in_app_or in H. destruct H as [H|H].
  - pose proof (inv_bq _ _ I) as B. unfold bounded in B. rewrite Forall_forall in B. apply (B _ H).
  - pose proof (inv_bd _ _ I) as B. unfold bounded in B. rewrite Forall_forall in B. apply (B _ H).
Qed.

Lemma step_match_no_older_equiv : forall m n o s1 s2 r2, Inv m n ->
  In (s2, r2) (matches_of (snd (step m o))) -> In s1 (pending_sends m) -> sender_equiv s1 s2 -> cid s1 < cid s2 -> False.
Proof.
  intros m n o s1 s2 r2 I H P Q L. destruct o as [s|r|p|c]; cbn [step] in H.
  - unfold isend in H. destruct (find_remove false s (mq m)) as [[r q']|] eqn:F.
    + cbn in H. destruct H as [H|[]]. inversion H; subst. apply find_remove_some in F.
      destruct F as (l1 & l2 & E & _ & M & _). rewrite matches_recv in M.
      rewrite <- (equiv_compat _ _ _ Q) in M. apply in_pending in P.
      rewrite (inv_nm _ _ I s1 r2 P) in M; [discriminate|]. apply in_or_app. left. rewrite E. apply in_elt.
    + destruct (is_some (mperm m)); destruct H.
  - pose proof (irecv_oldest m n r I) as O. destruct O as [(s & E & _ & _ & O)|[E _]].
    + rewrite E in H. cbn in H. destruct H as [H|[]]. inversion H; subst.
      assert (compat s1 r2 = true) as C.
      { rewrite (equiv_compat _ _ _ Q). eapply step_pairs_compat with (o := ORecv r2); [apply surjective_pairing|].
        cbn [step]. rewrite E. left. reflexivity. }
      specialize (O _ P C). lia.
    + rewrite E in H. destruct H.
  - destruct H.
  - destruct H.
Qed.

Lemma fifo_gen : forall ops m n, Inv m n -> wf n ops -> no_pending_send_at_set_receiver m ops = true ->
  forall s1 s2, (In s1 (pending_sends m) \/ In s1 (sends_of ops)) -> sender_equiv s1 s2 -> cid s1 < cid s2 ->
  forall l1 r2 l2, matches_of (snd (run m ops)) = l1 ++ (s2, r2) :: l2 -> exists r1, In (s1, r1) l1.
Proof.
  induction ops as [|o t IH]; intros m n I W S s1 s2 H1 Q L l1 r2 l2 E.
  - cbn in E. destruct l1; discriminate.
  - rewrite run_cons in E. cbn [snd] in E. rewrite matches_of_app in E.
    apply wf_cons in W. destruct W as [W1 Wt]. cbn [no_pending_send_at_set_receiver] in S.
    apply andb_prop in S. destruct S as [G St].
    pose proof (step_inv _ _ _ I W1 G) as I1.
    pose proof (step_conserves_sends m o _ _ (surjective_pairing _)) as PS.
    rewrite sends_of_cons in H1.
    assert (H1' : In s1 (pending_sends m) \/ In s1 (sends1 o) \/ In s1 (sends_of t)).
    { destruct H1 as [H1|H1]; [left; exact H1|]. apply in_app_or in H1. tauto. }
    clear H1.
    assert (A : (exists r1, In (s1, r1) (matches_of (snd (step m o)))) \/
                In s1 (pending_sends (fst (step m o))) \/ In s1 (sends_of t)).
    { destruct H1' as [X|[X|X]]; [| |right; right; exact X].
      - assert (Y : In s1 (pending_sends m ++ sends1 o)) by (apply in_or_app; left; exact X).
        eapply Permutation_in in Y; [|exact PS]. apply in_app_or in Y. destruct Y as [Y|Y]; [|right; left; exact Y].
        left. apply in_map_iff in Y. destruct Y as ([a b] & Ea & Ia). cbn in Ea. subst a. exists b. exact Ia.
      - assert (Y : In s1 (pending_sends m ++ sends1 o)) by (apply in_or_app; right; exact X).
        eapply Permutation_in in Y; [|exact PS]. apply in_app_or in Y. destruct Y as [Y|Y]; [|right; left; exact Y].
        left. apply in_map_iff in Y. destruct Y as ([a b] & Ea & Ia). cbn in Ea. subst a. exists b. exact Ia. }
    destruct (step_one_match m o) as [M|(s & r & M)].
    + rewrite M in *. cbn [app] in E. destruct A as [[r1 []]|A]. eapply IH; eauto.
    + rewrite M in *. cbn [app] in E. destruct l1 as [|p1 l1'].
      * (* the pair (s2, r2) is formed at this very step *)
        exfalso. cbn [app] in E. inversion E; subst.
        assert (O : In s2 (pending_sends m ++ sends1 o)).
        { eapply Permutation_in; [apply Permutation_sym; exact PS|]. apply in_or_app. left. cbn. left. reflexivity. }
        destruct H1' as [X|[X|X]].
        -- eapply (step_match_no_older_equiv m n o s1 s2 r2 I); try eassumption. rewrite M. left. reflexivity.
        -- destruct o; cbn in X; try contradiction. destruct X as [X|[]]. subst c. cbn [sends1] in O.
           apply in_app_or in O. destruct O as [O|[O|[]]].
           ++ pose proof (inv_pending_bound _ _ _ I O). cbn in W1. lia.
           ++ subst. lia.
        -- pose proof (wf_in_sends _ _ _ Wt X) as B. pose proof (nxt1_ge _ _ W1) as B1.
           apply in_app_or in O. destruct O as [O|O].
           ++ pose proof (inv_pending_bound _ _ _ I O). lia.
           ++ destruct o; cbn in O; try contradiction. destruct O as [O|[]]. subst c. cbn in B. lia.
      * cbn [app] in E. inversion E; subst.
        destruct A as [[r1 [A|[]]]|A].
        -- inversion A; subst. exists r1. left. reflexivity.
        -- destruct (IH _ _ I1 Wt St s1 s2 A Q L l1' r2 l2 H1) as [r1 R]. exists r1. right. exact R.
Qed.

Theorem pairwise_fifo_partial : forall ops,
  wf 0 ops -> no_pending_send_at_set_receiver mbox_init ops = true ->
  forall s1 s2, In s1 (sends_of ops) -> sender_equiv s1 s2 -> cid s1 < cid s2 ->
  forall l1 r2 l2, matches_of (snd (run mbox_init ops)) = l1 ++ (s2, r2) :: l2 -> exists r1, In (s1, r1) l1.
Proof.
  intros ops W S s1 s2 H Q L l1 r2 l2 E. eapply (fifo_gen ops mbox_init 0 inv_init W S s1 s2); eauto.
Qed.

(* ordinary mailboxes (set_receiver never called) satisfy the side condition *)
Fixpoint no_set_receiver (ops : list op) : bool :=
  match ops with [] => true | OSetRecv _ :: _ => false | _ :: t => no_set_receiver t end.
Lemma no_set_receiver_side : forall ops m, no_set_receiver ops = true -> no_pending_send_at_set_receiver m ops = true.
Proof.
  induction ops as [|o t IH]; intros m H; [reflexivity|]. cbn [no_pending_send_at_set_receiver].
  destruct o; cbn in H; try discriminate; cbn [guard andb]; apply IH; exact H.
Qed.
(* ... and so do mailboxes whose receiver is declared before any traffic *)
Lemma set_receiver_first_side : forall p ops, no_set_receiver ops = true ->
  no_pending_send_at_set_receiver mbox_init (OSetRecv p :: ops) = true.
Proof. intros. cbn. apply no_set_receiver_side. assumption. Qed.

(** * iprobe *)
Theorem iprobe_pure : forall m c, fst (step m (OProbe c)) = m.
Proof. reflexivity. Qed.
Lemma find_only_find_remove : forall ty me q,
  find_only ty me q = match find_remove ty me q with Some (c, _) => Some c | None => None end.
Proof.
  induction q as [|e q IH]; [reflexivity|]. cbn. destruct (matches_ent ty me e); [reflexivity|]. rewrite IH.
  destruct (find_remove ty me q) as [[c r]|]; reflexivity.
Qed.

(** * the pinned code violates the full statements: set_receiver while a send is queued *)
Definition cx_s1 := mkComm 1 0 (-1) 0 FAll 1 1000.
Definition cx_s2 := mkComm 2 0 (-1) 0 FAll 2 1000.
Definition cx_r3 := mkComm 3 1 (-1) 0 FAll 0 0.
Definition cx_r4 := mkComm 4 1 (-1) 0 FAll 0 0.
Definition cx_ops := [OSend cx_s1; OSetRecv (Some 1); OSend cx_s2; ORecv cx_r3; ORecv cx_r4].

Lemma fifo_refuted :
  wf 0 cx_ops /\ In cx_s1 (sends_of cx_ops) /\ sender_equiv cx_s1 cx_s2 /\ cid cx_s1 < cid cx_s2 /\
  matches_of (snd (run mbox_init cx_ops)) = [] ++ (cx_s2, cx_r3) :: [(cx_s1, cx_r4)].
Proof. repeat split; vm_compute; intuition congruence. Qed.

(* a receive that accepts only tag 7 is left waiting although a send with tag 7 is queued *)
Definition cy_s1 := mkComm 1 0 0 7 FAll 1 1000.
Definition cy_s2 := mkComm 2 0 0 8 FAll 2 1000.
Definition cy_r3 := mkComm 3 1 1 0 (FTag 7) 0 0.
Definition cy_ops := [OSend cy_s1; OSetRecv (Some 1); OSend cy_s2; ORecv cy_r3].
Lemma missed_match_refuted :
  wf 0 cy_ops /\ let m := fst (run mbox_init cy_ops) in
  In cy_s1 (pending_sends m) /\ In cy_r3 (pending_recvs m) /\ compat cy_s1 cy_r3 = true.
Proof. split; [vm_compute; intuition congruence|]. cbv zeta. repeat split; vm_compute; auto. Qed.

(** * soundness of the oracle that judges implementation logs *)
Lemma nodup_z_sound : forall l, nodup_z l = true -> NoDup l.
Proof.
  induction l as [|x l IH]; intros H; [constructor|]. cbn in H. apply andb_prop in H. destruct H as [H1 H2].
  constructor; [|apply IH; exact H2]. intro I. apply negb_true_iff in H1.
  assert (existsb (Z.eqb x) l = true); [|congruence]. apply existsb_exists. exists x. split; [exact I|apply Z.eqb_refl].
Qed.
Lemma nodup_map_inj : forall {A} (f : A -> Z) l a b, NoDup (map f l) -> In a l -> In b l -> f a = f b -> a = b.
Proof.
  induction l as [|x l IH]; intros a b N Ia Ib E; [destruct Ia|]. cbn in N. inversion N as [|? ? N1 N2]; subst.
  destruct Ia as [<-|Ia], Ib as [<-|Ib]; auto.
  - exfalso. apply N1. rewrite E. apply in_map. exact Ib.
  - exfalso. apply N1. rewrite <- E. apply in_map. exact Ia.
Qed.

Lemma pairs_of_some : forall ops dels ps, pairs_of ops dels = Some ps ->
  forall d, In d dels -> exists s r, find_send ops (dpayload d) = Some s /\ find_recv ops (drecv d) = Some r /\ In (s, r) ps.
Proof.
  induction dels as [|d0 t IH]; intros ps H d I; [destruct I|]. cbn [pairs_of] in H.
  destruct (find_send ops (dpayload d0)) as [s|] eqn:Fs; [|discriminate].
  destruct (find_recv ops (drecv d0)) as [r|] eqn:Fr; [|discriminate].
  destruct (pairs_of ops t) as [ps'|] eqn:P; [|discriminate]. inv H. destruct I as [<-|I].
  - exists s, r. repeat split; auto. left. reflexivity.
  - destruct (IH _ eq_refl _ I) as (s' & r' & A & B & C). exists s', r'. repeat split; auto. right. exact C.
Qed.

Definition Spec_once (ops : list op) (dels : list delivery) : Prop :=
  NoDup (map drecv dels) /\ NoDup (map dpayload dels) /\
  forall d, In d dels -> exists s r,
    In s (sends_of ops) /\ In r (recvs_of ops) /\ cpayload s = dpayload d /\ csize s = dsize d /\
    cid r = drecv d /\ compat s r = true /\
    (forall s', In s' (sends_of ops) -> cpayload s' = dpayload d -> s' = s).

Theorem oracle_once_sound : forall ops dels, log_once ops dels = true -> Spec_once ops dels.
Proof.
  intros ops dels H. unfold log_once in H.
  destruct (pairs_of ops dels) as [ps|] eqn:P; [|rewrite andb_false_r in H; discriminate].
  repeat (apply andb_prop in H; destruct H as [H ?]).
  apply andb_prop in H0. destruct H0 as [Fsz Fc]. rename H into N1, H3 into N2, H2 into N3, H1 into N4.
  split; [apply nodup_z_sound; exact N3|]. split; [apply nodup_z_sound; exact N4|].
  intros d I. destruct (pairs_of_some _ _ _ P d I) as (s & r & Fs & Fr & Ip).
  exists s, r. unfold find_send in Fs. unfold find_recv in Fr.
  apply find_some in Fs. apply find_some in Fr. destruct Fs as [Is Es], Fr as [Ir Er].
  rewrite forallb_forall in Fsz, Fc. specialize (Fsz _ I). specialize (Fc _ Ip). cbn in Fc.
  unfold find_send in Fsz.
  destruct (find (fun c => cpayload c =? dpayload d) (sends_of ops)) as [s0|] eqn:F0; [|discriminate].
  apply find_some in F0. destruct F0 as [I0 E0].
  assert (NP : NoDup (map cpayload (sends_of ops))) by (apply nodup_z_sound; exact N1).
  assert (s0 = s) by (eapply nodup_map_inj; [exact NP|exact I0|exact Is|lia]). subst s0.
  repeat split; auto; try lia.
  intros s' Is' Es'. eapply nodup_map_inj; [exact NP|exact Is'|exact Is|lia].
Qed.

Definition Spec_oldest (ops : list op) (dels : list delivery) : Prop :=
  exists ps, pairs_of ops dels = Some ps /\
  forall p, In p ps -> forall s', In s' (sends_of ops) -> cid s' < cid (fst p) -> compat s' (snd p) = true ->
  exists p', In p' ps /\ cid (fst p') = cid s' /\ mtime p' < mtime p.

Theorem oracle_oldest_sound : forall ops dels, log_oldest ops dels = true -> Spec_oldest ops dels.
Proof.
  intros ops dels H. unfold log_oldest in H. destruct (pairs_of ops dels) as [ps|] eqn:P; [|discriminate].
  exists ps. split; [exact P|]. intros p Ip s' Is' L C. rewrite forallb_forall in H. specialize (H _ Ip).
  rewrite forallb_forall in H. specialize (H _ Is'). apply orb_prop in H. destruct H as [H|H].
  - apply negb_true_iff in H. apply andb_false_iff in H. destruct H as [H|H]; [lia|congruence].
  - apply existsb_exists in H. destruct H as (p' & Ip' & H). exists p'. split; [exact Ip'|]. lia.
Qed.

Definition Spec_no_missed (ops : list op) (dels : list delivery) : Prop :=
  exists ps, pairs_of ops dels = Some ps /\
  forall s r, In s (sends_of ops) -> In r (recvs_of ops) -> compat s r = true ->
    (exists p, In p ps /\ cid (fst p) = cid s) \/ (exists p, In p ps /\ cid (snd p) = cid r).

Theorem oracle_no_missed_sound : forall ops dels, log_no_missed ops dels = true -> Spec_no_missed ops dels.
Proof.
  intros ops dels H. unfold log_no_missed in H. destruct (pairs_of ops dels) as [ps|] eqn:P; [|discriminate].
  exists ps. split; [exact P|]. intros s r Is Ir C. rewrite forallb_forall in H. specialize (H _ Is).
  apply orb_prop in H. destruct H as [H|H].
  - left. apply existsb_exists in H. destruct H as (p & Ip & E). exists p. split; [exact Ip|lia].
  - rewrite forallb_forall in H. specialize (H _ Ir). apply orb_prop in H. destruct H as [H|H].
    + right. apply existsb_exists in H. destruct H as (p & Ip & E). exists p. split; [exact Ip|lia].
    + rewrite C in H. discriminate.
Qed.
