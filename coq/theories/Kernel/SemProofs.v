(** C05 — proofs about SGV.Kernel.Sem: every history of acquire / acquire_timeout / release calls and timer events. *)
From SGV Require Import Base.Tactics Kernel.Sem.
Local Open Scope Z_scope.

Definition Inv (c : Z) (s : sem) : Prop :=
  value s = c + releases s - grants s /\ 0 <= value s /\ (queue s <> [] -> value s = 0) /\
  NoDup (map fst (queue s)).

Lemma inv_init : forall c, 0 <= c -> Inv c (init c).
Proof. intros c Hc. unfold Inv, init. cbn. repeat split; try lia; [intros H; now contradiction H | constructor]. Qed.

Lemma in_queue_false : forall p q, in_queue p q = false -> ~ In p (map fst q).
Proof.
  induction q as [|e r IH]; cbn; [tauto|]. intros H. apply orb_false_iff in H. destruct H as [H1 H2].
  intros [Hx|Hx]; [apply Z.eqb_neq in H1; contradiction | now apply IH].
Qed.

Lemma nodup_snoc : forall (l : list Z) p, NoDup l -> ~ In p l -> NoDup (l ++ [p]).
Proof.
  induction l as [|x r IH]; cbn; intros p Hn Hp; [constructor; [tauto | constructor]|].
  inv Hn. constructor; [|apply IH; tauto]. rewrite in_app_iff. cbn. intros [H|[H|[]]]; [contradiction | subst; tauto].
Qed.

Lemma remove_first_map : forall p q, map fst (remove_first p q) = remove_pid p (map fst q).
Proof.
  induction q as [|e r IH]; cbn; [reflexivity|]. destruct (fst e =? p); [reflexivity|]. cbn. now rewrite IH.
Qed.

Lemma remove_pid_incl : forall p l x, In x (remove_pid p l) -> In x l.
Proof.
  induction l as [|y r IH]; cbn; [tauto|]. intros x. destruct (y =? p); [auto|]. cbn. intros [H|H]; auto.
Qed.

Lemma remove_pid_nodup : forall p l, NoDup l -> NoDup (remove_pid p l).
Proof.
  induction l as [|y r IH]; cbn; intros H; [constructor|]. inv H. destruct (y =? p); [assumption|].
  constructor; [|auto]. intros Hin. apply remove_pid_incl in Hin. contradiction.
Qed.

Lemma inv_step : forall fx c s o, Inv c s -> Inv c (fst (step fx s o)).
Proof.
  intros fx c s o (Hv & H0 & Hq & Hn). unfold step.
  destruct o as [p|p t|p|p].
  - destruct (in_queue p (queue s)) eqn:Hin; [cbn; unfold Inv; auto|]. unfold acquire_code.
    destruct (0 <? value s) eqn:Hpos; cbn [fst]; unfold Inv; cbn.
    + assert (queue s = []) by (destruct (queue s); [reflexivity | assert (value s = 0) by (apply Hq; congruence); lia]).
      repeat split; try lia; try assumption; intros H'; congruence.
    + repeat split; try lia. rewrite map_app. cbn. apply nodup_snoc; [assumption | now apply in_queue_false].
  - destruct (in_queue p (queue s)) eqn:Hin; [cbn; unfold Inv; auto|]. unfold acquire_code.
    destruct (0 <? value s) eqn:Hpos; cbn [fst]; unfold Inv; cbn.
    + assert (queue s = []) by (destruct (queue s); [reflexivity | assert (value s = 0) by (apply Hq; congruence); lia]).
      repeat split; try lia; try assumption; intros H'; congruence.
    + repeat split; try lia. rewrite map_app. cbn. apply nodup_snoc; [assumption | now apply in_queue_false].
  - destruct (in_queue p (queue s)) eqn:Hin; [cbn; unfold Inv; auto|]. unfold release_code.
    destruct (queue s) as [|e r] eqn:Hqs; cbn [fst]; unfold Inv; cbn.
    + repeat split; try lia; try constructor; congruence.
    + assert (value s = 0) by (apply Hq; congruence). cbn in Hn. inv Hn. repeat split; try lia; assumption.
  - unfold fire_code. destruct (has_timer p (queue s)); cbn [fst]; unfold Inv; cbn; [|auto].
    repeat split; try lia.
    + intros Hne. apply Hq. intros He. rewrite He in Hne. cbn in Hne. congruence.
    + rewrite remove_first_map. now apply remove_pid_nodup.
Qed.

Lemma exec_from_inv : forall fx c ops s, Inv c s -> Inv c (exec_from fx s ops).
Proof. intros fx c. induction ops as [|o r IH]; intros s HI; cbn; [assumption|]. apply IH. now apply inv_step. Qed.

Lemma exec_inv : forall fx c ops, 0 <= c -> Inv c (exec fx c ops).
Proof. intros. apply exec_from_inv, inv_init. assumption. Qed.

(** the ghost counters are trace quantities *)
Lemma step_counts : forall fx s o,
  grants (fst (step fx s o)) = grants s + granted (o, snd (step fx s o)) /\
  releases (fst (step fx s o)) = releases s + released (o, snd (step fx s o)).
Proof.
  intros fx s o. unfold step. destruct o as [p|p t|p|p].
  - destruct (in_queue p (queue s)); [cbn; lia|]. unfold acquire_code. destruct (0 <? value s); cbn; lia.
  - destruct (in_queue p (queue s)); [cbn; lia|]. unfold acquire_code. destruct (0 <? value s); cbn; lia.
  - destruct (in_queue p (queue s)); [cbn; lia|]. unfold release_code. destruct (queue s); cbn; lia.
  - unfold fire_code. destruct (has_timer p (queue s)); cbn; lia.
Qed.

Lemma counts_gen : forall fx ops s,
  grants (exec_from fx s ops) = grants s + total granted (run fx s ops) /\
  releases (exec_from fx s ops) = releases s + total released (run fx s ops).
Proof.
  intros fx. induction ops as [|o r IH]; intros s; cbn [exec_from fold_left run total]; [lia|].
  pose proof (step_counts fx s o) as [Hg Hr]. destruct (step fx s o) as [s' x] eqn:Hst. cbn [fst snd] in *.
  change (fold_left (fun s0 o0 => fst (step fx s0 o0)) r s') with (exec_from fx s' r).
  destruct (IH s') as [IHg IHr]. cbn [total]. lia.
Qed.

(** token conservation *)
Theorem conservation : forall fx c ops, 0 <= c ->
  let s := exec fx c ops in let tr := run fx (init c) ops in
  value s = c + total released tr - total granted tr /\ 0 <= value s /\
  total granted tr <= c + total released tr /\
  (queue s = [] \/ (value s = 0 /\ total granted tr = c + total released tr)).
Proof.
  intros fx c ops Hc s tr. destruct (exec_inv fx c ops Hc) as (Hv & H0 & Hq & _). fold s in Hv, H0, Hq.
  destruct (counts_gen fx ops (init c)) as [Hg Hr]. cbn [init grants releases] in Hg, Hr.
  fold (exec fx c ops) in Hg, Hr. fold s in Hg, Hr. fold tr in Hg, Hr.
  repeat split; try lia.
  destruct (queue s) eqn:Hqs; [left; reflexivity | right]. assert (value s = 0) by (apply Hq; congruence). lia.
Qed.

(** FIFO: the queue is, in request order, the blocked requests that were neither served nor timed out; a release serves
    its head *)
Lemma step_waiting : forall fx s o,
  map fst (queue (fst (step fx s o))) = waiting_step (map fst (queue s)) (o, snd (step fx s o)).
Proof.
  intros fx s o. unfold step. destruct o as [p|p t|p|p].
  - destruct (in_queue p (queue s)); [reflexivity|]. unfold acquire_code. destruct (0 <? value s); cbn; [reflexivity | now rewrite map_app].
  - destruct (in_queue p (queue s)); [reflexivity|]. unfold acquire_code. destruct (0 <? value s); cbn; [reflexivity | now rewrite map_app].
  - destruct (in_queue p (queue s)); [reflexivity|]. unfold release_code. destruct (queue s) as [|e r]; cbn; [reflexivity|].
    now rewrite Z.eqb_refl.
  - unfold fire_code. destruct (has_timer p (queue s)); cbn; [apply remove_first_map | reflexivity].
Qed.

Lemma fifo_gen : forall fx ops s,
  map fst (queue (exec_from fx s ops)) = fold_left waiting_step (run fx s ops) (map fst (queue s)).
Proof.
  intros fx. induction ops as [|o r IH]; intros s; cbn [exec_from fold_left run]; [reflexivity|].
  pose proof (step_waiting fx s o) as Hs. destruct (step fx s o) as [s' x] eqn:Hst. cbn [fst snd] in *.
  change (fold_left (fun s0 o0 => fst (step fx s0 o0)) r s') with (exec_from fx s' r).
  rewrite IH. cbn [fold_left]. now rewrite Hs.
Qed.

Theorem fifo : forall fx c ops, map fst (queue (exec fx c ops)) = waiting_of (run fx (init c) ops).
Proof. intros. unfold exec, waiting_of. now rewrite fifo_gen. Qed.

Theorem release_serves_head : forall fx s p s' q, step fx s (Release p) = (s', Released (Some q)) ->
  exists tm r, queue s = (q, tm) :: r /\ queue s' = r /\ value s' = value s.
Proof.
  intros fx s p s' q. unfold step. destruct (in_queue p (queue s)); [discriminate|]. unfold release_code.
  destruct (queue s) as [|[q0 tm] r]; [discriminate|]. intros H. inv H. exists tm, r. cbn. auto.
Qed.

Theorem release_without_waiter : forall fx s p s', step fx s (Release p) = (s', Released None) ->
  queue s = [] /\ value s' = value s + 1.
Proof.
  intros fx s p s'. unfold step. destruct (in_queue p (queue s)); [discriminate|]. unfold release_code.
  destruct (queue s); [|discriminate]. intros H. inv H. cbn. auto.
Qed.

(** timeouts *)
Theorem timeout_iff_timer : forall fx s p,
  (has_timer p (queue s) = true -> snd (step fx s (Fire p)) = TimedOut) /\
  (has_timer p (queue s) = false -> step fx s (Fire p) = (s, NoTimer)).
Proof. intros fx s p. unfold step, fire_code. destruct (has_timer p (queue s)); split; intros; try discriminate; reflexivity. Qed.

Theorem timeout_consumes_nothing : forall fx s p s', step fx s (Fire p) = (s', TimedOut) ->
  value s' = value s /\ grants s' = grants s /\ releases s' = releases s /\
  queue s' = remove_first p (queue s) /\ has_timer p (queue s) = true.
Proof.
  intros fx s p s'. unfold step, fire_code. destruct (has_timer p (queue s)); [|discriminate].
  intros H. inv H. cbn. auto.
Qed.

Lemma has_timer_in : forall p q, has_timer p q = true -> In p (map fst q).
Proof.
  induction q as [|e r IH]; cbn; [discriminate|]. intros H. apply orb_true_iff in H. destruct H as [H|H]; [|auto].
  apply andb_true_iff in H. destruct H as [H _]. apply Z.eqb_eq in H. auto.
Qed.

(* a waiter that was served can no longer time out: finish() dropped its timer *)
Theorem granted_never_times_out : forall fx c ops p s' q, 0 <= c ->
  step fx (exec fx c ops) (Release p) = (s', Released (Some q)) -> step fx s' (Fire q) = (s', NoTimer).
Proof.
  intros fx c ops p s' q Hc Hs. destruct (exec_inv fx c ops Hc) as (_ & _ & _ & Hn).
  destruct (release_serves_head fx _ p s' q Hs) as (tm & r & Hq & Hq' & _).
  apply timeout_iff_timer. destruct (has_timer q (queue s')) eqn:Ht; [|reflexivity].
  apply has_timer_in in Ht. rewrite Hq' in Ht. rewrite Hq in Hn. cbn in Hn. inv Hn. contradiction.
Qed.

Lemma not_in_in_queue : forall p q, ~ In p (map fst q) -> in_queue p q = false.
Proof.
  induction q as [|e r IH]; cbn; [reflexivity|]. intros H. apply orb_false_iff. split.
  - apply Z.eqb_neq. intros He. apply H. now left.
  - apply IH. intros Hin. apply H. now right.
Qed.

Lemma remove_first_not_in : forall p q, NoDup (map fst q) -> in_queue p (remove_first p q) = false.
Proof.
  induction q as [|e r IH]; cbn [map remove_first]; intros Hn; [reflexivity|]. inv Hn.
  destruct (fst e =? p) eqn:He.
  - apply Z.eqb_eq in He. subst. now apply not_in_in_queue.
  - change (in_queue p (e :: remove_first p r)) with ((fst e =? p) || in_queue p (remove_first p r)).
    rewrite He. cbn [orb]. now apply IH.
Qed.

(* a waiter that timed out is gone: a later release does not serve it *)
Theorem timed_out_is_gone : forall fx c ops p s', 0 <= c ->
  step fx (exec fx c ops) (Fire p) = (s', TimedOut) -> in_queue p (queue s') = false.
Proof.
  intros fx c ops p s' Hc Hs. destruct (exec_inv fx c ops Hc) as (_ & _ & _ & Hn).
  destruct (timeout_consumes_nothing fx _ p s' Hs) as (_ & _ & _ & Hq & Ht). rewrite Hq.
  now apply remove_first_not_in.
Qed.

(* when does wait_for arm a timeout: repaired code, every t >= 0 *)
Theorem armed_iff_nonnegative : forall s p t, in_queue p (queue s) = false -> value s <= 0 ->
  snd (step true s (AcquireTimeout p t)) = Blocked (0 <=? t) /\
  (0 <= t -> snd (step true (fst (step true s (AcquireTimeout p t))) (Fire p)) = TimedOut).
Proof.
  intros s p t Hin Hv.
  assert (Hpos : (0 <? value s) = false) by lia.
  assert (Hst : step true s (AcquireTimeout p t) =
                (mkSem (value s) (queue s ++ [(p, 0 <=? t)]) (grants s) (releases s), Blocked (0 <=? t))).
  { unfold step. rewrite Hin. unfold acquire_code. rewrite Hpos. reflexivity. }
  rewrite Hst. cbn [fst snd]. split; [reflexivity|].
  intros Ht. apply timeout_iff_timer. cbn [queue]. unfold has_timer. rewrite existsb_app. cbn.
  rewrite Z.eqb_refl. assert (H0 : (0 <=? t) = true) by lia. rewrite H0. cbn. apply orb_true_r.
Qed.

Theorem acquire_when_token : forall fx s p tm, in_queue p (queue s) = false -> 0 < value s ->
  step fx s (match tm with Some t => AcquireTimeout p t | None => Acquire p end) =
  (mkSem (value s - 1) (queue s) (grants s + 1) (releases s), Acquired).
Proof.
  intros fx s p tm Hin Hv. assert (Hpos : (0 <? value s) = true) by lia.
  destruct tm; unfold step; rewrite Hin; unfold acquire_code; rewrite Hpos; reflexivity.
Qed.

(** the pinned code: acquire_timeout(0) on an empty semaphore arms no timer and can only be ended by a release *)
Theorem pinned_timeout0_refuted :
  map snd (run false (init 0) [AcquireTimeout 1 0; Fire 1]) = [Blocked false; NoTimer] /\
  map fst (queue (exec false 0 [AcquireTimeout 1 0; Fire 1])) = [1] /\
  map snd (run true (init 0) [AcquireTimeout 1 0; Fire 1]) = [Blocked true; TimedOut].
Proof. vm_compute. repeat split; reflexivity. Qed.
