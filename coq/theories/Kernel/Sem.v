(** C05 — Semaphore (src/kernel/activity/SemaphoreImpl.cpp, src/s4u/s4u_Semaphore.cpp, non-MC path).

    Outside the model checker [acquire_timeout(t)] is ONE blocking simcall  acquire_async(issuer)->wait_for(issuer, t)
    ([acquire()] is acquire_timeout(-1)); [release] is one answered simcall.  A queued acquisition's issuer is blocked in
    its simcall, so [release] always calls finish() on the acquisition it grants.
    wait_for arms a timeout (a sleep action on the issuer's host) when the acquisition was not granted at once and
        timeout > 0    (pinned code,  [fx = false])
        timeout >= 0   (repaired code, [fx = true]).
    When the sleep action ends, the engine calls finish(): not granted -> cancel() (leave the queue) and report the
    timeout.  finish() reached from release() first (granted) drops the sleep action: the timer is gone.
    The event "the timer of p's acquisition elapses" is the operation [Fire p] issued by the engine; its date (request
    date + t, before any actor runs at that date when t > 0) is part of the correspondence check, not of this object model.

    value_ is an unsigned int; overflow (2^32 releases) is not modelled.
    Ghost state: [grants] (tokens handed out so far) and [releases]; no branch reads them. *)
From SGV Require Import Base.Tactics.
Local Open Scope Z_scope.

Definition pid := Z.

Record sem := mkSem {
  value : Z;                          (* value_ *)
  queue : list (pid * bool);          (* ongoing_acquisitions_: issuer, "a timeout is armed" *)
  grants : Z; releases : Z            (* ghost *)
}.

Inductive op :=
| Acquire (p : pid)                   (* acquire() *)
| AcquireTimeout (p : pid) (t : Z)    (* acquire_timeout(t); t in ticks, any sign *)
| Release (p : pid)
| Fire (p : pid).                     (* the engine: the sleep action armed by p's wait_for ended *)

Inductive out :=
| Rejected                            (* the issuer is blocked in an acquire on this semaphore *)
| Acquired                            (* returns at once (acquire_timeout: false) *)
| Blocked (timed : bool)
| Released (woken : option pid)       (* Some q: q's acquire returns now (acquire_timeout: false) *)
| TimedOut                            (* p leaves the queue, its acquire_timeout returns true *)
| NoTimer.                            (* there is no armed timer for p (it never existed or finish() dropped it) *)

Definition in_queue (p : pid) (q : list (pid * bool)) : bool := existsb (fun e => fst e =? p) q.
Definition has_timer (p : pid) (q : list (pid * bool)) : bool := existsb (fun e => (fst e =? p) && snd e) q.

(* cancel(): erase the first acquisition whose issuer is p *)
Fixpoint remove_first (p : pid) (q : list (pid * bool)) : list (pid * bool) :=
  match q with
  | [] => []
  | e :: r => if fst e =? p then r else e :: remove_first p r
  end.

Definition arms (fx : bool) (t : Z) : bool := if fx then 0 <=? t else 0 <? t.

(* acquire_async + wait_for(timeout) ; [tm] = None for acquire() *)
Definition acquire_code (fx : bool) (s : sem) (p : pid) (tm : option Z) : sem * out :=
  if 0 <? value s then (mkSem (value s - 1) (queue s) (grants s + 1) (releases s), Acquired)
  else
    let timed := match tm with Some t => arms fx t | None => false end in
    (mkSem (value s) (queue s ++ [(p, timed)]) (grants s) (releases s), Blocked timed).

Definition release_code (s : sem) : sem * out :=
  match queue s with
  | e :: r => (mkSem (value s) r (grants s + 1) (releases s + 1), Released (Some (fst e)))
  | [] => (mkSem (value s + 1) [] (grants s) (releases s + 1), Released None)
  end.

Definition fire_code (s : sem) (p : pid) : sem * out :=
  if has_timer p (queue s) then (mkSem (value s) (remove_first p (queue s)) (grants s) (releases s), TimedOut)
  else (s, NoTimer).

Definition step (fx : bool) (s : sem) (o : op) : sem * out :=
  match o with
  | Fire p => fire_code s p
  | Acquire p => if in_queue p (queue s) then (s, Rejected) else acquire_code fx s p None
  | AcquireTimeout p t => if in_queue p (queue s) then (s, Rejected) else acquire_code fx s p (Some t)
  | Release p => if in_queue p (queue s) then (s, Rejected) else release_code s
  end.

Definition init (c : Z) : sem := mkSem c [] 0 0.
Definition exec_from (fx : bool) (s : sem) (ops : list op) : sem := fold_left (fun s o => fst (step fx s o)) ops s.
Definition exec (fx : bool) (c : Z) (ops : list op) : sem := exec_from fx (init c) ops.

Fixpoint run (fx : bool) (s : sem) (ops : list op) : list (op * out) :=
  match ops with
  | [] => []
  | o :: r => let '(s', x) := step fx s o in (o, x) :: run fx s' r
  end.

(** trace quantities *)
Definition granted (e : op * out) : Z :=
  match e with (_, Acquired) | (_, Released (Some _)) => 1 | _ => 0 end.
Definition released (e : op * out) : Z := match e with (_, Released _) => 1 | _ => 0 end.
Fixpoint total (f : op * out -> Z) (tr : list (op * out)) : Z :=
  match tr with [] => 0 | e :: r => f e + total f r end.

Fixpoint remove_pid (p : pid) (l : list pid) : list pid :=
  match l with [] => [] | x :: r => if x =? p then r else x :: remove_pid p r end.
(* who is waiting, from the trace alone: blocked requests in request order, minus those served or timed out *)
Definition waiting_step (w : list pid) (e : op * out) : list pid :=
  match e with
  | (Acquire p, Blocked _) | (AcquireTimeout p _, Blocked _) => w ++ [p]
  | (_, Released (Some q)) => remove_pid q w
  | (Fire p, TimedOut) => remove_pid p w
  | _ => w
  end.
Definition waiting_of (tr : list (op * out)) : list pid := fold_left waiting_step tr [].

(** ------------------------------------------------------------------------------------------------------------
    Executable entry point.  Input: fx c (op pid arg)*  op: 4 acquire, 5 acquire_timeout(arg), 6 release, 8 get_capacity,
    10 peek, 12 fire.   Output per op: code k x1..xk
      0 rejected, 1 acquired, 2 blocked (x = 1 when a timeout is armed), 5 released (k=1: woken pid), 6 timed out,
      7 no timer, 8 capacity (x), 10 peek (value q1..qn) *)
Fixpoint run_io (fx : bool) (s : sem) (l : list Z) (fuel : nat) : list Z :=
  match fuel with
  | O => []
  | S f =>
    match l with
    | c :: p :: a :: r =>
      if c =? 8 then 8 :: 1 :: value s :: run_io fx s r f
      else if c =? 10 then 10 :: Z.of_nat (1 + length (queue s)) :: value s :: map fst (queue s) ++ run_io fx s r f
      else
        let o := if c =? 4 then Acquire p else if c =? 5 then AcquireTimeout p a else if c =? 6 then Release p else Fire p in
        let '(s', x) := step fx s o in
        match x with
        | Rejected => 0 :: 0 :: run_io fx s' r f
        | Acquired => 1 :: 0 :: run_io fx s' r f
        | Blocked tm => 2 :: 1 :: (if tm then 1 else 0) :: run_io fx s' r f
        | Released None => 5 :: 0 :: run_io fx s' r f
        | Released (Some q) => 5 :: 1 :: q :: run_io fx s' r f
        | TimedOut => 6 :: 0 :: run_io fx s' r f
        | NoTimer => 7 :: 0 :: run_io fx s' r f
        end
    | _ => []
    end
  end.
Definition run_c05 (inp : list Z) : list Z :=
  match inp with
  | fx :: c :: r => run_io (negb (fx =? 0)) (init c) r (length r)
  | _ => [-1]
  end.
