(** C02 — model of the scheduling rounds of EngineImpl::run with an arbitrary execution order of the user code.

    A sub-round (EngineImpl::run_all_actors + the simcall loop of EngineImpl::run):
      1. user phase: ContextFactory::run_all(actors_to_run_) lets every actor of the list execute user code up to its
         next simcall (or its end).  Serial factories run them one after the other in list order (SwappedContext::suspend
         chains through process_index_; SerialThreadContext::run_all loops); parallel ones hand them to Parmap workers
         that pick actors with Parmap::next() in any order and run them concurrently.
         Model: the user code of an actor is a deterministic function [micro] of the actor's own local state (hypothesis
         of the property: no unsynchronised shared memory), executed in micro-steps; a schedule is any list of actor
         ids, each occurrence performing one micro-step of that actor: sequential execution, any Parmap assignment and any
         interleaving of worker threads are such lists.  An actor that has reached its simcall does not move any more.
      2. kernel phase: maestro alone handles the pending simcalls in the order of the list (actors_that_ran_), each
         handler possibly answering actors, which are appended to the next list.
    The kernel handler is abstract here (any function); Kernel/Ref.v's [handle_all]/[sched_run] is the instance used
    for synchronisation programs. *)
From SGV Require Import Base.Tactics.

Section Sched.
  Context {Local Kernel : Type}.
  Variable micro : Local -> Local.            (* one micro-step of user code *)
  Variable at_simcall : Local -> bool.        (* the actor has issued its simcall / has terminated *)
  (* kernel handling of the simcall of one actor: new kernel state, new locals (results written back into the issuer,
     woken actors), actors answered in order *)
  Variable handle : nat -> Kernel * list Local -> Kernel * list Local * list nat.

  Definition mstep (l : Local) : Local := if at_simcall l then l else micro l.

  Fixpoint app_at (a : nat) (f : Local -> Local) (ls : list Local) : list Local :=
    match ls, a with
    | [], _ => []
    | x :: r, O => f x :: r
    | x :: r, S k => x :: app_at k f r
    end.

  (** user phase under schedule [pi] *)
  Definition user_phase (pi : list nat) (ls : list Local) : list Local :=
    fold_left (fun ls a => app_at a mstep ls) pi ls.

  (** every actor of the run list has reached its simcall *)
  Definition complete_b (L : list nat) (ls : list Local) : bool :=
    forallb (fun a => match nth_error ls a with Some l => at_simcall l | None => true end) L.

  (** kernel phase: simcalls handled in list order *)
  Fixpoint kernel_phase (L : list nat) (st : Kernel * list Local) (next : list nat) : Kernel * list Local * list nat :=
    match L with
    | [] => (st, next)
    | a :: r => let '(st', ws) := handle a st in kernel_phase r st' (next ++ ws)
    end.

  Definition subround (pi L : list nat) (st : Kernel * list Local) : Kernel * list Local * list nat :=
    kernel_phase L (fst st, user_phase pi (snd st)) [].

  (** a schedule is admissible for a sub-round when it only runs actors of the list and runs each of them up to its
      simcall *)
  Definition admissible_b (pi L : list nat) (ls : list Local) : bool :=
    forallb (fun a => existsb (Nat.eqb a) L) pi && complete_b L (user_phase pi ls).

  (** whole run: one schedule per sub-round, until the run list is empty or the schedules are used up *)
  Fixpoint run (Pi : list (list nat)) (L : list nat) (st : Kernel * list Local) : Kernel * list Local * list nat :=
    match Pi with
    | [] => (st, L)
    | pi :: Pi' => match L with
                   | [] => (st, L)
                   | _ => let '(st', L') := subround pi L st in run Pi' L' st'
                   end
    end.
  Fixpoint admissible_run (Pi : list (list nat)) (L : list nat) (st : Kernel * list Local) : Prop :=
    match Pi with
    | [] => True
    | pi :: Pi' => match L with
                   | [] => True
                   | _ => admissible_b pi L (snd st) = true /\
                          let '(st', L') := subround pi L st in admissible_run Pi' L' st'
                   end
    end.

  (** the sequential schedule of the serial factories: each actor in list order, [k] micro-steps each *)
  Definition serial (k : nat) (L : list nat) : list nat := flat_map (fun a => repeat a k) L.
End Sched.
