(** C01 proofs: address independence of the pointer-ordered containers under a monotone allocator, the leak without that
    assumption, address independence of the repaired end-of-simulation loop, coverage of the scanned sites. *)
From SGV Require Import Base.Tactics Kernel.AddrOrder Gen.PtrOrderSites.
From Coq Require Import String.
Local Open Scope Z_scope.

Section SortProofs.
  Context {A : Type}.

  Lemma insert_in : forall (le : A -> A -> bool) x l y, In y (insert le x l) <-> y = x \/ In y l.
  Proof.
    intros le x l. induction l as [|z r IH]; intros y; cbn.
    - split; intros [H|H]; auto.
    - destruct (le x z); cbn; [split; intros [H|H]; auto|].
      rewrite IH. split; intros H; tauto.
  Qed.

  Lemma isort_in : forall (le : A -> A -> bool) l y, In y (isort le l) <-> In y l.
  Proof.
    intros le l. induction l as [|x r IH]; intros y; cbn; [tauto|].
    rewrite insert_in, IH. split; intros [H|H]; auto.
  Qed.

  Lemma insert_ext : forall (le1 le2 : A -> A -> bool) x l,
    (forall y, In y l -> le1 x y = le2 x y) -> insert le1 x l = insert le2 x l.
  Proof.
    intros le1 le2 x l. induction l as [|z r IH]; intros H; cbn; [reflexivity|].
    rewrite (H z) by now left. destruct (le2 x z); [reflexivity|]. f_equal. apply IH. intros y Hy. apply H. now right.
  Qed.

  (** insertion sort only looks at the comparisons between elements of the list *)
  Lemma isort_ext : forall (le1 le2 : A -> A -> bool) l,
    (forall x y, In x l -> In y l -> le1 x y = le2 x y) -> isort le1 l = isort le2 l.
  Proof.
    intros le1 le2 l. induction l as [|x r IH]; intros H; cbn; [reflexivity|].
    rewrite IH by (intros a b Ha Hb; apply H; now right).
    apply insert_ext. intros y Hy. apply H; [now left|]. right. now apply (isort_in le2 r y).
  Qed.
End SortProofs.

Lemma monotone_le : forall addr, alloc_monotone addr -> forall x y, addr_le addr x y = Nat.leb x y.
Proof.
  intros addr Hm x y. unfold addr_le.
  destruct (Nat.leb x y) eqn:E.
  - apply Nat.leb_le in E. apply Z.leb_le. destruct (Nat.eq_dec x y) as [->|N]; [lia|].
    assert (x < y)%nat by lia. specialize (Hm x y H). lia.
  - apply Nat.leb_gt in E. apply Z.leb_gt. exact (Hm y x E).
Qed.

(** Under an allocator that gives increasing addresses in allocation order (what a deterministic allocator yields for the
    same request sequence, whatever the ASLR slide), a pointer-ordered set iterates in allocation order. *)
Theorem iter_set_monotone : forall addr s, alloc_monotone addr -> iter_set addr s = isort Nat.leb s.
Proof. intros addr s Hm. unfold iter_set. apply isort_ext. intros x y _ _. now apply monotone_le. Qed.

Theorem iter_set_addr_indep : forall addr1 addr2 s,
  alloc_monotone addr1 -> alloc_monotone addr2 -> iter_set addr1 s = iter_set addr2 s.
Proof. intros addr1 addr2 s H1 H2. now rewrite !iter_set_monotone. Qed.

Theorem fes_order_addr_indep : forall addr1 addr2 evs,
  alloc_monotone addr1 -> alloc_monotone addr2 -> fes_order addr1 evs = fes_order addr2 evs.
Proof.
  intros addr1 addr2 evs H1 H2. unfold fes_order. apply isort_ext. intros a b _ _. unfold fes_le.
  pose proof (monotone_le addr1 H1 (snd a) (snd b)) as E1. pose proof (monotone_le addr2 H2 (snd a) (snd b)) as E2.
  unfold addr_le in E1, E2. now rewrite E1, E2.
Qed.

(** events at pairwise distinct dates are popped in date order whatever the addresses *)
Theorem fes_order_distinct_dates : forall addr1 addr2 evs,
  NoDup (map fst evs) -> fes_order addr1 evs = fes_order addr2 evs.
Proof.
  intros addr1 addr2 evs Hnd. unfold fes_order. apply isort_ext. intros a b Ha Hb. unfold fes_le.
  destruct (Z.eqb_spec (fst a) (fst b)) as [E|E]; [|now rewrite !andb_false_l].
  assert (a = b).
  { clear addr1 addr2. induction evs as [|e r IH]; [destruct Ha|]. cbn in Hnd. inv Hnd.
    destruct Ha as [Ha|Ha]; destruct Hb as [Hb|Hb]; subst; auto.
    - exfalso. apply H1. rewrite E. now apply in_map.
    - exfalso. apply H1. rewrite <- E. now apply in_map. }
  subst. rewrite !Z.leb_refl. reflexivity.
Qed.

(** lookups never observe the order *)
Theorem mem_iter_set : forall addr x s, mem x (iter_set addr s) = mem x s.
Proof.
  intros addr x s. unfold mem, iter_set.
  destruct (existsb (Nat.eqb x) s) eqn:E.
  - apply existsb_exists in E. destruct E as (y & Hy & Ey). apply existsb_exists. exists y. split; [|exact Ey].
    now apply isort_in.
  - destruct (existsb (Nat.eqb x) (isort (addr_le addr) s)) eqn:E2; [|reflexivity].
    apply existsb_exists in E2. destruct E2 as (y & Hy & Ey). apply isort_in in Hy.
    assert (existsb (Nat.eqb x) s = true) by (apply existsb_exists; eauto). congruence.
Qed.

(** the repaired end-of-simulation loop kills the daemons in an order that does not depend on any address *)
Theorem kill_order_fixed_addr_indep : forall addr1 addr2 actor_list daemons,
  kill_order_fixed addr1 actor_list daemons = kill_order_fixed addr2 actor_list daemons.
Proof.
  intros. unfold kill_order_fixed. apply filter_ext. intros a. now rewrite !mem_iter_set.
Qed.

(** ... whereas the pinned loop (iteration of std::set<ActorImpl*>) follows the addresses: two injective layouts of three
    daemons give different on_exit orders *)
Definition layout_up (i : nat) : Z := Z.of_nat i.
Definition layout_down (i : nat) : Z := - Z.of_nat i.
Lemma layouts_injective : injective layout_up /\ injective layout_down.
Proof. split; intros i j H; unfold layout_up, layout_down in H; lia. Qed.
Theorem kill_order_pinned_refuted : exists daemons addr1 addr2, injective addr1 /\ injective addr2 /\
  kill_order_pinned addr1 daemons <> kill_order_pinned addr2 daemons.
Proof.
  exists [1; 2; 3]%nat, layout_up, layout_down. destruct layouts_injective as [H1 H2]. repeat split; auto.
  vm_compute. discriminate.
Qed.
(** the same for simultaneous events of the future event set *)
Theorem fes_order_refuted : exists evs addr1 addr2, injective addr1 /\ injective addr2 /\
  fes_order addr1 evs <> fes_order addr2 evs.
Proof.
  exists [(5, 1%nat); (5, 2%nat)], layout_up, layout_down. destruct layouts_injective as [H1 H2]. repeat split; auto.
  vm_compute. discriminate.
Qed.

(** * the scanned sources contain no pointer-ordered container, comparator or iteration that was not reviewed *)
Theorem sites_covered : forallb site_covered scanned_sites = true.
Proof. vm_compute. reflexivity. Qed.
Theorem comparators_covered : forallb comparator_covered scanned_comparators = true.
Proof. vm_compute. reflexivity. Qed.
Theorem iterations_covered : forallb iteration_covered scanned_iterations = true.
Proof. vm_compute. reflexivity. Qed.
