(** C02 proofs: the result of a sub-round, and of a whole run, does not depend on the order/interleaving in which the
    user code of the runnable actors is executed. *)
From SGV Require Import Base.Tactics Kernel.Sched.
From Coq Require Import Permutation.

Section SchedProofs.
  Context {Local Kernel : Type}.
  Variable micro : Local -> Local.
  Variable at_simcall : Local -> bool.
  Variable handle : nat -> Kernel * list Local -> Kernel * list Local * list nat.

  Notation mstep := (mstep micro at_simcall).
  Notation user_phase := (user_phase micro at_simcall).
  Notation complete_b := (complete_b at_simcall).
  Notation admissible_b := (admissible_b micro at_simcall).

  Fixpoint iter (k : nat) (l : Local) : Local := match k with O => l | S k' => iter k' (mstep l) end.

  Lemma nth_error_app_at : forall a (f : Local -> Local) ls b,
    nth_error (app_at a f ls) b = if Nat.eqb a b then option_map f (nth_error ls b) else nth_error ls b.
  Proof.
    intros a f ls. revert a. induction ls as [|x r IH]; intros a b.
    - destruct a; cbn; destruct b; cbn; try reflexivity; destruct (Nat.eqb _ _); reflexivity.
    - destruct a as [|a]; destruct b as [|b]; cbn; try reflexivity. apply IH.
  Qed.

  Lemma nth_error_user_phase : forall pi ls b,
    nth_error (user_phase pi ls) b = option_map (iter (count_occ Nat.eq_dec pi b)) (nth_error ls b).
  Proof.
    induction pi as [|a r IH]; intros ls b.
    - cbn. destruct (nth_error ls b); reflexivity.
    - unfold Sched.user_phase in *. cbn [fold_left]. rewrite IH, nth_error_app_at. cbn [count_occ].
      destruct (Nat.eq_dec a b) as [E|E].
      + subst. rewrite Nat.eqb_refl. destruct (nth_error ls b); reflexivity.
      + apply Nat.eqb_neq in E. rewrite E. reflexivity.
  Qed.

  Lemma mstep_done : forall l, at_simcall l = true -> mstep l = l.
  Proof. intros l H. unfold Sched.mstep. now rewrite H. Qed.

  Lemma iter_done : forall k l, at_simcall l = true -> iter k l = l.
  Proof. induction k as [|k IH]; intros l H; cbn; [reflexivity|]. rewrite mstep_done by exact H. now apply IH. Qed.

  Lemma iter_add : forall j k l, iter (j + k) l = iter k (iter j l).
  Proof. induction j as [|j IH]; intros k l; cbn; [reflexivity|]. apply IH. Qed.

  Lemma iter_done_eq : forall k1 k2 l,
    at_simcall (iter k1 l) = true -> at_simcall (iter k2 l) = true -> iter k1 l = iter k2 l.
  Proof.
    intros k1 k2 l H1 H2. destruct (Nat.le_ge_cases k1 k2) as [H|H].
    - replace k2 with (k1 + (k2 - k1)) by lia. rewrite iter_add. symmetry. now apply iter_done.
    - replace k1 with (k2 + (k1 - k2)) by lia. rewrite iter_add. now apply iter_done.
  Qed.

  Lemma list_ext : forall (l1 l2 : list Local), (forall b, nth_error l1 b = nth_error l2 b) -> l1 = l2.
  Proof.
    induction l1 as [|x r IH]; intros l2 H.
    - destruct l2; [reflexivity|]. specialize (H 0%nat). discriminate.
    - destruct l2 as [|y r2]; [specialize (H 0%nat); discriminate|].
      pose proof (H 0%nat) as H0. cbn in H0. inv H0. f_equal. apply IH. intros b. exact (H (S b)).
  Qed.

  Lemma complete_b_spec : forall L ls, complete_b L ls = true ->
    forall a l, In a L -> nth_error ls a = Some l -> at_simcall l = true.
  Proof.
    intros L ls H a l Ha Hl. unfold Sched.complete_b in H. rewrite forallb_forall in H.
    specialize (H a Ha). now rewrite Hl in H.
  Qed.

  Lemma only_in : forall pi L b, forallb (fun a => existsb (Nat.eqb a) L) pi = true -> ~ In b L ->
    count_occ Nat.eq_dec pi b = 0%nat.
  Proof.
    intros pi L b H Hn. apply count_occ_not_In. intros Hb. rewrite forallb_forall in H.
    specialize (H b Hb). apply existsb_exists in H. destruct H as (x & Hx & E). apply Nat.eqb_eq in E. subst. auto.
  Qed.

  (** Two admissible schedules of the same sub-round leave every actor in the same local state. *)
  Theorem user_phase_confluent : forall pi1 pi2 L ls,
    admissible_b pi1 L ls = true -> admissible_b pi2 L ls = true -> user_phase pi1 ls = user_phase pi2 ls.
  Proof.
    intros pi1 pi2 L ls H1 H2. unfold Sched.admissible_b in *.
    apply andb_true_iff in H1. apply andb_true_iff in H2. destruct H1 as [O1 C1]. destruct H2 as [O2 C2].
    apply list_ext. intros b. rewrite !nth_error_user_phase.
    destruct (nth_error ls b) as [l|] eqn:El; [|reflexivity]. cbn. f_equal.
    destruct (in_dec Nat.eq_dec b L) as [Hin|Hnin].
    - apply iter_done_eq.
      + apply (complete_b_spec _ _ C1 b); [exact Hin|]. rewrite nth_error_user_phase, El. reflexivity.
      + apply (complete_b_spec _ _ C2 b); [exact Hin|]. rewrite nth_error_user_phase, El. reflexivity.
    - rewrite (only_in _ _ _ O1 Hnin), (only_in _ _ _ O2 Hnin). reflexivity.
  Qed.

  (** Permuting a schedule changes nothing (steps of different actors commute; in particular the order in which Parmap
      workers pick the actors is irrelevant). *)
  Theorem user_phase_perm : forall pi1 pi2 ls, Permutation pi1 pi2 -> user_phase pi1 ls = user_phase pi2 ls.
  Proof.
    intros pi1 pi2 ls Hp. apply list_ext. intros b. rewrite !nth_error_user_phase.
    rewrite (Permutation_count_occ Nat.eq_dec pi1 pi2) in Hp. now rewrite Hp.
  Qed.

  Theorem subround_sched_indep : forall pi1 pi2 L st,
    admissible_b pi1 L (snd st) = true -> admissible_b pi2 L (snd st) = true ->
    subround micro at_simcall handle pi1 L st = subround micro at_simcall handle pi2 L st.
  Proof.
    intros pi1 pi2 L st H1 H2. unfold subround. now rewrite (user_phase_confluent pi1 pi2 L (snd st) H1 H2).
  Qed.

  (** Whole runs: with any admissible schedule for every sub-round, the kernel state, every local state and the next
      run list are the same. *)
  Theorem run_sched_indep : forall Pi1 Pi2 L st, length Pi1 = length Pi2 ->
    admissible_run micro at_simcall handle Pi1 L st -> admissible_run micro at_simcall handle Pi2 L st ->
    run micro at_simcall handle Pi1 L st = run micro at_simcall handle Pi2 L st.
  Proof.
    induction Pi1 as [|p1 r1 IH]; intros Pi2 L st Hlen A1 A2; destruct Pi2 as [|p2 r2]; try discriminate.
    - reflexivity.
    - cbn [run admissible_run] in *. destruct L as [|a L']; [reflexivity|].
      destruct A1 as [B1 A1]. destruct A2 as [B2 A2].
      rewrite (subround_sched_indep p1 p2 (a :: L') st B1 B2) in *.
      destruct (subround micro at_simcall handle p2 (a :: L') st) as [st' Ln].
      apply IH; auto.
  Qed.

  (** The serial schedule is admissible as soon as [k] micro-steps bring every actor of the list to its simcall: it is
      the reference every parallel execution is equal to. *)
  Lemma count_serial : forall k L b, NoDup L -> In b L -> count_occ Nat.eq_dec (serial k L) b = k.
  Proof.
    intros k L b. unfold serial. induction L as [|a r IH]; intros Hnd Hin; [destruct Hin|].
    cbn [flat_map]. rewrite count_occ_app. inv Hnd. destruct Hin as [E|Hin].
    - subst. rewrite count_occ_repeat_eq by reflexivity.
      assert (Hz : count_occ Nat.eq_dec (flat_map (fun a => repeat a k) r) b = 0%nat).
      { apply count_occ_not_In. intros Hc. apply in_flat_map in Hc. destruct Hc as (x & Hx & Hr).
        apply repeat_spec in Hr. subst. auto. }
      lia.
    - rewrite count_occ_repeat_neq by (intros E; subst; auto). rewrite IH by auto. lia.
  Qed.
End SchedProofs.

(** The kernel phase of the concrete engine model of Kernel/Ref.v (synchronisation programs) is the instance of
    [kernel_phase] whose handler is the reference step function: the schedule-independence theorems above apply to it. *)
From SGV Require Import Kernel.Ref.
Definition handle_ref (P : prog) (a : nat) (st : state * list unit) : state * list unit * list nat :=
  match actor_step P a (fst st) with Some (s', ws) => ((s', snd st), ws) | None => (st, []) end.
Lemma handle_all_is_kernel_phase : forall P l s ls next tr s' next' tr',
  handle_all P l s next tr = (s', next', tr') ->
  kernel_phase (handle_ref P) l (s, ls) next = ((s', ls), next').
Proof.
  intros P l. induction l as [|a r IH]; intros s ls next tr s' next' tr' H; cbn [handle_all kernel_phase] in *.
  - inv H. reflexivity.
  - unfold handle_ref at 1. cbn [fst snd]. destruct (actor_step P a s) as [[s1 ws]|] eqn:E.
    + eapply IH; eauto.
    + rewrite app_nil_r. eapply IH; eauto.
Qed.
