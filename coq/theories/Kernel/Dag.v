(** C13 — workflow dependencies: executable model of s4u::Activity's dependency machinery
    (include/simgrid/s4u/Activity.hpp: add_successor / remove_successor / start / complete / release_dependencies,
    src/s4u/s4u_Exec.cpp set_host, s4u_Comm.cpp set_source/set_destination, s4u_Io.cpp set_disk) driven by a maestro
    script, with the clock of EngineImpl::run for activities that never share a resource (each one lasts [a_dur]).
    Dates are integers: ticks of 2^-k seconds (every date of such a run is a sum of durations, the theorems only use
    order and max, which do not depend on the unit).  No proofs here. *)
From SGV Require Import Base.Tactics.
Local Open Scope Z_scope.

Inductive astate := INITED | STARTING | STARTED | FAILED | CANCELED | FINISHED.
Inductive kind := KExec | KComm | KIo.

Definition astate_eqb (x y : astate) : bool :=
  match x, y with
  | INITED, INITED | STARTING, STARTING | STARTED, STARTED | FAILED, FAILED | CANCELED, CANCELED
  | FINISHED, FINISHED => true
  | _, _ => false
  end.

(** one s4u::Activity.  [a_deps] = dependencies_ (a std::set), [a_succs] = successors_ (a vector, push_back = append),
    [a_assigned] = is_assigned().  The last five fields are ghosts used by the statements: dates of do_start, of
    complete(FINISHED), of the latest assignment, of the latest explicit start request, and the set of declared (and not
    removed) predecessors, which — unlike dependencies_ — is not emptied when predecessors complete. *)
Record act := mkAct {
  a_kind : kind; a_state : astate; a_deps : list nat; a_succs : list nat; a_assigned : bool; a_dur : Z;
  a_tstart : option Z; a_tfinish : option Z; a_tassign : option Z; a_treq : option Z; a_gpreds : list nat }.

Definition set_state (x : act) (v : astate) :=
  mkAct (a_kind x) v (a_deps x) (a_succs x) (a_assigned x) (a_dur x) (a_tstart x) (a_tfinish x) (a_tassign x) (a_treq x) (a_gpreds x).
Definition set_deps (x : act) (v : list nat) :=
  mkAct (a_kind x) (a_state x) v (a_succs x) (a_assigned x) (a_dur x) (a_tstart x) (a_tfinish x) (a_tassign x) (a_treq x) (a_gpreds x).
Definition set_succs (x : act) (v : list nat) :=
  mkAct (a_kind x) (a_state x) (a_deps x) v (a_assigned x) (a_dur x) (a_tstart x) (a_tfinish x) (a_tassign x) (a_treq x) (a_gpreds x).
Definition set_gpreds (x : act) (v : list nat) :=
  mkAct (a_kind x) (a_state x) (a_deps x) (a_succs x) (a_assigned x) (a_dur x) (a_tstart x) (a_tfinish x) (a_tassign x) (a_treq x) v.
Definition set_assigned (x : act) (t : Z) :=
  mkAct (a_kind x) (a_state x) (a_deps x) (a_succs x) true (a_dur x) (a_tstart x) (a_tfinish x) (Some t) (a_treq x) (a_gpreds x).
Definition set_req (x : act) (t : Z) :=
  mkAct (a_kind x) (a_state x) (a_deps x) (a_succs x) (a_assigned x) (a_dur x) (a_tstart x) (a_tfinish x) (a_tassign x) (Some t) (a_gpreds x).
Definition set_started (x : act) (t : Z) :=
  mkAct (a_kind x) STARTED (a_deps x) (a_succs x) (a_assigned x) (a_dur x) (Some t) (a_tfinish x) (a_tassign x) (a_treq x) (a_gpreds x).
Definition set_finished (x : act) (t : Z) :=
  mkAct (a_kind x) FINISHED (a_deps x) (a_succs x) (a_assigned x) (a_dur x) (a_tstart x) (Some t) (a_tassign x) (a_treq x) (a_gpreds x).

Definition new_act (k : kind) (dur : Z) := mkAct k INITED [] [] false dur None None None None [].

Definition is_nil {A} (l : list A) : bool := match l with [] => true | _ => false end.
Definition memb (a : nat) (l : list nat) : bool := existsb (Nat.eqb a) l.
Definition set_add (a : nat) (l : list nat) : list nat := if memb a l then l else a :: l.
Definition set_del (a : nat) (l : list nat) : list nat := filter (fun x => negb (Nat.eqb a x)) l.
Fixpoint del_first (a : nat) (l : list nat) : list nat :=
  match l with [] => [] | x :: r => if Nat.eqb a x then r else x :: del_first a r end.

(** Activity::start():  state_ = STARTING; if (dependencies_solved() && is_assigned()) do_start(); else veto *)
Definition start_act (t : Z) (x : act) : act :=
  let x1 := set_state x STARTING in
  if is_nil (a_deps x1) && a_assigned x1 then set_started x1 t else x1.

(** one iteration of release_dependencies() seen from the successor b:  b->dependencies_.erase(this);
    if (b->dependencies_solved()) b->start(); *)
Definition rel_act (a : nat) (t : Z) (x : act) : act :=
  let x1 := set_deps x (set_del a (a_deps x)) in
  if is_nil (a_deps x1) then start_act t x1 else x1.

Inductive op := Create (k : kind) (dur : Z) | AddSucc (a b : nat) | RemoveSucc (a b : nat) | Assign (b : nat)
              | Start (b : nat) | RunUntil (t : Z) | Run.

(** what is observed: the script operations as they are issued and the on_start / on_completion signals, with the clock *)
Inductive ev := EvOp (o : op) (d : Z) | EvStart (b : nat) (d : Z) | EvFinish (b : nat) (d : Z).

Record st := mkSt { acts : nat -> act; nacts : nat; now : Z; trace : list ev (* newest first *) }.

Definition upd (f : nat -> act) (b : nat) (x : act) : nat -> act := fun i => if Nat.eqb i b then x else f i.
Definition init_st := mkSt (fun _ => new_act KExec 0) 0 0 [].

Definition is_started (x : act) : bool := astate_eqb (a_state x) STARTED.

(** replace activity b by x'; when x' has just been do_start()ed the on_start signal fires *)
Definition put_started (s : st) (b : nat) (x' : act) : st :=
  mkSt (upd (acts s) b x') (nacts s) (now s)
       (if is_started x' then EvStart b (now s) :: trace s else trace s).
Definition start (s : st) (b : nat) : st := put_started s b (start_act (now s) (acts s b)).
Definition with_act (s : st) (b : nat) (x : act) : st := mkSt (upd (acts s) b x) (nacts s) (now s) (trace s).
Definition relstep (a : nat) (s : st) (b : nat) : st :=
  let x1 := set_deps (acts s b) (set_del a (a_deps (acts s b))) in
  if is_nil (a_deps x1) then start (with_act s b x1) b else with_act s b x1.

(** Activity::complete(FINISHED) at the current date: state, on_completion, then release_dependencies() which walks
    successors_ from the back and finally leaves it empty *)
Definition complete (s : st) (a : nat) : st :=
  let x := acts s a in
  let s0 := mkSt (upd (acts s) a (set_finished x (now s))) (nacts s) (now s) (EvFinish a (now s) :: trace s) in
  let s1 := fold_left (relstep a) (rev (a_succs x)) s0 in
  mkSt (upd (acts s1) a (set_succs (acts s1 a) [])) (nacts s1) (now s1) (trace s1).

(** the engine: the next model action to end is the started activity with the least start + duration (ties: least id;
    ties only permute signals carrying the same date).  The clock never goes back (Z.max is the identity on every
    reachable state: a started activity ends at its start date + a non-negative duration). *)
Definition fin_date (x : act) : option Z :=
  match a_state x, a_tstart x with STARTED, Some ts => Some (ts + a_dur x) | _, _ => None end.
Fixpoint next_ev (f : nat -> act) (ids : list nat) : option (nat * Z) :=
  match ids with
  | [] => None
  | i :: r => match fin_date (f i), next_ev f r with
              | Some d, Some (j, e) => if d <=? e then Some (i, d) else Some (j, e)
              | Some d, None => Some (i, d)
              | None, x => x
              end
  end.
Definition set_now (s : st) (t : Z) : st := mkSt (acts s) (nacts s) t (trace s).
Definition due (t : Z) (x : act) : bool := match fin_date x with Some d => d <=? t | None => false end.
(** run_until(t) stops as soon as the clock reaches t: the model actions that end at t are all handled (one call of
    handle_ended_actions), but what those completions start at date t — even with a zero duration — waits for the next
    call of run()/run_until() *)
Definition batch (s : st) (t : Z) : st :=
  fold_left complete (filter (fun i => due t (acts s i)) (seq 0 (nacts s))) (set_now s (Z.max (now s) t)).
Fixpoint drain (fuel : nat) (lim : option Z) (s : st) : st :=
  match fuel with
  | O => s
  | S f => match next_ev (acts s) (seq 0 (nacts s)) with
           | Some (a, d) =>
               match lim with
               | None => drain f lim (complete (set_now s (Z.max (now s) d)) a)
               | Some t => if d <? t then drain f lim (complete (set_now s (Z.max (now s) d)) a)
                           else if d =? t then batch s t else s
               end
           | None => s
           end
  end.

Inductive res := Ok (s : st) | Thrown (* the code throws std::invalid_argument / the handle does not exist *)
               | Unmod (* misuse the model does not cover: the script is not a workflow script *).

Definition startable (x : act) : bool := match a_state x with INITED | STARTING => true | _ => false end.
Definition log_op (s : st) (o : op) : st := mkSt (acts s) (nacts s) (now s) (EvOp o (now s) :: trace s).

Definition step (s0 : st) (o : op) : res :=
  let s := log_op s0 o in
  let n := nacts s in
  match o with
  | Create k dur =>
      if (dur <? 0) || (match k with KExec => false | _ => dur =? 0 end) then Unmod
      else Ok (mkSt (upd (acts s) n (new_act k dur)) (S n) (now s) (trace s))
  | AddSucc a b =>
      if negb ((a <? n)%nat && (b <? n)%nat) then Thrown
      else if Nat.eqb a b then Thrown                                  (* "Cannot be its own successor" *)
      else if memb b (a_succs (acts s a)) then Thrown                  (* "Dependency already exists" *)
      else if negb (startable (acts s b)) then Unmod                   (* new predecessor for a started activity *)
      else let s1 := with_act s a (set_succs (acts s a) (a_succs (acts s a) ++ [b])) in
           let xb := acts s1 b in
           Ok (with_act s1 b (set_gpreds (set_deps xb (set_add a (a_deps xb))) (set_add a (a_gpreds xb))))
  | RemoveSucc a b =>
      if negb ((a <? n)%nat && (b <? n)%nat) then Thrown
      else if Nat.eqb a b then Thrown
      else if negb (memb b (a_succs (acts s a))) then Thrown           (* "Dependency does not exist" *)
      else let s1 := with_act s a (set_succs (acts s a) (del_first b (a_succs (acts s a)))) in
           let xb := acts s1 b in
           Ok (with_act s1 b (set_gpreds (set_deps xb (set_del a (a_deps xb))) (set_del a (a_gpreds xb))))
  | Assign b =>
      if negb (b <? n)%nat then Thrown
      else if negb (startable (acts s b)) then Unmod                   (* migration / xbt_assert *)
      else if (match a_kind (acts s b) with KComm => a_assigned (acts s b) | _ => false end) then Unmod
                                                   (* CommImpl::set_source: xbt_assert(from_ == nullptr) *)
      else let x := set_assigned (acts s b) (now s) in
           match a_kind x with
           | KComm => (* set_source/set_destination call start() whatever the state (payload > 0) *)
               Ok (put_started s b (start_act (now s) x))
           | _ => (* set_host / set_disk:  if (state_ == STARTING) start(); *)
               if astate_eqb (a_state x) STARTING then Ok (put_started s b (start_act (now s) x))
               else Ok (with_act s b x)
           end
  | Start b =>
      if negb (b <? n)%nat then Thrown
      else if negb (startable (acts s b)) then Unmod                   (* start() of a started activity *)
      else Ok (put_started s b (start_act (now s) (set_req (acts s b) (now s))))
  | RunUntil t =>
      if t <? now s then Unmod                                         (* "that's in the past already" *)
      else Ok (set_now (drain n (Some t) s) t)
  | Run => Ok (drain n None s)
  end.

Fixpoint run_from (s : st) (ops : list op) : res * nat :=
  match ops with
  | [] => (Ok s, O)
  | o :: r => match step s o with
              | Ok s' => let '(x, k) := run_from s' r in (x, S k)
              | e => (e, O)
              end
  end.
Definition run (ops : list op) : res := fst (run_from init_st ops).

(** ------------------------------------------------------------------------------------------------------------
    The trace monitor = the oracle run on the implementation's log.  Everything is recomputed from the prefix of
    the log that precedes a start signal; nothing comes from the model above. *)
(* the log is kept newest-first while scanning: [edges_rev past] are the predecessor edges alive after [past] *)
Definition edge_eqb (x y : nat * nat) : bool := Nat.eqb (fst x) (fst y) && Nat.eqb (snd x) (snd y).
Fixpoint edges_rev (past : list ev) : list (nat * nat) :=
  match past with
  | [] => []
  | EvOp (AddSucc a b) _ :: r => (a, b) :: edges_rev r
  | EvOp (RemoveSucc a b) _ :: r => filter (fun e => negb (edge_eqb e (a, b))) (edges_rev r)
  | _ :: r => edges_rev r
  end.
Definition preds_in (past : list ev) (b : nat) : list nat :=
  map fst (filter (fun e => Nat.eqb (snd e) b) (edges_rev past)).
Fixpoint assign_date (past : list ev) (b : nat) : option Z :=      (* date of the first Assign b *)
  match past with
  | [] => None
  | EvOp (Assign b') d :: r => match assign_date r b with Some x => Some x | None => if Nat.eqb b b' then Some d else None end
  | _ :: r => assign_date r b
  end.
Fixpoint req_date (past : list ev) (b : nat) : option Z :=         (* date of the first Start b *)
  match past with
  | [] => None
  | EvOp (Start b') d :: r => match req_date r b with Some x => Some x | None => if Nat.eqb b b' then Some d else None end
  | _ :: r => req_date r b
  end.
Fixpoint finish_date (past : list ev) (a : nat) : option Z :=      (* date of the first completion signal of a *)
  match past with
  | [] => None
  | EvFinish a' d :: r => match finish_date r a with Some x => Some x | None => if Nat.eqb a a' then Some d else None end
  | _ :: r => finish_date r a
  end.
Fixpoint has_remove (past : list ev) : bool :=
  match past with [] => false | EvOp (RemoveSucc _ _) _ :: _ => true | _ :: r => has_remove r end.
Definition odef (o : option Z) : Z := match o with Some x => x | None => 0 end.
Definition max_list (l : list Z) : Z := fold_right Z.max 0 l.

(** verdict on one start signal of b at date d, given everything that was logged before it:
    1 = not assigned, 2 = a declared predecessor has not completed (or completed later than d),
    3 = the date is not max(latest predecessor completion, assignment, first start request) (only judged on logs
    without remove_successor), 0 = fine *)
Definition start_verdict (past : list ev) (b : nat) (d : Z) : Z :=
  match assign_date past b with
  | None => 1
  | Some ta =>
      let ps := preds_in past b in
      if negb (forallb (fun a => match finish_date past a with Some f => f <=? d | None => false end) ps) then 2
      else if has_remove past then 0
      else if d =? Z.max (Z.max (max_list (map (fun a => odef (finish_date past a)) ps)) ta) (odef (req_date past b))
           then 0 else 3
  end.
Definition ev_verdict (past : list ev) (e : ev) : Z :=
  match e with EvStart b d => start_verdict past b d | _ => 0 end.
(* [] = accepted, else [verdict; position of the offending signal in the log] *)
Fixpoint monitor (past : list ev) (todo : list ev) (* oldest first *) : list Z :=
  match todo with
  | [] => []
  | e :: r => if ev_verdict past e =? 0 then monitor (e :: past) r else [ev_verdict past e; Z.of_nat (length past)]
  end.
Definition trace_ok (tr : list ev) : bool := is_nil (monitor [] tr).

(** ------------------------------------------------------------------------------------------------------------
    integer-list entry points for the extracted driver *)
Definition kind_of_Z (z : Z) : kind := if z =? 1 then KComm else if z =? 2 then KIo else KExec.
Fixpoint decode_ops (fuel : nat) (l : list Z) : list op :=
  match fuel with
  | O => []
  | S f => match l with
           | 0 :: k :: d :: r => Create (kind_of_Z k) d :: decode_ops f r
           | 1 :: a :: b :: r => AddSucc (Z.to_nat a) (Z.to_nat b) :: decode_ops f r
           | 2 :: a :: b :: r => RemoveSucc (Z.to_nat a) (Z.to_nat b) :: decode_ops f r
           | 3 :: b :: r => Assign (Z.to_nat b) :: decode_ops f r
           | 4 :: b :: r => Start (Z.to_nat b) :: decode_ops f r
           | 5 :: t :: r => RunUntil t :: decode_ops f r
           | 6 :: r => Run :: decode_ops f r
           | _ => []
           end
  end.
Definition state_code (x : astate) : Z :=
  match x with INITED => 0 | STARTING => 1 | STARTED => 2 | FAILED => 3 | CANCELED => 4 | FINISHED => 5 end.
Definition oz (o : option Z) : Z := match o with Some x => x | None => -1 end.
Definition enc_act (x : act) : list Z := [state_code (a_state x); oz (a_tstart x); oz (a_tfinish x)].
Definition enc_ev (e : ev) : list Z :=
  match e with
  | EvOp _ d => [0; 0; d]
  | EvStart b d => [1; Z.of_nat b; d]
  | EvFinish b d => [2; Z.of_nat b; d]
  end.

(** answer: [status; k] ++ per activity (state, start, finish) ++ [-7; final clock] ++ events (oldest first)
    status 0 = ran to the end, 1 = op k throws, 2 = op k is outside the model *)
Definition run_c13 (l : list Z) : list Z :=
  let ops := decode_ops (length l) l in
  let fix go (s : st) (k : Z) (ops : list op) : Z * Z * st :=
    match ops with
    | [] => (0, k, s)
    | o :: r => match step s o with
                | Ok s' => go s' (k + 1) r
                | Thrown => (1, k, log_op s o)
                | Unmod => (2, k, s)
                end
    end in
  let '(stat, k, s) := go init_st 0 ops in
  [stat; k; Z.of_nat (nacts s)] ++ flat_map (fun i => enc_act (acts s i)) (seq 0 (nacts s)) ++ [now s]
  ++ flat_map enc_ev (rev (trace s)).

(** positions of the operations that leave the modelled domain (the generator drops them) *)
Fixpoint skips (s : st) (k : Z) (ops : list op) : list Z :=
  match ops with
  | [] => []
  | o :: r => match step s o with
              | Ok s' => skips s' (k + 1) r
              | Thrown => []
              | Unmod => k :: skips s (k + 1) r
              end
  end.
Definition run_c13_skips (l : list Z) : list Z := skips init_st 0 (decode_ops (length l) l).

(** the oracle on a log: events encoded as  0 opcode.. date | 1 b date | 2 b date ; answer = [verdict; index] *)
Fixpoint decode_evs (fuel : nat) (l : list Z) : list ev :=
  match fuel with
  | O => []
  | S f => match l with
           | 10 :: k :: x :: d :: r => EvOp (Create (kind_of_Z k) x) d :: decode_evs f r
           | 11 :: a :: b :: d :: r => EvOp (AddSucc (Z.to_nat a) (Z.to_nat b)) d :: decode_evs f r
           | 12 :: a :: b :: d :: r => EvOp (RemoveSucc (Z.to_nat a) (Z.to_nat b)) d :: decode_evs f r
           | 13 :: b :: d :: r => EvOp (Assign (Z.to_nat b)) d :: decode_evs f r
           | 14 :: b :: d :: r => EvOp (Start (Z.to_nat b)) d :: decode_evs f r
           | 15 :: t :: d :: r => EvOp (RunUntil t) d :: decode_evs f r
           | 16 :: d :: r => EvOp Run d :: decode_evs f r
           | 1 :: b :: d :: r => EvStart (Z.to_nat b) d :: decode_evs f r
           | 2 :: b :: d :: r => EvFinish (Z.to_nat b) d :: decode_evs f r
           | _ => []
           end
  end.
Definition run_c13_oracle (l : list Z) : list Z := monitor [] (decode_evs (length l) l).
