(** C06 — condition variables (src/kernel/activity/ConditionVariableImpl.cpp, s4u_ConditionVariable.cpp) together with
    the (non-recursive) mutex they release and re-acquire (MutexImpl::lock_async/unlock; own small model, FIFO hand-off).
    Model only.  Dates are integers (ticks).  One condition variable with its mutex:
      [cwait] = ConditionVariableImpl::ongoing_acquisitions_ (FIFO of waiters, each with the absolute date at which its
                timeout timer fires, if any), [owner]/[mwait] = MutexImpl::owner_/ongoing_acquisitions_.
    A waiter that is signalled or whose timer fires does [lock_async] on the mutex inside finish(); its wait returns
    when it is granted the mutex (WaitReturn a timed_out).
    [deadline_of] is the repaired code (wait_for: `timeout >= 0` arms the timer); [deadline_pinned] is the code as it
    stood (`timeout > 0`: wait_for(0)/wait_until(past) never arm a timer). *)
From SGV Require Import Base.Tactics.
Local Open Scope Z_scope.

Inductive mkind := MLock | MRelock (timedout : bool).
Record cv := mkCv {
  owner : option Z;
  mwait : list (Z * mkind);
  cwait : list (Z * option Z)
}.
Definition cv_init : cv := mkCv None [] [].

Inductive out := Acquired (a : Z) | WaitReturn (a : Z) (timedout : bool) | Error.
Definition ret (a : Z) (k : mkind) : out := match k with MLock => Acquired a | MRelock f => WaitReturn a f end.

(* MutexImpl::lock_async followed by the acquisition's wait_for: granted at once when free, else queued *)
Definition mlock (s : cv) (a : Z) (k : mkind) : cv * list out :=
  match owner s with
  | None => (mkCv (Some a) (mwait s) (cwait s), [ret a k])
  | Some _ => (mkCv (owner s) (mwait s ++ [(a, k)]) (cwait s), [])
  end.
(* MutexImpl::unlock: ownership goes to the first waiting acquisition *)
Definition munlock (s : cv) : cv * list out :=
  match mwait s with
  | [] => (mkCv None [] (cwait s), [])
  | (b, k) :: r => (mkCv (Some b) r (cwait s), [ret b k])
  end.

(* ConditionVariableImpl::signal *)
Definition signal (s : cv) : cv * list out :=
  match cwait s with
  | [] => (s, [])
  | (a, _) :: r => mlock (mkCv (owner s) (mwait s) r) a (MRelock false)
  end.
(* ConditionVariableImpl::broadcast: while (not empty) signal(); fuel = number of waiters *)
Fixpoint broadcast_n (n : nat) (s : cv) : cv * list out :=
  match n with
  | O => (s, [])
  | S n' => match cwait s with
            | [] => (s, [])
            | _ => let '(s1, o1) := signal s in let '(s2, o2) := broadcast_n n' s1 in (s2, o1 ++ o2)
            end
  end.
Definition broadcast (s : cv) : cv * list out := broadcast_n (length (cwait s)) s.

(* timers: a waiter whose deadline has come leaves the queue (cancel()), reports a timeout and re-locks the mutex.
   Timers fire in date order; equal dates in queue order (the check discards runs where that tie matters). *)
Definition overdue (d : Z) (w : Z * option Z) : bool :=
  match snd w with Some D => D <=? d | None => false end.
Definition dl (w : Z * option Z) : Z := match snd w with Some D => D | None => 0 end.
(* the overdue waiter with the smallest deadline (first such), and the queue without it *)
Fixpoint pick (d : Z) (l : list (Z * option Z)) : option ((Z * option Z) * list (Z * option Z)) :=
  match l with
  | [] => None
  | w :: r =>
      match pick d r with
      | Some (w', r') => if overdue d w && (dl w <=? dl w') then Some (w, r) else Some (w', w :: r')
      | None => if overdue d w then Some (w, r) else None
      end
  end.
Fixpoint fire_n (n : nat) (d : Z) (s : cv) : cv * list out :=
  match n with
  | O => (s, [])
  | S n' => match pick d (cwait s) with
            | None => (s, [])
            | Some (w, rest) =>
                let '(s1, o1) := mlock (mkCv (owner s) (mwait s) rest) (fst w) (MRelock true) in
                let '(s2, o2) := fire_n n' d s1 in (s2, o1 ++ o2)
            end
  end.
Definition fire (d : Z) (s : cv) : cv * list out := fire_n (length (cwait s)) d s.

Inductive cop :=
| CLock (a : Z) | CUnlock (a : Z)
| CWait (a : Z) (tmo : option Z)        (* None: wait(); Some t: wait_for(t) / wait_until(now + t) *)
| CNotifyOne | CNotifyAll | CTick.

(* s4u wait_for: negative timeouts are 0; kernel (repaired): any timeout >= 0 arms a timer of that duration *)
Definition deadline_of (d : Z) (tmo : option Z) : option Z :=
  match tmo with Some t => Some (d + Z.max 0 t) | None => None end.
(* kernel as pinned: `else if (timeout > 0)` *)
Definition deadline_pinned (d : Z) (tmo : option Z) : option Z :=
  match tmo with Some t => if 0 <? t then Some (d + t) else None | None => None end.

Definition is_owner (s : cv) (a : Z) : bool := match owner s with Some b => b =? a | None => false end.

(* the request itself, timers already fired *)
Definition apply_op (dlf : Z -> option Z -> option Z) (s : cv) (d : Z) (o : cop) : cv * list out :=
  match o with
  | CLock a => mlock s a MLock
  | CUnlock a => if is_owner s a then munlock s else (s, [Error])
  | CWait a t =>
      if is_owner s a
      then let '(s1, o1) := munlock s in (mkCv (owner s1) (mwait s1) (cwait s1 ++ [(a, dlf d t)]), o1)
      else (s, [Error])
  | CNotifyOne => signal s
  | CNotifyAll => broadcast s
  | CTick => (s, [])
  end.
(* one request handled at date d: first the timers that are due, then the request *)
Definition cstep_gen (dlf : Z -> option Z -> option Z) (s : cv) (d : Z) (o : cop) : cv * (list out * list out) :=
  let '(s0, o0) := fire d s in
  let '(s1, o1) := apply_op dlf s0 d o in (s1, (o0, o1)).
Definition cstep := cstep_gen deadline_of.

Fixpoint crun_gen (dlf : Z -> option Z -> option Z) (s : cv) (h : list (Z * cop)) : cv * list (list out * list out) :=
  match h with
  | [] => (s, [])
  | (d, o) :: t => let '(s1, oo) := cstep_gen dlf s d o in
                   let '(s2, r) := crun_gen dlf s1 t in (s2, oo :: r)
  end.
Definition crun := crun_gen deadline_of.

Definition grants (o : list out) : list Z :=
  flat_map (fun x => match x with Acquired a => [a] | WaitReturn a _ => [a] | Error => [] end) o.

(** executable entry point. one request = 4 integers: date kind actor arg
    kind 1 lock | 2 unlock | 3 wait() | 4 wait_for(arg) | 5 notify_one | 6 notify_all | 7 tick
    output per request: n (k a)^n with k = 1 Acquired | 2 WaitReturn no_timeout | 3 WaitReturn timeout | 9 Error,
    first the outputs of the timers, then -1, then the outputs of the request, then -2 *)
Fixpoint decode_cops (l : list Z) : list (Z * cop) :=
  match l with
  | d :: kind :: a :: arg :: r =>
      (d, if kind =? 1 then CLock a else if kind =? 2 then CUnlock a else if kind =? 3 then CWait a None
          else if kind =? 4 then CWait a (Some arg) else if kind =? 5 then CNotifyOne
          else if kind =? 6 then CNotifyAll else CTick) :: decode_cops r
  | _ => []
  end.
Definition enc_out (x : out) : list Z :=
  match x with
  | Acquired a => [1; a]
  | WaitReturn a false => [2; a]
  | WaitReturn a true => [3; a]
  | Error => [9; 0]
  end.
Definition enc_step (oo : list out * list out) : list Z :=
  flat_map enc_out (fst oo) ++ [-1] ++ flat_map enc_out (snd oo) ++ [-2].
(* input: pinned? (date kind actor arg)*   output: concatenation of enc_step, then -3 and the final cv queue (actors) *)
Definition run_c06 (inp : list Z) : list Z :=
  match inp with
  | pinned :: r =>
      let res := crun_gen (if pinned =? 1 then deadline_pinned else deadline_of) cv_init (decode_cops r) in
      flat_map enc_step (snd res) ++ [-3] ++ map fst (cwait (fst res))
  | _ => [-9]
  end.
