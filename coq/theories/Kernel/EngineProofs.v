(** Proofs about the engine model (SGV.Kernel.Engine). *)
From Coq Require Import Sorted.
From SGV Require Import Base.Tactics Kernel.Engine.
Local Open Scope Z_scope.

(* ------------------------------------------------------------------------------------------- generic helpers *)
Lemma fold_left_pres {A B} (P : A -> Prop) (f : A -> B -> A) l :
  (forall s x, P s -> P (f s x)) -> forall s, P s -> P (fold_left f l s).
Proof. intros H. induction l; simpl; auto. Qed.

Lemma Forall_upd_actor (P : actor -> Prop) p f l :
  Forall P l -> (forall a, get_actor p l = Some a -> P a -> P (f a)) -> Forall P (upd_actor p f l).
Proof.
  intros H. induction H; simpl; intros Hf; auto.
  destruct (a_pid x =? p) eqn:E; constructor; auto.
Qed.
Lemma upd_actor_none p f l : get_actor p l = None -> upd_actor p f l = l.
Proof. induction l; simpl; auto. destruct (a_pid a =? p); [discriminate|]. intros; f_equal; auto. Qed.
Lemma Forall_map_same {A} (P : A -> Prop) f (l : list A) :
  Forall P l -> (forall a, P a -> P (f a)) -> Forall P (map f l).
Proof. intros H Hf. induction H; simpl; constructor; auto. Qed.
Lemma get_actor_In p l a : get_actor p l = Some a -> In a l /\ a_pid a = p.
Proof.
  induction l; simpl; [discriminate|]. destruct (a_pid a0 =? p) eqn:E; intros H.
  - inv H. split; auto. lia.
  - destruct (IHl H). auto.
Qed.
Lemma get_act_In h l x : get_act h l = Some x -> In x l /\ h_id x = h.
Proof.
  induction l; simpl; [discriminate|]. destruct (h_id a =? h) eqn:E; intros H.
  - inv H. split; auto. lia.
  - destruct (IHl H). auto.
Qed.

(* ------------------------------------------------------------------------------------------- actor invariant *)
Definition ainv (clk pr : Z) (a : actor) : Prop :=
  a_t0 a <= clk /\ (forall d, a_cur a = OSleep d -> 0 < d) /\
  match a_st a with
  | SCalled => a_t0 a = clk
  | SBlocked (BSleep dt) => forall d, a_cur a = OSleep d -> a_dist a = false -> dt = a_t0 a + clamp pr d
  | SBlocked BFin | SReady _ _ => forall d, a_cur a = OSleep d -> a_dist a = false -> clk <= a_t0 a + clamp pr d < clk + pr
  | _ => True
  end.
Definition IA (s : state) : Prop := Forall (ainv (clock s) (prec s)) (actors s).
Definition entry_ok (pr : Z) (e : entry) : Prop :=
  match e with
  | ERet _ _ o t0 t1 _ dist =>
    t0 <= t1 /\ match o with
                | OSleep d => (d <= 0 -> t1 = t0) /\ (0 < d -> dist = false -> t1 <= t0 + clamp pr d < t1 + pr)
                | _ => True end
  | _ => True
  end.
Definition free (st : status) : Prop :=
  match st with SCalled | SBlocked (BSleep _) | SBlocked BFin | SReady _ _ => False | _ => True end.

Lemma ainv_frame clk pr a b :
  a_cur b = a_cur a -> a_t0 b = a_t0 a -> a_st b = a_st a -> (a_dist b = a_dist a \/ a_dist b = true) ->
  ainv clk pr a -> ainv clk pr b.
Proof.
  unfold ainv. intros Hc Ht Hs Hd (H1 & H2 & H3). rewrite Hc, Ht, Hs. repeat split; auto.
  destruct (a_st a) as [| | |[]| | |]; auto; intros d E F; destruct Hd as [Hd|Hd]; try congruence; apply H3; congruence.
Qed.
Lemma ainv_free clk pr a b :
  a_cur b = a_cur a -> a_t0 b = a_t0 a -> free (a_st b) -> ainv clk pr a -> ainv clk pr b.
Proof.
  unfold ainv. intros Hc Ht Hs (H1 & H2 & H3). rewrite Hc, Ht. repeat split; auto.
  destruct (a_st b) as [| | |[]| | |]; simpl in Hs; tauto.
Qed.
Lemma ainv_tainted clk pr a b :
  a_cur b = a_cur a -> a_t0 b = a_t0 a -> (is_sleep (a_cur a) = true -> a_dist b = true) ->
  (a_st b = SBlocked BFin \/ exists r n, a_st b = SReady r n) -> ainv clk pr a -> ainv clk pr b.
Proof.
  unfold ainv. intros Hc Ht Hd Hs (H1 & H2 & H3). rewrite Hc, Ht. repeat split; auto.
  assert (forall d, a_cur a = OSleep d -> a_dist b = false -> False).
  { intros d E F. rewrite Hd in F; [discriminate|]. rewrite E. auto. }
  destruct Hs as [Hs|(r & n & Hs)]; rewrite Hs; intros d E F; exfalso; eauto.
Qed.
Ltac tainted := apply ainv_tainted; cbv beta; simpl; eauto;
  try (match goal with |- is_sleep (a_cur ?a) = true -> _ => intros ->; destruct (a_dist a); auto end).

(* ------------------------------------------------------------------------------------------- steps at a fixed date *)
Definition at_clock (c : Z) (e : entry) : Prop :=
  match e with ERet _ _ _ _ t1 _ _ => t1 = c | EExit _ _ t _ => t = c | ETerm _ t => t = c | EAct _ _ _ => True end.
(* clock and precision unchanged, actor invariant kept; the log only grows, by well-formed observations made at the current clock *)
Definition same_time (s s' : state) : Prop :=
  clock s' = clock s /\ prec s' = prec s /\ (IA s -> IA s') /\
  exists new, log s' = new ++ log s /\ Forall (at_clock (clock s)) new /\ (IA s -> Forall (entry_ok (prec s)) new).
Lemma st_refl s : same_time s s. Proof. repeat split; auto. exists []; auto. Qed.
Lemma st_trans a b c : same_time a b -> same_time b c -> same_time a c.
Proof.
  intros (H1 & H2 & I1 & n1 & H3 & H4 & J1) (H5 & H6 & I2 & n2 & H7 & H8 & J2). repeat split; try congruence; auto.
  exists (n2 ++ n1). split; [rewrite H7, H3, app_assoc; auto|]. split.
  - apply Forall_app; split; auto. rewrite H1 in H8; auto.
  - intros. apply Forall_app; split; auto. rewrite H2 in J2. auto.
Qed.
Global Hint Resolve st_refl : eng.

Ltac stime := solve [ apply st_refl | unfold same_time, IA; simpl; repeat split; auto; exists []; auto ].

Lemma st_mod_actor s p f :
  (forall a, get_actor p (actors s) = Some a -> ainv (clock s) (prec s) a -> ainv (clock s) (prec s) (f a)) ->
  same_time s (mod_actor s p f).
Proof.
  intros H. unfold same_time, IA; simpl. repeat split; auto; [|exists []; auto].
  intros HI. apply Forall_upd_actor; auto.
Qed.
Lemma st_mod_act s h f : same_time s (mod_act s h f). Proof. stime. Qed.
Lemma st_set_acts s l : same_time s (set_acts s l). Proof. stime. Qed.
Lemma st_add_log s e : at_clock (clock s) e -> (IA s -> entry_ok (prec s) e) -> same_time s (add_log s e).
Proof. intros H H'. unfold same_time, IA; simpl. repeat split; auto. exists [e]; auto. Qed.
Lemma st_bump s : same_time s (bump s). Proof. stime. Qed.
Lemma st_set_race s : same_time s (set_race s). Proof. stime. Qed.
Lemma st_answer s p r : same_time s (answer s p r).
Proof.
  unfold answer. eapply st_trans; [|apply st_bump]. apply st_mod_actor.
  intros a _. tainted.
Qed.
Ltac frame := intros ? _; apply ainv_frame; cbv beta; simpl; auto.
Ltac freed := intros ? _; apply ainv_free; cbv beta; simpl; auto.
Lemma st_do_exit s p : same_time s (do_exit s p).
Proof.
  unfold do_exit. destruct (get_actor p (actors s)); [|stime]. destruct (runnable_pos a).
  - eapply st_trans; [apply st_set_acts|]. apply st_mod_actor. freed.
  - eapply st_trans; [apply st_set_acts|]. eapply st_trans; [|apply st_bump]. apply st_mod_actor. freed.
Qed.
Lemma st_do_kill s p : same_time s (do_kill s p).
Proof. unfold do_kill. destruct (get_actor p (actors s)); [|stime]. destruct (wannadie a); [stime|apply st_do_exit]. Qed.
Lemma st_fold {B} (f : state -> B -> state) l :
  (forall s x, same_time s (f s x)) -> forall s, same_time s (fold_left f l s).
Proof.
  intros H. induction l; simpl; intros; [stime|]. eapply st_trans; [apply H|apply IHl].
Qed.
Lemma st_run_onexit p fl cbs : forall s, same_time s (run_onexit p fl cbs s).
Proof.
  induction cbs as [|c r IH]; simpl; intros; [stime|]. destruct c; (eapply st_trans; [|apply IH]).
  - apply st_add_log; simpl; auto.
  - apply st_mod_actor. intros a _ Ha. destruct (a_st a) as [| | |[]| | |] eqn:E; auto.
    destruct (tg =? p); auto. revert Ha. tainted.
Qed.
Lemma st_terminate s p fl : same_time s (terminate s p fl).
Proof.
  unfold terminate. destruct (get_actor p (actors s)); [|stime].
  set (s1 := run_onexit p fl (a_onexit a) s).
  pose proof (st_run_onexit p fl (a_onexit a) s) as Hr. fold s1 in Hr.
  apply (st_trans s s1); auto.
  eapply st_trans; [|apply st_add_log; simpl; auto; destruct Hr as (H1 & _); auto].
  eapply st_trans; [apply st_set_acts|apply st_mod_actor; freed].
Qed.
Lemma st_start_ops p prog : forall i s, same_time s (start_ops p prog i s).
Proof.
  assert (G : forall s o rest i, (forall d, o = OSleep d -> 0 < d) ->
              same_time s (mod_actor s p (fun a => start_op a o rest i (clock s)))).
  { intros. apply st_mod_actor. intros a _ (H1 & H2 & H3). unfold ainv; simpl. repeat split; auto; lia. }
  induction prog as [|o r IH]; simpl; intros; [apply st_terminate|].
  destruct o; try (apply G; intros; discriminate).
  destruct (d <=? 0) eqn:E.
  - eapply st_trans; [|apply IH]. apply st_add_log; simpl; auto. intros _. repeat split; try lia.
  - apply G. intros d' Hd. inv Hd. lia.
Qed.
Lemma st_act_entry s o r : same_time s (act_entry s o r).
Proof.
  unfold act_entry. destruct o; try stime. destruct (r =? 0); [|stime].
  destruct (get_act h (acts s)); [|stime]. destruct (h_st a); try stime. apply st_add_log; simpl; auto.
Qed.
Lemma IA_get s p a : IA s -> get_actor p (actors s) = Some a -> ainv (clock s) (prec s) a.
Proof. intros H G. apply get_actor_In in G. destruct G. eapply Forall_forall in H; eauto. Qed.
Lemma st_run_actor s p : same_time s (run_actor s p).
Proof.
  unfold run_actor. destruct (get_actor p (actors s)) eqn:G; [|stime].
  destruct (a_st a) as [n|r n| | | | |] eqn:Est; try stime.
  - apply st_start_ops.
  - destruct (a_susp a); [apply st_mod_actor; freed|]. eapply st_trans; [|apply st_start_ops].
    pose proof (st_act_entry s (a_cur a) r) as Hae.
    eapply st_trans; [exact Hae|]. destruct Hae as (H1 & H2 & H3 & _).
    apply st_add_log; simpl; auto. intros HI.
    assert (Ha : ainv (clock s) (prec s) a).
    { assert (Hs : actors (act_entry s (a_cur a) r) = actors s).
      { unfold act_entry. destruct (a_cur a); auto. destruct (r =? 0); auto. destruct (get_act h (acts s)); auto.
        destruct (h_st a0); auto. }
      unfold IA in HI. rewrite H1, H2, Hs in HI. apply get_actor_In in G. destruct G. eapply Forall_forall in HI; eauto. }
    destruct Ha as (A1 & A2 & A3). rewrite Est in A3. rewrite ?H1, ?H2. split; auto.
    destruct (a_cur a) eqn:Ec; auto. split; [intros; specialize (A2 d eq_refl); lia|]. intros. apply A3; auto.
  - apply st_terminate.
Qed.
Lemma st_do_suspend s p : same_time s (do_suspend s p).
Proof.
  unfold do_suspend. destruct (get_actor p (actors s)); [|stime]. destruct (wannadie a || a_susp a); [stime|].
  eapply st_trans; [|apply st_set_acts]. apply st_mod_actor; frame.
Qed.
Lemma st_do_resume s p : same_time s (do_resume s p).
Proof.
  unfold do_resume. destruct (get_actor p (actors s)) eqn:G; [|stime]. destruct (wannadie a || negb (a_susp a)); [stime|].
  destruct (a_st a) as [| | |b| | |] eqn:E; try apply st_set_race.
  - eapply st_trans; [apply st_set_acts|].
    assert (Hs : forall s', same_time s' (bump (mod_actor s' p (fun a => set_susp (set_st a (SReady 0 (seq s))) false true)))).
    { intros. eapply st_trans; [|apply st_bump]. apply st_mod_actor. intros a0 _.
      tainted. }
    destruct b; [apply st_mod_actor; frame|apply st_mod_actor; frame|apply st_mod_actor; frame|apply st_mod_actor; frame|apply st_mod_actor; frame|apply Hs].
  - eapply st_trans; [apply st_set_acts|]. eapply st_trans; [|apply st_bump]. apply st_mod_actor. intros a0 _.
    tainted.
Qed.
Lemma st_wake_fin s p a :
  get_actor p (actors s) = Some a -> a_st a = SBlocked BFin -> same_time s (wake s p 0).
Proof.
  intros G E. unfold wake. eapply st_trans; [|apply st_bump]. apply st_mod_actor.
  intros a0 G0 (H1 & H2 & H3). rewrite G in G0. inv G0. rewrite E in H3. unfold ainv; simpl. auto.
Qed.
Lemma st_handle_simcall s p : same_time s (handle_simcall s p).
Proof.
  unfold handle_simcall. destruct (get_actor p (actors s)) as [a|] eqn:G; [|stime].
  destruct (a_st a) eqn:Est; try stime.
  destruct (a_cur a) eqn:Ec; try apply st_answer.
  - apply st_mod_actor. intros a0 G0 (H1 & H2 & H3). rewrite G in G0. inv G0. rewrite Est in H3.
    unfold ainv; simpl. repeat split; auto. intros d' Hd _. rewrite Ec in Hd. inv Hd. lia.
  - destruct (get_act h (acts s)); [apply st_answer|]. destruct (d <? 0); [apply st_answer|].
    eapply st_trans; [apply st_set_acts|apply st_answer].
  - destruct (owned_ok s p h); [|apply st_answer]. destruct (get_act h (acts s)); [|apply st_answer].
    destruct (h_st a0); try apply st_answer; apply st_mod_actor; freed.
  - destruct (forallb (owned_ok s p) hs); [|apply st_answer]. destruct (find (act_over s) hs); [apply st_answer|].
    apply st_mod_actor; freed.
  - destruct (get_actor a0 (actors s)); [|apply st_answer]. destruct ((t <? 0) && negb (t =? -1)); [apply st_answer|].
    destruct (wannadie a1); [apply st_answer|]. eapply st_trans; [|apply st_mod_actor; freed]. apply st_mod_actor; frame.
  - destruct (get_actor a0 (actors s)); [|apply st_answer]. destruct (a0 =? p); [apply st_do_kill|].
    eapply st_trans; [apply st_do_kill|apply st_answer].
  - eapply st_trans; [|apply st_answer].
    apply st_fold. intros. destruct (x =? p); [stime|apply st_do_kill].
  - destruct (a_kset a); [apply st_answer|]. eapply st_trans; [|apply st_answer]. apply st_mod_actor; frame.
  - eapply st_trans; [|apply st_answer]. apply st_mod_actor; frame.
  - eapply st_trans; [|apply st_answer]. apply st_mod_actor; frame.
  - destruct (get_actor a0 (actors s)); [|apply st_answer]. destruct (a0 =? p).
    + eapply st_trans; [apply st_do_suspend|apply st_mod_actor; freed].
    + eapply st_trans; [apply st_do_suspend|apply st_answer].
  - destruct (get_actor a0 (actors s)); [|apply st_answer]. eapply st_trans; [apply st_do_resume|apply st_answer].
  - apply st_do_exit.
Qed.
Lemma st_notify s x : same_time s (notify_owner s x).
Proof.
  unfold notify_owner. destruct (get_actor (h_owner x) (actors s)); [|stime]. destruct (a_st a); try stime.
  destruct b; try stime. destruct (h =? h_id x); [apply st_answer|stime].
  destruct (existsb (Z.eqb (h_id x)) hs); [apply st_answer|stime].
Qed.
Lemma st_end_act s h : same_time s (end_act s h).
Proof.
  unfold end_act. destruct (get_act h (acts s)); [|stime]. destruct (h_st a); try stime.
  eapply st_trans; [apply st_mod_act|apply st_notify].
Qed.
Lemma st_end_sleep s p : same_time s (end_sleep s p).
Proof.
  unfold end_sleep. destruct (get_actor p (actors s)) eqn:G; [|stime]. destruct (a_st a) eqn:E; try stime.
  destruct b; try stime. destruct (a_susp a); [apply st_mod_actor; freed|eapply st_wake_fin; eauto].
Qed.
Lemma st_handle_ended s : same_time s (handle_ended s).
Proof.
  unfold handle_ended. eapply st_trans; [apply (st_fold end_act); intros; apply st_end_act|apply (st_fold end_sleep); intros; apply st_end_sleep].
Qed.
Lemma st_daemon_sweep s : same_time s (daemon_sweep s).
Proof. unfold daemon_sweep. destruct (forallb a_daemon (filter live (actors s))); [|stime]. apply st_fold. intros; apply st_do_kill. Qed.
Lemma st_reset_batch s : same_time s (reset_batch s). Proof. stime. Qed.
Lemma st_close_batch s : same_time s (close_batch s). Proof. stime. Qed.
Lemma st_subround s : same_time s (subround s).
Proof.
  unfold subround. set (l := to_run s).
  eapply st_trans; [|apply st_daemon_sweep]. eapply st_trans; [|apply st_close_batch].
  eapply st_trans; [|apply st_handle_ended]. eapply st_trans; [|apply st_reset_batch].
  eapply st_trans; [apply (st_fold run_actor); intros; apply st_run_actor|].
  apply (st_fold handle_simcall); intros; apply st_handle_simcall.
Qed.
Lemma st_drain n : forall s, same_time s (drain n s).
Proof.
  induction n; simpl; intros; [stime|]. destruct (to_run s); [stime|]. eapply st_trans; [apply st_subround|apply IHn].
Qed.
Lemma st_fire_timers s : same_time s (fire_timers s).
Proof.
  unfold fire_timers. apply st_fold. intros s0 p. apply (st_trans s0 (fire_timer s0 p)).
  - unfold fire_timer. destruct (get_actor p (actors s0)); [|stime]. destruct (a_kill a); [|stime].
    destruct (z <=? clock s0); [apply st_do_exit|stime].
  - unfold fire_timeout. destruct (get_actor p (actors (fire_timer s0 p))); [|stime]. destruct (a_st a); try stime.
    destruct b; try stime; destruct dl; try stime.
    + destruct (z <=? _); [|stime]. destruct (get_act h _); [|apply st_answer]. destruct (h_st a0); try apply st_answer.
      apply st_mod_actor; freed.
    + destruct (z <=? _); [apply st_answer|stime].
Qed.

(* ------------------------------------------------------------------------------------------- advance: the clock never decreases *)
Definition adv_rel (s s' : state) : Prop :=
  clock s <= clock s' /\ prec s' = prec s /\ (IA s -> IA s') /\
  exists new, log s' = new ++ log s /\ Forall (at_clock (clock s')) new /\ (IA s -> Forall (entry_ok (prec s)) new).

Lemma adv_of_same s s' : same_time s s' -> adv_rel s s'.
Proof. intros (H1 & H2 & H0 & n & H3 & H4 & H5). repeat split; auto; try lia. exists n. rewrite H1. auto. Qed.

(* the next date is the minimum of all pending dates (timers and heap) *)
Lemma omin_fold l : forall acc m, fold_left omin l acc = Some m ->
  (forall d, In d l -> m <= d) /\ (forall a, acc = Some a -> m <= a) /\ (In m l \/ acc = Some m).
Proof.
  induction l as [|x r IH]; simpl; intros acc m H.
  - repeat split; auto; [tauto|]. intros a E. rewrite H in E. inv E. lia.
  - apply IH in H. destruct H as (H1 & H2 & H3). repeat split.
    + intros d [E|E]; auto. subst. destruct acc; simpl in *; specialize (H2 _ eq_refl); lia.
    + intros a E. subst. simpl in *. specialize (H2 _ eq_refl). lia.
    + destruct H3 as [H3|H3]; auto. destruct acc; simpl in H3; inv H3; auto.
      destruct (Z.min_spec z x) as [[_ E]|[_ E]]; rewrite E; auto.
Qed.
Lemma next_date_min s m : next_date s = Some m -> (forall d, In d (all_dates s) -> m <= d) /\ In m (all_dates s).
Proof.
  intros H. apply omin_fold in H. destruct H as (H1 & _ & [H3|H3]); auto. discriminate.
Qed.

Lemma pop_ainv s m a :
  ainv (clock s) (prec s) a -> quiet_actor a = true -> (forall d, In d (actor_dates a) -> m <= d) -> clock s <= m ->
  ainv m (prec s) (pop_actor (set_clock s m) m a).
Proof.
  intros (H1 & H2 & H3) Hq Hd Hc. unfold pop_actor, due; simpl.
  unfold quiet_actor in Hq.
  destruct (a_st a) as [| | |b| | |] eqn:E; try discriminate;
    try (unfold ainv; rewrite E; repeat split; auto; lia).
  destruct b as [dt| |tg [dt|]|h dl|hs dl|]; try discriminate;
    try (unfold ainv; rewrite E; repeat split; auto; lia).
  - assert (m <= dt). { apply Hd. unfold actor_dates. rewrite E. apply in_or_app. right. simpl; auto. }
    destruct (Z.abs (dt - m) <? prec s) eqn:Ed.
    + unfold ainv; simpl. repeat split; auto; try lia; specialize (H3 d H0 H4); lia.
    + unfold ainv; rewrite E; repeat split; auto; lia.
  - destruct (Z.abs (dt - m) <? prec s).
    + apply (ainv_tainted m (prec s) a); simpl; auto.
      * intros ->. destruct (a_dist a); auto.
      * unfold ainv; rewrite E; repeat split; auto; lia.
    + unfold ainv; rewrite E; repeat split; auto; lia.
Qed.

Lemma advance_rel s s' : advance s = Some s' -> adv_rel s s'.
Proof.
  unfold advance. destruct (negb (quiescent s)) eqn:Eq.
  { intros H; inv H. apply adv_of_same. stime. }
  destruct (next_date s) as [m|] eqn:En.
  2:{ destruct (existsb live (actors s)); [|discriminate]. intros H; inv H. apply adv_of_same.
      apply (st_fold do_kill). intros; apply st_do_kill. }
  destruct (m <? clock s) eqn:Em. { intros H; inv H. apply adv_of_same. stime. }
  intros H; inv H.
  match goal with |- adv_rel s (if _ then ?a else ?b) => assert (Hb : adv_rel s b) end.
  { match goal with |- adv_rel s (close_batch (handle_ended (fire_timers ?x))) => set (s3 := x) end.
    assert (H : same_time s3 (close_batch (handle_ended (fire_timers s3)))).
    { eapply st_trans; [|apply st_close_batch]. eapply st_trans; [apply st_fire_timers|apply st_handle_ended]. }
    assert (H3 : IA s -> IA s3).
    { intros HI. unfold IA, s3; simpl. apply Forall_forall. intros x Hx. apply in_map_iff in Hx.
      destruct Hx as (a & <- & Ha). apply pop_ainv; try lia.
      - eapply Forall_forall in HI; eauto.
      - apply negb_false_iff in Eq. unfold quiescent in Eq. apply andb_true_iff in Eq. destruct Eq as [Eq _].
        eapply forallb_forall in Eq; eauto.
      - intros d Hd. apply next_date_min in En. destruct En as [En _]. apply En. unfold all_dates.
        apply in_or_app. left. apply in_flat_map. eauto. }
    destruct H as (H1 & H2 & H0 & n & H4 & H5 & H6).
    assert (C3 : clock s3 = m) by reflexivity. assert (P3 : prec s3 = prec s) by reflexivity.
    assert (L3 : log s3 = log s) by reflexivity.
    unfold adv_rel. rewrite H1, H2, C3, P3, H4, L3. split; [lia|]. split; [auto|]. split; [auto|].
    exists n. rewrite C3 in H5. rewrite P3 in H6. auto. }
  destruct (2 <=? _); auto.
Qed.

(* ------------------------------------------------------------------------------------------- the log is time-ordered *)
Definition etime (e : entry) : option Z :=
  match e with ERet _ _ _ _ t1 _ _ => Some t1 | EExit _ _ t _ => Some t | ETerm _ t => Some t | EAct _ _ _ => None end.
Definition not_before (e1 e2 : entry) : Prop :=   (* e1 was logged after e2 *)
  match etime e1, etime e2 with Some a, Some b => b <= a | _, _ => True end.
Definition le_clock (c : Z) (e : entry) : Prop := match etime e with Some t => t <= c | None => True end.
Definition LogInv (s : state) : Prop := StronglySorted not_before (log s) /\ Forall (le_clock (clock s)) (log s).

Lemma loginv_ext c c' new old :
  c <= c' -> StronglySorted not_before old -> Forall (le_clock c) old -> Forall (at_clock c') new ->
  StronglySorted not_before (new ++ old) /\ Forall (le_clock c') (new ++ old).
Proof.
  intros Hc Hs Ho Hn. induction Hn as [|e r He Hr IH]; simpl.
  - split; auto. eapply Forall_impl; [|exact Ho]. intros e. unfold le_clock. destruct (etime e); lia.
  - destruct IH as [I1 I2]. split.
    + constructor; auto. eapply Forall_impl; [|exact I2]. intros e2. unfold le_clock, not_before.
      destruct e; simpl in *; subst; destruct (etime e2); auto.
    + constructor; auto. unfold le_clock. destruct e; simpl in *; subst; auto; lia.
Qed.
Definition Inv (s : state) : Prop := IA s /\ Forall (entry_ok (prec s)) (log s) /\ LogInv s.
Lemma inv_adv s s' : adv_rel s s' -> Inv s -> Inv s'.
Proof.
  intros (H1 & H2 & H0 & n & H3 & H4 & H5) (I1 & I2 & I3 & I4). unfold Inv, LogInv. rewrite H3, H2.
  split; [auto|]. split; [apply Forall_app; split; auto|]. eapply loginv_ext; eauto.
Qed.
Lemma clock_adv s s' : adv_rel s s' -> clock s <= clock s' /\ prec s' = prec s.
Proof. unfold adv_rel; tauto. Qed.

Lemma drain_adv n s : adv_rel s (drain n s). Proof. apply adv_of_same, st_drain. Qed.

Lemma run_inv n : forall s s' b, run n s = (s', b) -> clock s <= clock s' /\ prec s' = prec s /\ (Inv s -> Inv s').
Proof.
  induction n; intros s s' b H; simpl in H.
  - inv H. split; [lia|split; auto].
  - pose proof (drain_adv (S n) s) as Hd. simpl in Hd.
    set (s1 := match to_run s with [] => s | _ :: _ => drain n (subround s) end) in *.
    pose proof (clock_adv _ _ Hd) as (A & B).
    destruct (halted s1).
    { inv H. split; [auto|split; auto]. intros; eapply inv_adv; eauto. }
    destruct (advance s1) as [s2|] eqn:Ea.
    2:{ inv H. split; [auto|split; auto]. intros; eapply inv_adv; eauto. }
    pose proof (advance_rel _ _ Ea) as Ha. pose proof (clock_adv _ _ Ha) as (C & D).
    destruct (halted s2).
    { inv H. split; [lia|split; [congruence|]]. intros. eapply inv_adv; eauto. eapply inv_adv; eauto. }
    apply IHn in H. destruct H as (E & F & G).
    split; [lia|split; [congruence|]]. intros. apply G. eapply inv_adv; eauto. eapply inv_adv; eauto.
Qed.

Lemma init_actors_inv pr progs : forall p, Forall (ainv 0 pr) (init_actors p progs).
Proof.
  induction progs; simpl; intros; constructor; auto. unfold ainv, init_actor; simpl. repeat split; try lia. intros; discriminate.
Qed.
Lemma inv_init pr progs : Inv (init pr progs).
Proof.
  unfold Inv, IA, LogInv; simpl. split; [apply init_actors_inv|]. repeat split; constructor.
Qed.

(* ------------------------------------------------------------------------------------------- main theorems about whole runs *)
Theorem run_clock_monotone n pr progs s b : run n (init pr progs) = (s, b) -> 0 <= clock s /\ prec s = pr.
Proof. intros H. apply run_inv in H. simpl in H. tauto. Qed.

Theorem run_entries_ok n pr progs s b : run n (init pr progs) = (s, b) ->
  Forall (entry_ok pr) (log s) /\ StronglySorted not_before (log s) /\ Forall (le_clock (clock s)) (log s).
Proof.
  intros H. apply run_inv in H. destruct H as (_ & P & H). destruct (H (inv_init pr progs)) as (_ & H2 & H3 & H4).
  rewrite P in H2. auto.
Qed.

(* per-run monotonicity from an arbitrary state *)
Theorem run_monotone n s s' b : run n s = (s', b) -> clock s <= clock s'.
Proof. intros H. apply run_inv in H. tauto. Qed.
Theorem advance_monotone s s' : advance s = Some s' -> clock s <= clock s'.
Proof. intros H. apply advance_rel in H. destruct H; auto. Qed.
Theorem subround_same_clock s : clock (subround s) = clock s.
Proof. destruct (st_subround s); auto. Qed.

(* the clock stops at the earliest pending date: no timer / kill time / deadline / action end is ever jumped over *)
Theorem advance_stops_at_earliest s s' d :
  advance s = Some s' -> In d (all_dates s) -> stuck s' = false -> clock s' <= d.
Proof.
  unfold advance. destruct (negb (quiescent s)). { intros H; inv H. simpl. discriminate. }
  destruct (next_date s) as [m|] eqn:En.
  2:{ unfold next_date in En. intros _ Hd. destruct (all_dates s); [destruct Hd|].
      simpl in En. exfalso. clear Hd. revert En. generalize (omin None z). intros o.
      assert (G : forall l o, o <> None -> fold_left omin l o <> None).
      { induction l0; simpl; auto. intros. apply IHl0. destruct o0; simpl; discriminate. }
      apply G. simpl. discriminate. }
  destruct (m <? clock s). { intros H; inv H. simpl. discriminate. }
  intros H Hd _. apply next_date_min in En. destruct En as [En _]. specialize (En _ Hd). inv H.
  match goal with |- clock (if _ then ?a else ?b) <= _ => assert (clock b = m) end.
  { match goal with |- clock (close_batch (handle_ended (fire_timers ?x))) = _ => set (s3 := x) end.
    destruct (st_close_batch (handle_ended (fire_timers s3))) as (A & _).
    destruct (st_handle_ended (fire_timers s3)) as (B & _). destruct (st_fire_timers s3) as (C & _).
    rewrite A, B, C. reflexivity. }
  destruct (2 <=? _); simpl in *; lia.
Qed.

(* ------------------------------------------------------------------------------------------- C12: the timeout timer *)
Lemma get_actor_upd_same p f l a : get_actor p l = Some a -> a_pid (f a) = a_pid a -> get_actor p (upd_actor p f l) = Some (f a).
Proof.
  induction l; simpl; [discriminate|]. destruct (a_pid a0 =? p) eqn:E; intros H Hp.
  - inv H. simpl. rewrite Hp, E. auto.
  - simpl. rewrite E. auto.
Qed.
Definition act_finished (s : state) (h : Z) : bool :=
  match get_act h (acts s) with Some x => match h_st x with AFin _ => true | _ => false end | None => false end.
Theorem timeout_spec s p a h dl :
  get_actor p (actors s) = Some a -> a_st a = SBlocked (BWait h (Some dl)) -> dl <= clock s ->
  exists a', get_actor p (actors (fire_timeout s p)) = Some a' /\
    if act_finished s h then a_st a' = SBlocked (BWait h None)            (* finished right on time: no timeout *)
    else a_st a' = SReady 1 (seq s) /\ clock (fire_timeout s p) = clock s. (* TimeoutException at the deadline *)
Proof.
  intros G E Hd. unfold fire_timeout, act_finished. rewrite G, E. apply Z.leb_le in Hd. rewrite Hd.
  destruct (get_act h (acts s)) as [x|]; [destruct (h_st x)|]; eexists;
    (split; [simpl; apply get_actor_upd_same; [exact G|reflexivity]|]); simpl; auto.
Qed.
Theorem timeout_not_before s p a h dl :
  get_actor p (actors s) = Some a -> a_st a = SBlocked (BWait h (Some dl)) -> clock s < dl -> fire_timeout s p = s.
Proof. intros G E Hd. unfold fire_timeout. rewrite G, E. apply Z.leb_gt in Hd. rewrite Hd. auto. Qed.
Theorem waitany_timeout_spec s p a hs dl :
  get_actor p (actors s) = Some a -> a_st a = SBlocked (BWaitAny hs (Some dl)) -> dl <= clock s ->
  exists a', get_actor p (actors (fire_timeout s p)) = Some a' /\ a_st a' = SReady (-1) (seq s).
Proof.
  intros G E Hd. unfold fire_timeout. rewrite G, E. apply Z.leb_le in Hd. rewrite Hd.
  eexists; split; [simpl; apply get_actor_upd_same; [exact G|reflexivity]|]; auto.
Qed.
(* an exec pops exactly when its date is within the precision of the new clock, never later than its date *)
Theorem exec_pop_spec s m x dt : h_st x = ARun dt ->
  h_st (pop_act s m x) = if Z.abs (dt - m) <? prec s then AFin m else ARun dt.
Proof. intros E. unfold pop_act, due. rewrite E. destruct (Z.abs (dt - m) <? prec s); simpl; auto. Qed.

(* ------------------------------------------------------------------------------------------- C11: on_exit, suspension *)
Fixpoint exits (p clk : Z) (fl : bool) (cbs : list xcb) : list entry :=
  match cbs with [] => [] | XUser k :: r => EExit p k clk fl :: exits p clk fl r | XJoin _ :: r => exits p clk fl r end.
Lemma run_onexit_log p fl cbs : forall s, log (run_onexit p fl cbs s) = rev (exits p (clock s) fl cbs) ++ log s.
Proof.
  induction cbs as [|c r IH]; simpl; intros; auto. destruct c; rewrite IH; simpl; auto.
  rewrite <- app_assoc. auto.
Qed.
(* when an actor ends (whatever the reason: [fl]), its callbacks run once each, most recently registered first, at the
   current date, then the termination is signalled; afterwards it has no callback left *)
Theorem terminate_spec s p a fl :
  get_actor p (actors s) = Some a ->
  log (terminate s p fl) = ETerm p (clock s) :: rev (exits p (clock s) fl (a_onexit a)) ++ log s.
Proof. intros G. unfold terminate. rewrite G. simpl. rewrite run_onexit_log. auto. Qed.
Theorem bury_spec a : a_st (bury a) = SDead /\ a_onexit (bury a) = [] /\ a_daemon (bury a) = false /\ a_kill (bury a) = None.
Proof. repeat split. Qed.
(* a suspended actor that is scheduled does not execute anything: it is parked until resume() *)
Theorem suspended_no_progress s p a r n :
  get_actor p (actors s) = Some a -> a_st a = SReady r n -> a_susp a = true ->
  log (run_actor s p) = log s /\ clock (run_actor s p) = clock s /\
  exists a', get_actor p (actors (run_actor s p)) = Some a' /\ a_st a' = SParked r /\ a_prog a' = a_prog a /\ a_idx a' = a_idx a.
Proof.
  intros G E Hs. unfold run_actor. rewrite G, E, Hs. simpl. repeat split.
  eexists; split; [apply get_actor_upd_same; [exact G|reflexivity]|]. simpl. auto.
Qed.
(* join: the callback left in the target finishes the joiner's sleep at the date of the termination *)
Theorem join_callback_spec s p j a tg dt fl r :
  get_actor j (actors s) = Some a -> a_st a = SBlocked (BJoin tg dt) -> tg = p ->
  exists a', get_actor j (actors (run_onexit p fl (XJoin j :: r) s)) = get_actor j (actors (run_onexit p fl r
               (mod_actor s j (fun _ => a')))) /\ a_st a' = SBlocked BFin.
Proof.
  intros G E ->. simpl. exists (set_st (taint a) (SBlocked BFin)). split; auto.
  f_equal. f_equal. f_equal. unfold mod_actor. f_equal. clear - G E.
  induction (actors s); simpl in *; auto. destruct (a_pid a0 =? j).
  - inv G. rewrite E. rewrite Z.eqb_refl. auto.
  - f_equal. auto.
Qed.
