(** Engine.v — executable model of the S4U engine loop for C03 / C11 / C12 (no proofs here).
    Time is an integer number of ticks (any common denominator of the durations of a program; the harness uses
    2^-k s), [prec] = precision/timing in ticks (> 0).
    Anchors: EngineImpl::run/solve/handle_ended_actions, Timer::execute_all, ActorImpl::{exit,kill,kill_all,
    set_kill_time,yield,daemonize,suspend,resume,join,sleep,cleanup_from_self}, ActivityImpl::{wait_for,wait_any_for},
    SleepImpl::finish, ExecImpl::finish, CpuCas01::sleep, CpuModel::update_actions_state_lazy, s4u::Actor / this_actor.
    Representation choice: the action heap, the timer heap, the finished-action set and actors_to_run_ are not separate
    containers; they are *derived* from the status of each actor / activity (an actor blocked in a sleep carries the
    date of its sleep action, a timed wait carries the date of its timer, a runnable actor carries its position in
    actors_to_run_). Ties inside one batch of wake-ups are processed in pid / activity-id order and flagged [amb]
    (the implementation uses boost heaps whose tie order is not modelled). *)
From SGV Require Import Base.Tactics.
Local Open Scope Z_scope.

Inductive op :=
| OSleep (d : Z)                 (* this_actor::sleep_for *)
| OExecAsync (h d : Z)           (* Exec::init()->set_flops_amount->set_host(X_h)->start(); natural duration d *)
| OWaitFor (h t : Z)             (* Exec::wait_for(t); t < 0 : wait() *)
| OWaitAny (t : Z) (hs : list Z) (* ActivitySet::wait_any_for *)
| OJoin (a t : Z)                (* Actor::join(t); t = -1 : join() *)
| OKill (a : Z) | OKillAll
| OSetKillTime (t : Z)           (* Actor::self()->set_kill_time(t), absolute date *)
| ODaemonize | OOnExit (k : Z)
| OSuspend (a : Z) | OResume (a : Z)
| OExit | OYield
| OBad.                          (* rejected by the interpreter: executes this_actor::yield(), result -9 *)

Inductive block :=
| BSleep (dt : Z)                      (* sleep action in the heap, ends at dt *)
| BFin                                 (* its sleep action is FINISHED (popped or finished by the joined actor's on_exit), not yet handled *)
| BJoin (tg : Z) (dt : option Z)       (* join: sleep action (None = IGNORED, no max duration) + on_exit callback of tg *)
| BWait (h : Z) (dl : option Z)        (* registered on activity h, timeout timer at dl *)
| BWaitAny (hs : list Z) (dl : option Z)
| BSelf.                               (* suspended itself: simcall not answered *)

Inductive status :=
| SStart (n : Z)                 (* in actors_to_run_ at position n, code not started *)
| SReady (r n : Z)               (* simcall answered with result r, in actors_to_run_ at position n *)
| SCalled                        (* ran in this sub-round, simcall issued and not yet handled *)
| SBlocked (b : block)
| SParked (r : Z)                (* answered (or sleep over) while suspended: waits for resume() *)
| SDying (failed : bool) (n : Z) (* wannadie, scheduled *)
| SDead.

Inductive xcb := XUser (k : Z) | XJoin (j : Z).

Record actor := mkA {
  a_pid : Z; a_cur : op; a_prog : list op; a_idx : Z; a_st : status; a_susp : bool; a_daemon : bool;
  a_onexit : list xcb;     (* most recently registered first *)
  a_kill : option Z;       (* kill timer *)
  a_kset : bool;           (* set_kill_time already used (the interpreter allows it once) *)
  a_t0 : Z;                (* clock when the current operation was called *)
  a_dist : bool }.         (* ghost: a suspension hit the actor during the current operation *)

Inductive ast := ARun (dt : Z) | ASusp (rem : Z) | AFin (t : Z) | ADone (t : Z) | ACanc.
Record act := mkH { h_id : Z; h_owner : Z; h_st : ast; h_start : Z; h_dur : Z; h_dist : bool }.

Inductive entry :=
| ERet (p i : Z) (o : op) (t0 t1 r : Z) (dist : bool)
| EExit (p k t : Z) (failed : bool)
| EAct (h start fin : Z)
| ETerm (p t : Z).

Record state := mkS {
  clock : Z; prec : Z; seq : Z; actors : list actor; acts : list act; log : list entry (* newest first *);
  batch : Z; amb : bool; race : bool; stuck : bool }.

(* ---------------------------------------------------------------------------------------------- setters *)
Definition set_st (a : actor) (st : status) : actor :=
  mkA (a_pid a) (a_cur a) (a_prog a) (a_idx a) st (a_susp a) (a_daemon a) (a_onexit a) (a_kill a) (a_kset a) (a_t0 a) (a_dist a).
Definition set_susp (a : actor) (b d : bool) : actor :=
  mkA (a_pid a) (a_cur a) (a_prog a) (a_idx a) (a_st a) b (a_daemon a) (a_onexit a) (a_kill a) (a_kset a) (a_t0 a) d.
Definition set_daemon (a : actor) (b : bool) : actor :=
  mkA (a_pid a) (a_cur a) (a_prog a) (a_idx a) (a_st a) (a_susp a) b (a_onexit a) (a_kill a) (a_kset a) (a_t0 a) (a_dist a).
Definition set_onexit (a : actor) (l : list xcb) : actor :=
  mkA (a_pid a) (a_cur a) (a_prog a) (a_idx a) (a_st a) (a_susp a) (a_daemon a) l (a_kill a) (a_kset a) (a_t0 a) (a_dist a).
Definition set_kill (a : actor) (k : option Z) (ks : bool) : actor :=
  mkA (a_pid a) (a_cur a) (a_prog a) (a_idx a) (a_st a) (a_susp a) (a_daemon a) (a_onexit a) k ks (a_t0 a) (a_dist a).
Definition start_op (a : actor) (o : op) (rest : list op) (i clk : Z) : actor :=
  mkA (a_pid a) o rest i SCalled (a_susp a) (a_daemon a) (a_onexit a) (a_kill a) (a_kset a) clk false.
Definition set_hst (x : act) (st : ast) (d : bool) : act := mkH (h_id x) (h_owner x) st (h_start x) (h_dur x) d.

Definition set_actors (s : state) (l : list actor) : state :=
  mkS (clock s) (prec s) (seq s) l (acts s) (log s) (batch s) (amb s) (race s) (stuck s).
Definition set_acts (s : state) (l : list act) : state :=
  mkS (clock s) (prec s) (seq s) (actors s) l (log s) (batch s) (amb s) (race s) (stuck s).
Definition add_log (s : state) (e : entry) : state :=
  mkS (clock s) (prec s) (seq s) (actors s) (acts s) (e :: log s) (batch s) (amb s) (race s) (stuck s).
Definition set_race (s : state) : state :=
  mkS (clock s) (prec s) (seq s) (actors s) (acts s) (log s) (batch s) (amb s) true (stuck s).
Definition set_stuck (s : state) : state :=
  mkS (clock s) (prec s) (seq s) (actors s) (acts s) (log s) (batch s) (amb s) (race s) true.
Definition set_clock (s : state) (c : Z) : state :=
  mkS c (prec s) (seq s) (actors s) (acts s) (log s) (batch s) (amb s) (race s) (stuck s).
Definition reset_batch (s : state) : state :=
  mkS (clock s) (prec s) (seq s) (actors s) (acts s) (log s) 0 (amb s) (race s) (stuck s).
Definition close_batch (s : state) : state :=
  mkS (clock s) (prec s) (seq s) (actors s) (acts s) (log s) 0 (amb s || (2 <=? batch s)) (race s) (stuck s).
(* one more actor appended to actors_to_run_: returns its position *)
Definition bump (s : state) : state :=
  mkS (clock s) (prec s) (seq s + 1) (actors s) (acts s) (log s) (batch s + 1) (amb s) (race s) (stuck s).

Fixpoint upd_actor (p : Z) (f : actor -> actor) (l : list actor) : list actor :=
  match l with [] => [] | a :: r => (if a_pid a =? p then f a else a) :: upd_actor p f r end.
Fixpoint get_actor (p : Z) (l : list actor) : option actor :=
  match l with [] => None | a :: r => if a_pid a =? p then Some a else get_actor p r end.
Fixpoint upd_act (h : Z) (f : act -> act) (l : list act) : list act :=
  match l with [] => [] | x :: r => (if h_id x =? h then f x else x) :: upd_act h f r end.
Fixpoint get_act (h : Z) (l : list act) : option act :=
  match l with [] => None | x :: r => if h_id x =? h then Some x else get_act h r end.
Definition mod_actor (s : state) (p : Z) (f : actor -> actor) : state := set_actors s (upd_actor p f (actors s)).
Definition mod_act (s : state) (h : Z) (f : act -> act) : state := set_acts s (upd_act h f (acts s)).

Definition clamp (pr d : Z) : Z := if 0 <? d then Z.max d pr else d.   (* CpuCas01::sleep *)

Definition wannadie (a : actor) : bool := match a_st a with SDying _ _ | SDead => true | _ => false end.
Definition runnable_pos (a : actor) : option Z :=
  match a_st a with SStart n | SReady _ n | SDying _ n => Some n | _ => None end.

(* simcall_answer(): the actor is appended to actors_to_run_ *)
Definition answer (s : state) (p r : Z) : state :=
  bump (mod_actor s p (fun a => set_st a (SReady r (seq s)))).

(* ---------------------------------------------------------------------------------------------- activities *)
(* ActivityImpl::cancel on every activity of a dying / ending actor (activities_) *)
Definition cancel_owned (p : Z) (l : list act) : list act :=
  map (fun x => if h_owner x =? p then match h_st x with ADone _ => x | _ => set_hst x ACanc (h_dist x) end else x) l.

(* ActorImpl::exit(): wannadie, not suspended any more, blocking synchros and activities cancelled; the kill timer and
   the timeout timer disappear with the status (they are removed in exit()/cleanup_from_self at the same date).
   add_actor_to_run_list(): keeps its position when already scheduled. *)
Definition do_exit (s : state) (p : Z) : state :=
  match get_actor p (actors s) with
  | None => s
  | Some a =>
    let s1 := set_acts s (cancel_owned p (acts s)) in
    match runnable_pos a with
    | Some n => mod_actor s1 p (fun a => set_kill (set_susp (set_st a (SDying true n)) false (a_dist a)) None (a_kset a))
    | None => bump (mod_actor s1 p (fun a => set_kill (set_susp (set_st a (SDying true (seq s))) false (a_dist a)) None (a_kset a)))
    end
  end.
(* ActorImpl::kill: ignored on an actor that is already dying *)
Definition do_kill (s : state) (p : Z) : state :=
  match get_actor p (actors s) with
  | Some a => if wannadie a then s else do_exit s p
  | None => s
  end.
