(** Engine.v — executable model of the S4U engine loop for C03 / C11 / C12 (no proofs here).
    Time is an integer number of ticks (any common denominator of the durations of a program; the harness uses
    2^-k s), [prec] = precision/timing in ticks (> 0).
    Anchors: EngineImpl::run/solve/handle_ended_actions, Timer::execute_all, ActorImpl::{exit,kill,kill_all,
    set_kill_time,yield,daemonize,suspend,resume,join,sleep,cleanup_from_self}, ActivityImpl::{wait_for,wait_any_for},
    SleepImpl::finish, ExecImpl::finish, CpuCas01::sleep, CpuModel::update_actions_state_lazy, s4u::Actor / this_actor.
    Representation choice: the action heap, the timer heap, the finished-action set and actors_to_run_ are not separate
    containers; they are *derived* from the status of each actor / activity (an actor blocked in a sleep carries the
    date of its sleep action, a timed wait carries the date of its timer, a runnable actor carries its position in
    actors_to_run_). Ties inside one batch of wake-ups are processed in pid / activity-id order and flagged [amb]
    (the implementation uses boost heaps whose tie order is not modelled). *)
From SGV Require Import Base.Tactics.
Local Open Scope Z_scope.

Inductive op :=
| OSleep (d : Z)                 (* this_actor::sleep_for *)
| OExecAsync (h d : Z)           (* Exec::init()->set_flops_amount->set_host(X_h)->start(); natural duration d *)
| OWaitFor (h t : Z)             (* Exec::wait_for(t); t < 0 : wait() *)
| OWaitAny (t : Z) (hs : list Z) (* ActivitySet::wait_any_for *)
| OJoin (a t : Z)                (* Actor::join(t); t = -1 : join() *)
| OKill (a : Z) | OKillAll
| OSetKillTime (t : Z)           (* Actor::self()->set_kill_time(t), absolute date *)
| ODaemonize | OOnExit (k : Z)
| OSuspend (a : Z) | OResume (a : Z)
| OExit | OYield
| OBad.                          (* rejected by the interpreter: executes this_actor::yield(), result -9 *)

Inductive block :=
| BSleep (dt : Z)                      (* sleep action in the heap, ends at dt *)
| BFin                                 (* its sleep action is FINISHED (popped or finished by the joined actor's on_exit), not yet handled *)
| BJoin (tg : Z) (dt : option Z)       (* join: sleep action (None = IGNORED, no max duration) + on_exit callback of tg *)
| BWait (h : Z) (dl : option Z)        (* registered on activity h, timeout timer at dl *)
| BWaitAny (hs : list Z) (dl : option Z)
| BSelf.                               (* suspended itself: simcall not answered *)

Inductive status :=
| SStart (n : Z)                 (* in actors_to_run_ at position n, code not started *)
| SReady (r n : Z)               (* simcall answered with result r, in actors_to_run_ at position n *)
| SCalled                        (* ran in this sub-round, simcall issued and not yet handled *)
| SBlocked (b : block)
| SParked (r : Z)                (* answered (or sleep over) while suspended: waits for resume() *)
| SDying (failed : bool) (n : Z) (* wannadie, scheduled *)
| SDead.

Inductive xcb := XUser (k : Z) | XJoin (j : Z).

Record actor := mkA {
  a_pid : Z; a_cur : op; a_prog : list op; a_idx : Z; a_st : status; a_susp : bool; a_daemon : bool;
  a_onexit : list xcb;     (* most recently registered first *)
  a_kill : option Z;       (* kill timer *)
  a_kset : bool;           (* set_kill_time already used (the interpreter allows it once) *)
  a_t0 : Z;                (* clock when the current operation was called *)
  a_dist : bool }.         (* ghost: a suspension hit the actor during the current operation *)

Inductive ast := ARun (dt : Z) | ASusp (rem : Z) | AFin (t : Z) | ADone (t : Z) | ACanc.
Record act := mkH { h_id : Z; h_owner : Z; h_st : ast; h_start : Z; h_dur : Z; h_dist : bool }.

Inductive entry :=
| ERet (p i : Z) (o : op) (t0 t1 r : Z) (dist : bool)
| EExit (p k t : Z) (failed : bool)
| EAct (h start fin : Z)
| ETerm (p t : Z).

Record state := mkS {
  clock : Z; prec : Z; seq : Z; actors : list actor; acts : list act; log : list entry (* newest first *);
  batch : Z; amb : bool; race : bool; stuck : bool }.

(* ---------------------------------------------------------------------------------------------- setters *)
Definition set_st (a : actor) (st : status) : actor :=
  mkA (a_pid a) (a_cur a) (a_prog a) (a_idx a) st (a_susp a) (a_daemon a) (a_onexit a) (a_kill a) (a_kset a) (a_t0 a) (a_dist a).
Definition set_susp (a : actor) (b d : bool) : actor :=
  mkA (a_pid a) (a_cur a) (a_prog a) (a_idx a) (a_st a) b (a_daemon a) (a_onexit a) (a_kill a) (a_kset a) (a_t0 a) d.
Definition set_daemon (a : actor) (b : bool) : actor :=
  mkA (a_pid a) (a_cur a) (a_prog a) (a_idx a) (a_st a) (a_susp a) b (a_onexit a) (a_kill a) (a_kset a) (a_t0 a) (a_dist a).
Definition set_onexit (a : actor) (l : list xcb) : actor :=
  mkA (a_pid a) (a_cur a) (a_prog a) (a_idx a) (a_st a) (a_susp a) (a_daemon a) l (a_kill a) (a_kset a) (a_t0 a) (a_dist a).
Definition set_kill (a : actor) (k : option Z) (ks : bool) : actor :=
  mkA (a_pid a) (a_cur a) (a_prog a) (a_idx a) (a_st a) (a_susp a) (a_daemon a) (a_onexit a) k ks (a_t0 a) (a_dist a).
Definition start_op (a : actor) (o : op) (rest : list op) (i clk : Z) : actor :=
  mkA (a_pid a) o rest i SCalled (a_susp a) (a_daemon a) (a_onexit a) (a_kill a) (a_kset a) clk false.
Definition set_hst (x : act) (st : ast) (d : bool) : act := mkH (h_id x) (h_owner x) st (h_start x) (h_dur x) d.

Definition set_actors (s : state) (l : list actor) : state :=
  mkS (clock s) (prec s) (seq s) l (acts s) (log s) (batch s) (amb s) (race s) (stuck s).
Definition set_acts (s : state) (l : list act) : state :=
  mkS (clock s) (prec s) (seq s) (actors s) l (log s) (batch s) (amb s) (race s) (stuck s).
Definition add_log (s : state) (e : entry) : state :=
  mkS (clock s) (prec s) (seq s) (actors s) (acts s) (e :: log s) (batch s) (amb s) (race s) (stuck s).
Definition set_race (s : state) : state :=
  mkS (clock s) (prec s) (seq s) (actors s) (acts s) (log s) (batch s) (amb s) true (stuck s).
Definition set_stuck (s : state) : state :=
  mkS (clock s) (prec s) (seq s) (actors s) (acts s) (log s) (batch s) (amb s) (race s) true.
Definition set_clock (s : state) (c : Z) : state :=
  mkS c (prec s) (seq s) (actors s) (acts s) (log s) (batch s) (amb s) (race s) (stuck s).
Definition reset_batch (s : state) : state :=
  mkS (clock s) (prec s) (seq s) (actors s) (acts s) (log s) 0 (amb s) (race s) (stuck s).
Definition close_batch (s : state) : state :=
  mkS (clock s) (prec s) (seq s) (actors s) (acts s) (log s) 0 (amb s || (2 <=? batch s)) (race s) (stuck s).
(* one more actor appended to actors_to_run_: returns its position *)
Definition bump (s : state) : state :=
  mkS (clock s) (prec s) (seq s + 1) (actors s) (acts s) (log s) (batch s + 1) (amb s) (race s) (stuck s).

Fixpoint upd_actor (p : Z) (f : actor -> actor) (l : list actor) : list actor :=
  match l with [] => [] | a :: r => if a_pid a =? p then f a :: r else a :: upd_actor p f r end.
Fixpoint get_actor (p : Z) (l : list actor) : option actor :=
  match l with [] => None | a :: r => if a_pid a =? p then Some a else get_actor p r end.
Fixpoint upd_act (h : Z) (f : act -> act) (l : list act) : list act :=
  match l with [] => [] | x :: r => if h_id x =? h then f x :: r else x :: upd_act h f r end.
Fixpoint get_act (h : Z) (l : list act) : option act :=
  match l with [] => None | x :: r => if h_id x =? h then Some x else get_act h r end.
Definition mod_actor (s : state) (p : Z) (f : actor -> actor) : state := set_actors s (upd_actor p f (actors s)).
Definition mod_act (s : state) (h : Z) (f : act -> act) : state := set_acts s (upd_act h f (acts s)).

Definition clamp (pr d : Z) : Z := if 0 <? d then Z.max d pr else d.   (* CpuCas01::sleep *)

Definition wannadie (a : actor) : bool := match a_st a with SDying _ _ | SDead => true | _ => false end.
Definition runnable_pos (a : actor) : option Z :=
  match a_st a with SStart n | SReady _ n | SDying _ n => Some n | _ => None end.

(* simcall_answer(): the actor is appended to actors_to_run_ *)
Definition is_sleep (o : op) : bool := match o with OSleep _ => true | _ => false end.
(* ghost: a sleeping actor that is woken by anything else than the end of its own sleep action counts as disturbed
   (this never happens: sleeps end through [end_sleep] only) *)
Definition taint (a : actor) : actor := set_susp a (a_susp a) (a_dist a || is_sleep (a_cur a)).
Definition answer (s : state) (p r : Z) : state :=
  bump (mod_actor s p (fun a => set_st (taint a) (SReady r (seq s)))).
Definition wake (s : state) (p r : Z) : state :=      (* SleepImpl::finish answering its own simcall *)
  bump (mod_actor s p (fun a => set_st a (SReady r (seq s)))).

(* ---------------------------------------------------------------------------------------------- activities *)
(* ActivityImpl::cancel on every activity of a dying / ending actor (activities_) *)
Definition cancel_owned (p : Z) (l : list act) : list act :=
  map (fun x => if h_owner x =? p then match h_st x with ADone _ => x | _ => set_hst x ACanc (h_dist x) end else x) l.

(* ActorImpl::exit(): wannadie, not suspended any more, blocking synchros and activities cancelled; the kill timer and
   the timeout timer disappear with the status (they are removed in exit()/cleanup_from_self at the same date).
   add_actor_to_run_list(): keeps its position when already scheduled. *)
Definition do_exit (s : state) (p : Z) : state :=
  match get_actor p (actors s) with
  | None => s
  | Some a =>
    let s1 := set_acts s (cancel_owned p (acts s)) in
    match runnable_pos a with
    | Some n => mod_actor s1 p (fun a => set_kill (set_susp (set_st a (SDying true n)) false (a_dist a)) None (a_kset a))
    | None => bump (mod_actor s1 p (fun a => set_kill (set_susp (set_st a (SDying true (seq s))) false (a_dist a)) None (a_kset a)))
    end
  end.
(* ActorImpl::kill: ignored on an actor that is already dying *)
Definition do_kill (s : state) (p : Z) : state :=
  match get_actor p (actors s) with
  | Some a => if wannadie a then s else do_exit s p
  | None => s
  end.

(* ---------------------------------------------------------------------------------------------- run phase *)
(* ActorImpl::cleanup_from_self: on_exit callbacks in reverse registration order (the join callback finishes the
   joiner's sleep action), then cleanup_from_kernel (actor_list_, daemons_) *)
Fixpoint run_onexit (p : Z) (failed : bool) (cbs : list xcb) (s : state) : state :=
  match cbs with
  | [] => s
  | XUser k :: r => run_onexit p failed r (add_log s (EExit p k (clock s) failed))
  | XJoin j :: r =>
    run_onexit p failed r
      (mod_actor s j (fun a => match a_st a with
                               | SBlocked (BJoin tg _) => if tg =? p then set_st (taint a) (SBlocked BFin) else a
                               | _ => a end))
  end.

Definition bury (a : actor) : actor :=
  mkA (a_pid a) (a_cur a) (a_prog a) (a_idx a) SDead false false [] None (a_kset a) (a_t0 a) (a_dist a).

Definition terminate (s : state) (p : Z) (failed : bool) : state :=
  match get_actor p (actors s) with
  | None => s
  | Some a =>
    let s1 := run_onexit p failed (a_onexit a) s in
    let s2 := set_acts s1 (cancel_owned p (acts s1)) in
    add_log (mod_actor s2 p bury) (ETerm p (clock s))
  end.

(* user code between two simcalls: sleep_for(d <= 0) returns without any simcall *)
Fixpoint start_ops (p : Z) (prog : list op) (i : Z) (s : state) : state :=
  match prog with
  | [] => terminate s p false
  | OSleep d :: rest =>
    if d <=? 0 then start_ops p rest (i + 1) (add_log s (ERet p i (OSleep d) (clock s) (clock s) 0 false))
    else mod_actor s p (fun a => start_op a (OSleep d) rest i (clock s))
  | o :: rest => mod_actor s p (fun a => start_op a o rest i (clock s))
  end.

Definition act_entry (s : state) (o : op) (r : Z) : state :=
  match o with
  | OWaitFor h _ =>
    if r =? 0 then match get_act h (acts s) with
                   | Some x => match h_st x with ADone t => add_log s (EAct h (h_start x) t) | _ => s end
                   | None => s end
    else s
  | _ => s
  end.

(* the context of actor p is resumed by run_all_actors (ActorImpl::yield returns) *)
Definition run_actor (s : state) (p : Z) : state :=
  match get_actor p (actors s) with
  | None => s
  | Some a =>
    match a_st a with
    | SDying f _ => terminate s p f
    | SStart _ => start_ops p (a_prog a) 0 s
    | SReady r _ =>
      if a_susp a then mod_actor s p (fun a => set_susp (set_st a (SParked r)) true true)
      else let s1 := act_entry s (a_cur a) r in
           start_ops p (a_prog a) (a_idx a + 1) (add_log s1 (ERet p (a_idx a) (a_cur a) (a_t0 a) (clock s) r (a_dist a)))
    | _ => s
    end
  end.

(* ---------------------------------------------------------------------------------------------- simcalls *)
Definition pids (s : state) : list Z := map a_pid (actors s).

Definition do_suspend (s : state) (tg : Z) : state :=
  match get_actor tg (actors s) with
  | None => s
  | Some a =>
    if wannadie a || a_susp a then s
    else set_acts (mod_actor s tg (fun a => set_susp a true true))
           (map (fun x => if h_owner x =? tg then match h_st x with ARun dt => set_hst x (ASusp (dt - clock s)) true | _ => x end else x) (acts s))
  end.

Definition do_resume (s : state) (tg : Z) : state :=
  match get_actor tg (actors s) with
  | None => s
  | Some a =>
    if wannadie a || negb (a_susp a) then s
    else
      let s1 := set_acts s (map (fun x => if h_owner x =? tg then match h_st x with ASusp r => set_hst x (ARun (clock s + r)) true | _ => x end else x) (acts s)) in
      match a_st a with
      | SParked r => bump (mod_actor s1 tg (fun a => set_susp (set_st a (SReady r (seq s))) false true))
      | SBlocked BSelf => bump (mod_actor s1 tg (fun a => set_susp (set_st a (SReady 0 (seq s))) false true))
      | SBlocked _ => mod_actor s1 tg (fun a => set_susp a false true)
      | _ => set_race s     (* resume() reschedules an actor that is scheduled / has an unhandled simcall *)
      end
  end.

Definition owned_ok (s : state) (p h : Z) : bool :=
  match get_act h (acts s) with Some x => h_owner x =? p | None => false end.
Definition act_over (s : state) (h : Z) : bool :=
  match get_act h (acts s) with Some x => match h_st x with ADone _ | ACanc => true | _ => false end | None => false end.
Definition deadline (s : state) (t : Z) : option Z := if t <? 0 then None else Some (clock s + t).

Definition handle_simcall (s : state) (p : Z) : state :=
  match get_actor p (actors s) with
  | None => s
  | Some a =>
    match a_st a with
    | SCalled =>
      match a_cur a with
      | OSleep d => mod_actor s p (fun a => set_st a (SBlocked (BSleep (clock s + clamp (prec s) d))))
      | OExecAsync h d =>
        match get_act h (acts s) with
        | Some _ => answer s p (-9)
        | None => if d <? 0 then answer s p (-9)
                  else answer (set_acts s (acts s ++ [mkH h p (ARun (clock s + d)) (clock s) d false])) p 0
        end
      | OWaitFor h t =>
        if owned_ok s p h then
          match get_act h (acts s) with
          | Some x => match h_st x with
                      | ADone _ => answer s p 0
                      | ACanc => answer s p 2
                      | _ => mod_actor s p (fun a => set_st a (SBlocked (BWait h (deadline s t))))
                      end
          | None => answer s p (-9)
          end
        else answer s p (-9)
      | OWaitAny t hs =>
        if forallb (owned_ok s p) hs then
          match find (act_over s) hs with
          | Some h => answer s p h
          | None => mod_actor s p (fun a => set_st a (SBlocked (BWaitAny hs (deadline s t))))
          end
        else answer s p (-9)
      | OJoin tg t =>
        match get_actor tg (actors s) with
        | None => answer s p (-9)
        | Some b =>
          if (t <? 0) && negb (t =? -1) then answer s p (-9)
          else if wannadie b then answer s p 0
          else let s1 := mod_actor s tg (fun b => set_onexit b (XJoin p :: a_onexit b)) in
               mod_actor s1 p (fun a => set_st a (SBlocked (BJoin tg (if t =? -1 then None else Some (clock s + clamp (prec s) t)))))
        end
      | OKill tg =>
        match get_actor tg (actors s) with
        | None => answer s p (-9)
        | Some _ => let s1 := do_kill s tg in if tg =? p then s1 else answer s1 p 0
        end
      | OKillAll => answer (fold_left (fun s q => if q =? p then s else do_kill s q) (pids s) s) p 0
      | OSetKillTime t =>
        if a_kset a then answer s p (-9)
        else answer (mod_actor s p (fun a => set_kill a (if t <=? clock s then None else Some t) true)) p 0
      | ODaemonize => answer (mod_actor s p (fun a => set_daemon a true)) p 0
      | OOnExit k => answer (mod_actor s p (fun a => set_onexit a (XUser k :: a_onexit a))) p 0
      | OSuspend tg =>
        match get_actor tg (actors s) with
        | None => answer s p (-9)
        | Some _ => let s1 := do_suspend s tg in
                    if tg =? p then mod_actor s1 p (fun a => set_st a (SBlocked BSelf)) else answer s1 p 0
        end
      | OResume tg =>
        match get_actor tg (actors s) with
        | None => answer s p (-9)
        | Some _ => answer (do_resume s tg) p 0
        end
      | OExit => do_exit s p
      | OYield => answer s p 0
      | OBad => answer s p (-9)
      end
    | _ => s    (* simcall_handle returns at once on an actor that wannadie *)
    end
  end.

(* ---------------------------------------------------------------------------------------------- ended actions *)
Definition notify_owner (s : state) (x : act) : state :=
  match get_actor (h_owner x) (actors s) with
  | Some a =>
    match a_st a with
    | SBlocked (BWait h _) => if h =? h_id x then answer s (a_pid a) 0 else s
    | SBlocked (BWaitAny hs _) => if existsb (Z.eqb (h_id x)) hs then answer s (a_pid a) (h_id x) else s
    | _ => s
    end
  | None => s
  end.
Definition end_act (s : state) (h : Z) : state :=
  match get_act h (acts s) with
  | Some x => match h_st x with
              | AFin t => notify_owner (mod_act s h (fun x => set_hst x (ADone t) (h_dist x))) x
              | _ => s end
  | None => s
  end.
(* SleepImpl::finish *)
Definition end_sleep (s : state) (p : Z) : state :=
  match get_actor p (actors s) with
  | Some a => match a_st a with
              | SBlocked BFin => if a_susp a then mod_actor s p (fun a => set_susp (set_st a (SParked 0)) true true)
                                 else wake s p 0
              | _ => s end
  | None => s
  end.
Definition handle_ended (s : state) : state :=
  fold_left end_sleep (pids s) (fold_left end_act (map h_id (acts s)) s).

Definition live (a : actor) : bool := match a_st a with SDead => false | _ => true end.
Definition daemon_sweep (s : state) : state :=
  let l := filter live (actors s) in
  if forallb a_daemon l then fold_left do_kill (map a_pid l) s else s.

(* ---------------------------------------------------------------------------------------------- sub-round *)
Fixpoint insert_pos (x : Z * Z) (l : list (Z * Z)) : list (Z * Z) :=
  match l with [] => [x] | y :: r => if fst x <? fst y then x :: l else y :: insert_pos x r end.
Definition to_run (s : state) : list Z :=
  map snd (fold_right insert_pos [] (flat_map (fun a => match runnable_pos a with Some n => [(n, a_pid a)] | None => [] end) (actors s))).

Definition subround (s : state) : state :=
  let l := to_run s in
  let s1 := fold_left run_actor l s in
  let s2 := reset_batch (fold_left handle_simcall l s1) in
  daemon_sweep (close_batch (handle_ended s2)).

Fixpoint drain (fuel : nat) (s : state) : state :=
  match fuel with
  | O => s
  | S f => match to_run s with [] => s | _ => drain f (subround s) end
  end.

(* ---------------------------------------------------------------------------------------------- time *)
Definition omin (a : option Z) (b : Z) : option Z := match a with None => Some b | Some x => Some (Z.min x b) end.
Definition actor_dates (a : actor) : list Z :=
  (match a_kill a with Some k => [k] | None => [] end) ++
  match a_st a with
  | SBlocked (BSleep dt) => [dt]
  | SBlocked (BJoin _ (Some dt)) => [dt]
  | SBlocked (BWait _ (Some dl)) => [dl]
  | SBlocked (BWaitAny _ (Some dl)) => [dl]
  | _ => []
  end.
Definition act_dates (x : act) : list Z := match h_st x with ARun dt => [dt] | _ => [] end.
Definition all_dates (s : state) : list Z := flat_map actor_dates (actors s) ++ flat_map act_dates (acts s).
Definition next_date (s : state) : option Z := fold_left omin (all_dates s) None.

Definition due (s : state) (m dt : Z) : bool := Z.abs (dt - m) <? prec s.   (* double_equals(top_date, now, precision) *)
Definition pop_actor (s : state) (m : Z) (a : actor) : actor :=
  match a_st a with
  | SBlocked (BSleep dt) => if due s m dt then set_st a (SBlocked BFin) else a
  | SBlocked (BJoin _ (Some dt)) => if due s m dt then set_st (taint a) (SBlocked BFin) else a
  | _ => a
  end.
Definition pop_act (s : state) (m : Z) (x : act) : act :=
  match h_st x with ARun dt => if due s m dt then set_hst x (AFin m) (h_dist x) else x | _ => x end.
(* between two scheduling rounds every actor is blocked on something, parked or dead, and no ended action is unhandled *)
Definition quiet_actor (a : actor) : bool :=
  match a_st a with SBlocked BFin => false | SBlocked _ | SParked _ | SDead => true | _ => false end.
Definition quiet_act (x : act) : bool := match h_st x with AFin _ => false | _ => true end.
Definition quiescent (s : state) : bool := forallb quiet_actor (actors s) && forallb quiet_act (acts s).

Definition fire_timer (s : state) (p : Z) : state :=
  match get_actor p (actors s) with
  | None => s
  | Some a =>
    match a_kill a with
    | Some kt => if kt <=? clock s then do_exit s p else s
    | None => s
    end
  end.
Definition fire_timeout (s : state) (p : Z) : state :=
  match get_actor p (actors s) with
  | None => s
  | Some a =>
    match a_st a with
    | SBlocked (BWait h (Some dl)) =>
      if dl <=? clock s then
        match get_act h (acts s) with
        | Some x => match h_st x with
                    | AFin _ => mod_actor s p (fun a => set_st a (SBlocked (BWait h None)))  (* finished right on time *)
                    | _ => answer s p 1 end
        | None => answer s p 1
        end
      else s
    | SBlocked (BWaitAny hs (Some dl)) => if dl <=? clock s then answer s p (-1) else s
    | _ => s
    end
  end.
Definition fire_timers (s : state) : state :=
  fold_left (fun s p => fire_timeout (fire_timer s p) p) (pids s) s.

(* solve() + update_actions_state, then Timer::execute_all, then handle_ended_actions.
   None = the simulation is over. *)
Definition advance (s : state) : option state :=
  if negb (quiescent s) then Some (set_stuck s) else
    match next_date s with
    | None => if existsb live (actors s) then Some (fold_left do_kill (pids s) s)   (* deadlock: kill everybody *)
              else None
    | Some m =>
      if m <? clock s then Some (set_stuck s)
      else
        let s1 := set_clock s m in
        let s2 := set_acts (set_actors s1 (map (pop_actor s1 m) (actors s1))) (map (pop_act s1 m) (acts s1)) in
        let npop := Z.of_nat (length (filter (fun x => match h_st x with AFin _ => true | _ => false end) (acts s2))) in
        let s3 := reset_batch s2 in
        let s4 := close_batch (handle_ended (fire_timers s3)) in
        Some (if 2 <=? npop then mkS (clock s4) (prec s4) (seq s4) (actors s4) (acts s4) (log s4) (batch s4) true (race s4) (stuck s4) else s4)
    end.

Definition halted (s : state) : bool := race s || stuck s.

Fixpoint run (fuel : nat) (s : state) : state * bool :=   (* bool: the simulation ended within the fuel *)
  match fuel with
  | O => (s, false)
  | S f =>
    let s1 := drain fuel s in
    if halted s1 then (s1, true) else
    match advance s1 with
    | None => (s1, true)
    | Some s2 => if halted s2 then (s2, true) else run f s2
    end
  end.

Definition init_actor (p : Z) (prog : list op) : actor := mkA p OBad prog 0 (SStart p) false false [] None false 0 false.
Fixpoint init_actors (p : Z) (progs : list (list op)) : list actor :=
  match progs with [] => [] | pr :: r => init_actor p pr :: init_actors (p + 1) r end.
Definition init (pr : Z) (progs : list (list op)) : state :=
  mkS 0 pr (Z.of_nat (length progs) + 1) (init_actors 1 progs) [] [] 0 false false false.

(* ---------------------------------------------------------------------------------------------- integer-list protocol *)
Definition decode_op (l : list Z) : op * list Z :=
  match l with
  | 1 :: d :: r => (OSleep d, r)
  | 3 :: h :: d :: r => (OExecAsync h d, r)
  | 4 :: h :: t :: r => (OWaitFor h t, r)
  | 5 :: t :: m :: r => let '(hs, r') := take_n (Z.to_nat m) r in (OWaitAny t hs, r')
  | 6 :: a :: t :: r => (OJoin a t, r)
  | 7 :: a :: r => (OKill a, r)
  | 8 :: r => (OKillAll, r)
  | 9 :: t :: r => (OSetKillTime t, r)
  | 10 :: r => (ODaemonize, r)
  | 11 :: k :: r => (OOnExit k, r)
  | 12 :: a :: r => (OSuspend a, r)
  | 13 :: a :: r => (OResume a, r)
  | 14 :: r => (OExit, r)
  | 15 :: r => (OYield, r)
  | _ :: r => (OBad, r)
  | [] => (OBad, [])
  end.
Fixpoint decode_ops (n : nat) (l : list Z) : list op * list Z :=
  match n with
  | O => ([], l)
  | S n' => let '(o, r) := decode_op l in let '(os, r') := decode_ops n' r in (o :: os, r')
  end.
Fixpoint decode_progs (n : nat) (l : list Z) : list (list op) :=
  match n with
  | O => []
  | S n' => match l with
            | nops :: r => let '(os, r') := decode_ops (Z.to_nat nops) r in os :: decode_progs n' r'
            | [] => [] :: decode_progs n' []
            end
  end.
Definition b2z (b : bool) : Z := if b then 1 else 0.
Definition encode_entry (e : entry) : list Z :=
  match e with
  | ERet p i _ t0 t1 r d => [1; p; i; t0; t1; r; b2z d]
  | EExit p k t f => [2; p; k; t; b2z f]
  | EAct h st fi => [3; h; st; fi]
  | ETerm p t => [4; p; t]
  end.
Definition run_eng (l : list Z) : list Z :=
  match l with
  | _ :: pr :: n :: r =>
    let '(s, fin) := run 4000 (init pr (decode_progs (Z.to_nat n) r)) in
    [b2z fin; b2z (amb s); b2z (race s); b2z (stuck s); clock s] ++ flat_map encode_entry (rev (log s))
  | _ => []
  end.
