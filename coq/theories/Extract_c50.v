Require Import ExtrOcamlBasic.
Require Import SGV.Xbt.Dynar.
Require Import SGV.Xbt.Dict.
Extraction "c50_model.ml" run_c50_dynar run_c50_dict.
