Require Import ExtrOcamlBasic.
Require Import SGV.Smpi.Topo.
Extraction "c33_model.ml" run_c33_coords run_c33_shift run_c33_rankq run_c33_sub run_c33_sub_orig run_c33_dims run_c33_dims_orig.
