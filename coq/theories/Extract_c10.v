Require Import ExtrOcamlBasic.
Require Import SGV.Kernel.Fail.
Extraction "c10_model.ml" run_c10_model run_c10_oracle.
