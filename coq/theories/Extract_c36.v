Require Import ExtrOcamlBasic.
Require Import SGV.Smpi.Priv.
Extraction "c36_model.ml" run_c36_impl run_c36_spec run_c36_disc.
