Require Import ExtrOcamlBasic.
Require Import SGV.Smpi.Rma.
Extraction "c34_model.ml" run_c34.
