Require Import ExtrOcamlBasic.
Require Import SGV.Mc.SerCodec.
Require Import SGV.Mc.SerCodecRun.
Extraction "c43_model.ml" run_c43_enc run_c43_dec.
