Require Import ExtrOcamlBasic.
Require Import SGV.Routing.Torus.
Extraction "c26_model.ml" run_torus run_star.
