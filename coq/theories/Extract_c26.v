Require Import ExtrOcamlBasic.
Require Import SGV.Routing.Torus.
Require Import SGV.Routing.FatTree.
Require Import SGV.Routing.Dragonfly.
Extraction "c26_model.ml" run_torus run_star run_fattree run_dragonfly.
