Require Import ExtrOcamlBasic.
Require Import SGV.Mc.Mazur.
Extraction "c40_model.ml" run_c40_nf.
