Require Import ExtrOcamlBasic.
Require Import SGV.Kernel.Mutex.
Extraction "c04_model.ml" run_c04.
