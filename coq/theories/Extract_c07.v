Require Import ExtrOcamlBasic.
Require Import SGV.Kernel.Barrier.
Extraction "c07_model.ml" run_c07 run_c07_judge run_c07_split.
