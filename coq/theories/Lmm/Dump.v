(** Lmm/Dump.v — the state of a real lmm::System as dumped by harness/lmm_drv.cpp, and the executable oracle for the
    concurrency invariants (what System::check_concurrency asserts at debug log level, plus "a variable whose requested
    penalty is 0 is neither enabled nor staged").  Definitions only. *)
From SGV Require Import Base.Tactics Lmm.System.
From Coq Require Import QArith.
Local Open Scope Z_scope.

Record dcn := mkDcn { d_cid : nat; d_limit : Z; d_cur : Z; d_en : list (nat * Q); d_dis : list (nat * Q) }.
Record dvar := mkDvar { d_vid : nat; d_alive : bool; d_pen : Q; d_staged : Q; d_want : Q; d_elems : list (nat * Q) }.
Record dump := mkDump { d_cns : list dcn; d_vars : list dvar }.

Definition find_cn (d : dump) (c : nat) : option dcn := find (fun k => Nat.eqb (d_cid k) c) (d_cns d).
Definition find_var (d : dump) (v : nat) : option dvar := find (fun x => Nat.eqb (d_vid x) v) (d_vars d).
Definition sum_share (l : list (nat * Q)) : Z := fold_right (fun e a => share (snd e) + a) 0 l.
Definition mem (v : nat) (l : list (nat * Q)) : bool := existsb (fun e => Nat.eqb (fst e) v) l.

Definition counter_b (d : dump) : bool := forallb (fun k => d_cur k =? sum_share (d_en k)) (d_cns d).
Definition limit_b (d : dump) : bool := forallb (fun k => (d_limit k <? 0) || (d_cur k <=? d_limit k)) (d_cns d).
Definition dfull (d : dump) (c : nat) : bool :=
  match find_cn d c with Some k => (0 <=? d_limit k) && (d_cur k =? d_limit k) | None => false end.
Definition nostarve_b (d : dump) : bool :=
  forallb (fun x => negb (d_alive x && qpos (d_staged x)) ||
                    (negb (qpos (d_pen x)) && existsb (fun e => dfull d (fst e)) (d_elems x))) (d_vars d).
Definition consistent_b (d : dump) : bool :=
  forallb (fun x => negb (d_alive x) ||
     forallb (fun e => match find_cn d (fst e) with
                       | Some k => if qpos (d_pen x) then mem (d_vid x) (d_en k) && negb (mem (d_vid x) (d_dis k))
                                   else mem (d_vid x) (d_dis k) && negb (mem (d_vid x) (d_en k))
                       | None => false end) (d_elems x)) (d_vars d)
  && forallb (fun k => forallb (fun e => match find_var d (fst e) with
                                         | Some x => d_alive x && qpos (d_pen x) | None => false end) (d_en k)) (d_cns d).
Definition want_b (d : dump) : bool :=
  forallb (fun x => negb (d_alive x) || qpos (d_want x) || (negb (qpos (d_pen x)) && negb (qpos (d_staged x)))) (d_vars d).

(* answer: the list of violated clauses (1 counter, 2 limit, 3 starvation, 4 element sets, 5 runs/staged although penalty 0
   was requested); [] = the dumped state satisfies the specification *)
Definition c18_codes (d : dump) : list Z :=
  (if counter_b d then [] else [1]) ++ (if limit_b d then [] else [2]) ++ (if nostarve_b d then [] else [3]) ++
  (if consistent_b d then [] else [4]) ++ (if want_b d then [] else [5]).

(** decoding: nc nv, then per constraint  limit cur ne (v wn wd)*ne nd (v wn wd)*nd,
    then per variable  alive pn pd sn sd wantn wantd nel (c wn wd)*nel ; ids are positions *)
Fixpoint take_elems (n : nat) (l : list Z) : list (nat * Q) * list Z :=
  match n with
  | O => ([], l)
  | S n' => match l with
            | a :: wn :: wd :: r => let '(es, rest) := take_elems n' r in ((Z.to_nat a, mkq wn wd) :: es, rest)
            | _ => ([], [])
            end
  end.
Fixpoint take_cns (n : nat) (id : nat) (l : list Z) : list dcn * list Z :=
  match n with
  | O => ([], l)
  | S n' => match l with
            | lim :: cur :: ne :: r =>
                let '(en, r1) := take_elems (Z.to_nat ne) r in
                match r1 with
                | nd :: r2 => let '(dis, r3) := take_elems (Z.to_nat nd) r2 in
                              let '(ks, rest) := take_cns n' (S id) r3 in (mkDcn id lim cur en dis :: ks, rest)
                | [] => ([], [])
                end
            | _ => ([], [])
            end
  end.
Fixpoint take_vars (n : nat) (id : nat) (l : list Z) : list dvar :=
  match n with
  | O => []
  | S n' => match l with
            | al :: pn :: pd :: sn :: sd :: wn :: wd :: nel :: r =>
                let '(es, r1) := take_elems (Z.to_nat nel) r in
                mkDvar id (negb (al =? 0)) (mkq pn pd) (mkq sn sd) (mkq wn wd) es :: take_vars n' (S id) r1
            | _ => []
            end
  end.
Definition decode_dump (l : list Z) : dump :=
  match l with
  | nc :: nv :: r => let '(ks, r1) := take_cns (Z.to_nat nc) 0 r in mkDump ks (take_vars (Z.to_nat nv) 0 r1)
  | _ => mkDump [] []
  end.
Definition run_c18_oracle (l : list Z) : list Z := c18_codes (decode_dump l).
