(** Lmm/Selective.v — executable model of the selective-update bookkeeping of simgrid::kernel::lmm::System
    (src/kernel/lmm/System.cpp): modified_constraint_set, Variable::visited_, visited_counter_ and the functions
    update_modified_cnst_set, update_modified_cnst_set_rec, update_modified_cnst_set_from_variable,
    remove_all_modified_cnst_set, make_constraint_inactive, together with the places where expand, var_free,
    update_variable_bound, update_variable_penalty, update_constraint_bound, enable_var, disable_var and solve call them.
    The concurrency bookkeeping underneath is Lmm/System.v, unchanged: the state here is a System.v state plus the
    selective-update members, and every operation projects onto the System.v operation (SelectiveProofs.x_step_base).
    Definitions only; proofs are in SelectiveProofs.v.

    [fixes] selects the code version: fx_from = commit c05940b907 (update_modified_cnst_set_from_variable flags every
    constraint of the variable, not only cnsts_[0]); fx_exp = expand() also flags the other constraints of the variable
    (needed when the expanded constraint is already in the modified set); fx_wrap = remove_all_modified_cnst_set resets the
    stamps when the counter wraps to 0 and restarts it at 1 (the pinned code resets when the counter reaches 1, so the
    whole epoch "counter = 0" runs with stale stamps 0).  [all_fixes] is the code of the current tree.

    Machine integers: visited_counter_ and visited_ are unsigned (32 bits); the wrap is written "mod W32".
    Not modelled: selective_update_active = false (nothing happens then), the modified *action* set, cnst_free. *)
From SGV Require Import Base.Tactics Lmm.System.
From Coq Require Import QArith.
Local Open Scope Z_scope.

Definition W32 : Z := 4294967296.

Record fixes := mkFixes { fx_from : bool; fx_exp : bool; fx_wrap : bool }.
Definition all_fixes : fixes := mkFixes true true true.

(** ** the traversal: update_modified_cnst_set_rec *)
Record mst := mkMst { m_set : list nat;        (* modified_constraint_set, in list order (push_back) *)
                      m_stamp : nat -> Z }.    (* Variable::visited_ *)

Definition memb (c : nat) (l : list nat) : bool := existsb (Nat.eqb c) l.
Definition push (c : nat) (st : mst) : mst := mkMst (m_set st ++ [c]) (m_stamp st).
Definition stampit (st : mst) (v : nat) (k : Z) : mst := mkMst (m_set st) (upd (m_stamp st) v k).

(* "for (Element const& elem2 : var->cnsts_) { if (var->visited_ == visited_counter_) break; if (elem2.constraint != cnst
   && not linked) { push_back; rec(elem2.constraint); } }" — a stamp equal to the counter stays so during the traversal, hence
   "break" is "skip every remaining iteration" *)
Definition inner (R : nat -> mst -> mst) (k : Z) (c v : nat) (es : list (nat * Q)) (st : mst) : mst :=
  fold_left (fun st e =>
               if m_stamp st v =? k then st
               else if negb (Nat.eqb (fst e) c) && negb (memb (fst e) (m_set st)) then R (fst e) (push (fst e) st)
                    else st) es st.
(* "for (Element const& elem : cnst->enabled_element_set_) { ...inner loop...; var->visited_ = visited_counter_; }" *)
Definition outer (R : nat -> mst -> mst) (b : sys) (k : Z) (c : nat) (vs : list nat) (st : mst) : mst :=
  fold_left (fun st v => stampit (inner R k c v (v_elems (s_var b v)) st) v k) vs st.
(* the recursion is not structural: fuel (the number of constraints + 1 is enough, SelectiveProofs.mrec_spec) *)
Fixpoint mrec (fuel : nat) (b : sys) (k : Z) (c : nat) (st : mst) : mst :=
  match fuel with
  | O => st
  | S f => outer (mrec f b k) b k c (c_en (s_cn b c)) st
  end.

(* update_modified_cnst_set (selective_update_active) *)
Definition upd_cnst (b : sys) (k : Z) (c : nat) (st : mst) : mst :=
  if memb c (m_set st) then st else mrec (S (s_nc b)) b k c (push c st).
(* update_modified_cnst_set_from_variable *)
Definition from_var (fx : fixes) (b : sys) (k : Z) (v : nat) (st : mst) : mst :=
  let x := s_var b v in
  match v_elems x with
  | [] => st
  | e0 :: _ =>
      if negb (qpos (v_pen x)) then st
      else if fx_from fx then fold_left (fun st e => upd_cnst b k (fst e) st) (v_elems x) st
           else upd_cnst b k (fst e0) st
  end.

(** ** the system with its selective-update members *)
Record sel := mkSel { x_base : sys;
                      x_mod : list nat;        (* modified_constraint_set *)
                      x_stamp : nat -> Z;      (* visited_ of every variable *)
                      x_cnt : Z;               (* visited_counter_ *)
                      x_dirty : bool;          (* modified_ *)
                      x_touched : list nat }.  (* ghost: constraints touched by the API calls since the last solve *)

Definition sel0 (k0 : Z) : sel := mkSel sys0 [] (fun _ => 0) k0 false [].
Definition with_base (x : sel) (b : sys) : sel := mkSel b (x_mod x) (x_stamp x) (x_cnt x) (x_dirty x) (x_touched x).
Definition dirty (x : sel) : sel := mkSel (x_base x) (x_mod x) (x_stamp x) (x_cnt x) true (x_touched x).
Definition touch (x : sel) (l : list nat) : sel := mkSel (x_base x) (x_mod x) (x_stamp x) (x_cnt x) (x_dirty x) (x_touched x ++ l).
Definition lift (f : sys -> Z -> mst -> mst) (x : sel) : sel :=
  let st := f (x_base x) (x_cnt x) (mkMst (x_mod x) (x_stamp x)) in
  mkSel (x_base x) (m_set st) (m_stamp st) (x_cnt x) (x_dirty x) (x_touched x).
Definition x_upd_cnst (x : sel) (c : nat) : sel := lift (fun b k => upd_cnst b k c) x.
Definition x_from_var (fx : fixes) (x : sel) (v : nat) : sel := lift (fun b k => from_var fx b k v) x.

(* enable_var: the elements are moved first, then update_modified_cnst_set_from_variable *)
Definition x_enable_var (fx : fixes) (x : sel) (v : nat) : sel := x_from_var fx (with_base x (enable_var (x_base x) v)) v.
(* disable_var: update_modified_cnst_set_from_variable first, then the elements are moved *)
Definition x_disable_var (fx : fixes) (x : sel) (v : nat) : sel :=
  let x1 := x_from_var fx x v in with_base x1 (disable_var (x_base x1) v).

Fixpoint x_odv_loop (fx : fixes) (c : nat) (l : list nat) (x : sel) : sel :=
  match l with
  | [] => x
  | u :: r =>
      let x1 := if can_enable (x_base x) u then x_enable_var fx x u else x in
      if c_cur (s_cn (x_base x1) c) =? c_limit (s_cn (x_base x1) c) then x1 else x_odv_loop fx c r x1
  end.
Definition x_on_disabled_var (fx : fixes) (x : sel) (c : nat) : sel :=
  if c_limit (s_cn (x_base x) c) <? 0 then x else x_odv_loop fx c (c_dis (s_cn (x_base x) c)) x.
Definition x_odv_all (fx : fixes) (x : sel) (es : list (nat * Q)) : sel :=
  fold_left (fun x e => x_on_disabled_var fx x (fst e)) es x.

(* System::expand: everything before the final update of the modified set *)
Definition x_expand_core (fx : fixes) (x : sel) (c v : nat) (w : Q) : sel :=
  let x := dirty x in
  let pen0 := v_pen (s_var (x_base x) v) in
  let x2 := with_base x (add_elem (x_base x) c v w) in
  if qnz pen0 && (slack (s_cn (x_base x2) c) <? 0) then
    let x3 := x_disable_var fx x2 v in
    let x4 := x_odv_all fx x3 (v_elems (s_var (x_base x3) v)) in
    with_base x4 (set_staged (x_base x4) v pen0)
  else x2.
Definition x_expand (fx : fixes) (x : sel) (c v : nat) (w : Q) : sel :=
  let x5 := x_expand_core fx x c v w in
  (* "if (elem.consumption_weight > 0 || var->sharing_penalty_ > 0) update_modified_cnst_set(cnst);" *)
  if qpos (weight (x_base x5) v c) || qpos (v_pen (s_var (x_base x5) v)) then
    let x6 := x_upd_cnst x5 c in
    if fx_exp fx then x_from_var fx x6 v else x6
  else x5.

(* System::update_variable_penalty (the repaired code of System.v: update_penalty_core true true) *)
Definition x_penalty_core (fx : fixes) (x : sel) (v : nat) (p : Q) : sel :=
  let y := s_var (x_base x) v in
  if Qeq_bool p (v_pen y) then
    (if true && negb (qpos p) then with_base x (set_staged (x_base x) v 0) else x)
  else
    let x := dirty x in
    if qpos p && negb (qpos (v_pen y)) then
      let x1 := with_base x (set_staged (x_base x) v p) in
      if min_slack (x_base x1) v =? 0 then x1 else x_enable_var fx x1 v
    else if negb (qpos p) && qpos (v_pen y) then
      let x1 := x_disable_var fx x v in
      x_odv_all fx x1 (v_elems (s_var (x_base x1) v))
    else
      let y := s_var (x_base x) v in
      let x1 := with_base x (set_var (x_base x) v (mkVar (v_alive y) p (v_staged y) (v_want y) (v_elems y))) in
      x_from_var fx x1 v.
Definition x_update_penalty (fx : fixes) (x : sel) (v : nat) (p : Q) : sel :=
  if qpos p then x_penalty_core fx (with_base x (set_want (x_base x) v p)) v p
  else let x1 := x_penalty_core fx x v p in with_base x1 (set_want (x_base x1) v p).

Definition cnsts_of (b : sys) (v : nat) : list nat := map fst (v_elems (s_var b v)).

(* make_constraint_inactive, as far as the modified set goes *)
Definition drop_inactive (x : sel) (c : nat) : sel :=
  let k := s_cn (x_base x) c in
  match c_en k, c_dis k with
  | [], [] => mkSel (x_base x) (erase c (x_mod x)) (x_stamp x) (x_cnt x) (x_dirty x) (erase c (x_touched x))
  | _, _ => x
  end.
(* System::var_free *)
Definition x_var_free (fx : fixes) (x : sel) (v : nat) : sel :=
  let x := dirty x in
  (* ghost: the constraints of an enabled variable that is freed are touched (drop_inactive forgets those left empty) *)
  let x0 := touch (x_from_var fx x v) (if qpos (v_pen (s_var (x_base x) v)) then cnsts_of (x_base x) v else []) in
  let x1 := fold_left (fun x e => x_on_disabled_var fx (drop_inactive (with_base x (detach (x_base x) v (fst e) (snd e))) (fst e)) (fst e))
                      (v_elems (s_var (x_base x0) v)) x0 in
  with_base x1 (set_var (x_base x1) v dead_var).

(* update_variable_bound: "for (Element const& elem : var->cnsts_) update_modified_cnst_set(elem.constraint);" *)
Definition x_vbound (x : sel) (v : nat) : sel :=
  fold_left (fun x e => x_upd_cnst x (fst e)) (v_elems (s_var (x_base x) v)) (dirty x).
(* update_constraint_bound *)
Definition x_cbound (x : sel) (c : nat) : sel := x_upd_cnst (dirty x) c.

(* remove_all_modified_cnst_set *)
Definition remove_all (fx : fixes) (x : sel) : sel :=
  let k1 := (x_cnt x + 1) mod W32 in
  if fx_wrap fx then
    (if k1 =? 0 then mkSel (x_base x) [] (fun _ => 0) 1 (x_dirty x) []
     else mkSel (x_base x) [] (x_stamp x) k1 (x_dirty x) [])
  else
    (if k1 =? 1 then mkSel (x_base x) [] (fun _ => 0) k1 (x_dirty x) []
     else mkSel (x_base x) [] (x_stamp x) k1 (x_dirty x) []).
(* System::solve, as far as the bookkeeping goes: "if (not modified_) return; do_solve(); modified_ = false; ...;
   remove_all_modified_cnst_set();" *)
Definition x_solve (fx : fixes) (x : sel) : sel :=
  if x_dirty x then
    let x1 := remove_all fx x in mkSel (x_base x1) (x_mod x1) (x_stamp x1) (x_cnt x1) false (x_touched x1)
  else x.

Inductive xop :=
| XNewC (limit : Z) (shared : bool)
| XNewV (p : Q)
| XExpand (c v : nat) (w : Q)
| XPen (v : nat) (p : Q)
| XVBound (v : nat)
| XCBound (c : nat)
| XFree (v : nat)
| XSolve
| XAge (t : Z).       (* "update_constraint_bound(a constraint nobody uses); solve()" repeated until visited_counter_ = t; only
                         taken when the modified set is empty and the counter does not wrap on the way *)

Definition proj (o : xop) : op :=
  match o with
  | XNewC l s => NewC l s | XNewV p => NewV p | XExpand c v w => Expand c v w | XPen v p => Pen v p | XFree v => Free v
  | _ => Nop
  end.

(* the code *)
Definition x_code (fx : fixes) (x : sel) (o : xop) : sel :=
  let b := x_base x in
  match o with
  | XNewC lim sh => with_base x (step b (NewC lim sh))
  | XNewV p => if Qnum p <? 0 then x
               else mkSel (step b (NewV p)) (x_mod x) (upd (x_stamp x) (s_nv b) ((x_cnt x - 1) mod W32)) (x_cnt x) (x_dirty x) (x_touched x)
  | XExpand c v w => if Nat.ltb c (s_nc b) && Nat.ltb v (s_nv b) && v_alive (s_var b v) && negb (Qnum w <? 0) then x_expand fx x c v w else x
  | XPen v p => if Nat.ltb v (s_nv b) && v_alive (s_var b v) && negb (Qnum p <? 0) then x_update_penalty fx x v p else x
  | XVBound v => if Nat.ltb v (s_nv b) && v_alive (s_var b v) then x_vbound x v else x
  | XCBound c => if Nat.ltb c (s_nc b) then x_cbound x c else x
  | XFree v => if Nat.ltb v (s_nv b) && v_alive (s_var b v) then x_var_free fx x v else x
  | XSolve => x_solve fx x
  | XAge t => match x_mod x with
              | [] => if (x_cnt x <=? t) && (t <? W32) then mkSel b [] (x_stamp x) t (if x_cnt x <? t then false else x_dirty x) (x_touched x) else x
              | _ => x
              end
  end.

(* the ghost: which constraints an API call touches, read off the states before ([b]) and after ([b']) the call —
   the constraint whose capacity changes; the constraints of a variable whose bound changes, of a variable whose effective
   penalty changes (those of an enabled variable that is freed are recorded in x_var_free); the constraint that is expanded by a consuming or enabled variable *)
Definition touched_by (b b' : sys) (o : xop) : list nat :=
  match o with
  | XExpand c v w => if Nat.ltb c (s_nc b) && Nat.ltb v (s_nv b) && v_alive (s_var b v) && negb (Qnum w <? 0)
                        && (qpos (weight b' v c) || qpos (v_pen (s_var b' v))) then [c] else []
  | XPen v p => if Nat.ltb v (s_nv b) && v_alive (s_var b v) && negb (Qnum p <? 0)
                   && negb (Qeq_bool (v_pen (s_var b v)) (v_pen (s_var b' v))) then cnsts_of b v else []
  | XVBound v => if Nat.ltb v (s_nv b) && v_alive (s_var b v) then cnsts_of b v else []
  | XCBound c => if Nat.ltb c (s_nc b) then [c] else []
  | _ => []
  end.
Definition x_step (fx : fixes) (x : sel) (o : xop) : sel :=
  let x' := x_code fx x o in touch x' (touched_by (x_base x) (x_base x') o).
Definition x_run (fx : fixes) (k0 : Z) (l : list xop) : sel := fold_left (x_step fx) l (sel0 k0).

(** ** specification side: closure of a set of constraints under "shares an enabled variable" *)
Definition closed_b (b : sys) (M : list nat) : bool :=
  forallb (fun c => forallb (fun v => forallb (fun e => memb (fst e) M) (v_elems (s_var b v))) (c_en (s_cn b c))) M.
Definition touched_in_b (x : sel) : bool := forallb (fun c => memb c (x_mod x)) (x_touched x).

(** ** the oracle on a dumped implementation state:  nc  (ne v*ne)*nc   nv  (nel c*nel)*nv   nm c*nm
    answer [1] when the dumped modified set is closed, else [0; c; v; c'] : c is in the set, v is enabled on c, v uses c'
    and c' is not in the set *)
Fixpoint take_list (n : nat) (l : list Z) : list nat * list Z :=
  match n with
  | O => ([], l)
  | S n' => match l with a :: r => let '(xs, rest) := take_list n' r in (Z.to_nat a :: xs, rest) | [] => ([], []) end
  end.
Fixpoint take_lists (n : nat) (l : list Z) : list (list nat) * list Z :=
  match n with
  | O => ([], l)
  | S n' => match l with
            | k :: r => let '(xs, r1) := take_list (Z.to_nat k) r in let '(ls, rest) := take_lists n' r1 in (xs :: ls, rest)
            | [] => ([], [])
            end
  end.
Definition find_open (en : nat -> list nat) (el : nat -> list nat) (M : list nat) : option (nat * nat * nat) :=
  let bad := flat_map (fun c => flat_map (fun v => flat_map (fun c' => if memb c' M then [] else [(c, v, c')]) (el v)) (en c)) M in
  match bad with [] => None | t :: _ => Some t end.
Definition run_c17_closed (l : list Z) : list Z :=
  match l with
  | nc :: r =>
      let '(ens, r1) := take_lists (Z.to_nat nc) r in
      match r1 with
      | nv :: r2 =>
          let '(els, r3) := take_lists (Z.to_nat nv) r2 in
          match r3 with
          | nm :: r4 =>
              let '(M, _) := take_list (Z.to_nat nm) r4 in
              match find_open (fun c => nth c ens []) (fun v => nth v els []) M with
              | None => [1]
              | Some (c, v, c') => [0; Z.of_nat c; Z.of_nat v; Z.of_nat c']
              end
          | [] => [-1]
          end
      | [] => [-1]
      end
  | [] => [-1]
  end.

(** ** integer protocol of the model run:  fx_from fx_exp fx_wrap k0  then the history in the encoding of harness/lmm_drv.cpp
    (op 8 t = age).  Answer, after every operation:  counter  nm  c*nm  (closed? 1/0)  (touched in set? 1/0) *)
Definition xnext_op (l : list Z) : option (xop * list Z) :=
  match l with
  | 0 :: _ :: _ :: pol :: lim :: r => Some (XNewC lim (negb (pol =? 0)), r)
  | 1 :: pn :: pd :: _ :: _ :: r => Some (XNewV (mkq pn pd), r)
  | 2 :: c :: v :: wn :: wd :: r => Some (XExpand (Z.to_nat c) (Z.to_nat v) (mkq wn wd), r)
  | 3 :: v :: pn :: pd :: r => Some (XPen (Z.to_nat v) (mkq pn pd), r)
  | 4 :: v :: _ :: _ :: r => Some (XVBound (Z.to_nat v), r)
  | 5 :: c :: _ :: _ :: r => Some (XCBound (Z.to_nat c), r)
  | 6 :: v :: r => Some (XFree (Z.to_nat v), r)
  | 7 :: r => Some (XSolve, r)
  | 8 :: n :: r => Some (XAge n, r)
  | _ => None
  end.
Fixpoint xparse (fuel : nat) (l : list Z) : list xop :=
  match fuel with
  | O => []
  | S f => match xnext_op l with Some (o, r) => o :: xparse f r | None => [] end
  end.
Definition xobs (x : sel) : list Z :=
  x_cnt x :: Z.of_nat (length (x_mod x)) :: map Z.of_nat (x_mod x)
  ++ [if closed_b (x_base x) (x_mod x) then 1 else 0; if touched_in_b x then 1 else 0].
Fixpoint xrun_obs (fx : fixes) (x : sel) (l : list xop) : list Z :=
  match l with [] => [] | o :: r => let x' := x_step fx x o in xobs x' ++ xrun_obs fx x' r end.
Definition run_c17 (l : list Z) : list Z :=
  match l with
  | f1 :: f2 :: f3 :: k0 :: r =>
      xrun_obs (mkFixes (negb (f1 =? 0)) (negb (f2 =? 0)) (negb (f3 =? 0))) (sel0 k0) (xparse (length r) r)
  | _ => []
  end.
