(** Lmm/DumpProofs.v — the executable checker of dumped lmm::System states decides its specification. *)
From SGV Require Import Base.Tactics Lmm.System Lmm.Dump.
From Coq Require Import QArith.
Local Open Scope Z_scope.

Lemma forallb_Forall : forall A (f : A -> bool) (P : A -> Prop) l,
  (forall x, f x = true <-> P x) -> (forallb f l = true <-> Forall P l).
Proof.
  intros A f P l H. rewrite forallb_forall, Forall_forall. split; intros G x Hx; apply H, G, Hx.
Qed.
Lemma mem_In : forall v l, mem v l = true <-> In v (map fst l).
Proof.
  intros v l. unfold mem. rewrite existsb_exists, in_map_iff. split.
  - intros [e [H1 H2]]. apply Nat.eqb_eq in H2. exists e. split; assumption.
  - intros [e [H1 H2]]. exists e. split; [assumption|]. apply Nat.eqb_eq. assumption.
Qed.
Lemma mem_not_In : forall v l, negb (mem v l) = true <-> ~ In v (map fst l).
Proof. intros. rewrite negb_true_iff, <- mem_In. destruct (mem v l); split; congruence. Qed.

(** the specification, clause by clause *)
Definition counter_spec (d : dump) : Prop := Forall (fun k => d_cur k = sum_share (d_en k)) (d_cns d).
Definition limit_spec (d : dump) : Prop := Forall (fun k => d_limit k < 0 \/ d_cur k <= d_limit k) (d_cns d).
Definition full_cn (d : dump) (c : nat) : Prop :=
  exists k, find_cn d c = Some k /\ 0 <= d_limit k /\ d_cur k = d_limit k.
Definition nostarve_spec (d : dump) : Prop :=
  Forall (fun x => d_alive x = true -> qpos (d_staged x) = true ->
                   qpos (d_pen x) = false /\ exists e, In e (d_elems x) /\ full_cn d (fst e)) (d_vars d).
Definition consistent_spec (d : dump) : Prop :=
  Forall (fun x => d_alive x = true -> forall e, In e (d_elems x) ->
            exists k, find_cn d (fst e) = Some k /\
              if qpos (d_pen x) then In (d_vid x) (map fst (d_en k)) /\ ~ In (d_vid x) (map fst (d_dis k))
              else In (d_vid x) (map fst (d_dis k)) /\ ~ In (d_vid x) (map fst (d_en k))) (d_vars d)
  /\ Forall (fun k => forall e, In e (d_en k) -> exists x, find_var d (fst e) = Some x /\ d_alive x = true /\ qpos (d_pen x) = true) (d_cns d).
Definition want_spec (d : dump) : Prop :=
  Forall (fun x => d_alive x = true -> qpos (d_want x) = false -> qpos (d_pen x) = false /\ qpos (d_staged x) = false) (d_vars d).

Lemma counter_ok : forall d, counter_b d = true <-> counter_spec d.
Proof. intro d. apply forallb_Forall. intro k. apply Z.eqb_eq. Qed.
Lemma limit_ok : forall d, limit_b d = true <-> limit_spec d.
Proof. intro d. apply forallb_Forall. intro k. rewrite orb_true_iff, Z.ltb_lt, Z.leb_le. tauto. Qed.
Lemma dfull_ok : forall d c, dfull d c = true <-> full_cn d c.
Proof.
  intros d c. unfold dfull, full_cn. destruct (find_cn d c) as [k|].
  - rewrite andb_true_iff, Z.leb_le, Z.eqb_eq. split; [intro H; exists k; tauto|intros [k' [H1 H2]]; inv H1; tauto].
  - split; [discriminate|intros [k [H _]]; discriminate].
Qed.
Lemma nostarve_ok : forall d, nostarve_b d = true <-> nostarve_spec d.
Proof.
  intro d. apply forallb_Forall. intro x. rewrite orb_true_iff, negb_true_iff, andb_true_iff, negb_true_iff, existsb_exists.
  destruct (d_alive x), (qpos (d_staged x)); cbn; split; intro H; try (now left); try (intros; discriminate).
  - destruct H as [H|[H1 [e [H2 H3]]]]; [discriminate|]. intros _ _. split; [exact H1|]. exists e. split; [exact H2|apply dfull_ok; exact H3].
  - right. destruct (H eq_refl eq_refl) as [H1 [e [H2 H3]]]. split; [exact H1|]. exists e. split; [exact H2|apply dfull_ok; exact H3].
Qed.
Lemma consistent_ok : forall d, consistent_b d = true <-> consistent_spec d.
Proof.
  intro d. unfold consistent_b, consistent_spec. rewrite andb_true_iff.
  match goal with |- (?A /\ ?B) <-> (?C /\ ?D) => assert (HA : A <-> C); [|assert (HB : B <-> D); [|tauto]] end.
  - apply forallb_Forall. intro x. rewrite orb_true_iff, negb_true_iff, forallb_forall. split.
    + intros [H|H] Ha e He; [congruence|]. specialize (H e He). destruct (find_cn d (fst e)) as [k|]; [|discriminate].
      exists k. split; [reflexivity|]. destruct (qpos (d_pen x)); apply andb_prop in H; destruct H as [H1 H2];
        apply mem_In in H1; apply mem_not_In in H2; split; assumption.
    + intro H. destruct (d_alive x); [right|now left]. intros e He. destruct (H eq_refl e He) as [k [Hk Hq]]. rewrite Hk.
      destruct (qpos (d_pen x)); destruct Hq as [H1 H2]; apply mem_In in H1; apply mem_not_In in H2; rewrite H1, H2; reflexivity.
  - apply forallb_Forall. intro k. rewrite forallb_forall. split.
    + intros H e He. specialize (H e He). destruct (find_var d (fst e)) as [x|]; [|discriminate]. apply andb_prop in H. exists x. tauto.
    + intros H e He. destruct (H e He) as [x [H1 [H2 H3]]]. rewrite H1, H2, H3. reflexivity.
Qed.
Lemma want_ok : forall d, want_b d = true <-> want_spec d.
Proof.
  intro d. apply forallb_Forall. intro x. rewrite !orb_true_iff, andb_true_iff, !negb_true_iff.
  destruct (d_alive x), (qpos (d_want x)); cbn; split; intro H; try tauto; try (intros; discriminate).
  intros _ _. destruct H as [[H|H]|H]; try discriminate. exact H.
Qed.

Definition dump_spec (d : dump) : Prop :=
  counter_spec d /\ limit_spec d /\ nostarve_spec d /\ consistent_spec d /\ want_spec d.
Theorem c18_codes_sound_complete : forall d, c18_codes d = [] <-> dump_spec d.
Proof.
  intro d. unfold c18_codes, dump_spec. rewrite <- counter_ok, <- limit_ok, <- nostarve_ok, <- consistent_ok, <- want_ok.
  destruct (counter_b d), (limit_b d), (nostarve_b d), (consistent_b d), (want_b d); cbn; split; intro H;
    try reflexivity; try discriminate; try tauto; destruct H as [H1 [H2 [H3 [H4 H5]]]]; discriminate.
Qed.
