(** Lmm/Maxmin.v — exact-rational model of MaxMin::maxmin_solve (src/kernel/lmm/maxmin.cpp) on a snapshot of the enabled part
    of a system, and the executable oracles for C15 (feasibility) and C16 (bottleneck characterisation).
    Idealisation (precision eps = 0): double_update(x, d) = x - d, double_positive(x) = (x > 0),
    double_equals(a, b) = (a == b).  Definitions only; proofs in MaxminProofs.v.

    A snapshot holds, per constraint, its bound, policy and the elements (variable, weight) of its enabled element set;
    per variable its penalty (> 0) and bound (<= 0: none).  Constraints whose bound is not positive are skipped by the
    code before the values of their variables are reset ("continue" in the INIT loop): the model skips them as well, but
    the stale values the real code leaves there cannot be represented in a snapshot. *)
From SGV Require Import Base.Tactics Lmm.System.
From Coq Require Import QArith.
Local Open Scope Q_scope.

Record mcn := mkMcn { m_bound : Q; m_shared : bool; m_elems : list (nat * Q) }.
Record mvar := mkMvar { m_pen : Q; m_vbound : Q }.
Record msys := mkMsys { m_cns : list mcn; m_vars : list mvar }.

Definition qposb (q : Q) : bool := (0 <? Qnum q)%Z.
Definition qmx (a b : Q) : Q := if Qle_bool b a then a else b.       (* std::max(a, b) *)
Definition qmn (a b : Q) : Q := if Qle_bool a b then a else b.       (* std::min(a, b) *)
Definition dcn : mcn := mkMcn 0 true [].
Definition dvr : mvar := mkMvar 1 (-1).
Definition cn (s : msys) (c : nat) : mcn := nth c (m_cns s) dcn.
Definition pen (s : msys) (v : nat) : Q := m_pen (nth v (m_vars s) dvr).
Definition vbound (s : msys) (v : nat) : Q := m_vbound (nth v (m_vars s) dvr).
Definition ip (s : msys) (v : nat) : Q := / pen s v.

Definition unfixed (val : nat -> Q) (v : nat) : bool := negb (qposb (val v)).     (* value_ > 0 means already set *)
Fixpoint load (es : list (nat * Q)) (val : nat -> Q) : Q :=
  match es with [] => 0 | (v, w) :: r => w * val v + load r val end.
Fixpoint lmax (es : list (nat * Q)) (val : nat -> Q) : Q :=
  match es with [] => 0 | (v, w) :: r => qmx (w * val v) (lmax r val) end.
Fixpoint ufun (s : msys) (es : list (nat * Q)) (val : nat -> Q) : Q :=
  match es with
  | [] => 0
  | (v, w) :: r => (if unfixed val v && qposb w then w * ip s v else 0) + ufun s r val
  end.
Fixpoint umax (s : msys) (es : list (nat * Q)) (val : nat -> Q) : Q :=
  match es with
  | [] => 0
  | (v, w) :: r => if unfixed val v && qposb w then qmx (w * ip s v) (umax s r val) else umax s r val
  end.
Fixpoint wsum (es : list (nat * Q)) (v : nat) : Q :=
  match es with [] => 0 | (v', w) :: r => (if Nat.eqb v' v then w else 0) + wsum r v end.
Definition has_var (es : list (nat * Q)) (v : nat) : bool := existsb (fun e => Nat.eqb (fst e) v) es.

Record mstate := mkSt { st_val : nat -> Q; st_rem : nat -> Q; st_usage : nat -> Q; st_light : nat -> bool }.

Definition init (s : msys) : mstate :=
  let val := fun _ : nat => 0 in
  mkSt val
       (fun c => m_bound (cn s c))
       (fun c => if qposb (m_bound (cn s c))
                 then (if m_shared (cn s c) then ufun s (m_elems (cn s c)) val else umax s (m_elems (cn s c)) val) else 0)
       (fun c => qposb (m_bound (cn s c)) &&
                 qposb (if m_shared (cn s c) then ufun s (m_elems (cn s c)) val else umax s (m_elems (cn s c)) val)).

(* "var.value_ = x; for (Element& elem : var.cnsts_) ..." : update remaining_/usage_ of the constraints of v, drop the
   constraints that are saturated from the light table *)
Definition fix_var (s : msys) (v : nat) (x : Q) (st : mstate) : mstate :=
  if unfixed (st_val st) v then
    let val' := upd (st_val st) v x in
    let rem' := fun c => if has_var (m_elems (cn s c)) v && m_shared (cn s c)
                         then st_rem st c - wsum (m_elems (cn s c)) v * x else st_rem st c in
    let usage' := fun c => if has_var (m_elems (cn s c)) v
                           then (if m_shared (cn s c) then st_usage st c - wsum (m_elems (cn s c)) v * ip s v
                                 else umax s (m_elems (cn s c)) val')
                           else st_usage st c in
    mkSt val' rem' usage'
         (fun c => if has_var (m_elems (cn s c)) v then st_light st c && qposb (usage' c) && qposb (rem' c) else st_light st c)
  else st.

Definition ncn (s : msys) : nat := length (m_cns s).
Definition ratio (st : mstate) (c : nat) : Q := st_rem st c / st_usage st c.
(* min over the light table of remaining/usage; None when the table is empty *)
Definition min_ratio (s : msys) (st : mstate) : option Q :=
  fold_left (fun m c => if st_light st c
                        then match m with None => Some (ratio st c) | Some x => Some (qmn x (ratio st c)) end
                        else m) (seq 0 (ncn s)) None.
(* saturated_variable_set: the still active variables of the constraints whose ratio is the minimum *)
Definition sat_vars (s : msys) (st : mstate) (L : Q) : list nat :=
  nodup Nat.eq_dec
    (flat_map (fun c => if st_light st c && Qeq_bool (ratio st c) L
                        then map fst (filter (fun e => unfixed (st_val st) (fst e) && qposb (snd e)) (m_elems (cn s c)))
                        else []) (seq 0 (ncn s))).
Definition min_bound (s : msys) (vs : list nat) (L : Q) : option Q :=
  fold_left (fun m v => if qposb (vbound s v) && negb (Qle_bool L (vbound s v * pen s v))
                        then match m with None => Some (vbound s v * pen s v) | Some x => Some (qmn x (vbound s v * pen s v)) end
                        else m) vs None.

Definition round (s : msys) (st : mstate) : mstate :=
  match min_ratio s st with
  | None => st
  | Some L =>
      let vs := sat_vars s st L in
      match min_bound s vs L with
      | None => fold_left (fun st v => fix_var s v (L * ip s v) st) vs st
      | Some b => fold_left (fun st v => if Qeq_bool b (vbound s v * pen s v) then fix_var s v (vbound s v) st else st) vs st
      end
  end.
Fixpoint rounds (fuel : nat) (s : msys) (st : mstate) : mstate :=
  match fuel with O => st | S f => rounds f s (round s st) end.
Definition any_light (s : msys) (st : mstate) : bool := existsb (st_light st) (seq 0 (ncn s)).
Definition maxmin_solve (s : msys) : mstate := rounds (S (length (m_vars s))) s (init s).

(** ** oracles on (snapshot, values): feasibility (C15) and bottleneck characterisation (C16), tolerance [tol] >= 0 *)
Definition cn_feasible_b (tol : Q) (val : nat -> Q) (k : mcn) : bool :=
  if m_shared k then Qle_bool (load (m_elems k) val) (m_bound k + tol * m_bound k)
  else forallb (fun e => Qle_bool (snd e * val (fst e)) (m_bound k + tol * m_bound k)) (m_elems k).
Definition consumes (s : msys) (v : nat) : bool :=
  existsb (fun k => existsb (fun e => Nat.eqb (fst e) v && qposb (snd e)) (m_elems k)) (m_cns s).
Definition var_feasible_b (tol : Q) (s : msys) (val : nat -> Q) (v : nat) : bool :=
  (qposb (pen s v) || Qeq_bool (val v) 0) &&     (* a disabled (or suspended: the check masks its penalty) variable has rate 0 *)
  (negb (consumes s v) ||
   (Qle_bool 0 (val v) && (negb (qposb (vbound s v)) || Qle_bool (val v) (vbound s v + tol * vbound s v)))).
Definition alloc_feasible_b (tol : Q) (s : msys) (val : nat -> Q) : bool :=
  forallb (cn_feasible_b tol val) (m_cns s) && forallb (var_feasible_b tol s val) (seq 0 (length (m_vars s))).

(* a constraint is saturated when its load is within tol*bound of the bound; variable v is a bottleneck on k when
   pen*value of v is within tol of the largest pen*value among the consuming variables of k *)
Definition cn_load (k : mcn) (val : nat -> Q) : Q := if m_shared k then load (m_elems k) val else lmax (m_elems k) val.
Definition saturated_b (tol : Q) (val : nat -> Q) (k : mcn) : bool :=
  Qle_bool (m_bound k - tol * m_bound k) (cn_load k val).
Definition maximal_on_b (tol : Q) (s : msys) (val : nat -> Q) (k : mcn) (v : nat) : bool :=
  forallb (fun e => negb (qposb (snd e)) ||
                    Qle_bool (pen s (fst e) * val (fst e)) (pen s v * val v + tol * (pen s v * val v))) (m_elems k).
Definition at_bound_b (tol : Q) (s : msys) (val : nat -> Q) (v : nat) : bool :=
  qposb (vbound s v) && Qle_bool (vbound s v - tol * vbound s v) (val v).
Definition var_bottleneck_b (tol : Q) (s : msys) (val : nat -> Q) (v : nat) : bool :=
  negb (consumes s v) || at_bound_b tol s val v ||
  existsb (fun k => existsb (fun e => Nat.eqb (fst e) v && qposb (snd e)) (m_elems k) &&
                    saturated_b tol val k && maximal_on_b tol s val k v) (m_cns s).
Definition bottleneck_b (tol : Q) (s : msys) (val : nat -> Q) : bool :=
  forallb (var_bottleneck_b tol s val) (seq 0 (length (m_vars s))).

(* BMF (bmf.cpp, is_bmf): the share of a variable on a resource is penalty * weight * rate *)
Definition share_on (s : msys) (val : nat -> Q) (k : mcn) (v : nat) : Q := pen s v * wsum (m_elems k) v * val v.
Definition maximal_share_b (tol : Q) (s : msys) (val : nat -> Q) (k : mcn) (v : nat) : bool :=
  forallb (fun e => negb (qposb (snd e)) ||
                    Qle_bool (pen s (fst e) * snd e * val (fst e)) (share_on s val k v + tol * share_on s val k v)) (m_elems k).
Definition var_bmf_b (tol : Q) (s : msys) (val : nat -> Q) (v : nat) : bool :=
  negb (consumes s v) || at_bound_b tol s val v ||
  existsb (fun k => existsb (fun e => Nat.eqb (fst e) v && qposb (snd e)) (m_elems k) &&
                    saturated_b tol val k &&
                    (maximal_share_b tol s val k v ||
                     (* fat-pipe: every flow is capped separately *)
                     (negb (m_shared k) && Qle_bool (m_bound k - tol * m_bound k) (wsum (m_elems k) v * val v)))) (m_cns s).
Definition bmf_b (tol : Q) (s : msys) (val : nat -> Q) : bool :=
  forallb (var_bmf_b tol s val) (seq 0 (length (m_vars s))).

(** ** integer protocol:  tn td  nc nv  then per constraint  bn bd shared ne (v wn wd)*ne , per variable  pn pd bn bd  valn vald *)
Fixpoint take_elems (n : nat) (l : list Z) : list (nat * Q) * list Z :=
  match n with
  | O => ([], l)
  | S n' => match l with
            | a :: wn :: wd :: r => let '(es, rest) := take_elems n' r in ((Z.to_nat a, mkq wn wd) :: es, rest)
            | _ => ([], [])
            end
  end.
Fixpoint take_mcns (n : nat) (l : list Z) : list mcn * list Z :=
  match n with
  | O => ([], l)
  | S n' => match l with
            | bn :: bd :: sh :: ne :: r =>
                let '(es, r1) := take_elems (Z.to_nat ne) r in
                let '(ks, rest) := take_mcns n' r1 in (mkMcn (mkq bn bd) (negb (sh =? 0)%Z) es :: ks, rest)
            | _ => ([], [])
            end
  end.
Fixpoint take_mvars (n : nat) (l : list Z) : list (mvar * Q) :=
  match n with
  | O => []
  | S n' => match l with
            | pn :: pd :: bn :: bd :: xn :: xd :: r => (mkMvar (mkq pn pd) (mkq bn bd), mkq xn xd) :: take_mvars n' r
            | _ => []
            end
  end.
Definition decode_m (l : list Z) : Q * msys * (nat -> Q) :=
  match l with
  | tn :: td :: nc :: nv :: r =>
      let '(ks, r1) := take_mcns (Z.to_nat nc) r in
      let vs := take_mvars (Z.to_nat nv) r1 in
      (mkq tn td, mkMsys ks (map fst vs), fun v => nth v (map snd vs) 0)
  | _ => (0, mkMsys [] [], fun _ => 0)
  end.
Definition b2z (b : bool) : Z := if b then 1%Z else 0%Z.
(* answer: feasible? maxmin bottleneck? bmf? *)
Definition run_alloc_oracle (l : list Z) : list Z :=
  let '(tol, s, val) := decode_m l in [b2z (alloc_feasible_b tol s val); b2z (bottleneck_b tol s val); b2z (bmf_b tol s val)].
(* answer: the model's values as reduced num den pairs, then 1 if the light table is empty at the end *)
Definition run_maxmin (l : list Z) : list Z :=
  let '(_, s, _) := decode_m l in
  let st := maxmin_solve s in
  flat_map (fun v => let x := Qred (st_val st v) in [Qnum x; Z.pos (Qden x)]) (seq 0 (length (m_vars s)))
  ++ [b2z (negb (any_light s st))].
