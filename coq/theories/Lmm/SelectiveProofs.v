(** Lmm/SelectiveProofs.v — proofs about Lmm/Selective.v: the modified set is closed under "shares an enabled variable"
    after every history, whatever the initial value of the counter (including its wrap-around). *)
From SGV Require Import Base.Tactics Lmm.System Lmm.SystemProofs Lmm.Selective.
From Coq Require Import QArith.
Local Open Scope Z_scope.

Lemma memb_In : forall c l, memb c l = true <-> In c l.
Proof.
  intros c l. unfold memb. rewrite existsb_exists. split.
  - intros [x [H1 H2]]. apply Nat.eqb_eq in H2. subst. exact H1.
  - intro H. exists c. split; [exact H|apply Nat.eqb_refl].
Qed.
Lemma memb_nIn : forall c l, memb c l = false <-> ~ In c l.
Proof.
  intros c l. rewrite <- memb_In. destruct (memb c l); split; intro H.
  - discriminate.
  - exfalso. apply H. reflexivity.
  - intro A. discriminate.
  - reflexivity.
Qed.

(** * the traversal on a fixed graph *)
Section Traversal.
  Variable b : sys.
  Variable k : Z.
  Let nc := s_nc b.
  Definition Sub : Prop := forall c u, In u (c_en (s_cn b c)) -> on b u c.
  Definition Ids : Prop := forall u c, on b u c -> (c < s_nc b)%nat.
  Hypothesis HSub : Sub.
  Hypothesis HIds : Ids.

  (* a variable stamped in this epoch has all its constraints in the set; X = variables exempted for the moment *)
  Definition J (X : nat -> Prop) (st : mst) : Prop :=
    forall u, ~ X u -> m_stamp st u = k -> forall c', In u (c_en (s_cn b c')) -> In c' (m_set st).
  Definition Cl (X : nat -> Prop) (st : mst) : Prop :=
    forall c c' u, In c (m_set st) -> ~ X u -> In u (c_en (s_cn b c)) -> In u (c_en (s_cn b c')) -> In c' (m_set st).
  Definition wf (st : mst) : Prop := NoDup (m_set st) /\ forall c, In c (m_set st) -> (c < nc)%nat.
  Definition stamped (st : mst) (c : nat) : Prop := forall v, In v (c_en (s_cn b c)) -> m_stamp st v = k.
  Record Ext (st st' : mst) : Prop := {
    e_incl : incl (m_set st) (m_set st');
    e_stamp : forall v, m_stamp st' v = m_stamp st v \/ m_stamp st' v = k;
    e_new : forall c, In c (m_set st') -> In c (m_set st) \/ stamped st' c;
    e_len : (length (m_set st) <= length (m_set st'))%nat }.

  Lemma Ext_refl : forall st, Ext st st.
  Proof. intro st. constructor; auto using incl_refl. Qed.
  Lemma stamped_ext : forall st st' c, Ext st st' -> stamped st c -> stamped st' c.
  Proof. intros st st' c E H v Hv. destruct (e_stamp _ _ E v) as [A|A]; [rewrite A; apply H; exact Hv|exact A]. Qed.
  Lemma Ext_trans : forall a b0 c, Ext a b0 -> Ext b0 c -> Ext a c.
  Proof.
    intros a b0 c E1 E2. constructor.
    - eapply incl_tran; [apply (e_incl _ _ E1)|apply (e_incl _ _ E2)].
    - intro v. destruct (e_stamp _ _ E2 v) as [A|A]; [rewrite A; apply (e_stamp _ _ E1)|right; exact A].
    - intros x Hx. destruct (e_new _ _ E2 x Hx) as [A|A]; [|right; exact A].
      destruct (e_new _ _ E1 x A) as [B|B]; [left; exact B|right; eapply stamped_ext; eassumption].
    - etransitivity; [apply (e_len _ _ E1)|apply (e_len _ _ E2)].
  Qed.
  Lemma wf_len : forall st, wf st -> (length (m_set st) <= nc)%nat.
  Proof.
    intros st [N B]. rewrite <- (seq_length nc 0). apply NoDup_incl_length; [exact N|].
    intros c Hc. apply in_seq. specialize (B c Hc). lia.
  Qed.
  Lemma J_mono : forall X st st', J X st -> incl (m_set st) (m_set st') -> (forall v, m_stamp st' v = k -> m_stamp st v = k) -> J X st'.
  Proof. intros X st st' H I S u Hx Hk c' Hc. apply I. apply (H u Hx (S u Hk) c' Hc). Qed.

  Lemma Ext_push : forall st c, ~ In c (m_set st) -> forall st', Ext (push c st) st' -> stamped st' c -> Ext st st'.
  Proof.
    intros st c Hn st' E S. constructor.
    - intros x Hx. apply (e_incl _ _ E). cbn. apply in_or_app. now left.
    - apply (e_stamp _ _ E).
    - intros x Hx. destruct (e_new _ _ E x Hx) as [A|A]; [|right; exact A]. cbn in A. apply in_app_or in A.
      destruct A as [A|[A|[]]]; [left; exact A|subst x; right; exact S].
    - assert (L := e_len _ _ E). cbn in L. rewrite app_length in L. cbn in L. lia.
  Qed.

  Definition Rspec (f : nat) (R : nat -> mst -> mst) : Prop :=
    forall c st X, wf st -> J X st -> In c (m_set st) -> (nc < f + length (m_set st))%nat ->
      wf (R c st) /\ J X (R c st) /\ Ext st (R c st) /\ stamped (R c st) c.

  Lemma inner_cons : forall R c v e r st, inner R k c v (e :: r) st =
    inner R k c v r (if m_stamp st v =? k then st
                     else if negb (Nat.eqb (fst e) c) && negb (memb (fst e) (m_set st)) then R (fst e) (push (fst e) st) else st).
  Proof. reflexivity. Qed.
  Lemma outer_cons : forall R c v r st, outer R b k c (v :: r) st = outer R b k c r (stampit (inner R k c v (v_elems (s_var b v)) st) v k).
  Proof. reflexivity. Qed.

  Lemma inner_spec : forall f R, Rspec f R -> forall X c v es st,
    (forall e, In e es -> (fst e < nc)%nat) -> wf st -> J X st -> In c (m_set st) -> (nc <= f + length (m_set st))%nat ->
    let st' := inner R k c v es st in
    wf st' /\ J X st' /\ Ext st st' /\ (m_stamp st' v = k \/ forall e, In e es -> In (fst e) (m_set st')).
  Proof.
    intros f R HR X c v. induction es as [|e r IH]; intros st Hes W Jx Hc Hf.
    - cbn. refine (conj W (conj Jx (conj (Ext_refl st) _))). right; intros e [].
    - rewrite inner_cons. cbv zeta.
      destruct (m_stamp st v =? k) eqn:Ek.
      + destruct (IH st) as [W1 [J1 [E1 D1]]]; try assumption; [intros; apply Hes; now right|].
        refine (conj W1 (conj J1 (conj E1 _))). left. apply Z.eqb_eq in Ek.
        destruct (e_stamp _ _ E1 v) as [A|A]; [rewrite A; exact Ek|exact A].
      + destruct (negb (Nat.eqb (fst e) c) && negb (memb (fst e) (m_set st))) eqn:Ec.
        * apply andb_prop in Ec. destruct Ec as [_ Em]. apply negb_true_iff in Em. apply memb_nIn in Em.
          assert (Wp : wf (push (fst e) st)).
          { destruct W as [N B]. split; cbn.
            - apply nodup_snoc; assumption.
            - intros x Hx. apply in_app_or in Hx. destruct Hx as [Hx|[Hx|[]]]; [apply B; exact Hx|subst x; apply Hes; now left]. }
          assert (Jp : J X (push (fst e) st)) by (apply (J_mono X st); [exact Jx|cbn; apply incl_appl, incl_refl|auto]).
          destruct (HR (fst e) (push (fst e) st) X Wp Jp) as [W1 [J1 [E1 S1]]].
          { cbn. apply in_or_app. right. now left. }
          { cbn. rewrite app_length. cbn. lia. }
          assert (E0 : Ext st (R (fst e) (push (fst e) st))) by (eapply Ext_push; eassumption).
          destruct (IH (R (fst e) (push (fst e) st))) as [W2 [J2 [E2 D2]]]; try assumption.
          { intros; apply Hes; now right. }
          { apply (e_incl _ _ E0). exact Hc. }
          { assert (L := e_len _ _ E0). lia. }
          refine (conj W2 (conj J2 (conj (Ext_trans _ _ _ E0 E2) _))).
          destruct D2 as [D2|D2]; [left; exact D2|right]. intros e' [He'|He']; [|apply D2; exact He'].
          subst e'. apply (e_incl _ _ E2). apply (e_incl _ _ E1). cbn. apply in_or_app. right. now left.
        * destruct (IH st) as [W1 [J1 [E1 D1]]]; try assumption; [intros; apply Hes; now right|].
          refine (conj W1 (conj J1 (conj E1 _))). destruct D1 as [D1|D1]; [left; exact D1|right].
          intros e' [He'|He']; [|apply D1; exact He']. subst e'. apply (e_incl _ _ E1).
          apply andb_false_iff in Ec. destruct Ec as [Ec|Ec]; apply negb_false_iff in Ec.
          -- apply Nat.eqb_eq in Ec. rewrite Ec. exact Hc.
          -- apply memb_In. exact Ec.
  Qed.

  Lemma outer_spec : forall f R, Rspec f R -> forall X c vs st,
    wf st -> J X st -> In c (m_set st) -> (nc <= f + length (m_set st))%nat ->
    let st' := outer R b k c vs st in
    wf st' /\ J X st' /\ Ext st st' /\ forall v, In v vs -> m_stamp st' v = k.
  Proof.
    intros f R HR X c. induction vs as [|v r IH]; intros st W Jx Hc Hf.
    - cbn. refine (conj W (conj Jx (conj (Ext_refl st) _))). intros v [].
    - rewrite outer_cons. cbv zeta.
      destruct (inner_spec f R HR X c v (v_elems (s_var b v)) st) as [W1 [J1 [E1 D1]]]; try assumption.
      { intros e He. apply HIds with (u := v). unfold on. apply in_map. exact He. }
      set (st1 := inner R k c v (v_elems (s_var b v)) st) in *.
      assert (W2 : wf (stampit st1 v k)) by exact W1.
      assert (J2 : J X (stampit st1 v k)).
      { intros u Hx Hk c' Hc'. cbn. cbn in Hk. unfold upd in Hk. destruct (Nat.eqb u v) eqn:Euv.
        - apply Nat.eqb_eq in Euv. subst u. destruct D1 as [D1|D1]; [apply (J1 v Hx D1 c' Hc')|].
          assert (O := HSub c' v Hc'). unfold on in O. apply in_map_iff in O. destruct O as [e [O1 O2]]. rewrite <- O1. apply D1. exact O2.
        - apply (J1 u Hx Hk c' Hc'). }
      assert (E2 : Ext st1 (stampit st1 v k)).
      { constructor; cbn.
        - apply incl_refl.
        - intro u. unfold upd. destruct (Nat.eqb u v); auto.
        - intros x Hx. left. exact Hx.
        - lia. }
      assert (E02 : Ext st (stampit st1 v k)) by (eapply Ext_trans; eassumption).
      destruct (IH (stampit st1 v k)) as [W3 [J3 [E3 D3]]]; try assumption.
      { apply (e_incl _ _ E02). exact Hc. }
      { assert (L := e_len _ _ E02). lia. }
      refine (conj W3 (conj J3 (conj (Ext_trans _ _ _ E02 E3) _))).
      intros u [Hu|Hu]; [|apply D3; exact Hu]. subst u.
      destruct (e_stamp _ _ E3 v) as [A|A]; [|exact A]. rewrite A. cbn. apply upd_same.
  Qed.

  Lemma mrec_spec : forall f, Rspec f (mrec f b k).
  Proof.
    induction f as [|f IH]; intros c st X W Jx Hc Hf.
    - exfalso. assert (L := wf_len st W). lia.
    - cbn [mrec]. destruct (outer_spec f (mrec f b k) IH X c (c_en (s_cn b c)) st) as [W1 [J1 [E1 D1]]]; try assumption; [lia|].
      refine (conj W1 (conj J1 (conj E1 D1))).
  Qed.

  Lemma Cl_ext : forall X st st', Cl X st -> J X st' -> Ext st st' -> Cl X st'.
  Proof.
    intros X st st' C Jx E c c' u Hc Hx Hu Hu'. destruct (e_new _ _ E c Hc) as [A|A].
    - apply (e_incl _ _ E). apply (C c c' u A Hx Hu Hu').
    - apply (Jx u Hx (A u Hu) c' Hu').
  Qed.

  Lemma upd_cnst_spec : forall X c st, (c < nc)%nat -> wf st -> J X st -> Cl X st ->
    let st' := upd_cnst b k c st in
    wf st' /\ J X st' /\ Cl X st' /\ Ext st st' /\ In c (m_set st').
  Proof.
    intros X c st Hc W Jx C. unfold upd_cnst. destruct (memb c (m_set st)) eqn:Em.
    - apply memb_In in Em. refine (conj W (conj Jx (conj C (conj (Ext_refl st) Em)))).
    - apply memb_nIn in Em.
      assert (Wp : wf (push c st)).
      { destruct W as [N B]. split; cbn; [apply nodup_snoc; assumption|].
        intros x Hx. apply in_app_or in Hx. destruct Hx as [Hx|[Hx|[]]]; [apply B; exact Hx|subst x; exact Hc]. }
      assert (Jp : J X (push c st)) by (apply (J_mono X st); [exact Jx|cbn; apply incl_appl, incl_refl|auto]).
      destruct (mrec_spec (S (s_nc b)) c (push c st) X Wp Jp) as [W1 [J1 [E1 S1]]].
      { cbn. apply in_or_app. right. now left. }
      { fold nc. lia. }
      assert (E0 : Ext st (mrec (S (s_nc b)) b k c (push c st))) by (eapply Ext_push; eassumption).
      refine (conj W1 (conj J1 (conj (Cl_ext _ _ _ C J1 E0) (conj E0 _)))).
      apply (e_incl _ _ E1). cbn. apply in_or_app. right. now left.
  Qed.

  Lemma fold_upd_spec : forall X (es : list (nat * Q)) st, (forall e, In e es -> (fst e < nc)%nat) -> wf st -> J X st -> Cl X st ->
    let st' := fold_left (fun st e => upd_cnst b k (fst e) st) es st in
    wf st' /\ J X st' /\ Cl X st' /\ Ext st st' /\ forall e, In e es -> In (fst e) (m_set st').
  Proof.
    intros X. induction es as [|e r IH]; intros st Hes W Jx C.
    - cbn. refine (conj W (conj Jx (conj C (conj (Ext_refl st) _)))). intros e [].
    - cbn [fold_left]. destruct (upd_cnst_spec X (fst e) st) as [W1 [J1 [C1 [E1 I1]]]]; try assumption; [apply Hes; now left|].
      destruct (IH (upd_cnst b k (fst e) st)) as [W2 [J2 [C2 [E2 I2]]]]; try assumption; [intros; apply Hes; now right|].
      refine (conj W2 (conj J2 (conj C2 (conj (Ext_trans _ _ _ E1 E2) _)))).
      intros e' [He'|He']; [subst e'; apply (e_incl _ _ E2); exact I1|apply I2; exact He'].
  Qed.

  Definition plus (X : nat -> Prop) (v : nat) : nat -> Prop := fun u => X u \/ u = v.

  Lemma J_weaken : forall (X X' : nat -> Prop) st, (forall u, X u -> X' u) -> J X st -> J X' st.
  Proof. intros X X' st H Jx u Hx. apply Jx. intro A. apply Hx. apply H. exact A. Qed.
  Lemma Cl_weaken : forall (X X' : nat -> Prop) st, (forall u, X u -> X' u) -> Cl X st -> Cl X' st.
  Proof. intros X X' st H C c c' u Hc Hx. apply (C c c' u Hc). intro A. apply Hx. apply H. exact A. Qed.
  (* an exempted variable whose constraints are all in the set needs no exemption *)
  Lemma J_drop : forall X v st, J (plus X v) st -> (forall c', In v (c_en (s_cn b c')) -> In c' (m_set st)) -> J X st.
  Proof.
    intros X v st Jx H u Hx Hk c' Hc'. destruct (Nat.eq_dec u v) as [->|Hne]; [apply H; exact Hc'|].
    apply (Jx u); [intros [A|A]; [apply Hx; exact A|apply Hne; exact A]|exact Hk|exact Hc'].
  Qed.
  Lemma Cl_drop : forall X v st, Cl (plus X v) st -> (forall c', In v (c_en (s_cn b c')) -> In c' (m_set st)) -> Cl X st.
  Proof.
    intros X v st C H c c' u Hc Hx Hu Hu'. destruct (Nat.eq_dec u v) as [->|Hne]; [apply H; exact Hu'|].
    apply (C c c' u Hc); [intros [A|A]; [apply Hx; exact A|apply Hne; exact A]|exact Hu|exact Hu'].
  Qed.

  Lemma from_var_spec : forall fx X v st, fx_from fx = true -> wf st -> J (plus X v) st -> Cl (plus X v) st ->
    (qpos (v_pen (s_var b v)) = false -> forall c, ~ In v (c_en (s_cn b c))) ->
    let st' := from_var fx b k v st in
    wf st' /\ J X st' /\ Cl X st' /\ Ext st st' /\ (qpos (v_pen (s_var b v)) = true -> forall c', on b v c' -> In c' (m_set st')).
  Proof.
    intros fx X v st Hfx W Jx C H0. unfold from_var.
    destruct (v_elems (s_var b v)) as [|e0 r] eqn:Ee.
    - assert (Hn : forall c', ~ In v (c_en (s_cn b c'))).
      { intros c' Hc'. assert (O := HSub c' v Hc'). unfold on in O. rewrite Ee in O. destruct O. }
      refine (conj W (conj (J_drop X v st Jx _) (conj (Cl_drop X v st C _) (conj (Ext_refl st) _)))).
      + intros c' Hc'. destruct (Hn c' Hc').
      + intros c' Hc'. destruct (Hn c' Hc').
      + intros _ c' O. unfold on in O. rewrite Ee in O. destruct O.
    - destruct (qpos (v_pen (s_var b v))) eqn:Ep; cbn [negb].
      + rewrite Hfx. rewrite <- Ee.
        destruct (fold_upd_spec (plus X v) (v_elems (s_var b v)) st) as [W1 [J1 [C1 [E1 I1]]]]; try assumption.
        { intros e He. apply HIds with (u := v). unfold on. apply in_map. exact He. }
        assert (All : forall c', on b v c' -> In c' (m_set (fold_left (fun st e => upd_cnst b k (fst e) st) (v_elems (s_var b v)) st))).
        { intros c' O. unfold on in O. apply in_map_iff in O. destruct O as [e [O1 O2]]. rewrite <- O1. apply I1. exact O2. }
        refine (conj W1 (conj (J_drop X v _ J1 _) (conj (Cl_drop X v _ C1 _) (conj E1 _)))).
        * intros c' Hc'. apply All. apply HSub. exact Hc'.
        * intros c' Hc'. apply All. apply HSub. exact Hc'.
        * intros _. exact All.
      + specialize (H0 eq_refl). refine (conj W (conj (J_drop X v st Jx _) (conj (Cl_drop X v st C _) (conj (Ext_refl st) _)))).
        * intros c' Hc'. destruct (H0 c' Hc').
        * intros c' Hc'. destruct (H0 c' Hc').
        * discriminate.
  Qed.
End Traversal.

(** * lifting to the system state *)
Definition ms (x : sel) : mst := mkMst (x_mod x) (x_stamp x).
Definition GJ (X : nat -> Prop) (b : sys) (k : Z) (st : mst) : Prop := wf b st /\ J b k X st /\ Cl b X st.
Definition St (X : nat -> Prop) (x : sel) : Prop := Sub (x_base x) /\ Ids (x_base x) /\ GJ X (x_base x) (x_cnt x) (ms x).
Record Mono (x x' : sel) : Prop := {
  mo_incl : incl (x_mod x) (x_mod x');
  mo_cnt : x_cnt x' = x_cnt x;
  mo_touched : x_touched x' = x_touched x;
  mo_stamp : forall v, x_stamp x' v = x_stamp x v \/ x_stamp x' v = x_cnt x }.
Lemma Mono_refl : forall x, Mono x x.
Proof. intro x. constructor; auto using incl_refl. Qed.
Lemma Mono_trans : forall a b c, Mono a b -> Mono b c -> Mono a c.
Proof.
  intros a b c [A1 A2 A3 A5] [B1 B2 B3 B5]. constructor; try congruence.
  - eapply incl_tran; eassumption.
  - intro v. destruct (B5 v) as [E|E]; [rewrite E; apply A5|right; congruence].
Qed.
Lemma Mono_base : forall x b, Mono x (with_base x b).
Proof. intros x b. constructor; cbn; auto using incl_refl. Qed.

Definition gfr (v : nat) (b b' : sys) : Prop :=
  s_nc b' = s_nc b /\ forall c u, u <> v -> In u (c_en (s_cn b' c)) -> In u (c_en (s_cn b c)).
Lemma GJ_weaken : forall (X X' : nat -> Prop) b k st, (forall u, X u -> X' u) -> GJ X b k st -> GJ X' b k st.
Proof. intros X X' b k st H [W [Jx C]]. split; [exact W|split; [eapply J_weaken; eassumption|eapply Cl_weaken; eassumption]]. Qed.
Lemma GJ_gfr : forall X v b b' k st, gfr v b b' -> GJ X b k st -> GJ (plus X v) b' k st.
Proof.
  intros X v b b' k st [N F] [[W1 W2] [Jx C]]. split; [split; [exact W1|rewrite N; exact W2]|split].
  - intros u Hx Hk c' Hc'. assert (Hne : u <> v) by (intro A; apply Hx; right; exact A).
    apply (Jx u); [intro A; apply Hx; left; exact A|exact Hk|apply F; assumption].
  - intros c c' u Hc Hx Hu Hu'. assert (Hne : u <> v) by (intro A; apply Hx; right; exact A).
    apply (C c c' u Hc); [intro A; apply Hx; left; exact A|apply F; assumption|apply F; assumption].
Qed.
Lemma GJ_sge : forall X b b' k st, s_nc b' = s_nc b -> (forall c, c_en (s_cn b' c) = c_en (s_cn b c)) -> GJ X b k st -> GJ X b' k st.
Proof.
  intros X b b' k st N F [[W1 W2] [Jx C]]. split; [split; [exact W1|rewrite N; exact W2]|split].
  - intros u Hx Hk c' Hc'. rewrite F in Hc'. apply (Jx u Hx Hk c' Hc').
  - intros c c' u Hc Hx Hu Hu'. rewrite F in Hu, Hu'. apply (C c c' u Hc Hx Hu Hu').
Qed.
Lemma GJ_drop : forall X v b k st, GJ (plus X v) b k st -> (forall c', In v (c_en (s_cn b c')) -> In c' (m_set st)) -> GJ X b k st.
Proof. intros X v b k st [W [Jx C]] H. split; [exact W|split; [eapply J_drop; eassumption|eapply Cl_drop; eassumption]]. Qed.
Lemma plus_idem : forall (X : nat -> Prop) v u, plus (plus X v) v u -> plus X v u.
Proof. intros X v u [A|A]; [exact A|right; exact A]. Qed.

(** ** the primitives of System.v and the graph *)
Lemma apply_elems_en : forall g v, (forall w k u, In u (c_en (g w k)) -> u = v \/ In u (c_en k)) ->
  forall es cn c u, In u (c_en (apply_elems g es cn c)) -> (u = v /\ In c (map fst es)) \/ In u (c_en (cn c)).
Proof.
  intros g v Hg. unfold apply_elems. induction es as [|e r IH]; intros cn c u H; [right; exact H|].
  cbn [fold_left] in H. apply IH in H. destruct H as [[H1 H2]|H]; [left; split; [exact H1|now right]|].
  unfold upd in H. destruct (Nat.eqb c (fst e)) eqn:E; [|right; exact H].
  apply Nat.eqb_eq in E. subst c. apply Hg in H. destruct H as [H|H]; [left; split; [exact H|now left]|right; exact H].
Qed.
Lemma enable_var_en : forall b v c u, In u (c_en (s_cn (enable_var b v) c)) -> (u = v /\ on b v c) \/ In u (c_en (s_cn b c)).
Proof.
  intros b v c u H. unfold enable_var in H. cbn [s_cn] in H. apply (apply_elems_en (cn_enable v) v) in H; [exact H|].
  intros w k u0 H0. cbn in H0. destruct H0 as [H0|H0]; [left; congruence|right; exact H0].
Qed.
Lemma disable_var_en : forall b v c u, In u (c_en (s_cn (disable_var b v) c)) -> In u (c_en (s_cn b c)).
Proof.
  intros b v c u H. unfold disable_var in H. cbn [s_cn] in H.
  assert (G : forall es cn, In u (c_en (apply_elems (cn_disable v) es cn c)) -> In u (c_en (cn c))).
  { unfold apply_elems. induction es as [|e r IH]; intros cn H0; [exact H0|]. cbn [fold_left] in H0. apply IH in H0.
    unfold upd in H0. destruct (Nat.eqb c (fst e)) eqn:E; [|exact H0]. apply Nat.eqb_eq in E. subst c. cbn in H0. apply in_erase in H0. apply H0. }
  apply G in H. exact H.
Qed.
Lemma enable_var_nc : forall b v, s_nc (enable_var b v) = s_nc b. Proof. reflexivity. Qed.
Lemma disable_var_nc : forall b v, s_nc (disable_var b v) = s_nc b. Proof. reflexivity. Qed.

Lemma enable_var_graph : forall b v, Sub b -> Ids b ->
  gfr v b (enable_var b v) /\ Sub (enable_var b v) /\ Ids (enable_var b v).
Proof.
  intros b v S I. split; [split; [reflexivity|]|split].
  - intros c u Hne H. apply enable_var_en in H. destruct H as [[H _]|H]; [contradiction|exact H].
  - intros c u H. apply enable_var_on. apply enable_var_en in H. destruct H as [[-> H]|H]; [exact H|apply S; exact H].
  - intros u c H. apply enable_var_on in H. apply (I u c H).
Qed.
Lemma disable_var_graph : forall b v, Sub b -> Ids b ->
  gfr v b (disable_var b v) /\ Sub (disable_var b v) /\ Ids (disable_var b v).
Proof.
  intros b v S I. split; [split; [reflexivity|]|split].
  - intros c u _ H. apply disable_var_en in H. exact H.
  - intros c u H. apply disable_var_on. apply S. apply disable_var_en in H. exact H.
  - intros u c H. apply disable_var_on in H. apply (I u c H).
Qed.

Lemma add_elem_graph : forall b c v w, (c < s_nc b)%nat -> Sub b -> Ids b ->
  gfr v b (add_elem b c v w) /\ Sub (add_elem b c v w) /\ Ids (add_elem b c v w) /\
  v_pen (s_var (add_elem b c v w) v) = v_pen (s_var b v).
Proof.
  intros b c v w Hc S I.
  assert (On : forall u c0, on b u c0 -> on (add_elem b c v w) u c0).
  { intros u c0 H. unfold on, add_elem in *. destruct (lookup c (v_elems (s_var b v))); cbn [s_var]; unfold upd;
      (destruct (Nat.eqb u v) eqn:E; [apply Nat.eqb_eq in E; subst u; cbn [v_elems]|exact H]).
    - rewrite map_fst_set_w. exact H.
    - rewrite map_app. apply in_or_app. left. exact H. }
  assert (On' : forall u c0, on (add_elem b c v w) u c0 -> on b u c0 \/ (u = v /\ c0 = c)).
  { intros u c0 H. unfold on, add_elem in *. destruct (lookup c (v_elems (s_var b v))); cbn [s_var] in H; unfold upd in H;
      (destruct (Nat.eqb u v) eqn:E; [apply Nat.eqb_eq in E; subst u; cbn [v_elems] in H|left; exact H]).
    - rewrite map_fst_set_w in H. left. exact H.
    - rewrite map_app in H. apply in_app_or in H. destruct H as [H|[H|[]]]; [left; exact H|right; split; [reflexivity|symmetry; exact H]]. }
  assert (En : forall c0 u, In u (c_en (s_cn (add_elem b c v w) c0)) ->
               In u (c_en (s_cn b c0)) \/ (u = v /\ c0 = c /\ lookup c (v_elems (s_var b v)) = None)).
  { intros c0 u H. unfold add_elem in H. destruct (lookup c (v_elems (s_var b v))) eqn:El; cbn [s_cn] in H; unfold upd in H;
      (destruct (Nat.eqb c0 c) eqn:E; [apply Nat.eqb_eq in E; subst c0|left; exact H]).
    - cbn in H. left. exact H.
    - destruct (qnz (v_pen (s_var b v))); cbn in H; [destruct H as [H|H]; [right; auto|left; exact H]|left; exact H]. }
  split; [split|split; [|split]].
  - unfold add_elem. destruct (lookup c (v_elems (s_var b v))); reflexivity.
  - intros c0 u Hne H. apply En in H. destruct H as [H|[H _]]; [exact H|contradiction].
  - intros c0 u H. apply En in H. destruct H as [H|[-> [-> El]]]; [apply On; apply S; exact H|].
    unfold on, add_elem. rewrite El. cbn [s_var]. rewrite upd_same. cbn [v_elems]. rewrite map_app. apply in_or_app. right. now left.
  - intros u c0 H. assert (N : s_nc (add_elem b c v w) = s_nc b) by (unfold add_elem; destruct (lookup c (v_elems (s_var b v))); reflexivity).
    rewrite N. apply On' in H. destruct H as [H|[_ ->]]; [apply (I u c0 H)|exact Hc].
  - unfold add_elem. destruct (lookup c (v_elems (s_var b v))); cbn [s_var]; rewrite upd_same; reflexivity.
Qed.

Lemma detach_graph : forall b v c w, Sub b -> Ids b ->
  gfr v b (detach b v c w) /\ Sub (detach b v c w) /\ Ids (detach b v c w) /\
  (forall c0 u, In u (c_en (s_cn (detach b v c w) c0)) -> In u (c_en (s_cn b c0))).
Proof.
  intros b v c w S I.
  assert (En : forall c0 u, In u (c_en (s_cn (detach b v c w) c0)) -> In u (c_en (s_cn b c0)) /\ (c0 = c -> u <> v)).
  { intros c0 u H. unfold detach in H. cbn [s_cn] in H. unfold upd in H. destruct (Nat.eqb c0 c) eqn:E.
    - apply Nat.eqb_eq in E. subst c0. cbn in H. apply in_erase in H. split; [apply H|intros _; apply H].
    - split; [exact H|]. intro A. subst c0. rewrite Nat.eqb_refl in E. discriminate. }
  assert (On : forall u c0, on (detach b v c w) u c0 <-> (if Nat.eqb u v then on b u c0 /\ c0 <> c else on b u c0)).
  { intros u c0. unfold on, detach. cbn [s_var]. unfold upd. destruct (Nat.eqb u v) eqn:E; [|tauto].
    apply Nat.eqb_eq in E. subst u. cbn [v_elems]. apply in_del_key. }
  split; [split; [reflexivity|]|split; [|split]].
  - intros c0 u _ H. apply En in H. apply H.
  - intros c0 u H. apply En in H. destruct H as [H1 H2]. apply On. destruct (Nat.eqb u v) eqn:E; [|apply S; exact H1].
    apply Nat.eqb_eq in E. subst u. split; [apply S; exact H1|]. intro A. apply (H2 A). reflexivity.
  - intros u c0 H. apply On in H. change (s_nc (detach b v c w)) with (s_nc b). destruct (Nat.eqb u v); [apply (I u c0); apply H|apply (I u c0 H)].
  - intros c0 u H. apply En in H. apply H.
Qed.

(** ** the operations on the selective-update members *)
Notation FX := all_fixes.

Lemma Ext_Mono : forall x st', Ext (x_base x) (x_cnt x) (ms x) st' ->
  Mono x (mkSel (x_base x) (m_set st') (m_stamp st') (x_cnt x) (x_dirty x) (x_touched x)).
Proof. intros x st' E. constructor; cbn; auto; [apply (e_incl _ _ _ _ E)|apply (e_stamp _ _ _ _ E)]. Qed.

Lemma x_upd_cnst_spec : forall X x c, St X x -> (c < s_nc (x_base x))%nat ->
  let x' := x_upd_cnst x c in
  x_base x' = x_base x /\ St X x' /\ Mono x x' /\ In c (x_mod x').
Proof.
  intros X x c [S [I [W [Jx C]]]] Hc.
  destruct (upd_cnst_spec (x_base x) (x_cnt x) S I X c (ms x) Hc W Jx C) as [W1 [J1 [C1 [E1 I1]]]].
  split; [reflexivity|split; [|split]].
  - split; [exact S|split; [exact I|split; [exact W1|split; [exact J1|exact C1]]]].
  - apply Ext_Mono. exact E1.
  - exact I1.
Qed.

Lemma x_from_var_spec : forall X x v, Sub (x_base x) -> Ids (x_base x) -> GJ (plus X v) (x_base x) (x_cnt x) (ms x) ->
  (qpos (v_pen (s_var (x_base x) v)) = false -> forall c, ~ In v (c_en (s_cn (x_base x) c))) ->
  let x' := x_from_var FX x v in
  x_base x' = x_base x /\ St X x' /\ Mono x x' /\
  (qpos (v_pen (s_var (x_base x) v)) = true -> forall c', on (x_base x) v c' -> In c' (x_mod x')).
Proof.
  intros X x v S I [W [Jx C]] H0.
  destruct (from_var_spec (x_base x) (x_cnt x) S I FX X v (ms x) eq_refl W Jx C H0) as [W1 [J1 [C1 [E1 I1]]]].
  split; [reflexivity|split; [|split]].
  - split; [exact S|split; [exact I|split; [exact W1|split; [exact J1|exact C1]]]].
  - apply Ext_Mono. exact E1.
  - exact I1.
Qed.

Lemma St_base_gfr : forall X x v b', St X x -> gfr v (x_base x) b' -> Sub b' -> Ids b' ->
  Sub b' /\ Ids b' /\ GJ (plus X v) b' (x_cnt x) (ms x).
Proof. intros X x v b' [_ [_ G]] F S I. split; [exact S|split; [exact I|eapply GJ_gfr; eassumption]]. Qed.

Lemma x_enable_var_spec : forall X x v, St X x -> qpos (v_staged (s_var (x_base x) v)) = true ->
  let x' := x_enable_var FX x v in
  x_base x' = enable_var (x_base x) v /\ St X x' /\ Mono x x' /\ (forall c', on (x_base x) v c' -> In c' (x_mod x')).
Proof.
  intros X x v H Hs. assert (H' := H). destruct H' as [S [I G]].
  destruct (enable_var_graph (x_base x) v S I) as [F [S' I']].
  destruct (St_base_gfr X x v _ H F S' I') as [_ [_ G']].
  unfold x_enable_var.
  assert (Hp : qpos (v_pen (s_var (x_base (with_base x (enable_var (x_base x) v))) v)) = true).
  { cbn [with_base x_base]. rewrite enable_var_var, Nat.eqb_refl. cbn [v_pen]. exact Hs. }
  destruct (x_from_var_spec X (with_base x (enable_var (x_base x) v)) v S' I' G') as [B1 [S1 [M1 A1]]].
  { rewrite Hp. discriminate. }
  split; [exact B1|split; [exact S1|split]].
  - eapply Mono_trans; [apply (Mono_base x (enable_var (x_base x) v))|exact M1].
  - intros c' O. apply (A1 Hp). cbn [with_base x_base]. apply enable_var_on. exact O.
Qed.

Lemma x_disable_var_spec : forall X x v, St X x -> qpos (v_pen (s_var (x_base x) v)) = true ->
  let x' := x_disable_var FX x v in
  x_base x' = disable_var (x_base x) v /\ St (plus X v) x' /\ Mono x x' /\
  (forall c', on (x_base x) v c' -> In c' (x_mod x')).
Proof.
  intros X x v [S [I G]] Hp. unfold x_disable_var.
  destruct (x_from_var_spec X x v S I (GJ_weaken X (plus X v) _ _ _ (fun u A => or_introl A) G)) as [B1 [S1 [M1 A1]]].
  { rewrite Hp. discriminate. }
  set (x1 := x_from_var FX x v) in *. cbv zeta. rewrite B1.
  destruct (disable_var_graph (x_base x) v S I) as [F [S' I']].
  rewrite <- B1 in F. destruct (St_base_gfr X x1 v _ S1 F S' I') as [_ [_ G']].
  split; [reflexivity|split; [|split]].
  - split; [exact S'|split; [exact I'|exact G']].
  - eapply Mono_trans; [exact M1|apply Mono_base].
  - intros c' O. apply (A1 Hp c' O).
Qed.

Lemma x_odv_loop_spec : forall c l X x, St X x ->
  let x' := x_odv_loop FX c l x in
  x_base x' = odv_loop c l (x_base x) /\ St X x' /\ Mono x x'.
Proof.
  intros c. induction l as [|u r IH]; intros X x H; [split; [reflexivity|split; [exact H|apply Mono_refl]]|].
  cbn [x_odv_loop odv_loop]. destruct (can_enable (x_base x) u) eqn:Ec.
  - unfold can_enable in Ec. apply andb_prop in Ec. destruct Ec as [Ec _].
    destruct (x_enable_var_spec X x u H Ec) as [B1 [S1 [M1 _]]]. cbv zeta. rewrite B1.
    destruct (c_cur (s_cn (enable_var (x_base x) u) c) =? c_limit (s_cn (enable_var (x_base x) u) c)).
    + split; [exact B1|split; [exact S1|exact M1]].
    + destruct (IH X _ S1) as [B2 [S2 M2]]. rewrite B1 in B2. split; [exact B2|split; [exact S2|eapply Mono_trans; eassumption]].
  - cbv zeta. destruct (c_cur (s_cn (x_base x) c) =? c_limit (s_cn (x_base x) c)).
    + split; [reflexivity|split; [exact H|apply Mono_refl]].
    + apply IH. exact H.
Qed.
Lemma x_on_disabled_var_spec : forall c X x, St X x ->
  let x' := x_on_disabled_var FX x c in
  x_base x' = on_disabled_var (x_base x) c /\ St X x' /\ Mono x x'.
Proof.
  intros c X x H. unfold x_on_disabled_var, on_disabled_var. destruct (c_limit (s_cn (x_base x) c) <? 0).
  - split; [reflexivity|split; [exact H|apply Mono_refl]].
  - apply x_odv_loop_spec. exact H.
Qed.
Lemma x_odv_all_spec : forall es X x, St X x ->
  let x' := x_odv_all FX x es in
  x_base x' = odv_all (x_base x) es /\ St X x' /\ Mono x x'.
Proof.
  unfold x_odv_all, odv_all. induction es as [|e r IH]; intros X x H; [split; [reflexivity|split; [exact H|apply Mono_refl]]|].
  cbn [fold_left]. destruct (x_on_disabled_var_spec (fst e) X x H) as [B1 [S1 M1]].
  destruct (IH X _ S1) as [B2 [S2 M2]]. rewrite B1 in B2. split; [exact B2|split; [exact S2|eapply Mono_trans; eassumption]].
Qed.

(* changes of the base that leave the enabled sets and the element lists alone *)
Lemma St_same : forall X x b', St X x -> s_nc b' = s_nc (x_base x) -> (forall c, s_cn b' c = s_cn (x_base x) c) ->
  (forall u, v_elems (s_var b' u) = v_elems (s_var (x_base x) u)) -> St X (with_base x b').
Proof.
  intros X x b' [S [I G]] N Hc He. split; [|split].
  - intros c u H. cbn [with_base x_base] in *. rewrite Hc in H. unfold on. rewrite He. apply S. exact H.
  - intros u c H. cbn [with_base x_base] in *. rewrite N. unfold on in H. rewrite He in H. apply (I u c H).
  - cbn [with_base x_base x_cnt]. apply (GJ_sge X (x_base x)); [exact N|intro c; rewrite Hc; reflexivity|exact G].
Qed.
Lemma Mono_dirty : forall x, Mono x (dirty x).
Proof. intro x. constructor; cbn; auto using incl_refl. Qed.

(** ** facts at the boundaries of API calls, from the invariants of System.v *)
Lemma inv_Sub : forall b, inv_all b -> Sub b.
Proof. intros b [[I _] _] c u H. apply (i_en _ I) in H. apply H. Qed.
Lemma inv_Ids : forall b, inv_all b -> Ids b.
Proof. intros b [_ [_ H]]. exact H. Qed.
Lemma inv_en : forall b c v, inv_all b -> In v (c_en (s_cn b c)) -> v_alive (s_var b v) = true /\ qpos (v_pen (s_var b v)) = true.
Proof. intros b c v [[I _] _] H. apply (i_en _ I) in H. destruct H as [A [B _]]. split; [exact A|exact B]. Qed.
Lemma inv_sign : forall b v, inv_all b -> 0 <= Qnum (v_pen (s_var b v)).
Proof. intros b v [[I _] _]. apply (i_sign _ I). Qed.

Lemma odv_loop_nc : forall c l s, s_nc (odv_loop c l s) = s_nc s.
Proof.
  intros c. induction l as [|u r IH]; intro s; [reflexivity|]. cbn [odv_loop].
  destruct (can_enable s u); cbv zeta.
  - destruct (_ =? _); [reflexivity|]. rewrite IH. reflexivity.
  - destruct (_ =? _); [reflexivity|]. apply IH.
Qed.
Lemma odv_all_nc : forall es s, s_nc (odv_all s es) = s_nc s.
Proof.
  unfold odv_all. induction es as [|e r IH]; intro s; [reflexivity|]. cbn [fold_left]. rewrite IH.
  unfold on_disabled_var. destruct (_ <? _); [reflexivity|apply odv_loop_nc].
Qed.

Definition NoX : nat -> Prop := fun _ => False.
Definition Xv (v : nat) : nat -> Prop := plus NoX v.

Definition Bnd (x : sel) : Prop := 1 <= x_cnt x < W32 /\ forall v, 0 <= x_stamp x v <= x_cnt x.
Lemma Bnd_mono : forall x x', Mono x x' -> Bnd x -> Bnd x'.
Proof.
  intros x x' M [B1 B2]. split; [rewrite (mo_cnt _ _ M); exact B1|]. intro v. rewrite (mo_cnt _ _ M).
  destruct (mo_stamp _ _ M v) as [A|A]; rewrite A; [apply B2|lia].
Qed.

(* an exempted variable that is enabled nowhere needs no exemption *)
Lemma St_unexempt : forall x v, St (Xv v) x -> (forall c, ~ In v (c_en (s_cn (x_base x) c))) -> St NoX x.
Proof.
  intros x v [S [I G]] H. split; [exact S|split; [exact I|]]. eapply GJ_drop; [exact G|]. intros c' Hc'. destruct (H c' Hc').
Qed.

(** ** expand *)
Lemma x_expand_core_spec : forall x c v w, inv_all (x_base x) -> St NoX x -> (c < s_nc (x_base x))%nat ->
  let x5 := x_expand_core FX x c v w in
  x_base x5 = expand (x_base x) c v w /\ St (Xv v) x5 /\ Mono x x5 /\ s_nc (x_base x5) = s_nc (x_base x).
Proof.
  intros x c v w IA H Hc. assert (H' := H). destruct H' as [S [I G]].
  unfold x_expand_core, expand. cbv zeta. cbn [dirty x_base].
  destruct (add_elem_graph (x_base x) c v w Hc S I) as [F [S2 [I2 P2]]].
  set (b2 := add_elem (x_base x) c v w) in *.
  assert (H2 : St (Xv v) (with_base (dirty x) b2)).
  { destruct (St_base_gfr NoX (dirty x) v b2 H F S2 I2) as [A [B C]]. split; [exact A|split; [exact B|exact C]]. }
  assert (N2 : s_nc b2 = s_nc (x_base x)) by apply F.
  cbn [with_base x_base].
  destruct (qnz (v_pen (s_var (x_base x) v)) && (slack (s_cn b2 c) <? 0)) eqn:Eq.
  - apply andb_prop in Eq. destruct Eq as [Eq _]. rewrite (qnz_qpos _ (inv_sign _ v IA)) in Eq.
    destruct (x_disable_var_spec (Xv v) (with_base (dirty x) b2) v H2) as [B3 [S3 [M3 _]]].
    { cbn [with_base x_base]. rewrite P2. exact Eq. }
    set (x3 := x_disable_var FX (with_base (dirty x) b2) v) in *. cbn [with_base x_base] in B3.
    assert (S3' : St (Xv v) x3).
    { destruct S3 as [A [B C]]. split; [exact A|split; [exact B|]]. eapply GJ_weaken; [|exact C]. apply plus_idem. }
    destruct (x_odv_all_spec (v_elems (s_var (x_base x3) v)) (Xv v) x3 S3') as [B4 [S4 M4]].
    set (x4 := x_odv_all FX x3 (v_elems (s_var (x_base x3) v))) in *.
    split; [|split; [|split]].
    + cbn [with_base x_base]. rewrite B4, B3. reflexivity.
    + apply St_same; [exact S4|reflexivity|reflexivity|].
      intro u. unfold set_staged, set_var. cbn [s_var]. unfold upd. destruct (Nat.eqb u v) eqn:E; [|reflexivity].
      apply Nat.eqb_eq in E. subst u. reflexivity.
    + eapply Mono_trans; [apply Mono_dirty|]. eapply Mono_trans; [apply (Mono_base (dirty x) b2)|].
      eapply Mono_trans; [exact M3|]. eapply Mono_trans; [exact M4|apply Mono_base].
    + cbn [with_base x_base]. change (s_nc (set_staged (x_base x4) v (v_pen (s_var (x_base x) v)))) with (s_nc (x_base x4)).
      rewrite B4, odv_all_nc, B3. exact N2.
  - split; [reflexivity|split; [exact H2|split; [|exact N2]]].
    eapply Mono_trans; [apply Mono_dirty|apply (Mono_base (dirty x) b2)].
Qed.

Lemma x_expand_spec : forall x c v w, inv_all (x_base x) -> St NoX x -> (c < s_nc (x_base x))%nat ->
  inv_all (expand (x_base x) c v w) ->
  let x' := x_expand FX x c v w in
  x_base x' = expand (x_base x) c v w /\ St NoX x' /\ Mono x x' /\
  (qpos (weight (x_base x') v c) || qpos (v_pen (s_var (x_base x') v)) = true -> In c (x_mod x')).
Proof.
  intros x c v w IA H Hc IA'. destruct (x_expand_core_spec x c v w IA H Hc) as [B5 [S5 [M5 N5]]].
  unfold x_expand. cbv zeta. set (x5 := x_expand_core FX x c v w) in *.
  assert (Hdis : qpos (v_pen (s_var (x_base x5) v)) = false -> forall c0, ~ In v (c_en (s_cn (x_base x5) c0))).
  { intros Hp c0 Hin. rewrite B5 in Hin, Hp. destruct (inv_en _ c0 v IA' Hin) as [_ A]. congruence. }
  destruct (qpos (weight (x_base x5) v c) || qpos (v_pen (s_var (x_base x5) v))) eqn:Ec.
  - destruct (x_upd_cnst_spec (Xv v) x5 c S5) as [B6 [S6 [M6 I6]]]; [rewrite N5; exact Hc|].
    set (x6 := x_upd_cnst x5 c) in *. cbn [fx_exp all_fixes].
    destruct S6 as [A6 [A7 G6]].
    destruct (x_from_var_spec NoX x6 v A6 A7 G6) as [B7 [S7 [M7 _]]].
    { rewrite B6. exact Hdis. }
    split; [rewrite B7, B6; exact B5|split; [exact S7|split]].
    + eapply Mono_trans; [exact M5|]. eapply Mono_trans; [exact M6|exact M7].
    + intros _. apply (mo_incl _ _ M7). exact I6.
  - split; [exact B5|split; [|split; [exact M5|intro A; rewrite A in Ec; discriminate]]].
    apply orb_false_iff in Ec. destruct Ec as [_ Ec]. eapply St_unexempt; [exact S5|]. apply Hdis. exact Ec.
Qed.

(** ** update_variable_penalty *)
Lemma odv_loop_elems : forall c l s u, v_elems (s_var (odv_loop c l s) u) = v_elems (s_var s u).
Proof.
  intros c. induction l as [|a r IH]; intros s u; [reflexivity|]. cbn [odv_loop].
  destruct (can_enable s a); cbv zeta.
  - destruct (_ =? _); [apply enable_var_elems|]. rewrite IH. apply enable_var_elems.
  - destruct (_ =? _); [reflexivity|]. apply IH.
Qed.
Lemma odv_all_elems : forall es s u, v_elems (s_var (odv_all s es) u) = v_elems (s_var s u).
Proof.
  unfold odv_all. induction es as [|e r IH]; intros s u; [reflexivity|]. cbn [fold_left]. rewrite IH.
  unfold on_disabled_var. destruct (_ <? _); [reflexivity|apply odv_loop_elems].
Qed.

Lemma set_var_same : forall X x v y, St X x -> v_elems y = v_elems (s_var (x_base x) v) -> St X (with_base x (set_var (x_base x) v y)).
Proof.
  intros X x v y H He. apply St_same; [exact H|reflexivity|reflexivity|].
  intro u. unfold set_var. cbn [s_var]. unfold upd. destruct (Nat.eqb u v) eqn:E; [|reflexivity]. apply Nat.eqb_eq in E. subst u. exact He.
Qed.

Lemma x_penalty_core_spec : forall x v p, St NoX x -> 0 <= Qnum p -> 0 <= Qnum (v_pen (s_var (x_base x) v)) ->
  (qpos (v_pen (s_var (x_base x) v)) = false -> forall c, ~ In v (c_en (s_cn (x_base x) c))) ->
  let x' := x_penalty_core FX x v p in
  x_base x' = update_penalty_core true true (x_base x) v p /\ St NoX x' /\ Mono x x' /\
  (Qeq_bool (v_pen (s_var (x_base x) v)) (v_pen (s_var (x_base x') v)) = false -> forall c', on (x_base x) v c' -> In c' (x_mod x')).
Proof.
  intros x v p H Hp Hs Hdis. unfold x_penalty_core, update_penalty_core. cbv zeta.
  destruct (Qeq_bool p (v_pen (s_var (x_base x) v))) eqn:Eq.
  - cbn [andb]. destruct (negb (qpos p)).
    + split; [reflexivity|split; [apply set_var_same; [exact H|reflexivity]|split; [apply Mono_base|]]].
      cbn [with_base x_base]. unfold set_staged, set_var. cbn [s_var]. rewrite upd_same. cbn [v_pen]. rewrite Qeq_bool_refl. discriminate.
    + split; [reflexivity|split; [exact H|split; [apply Mono_refl|]]]. rewrite Qeq_bool_refl. discriminate.
  - cbn [dirty x_base].
    destruct (qpos p && negb (qpos (v_pen (s_var (x_base x) v)))) eqn:E1.
    + apply andb_prop in E1. destruct E1 as [E1 _].
      assert (H1 : St NoX (with_base (dirty x) (set_staged (x_base x) v p))) by (apply (set_var_same NoX (dirty x)); [exact H|reflexivity]).
      cbn [with_base x_base].
      destruct (min_slack (set_staged (x_base x) v p) v =? 0).
      * split; [reflexivity|split; [exact H1|split; [eapply Mono_trans; [apply Mono_dirty|apply (Mono_base (dirty x))]|]]].
        cbn [with_base x_base]. unfold set_staged, set_var. cbn [s_var]. rewrite upd_same. cbn [v_pen]. rewrite Qeq_bool_refl. discriminate.
      * destruct (x_enable_var_spec NoX _ v H1) as [B2 [S2 [M2 A2]]].
        { cbn [with_base x_base]. unfold set_staged, set_var. cbn [s_var]. rewrite upd_same. cbn [v_staged]. exact E1. }
        split; [exact B2|split; [exact S2|split]].
        -- eapply Mono_trans; [apply Mono_dirty|]. eapply Mono_trans; [apply (Mono_base (dirty x) (set_staged (x_base x) v p))|exact M2].
        -- intros _ c' O. apply A2. cbn [with_base x_base]. unfold on, set_staged, set_var. cbn [s_var]. rewrite upd_same. exact O.
    + destruct (negb (qpos p) && qpos (v_pen (s_var (x_base x) v))) eqn:E2.
      * apply andb_prop in E2. destruct E2 as [_ E2].
        destruct (x_disable_var_spec NoX (dirty x) v H E2) as [B1 [S1 [M1 A1]]].
        set (x1 := x_disable_var FX (dirty x) v) in *. cbn [dirty x_base] in B1, A1.
        destruct (x_odv_all_spec (v_elems (s_var (x_base x1) v)) (Xv v) x1 S1) as [B2 [S2 M2]].
        set (x2 := x_odv_all FX x1 (v_elems (s_var (x_base x1) v))) in *.
        assert (All : forall c', on (x_base x) v c' -> In c' (x_mod x2)) by (intros c' O; apply (mo_incl _ _ M2); apply A1; exact O).
        split; [rewrite B2, B1; reflexivity|split; [|split]].
        -- destruct S2 as [Sa [Sb Sc]]. split; [exact Sa|split; [exact Sb|]]. eapply GJ_drop; [exact Sc|].
           intros c' Hc'. apply All. assert (O := Sa c' v Hc'). unfold on in *. rewrite B2, odv_all_elems, B1, disable_var_elems in O. exact O.
        -- eapply Mono_trans; [apply Mono_dirty|]. eapply Mono_trans; [exact M1|exact M2].
        -- intros _. exact All.
      * set (y := mkVar (v_alive (s_var (x_base x) v)) p (v_staged (s_var (x_base x) v)) (v_want (s_var (x_base x) v)) (v_elems (s_var (x_base x) v))).
        assert (H1 : St NoX (with_base (dirty x) (set_var (x_base x) v y))) by (apply (set_var_same NoX (dirty x)); [exact H|reflexivity]).
        destruct H1 as [Sa [Sb Sc]].
        assert (Py : v_pen (s_var (set_var (x_base x) v y) v) = p) by (unfold set_var; cbn [s_var]; rewrite upd_same; reflexivity).
        destruct (x_from_var_spec NoX (with_base (dirty x) (set_var (x_base x) v y)) v Sa Sb
                    (GJ_weaken NoX (plus NoX v) _ _ _ (fun u A => or_introl A) Sc)) as [B2 [S2 [M2 A2]]].
        { cbn [with_base x_base]. rewrite Py. intros Ep c Hc. 
          assert (Ex : qpos (v_pen (s_var (x_base x) v)) = false).
          { destruct (qpos (v_pen (s_var (x_base x) v))) eqn:Ex; [|reflexivity]. rewrite Ep in E2. cbn in E2. discriminate. }
          apply (Hdis Ex c). exact Hc. }
        cbn [with_base x_base] in B2, A2. rewrite Py in A2.
        split; [exact B2|split; [exact S2|split]].
        -- eapply Mono_trans; [apply Mono_dirty|]. eapply Mono_trans; [apply (Mono_base (dirty x) (set_var (x_base x) v y))|exact M2].
        -- rewrite B2, Py. intros Hq c' O. destruct (qpos p) eqn:Ep.
           ++ apply (A2 eq_refl). unfold on, set_var. cbn [s_var]. rewrite upd_same. exact O.
           ++ assert (Ex : qpos (v_pen (s_var (x_base x) v)) = false).
              { destruct (qpos (v_pen (s_var (x_base x) v))) eqn:Ex; [|reflexivity]. cbn in E2. discriminate. }
              rewrite (qpos_false_zero _ _ Hs Hp Ex Ep) in Hq. discriminate.
Qed.

Lemma x_update_penalty_spec : forall x v p, inv_all (x_base x) -> St NoX x -> 0 <= Qnum p ->
  let x' := x_update_penalty FX x v p in
  x_base x' = update_penalty true true (x_base x) v p /\ St NoX x' /\ Mono x x' /\
  (Qeq_bool (v_pen (s_var (x_base x) v)) (v_pen (s_var (x_base x') v)) = false -> forall c', on (x_base x) v c' -> In c' (x_mod x')).
Proof.
  intros x v p IA H Hp.
  assert (Hdis : qpos (v_pen (s_var (x_base x) v)) = false -> forall c, ~ In v (c_en (s_cn (x_base x) c))).
  { intros E c Hc. destruct (inv_en _ c v IA Hc) as [_ A]. congruence. }
  assert (Hs := inv_sign _ v IA).
  unfold x_update_penalty, update_penalty. destruct (qpos p).
  - assert (Pw : v_pen (s_var (set_want (x_base x) v p) v) = v_pen (s_var (x_base x) v)) by (unfold set_want, set_var; cbn [s_var]; rewrite upd_same; reflexivity).
    assert (H1 : St NoX (with_base x (set_want (x_base x) v p))) by (apply set_var_same; [exact H|reflexivity]).
    destruct (x_penalty_core_spec (with_base x (set_want (x_base x) v p)) v p H1 Hp) as [B2 [S2 [M2 A2]]].
    { cbn [with_base x_base]. rewrite Pw. exact Hs. }
    { cbn [with_base x_base]. rewrite Pw. exact Hdis. }
    cbn [with_base x_base] in B2, A2. rewrite Pw in A2.
    split; [exact B2|split; [exact S2|split; [eapply Mono_trans; [apply (Mono_base x (set_want (x_base x) v p))|exact M2]|]]].
    intros Hq c' O. apply (A2 Hq). unfold on, set_want, set_var. cbn [s_var]. rewrite upd_same. exact O.
  - destruct (x_penalty_core_spec x v p H Hp Hs Hdis) as [B2 [S2 [M2 A2]]].
    set (x1 := x_penalty_core FX x v p) in *. cbv zeta.
    split; [cbn [with_base x_base]; rewrite B2; reflexivity|split; [apply set_var_same; [exact S2|reflexivity]|split; [eapply Mono_trans; [exact M2|apply Mono_base]|]]].
    cbn [with_base x_base]. unfold set_want at 1, set_var. cbn [s_var]. rewrite upd_same. cbn [v_pen]. exact A2.
Qed.

(** ** update_variable_bound, update_constraint_bound *)
Lemma x_fold_upd_spec : forall (es : list (nat * Q)) x, St NoX x -> (forall e, In e es -> (fst e < s_nc (x_base x))%nat) ->
  let x' := fold_left (fun x e => x_upd_cnst x (fst e)) es x in
  x_base x' = x_base x /\ St NoX x' /\ Mono x x' /\ forall e, In e es -> In (fst e) (x_mod x').
Proof.
  induction es as [|e r IH]; intros x H Hes; [split; [reflexivity|split; [exact H|split; [apply Mono_refl|intros e []]]]|].
  cbn [fold_left]. destruct (x_upd_cnst_spec NoX x (fst e) H) as [B1 [S1 [M1 I1]]]; [apply Hes; now left|].
  destruct (IH (x_upd_cnst x (fst e)) S1) as [B2 [S2 [M2 I2]]]; [intros e' He'; rewrite B1; apply Hes; now right|].
  split; [rewrite B2; exact B1|split; [exact S2|split; [eapply Mono_trans; eassumption|]]].
  intros e' [He'|He']; [subst e'; apply (mo_incl _ _ M2); exact I1|apply I2; exact He'].
Qed.

(** ** var_free *)
Lemma St_drop_inactive : forall X x c, St X x -> St X (drop_inactive x c).
Proof.
  intros X x c H. unfold drop_inactive. destruct (c_en (s_cn (x_base x) c)) eqn:Een; [|exact H].
  destruct (c_dis (s_cn (x_base x) c)); [|exact H].
  destruct H as [S [I [[W1 W2] [Jx C]]]]. split; [exact S|split; [exact I|split; [split|split]]]; cbn.
  - apply nodup_erase. exact W1.
  - intros c0 Hc0. apply in_erase in Hc0. apply W2. apply Hc0.
  - intros u Hx Hk c' Hc'. apply in_erase. split; [apply (Jx u Hx Hk c' Hc')|]. intro A. subst c'. cbn in Hc'. rewrite Een in Hc'. destruct Hc'.
  - intros c0 c' u Hc0 Hx Hu Hu'. apply in_erase in Hc0. apply in_erase. split; [apply (C c0 c' u (proj1 Hc0) Hx Hu Hu')|].
    intro A. subst c'. rewrite Een in Hu'. destruct Hu'.
Qed.

Definition free_body (v : nat) (x : sel) (e : nat * Q) : sel :=
  x_on_disabled_var FX (drop_inactive (with_base x (detach (x_base x) v (fst e) (snd e))) (fst e)) (fst e).

Lemma free_loop_spec : forall v es x, St (Xv v) x -> Bnd x -> incl (x_touched x) (x_mod x) ->
  let x' := fold_left (free_body v) es x in
  x_base x' = fold_left (fun s e => on_disabled_var (detach s v (fst e) (snd e)) (fst e)) es (x_base x) /\
  St (Xv v) x' /\ Bnd x' /\ incl (x_touched x') (x_mod x') /\ x_cnt x' = x_cnt x.
Proof.
  intros v. induction es as [|e r IH]; intros x H B T; [split; [reflexivity|split; [exact H|split; [exact B|split; [exact T|reflexivity]]]]|].
  cbn [fold_left]. assert (H' := H). destruct H' as [S [I G]].
  destruct (detach_graph (x_base x) v (fst e) (snd e) S I) as [F [S1 [I1 _]]].
  assert (H1 : St (Xv v) (with_base x (detach (x_base x) v (fst e) (snd e)))).
  { destruct (St_base_gfr (Xv v) x v _ H F S1 I1) as [A1 [A2 A3]]. split; [exact A1|split; [exact A2|]]. eapply GJ_weaken; [|exact A3]. apply plus_idem. }
  assert (H2 := St_drop_inactive _ _ (fst e) H1).
  set (x2 := drop_inactive (with_base x (detach (x_base x) v (fst e) (snd e))) (fst e)) in *.
  assert (P2 : x_base x2 = detach (x_base x) v (fst e) (snd e) /\ x_cnt x2 = x_cnt x /\ x_stamp x2 = x_stamp x /\ incl (x_touched x2) (x_mod x2)).
  { unfold x2, drop_inactive. cbn [with_base x_base]. destruct (c_en _); [destruct (c_dis _)|]; cbn; repeat split; try exact T.
    intros c0 Hc0. apply in_erase in Hc0. apply in_erase. split; [apply T; apply Hc0|apply Hc0]. }
  destruct P2 as [P2a [P2b [P2c P2d]]].
  destruct (x_on_disabled_var_spec (fst e) (Xv v) x2 H2) as [B3 [S3 M3]].
  set (x3 := x_on_disabled_var FX x2 (fst e)) in *.
  change (free_body v x e) with x3.
  assert (Bx2 : Bnd x2) by (destruct B as [B1 B2]; split; [rewrite P2b; exact B1|intro u; rewrite P2b, P2c; apply B2]).
  destruct (IH x3 S3 (Bnd_mono _ _ M3 Bx2)) as [B4 [S4 [Bd4 [T4 C4]]]].
  { rewrite (mo_touched _ _ M3). eapply incl_tran; [exact P2d|apply (mo_incl _ _ M3)]. }
  split; [|split; [exact S4|split; [exact Bd4|split; [exact T4|]]]].
  - rewrite B4, B3, P2a. reflexivity.
  - rewrite C4, (mo_cnt _ _ M3). exact P2b.
Qed.

Lemma GJ_sub : forall X b b' k st, (s_nc b <= s_nc b')%nat ->
  (forall c u, In u (c_en (s_cn b' c)) -> In u (c_en (s_cn b c))) -> GJ X b k st -> GJ X b' k st.
Proof.
  intros X b b' k st N F [[W1 W2] [Jx C]]. split; [split; [exact W1|intros c Hc; specialize (W2 c Hc); lia]|split].
  - intros u Hx Hk c' Hc'. apply (Jx u Hx Hk c'). apply F. exact Hc'.
  - intros c c' u Hc Hx Hu Hu'. apply (C c c' u Hc Hx); apply F; assumption.
Qed.

Lemma x_var_free_spec : forall x v, inv_all (x_base x) -> St NoX x -> Bnd x -> incl (x_touched x) (x_mod x) ->
  inv_all (var_free (x_base x) v) ->
  let x' := x_var_free FX x v in
  x_base x' = var_free (x_base x) v /\ St NoX x' /\ Bnd x' /\ incl (x_touched x') (x_mod x').
Proof.
  intros x v IA H B T IA'. assert (H' := H). destruct H' as [S [I G]].
  assert (Hdis : qpos (v_pen (s_var (x_base x) v)) = false -> forall c, ~ In v (c_en (s_cn (x_base x) c))).
  { intros E c Hc. destruct (inv_en _ c v IA Hc) as [_ A]. congruence. }
  destruct (x_from_var_spec NoX (dirty x) v S I (GJ_weaken NoX (plus NoX v) _ _ _ (fun u A => or_introl A) G) Hdis) as [B0 [S0 [M0 A0]]].
  unfold x_var_free. cbv zeta. cbn [dirty x_base] in *.
  set (x0 := x_from_var FX (dirty x) v) in *.
  set (l := if qpos (v_pen (s_var (x_base x) v)) then cnsts_of (x_base x) v else []).
  assert (S0' : St (Xv v) (touch x0 l)).
  { destruct S0 as [Sa [Sb Sc]]. split; [exact Sa|split; [exact Sb|]]. eapply GJ_weaken; [|exact Sc]. intros u A. left. exact A. }
  assert (M0' : Mono x x0) by (eapply Mono_trans; [apply Mono_dirty|exact M0]).
  assert (B0' : Bnd (touch x0 l)) by (apply (Bnd_mono _ _ M0') in B; exact B).
  assert (T0 : incl (x_touched (touch x0 l)) (x_mod (touch x0 l))).
  { cbn [touch x_touched x_mod]. apply incl_app.
    - rewrite (mo_touched _ _ M0'). eapply incl_tran; [exact T|apply (mo_incl _ _ M0')].
    - unfold l. destruct (qpos (v_pen (s_var (x_base x) v))) eqn:E; [|intros c []]. intros c Hc. apply (A0 eq_refl). exact Hc. }
  destruct (free_loop_spec v (v_elems (s_var (x_base (touch x0 l)) v)) (touch x0 l) S0' B0' T0) as [B1 [S1 [Bd1 [T1 C1]]]].
  change (fold_left (fun x1 e => x_on_disabled_var FX (drop_inactive (with_base x1 (detach (x_base x1) v (fst e) (snd e))) (fst e)) (fst e)))
    with (fold_left (free_body v)).
  set (x1 := fold_left (free_body v) (v_elems (s_var (x_base (touch x0 l)) v)) (touch x0 l)) in *.
  cbn [touch x_base] in B1. rewrite B0 in B1.
  assert (Bf : set_var (x_base x1) v dead_var = var_free (x_base x) v).
  { unfold var_free. rewrite B1. reflexivity. }
  split; [exact Bf|split; [|split; [exact Bd1|exact T1]]].
  cbn [with_base x_base]. rewrite Bf.
  split; [apply inv_Sub; exact IA'|split; [apply inv_Ids; exact IA'|]]. cbn [with_base x_cnt].
  destruct S1 as [_ [_ G1]].
  assert (G2 : GJ (Xv v) (var_free (x_base x) v) (x_cnt x1) (ms x1)).
  { rewrite <- Bf. eapply GJ_sub; [| |exact G1]; [apply Nat.le_refl|]. intros c u Hu. exact Hu. }
  eapply GJ_drop; [exact G2|]. intros c' Hc'. exfalso. destruct (inv_en _ c' v IA' Hc') as [A _].
  rewrite <- Bf in A. unfold set_var in A. cbn [s_var] in A. rewrite upd_same in A. discriminate.
Qed.

(** * the invariant of every history *)
Definition XInv (x : sel) : Prop := inv_all (x_base x) /\ St NoX x /\ Bnd x /\ incl (x_touched x) (x_mod x).

Lemma XInv_mono : forall x x' l, inv_all (x_base x') -> St NoX x' -> Mono x x' -> XInv x -> incl l (x_mod x') -> XInv (touch x' l).
Proof.
  intros x x' l IA S M [_ [_ [B T]]] Hl. split; [exact IA|split; [exact S|split; [apply (Bnd_mono _ _ M B)|]]].
  cbn [touch x_touched x_mod]. apply incl_app; [|exact Hl]. rewrite (mo_touched _ _ M). eapply incl_tran; [exact T|apply (mo_incl _ _ M)].
Qed.
Lemma touch_nil : forall x, touch x [] = x.
Proof. intros [a b c d e f]. unfold touch. cbn. rewrite app_nil_r. reflexivity. Qed.

Lemma W32_val : W32 = 4294967296. Proof. reflexivity. Qed.

Lemma x_step_inv : forall x o, XInv x -> XInv (x_step FX x o).
Proof.
  intros x o HX. assert (HX' := HX). destruct HX' as [IA [H [B T]]]. assert (H' := H). destruct H' as [S [I G]].
  assert (IS := step_inv (x_base x) (proj o) IA).
  unfold x_step. destruct o as [lim sh|p|c v w|v p|v|c|v| |t]; cbn [x_code proj touched_by].
  - (* constraint_new *)
    rewrite touch_nil. cbn [proj] in IS. split; [exact IS|split; [|split; [exact B|exact T]]].
    cbn [with_base x_base x_cnt]. split; [apply inv_Sub; exact IS|split; [apply inv_Ids; exact IS|]].
    eapply GJ_sub; [| |exact G]; [cbn; lia|]. intros c u Hu. cbn in Hu. unfold upd in Hu.
    destruct (Nat.eqb c (s_nc (x_base x))); [destruct Hu|exact Hu].
  - (* variable_new *)
    rewrite touch_nil. cbn [proj] in IS. unfold step, step_gen in *. destruct (Qnum p <? 0); [exact HX|].
    destruct B as [B1 B2]. assert (Hm : (x_cnt x - 1) mod W32 = x_cnt x - 1) by (apply Z.mod_small; lia).
    split; [exact IS|split; [|split]]; unfold Bnd; cbn [x_base x_cnt x_stamp x_mod x_touched].
    + split; [apply inv_Sub; exact IS|split; [apply inv_Ids; exact IS|]].
      destruct G as [W [Jx C]]. split; [exact W|split; [|exact C]].
      intros u Hx Hk c' Hc'. cbn in Hk, Hc'. unfold upd in Hk. destruct (Nat.eqb u (s_nv (x_base x))); [rewrite Hm in Hk; lia|]. apply (Jx u Hx Hk c' Hc').
    + split; [exact B1|]. intro u. unfold upd. destruct (Nat.eqb u (s_nv (x_base x))); [rewrite Hm; lia|apply B2].
    + exact T.
  - (* expand *)
    cbn [proj] in IS. unfold step, step_gen in IS.
    destruct (Nat.ltb c (s_nc (x_base x)) && Nat.ltb v (s_nv (x_base x)) && v_alive (s_var (x_base x) v) && negb (Qnum w <? 0)) eqn:Eg;
      [|cbn [andb]; rewrite touch_nil; exact HX].
    assert (Hc : (c < s_nc (x_base x))%nat).
    { apply andb_prop in Eg. destruct Eg as [Eg _]. apply andb_prop in Eg. destruct Eg as [Eg _]. apply andb_prop in Eg. destruct Eg as [Eg _].
      apply Nat.ltb_lt. exact Eg. }
    destruct (x_expand_spec x c v w IA H Hc IS) as [B1 [S1 [M1 A1]]]. cbn [andb].
    eapply XInv_mono; [rewrite B1; exact IS|exact S1|exact M1|exact HX|].
    destruct (qpos (weight (x_base (x_expand FX x c v w)) v c) || qpos (v_pen (s_var (x_base (x_expand FX x c v w)) v))) eqn:Ec; [|intros c0 []].
    intros c0 [<-|[]]. apply A1. reflexivity.
  - (* update_variable_penalty *)
    cbn [proj] in IS. unfold step, step_gen in IS.
    destruct (Nat.ltb v (s_nv (x_base x)) && v_alive (s_var (x_base x) v) && negb (Qnum p <? 0)) eqn:Eg;
      [|cbn [andb]; rewrite touch_nil; exact HX].
    assert (Hp : 0 <= Qnum p).
    { apply andb_prop in Eg. destruct Eg as [_ Eg]. apply negb_true_iff in Eg. apply Z.ltb_ge in Eg. exact Eg. }
    destruct (x_update_penalty_spec x v p IA H Hp) as [B1 [S1 [M1 A1]]]. cbn [andb].
    eapply XInv_mono; [rewrite B1; exact IS|exact S1|exact M1|exact HX|].
    destruct (Qeq_bool (v_pen (s_var (x_base x) v)) (v_pen (s_var (x_base (x_update_penalty FX x v p)) v))) eqn:Eq; cbn [negb]; [intros c0 []|].
    intros c0 Hc0. apply (A1 eq_refl). exact Hc0.
  - (* update_variable_bound *)
    cbn [proj] in IS. destruct (Nat.ltb v (s_nv (x_base x)) && v_alive (s_var (x_base x) v)); [|rewrite touch_nil; exact HX].
    unfold x_vbound. destruct (x_fold_upd_spec (v_elems (s_var (x_base x) v)) (dirty x) H) as [B1 [S1 [M1 A1]]].
    { intros e He. apply (I v). unfold on. apply in_map. exact He. }
    cbn [dirty x_base] in *.
    eapply XInv_mono; [rewrite B1; exact IA|exact S1|eapply Mono_trans; [apply Mono_dirty|exact M1]|exact HX|].
    intros c0 Hc0. unfold cnsts_of in Hc0. apply in_map_iff in Hc0. destruct Hc0 as [e [E1 E2]]. rewrite <- E1. apply A1. exact E2.
  - (* update_constraint_bound *)
    destruct (Nat.ltb c (s_nc (x_base x))) eqn:Eg; [|rewrite touch_nil; exact HX]. apply Nat.ltb_lt in Eg.
    unfold x_cbound. destruct (x_upd_cnst_spec NoX (dirty x) c H Eg) as [B1 [S1 [M1 A1]]]. cbn [dirty x_base] in *.
    eapply XInv_mono; [rewrite B1; exact IA|exact S1|eapply Mono_trans; [apply Mono_dirty|exact M1]|exact HX|].
    intros c0 [<-|[]]. exact A1.
  - (* variable_free *)
    rewrite touch_nil. cbn [proj] in IS. unfold step, step_gen in IS.
    destruct (Nat.ltb v (s_nv (x_base x)) && v_alive (s_var (x_base x) v)); [|exact HX].
    destruct (x_var_free_spec x v IA H B T IS) as [B1 [S1 [Bd1 T1]]].
    split; [rewrite B1; exact IS|split; [exact S1|split; [exact Bd1|exact T1]]].
  - (* solve *)
    rewrite touch_nil. unfold x_solve. destruct (x_dirty x); [|exact HX].
    unfold remove_all. cbn [fx_wrap all_fixes]. destruct B as [B1 B2].
    destruct ((x_cnt x + 1) mod W32 =? 0) eqn:Ek; cbn [x_base x_mod x_stamp x_cnt x_touched].
    + split; [exact IA|split; [|split; [|intros c []]]].
      * split; [exact S|split; [exact I|]]. cbn [x_base x_cnt ms x_mod x_stamp].
        split; [split; [constructor|intros c []]|split; [intros u _ Hk; cbn in Hk; lia|intros c c' u []]].
      * unfold Bnd. cbn [x_cnt x_stamp]. split; [rewrite W32_val; lia|intro; lia].
    + apply Z.eqb_neq in Ek.
      assert (Hk : (x_cnt x + 1) mod W32 = x_cnt x + 1).
      { apply Z.mod_small. split; [lia|]. destruct (Z.eq_dec (x_cnt x + 1) W32) as [E|E]; [rewrite E, Z_mod_same_full in Ek; lia|lia]. }
      rewrite Hk. split; [exact IA|split; [|split; [|intros c []]]].
      * split; [exact S|split; [exact I|]]. cbn [x_base x_cnt ms x_mod x_stamp].
        split; [split; [constructor|intros c []]|split; [intros u _ Hu; cbn in Hu; specialize (B2 u); lia|intros c c' u []]].
      * unfold Bnd. cbn [x_cnt x_stamp]. split; [split; [lia|rewrite <- Hk; apply Z.mod_pos_bound; rewrite W32_val; lia]|intro u; specialize (B2 u); lia].
  - (* ageing *)
    rewrite touch_nil. destruct (x_mod x) eqn:Em; [|exact HX].
    destruct ((x_cnt x <=? t) && (t <? W32)) eqn:Et; [|exact HX].
    apply andb_prop in Et. destruct Et as [E1 E2]. apply Z.leb_le in E1. apply Z.ltb_lt in E2. destruct B as [B1 B2].
    split; [exact IA|split; [|split]]; unfold Bnd; cbn [x_base x_cnt x_stamp x_mod x_touched].
    + split; [exact S|split; [exact I|]]. cbn [x_base x_cnt ms x_mod x_stamp].
      destruct G as [W [Jx C]]. unfold ms in *. rewrite Em in *.
      split; [split; [constructor|intros c []]|split; [|intros c c' u []]].
      intros u Hx Hk c' Hc'. cbn in Hk. destruct (Z.eq_dec t (x_cnt x)) as [E|E]; [rewrite E in Hk; apply (Jx u Hx Hk c' Hc')|specialize (B2 u); lia].
    + split; [lia|intro u; specialize (B2 u); lia].
    + try rewrite Em in T. exact T.
Qed.

Lemma XInv_0 : forall k0, 1 <= k0 < W32 -> XInv (sel0 k0).
Proof.
  intros k0 Hk. split; [exact inv_all_0|split; [|split; [|intros c []]]].
  - split; [intros c u []|split; [intros u c []|]]. split; [split; [constructor|intros c []]|split; [intros u _ _ c' []|intros c c' u []]].
  - split; [exact Hk|]. intro v. cbn. lia.
Qed.
Theorem x_run_inv : forall k0 l, 1 <= k0 < W32 -> XInv (x_run FX k0 l).
Proof.
  intros k0 l Hk. unfold x_run. generalize (XInv_0 k0 Hk). generalize (sel0 k0).
  induction l as [|o l IH]; intros x H; [exact H|]. cbn [fold_left]. apply IH. apply x_step_inv. exact H.
Qed.

Lemma x_step_base : forall y o, XInv y -> x_base (x_step FX y o) = step (x_base y) (proj o).
Proof.
  intros y o H.
    assert (HX := H). destruct HX as [IA [Hs [B T]]].
    assert (IS := step_inv (x_base y) (proj o) IA).
    unfold x_step. cbn [touch x_base]. destruct o as [lim sh|p|c v w|v p|v|c|v| |t]; cbn [proj] in IS; cbn [x_code proj]; try reflexivity.
    - unfold step, step_gen. destruct (Qnum p <? 0); reflexivity.
    - unfold step, step_gen in *.
      destruct (Nat.ltb c (s_nc (x_base y)) && Nat.ltb v (s_nv (x_base y)) && v_alive (s_var (x_base y) v) && negb (Qnum w <? 0)) eqn:Eg; [|reflexivity].
      assert (Hc : (c < s_nc (x_base y))%nat).
      { apply andb_prop in Eg. destruct Eg as [Eg _]. apply andb_prop in Eg. destruct Eg as [Eg _]. apply andb_prop in Eg. destruct Eg as [Eg _]. apply Nat.ltb_lt. exact Eg. }
      apply (x_expand_spec y c v w IA Hs Hc IS).
    - unfold step, step_gen.
      destruct (Nat.ltb v (s_nv (x_base y)) && v_alive (s_var (x_base y) v) && negb (Qnum p <? 0)) eqn:Eg; [|reflexivity].
      assert (Hp : 0 <= Qnum p) by (apply andb_prop in Eg; destruct Eg as [_ Eg]; apply negb_true_iff in Eg; apply Z.ltb_ge in Eg; exact Eg).
      apply (x_update_penalty_spec y v p IA Hs Hp).
    - destruct (Nat.ltb v (s_nv (x_base y)) && v_alive (s_var (x_base y) v)); [|reflexivity].
      unfold x_vbound. destruct (x_fold_upd_spec (v_elems (s_var (x_base y) v)) (dirty y) Hs) as [B1 _]; [|exact B1].
      intros e He. destruct Hs as [_ [I _]]. apply (I v). unfold on. apply in_map. exact He.
    - destruct (Nat.ltb c (s_nc (x_base y))); reflexivity.
    - unfold step, step_gen in *. destruct (Nat.ltb v (s_nv (x_base y)) && v_alive (s_var (x_base y) v)); [|reflexivity].
      apply (x_var_free_spec y v IA Hs B T IS).
    - unfold x_solve. destruct (x_dirty y); [|reflexivity]. unfold remove_all. cbn [fx_wrap all_fixes]. destruct (_ =? 0); reflexivity.
    - destruct (x_mod y); [|reflexivity]. destruct (_ && _); reflexivity.
Qed.
Lemma x_fold_base : forall l y, XInv y -> x_base (fold_left (x_step FX) l y) = fold_left step (map proj l) (x_base y).
Proof.
  induction l as [|o r IH]; intros y H; [reflexivity|]. cbn [fold_left map]. rewrite (IH _ (x_step_inv y o H)). f_equal. apply x_step_base. exact H.
Qed.

(** ** the statements about every history *)
Section Statements.
  Variable k0 : Z.
  Hypothesis Hk : 1 <= k0 < W32.
  Variable l : list xop.
  Let x := x_run FX k0 l.
  Let b := x_base x.

  (* closed under "an enabled variable of c also uses c'" *)
  Lemma modified_closed : forall c v c', In c (x_mod x) -> In v (c_en (s_cn b c)) -> In c' (map fst (v_elems (s_var b v))) -> In c' (x_mod x).
  Proof.
    intros c v c' Hc Hv Hc'. destruct (x_run_inv k0 l Hk) as [IA [[_ [_ [_ [_ C]]]] _]]. fold x in IA, C. fold b in IA.
    apply (C c c' v Hc (fun f => f) Hv). destruct (inv_en _ c v IA Hv) as [A1 A2]. destruct IA as [[IS _] _]. apply (i_en _ IS). split; [exact A1|split; [exact A2|exact Hc']].
  Qed.
  (* hence a union of connected components of the graph "c ~ c' when some variable is enabled on both" *)
  Lemma modified_components : forall c c', (exists v, In v (c_en (s_cn b c)) /\ In v (c_en (s_cn b c'))) -> (In c (x_mod x) <-> In c' (x_mod x)).
  Proof.
    intros c c' [v [H1 H2]]. destruct (x_run_inv k0 l Hk) as [_ [[_ [_ [_ [_ C]]]] _]]. fold x in C.
    split; intro H; [apply (C c c' v H (fun f => f) H1 H2)|apply (C c' c v H (fun f => f) H2 H1)].
  Qed.
  Lemma touched_in_set : forall c, In c (x_touched x) -> In c (x_mod x).
  Proof. intros c H. destruct (x_run_inv k0 l Hk) as [_ [_ [_ T]]]. apply T. exact H. Qed.
  Lemma set_wellformed : NoDup (x_mod x) /\ (forall c, In c (x_mod x) -> (c < s_nc b)%nat) /\ 1 <= x_cnt x < W32.
  Proof. destruct (x_run_inv k0 l Hk) as [_ [[_ [_ [[W1 W2] _]]] [[B1 _] _]]]. split; [exact W1|split; [exact W2|exact B1]]. Qed.
  Lemma base_is_system : b = run_ops sys0 (map proj l).
  Proof. unfold b, x, x_run, run_ops. apply (x_fold_base l (sel0 k0) (XInv_0 k0 Hk)). Qed.
End Statements.

(** ** the boolean checkers *)
Lemma closed_b_ok : forall b M, closed_b b M = true <->
  (forall c v c', In c M -> In v (c_en (s_cn b c)) -> In c' (map fst (v_elems (s_var b v))) -> In c' M).
Proof.
  intros b M. unfold closed_b. rewrite forallb_forall. split.
  - intros H c v c' Hc Hv Hc'. specialize (H c Hc). rewrite forallb_forall in H. specialize (H v Hv). rewrite forallb_forall in H.
    apply in_map_iff in Hc'. destruct Hc' as [e [E1 E2]]. specialize (H e E2). rewrite E1 in H. apply memb_In. exact H.
  - intros H c Hc. apply forallb_forall. intros v Hv. apply forallb_forall. intros e He. apply memb_In. apply (H c v (fst e) Hc Hv). apply in_map. exact He.
Qed.
Lemma flat_map_nil : forall A B (f : A -> list B) l, flat_map f l = [] <-> forall a, In a l -> f a = [].
Proof.
  intros A B f. induction l as [|a r IH]; cbn; [split; [intros _ a []|reflexivity]|]. split.
  - intros H a' [Ha|Ha]; apply app_eq_nil in H; destruct H as [H1 H2]; [subst a'; exact H1|apply IH; assumption].
  - intro H. rewrite (H a (or_introl eq_refl)). cbn. apply IH. intros a' Ha'. apply H. now right.
Qed.
(* the oracle run on the implementation's dumps answers "closed" exactly when the dumped set is closed *)
Lemma find_open_none_iff : forall en el M, find_open en el M = None <->
  (forall c v c', In c M -> In v (en c) -> In c' (el v) -> In c' M).
Proof.
  intros en el M. unfold find_open.
  set (bad := flat_map (fun c => flat_map (fun v => flat_map (fun c' => if memb c' M then [] else [(c, v, c')]) (el v)) (en c)) M).
  assert (E : bad = [] <-> (forall c v c', In c M -> In v (en c) -> In c' (el v) -> In c' M)).
  { unfold bad. rewrite flat_map_nil. split.
    - intros H c v c' Hc Hv Hc'. specialize (H c Hc). rewrite flat_map_nil in H. specialize (H v Hv). rewrite flat_map_nil in H. specialize (H c' Hc').
      destruct (memb c' M) eqn:Em; [apply memb_In; exact Em|discriminate].
    - intros H c Hc. apply flat_map_nil. intros v Hv. apply flat_map_nil. intros c' Hc'. rewrite (proj2 (memb_In c' M) (H c v c' Hc Hv Hc')). reflexivity. }
  destruct bad; [split; [intros _; apply E; reflexivity|reflexivity]|split; [discriminate|intro H; apply E in H; discriminate]].
Qed.

(** ** the code before the three repairs violates the statement *)
Definition witness_from : list xop :=
  [XNewC (-1) true; XNewC (-1) true; XNewV 0; XExpand 0 0 1; XExpand 1 0 1; XSolve; XCBound 0; XPen 0 1].
Definition witness_expand : list xop :=
  [XNewC (-1) true; XNewC (-1) true; XNewV 1; XExpand 1 0 1; XSolve; XCBound 0; XExpand 0 0 1].
Definition witness_wrap : list xop :=
  [XNewC (-1) true; XNewC (-1) true; XNewC (-1) true; XCBound 0; XCBound 1; XNewV 1; XExpand 1 0 1; XExpand 0 0 1; XSolve;
   XAge (W32 - 1); XCBound 2; XSolve; XCBound 0].
Definition closed_after (fx : fixes) (l : list xop) : bool := let x := x_run fx 1 l in closed_b (x_base x) (x_mod x).
Lemma pinned_refuted :
  closed_after (mkFixes false true true) witness_from = false /\ closed_after FX witness_from = true /\
  closed_after (mkFixes true false true) witness_expand = false /\ closed_after FX witness_expand = true /\
  closed_after (mkFixes true true false) witness_wrap = false /\ closed_after FX witness_wrap = true.
Proof. vm_compute. repeat split; reflexivity. Qed.

(** * locality of the max-min characterisation (Maxmin.v oracles) along a set of constraints that shares no consuming variable
    with the rest.  The system is written as the concatenation of the two groups of constraints (both checkers read the
    constraints as a list, through existsb/forallb only). *)
From SGV Require Import Lmm.Maxmin.

Section Local.
  Variable tol : Q.
  Variable l1 l2 : list mcn.
  Variable vars : list mvar.
  Variable val : nat -> Q.
  Let s := mkMsys (l1 ++ l2) vars.
  Let s1 := mkMsys l1 vars.
  Let s2 := mkMsys l2 vars.
  Definition separated : Prop := forall v, ~ (consumes s1 v = true /\ consumes s2 v = true).

  Lemma forallb_andb : forall A (f g : A -> bool) l, forallb (fun a => f a && g a) l = forallb f l && forallb g l.
  Proof. intros A f g. induction l as [|a r IH]; [reflexivity|]. cbn. rewrite IH. destruct (f a), (g a), (forallb f r); reflexivity. Qed.
  Lemma forallb_ext_in : forall A (f g : A -> bool) l, (forall a, In a l -> f a = g a) -> forallb f l = forallb g l.
  Proof. intros A f g. induction l as [|a r IH]; intro H; [reflexivity|]. cbn. rewrite (H a (or_introl eq_refl)), IH; [reflexivity|]. intros a' Ha'. apply H. now right. Qed.

  Definition bneck (l : list mcn) (v : nat) : bool :=
    existsb (fun k => existsb (fun e => Nat.eqb (fst e) v && qposb (snd e)) (m_elems k) && saturated_b tol val k && maximal_on_b tol s val k v) l.
  Lemma bneck_consumes : forall l v, bneck l v = true -> existsb (fun k => existsb (fun e => Nat.eqb (fst e) v && qposb (snd e)) (m_elems k)) l = true.
  Proof.
    intros l v H. unfold bneck in H. apply existsb_exists in H. destruct H as [k [H1 H2]]. apply existsb_exists. exists k. split; [exact H1|].
    apply andb_prop in H2. destruct H2 as [H2 _]. apply andb_prop in H2. apply H2.
  Qed.

  Lemma var_bottleneck_split : separated -> forall v,
    var_bottleneck_b tol s val v = var_bottleneck_b tol s1 val v && var_bottleneck_b tol s2 val v.
  Proof.
    intros Hsep v. unfold var_bottleneck_b.
    change (existsb _ (m_cns s)) with (bneck (l1 ++ l2) v). change (existsb _ (m_cns s1)) with (bneck l1 v). change (existsb _ (m_cns s2)) with (bneck l2 v).
    change (at_bound_b tol s1 val v) with (at_bound_b tol s val v). change (at_bound_b tol s2 val v) with (at_bound_b tol s val v).
    assert (C : consumes s v = consumes s1 v || consumes s2 v) by (unfold consumes; cbn [m_cns s s1 s2]; apply existsb_app).
    assert (E : bneck (l1 ++ l2) v = bneck l1 v || bneck l2 v) by (unfold bneck; apply existsb_app).
    assert (E1 : bneck l1 v = true -> consumes s1 v = true) by (exact (bneck_consumes l1 v)).
    assert (E2 : bneck l2 v = true -> consumes s2 v = true) by (exact (bneck_consumes l2 v)). specialize (Hsep v). rewrite C, E.
    destruct (consumes s1 v), (consumes s2 v), (bneck l1 v), (bneck l2 v), (at_bound_b tol s val v); cbn in *; try reflexivity;
      try (exfalso; apply Hsep; split; reflexivity); try (specialize (E1 eq_refl); discriminate); try (specialize (E2 eq_refl); discriminate).
  Qed.
  Lemma bottleneck_split : separated -> bottleneck_b tol s val = bottleneck_b tol s1 val && bottleneck_b tol s2 val.
  Proof.
    intro Hsep. unfold bottleneck_b. cbn [m_vars s s1 s2]. rewrite <- forallb_andb. apply forallb_ext_in. intros v _. apply var_bottleneck_split. exact Hsep.
  Qed.
  Lemma feasible_split : alloc_feasible_b tol s val = alloc_feasible_b tol s1 val && alloc_feasible_b tol s2 val.
  Proof.
    unfold alloc_feasible_b. cbn [m_cns m_vars s s1 s2]. rewrite forallb_app.
    assert (V : forallb (var_feasible_b tol s val) (seq 0 (length vars)) =
                forallb (var_feasible_b tol s1 val) (seq 0 (length vars)) && forallb (var_feasible_b tol s2 val) (seq 0 (length vars))).
    { rewrite <- forallb_andb. apply forallb_ext_in. intros v _. unfold var_feasible_b.
      change (pen s1 v) with (pen s v). change (pen s2 v) with (pen s v). change (vbound s1 v) with (vbound s v). change (vbound s2 v) with (vbound s v).
      assert (C : consumes s v = consumes s1 v || consumes s2 v) by (unfold consumes; cbn [m_cns s s1 s2]; apply existsb_app). rewrite C.
      destruct (consumes s1 v), (consumes s2 v), (qposb (pen s v) || Qeq_bool (val v) 0),
        (Qle_bool 0 (val v) && (negb (qposb (vbound s v)) || Qle_bool (val v) (vbound s v + tol * vbound s v))); reflexivity. }
    rewrite V. destruct (forallb (cn_feasible_b tol val) l1), (forallb (cn_feasible_b tol val) l2),
      (forallb (var_feasible_b tol s1 val) (seq 0 (length vars))), (forallb (var_feasible_b tol s2 val) (seq 0 (length vars))); reflexivity.
  Qed.
End Local.

Lemma selective_char_split : forall tol l1 l2 vars val, separated l1 l2 vars ->
  (alloc_feasible_b tol (mkMsys l1 vars) val && bottleneck_b tol (mkMsys l1 vars) val = true /\
   alloc_feasible_b tol (mkMsys l2 vars) val && bottleneck_b tol (mkMsys l2 vars) val = true) <->
  alloc_feasible_b tol (mkMsys (l1 ++ l2) vars) val && bottleneck_b tol (mkMsys (l1 ++ l2) vars) val = true.
Proof.
  intros tol l1 l2 vars val H. rewrite (bottleneck_split tol l1 l2 vars val H), (feasible_split tol l1 l2 vars val).
  destruct (alloc_feasible_b tol (mkMsys l1 vars) val), (alloc_feasible_b tol (mkMsys l2 vars) val),
    (bottleneck_b tol (mkMsys l1 vars) val), (bottleneck_b tol (mkMsys l2 vars) val); cbn; intuition discriminate.
Qed.
