(** Lmm/System.v — executable model of the concurrency bookkeeping of simgrid::kernel::lmm::System
    (src/kernel/lmm/System.cpp: variable_new, expand, expand_create_elem, expand_add_to_elem, enable_var, disable_var,
    on_disabled_var, update_variable_penalty, var_free, Element::get_concurrency, Variable::get_min_concurrency_slack,
    Variable::can_enable).  Definitions only; proofs are in SystemProofs.v.

    Not modelled: force_creation (several elements of one variable on one constraint, ptask_L07 only), the WIFI policy,
    set_concurrency_limit after creation, negative penalties (xbt_assert in the code), the active/modified sets (C17). *)
From SGV Require Import Base.Tactics.
From Coq Require Import QArith.
Local Open Scope Z_scope.

Definition INT_MAX : Z := 2147483647.
Definition qpos (q : Q) : bool := 0 <? Qnum q.             (* q > 0 *)
Definition qnz (q : Q) : bool := negb (Qnum q =? 0).       (* q != 0.0 *)
(* Element::get_concurrency : (consumption_weight >= 1) ? 1 : 0 *)
Definition share (w : Q) : Z := if Z.pos (Qden w) <=? Qnum w then 1 else 0.
(* std::max(a, b) = (a < b) ? b : a *)
Definition qmax (a b : Q) : Q := if Qle_bool b a then a else b.

Record var := mkVar { v_alive : bool; v_pen : Q; v_staged : Q; v_want : Q; v_elems : list (nat * Q) }.
Record cnst := mkCnst { c_limit : Z; c_shared : bool; c_cur : Z; c_en : list nat; c_dis : list nat }.
Record sys := mkSys { s_nv : nat; s_nc : nat; s_var : nat -> var; s_cn : nat -> cnst }.

Definition dead_var : var := mkVar false 0 0 0 [].
Definition no_cnst : cnst := mkCnst (-1) true 0 [] [].
Definition sys0 : sys := mkSys 0 0 (fun _ => dead_var) (fun _ => no_cnst).

Definition upd {A} (f : nat -> A) (i : nat) (x : A) : nat -> A := fun j => if Nat.eqb j i then x else f j.
Definition erase (v : nat) (l : list nat) : list nat := remove Nat.eq_dec v l.

Fixpoint lookup (c : nat) (es : list (nat * Q)) : option Q :=
  match es with [] => None | (c', w) :: r => if Nat.eqb c' c then Some w else lookup c r end.
Fixpoint set_w (c : nat) (w : Q) (es : list (nat * Q)) : list (nat * Q) :=
  match es with [] => [] | (c', w') :: r => if Nat.eqb c' c then (c', w) :: r else (c', w') :: set_w c w r end.
Fixpoint del_key (c : nat) (es : list (nat * Q)) : list (nat * Q) :=
  match es with [] => [] | (c', w') :: r => if Nat.eqb c' c then del_key c r else (c', w') :: del_key c r end.

(* Constraint::get_concurrency_slack *)
Definition slack (c : cnst) : Z := if c_limit c <? 0 then INT_MAX else c_limit c - c_cur c.
(* Variable::get_min_concurrency_slack, with its early return on a zero slack *)
Fixpoint min_slack_aux (cn : nat -> cnst) (es : list (nat * Q)) (m : Z) : Z :=
  match es with
  | [] => m
  | (c, _) :: r => let sl := slack (cn c) in
                   if sl <? m then (if sl =? 0 then 0 else min_slack_aux cn r sl) else min_slack_aux cn r m
  end.
Definition min_slack (s : sys) (v : nat) : Z := min_slack_aux (s_cn s) (v_elems (s_var s v)) INT_MAX.
Definition can_enable (s : sys) (v : nat) : bool := qpos (v_staged (s_var s v)) && (0 <? min_slack s v).

(* one pass "for (Element& elem : var->cnsts_)" updating elem.constraint *)
Definition apply_elems (g : Q -> cnst -> cnst) (es : list (nat * Q)) (cn : nat -> cnst) : nat -> cnst :=
  fold_left (fun cn e => upd cn (fst e) (g (snd e) (cn (fst e)))) es cn.

Definition cn_enable (v : nat) (w : Q) (c : cnst) : cnst :=
  mkCnst (c_limit c) (c_shared c) (c_cur c + share w) (v :: c_en c) (erase v (c_dis c)).
Definition cn_disable (v : nat) (w : Q) (c : cnst) : cnst :=
  mkCnst (c_limit c) (c_shared c) (c_cur c - share w) (erase v (c_en c)) (c_dis c ++ [v]).

Definition set_var (s : sys) (v : nat) (x : var) : sys := mkSys (s_nv s) (s_nc s) (upd (s_var s) v x) (s_cn s).
Definition set_cn (s : sys) (cn : nat -> cnst) : sys := mkSys (s_nv s) (s_nc s) (s_var s) cn.

Definition enable_var (s : sys) (v : nat) : sys :=
  let x := s_var s v in
  mkSys (s_nv s) (s_nc s)
        (upd (s_var s) v (mkVar (v_alive x) (v_staged x) 0 (v_want x) (v_elems x)))
        (apply_elems (cn_enable v) (v_elems x) (s_cn s)).

Definition disable_var (s : sys) (v : nat) : sys :=
  let x := s_var s v in
  mkSys (s_nv s) (s_nc s)
        (upd (s_var s) v (mkVar (v_alive x) 0 0 (v_want x) (v_elems x)))
        (apply_elems (cn_disable v) (v_elems x) (s_cn s)).

(* on_disabled_var: walk the disabled list of [c] (snapshot taken at entry; enable_var only unlinks the elements of
   the variable it enables, so "next" computed before the call is the next of the snapshot), stop when [c] is full *)
Fixpoint odv_loop (c : nat) (l : list nat) (s : sys) : sys :=
  match l with
  | [] => s
  | u :: r =>
      let s1 := if can_enable s u then enable_var s u else s in
      if c_cur (s_cn s1 c) =? c_limit (s_cn s1 c) then s1 else odv_loop c r s1
  end.
Definition on_disabled_var (s : sys) (c : nat) : sys :=
  if c_limit (s_cn s c) <? 0 then s else odv_loop c (c_dis (s_cn s c)) s.

Definition odv_all (s : sys) (es : list (nat * Q)) : sys := fold_left (fun s e => on_disabled_var s (fst e)) es s.

Definition set_staged (s : sys) (v : nat) (p : Q) : sys :=
  let x := s_var s v in set_var s v (mkVar (v_alive x) (v_pen x) p (v_want x) (v_elems x)).

(* System::expand (without force_creation): expand_add_to_elem / expand_create_elem + the concurrency update *)
Definition add_elem (s : sys) (c v : nat) (w : Q) : sys :=
  let x := s_var s v in
  let k := s_cn s c in
  let en := qnz (v_pen x) in
  match lookup c (v_elems x) with
  | Some w0 =>
      let w' := if c_shared k then Qplus w0 w else qmax w0 w in
      let k' := mkCnst (c_limit k) (c_shared k) (if en then c_cur k - share w0 + share w' else c_cur k) (c_en k) (c_dis k) in
      mkSys (s_nv s) (s_nc s)
            (upd (s_var s) v (mkVar (v_alive x) (v_pen x) (v_staged x) (v_want x) (set_w c w' (v_elems x))))
            (upd (s_cn s) c k')
  | None =>
      let k' := if en then mkCnst (c_limit k) (c_shared k) (c_cur k + share w) (v :: c_en k) (c_dis k)
                else mkCnst (c_limit k) (c_shared k) (c_cur k) (c_en k) (c_dis k ++ [v]) in
      mkSys (s_nv s) (s_nc s)
            (upd (s_var s) v (mkVar (v_alive x) (v_pen x) (v_staged x) (v_want x) (v_elems x ++ [(c, w)])))
            (upd (s_cn s) c k')
  end.
Definition expand (s : sys) (c v : nat) (w : Q) : sys :=
  let x := s_var s v in
  let s2 := add_elem s c v w in
  if qnz (v_pen x) && (slack (s_cn s2 c) <? 0) then
    let s3 := disable_var s2 v in
    let s4 := odv_all s3 (v_elems (s_var s3 v)) in
    set_staged s4 v (v_pen x)
  else s2.

(* update_variable_penalty.  [fx_odv]: call on_disabled_var on the constraints of a variable that gets disabled (repair of
   the C18 defect); [fx_unst]: a staged variable that is given penalty 0 is un-staged (repair of the C15 defect).
   [v_want] (the penalty last requested through the API) is ghost state of the model: the code never reads it. *)
Definition set_want (s : sys) (v : nat) (p : Q) : sys :=
  let x := s_var s v in set_var s v (mkVar (v_alive x) (v_pen x) (v_staged x) p (v_elems x)).
Definition update_penalty_core (fx_odv fx_unst : bool) (s : sys) (v : nat) (p : Q) : sys :=
  let x := s_var s v in
  if Qeq_bool p (v_pen x) then
    (if fx_unst && negb (qpos p) then set_staged s v 0 else s)
  else if qpos p && negb (qpos (v_pen x)) then
    let s1 := set_staged s v p in
    if min_slack s1 v =? 0 then s1 else enable_var s1 v
  else if negb (qpos p) && qpos (v_pen x) then
    let s1 := disable_var s v in
    if fx_odv then odv_all s1 (v_elems (s_var s1 v)) else s1
  else
    let y := s_var s v in set_var s v (mkVar (v_alive y) p (v_staged y) (v_want y) (v_elems y)).
Definition update_penalty (fx_odv fx_unst : bool) (s : sys) (v : nat) (p : Q) : sys :=
  if qpos p then update_penalty_core fx_odv fx_unst (set_want s v p) v p
  else set_want (update_penalty_core fx_odv fx_unst s v p) v p.

(* var_free: "for elem in cnsts_ : decrease, unlink, on_disabled_var(elem.constraint)".  The element is dropped from the
   model's list as soon as it is unlinked (the code clears cnsts_ at the end; nothing in between reads the freed
   variable's list: it is in no disabled list that on_disabled_var walks once unlinked). *)
Definition detach (s : sys) (v c : nat) (w : Q) : sys :=
  let x := s_var s v in
  let k := s_cn s c in
  mkSys (s_nv s) (s_nc s)
        (upd (s_var s) v (mkVar (v_alive x) (v_pen x) (v_staged x) (v_want x) (del_key c (v_elems x))))
        (upd (s_cn s) c (mkCnst (c_limit k) (c_shared k) (if qpos (v_pen x) then c_cur k - share w else c_cur k)
                                (erase v (c_en k)) (erase v (c_dis k)))).
Definition var_free (s : sys) (v : nat) : sys :=
  let s1 := fold_left (fun s e => on_disabled_var (detach s v (fst e) (snd e)) (fst e)) (v_elems (s_var s v)) s in
  set_var s1 v dead_var.

Inductive op :=
| NewC (limit : Z) (shared : bool)
| NewV (p : Q)
| Expand (c v : nat) (w : Q)
| Pen (v : nat) (p : Q)
| Free (v : nat)
| Nop.

Definition step_gen (fx_odv fx_unst : bool) (s : sys) (o : op) : sys :=
  match o with
  | NewC lim sh => mkSys (s_nv s) (S (s_nc s)) (s_var s) (upd (s_cn s) (s_nc s) (mkCnst lim sh 0 [] []))
  | NewV p => if Qnum p <? 0 then s
              else mkSys (S (s_nv s)) (s_nc s) (upd (s_var s) (s_nv s) (mkVar true p 0 p [])) (s_cn s)
  | Expand c v w => if Nat.ltb c (s_nc s) && Nat.ltb v (s_nv s) && v_alive (s_var s v) && negb (Qnum w <? 0) then expand s c v w else s
  | Pen v p => if Nat.ltb v (s_nv s) && v_alive (s_var s v) && negb (Qnum p <? 0) then update_penalty fx_odv fx_unst s v p
               else s
  | Free v => if Nat.ltb v (s_nv s) && v_alive (s_var s v) then var_free s v else s
  | Nop => s
  end.
Definition step := step_gen true true.          (* the repaired code *)
Definition step_pinned := step_gen false false. (* the code as pinned *)
Definition run_ops (s : sys) (l : list op) : sys := fold_left step l s.

(** ** the invariants of System::check_concurrency, as a boolean test on a model state (bounded by the id counters) *)
Definition weight (s : sys) (v c : nat) : Q := match lookup c (v_elems (s_var s v)) with Some w => w | None => 0%Q end.
Definition count_en (s : sys) (c : nat) (l : list nat) : Z := fold_right (fun v a => share (weight s v c) + a) 0 l.
Definition full (s : sys) (c : nat) : bool := (0 <=? c_limit (s_cn s c)) && (c_cur (s_cn s c) =? c_limit (s_cn s c)).
Definition starving (s : sys) (v : nat) : bool :=
  v_alive (s_var s v) && qpos (v_staged (s_var s v)) && negb (existsb (fun e => full s (fst e)) (v_elems (s_var s v))).
Definition any_starving (s : sys) : bool := existsb (starving s) (seq 0 (s_nv s)).
Definition resumed_while_suspended (s : sys) (v : nat) : bool :=
  v_alive (s_var s v) && negb (qpos (v_want (s_var s v))) && (qpos (v_pen (s_var s v)) || qpos (v_staged (s_var s v))).

(** ** decoding of the integer protocol (same history encoding as harness/lmm_drv.cpp) *)
Definition mkq (n d : Z) : Q := Qmake n (Z.to_pos d).
Definition next_op (l : list Z) : option (op * list Z) :=
  match l with
  | 0 :: _ :: _ :: pol :: lim :: r => Some (NewC lim (negb (pol =? 0)), r)
  | 1 :: pn :: pd :: _ :: _ :: r => Some (NewV (mkq pn pd), r)
  | 2 :: c :: v :: wn :: wd :: r => Some (Expand (Z.to_nat c) (Z.to_nat v) (mkq wn wd), r)
  | 3 :: v :: pn :: pd :: r => Some (Pen (Z.to_nat v) (mkq pn pd), r)
  | 4 :: _ :: _ :: _ :: r => Some (Nop, r)
  | 5 :: _ :: _ :: _ :: r => Some (Nop, r)
  | 6 :: v :: r => Some (Free (Z.to_nat v), r)
  | 7 :: r => Some (Nop, r)
  | _ => None
  end.
Fixpoint parse (fuel : nat) (l : list Z) : list op :=
  match fuel with
  | O => []
  | S f => match next_op l with Some (o, r) => o :: parse f r | None => [] end
  end.

(* observation after each operation: -1, then cur of every constraint, then alive pen(n d) staged(n d) of every variable *)
Definition obs (s : sys) : list Z :=
  (-1) :: map (fun c => c_cur (s_cn s c)) (seq 0 (s_nc s))
  ++ flat_map (fun v => let x := s_var s v in
                        [if v_alive x then 1 else 0; Qnum (v_pen x); Z.pos (Qden (v_pen x));
                         Qnum (v_staged x); Z.pos (Qden (v_staged x))]) (seq 0 (s_nv s)).
Fixpoint run_obs (stp : sys -> op -> sys) (s : sys) (l : list op) : list Z :=
  match l with [] => [] | o :: r => let s' := stp s o in obs s' ++ run_obs stp s' r end.
Definition run_c18 (l : list Z) : list Z := run_obs step sys0 (parse (length l) l).
Definition run_c18_pinned (l : list Z) : list Z := run_obs step_pinned sys0 (parse (length l) l).
