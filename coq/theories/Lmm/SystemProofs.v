(** Lmm/SystemProofs.v — the invariants of System::check_concurrency hold after every history (C18). *)
From SGV Require Import Base.Tactics Lmm.System.
From Coq Require Import QArith.
Local Open Scope Z_scope.

(** * generic helpers *)
Lemma upd_same : forall A (f : nat -> A) i x, upd f i x i = x.
Proof. intros. unfold upd. now rewrite Nat.eqb_refl. Qed.
Lemma upd_other : forall A (f : nat -> A) i j x, j <> i -> upd f i x j = f j.
Proof. intros. unfold upd. destruct (Nat.eqb j i) eqn:E; [apply Nat.eqb_eq in E; contradiction | reflexivity]. Qed.

Lemma in_erase : forall v u l, In u (erase v l) <-> In u l /\ u <> v.
Proof.
  intros. unfold erase. split.
  - intro H. apply in_remove in H. exact H.
  - intros [H1 H2]. apply in_in_remove; assumption.
Qed.
Lemma erase_notin : forall v l, ~ In v l -> erase v l = l.
Proof. intros. unfold erase. apply notin_remove. assumption. Qed.
Lemma nodup_erase : forall v l, NoDup l -> NoDup (erase v l).
Proof.
  intros v l H. induction H as [|a l Hn Hd IH]; cbn; [constructor|].
  destruct (Nat.eq_dec v a); [exact IH|].
  constructor; [|exact IH]. intro Hin. apply in_erase in Hin. tauto.
Qed.
Lemma nodup_snoc : forall (v : nat) l, NoDup l -> ~ In v l -> NoDup (l ++ [v]).
Proof.
  intros v l H Hn. induction H as [|a l Ha Hd IH]; cbn; [constructor; [tauto|constructor]|].
  constructor.
  - rewrite in_app_iff. cbn. intros [H|[H|[]]]; [tauto|]. subst. apply Hn. now left.
  - apply IH. intro. apply Hn. now right.
Qed.

(** lookup / set_w / del_key *)
Lemma lookup_none : forall c es, lookup c es = None <-> ~ In c (map fst es).
Proof.
  induction es as [|[c' w] r IH]; cbn; [tauto|].
  destruct (Nat.eqb c' c) eqn:E.
  - apply Nat.eqb_eq in E. subst. split; [discriminate|intro H; exfalso; apply H; now left].
  - apply Nat.eqb_neq in E. rewrite IH. tauto.
Qed.
Lemma lookup_some_in : forall c es w, lookup c es = Some w -> In c (map fst es).
Proof.
  intros c es w H. destruct (in_dec Nat.eq_dec c (map fst es)) as [Hi|Hn]; [exact Hi|].
  apply lookup_none in Hn. congruence.
Qed.
Lemma in_lookup : forall c es, In c (map fst es) -> exists w, lookup c es = Some w.
Proof.
  intros c es H. destruct (lookup c es) eqn:E; [eauto|]. apply lookup_none in E. contradiction.
Qed.
Lemma lookup_app_new : forall c c' w es, lookup c' (es ++ [(c, w)]) =
   match lookup c' es with Some x => Some x | None => if Nat.eqb c c' then Some w else None end.
Proof.
  induction es as [|[a x] r IH]; cbn; [reflexivity|]. destruct (Nat.eqb a c'); [reflexivity|exact IH].
Qed.
Lemma map_fst_set_w : forall c w es, map fst (set_w c w es) = map fst es.
Proof.
  induction es as [|[a x] r IH]; cbn; [reflexivity|]. destruct (Nat.eqb a c) eqn:E; cbn; [|now rewrite IH].
  reflexivity.
Qed.
Lemma lookup_set_w : forall c w c' es, In c (map fst es) ->
  lookup c' (set_w c w es) = if Nat.eqb c c' then Some w else lookup c' es.
Proof.
  induction es as [|[a x] r IH]; cbn; [tauto|]. intros H.
  destruct (Nat.eqb a c) eqn:E.
  - apply Nat.eqb_eq in E. subst a. cbn. destruct (Nat.eqb c c'); reflexivity.
  - cbn. destruct H as [H|H]; [apply Nat.eqb_neq in E; congruence|].
    destruct (Nat.eqb a c') eqn:E2.
    + apply Nat.eqb_eq in E2. subst a. rewrite Nat.eqb_sym in E. rewrite E. reflexivity.
    + apply IH. exact H.
Qed.
Lemma in_del_key : forall c c' es, In c' (map fst (del_key c es)) <-> In c' (map fst es) /\ c' <> c.
Proof.
  induction es as [|[a x] r IH]; cbn; [tauto|].
  destruct (Nat.eqb a c) eqn:E.
  - apply Nat.eqb_eq in E. subst a. rewrite IH. split; [tauto|]. intros [[H|H] H2]; [congruence|tauto].
  - apply Nat.eqb_neq in E. cbn. rewrite IH. split; [intros [H|H]; [subst; tauto|tauto]|tauto].
Qed.
Lemma nodup_del_key : forall c es, NoDup (map fst es) -> NoDup (map fst (del_key c es)).
Proof.
  induction es as [|[a x] r IH]; cbn; intro H; [constructor|]. inv H.
  destruct (Nat.eqb a c); [auto|]. cbn. constructor; [|auto]. rewrite in_del_key. tauto.
Qed.
Lemma lookup_del_key : forall c c' es, lookup c' (del_key c es) = if Nat.eqb c c' then None else lookup c' es.
Proof.
  induction es as [|[a x] r IH]; cbn; [destruct (Nat.eqb c c'); reflexivity|].
  destruct (Nat.eqb a c) eqn:E.
  - apply Nat.eqb_eq in E. subst a. rewrite IH. destruct (Nat.eqb c c'); reflexivity.
  - cbn. destruct (Nat.eqb a c') eqn:E2; [|exact IH].
    apply Nat.eqb_eq in E2. subst a. rewrite Nat.eqb_sym in E. rewrite E. reflexivity.
Qed.

(** one pass over the elements of a variable = a pointwise update (constraints of a variable are distinct) *)
Lemma apply_elems_notin : forall g es cn c, ~ In c (map fst es) -> apply_elems g es cn c = cn c.
Proof.
  unfold apply_elems. induction es as [|[a w] r IH]; cbn; intros cn c H; [reflexivity|].
  rewrite IH by tauto. apply upd_other. intro; subst; tauto.
Qed.
Lemma apply_elems_spec : forall g es cn c, NoDup (map fst es) ->
  apply_elems g es cn c = match lookup c es with Some w => g w (cn c) | None => cn c end.
Proof.
  unfold apply_elems. induction es as [|[a w] r IH]; cbn; intros cn c H; [reflexivity|]. inv H.
  destruct (Nat.eqb a c) eqn:E.
  - apply Nat.eqb_eq in E. subst a. fold (apply_elems g r (upd cn c (g w (cn c)))).
    rewrite apply_elems_notin by assumption. apply upd_same.
  - rewrite IH by assumption. apply Nat.eqb_neq in E. rewrite upd_other by congruence. reflexivity.
Qed.

(** counting *)
Definition count_w (wt : nat -> Q) (l : list nat) : Z := fold_right (fun v a => share (wt v) + a) 0 l.
Lemma count_en_w : forall s c l, count_en s c l = count_w (fun v => weight s v c) l.
Proof. reflexivity. Qed.
Lemma count_cons : forall wt a l, count_w wt (a :: l) = share (wt a) + count_w wt l.
Proof. reflexivity. Qed.
Lemma count_ext : forall wt wt' l, (forall v, In v l -> wt v = wt' v) -> count_w wt l = count_w wt' l.
Proof.
  induction l as [|a l IH]; intro H; [reflexivity|]. rewrite !count_cons. rewrite H by now left. rewrite IH; [reflexivity|].
  intros; apply H; now right.
Qed.
Lemma erase_cons : forall v a l, erase v (a :: l) = if Nat.eq_dec v a then erase v l else a :: erase v l.
Proof. reflexivity. Qed.
Lemma count_erase : forall wt v l, NoDup l -> In v l -> count_w wt (erase v l) = count_w wt l - share (wt v).
Proof.
  intros wt v l H. induction H as [|a l Ha Hd IH]; [cbn; tauto|]. intros Hin. rewrite erase_cons, count_cons.
  destruct (Nat.eq_dec v a) as [e|n].
  - subst a. rewrite erase_notin by assumption. lia.
  - destruct Hin as [Hin|Hin]; [congruence|]. rewrite count_cons, IH by assumption. lia.
Qed.
Lemma count_upd_one : forall wt wt' v l, NoDup l -> In v l -> (forall u, u <> v -> wt' u = wt u) ->
  count_w wt' l = count_w wt l - share (wt v) + share (wt' v).
Proof.
  intros wt wt' v l H. induction H as [|a l Ha Hd IH]; [cbn; tauto|]. intros Hin Hw. rewrite !count_cons.
  destruct Hin as [Hin|Hin].
  - subst a. rewrite (count_ext wt' wt l); [lia|]. intros u Hu. apply Hw. intro; subst; contradiction.
  - rewrite IH by assumption. rewrite (Hw a) by (intro; subst; contradiction). lia.
Qed.
Lemma count_snoc : forall wt l v, count_w wt (l ++ [v]) = count_w wt l + share (wt v).
Proof. induction l as [|a l IH]; intros; [cbn; lia|]. cbn [app]. rewrite !count_cons, IH. lia. Qed.
Lemma share_01 : forall w, share w = 0 \/ share w = 1.
Proof. intro. unfold share. destruct (_ <=? _); auto. Qed.

(** min_slack *)
Lemma min_slack_aux_pos : forall cn es m, 0 < min_slack_aux cn es m ->
  0 < m /\ forall c, In c (map fst es) -> 0 < slack (cn c).
Proof.
  induction es as [|[c w] r IH]; cbn; intros m H; [split; [exact H|tauto]|].
  destruct (slack (cn c) <? m) eqn:E1.
  - destruct (slack (cn c) =? 0) eqn:E2; [lia|].
    apply IH in H. destruct H as [H1 H2]. split; [lia|]. intros c' [Hc|Hc]; [subst; exact H1|auto].
  - apply IH in H. destruct H as [H1 H2]. split; [exact H1|]. intros c' [Hc|Hc]; [subst; lia|auto].
Qed.
Lemma min_slack_aux_nonpos : forall cn es m, min_slack_aux cn es m <= 0 ->
  m <= 0 \/ exists c, In c (map fst es) /\ slack (cn c) <= 0.
Proof.
  induction es as [|[c w] r IH]; cbn; intros m H; [now left|].
  destruct (slack (cn c) <? m) eqn:E1.
  - destruct (slack (cn c) =? 0) eqn:E2; [right; exists c; split; [now left|lia]|].
    apply IH in H. destruct H as [H|[c' [H1 H2]]]; [right; exists c; split; [now left|exact H]|].
    right; exists c'; split; [now right|exact H2].
  - apply IH in H. destruct H as [H|[c' [H1 H2]]]; [now left|]. right; exists c'; split; [now right|exact H2].
Qed.

(** * the invariants *)
Definition on (s : sys) (v c : nat) : Prop := In c (map fst (v_elems (s_var s v))).
Definition alive (s : sys) (v : nat) : Prop := v_alive (s_var s v) = true.
Definition enabled (s : sys) (v : nat) : bool := qpos (v_pen (s_var s v)).
Definition stagedv (s : sys) (v : nat) : bool := qpos (v_staged (s_var s v)).

Record inv_struct (s : sys) : Prop := {
  i_en : forall c v, In v (c_en (s_cn s c)) <-> (alive s v /\ enabled s v = true /\ on s v c);
  i_dis : forall c v, In v (c_dis (s_cn s c)) <-> (alive s v /\ enabled s v = false /\ on s v c);
  i_nd_en : forall c, NoDup (c_en (s_cn s c));
  i_nd_dis : forall c, NoDup (c_dis (s_cn s c));
  i_nd_el : forall v, NoDup (map fst (v_elems (s_var s v)));
  i_cur : forall c, c_cur (s_cn s c) = count_en s c (c_en (s_cn s c));
  i_sign : forall v, 0 <= Qnum (v_pen (s_var s v)) /\ 0 <= Qnum (v_staged (s_var s v));
  i_st_pen : forall v, stagedv s v = true -> enabled s v = false;
  i_dead : forall v, ~ alive s v -> v_elems (s_var s v) = [] /\ stagedv s v = false;
  i_want : forall v, qpos (v_want (s_var s v)) = false -> enabled s v = false /\ stagedv s v = false }.

Definition lim_ok (s : sys) : Prop := forall c, 0 <= c_limit (s_cn s c) -> c_cur (s_cn s c) <= c_limit (s_cn s c).
Definition fullc (s : sys) (c : nat) : Prop := 0 <= c_limit (s_cn s c) /\ c_cur (s_cn s c) = c_limit (s_cn s c).
(* every staged variable (but [x]) uses a full constraint, or one of the constraints [P] still to be revisited *)
Definition just (P : list nat) (x : option nat) (s : sys) : Prop :=
  forall u, Some u <> x -> alive s u -> stagedv s u = true ->
    (exists c, on s u c /\ fullc s c) \/ (exists c, In c P /\ on s u c).
Definition inv (s : sys) : Prop := inv_struct s /\ lim_ok s /\ just [] None s.

Lemma weight_on : forall s v c, ~ on s v c -> weight s v c = 0%Q.
Proof. intros s v c H. unfold weight. apply lookup_none in H. now rewrite H. Qed.
Lemma qpos_0 : qpos 0 = false. Proof. reflexivity. Qed.

Ltac upd_simpl :=
  repeat first [ rewrite upd_same | rewrite upd_other by (try congruence; try lia; auto) ].

(** ** enable_var *)
Lemma enable_var_var : forall s u v, s_var (enable_var s u) v =
  if Nat.eqb v u then mkVar (v_alive (s_var s u)) (v_staged (s_var s u)) 0 (v_want (s_var s u)) (v_elems (s_var s u))
  else s_var s v.
Proof. reflexivity. Qed.
Lemma enable_var_cn : forall s u c, NoDup (map fst (v_elems (s_var s u))) -> s_cn (enable_var s u) c =
  match lookup c (v_elems (s_var s u)) with Some w => cn_enable u w (s_cn s c) | None => s_cn s c end.
Proof. intros. unfold enable_var. cbn [s_cn]. apply apply_elems_spec. assumption. Qed.
Lemma enable_var_elems : forall s u v, v_elems (s_var (enable_var s u) v) = v_elems (s_var s v).
Proof. intros. rewrite enable_var_var. destruct (Nat.eqb v u) eqn:E; [apply Nat.eqb_eq in E; subst|]; reflexivity. Qed.
Lemma enable_var_alive : forall s u v, v_alive (s_var (enable_var s u) v) = v_alive (s_var s v).
Proof. intros. rewrite enable_var_var. destruct (Nat.eqb v u) eqn:E; [apply Nat.eqb_eq in E; subst|]; reflexivity. Qed.
Lemma enable_var_on : forall s u v c, on (enable_var s u) v c <-> on s v c.
Proof. intros. unfold on. rewrite enable_var_elems. tauto. Qed.
Lemma enable_var_weight : forall s u v c, weight (enable_var s u) v c = weight s v c.
Proof. intros. unfold weight. rewrite enable_var_elems. reflexivity. Qed.

Lemma enable_var_struct : forall s u, inv_struct s -> alive s u -> stagedv s u = true -> inv_struct (enable_var s u).
Proof.
  intros s u I Ha Hs.
  assert (Hne : enabled s u = false) by (apply (i_st_pen s I); exact Hs).
  assert (Hnd := i_nd_el s I u).
  assert (Hen : forall v, enabled (enable_var s u) v = if Nat.eqb v u then true else enabled s v).
  { intro v. unfold enabled. rewrite enable_var_var. destruct (Nat.eqb v u); [exact Hs|reflexivity]. }
  assert (Hst : forall v, stagedv (enable_var s u) v = if Nat.eqb v u then false else stagedv s v).
  { intro v. unfold stagedv. rewrite enable_var_var. destruct (Nat.eqb v u); reflexivity. }
  assert (Hal : forall v, alive (enable_var s u) v <-> alive s v) by (intro; unfold alive; rewrite enable_var_alive; tauto).
  constructor.
  - intros c v. rewrite enable_var_cn by assumption. rewrite Hal, Hen, enable_var_on.
    destruct (lookup c (v_elems (s_var s u))) as [w|] eqn:El.
    + cbn [cn_enable c_en]. apply lookup_some_in in El. destruct (Nat.eqb v u) eqn:E.
      * apply Nat.eqb_eq in E. subst v. split; [intros _; repeat split; assumption|intros _; now left].
      * apply Nat.eqb_neq in E. cbn [In]. rewrite (i_en s I). split; [intros [H|H]; [congruence|exact H]|intro H; now right].
    + destruct (Nat.eqb v u) eqn:E; [|apply (i_en s I)].
      apply Nat.eqb_eq in E. subst v. apply lookup_none in El. rewrite (i_en s I). unfold on. rewrite Hne. split; [intros [_ [H _]]; discriminate|tauto].
  - intros c v. rewrite enable_var_cn by assumption. rewrite Hal, Hen, enable_var_on.
    destruct (lookup c (v_elems (s_var s u))) as [w|] eqn:El.
    + cbn [cn_enable c_dis]. rewrite in_erase, (i_dis s I). destruct (Nat.eqb v u) eqn:E.
      * apply Nat.eqb_eq in E. subst v. split; [tauto|intros [_ [H _]]; discriminate].
      * apply Nat.eqb_neq in E. tauto.
    + destruct (Nat.eqb v u) eqn:E; [|apply (i_dis s I)].
      apply Nat.eqb_eq in E. subst v. apply lookup_none in El. rewrite (i_dis s I). unfold on. split; [tauto|intros [_ [H _]]; discriminate].
  - intro c. rewrite enable_var_cn by assumption. destruct (lookup c (v_elems (s_var s u))) as [w|] eqn:El; [|apply (i_nd_en s I)].
    cbn [cn_enable c_en]. constructor; [|apply (i_nd_en s I)]. rewrite (i_en s I). rewrite Hne. intros [_ [H _]]; discriminate.
  - intro c. rewrite enable_var_cn by assumption. destruct (lookup c (v_elems (s_var s u))) as [w|] eqn:El; [|apply (i_nd_dis s I)].
    cbn [cn_enable c_dis]. apply nodup_erase. apply (i_nd_dis s I).
  - intro v. rewrite enable_var_elems. apply (i_nd_el s I).
  - intro c. rewrite enable_var_cn by assumption. rewrite count_en_w.
    rewrite (count_ext _ (fun v => weight s v c)) by (intros; apply enable_var_weight).
    destruct (lookup c (v_elems (s_var s u))) as [w|] eqn:El; [|apply (i_cur s I)].
    cbn [cn_enable c_en c_cur]. rewrite count_cons. rewrite (i_cur s I c), count_en_w. unfold weight at 1. rewrite El. lia.
  - intro v. rewrite enable_var_var. destruct (Nat.eqb v u); [|apply (i_sign s I)]. cbn. split; [apply (i_sign s I u)|lia].
  - intro v. rewrite Hst, Hen. destruct (Nat.eqb v u); [discriminate|apply (i_st_pen s I)].
  - intros v Hv. rewrite Hal in Hv. rewrite enable_var_elems, Hst. destruct (Nat.eqb v u) eqn:E.
    + apply Nat.eqb_eq in E. subst v. contradiction.
    + apply (i_dead s I). exact Hv.
  - intros v Hv. rewrite Hen, Hst. rewrite enable_var_var in Hv. destruct (Nat.eqb v u) eqn:E.
    + apply Nat.eqb_eq in E. subst v. cbn in Hv. apply (i_want s I) in Hv. destruct Hv as [_ Hv]. congruence.
    + apply (i_want s I). exact Hv.
Qed.
