(** Lmm/SystemProofs.v — the invariants of System::check_concurrency hold after every history (C18). *)
From SGV Require Import Base.Tactics Lmm.System.
From Coq Require Import QArith.
Local Open Scope Z_scope.

(** * generic helpers *)
Lemma upd_same : forall A (f : nat -> A) i x, upd f i x i = x.
Proof. intros. unfold upd. now rewrite Nat.eqb_refl. Qed.
Lemma upd_other : forall A (f : nat -> A) i j x, j <> i -> upd f i x j = f j.
Proof. intros. unfold upd. destruct (Nat.eqb j i) eqn:E; [apply Nat.eqb_eq in E; contradiction | reflexivity]. Qed.

Lemma in_erase : forall v u l, In u (erase v l) <-> In u l /\ u <> v.
Proof.
  intros. unfold erase. split.
  - intro H. apply in_remove in H. exact H.
  - intros [H1 H2]. apply in_in_remove; assumption.
Qed.
Lemma erase_notin : forall v l, ~ In v l -> erase v l = l.
Proof. intros. unfold erase. apply notin_remove. assumption. Qed.
Lemma nodup_erase : forall v l, NoDup l -> NoDup (erase v l).
Proof.
  intros v l H. induction H as [|a l Hn Hd IH]; cbn; [constructor|].
  destruct (Nat.eq_dec v a); [exact IH|].
  constructor; [|exact IH]. intro Hin. apply in_erase in Hin. tauto.
Qed.
Lemma nodup_snoc : forall (v : nat) l, NoDup l -> ~ In v l -> NoDup (l ++ [v]).
Proof.
  intros v l H Hn. induction H as [|a l Ha Hd IH]; cbn; [constructor; [tauto|constructor]|].
  constructor.
  - rewrite in_app_iff. cbn. intros [H|[H|[]]]; [tauto|]. subst. apply Hn. now left.
  - apply IH. intro. apply Hn. now right.
Qed.

(** lookup / set_w / del_key *)
Lemma lookup_none : forall c es, lookup c es = None <-> ~ In c (map fst es).
Proof.
  induction es as [|[c' w] r IH]; cbn; [tauto|].
  destruct (Nat.eqb c' c) eqn:E.
  - apply Nat.eqb_eq in E. subst. split; [discriminate|intro H; exfalso; apply H; now left].
  - apply Nat.eqb_neq in E. rewrite IH. tauto.
Qed.
Lemma lookup_some_in : forall c es w, lookup c es = Some w -> In c (map fst es).
Proof.
  intros c es w H. destruct (in_dec Nat.eq_dec c (map fst es)) as [Hi|Hn]; [exact Hi|].
  apply lookup_none in Hn. congruence.
Qed.
Lemma in_lookup : forall c es, In c (map fst es) -> exists w, lookup c es = Some w.
Proof.
  intros c es H. destruct (lookup c es) eqn:E; [eauto|]. apply lookup_none in E. contradiction.
Qed.
Lemma lookup_app_new : forall c c' w es, lookup c' (es ++ [(c, w)]) =
   match lookup c' es with Some x => Some x | None => if Nat.eqb c c' then Some w else None end.
Proof.
  induction es as [|[a x] r IH]; cbn; [reflexivity|]. destruct (Nat.eqb a c'); [reflexivity|exact IH].
Qed.
Lemma map_fst_set_w : forall c w es, map fst (set_w c w es) = map fst es.
Proof.
  induction es as [|[a x] r IH]; cbn; [reflexivity|]. destruct (Nat.eqb a c) eqn:E; cbn; [|now rewrite IH].
  reflexivity.
Qed.
Lemma lookup_set_w : forall c w c' es, In c (map fst es) ->
  lookup c' (set_w c w es) = if Nat.eqb c c' then Some w else lookup c' es.
Proof.
  induction es as [|[a x] r IH]; cbn; [tauto|]. intros H.
  destruct (Nat.eqb a c) eqn:E.
  - apply Nat.eqb_eq in E. subst a. cbn. destruct (Nat.eqb c c'); reflexivity.
  - cbn. destruct H as [H|H]; [apply Nat.eqb_neq in E; congruence|].
    destruct (Nat.eqb a c') eqn:E2.
    + apply Nat.eqb_eq in E2. subst a. rewrite Nat.eqb_sym in E. rewrite E. reflexivity.
    + apply IH. exact H.
Qed.
Lemma in_del_key : forall c c' es, In c' (map fst (del_key c es)) <-> In c' (map fst es) /\ c' <> c.
Proof.
  induction es as [|[a x] r IH]; cbn; [tauto|].
  destruct (Nat.eqb a c) eqn:E.
  - apply Nat.eqb_eq in E. subst a. rewrite IH. split; [tauto|]. intros [[H|H] H2]; [congruence|tauto].
  - apply Nat.eqb_neq in E. cbn. rewrite IH. split; [intros [H|H]; [subst; tauto|tauto]|tauto].
Qed.
Lemma nodup_del_key : forall c es, NoDup (map fst es) -> NoDup (map fst (del_key c es)).
Proof.
  induction es as [|[a x] r IH]; cbn; intro H; [constructor|]. inv H.
  destruct (Nat.eqb a c); [auto|]. cbn. constructor; [|auto]. rewrite in_del_key. tauto.
Qed.
Lemma lookup_del_key : forall c c' es, lookup c' (del_key c es) = if Nat.eqb c c' then None else lookup c' es.
Proof.
  induction es as [|[a x] r IH]; cbn; [destruct (Nat.eqb c c'); reflexivity|].
  destruct (Nat.eqb a c) eqn:E.
  - apply Nat.eqb_eq in E. subst a. rewrite IH. destruct (Nat.eqb c c'); reflexivity.
  - cbn. destruct (Nat.eqb a c') eqn:E2; [|exact IH].
    apply Nat.eqb_eq in E2. subst a. rewrite Nat.eqb_sym in E. rewrite E. reflexivity.
Qed.

(** one pass over the elements of a variable = a pointwise update (constraints of a variable are distinct) *)
Lemma apply_elems_notin : forall g es cn c, ~ In c (map fst es) -> apply_elems g es cn c = cn c.
Proof.
  unfold apply_elems. induction es as [|[a w] r IH]; cbn; intros cn c H; [reflexivity|].
  rewrite IH by tauto. apply upd_other. intro; subst; tauto.
Qed.
Lemma apply_elems_spec : forall g es cn c, NoDup (map fst es) ->
  apply_elems g es cn c = match lookup c es with Some w => g w (cn c) | None => cn c end.
Proof.
  unfold apply_elems. induction es as [|[a w] r IH]; cbn; intros cn c H; [reflexivity|]. inv H.
  destruct (Nat.eqb a c) eqn:E.
  - apply Nat.eqb_eq in E. subst a. fold (apply_elems g r (upd cn c (g w (cn c)))).
    rewrite apply_elems_notin by assumption. apply upd_same.
  - rewrite IH by assumption. apply Nat.eqb_neq in E. rewrite upd_other by congruence. reflexivity.
Qed.

(** counting *)
Definition count_w (wt : nat -> Q) (l : list nat) : Z := fold_right (fun v a => share (wt v) + a) 0 l.
Lemma count_en_w : forall s c l, count_en s c l = count_w (fun v => weight s v c) l.
Proof. reflexivity. Qed.
Lemma count_cons : forall wt a l, count_w wt (a :: l) = share (wt a) + count_w wt l.
Proof. reflexivity. Qed.
Lemma count_ext : forall wt wt' l, (forall v, In v l -> wt v = wt' v) -> count_w wt l = count_w wt' l.
Proof.
  induction l as [|a l IH]; intro H; [reflexivity|]. rewrite !count_cons. rewrite H by now left. rewrite IH; [reflexivity|].
  intros; apply H; now right.
Qed.
Lemma erase_cons : forall v a l, erase v (a :: l) = if Nat.eq_dec v a then erase v l else a :: erase v l.
Proof. reflexivity. Qed.
Lemma count_erase : forall wt v l, NoDup l -> In v l -> count_w wt (erase v l) = count_w wt l - share (wt v).
Proof.
  intros wt v l H. induction H as [|a l Ha Hd IH]; [cbn; tauto|]. intros Hin. rewrite erase_cons, count_cons.
  destruct (Nat.eq_dec v a) as [e|n].
  - subst a. rewrite erase_notin by assumption. lia.
  - destruct Hin as [Hin|Hin]; [congruence|]. rewrite count_cons, IH by assumption. lia.
Qed.
Lemma count_upd_one : forall wt wt' v l, NoDup l -> In v l -> (forall u, u <> v -> wt' u = wt u) ->
  count_w wt' l = count_w wt l - share (wt v) + share (wt' v).
Proof.
  intros wt wt' v l H. induction H as [|a l Ha Hd IH]; [cbn; tauto|]. intros Hin Hw. rewrite !count_cons.
  destruct Hin as [Hin|Hin].
  - subst a. rewrite (count_ext wt' wt l); [lia|]. intros u Hu. apply Hw. intro; subst; contradiction.
  - rewrite IH by assumption. rewrite (Hw a) by (intro; subst; contradiction). lia.
Qed.
Lemma count_snoc : forall wt l v, count_w wt (l ++ [v]) = count_w wt l + share (wt v).
Proof. induction l as [|a l IH]; intros; [cbn; lia|]. cbn [app]. rewrite !count_cons, IH. lia. Qed.
Lemma share_01 : forall w, share w = 0 \/ share w = 1.
Proof. intro. unfold share. destruct (_ <=? _); auto. Qed.

(** min_slack *)
Lemma min_slack_aux_pos : forall cn es m, 0 < min_slack_aux cn es m ->
  0 < m /\ forall c, In c (map fst es) -> 0 < slack (cn c).
Proof.
  induction es as [|[c w] r IH]; cbn; intros m H; [split; [exact H|tauto]|].
  destruct (slack (cn c) <? m) eqn:E1.
  - destruct (slack (cn c) =? 0) eqn:E2; [lia|].
    apply IH in H. destruct H as [H1 H2]. split; [lia|]. intros c' [Hc|Hc]; [subst; exact H1|auto].
  - apply IH in H. destruct H as [H1 H2]. split; [exact H1|]. intros c' [Hc|Hc]; [subst; lia|auto].
Qed.
Lemma min_slack_aux_nonpos : forall cn es m, min_slack_aux cn es m <= 0 ->
  m <= 0 \/ exists c, In c (map fst es) /\ slack (cn c) <= 0.
Proof.
  induction es as [|[c w] r IH]; cbn; intros m H; [now left|].
  destruct (slack (cn c) <? m) eqn:E1.
  - destruct (slack (cn c) =? 0) eqn:E2; [right; exists c; split; [now left|lia]|].
    apply IH in H. destruct H as [H|[c' [H1 H2]]]; [right; exists c; split; [now left|exact H]|].
    right; exists c'; split; [now right|exact H2].
  - apply IH in H. destruct H as [H|[c' [H1 H2]]]; [now left|]. right; exists c'; split; [now right|exact H2].
Qed.

(** * the invariants *)
Definition on (s : sys) (v c : nat) : Prop := In c (map fst (v_elems (s_var s v))).
Definition alive (s : sys) (v : nat) : Prop := v_alive (s_var s v) = true.
Definition enabled (s : sys) (v : nat) : bool := qpos (v_pen (s_var s v)).
Definition stagedv (s : sys) (v : nat) : bool := qpos (v_staged (s_var s v)).

Record inv_struct (s : sys) : Prop := {
  i_en : forall c v, In v (c_en (s_cn s c)) <-> (alive s v /\ enabled s v = true /\ on s v c);
  i_dis : forall c v, In v (c_dis (s_cn s c)) <-> (alive s v /\ enabled s v = false /\ on s v c);
  i_nd_en : forall c, NoDup (c_en (s_cn s c));
  i_nd_dis : forall c, NoDup (c_dis (s_cn s c));
  i_nd_el : forall v, NoDup (map fst (v_elems (s_var s v)));
  i_cur : forall c, c_cur (s_cn s c) = count_en s c (c_en (s_cn s c));
  i_sign : forall v, 0 <= Qnum (v_pen (s_var s v)) /\ 0 <= Qnum (v_staged (s_var s v));
  i_st_pen : forall v, stagedv s v = true -> enabled s v = false;
  i_dead : forall v, ~ alive s v -> v_elems (s_var s v) = [] /\ stagedv s v = false;
  i_want : forall v, qpos (v_want (s_var s v)) = false -> enabled s v = false /\ stagedv s v = false }.

Definition lim_ok (s : sys) : Prop := forall c, 0 <= c_limit (s_cn s c) -> c_cur (s_cn s c) <= c_limit (s_cn s c).
Definition fullc (s : sys) (c : nat) : Prop := 0 <= c_limit (s_cn s c) /\ c_cur (s_cn s c) = c_limit (s_cn s c).
(* every staged variable (but [x]) uses a full constraint, or one of the constraints [P] still to be revisited *)
Definition pend (P : list nat) (s : sys) (u : nat) : Prop :=
  exists c, In c P /\ on s u c /\ 0 <= c_limit (s_cn s c).
Definition just (P : list nat) (x : option nat) (s : sys) : Prop :=
  forall u, Some u <> x -> alive s u -> stagedv s u = true ->
    (exists c, on s u c /\ fullc s c) \/ pend P s u.
Definition inv (s : sys) : Prop := inv_struct s /\ lim_ok s /\ just [] None s.

Lemma weight_on : forall s v c, ~ on s v c -> weight s v c = 0%Q.
Proof. intros s v c H. unfold weight. apply lookup_none in H. now rewrite H. Qed.
Lemma qpos_0 : qpos 0 = false. Proof. reflexivity. Qed.

Ltac upd_simpl :=
  repeat first [ rewrite upd_same | rewrite upd_other by (try congruence; try lia; auto) ].

(** ** enable_var *)
Lemma enable_var_var : forall s u v, s_var (enable_var s u) v =
  if Nat.eqb v u then mkVar (v_alive (s_var s u)) (v_staged (s_var s u)) 0 (v_want (s_var s u)) (v_elems (s_var s u))
  else s_var s v.
Proof. reflexivity. Qed.
Lemma enable_var_cn : forall s u c, NoDup (map fst (v_elems (s_var s u))) -> s_cn (enable_var s u) c =
  match lookup c (v_elems (s_var s u)) with Some w => cn_enable u w (s_cn s c) | None => s_cn s c end.
Proof. intros. unfold enable_var. cbn [s_cn]. apply apply_elems_spec. assumption. Qed.
Lemma enable_var_elems : forall s u v, v_elems (s_var (enable_var s u) v) = v_elems (s_var s v).
Proof. intros. rewrite enable_var_var. destruct (Nat.eqb v u) eqn:E; [apply Nat.eqb_eq in E; subst|]; reflexivity. Qed.
Lemma enable_var_alive : forall s u v, v_alive (s_var (enable_var s u) v) = v_alive (s_var s v).
Proof. intros. rewrite enable_var_var. destruct (Nat.eqb v u) eqn:E; [apply Nat.eqb_eq in E; subst|]; reflexivity. Qed.
Lemma enable_var_on : forall s u v c, on (enable_var s u) v c <-> on s v c.
Proof. intros. unfold on. rewrite enable_var_elems. tauto. Qed.
Lemma enable_var_weight : forall s u v c, weight (enable_var s u) v c = weight s v c.
Proof. intros. unfold weight. rewrite enable_var_elems. reflexivity. Qed.

Lemma enable_var_struct : forall s u, inv_struct s -> alive s u -> stagedv s u = true -> inv_struct (enable_var s u).
Proof.
  intros s u I Ha Hs.
  assert (Hne : enabled s u = false) by (apply (i_st_pen s I); exact Hs).
  assert (Hnd := i_nd_el s I u).
  assert (Hen : forall v, enabled (enable_var s u) v = if Nat.eqb v u then true else enabled s v).
  { intro v. unfold enabled. rewrite enable_var_var. destruct (Nat.eqb v u); [exact Hs|reflexivity]. }
  assert (Hst : forall v, stagedv (enable_var s u) v = if Nat.eqb v u then false else stagedv s v).
  { intro v. unfold stagedv. rewrite enable_var_var. destruct (Nat.eqb v u); reflexivity. }
  assert (Hal : forall v, alive (enable_var s u) v <-> alive s v) by (intro; unfold alive; rewrite enable_var_alive; tauto).
  constructor.
  - intros c v. rewrite enable_var_cn by assumption. rewrite Hal, Hen, enable_var_on.
    destruct (lookup c (v_elems (s_var s u))) as [w|] eqn:El.
    + cbn [cn_enable c_en]. apply lookup_some_in in El. destruct (Nat.eqb v u) eqn:E.
      * apply Nat.eqb_eq in E. subst v. split; [intros _; repeat split; assumption|intros _; now left].
      * apply Nat.eqb_neq in E. cbn [In]. rewrite (i_en s I). split; [intros [H|H]; [congruence|exact H]|intro H; now right].
    + destruct (Nat.eqb v u) eqn:E; [|apply (i_en s I)].
      apply Nat.eqb_eq in E. subst v. apply lookup_none in El. rewrite (i_en s I). unfold on. rewrite Hne. split; [intros [_ [H _]]; discriminate|tauto].
  - intros c v. rewrite enable_var_cn by assumption. rewrite Hal, Hen, enable_var_on.
    destruct (lookup c (v_elems (s_var s u))) as [w|] eqn:El.
    + cbn [cn_enable c_dis]. rewrite in_erase, (i_dis s I). destruct (Nat.eqb v u) eqn:E.
      * apply Nat.eqb_eq in E. subst v. split; [tauto|intros [_ [H _]]; discriminate].
      * apply Nat.eqb_neq in E. tauto.
    + destruct (Nat.eqb v u) eqn:E; [|apply (i_dis s I)].
      apply Nat.eqb_eq in E. subst v. apply lookup_none in El. rewrite (i_dis s I). unfold on. split; [tauto|intros [_ [H _]]; discriminate].
  - intro c. rewrite enable_var_cn by assumption. destruct (lookup c (v_elems (s_var s u))) as [w|] eqn:El; [|apply (i_nd_en s I)].
    cbn [cn_enable c_en]. constructor; [|apply (i_nd_en s I)]. rewrite (i_en s I). rewrite Hne. intros [_ [H _]]; discriminate.
  - intro c. rewrite enable_var_cn by assumption. destruct (lookup c (v_elems (s_var s u))) as [w|] eqn:El; [|apply (i_nd_dis s I)].
    cbn [cn_enable c_dis]. apply nodup_erase. apply (i_nd_dis s I).
  - intro v. rewrite enable_var_elems. apply (i_nd_el s I).
  - intro c. rewrite enable_var_cn by assumption. rewrite count_en_w.
    rewrite (count_ext _ (fun v => weight s v c)) by (intros; apply enable_var_weight).
    destruct (lookup c (v_elems (s_var s u))) as [w|] eqn:El; [|apply (i_cur s I)].
    assert (Hw : weight s u c = w) by (unfold weight; now rewrite El).
    cbn [cn_enable c_en c_cur]. rewrite count_cons. cbv beta. rewrite Hw, (i_cur s I c), count_en_w. lia.
  - intro v. rewrite enable_var_var. destruct (Nat.eqb v u); [|apply (i_sign s I)]. cbn. split; [apply (i_sign s I u)|lia].
  - intro v. rewrite Hst, Hen. destruct (Nat.eqb v u); [discriminate|apply (i_st_pen s I)].
  - intros v Hv. rewrite Hal in Hv. rewrite enable_var_elems, Hst. destruct (Nat.eqb v u) eqn:E.
    + apply Nat.eqb_eq in E. subst v. contradiction.
    + apply (i_dead s I). exact Hv.
  - intros v Hv. rewrite Hen, Hst. rewrite enable_var_var in Hv. destruct (Nat.eqb v u) eqn:E.
    + apply Nat.eqb_eq in E. subst v. cbn in Hv. apply (i_want s I) in Hv. destruct Hv as [_ Hv]. congruence.
    + apply (i_want s I). exact Hv.
Qed.

(** ** disable_var *)
Lemma disable_var_var : forall s u v, s_var (disable_var s u) v =
  if Nat.eqb v u then mkVar (v_alive (s_var s u)) 0 0 (v_want (s_var s u)) (v_elems (s_var s u)) else s_var s v.
Proof. reflexivity. Qed.
Lemma disable_var_cn : forall s u c, NoDup (map fst (v_elems (s_var s u))) -> s_cn (disable_var s u) c =
  match lookup c (v_elems (s_var s u)) with Some w => cn_disable u w (s_cn s c) | None => s_cn s c end.
Proof. intros. unfold disable_var. cbn [s_cn]. apply apply_elems_spec. assumption. Qed.
Lemma disable_var_elems : forall s u v, v_elems (s_var (disable_var s u) v) = v_elems (s_var s v).
Proof. intros. rewrite disable_var_var. destruct (Nat.eqb v u) eqn:E; [apply Nat.eqb_eq in E; subst|]; reflexivity. Qed.
Lemma disable_var_alive : forall s u v, v_alive (s_var (disable_var s u) v) = v_alive (s_var s v).
Proof. intros. rewrite disable_var_var. destruct (Nat.eqb v u) eqn:E; [apply Nat.eqb_eq in E; subst|]; reflexivity. Qed.
Lemma disable_var_on : forall s u v c, on (disable_var s u) v c <-> on s v c.
Proof. intros. unfold on. rewrite disable_var_elems. tauto. Qed.
Lemma disable_var_weight : forall s u v c, weight (disable_var s u) v c = weight s v c.
Proof. intros. unfold weight. rewrite disable_var_elems. reflexivity. Qed.

Lemma disable_var_struct : forall s u, inv_struct s -> alive s u -> enabled s u = true -> inv_struct (disable_var s u).
Proof.
  intros s u I Ha He.
  assert (Hnd := i_nd_el s I u).
  assert (Hen : forall v, enabled (disable_var s u) v = if Nat.eqb v u then false else enabled s v).
  { intro v. unfold enabled. rewrite disable_var_var. destruct (Nat.eqb v u); reflexivity. }
  assert (Hst : forall v, stagedv (disable_var s u) v = if Nat.eqb v u then false else stagedv s v).
  { intro v. unfold stagedv. rewrite disable_var_var. destruct (Nat.eqb v u); reflexivity. }
  assert (Hal : forall v, alive (disable_var s u) v <-> alive s v) by (intro; unfold alive; rewrite disable_var_alive; tauto).
  constructor.
  - intros c v. rewrite disable_var_cn by assumption. rewrite Hal, Hen, disable_var_on.
    destruct (lookup c (v_elems (s_var s u))) as [w|] eqn:El.
    + cbn [cn_disable c_en]. rewrite in_erase, (i_en s I). destruct (Nat.eqb v u) eqn:E.
      * apply Nat.eqb_eq in E. subst v. split; [tauto|intros [_ [H _]]; discriminate].
      * apply Nat.eqb_neq in E. tauto.
    + destruct (Nat.eqb v u) eqn:E; [|apply (i_en s I)].
      apply Nat.eqb_eq in E. subst v. apply lookup_none in El. rewrite (i_en s I). unfold on. split; [tauto|intros [_ [H _]]; discriminate].
  - intros c v. rewrite disable_var_cn by assumption. rewrite Hal, Hen, disable_var_on.
    destruct (lookup c (v_elems (s_var s u))) as [w|] eqn:El.
    + cbn [cn_disable c_dis]. apply lookup_some_in in El. rewrite in_app_iff, (i_dis s I). cbn [In]. destruct (Nat.eqb v u) eqn:E.
      * apply Nat.eqb_eq in E. subst v. split; [intros _; repeat split; assumption|intros _; right; now left].
      * apply Nat.eqb_neq in E. split; [intros [H|[H|[]]]; [exact H|congruence]|intro H; now left].
    + destruct (Nat.eqb v u) eqn:E; [|apply (i_dis s I)].
      apply Nat.eqb_eq in E. subst v. apply lookup_none in El. rewrite (i_dis s I). unfold on. rewrite He. split; [intros [_ [H _]]; discriminate|tauto].
  - intro c. rewrite disable_var_cn by assumption. destruct (lookup c (v_elems (s_var s u))) as [w|] eqn:El; [|apply (i_nd_en s I)].
    cbn [cn_disable c_en]. apply nodup_erase. apply (i_nd_en s I).
  - intro c. rewrite disable_var_cn by assumption. destruct (lookup c (v_elems (s_var s u))) as [w|] eqn:El; [|apply (i_nd_dis s I)].
    cbn [cn_disable c_dis]. apply nodup_snoc; [apply (i_nd_dis s I)|]. rewrite (i_dis s I). rewrite He. intros [_ [H _]]; discriminate.
  - intro v. rewrite disable_var_elems. apply (i_nd_el s I).
  - intro c. rewrite disable_var_cn by assumption. rewrite count_en_w.
    rewrite (count_ext _ (fun v => weight s v c)) by (intros; apply disable_var_weight).
    destruct (lookup c (v_elems (s_var s u))) as [w|] eqn:El; [|apply (i_cur s I)].
    assert (Hw : weight s u c = w) by (unfold weight; now rewrite El).
    cbn [cn_disable c_en c_cur]. rewrite count_erase; [|apply (i_nd_en s I)|].
    + cbv beta. rewrite Hw, (i_cur s I c), count_en_w. lia.
    + rewrite (i_en s I). apply lookup_some_in in El. repeat split; assumption.
  - intro v. rewrite disable_var_var. destruct (Nat.eqb v u); [|apply (i_sign s I)]. cbn. lia.
  - intro v. rewrite Hst, Hen. destruct (Nat.eqb v u); [discriminate|apply (i_st_pen s I)].
  - intros v Hv. rewrite Hal in Hv. rewrite disable_var_elems, Hst. destruct (Nat.eqb v u) eqn:E.
    + apply Nat.eqb_eq in E. subst v. contradiction.
    + apply (i_dead s I). exact Hv.
  - intros v Hv. rewrite Hen, Hst. rewrite disable_var_var in Hv. destruct (Nat.eqb v u) eqn:E; [split; reflexivity|].
    apply (i_want s I). exact Hv.
Qed.

(** ** what on_disabled_var may change *)
Record frame (s s' : sys) : Prop := {
  f_elems : forall v, v_elems (s_var s' v) = v_elems (s_var s v);
  f_alive : forall v, v_alive (s_var s' v) = v_alive (s_var s v);
  f_limit : forall c, c_limit (s_cn s' c) = c_limit (s_cn s c);
  f_unstaged : forall v, stagedv s v = false -> s_var s' v = s_var s v;
  f_full : forall c, fullc s c -> fullc s' c;
  f_nv : s_nv s' = s_nv s /\ s_nc s' = s_nc s }.
Lemma frame_refl : forall s, frame s s.
Proof. intro s. constructor; auto. Qed.
Lemma frame_trans : forall s1 s2 s3, frame s1 s2 -> frame s2 s3 -> frame s1 s3.
Proof.
  intros s1 s2 s3 A B. constructor.
  - intro v. rewrite (f_elems _ _ B), (f_elems _ _ A). reflexivity.
  - intro v. rewrite (f_alive _ _ B), (f_alive _ _ A). reflexivity.
  - intro c. rewrite (f_limit _ _ B), (f_limit _ _ A). reflexivity.
  - intros v H. assert (H2 := f_unstaged _ _ A v H). rewrite <- H2. apply (f_unstaged _ _ B). unfold stagedv. rewrite H2. exact H.
  - intros c H. apply (f_full _ _ B), (f_full _ _ A), H.
  - destruct (f_nv _ _ A), (f_nv _ _ B). split; congruence.
Qed.
Lemma frame_on : forall s s' v c, frame s s' -> (on s' v c <-> on s v c).
Proof. intros. unfold on. rewrite (f_elems _ _ H). tauto. Qed.
Lemma frame_alive : forall s s' v, frame s s' -> (alive s' v <-> alive s v).
Proof. intros. unfold alive. rewrite (f_alive _ _ H). tauto. Qed.

Lemma pend_frame : forall P s s' u, frame s s' -> pend P s u -> pend P s' u.
Proof.
  intros P s s' u Fr [c [A [B C]]]. exists c. split; [exact A|]. split; [apply (frame_on _ _ _ _ Fr); exact B|].
  rewrite (f_limit _ _ Fr). exact C.
Qed.
Lemma min_slack_pos : forall s u c, 0 < min_slack s u -> on s u c -> 0 < slack (s_cn s c).
Proof. intros s u c H Ho. unfold min_slack in H. apply min_slack_aux_pos in H. apply H. exact Ho. Qed.
Lemma slack_full : forall s c, fullc s c -> slack (s_cn s c) = 0.
Proof. intros s c [H1 H2]. unfold slack. destruct (c_limit (s_cn s c) <? 0) eqn:E; lia. Qed.

Lemma enable_var_lim : forall s u, inv_struct s -> lim_ok s -> 0 < min_slack s u -> lim_ok (enable_var s u).
Proof.
  intros s u I L Hm c. rewrite enable_var_cn by apply (i_nd_el s I).
  destruct (lookup c (v_elems (s_var s u))) as [w|] eqn:El; [|apply L].
  cbn [cn_enable c_limit c_cur]. intro Hl. apply lookup_some_in in El.
  assert (Hs := min_slack_pos s u c Hm El). unfold slack in Hs.
  destruct (c_limit (s_cn s c) <? 0) eqn:E; [lia|]. destruct (share_01 w); lia.
Qed.
Lemma enable_var_frame : forall s u, inv_struct s -> stagedv s u = true -> 0 < min_slack s u -> frame s (enable_var s u).
Proof.
  intros s u I Hs Hm. constructor.
  - apply enable_var_elems.
  - apply enable_var_alive.
  - intro c. rewrite enable_var_cn by apply (i_nd_el s I). destruct (lookup c _); reflexivity.
  - intros v Hv. rewrite enable_var_var. destruct (Nat.eqb v u) eqn:E; [|reflexivity]. apply Nat.eqb_eq in E. subst. congruence.
  - intros c Hf. unfold fullc. rewrite enable_var_cn by apply (i_nd_el s I).
    destruct (lookup c (v_elems (s_var s u))) as [w|] eqn:El; [|exact Hf].
    apply lookup_some_in in El. assert (H1 := min_slack_pos s u c Hm El). rewrite (slack_full s c Hf) in H1. lia.
  - split; reflexivity.
Qed.

Lemma not_can_enable_full : forall s u, lim_ok s -> stagedv s u = true -> can_enable s u = false ->
  exists c, on s u c /\ fullc s c.
Proof.
  intros s u L Hs Hc. unfold can_enable in Hc. fold (stagedv s u) in Hc. rewrite Hs in Hc. cbn in Hc.
  assert (Hm : min_slack s u <= 0) by lia. unfold min_slack in Hm. apply min_slack_aux_nonpos in Hm.
  destruct Hm as [Hm|[c [Hc1 Hc2]]]; [unfold INT_MAX in Hm; lia|].
  exists c. split; [exact Hc1|]. unfold slack in Hc2. unfold fullc. specialize (L c).
  destruct (c_limit (s_cn s c) <? 0) eqn:E; [unfold INT_MAX in Hc2; lia|]. lia.
Qed.

Lemma odv_loop_ok : forall c P x l s,
  inv_struct s -> lim_ok s -> 0 <= c_limit (s_cn s c) ->
  (forall u, In u l -> alive s u) ->
  (forall u, Some u <> x -> alive s u -> stagedv s u = true ->
     (exists c', on s u c' /\ fullc s c') \/ pend P s u \/ (on s u c /\ In u l)) ->
  inv_struct (odv_loop c l s) /\ lim_ok (odv_loop c l s) /\ just P x (odv_loop c l s) /\ frame s (odv_loop c l s).
Proof.
  intros c P x. induction l as [|u r IH]; intros s I L Hl Hal HJ.
  - cbn. refine (conj I (conj L (conj _ (frame_refl s)))).
    intros u Hx Ha Hs. destruct (HJ u Hx Ha Hs) as [H|[H|[_ []]]]; [now left|now right].
  - cbn [odv_loop].
    set (s1 := if can_enable s u then enable_var s u else s).
    assert (H1 : inv_struct s1 /\ lim_ok s1 /\ frame s s1 /\
                 (forall u', Some u' <> x -> alive s1 u' -> stagedv s1 u' = true ->
                    (exists c', on s1 u' c' /\ fullc s1 c') \/ pend P s1 u' \/ (on s1 u' c /\ In u' r))).
    { subst s1. destruct (can_enable s u) eqn:Ec.
      - unfold can_enable in Ec. apply andb_prop in Ec. destruct Ec as [Es Em]. fold (stagedv s u) in Es.
        assert (Hm : 0 < min_slack s u) by lia.
        assert (Fr := enable_var_frame s u I Es Hm).
        split; [apply enable_var_struct; auto; apply Hal; now left|].
        split; [apply enable_var_lim; auto|]. split; [exact Fr|].
        intros u' Hx Ha Hs. assert (Hne : u' <> u).
        { intro; subst u'. unfold stagedv in Hs. rewrite enable_var_var, Nat.eqb_refl in Hs. cbn in Hs. discriminate. }
        assert (Hs0 : stagedv s u' = true).
        { unfold stagedv in *. rewrite enable_var_var in Hs. apply Nat.eqb_neq in Hne. rewrite Hne in Hs. exact Hs. }
        rewrite (frame_alive _ _ _ Fr) in Ha.
        destruct (HJ u' Hx Ha Hs0) as [[c' [A B]]|[A|[A B]]].
        + left. exists c'. split; [apply (frame_on _ _ _ _ Fr); exact A|apply (f_full _ _ Fr); exact B].
        + right; left. apply (pend_frame _ _ _ _ Fr). exact A.
        + right; right. split; [apply (frame_on _ _ _ _ Fr); exact A|]. destruct B as [B|B]; [congruence|exact B].
      - split; [exact I|]. split; [exact L|]. split; [apply frame_refl|].
        intros u' Hx Ha Hs. destruct (HJ u' Hx Ha Hs) as [H|[H|[A B]]]; [now left|right; now left|].
        destruct B as [B|B]; [|right; right; split; assumption].
        subst u'. left. apply not_can_enable_full; assumption. }
    destruct H1 as [I1 [L1 [Fr HJ1]]].
    destruct (c_cur (s_cn s1 c) =? c_limit (s_cn s1 c)) eqn:Efull.
    + refine (conj I1 (conj L1 (conj _ Fr))).
      intros u' Hx Ha Hs. destruct (HJ1 u' Hx Ha Hs) as [H|[H|[A B]]]; [now left|now right|].
      left. exists c. split; [exact A|]. split; [rewrite (f_limit _ _ Fr); exact Hl|lia].
    + destruct (IH s1 I1 L1) as [A [B [C D]]].
      * rewrite (f_limit _ _ Fr). exact Hl.
      * intros u' Hu. apply (frame_alive _ _ _ Fr). apply Hal. now right.
      * exact HJ1.
      * refine (conj A (conj B (conj C _))). eapply frame_trans; eassumption.
Qed.

Lemma on_disabled_var_ok : forall s c P x,
  inv_struct s -> lim_ok s -> just (c :: P) x s ->
  inv_struct (on_disabled_var s c) /\ lim_ok (on_disabled_var s c) /\ just P x (on_disabled_var s c) /\ frame s (on_disabled_var s c).
Proof.
  intros s c P x I L J. unfold on_disabled_var. destruct (c_limit (s_cn s c) <? 0) eqn:E.
  - refine (conj I (conj L (conj _ (frame_refl s)))).
    intros u Hx Ha Hs. destruct (J u Hx Ha Hs) as [H|[c' [[H|H] [H2 H3]]]]; [now left|subst; lia|].
    right. exists c'. repeat split; assumption.
  - apply odv_loop_ok; try assumption; [lia| |].
    + intros u Hu. apply (i_dis s I) in Hu. tauto.
    + intros u Hx Ha Hs. destruct (J u Hx Ha Hs) as [H|[c' [[H|H] [H2 H3]]]]; [now left| |right; left; exists c'; repeat split; assumption].
      subst c'. right; right. split; [exact H2|]. apply (i_dis s I). repeat split; try assumption. apply (i_st_pen s I). exact Hs.
Qed.

Lemma odv_all_ok : forall es s P x,
  inv_struct s -> lim_ok s -> just (map fst es ++ P) x s ->
  inv_struct (odv_all s es) /\ lim_ok (odv_all s es) /\ just P x (odv_all s es) /\ frame s (odv_all s es).
Proof.
  unfold odv_all. induction es as [|[c w] r IH]; intros s P x I L J.
  - cbn. refine (conj I (conj L (conj J (frame_refl s)))).
  - cbn [fold_left fst]. cbn [map fst app] in J.
    destruct (on_disabled_var_ok s c (map fst r ++ P) x I L J) as [I1 [L1 [J1 F1]]].
    destruct (IH _ P x I1 L1 J1) as [I2 [L2 [J2 F2]]].
    refine (conj I2 (conj L2 (conj J2 _))). eapply frame_trans; eassumption.
Qed.

Lemma min_slack_aux_nonneg : forall cn es m, 0 <= m -> (forall c, In c (map fst es) -> 0 <= slack (cn c)) ->
  0 <= min_slack_aux cn es m.
Proof.
  induction es as [|[c w] r IH]; cbn; intros m Hm H; [exact Hm|].
  destruct (slack (cn c) <? m); [destruct (slack (cn c) =? 0); [lia|]|]; apply IH; auto; try (apply H; now left).
Qed.
Lemma min_slack_nonneg : forall s u, lim_ok s -> 0 <= min_slack s u.
Proof.
  intros s u L. apply min_slack_aux_nonneg; [unfold INT_MAX; lia|]. intros c _. unfold slack. specialize (L c).
  destruct (c_limit (s_cn s c) <? 0) eqn:E; [unfold INT_MAX; lia|lia].
Qed.

(** ** changing only the penalty fields of one variable (same alive, same elements, same enabledness) *)
Lemma set_var_struct : forall s v y, inv_struct s ->
  v_alive y = v_alive (s_var s v) -> v_elems y = v_elems (s_var s v) -> qpos (v_pen y) = enabled s v ->
  0 <= Qnum (v_pen y) -> 0 <= Qnum (v_staged y) ->
  (qpos (v_staged y) = true -> qpos (v_pen y) = false) ->
  (v_alive y = false -> qpos (v_staged y) = false) ->
  (qpos (v_want y) = false -> qpos (v_pen y) = false /\ qpos (v_staged y) = false) ->
  inv_struct (set_var s v y).
Proof.
  intros s v y I Ha He Hp S1 S2 Hsp Hd Hw.
  assert (Hal : forall u, alive (set_var s v y) u <-> alive s u).
  { intro u. unfold alive, set_var. cbn [s_var]. unfold upd. destruct (Nat.eqb u v) eqn:E; [|tauto]. apply Nat.eqb_eq in E. subst. rewrite Ha. tauto. }
  assert (Hel : forall u, v_elems (s_var (set_var s v y) u) = v_elems (s_var s u)).
  { intro u. unfold set_var. cbn [s_var]. unfold upd. destruct (Nat.eqb u v) eqn:E; [|reflexivity]. apply Nat.eqb_eq in E. subst. exact He. }
  assert (Hen : forall u, enabled (set_var s v y) u = enabled s u).
  { intro u. unfold enabled, set_var. cbn [s_var]. unfold upd. destruct (Nat.eqb u v) eqn:E; [|reflexivity]. apply Nat.eqb_eq in E. subst. exact Hp. }
  assert (Hon : forall u c, on (set_var s v y) u c <-> on s u c) by (intros; unfold on; rewrite Hel; tauto).
  constructor.
  - intros c u. rewrite Hal, Hen, Hon. apply (i_en s I).
  - intros c u. rewrite Hal, Hen, Hon. apply (i_dis s I).
  - apply (i_nd_en s I).
  - apply (i_nd_dis s I).
  - intro u. rewrite Hel. apply (i_nd_el s I).
  - intro c. cbn [set_var s_cn]. rewrite (i_cur s I c). rewrite !count_en_w. apply count_ext. intros u _. unfold weight. rewrite Hel. reflexivity.
  - intro u. unfold set_var. cbn [s_var]. unfold upd. destruct (Nat.eqb u v); [split; assumption|apply (i_sign s I)].
  - intro u. unfold stagedv, enabled, set_var. cbn [s_var]. unfold upd. destruct (Nat.eqb u v); [exact Hsp|apply (i_st_pen s I)].
  - intros u Hu. rewrite Hal in Hu. rewrite Hel. split; [apply (i_dead s I); exact Hu|].
    unfold stagedv, set_var. cbn [s_var]. unfold upd. destruct (Nat.eqb u v) eqn:E; [|apply (i_dead s I); exact Hu].
    apply Nat.eqb_eq in E. subst. apply Hd. unfold alive in Hu. rewrite Ha. destruct (v_alive (s_var s v)); [contradiction|reflexivity].
  - intro u. unfold stagedv, enabled, set_var. cbn [s_var]. unfold upd. destruct (Nat.eqb u v); [exact Hw|apply (i_want s I)].
Qed.

Lemma just_set_var : forall s v y P x, v_alive y = v_alive (s_var s v) -> v_elems y = v_elems (s_var s v) ->
  just P x s -> (qpos (v_staged y) = true -> stagedv s v = true \/ (exists c, on s v c /\ fullc s c)) ->
  just P x (set_var s v y).
Proof.
  intros s v y P x Ha He J Hs u Hx Hal Hst.
  assert (Hel : forall u, v_elems (s_var (set_var s v y) u) = v_elems (s_var s u)).
  { intro u0. unfold set_var. cbn [s_var]. unfold upd. destruct (Nat.eqb u0 v) eqn:E; [|reflexivity]. apply Nat.eqb_eq in E. subst. exact He. }
  assert (Hon : forall u c, on (set_var s v y) u c <-> on s u c) by (intros; unfold on; rewrite Hel; tauto).
  assert (Hal0 : alive s u).
  { revert Hal. unfold alive, set_var. cbn [s_var]. unfold upd. destruct (Nat.eqb u v) eqn:E; [|tauto]. apply Nat.eqb_eq in E. subst. rewrite Ha. tauto. }
  assert (Hres : (exists c, on s u c /\ fullc s c) \/ pend P s u).
  { revert Hst. unfold stagedv, set_var. cbn [s_var]. unfold upd. destruct (Nat.eqb u v) eqn:E.
    - apply Nat.eqb_eq in E. subst u. intro Hq. destruct (Hs Hq) as [H|H]; [apply J; assumption|now left].
    - intro Hq. apply J; assumption. }
  destruct Hres as [[c [A B]]|[c [A [B C]]]].
  - left. exists c. split; [apply Hon; exact A|exact B].
  - right. exists c. split; [exact A|]. split; [apply Hon; exact B|exact C].
Qed.

Lemma qpos_Qeq : forall a b, Qeq_bool a b = true -> qpos a = qpos b.
Proof.
  intros a b H. apply Qeq_bool_iff in H. unfold Qeq in H. unfold qpos.
  destruct (0 <? Qnum a) eqn:E1, (0 <? Qnum b) eqn:E2; try reflexivity; nia.
Qed.
Lemma qpos_false_zero : forall a b, 0 <= Qnum a -> 0 <= Qnum b -> qpos a = false -> qpos b = false -> Qeq_bool a b = true.
Proof.
  intros a b Ha Hb H1 H2. apply Qeq_bool_iff. unfold Qeq. unfold qpos in *.
  assert (Qnum a = 0) by lia. assert (Qnum b = 0) by lia. rewrite H, H0. reflexivity.
Qed.

Lemma disable_var_lim : forall s u, inv_struct s -> lim_ok s -> lim_ok (disable_var s u).
Proof.
  intros s u I L c. rewrite disable_var_cn by apply (i_nd_el s I).
  destruct (lookup c (v_elems (s_var s u))) as [w|] eqn:El; [|apply L].
  cbn [cn_disable c_limit c_cur]. intro Hl. specialize (L c Hl). destruct (share_01 w); lia.
Qed.
(* after disable_var, the staged variables that lost their witness use a constraint of the disabled variable *)
Lemma disable_var_just : forall s u, inv_struct s -> just [] None s ->
  just (map fst (v_elems (s_var s u)) ++ []) None (disable_var s u).
Proof.
  intros s u I J v Hx Ha Hs.
  assert (Hvu : v <> u).
  { intro; subst v. unfold stagedv in Hs. rewrite disable_var_var, Nat.eqb_refl in Hs. cbn in Hs. discriminate. }
  assert (Hs0 : stagedv s v = true).
  { unfold stagedv in *. rewrite disable_var_var in Hs. apply Nat.eqb_neq in Hvu. rewrite Hvu in Hs. exact Hs. }
  assert (Ha0 : alive s v) by (unfold alive in *; rewrite disable_var_alive in Ha; exact Ha).
  destruct (J v Hx Ha0 Hs0) as [[c [A B]]|[c [[] _]]].
  destruct (lookup c (v_elems (s_var s u))) as [w|] eqn:El.
  - right. exists c. rewrite app_nil_r. split; [eapply lookup_some_in; eassumption|]. split; [apply disable_var_on; exact A|].
    rewrite disable_var_cn by apply (i_nd_el s I). rewrite El. cbn. apply B.
  - left. exists c. split; [apply disable_var_on; exact A|]. unfold fullc. rewrite disable_var_cn by apply (i_nd_el s I). rewrite El. exact B.
Qed.

Lemma update_penalty_core_inv : forall s v p, inv s -> alive s v -> 0 <= Qnum p ->
  (qpos p = true -> qpos (v_want (s_var s v)) = true) ->
  let s' := update_penalty_core true true s v p in
  inv s' /\ s_nv s' = s_nv s /\ s_nc s' = s_nc s /\
  (forall u, v_alive (s_var s' u) = v_alive (s_var s u)) /\ (forall u, v_elems (s_var s' u) = v_elems (s_var s u)) /\
  (qpos p = false -> enabled s' v = false /\ stagedv s' v = false).
Proof.
  intros s v p [I [L J]] Ha Hp Hw. unfold update_penalty_core. cbn zeta.
  destruct (Qeq_bool p (v_pen (s_var s v))) eqn:Eq.
  { (* same penalty *)
    assert (Hpp := qpos_Qeq _ _ Eq). cbn [andb]. destruct (qpos p) eqn:Ep; cbn [negb].
    - split; [split; [exact I|split; assumption]|]. repeat split; intros; try reflexivity; discriminate.
    - unfold set_staged. set (y := mkVar _ _ _ _ _).
      split; [split; [|split]|].
      + apply set_var_struct; try reflexivity; try assumption; cbn; try lia; try (apply (i_sign s I)); try discriminate; auto.
      + exact L.
      + apply just_set_var; try reflexivity; try assumption. cbn. discriminate.
      + repeat split; try reflexivity.
        * intro u. cbn. unfold upd. destruct (Nat.eqb u v) eqn:E; [apply Nat.eqb_eq in E; subst|]; reflexivity.
        * intro u. cbn. unfold upd. destruct (Nat.eqb u v) eqn:E; [apply Nat.eqb_eq in E; subst|]; reflexivity.
        * unfold enabled. cbn. rewrite upd_same. cbn. congruence.
        * unfold stagedv. cbn. rewrite upd_same. reflexivity. }
  destruct (qpos p) eqn:Ep; cbn [andb negb].
  { destruct (qpos (v_pen (s_var s v))) eqn:Een; cbn [negb andb].
    - (* both positive: change the penalty *)
      set (y := mkVar _ _ _ _ _).
      split; [split; [|split]|].
      + apply set_var_struct; try reflexivity; try assumption; cbn; try (apply (i_sign s I)).
        * unfold enabled. congruence.
        * intro Hq. apply (i_st_pen s I) in Hq. unfold enabled in Hq. congruence.
        * intro Hq. unfold alive in Ha. congruence.
        * intro Hq. rewrite (Hw eq_refl) in Hq. discriminate.
      + exact L.
      + apply just_set_var; try reflexivity; try assumption. cbn. intro Hq. now left.
      + repeat split; try reflexivity; try discriminate.
        * intro u. cbn. unfold upd. destruct (Nat.eqb u v) eqn:E; [apply Nat.eqb_eq in E; subst|]; reflexivity.
        * intro u. cbn. unfold upd. destruct (Nat.eqb u v) eqn:E; [apply Nat.eqb_eq in E; subst|]; reflexivity.
    - (* enabling *)
      unfold set_staged. set (y := mkVar _ _ _ _ _). set (s1 := set_var s v y).
      assert (I1 : inv_struct s1).
      { apply set_var_struct; try reflexivity; try assumption; cbn; try (apply (i_sign s I)); auto.
        - intro Hq. unfold alive in Ha. congruence.
        - intro Hq. rewrite (Hw eq_refl) in Hq. discriminate. }
      assert (L1 : lim_ok s1) by exact L.
      assert (Hs1 : stagedv s1 v = true) by (unfold stagedv, s1; cbn; rewrite upd_same; exact Ep).
      assert (Ha1 : alive s1 v) by (unfold alive, s1; cbn; rewrite upd_same; exact Ha).
      assert (Hal : forall u, v_alive (s_var s1 u) = v_alive (s_var s u)).
      { intro u. cbn. unfold upd. destruct (Nat.eqb u v) eqn:E; [apply Nat.eqb_eq in E; subst|]; reflexivity. }
      assert (Hel : forall u, v_elems (s_var s1 u) = v_elems (s_var s u)).
      { intro u. cbn. unfold upd. destruct (Nat.eqb u v) eqn:E; [apply Nat.eqb_eq in E; subst|]; reflexivity. }
      destruct (min_slack s1 v =? 0) eqn:Em.
      + split; [split; [exact I1|split; [exact L1|]]|].
        * intros u Hx Hau Hsu. destruct (Nat.eq_dec u v) as [->|Hne].
          { left. apply not_can_enable_full; try assumption. unfold can_enable. fold (stagedv s1 v). rewrite Hs1. cbn. lia. }
          { assert (Hsu0 : stagedv s u = true).
            { revert Hsu. unfold stagedv, s1. cbn. rewrite upd_other by assumption. tauto. }
            assert (Hau0 : alive s u) by (unfold alive in *; rewrite Hal in Hau; exact Hau).
            destruct (J u Hx Hau0 Hsu0) as [[c [A B]]|[c [[] _]]]. left. exists c. split; [|exact B].
            unfold on. rewrite Hel. exact A. }
        * repeat split; try reflexivity; try assumption; discriminate.
      + assert (Hm : 0 < min_slack s1 v) by (pose proof (min_slack_nonneg s1 v L1); lia).
        assert (Fr := enable_var_frame s1 v I1 Hs1 Hm).
        split; [split; [apply enable_var_struct; assumption|split; [apply enable_var_lim; assumption|]]|].
        * intros u Hx Hau Hsu. assert (Hne : u <> v).
          { intro; subst u. unfold stagedv in Hsu. rewrite enable_var_var, Nat.eqb_refl in Hsu. cbn in Hsu. discriminate. }
          assert (Hsu0 : stagedv s u = true).
          { revert Hsu. unfold stagedv. rewrite enable_var_var. apply Nat.eqb_neq in Hne. rewrite Hne. unfold s1. cbn.
            apply Nat.eqb_neq in Hne. rewrite upd_other by assumption. tauto. }
          assert (Hau0 : alive s u) by (unfold alive in *; rewrite enable_var_alive, Hal in Hau; exact Hau).
          destruct (J u Hx Hau0 Hsu0) as [[c [A B]]|[c [[] _]]]. left. exists c. split.
          { apply (frame_on _ _ _ _ Fr). unfold on. rewrite Hel. exact A. }
          { apply (f_full _ _ Fr). exact B. }
        * repeat split; try reflexivity; try discriminate.
          { intro u. rewrite enable_var_alive. apply Hal. }
          { intro u. rewrite enable_var_elems. apply Hel. } }
  destruct (qpos (v_pen (s_var s v))) eqn:Een; cbn [negb andb].
  - (* disabling *)
    set (s1 := disable_var s v).
    assert (I1 : inv_struct s1) by (apply disable_var_struct; assumption).
    assert (L1 : lim_ok s1) by (apply disable_var_lim; assumption).
    assert (J1 := disable_var_just s v I J). fold s1 in J1.
    assert (Hel1 : v_elems (s_var s1 v) = v_elems (s_var s v)) by apply disable_var_elems.
    rewrite Hel1.
    destruct (odv_all_ok (v_elems (s_var s v)) s1 [] None I1 L1 J1) as [I2 [L2 [J2 F2]]].
    split; [split; [exact I2|split; assumption]|].
    assert (Hv1 : stagedv s1 v = false) by (unfold stagedv, s1; rewrite disable_var_var, Nat.eqb_refl; reflexivity).
    split; [apply (f_nv _ _ F2)|]. split; [apply (f_nv _ _ F2)|].
    split; [intro u; rewrite (f_alive _ _ F2); apply disable_var_alive|].
    split; [intro u; rewrite (f_elems _ _ F2); apply disable_var_elems|].
    intros _. unfold enabled, stagedv. rewrite (f_unstaged _ _ F2 v Hv1). unfold s1. rewrite disable_var_var, Nat.eqb_refl. cbn. split; reflexivity.
  - (* both non positive and different: impossible *)
    exfalso. assert (H := qpos_false_zero p (v_pen (s_var s v)) Hp (proj1 (i_sign s I v)) Ep Een). congruence.
Qed.

(** ** expand *)
Lemma qnz_qpos : forall q, 0 <= Qnum q -> qnz q = qpos q.
Proof. unfold qnz, qpos. intros. destruct (Qnum q =? 0) eqn:E, (0 <? Qnum q) eqn:F; cbn; try reflexivity; lia. Qed.

Lemma add_new_struct : forall s c v w, inv_struct s -> alive s v -> lookup c (v_elems (s_var s v)) = None ->
  inv_struct (add_elem s c v w).
Proof.
  intros s c v w I Ha El. unfold add_elem. rewrite El. cbn zeta.
  rewrite (qnz_qpos _ (proj1 (i_sign s I v))). fold (enabled s v).
  set (k' := if enabled s v then _ else _). set (x' := mkVar _ _ _ _ _).
  set (s2 := mkSys _ _ _ _).
  assert (Hno : ~ on s v c) by (apply lookup_none; exact El).
  assert (Hv : forall u, s_var s2 u = if Nat.eqb u v then x' else s_var s u) by reflexivity.
  assert (Hc : forall c', s_cn s2 c' = if Nat.eqb c' c then k' else s_cn s c') by reflexivity.
  assert (Hal : forall u, alive s2 u <-> alive s u).
  { intro u. unfold alive. rewrite Hv. destruct (Nat.eqb u v) eqn:E; [apply Nat.eqb_eq in E; subst u|]; cbn; tauto. }
  assert (Hen : forall u, enabled s2 u = enabled s u).
  { intro u. unfold enabled. rewrite Hv. destruct (Nat.eqb u v) eqn:E; [apply Nat.eqb_eq in E; subst u|]; reflexivity. }
  assert (Hst : forall u, stagedv s2 u = stagedv s u).
  { intro u. unfold stagedv. rewrite Hv. destruct (Nat.eqb u v) eqn:E; [apply Nat.eqb_eq in E; subst u|]; reflexivity. }
  assert (Hon : forall u c', on s2 u c' <-> on s u c' \/ (u = v /\ c' = c)).
  { intros u c'. unfold on. rewrite Hv. destruct (Nat.eqb u v) eqn:E.
    - apply Nat.eqb_eq in E. subst u. cbn [x' v_elems]. rewrite map_app, in_app_iff. cbn. intuition.
    - apply Nat.eqb_neq in E. intuition. }
  assert (Hwt : forall u c', ~ (u = v /\ c' = c) -> weight s2 u c' = weight s u c').
  { intros u c' Hn. unfold weight. rewrite Hv. destruct (Nat.eqb u v) eqn:E; [|reflexivity].
    apply Nat.eqb_eq in E. subst u. cbn [x' v_elems]. rewrite lookup_app_new.
    destruct (lookup c' (v_elems (s_var s v))); [reflexivity|]. destruct (Nat.eqb c c') eqn:E2; [|reflexivity].
    apply Nat.eqb_eq in E2. subst c'. tauto. }
  assert (Hwv : weight s2 v c = w).
  { unfold weight. rewrite Hv, Nat.eqb_refl. cbn [x' v_elems]. rewrite lookup_app_new, El, Nat.eqb_refl. reflexivity. }
  assert (Hvin_en : ~ In v (c_en (s_cn s c))) by (rewrite (i_en s I); tauto).
  assert (Hvin_dis : ~ In v (c_dis (s_cn s c))) by (rewrite (i_dis s I); tauto).
  constructor.
  - intros c' u. rewrite Hc, Hal, Hen, Hon. destruct (Nat.eqb c' c) eqn:E.
    + apply Nat.eqb_eq in E. subst c'. unfold k'. destruct (enabled s v) eqn:Ev; cbn [c_en].
      * cbn [In]. rewrite (i_en s I). split; [intros [H|H]; [subst u; tauto|tauto]|].
        intros [H1 [H2 [H3|[H3 _]]]]; [right; tauto|left; congruence].
      * rewrite (i_en s I). split; [tauto|]. intros [H1 [H2 [H3|[H3 _]]]]; [tauto|subst u; congruence].
    + apply Nat.eqb_neq in E. rewrite (i_en s I). tauto.
  - intros c' u. rewrite Hc, Hal, Hen, Hon. destruct (Nat.eqb c' c) eqn:E.
    + apply Nat.eqb_eq in E. subst c'. unfold k'. destruct (enabled s v) eqn:Ev; cbn [c_dis].
      * rewrite (i_dis s I). split; [tauto|]. intros [H1 [H2 [H3|[H3 _]]]]; [tauto|subst u; congruence].
      * rewrite in_app_iff. cbn [In]. rewrite (i_dis s I). split; [intros [H|[H|[]]]; [tauto|subst u; tauto]|].
        intros [H1 [H2 [H3|[H3 _]]]]; [left; tauto|right; left; congruence].
    + apply Nat.eqb_neq in E. rewrite (i_dis s I). tauto.
  - intro c'. rewrite Hc. destruct (Nat.eqb c' c) eqn:E; [|apply (i_nd_en s I)]. apply Nat.eqb_eq in E. subst c'.
    unfold k'. destruct (enabled s v); cbn [c_en]; [constructor; [exact Hvin_en|]|]; apply (i_nd_en s I).
  - intro c'. rewrite Hc. destruct (Nat.eqb c' c) eqn:E; [|apply (i_nd_dis s I)]. apply Nat.eqb_eq in E. subst c'.
    unfold k'. destruct (enabled s v); cbn [c_dis]; [apply (i_nd_dis s I)|]. apply nodup_snoc; [apply (i_nd_dis s I)|exact Hvin_dis].
  - intro u. rewrite Hv. destruct (Nat.eqb u v) eqn:E; [|apply (i_nd_el s I)]. cbn [x' v_elems]. rewrite map_app. cbn.
    apply (nodup_snoc c); [apply (i_nd_el s I)|exact Hno].
  - intro c'. rewrite Hc, count_en_w. destruct (Nat.eqb c' c) eqn:E.
    + apply Nat.eqb_eq in E. subst c'. unfold k'. destruct (enabled s v) eqn:Ev; cbn [c_en c_cur].
      * rewrite count_cons. cbv beta. rewrite Hwv. rewrite (i_cur s I c), count_en_w.
        rewrite (count_ext (fun v0 => weight s2 v0 c) (fun v0 => weight s v0 c)); [lia|].
        intros u Hu. apply Hwt. intros [H _]. subst u. contradiction.
      * rewrite (i_cur s I c), count_en_w. apply count_ext. intros u Hu. symmetry. apply Hwt. intros [H _]. subst u. contradiction.
    + apply Nat.eqb_neq in E. rewrite (i_cur s I c'), count_en_w. apply count_ext. intros u Hu. symmetry. apply Hwt. tauto.
  - intro u. rewrite Hv. destruct (Nat.eqb u v) eqn:E; [apply Nat.eqb_eq in E; subst u; cbn|]; apply (i_sign s I).
  - intro u. rewrite Hst, Hen. apply (i_st_pen s I).
  - intros u Hu. rewrite Hal in Hu. rewrite Hst, Hv. destruct (Nat.eqb u v) eqn:E; [apply Nat.eqb_eq in E; subst u; contradiction|].
    apply (i_dead s I). exact Hu.
  - intros u. rewrite Hst, Hen, Hv. destruct (Nat.eqb u v) eqn:E; [apply Nat.eqb_eq in E; subst u; cbn|]; apply (i_want s I).
Qed.

Lemma add_reuse_struct : forall s c v w w0, inv_struct s -> alive s v -> lookup c (v_elems (s_var s v)) = Some w0 ->
  inv_struct (add_elem s c v w).
Proof.
  intros s c v w w0 I Ha El. unfold add_elem. rewrite El. cbn zeta.
  rewrite (qnz_qpos _ (proj1 (i_sign s I v))). fold (enabled s v).
  set (w' := if c_shared (s_cn s c) then _ else _). set (k' := mkCnst _ _ _ _ _). set (x' := mkVar _ _ _ _ _).
  set (s2 := mkSys _ _ _ _).
  assert (Hon0 : on s v c) by (eapply lookup_some_in; eassumption).
  assert (Hv : forall u, s_var s2 u = if Nat.eqb u v then x' else s_var s u) by reflexivity.
  assert (Hc : forall c', s_cn s2 c' = if Nat.eqb c' c then k' else s_cn s c') by reflexivity.
  assert (Hal : forall u, alive s2 u <-> alive s u).
  { intro u. unfold alive. rewrite Hv. destruct (Nat.eqb u v) eqn:E; [apply Nat.eqb_eq in E; subst u|]; cbn; tauto. }
  assert (Hen : forall u, enabled s2 u = enabled s u).
  { intro u. unfold enabled. rewrite Hv. destruct (Nat.eqb u v) eqn:E; [apply Nat.eqb_eq in E; subst u|]; reflexivity. }
  assert (Hst : forall u, stagedv s2 u = stagedv s u).
  { intro u. unfold stagedv. rewrite Hv. destruct (Nat.eqb u v) eqn:E; [apply Nat.eqb_eq in E; subst u|]; reflexivity. }
  assert (Hmf : forall u, map fst (v_elems (s_var s2 u)) = map fst (v_elems (s_var s u))).
  { intro u. rewrite Hv. destruct (Nat.eqb u v) eqn:E; [|reflexivity]. apply Nat.eqb_eq in E; subst u. cbn [x' v_elems]. apply map_fst_set_w. }
  assert (Hon : forall u c', on s2 u c' <-> on s u c') by (intros; unfold on; rewrite Hmf; tauto).
  assert (Hwt : forall u c', ~ (u = v /\ c' = c) -> weight s2 u c' = weight s u c').
  { intros u c' Hn. unfold weight. rewrite Hv. destruct (Nat.eqb u v) eqn:E; [|reflexivity].
    apply Nat.eqb_eq in E. subst u. cbn [x' v_elems]. rewrite lookup_set_w by exact Hon0.
    destruct (Nat.eqb c c') eqn:E2; [|reflexivity]. apply Nat.eqb_eq in E2. subst c'. tauto. }
  assert (Hwv : weight s2 v c = w').
  { unfold weight. rewrite Hv, Nat.eqb_refl. cbn [x' v_elems]. rewrite lookup_set_w by exact Hon0. rewrite Nat.eqb_refl. reflexivity. }
  assert (Hw0 : weight s v c = w0) by (unfold weight; now rewrite El).
  assert (Hlists : forall c', c_en (s_cn s2 c') = c_en (s_cn s c') /\ c_dis (s_cn s2 c') = c_dis (s_cn s c')).
  { intro c'. rewrite Hc. destruct (Nat.eqb c' c) eqn:E; [apply Nat.eqb_eq in E; subst c'|]; split; reflexivity. }
  constructor.
  - intros c' u. rewrite (proj1 (Hlists c')), Hal, Hen, Hon. apply (i_en s I).
  - intros c' u. rewrite (proj2 (Hlists c')), Hal, Hen, Hon. apply (i_dis s I).
  - intro c'. rewrite (proj1 (Hlists c')). apply (i_nd_en s I).
  - intro c'. rewrite (proj2 (Hlists c')). apply (i_nd_dis s I).
  - intro u. rewrite Hmf. apply (i_nd_el s I).
  - intro c'. rewrite (proj1 (Hlists c')), count_en_w. rewrite Hc. destruct (Nat.eqb c' c) eqn:E.
    + apply Nat.eqb_eq in E. subst c'. cbn [k' c_cur]. destruct (enabled s v) eqn:Ev.
      * assert (Hin : In v (c_en (s_cn s c))) by (apply (i_en s I); tauto).
        rewrite (count_upd_one (fun v0 => weight s v0 c) (fun v0 => weight s2 v0 c) v); [|apply (i_nd_en s I)|exact Hin|].
        -- cbv beta. rewrite Hwv, Hw0, (i_cur s I c), count_en_w. lia.
        -- intros u Hu. apply Hwt. tauto.
      * rewrite (i_cur s I c), count_en_w. apply count_ext. intros u Hu. symmetry. apply Hwt. intros [H _]. subst u.
        apply (i_en s I) in Hu. destruct Hu as [_ [Hu _]]. congruence.
    + apply Nat.eqb_neq in E. rewrite (i_cur s I c'), count_en_w. apply count_ext. intros u Hu. symmetry. apply Hwt. tauto.
  - intro u. rewrite Hv. destruct (Nat.eqb u v) eqn:E; [apply Nat.eqb_eq in E; subst u; cbn|]; apply (i_sign s I).
  - intro u. rewrite Hst, Hen. apply (i_st_pen s I).
  - intros u Hu. rewrite Hal in Hu. rewrite Hst, Hv. destruct (Nat.eqb u v) eqn:E; [apply Nat.eqb_eq in E; subst u; contradiction|].
    apply (i_dead s I). exact Hu.
  - intros u. rewrite Hst, Hen, Hv. destruct (Nat.eqb u v) eqn:E; [apply Nat.eqb_eq in E; subst u; cbn|]; apply (i_want s I).
Qed.

Lemma share_plus_mono : forall w0 w, 0 <= Qnum w -> share w0 <= share (Qplus w0 w).
Proof.
  intros [n0 d0] [n d] H. unfold share. cbn in *.
  destruct (Z.pos d0 <=? n0) eqn:E1; destruct (Z.pos (d0 * d) <=? n0 * Z.pos d + n * Z.pos d0) eqn:E2; try lia.
  exfalso. rewrite Pos2Z.inj_mul in E2. nia.
Qed.
Lemma share_qmax_mono : forall w0 w, share w0 <= share (qmax w0 w).
Proof.
  intros w0 w. unfold qmax. destruct (Qle_bool w w0) eqn:E; [lia|].
  assert (H : ~ (w <= w0)%Q) by (intro H; apply Qle_bool_iff in H; congruence).
  apply Qnot_le_lt in H. unfold Qlt in H. destruct w0 as [n0 d0], w as [n d]. unfold share. cbn in *.
  destruct (Z.pos d0 <=? n0) eqn:E1; destruct (Z.pos d <=? n) eqn:E2; try lia. exfalso. nia.
Qed.
Lemma share_0 : share 0 = 0. Proof. reflexivity. Qed.

Lemma add_elem_facts : forall s c v w, inv_struct s -> alive s v -> 0 <= Qnum w ->
  let s2 := add_elem s c v w in
  inv_struct s2 /\
  (forall u, v_alive (s_var s2 u) = v_alive (s_var s u)) /\
  (forall u, stagedv s2 u = stagedv s u) /\
  (forall u, enabled s2 u = enabled s u) /\
  (forall u c', on s2 u c' <-> on s u c' \/ (u = v /\ c' = c)) /\
  (forall c', c' <> c -> s_cn s2 c' = s_cn s c') /\
  c_limit (s_cn s2 c) = c_limit (s_cn s c) /\
  c_cur (s_cn s2 c) = (if enabled s v then c_cur (s_cn s c) - share (weight s v c) + share (weight s2 v c) else c_cur (s_cn s c)) /\
  share (weight s v c) <= share (weight s2 v c) /\
  s_nv s2 = s_nv s /\ s_nc s2 = s_nc s /\ v_pen (s_var s2 v) = v_pen (s_var s v) /\ v_want (s_var s2 v) = v_want (s_var s v).
Proof.
  intros s c v w I Ha Hw s2.
  assert (Hq := qnz_qpos _ (proj1 (i_sign s I v))). fold (enabled s v) in Hq.
  destruct (lookup c (v_elems (s_var s v))) as [w0|] eqn:El.
  - split; [eapply add_reuse_struct; eassumption|].
    assert (Hon0 : on s v c) by (eapply lookup_some_in; eassumption).
    subst s2. unfold add_elem. rewrite El, Hq. cbn zeta.
    set (w' := if c_shared (s_cn s c) then _ else _).
    assert (Hw0 : weight s v c = w0) by (unfold weight; now rewrite El).
    assert (Hmono : share w0 <= share w').
    { unfold w'. destruct (c_shared (s_cn s c)); [apply share_plus_mono; exact Hw|apply share_qmax_mono]. }
    assert (Hw2 : forall X Y, weight (mkSys X Y (upd (s_var s) v (mkVar (v_alive (s_var s v)) (v_pen (s_var s v)) (v_staged (s_var s v)) (v_want (s_var s v)) (set_w c w' (v_elems (s_var s v)))))
                     (upd (s_cn s) c (mkCnst (c_limit (s_cn s c)) (c_shared (s_cn s c)) (if enabled s v then c_cur (s_cn s c) - share w0 + share w' else c_cur (s_cn s c)) (c_en (s_cn s c)) (c_dis (s_cn s c))))) v c = w').
    { intros. unfold weight. cbn [s_var]. rewrite upd_same. cbn [v_elems]. rewrite lookup_set_w by exact Hon0. now rewrite Nat.eqb_refl. }
    rewrite Hw2, Hw0.
    repeat split; cbn [s_var s_cn s_nv s_nc]; try reflexivity; try assumption.
    + intro u. unfold upd. destruct (Nat.eqb u v) eqn:E; [apply Nat.eqb_eq in E; subst u|]; reflexivity.
    + intro u. unfold stagedv. cbn [s_var]. unfold upd. destruct (Nat.eqb u v) eqn:E; [apply Nat.eqb_eq in E; subst u|]; reflexivity.
    + intro u. unfold enabled. cbn [s_var]. unfold upd. destruct (Nat.eqb u v) eqn:E; [apply Nat.eqb_eq in E; subst u|]; reflexivity.
    + unfold on. cbn [s_var]. unfold upd. destruct (Nat.eqb u v) eqn:E; [|tauto]. apply Nat.eqb_eq in E; subst u. cbn [v_elems]. rewrite map_fst_set_w. tauto.
    + unfold on. cbn [s_var]. unfold upd. destruct (Nat.eqb u v) eqn:E.
      * apply Nat.eqb_eq in E; subst u. cbn [v_elems]. rewrite map_fst_set_w. intros [H|[_ H]]; [exact H|subst c'; exact Hon0].
      * intros [H|[H _]]; [exact H|apply Nat.eqb_neq in E; contradiction].
    + intros c' Hc. apply upd_other. exact Hc.
    + rewrite upd_same. reflexivity.
    + rewrite upd_same. reflexivity.
    + rewrite upd_same. reflexivity.
    + rewrite upd_same. reflexivity.
  - split; [eapply add_new_struct; eassumption|].
    assert (Hno : ~ on s v c) by (apply lookup_none; exact El).
    subst s2. unfold add_elem. rewrite El, Hq. cbn zeta.
    set (k' := if enabled s v then _ else _).
    assert (Hw0 : weight s v c = 0%Q) by (apply weight_on; exact Hno).
    assert (Hw2 : forall X Y, weight (mkSys X Y (upd (s_var s) v (mkVar (v_alive (s_var s v)) (v_pen (s_var s v)) (v_staged (s_var s v)) (v_want (s_var s v)) (v_elems (s_var s v) ++ [(c, w)])))
                     (upd (s_cn s) c k')) v c = w).
    { intros. unfold weight. cbn [s_var]. rewrite upd_same. cbn [v_elems]. rewrite lookup_app_new, El, Nat.eqb_refl. reflexivity. }
    rewrite Hw2, Hw0, share_0.
    repeat split; cbn [s_var s_cn s_nv s_nc]; try reflexivity; try assumption.
    + intro u. unfold upd. destruct (Nat.eqb u v) eqn:E; [apply Nat.eqb_eq in E; subst u|]; reflexivity.
    + intro u. unfold stagedv. cbn [s_var]. unfold upd. destruct (Nat.eqb u v) eqn:E; [apply Nat.eqb_eq in E; subst u|]; reflexivity.
    + intro u. unfold enabled. cbn [s_var]. unfold upd. destruct (Nat.eqb u v) eqn:E; [apply Nat.eqb_eq in E; subst u|]; reflexivity.
    + unfold on. cbn [s_var]. unfold upd. destruct (Nat.eqb u v) eqn:E; [|tauto]. apply Nat.eqb_eq in E; subst u. cbn [v_elems].
      rewrite map_app, in_app_iff. cbn. intuition.
    + unfold on. cbn [s_var]. unfold upd. destruct (Nat.eqb u v) eqn:E.
      * apply Nat.eqb_eq in E; subst u. cbn [v_elems]. rewrite map_app, in_app_iff. cbn. intuition.
      * intros [H|[H _]]; [exact H|apply Nat.eqb_neq in E; contradiction].
    + intros c' Hc. apply upd_other. exact Hc.
    + rewrite upd_same. unfold k'. destruct (enabled s v); reflexivity.
    + rewrite upd_same. unfold k'. destruct (enabled s v); cbn; lia.
    + destruct (share_01 w); lia.
    + rewrite upd_same. reflexivity.
    + rewrite upd_same. reflexivity.
Qed.

Lemma disable_var_just_gen : forall s u P, inv_struct s -> just P None s -> (forall c, on s u c -> In c P) ->
  just P None (disable_var s u).
Proof.
  intros s u P I J HP v Hx Ha Hs.
  assert (Hvu : v <> u).
  { intro; subst v. unfold stagedv in Hs. rewrite disable_var_var, Nat.eqb_refl in Hs. cbn in Hs. discriminate. }
  assert (Hs0 : stagedv s v = true).
  { unfold stagedv in *. rewrite disable_var_var in Hs. apply Nat.eqb_neq in Hvu. rewrite Hvu in Hs. exact Hs. }
  assert (Ha0 : alive s v) by (unfold alive in *; rewrite disable_var_alive in Ha; exact Ha).
  assert (Hlim : forall c, c_limit (s_cn (disable_var s u) c) = c_limit (s_cn s c)).
  { intro c. rewrite disable_var_cn by apply (i_nd_el s I). destruct (lookup c _); reflexivity. }
  destruct (J v Hx Ha0 Hs0) as [[c [A B]]|[c [A [B C]]]].
  - destruct (lookup c (v_elems (s_var s u))) as [w|] eqn:El.
    + right. exists c. split; [apply HP; eapply lookup_some_in; eassumption|]. split; [apply disable_var_on; exact A|].
      rewrite Hlim. apply B.
    + left. exists c. split; [apply disable_var_on; exact A|]. unfold fullc. rewrite disable_var_cn by apply (i_nd_el s I). rewrite El. exact B.
  - right. exists c. split; [exact A|]. split; [apply disable_var_on; exact B|rewrite Hlim; exact C].
Qed.

Lemma expand_inv : forall s c v w, inv s -> alive s v -> 0 <= Qnum w ->
  let s' := expand s c v w in
  inv s' /\ s_nv s' = s_nv s /\ s_nc s' = s_nc s /\
  (forall u, v_alive (s_var s' u) = v_alive (s_var s u)) /\
  (forall u c', on s' u c' <-> on s u c' \/ (u = v /\ c' = c)).
Proof.
  intros s c v w [I [L J]] Ha Hw.
  destruct (add_elem_facts s c v w I Ha Hw) as [I2 [Hal2 [Hst2 [Hen2 [Hon2 [Hcn2 [Hlim2 [Hcur2 [Hmono [Hnv [Hnc [Hpen Hwant]]]]]]]]]]]].
  unfold expand. cbn zeta. set (s2 := add_elem s c v w) in *.
  rewrite (qnz_qpos _ (proj1 (i_sign s I v))). fold (enabled s v).
  assert (Hlimall : forall c', c_limit (s_cn s2 c') = c_limit (s_cn s c')).
  { intro c'. destruct (Nat.eq_dec c' c) as [->|Hne]; [exact Hlim2|rewrite Hcn2 by exact Hne; reflexivity]. }
  destruct (enabled s v && (slack (s_cn s2 c) <? 0)) eqn:Eb.
  - (* the constraint overflows: the variable is disabled and staged *)
    apply andb_prop in Eb. destruct Eb as [Ev Esl]. rewrite Ev in Hcur2.
    assert (Hsl : 0 <= c_limit (s_cn s c) /\ c_limit (s_cn s c) < c_cur (s_cn s2 c)).
    { unfold slack in Esl. rewrite Hlim2 in Esl. destruct (c_limit (s_cn s c) <? 0) eqn:E; [unfold INT_MAX in Esl; lia|lia]. }
    assert (Hcl := L c (proj1 Hsl)).
    assert (Hsh : share (weight s v c) = 0 /\ share (weight s2 v c) = 1 /\ c_cur (s_cn s c) = c_limit (s_cn s c)).
    { destruct (share_01 (weight s v c)), (share_01 (weight s2 v c)); lia. }
    assert (Ha2 : alive s2 v) by (unfold alive; rewrite Hal2; exact Ha).
    assert (Hev2 : enabled s2 v = true) by (rewrite Hen2; exact Ev).
    assert (Hon2v : on s2 v c) by (apply Hon2; right; tauto).
    set (s3 := disable_var s2 v).
    assert (I3 : inv_struct s3) by (apply disable_var_struct; assumption).
    assert (Hcn3 : forall c', s_cn s3 c' = match lookup c' (v_elems (s_var s2 v)) with Some w0 => cn_disable v w0 (s_cn s2 c') | None => s_cn s2 c' end).
    { intro c'. apply disable_var_cn. apply (i_nd_el s2 I2). }
    assert (Hfull3 : fullc s3 c).
    { unfold fullc. rewrite Hcn3. destruct (in_lookup c _ Hon2v) as [w0 Hw0]. rewrite Hw0. cbn [cn_disable c_limit c_cur].
      assert (weight s2 v c = w0) by (unfold weight; now rewrite Hw0). subst w0. rewrite Hlim2. lia. }
    assert (L3 : lim_ok s3).
    { intros c'. rewrite Hcn3. destruct (lookup c' (v_elems (s_var s2 v))) as [w0|] eqn:El.
      - cbn [cn_disable c_limit c_cur]. rewrite Hlimall. intro Hl0. destruct (Nat.eq_dec c' c) as [->|Hne].
        + assert (weight s2 v c = w0) by (unfold weight; now rewrite El). subst w0. lia.
        + rewrite Hcn2 by exact Hne. specialize (L c' Hl0). destruct (share_01 w0); lia.
      - assert (c' <> c) by (intro; subst c'; apply lookup_none in El; contradiction).
        rewrite Hcn2 by assumption. apply L. }
    assert (J2 : just (map fst (v_elems (s_var s2 v))) None s2).
    { intros u Hx Hau Hsu. rewrite Hst2 in Hsu. unfold alive in Hau. rewrite Hal2 in Hau.
      destruct (J u Hx Hau Hsu) as [[c' [A B]]|[c' [[] _]]].
      destruct (Nat.eq_dec c' c) as [->|Hne].
      - right. exists c. split; [exact Hon2v|]. split; [apply Hon2; now left|rewrite Hlim2; apply B].
      - left. exists c'. split; [apply Hon2; now left|]. unfold fullc. rewrite Hcn2 by exact Hne. exact B. }
    assert (J3 : just (map fst (v_elems (s_var s3 v)) ++ []) None s3).
    { rewrite app_nil_r. unfold s3 at 1. rewrite disable_var_elems. apply disable_var_just_gen; auto. }
    destruct (odv_all_ok (v_elems (s_var s3 v)) s3 [] None I3 L3 J3) as [I4 [L4 [J4 F4]]].
    set (s4 := odv_all s3 (v_elems (s_var s3 v))) in *.
    assert (Hv3 : s_var s3 v = mkVar (v_alive (s_var s2 v)) 0 0 (v_want (s_var s2 v)) (v_elems (s_var s2 v))).
    { unfold s3. rewrite disable_var_var, Nat.eqb_refl. reflexivity. }
    assert (Hv4 : s_var s4 v = s_var s3 v) by (apply (f_unstaged _ _ F4); unfold stagedv; rewrite Hv3; reflexivity).
    unfold set_staged. rewrite Hv4, Hv3. cbn [v_alive v_pen v_want v_elems].
    set (y := mkVar _ _ _ _ _).
    assert (Hya : v_alive y = v_alive (s_var s4 v)) by (rewrite Hv4, Hv3; reflexivity).
    assert (Hye : v_elems y = v_elems (s_var s4 v)) by (rewrite Hv4, Hv3; reflexivity).
    split; [split; [|split]|].
    + apply set_var_struct; try assumption.
      * unfold enabled. rewrite Hv4, Hv3. reflexivity.
      * cbn. lia.
      * cbn. apply (i_sign s I v).
      * reflexivity.
      * cbn. rewrite Hal2. unfold alive in Ha. congruence.
      * cbn. rewrite Hwant. intro Hq. apply (i_want s I) in Hq. destruct Hq. congruence.
    + exact L4.
    + apply just_set_var; try assumption. intros _. right. exists c. split.
      * apply (frame_on _ _ _ _ F4). apply disable_var_on. exact Hon2v.
      * apply (f_full _ _ F4). exact Hfull3.
    + cbn [set_var s_nv s_nc s_var]. split; [rewrite (proj1 (f_nv _ _ F4)); exact Hnv|]. split; [rewrite (proj2 (f_nv _ _ F4)); exact Hnc|].
      split.
      * intro u. unfold upd. destruct (Nat.eqb u v) eqn:E.
        -- apply Nat.eqb_eq in E. subst u. cbn. apply Hal2.
        -- rewrite (f_alive _ _ F4). unfold s3. rewrite disable_var_alive. apply Hal2.
      * intros u c'. rewrite <- Hon2. unfold on. cbn [set_var s_var]. destruct (Nat.eq_dec u v) as [->|Hne].
        -- rewrite upd_same. unfold y. cbn [v_elems]. tauto.
        -- rewrite upd_other by exact Hne. rewrite (f_elems _ _ F4). unfold s3. rewrite disable_var_elems. tauto.
  - (* no overflow *)
    split; [split; [exact I2|split]|].
    + intros c' Hl. destruct (Nat.eq_dec c' c) as [->|Hne]; [|rewrite Hcn2 in * by exact Hne; apply L; exact Hl].
      destruct (enabled s v) eqn:Ev; [|rewrite Hcur2, Hlim2; apply L; rewrite <- Hlim2; exact Hl].
      cbn [andb] in Eb. unfold slack in Eb. destruct (c_limit (s_cn s2 c) <? 0) eqn:E; lia.
    + assert (L2 : 0 <= c_limit (s_cn s2 c) -> c_cur (s_cn s2 c) <= c_limit (s_cn s2 c)).
      { intro Hl. destruct (enabled s v) eqn:Ev; [|rewrite Hcur2, Hlim2; apply L; rewrite <- Hlim2; exact Hl].
        cbn [andb] in Eb. unfold slack in Eb. destruct (c_limit (s_cn s2 c) <? 0) eqn:E; lia. }
      intros u Hx Hau Hsu. rewrite Hst2 in Hsu. unfold alive in Hau. rewrite Hal2 in Hau.
      destruct (J u Hx Hau Hsu) as [[c' [A B]]|[c' [[] _]]]. left. exists c'. split; [apply Hon2; now left|].
      destruct (Nat.eq_dec c' c) as [->|Hne]; [|unfold fullc; rewrite Hcn2 by exact Hne; exact B].
      destruct B as [B1 B2]. split; [rewrite Hlim2; exact B1|]. rewrite Hlim2 in *. specialize (L2 B1).
      destruct (enabled s v); lia.
    + repeat split; try assumption; apply Hon2.
Qed.

(** ** var_free *)
Lemma detach_facts : forall s v c w, inv_struct s -> alive s v -> lookup c (v_elems (s_var s v)) = Some w ->
  let s' := detach s v c w in
  inv_struct s' /\
  (forall u, s_var s' u = if Nat.eqb u v then mkVar (v_alive (s_var s v)) (v_pen (s_var s v)) (v_staged (s_var s v)) (v_want (s_var s v)) (del_key c (v_elems (s_var s v))) else s_var s u) /\
  (forall c', c' <> c -> s_cn s' c' = s_cn s c') /\
  c_limit (s_cn s' c) = c_limit (s_cn s c) /\ c_cur (s_cn s' c) <= c_cur (s_cn s c) /\
  s_nv s' = s_nv s /\ s_nc s' = s_nc s.
Proof.
  intros s v c w I Ha El s'.
  assert (Hv : forall u, s_var s' u = if Nat.eqb u v then mkVar (v_alive (s_var s v)) (v_pen (s_var s v)) (v_staged (s_var s v)) (v_want (s_var s v)) (del_key c (v_elems (s_var s v))) else s_var s u) by reflexivity.
  assert (Hc : forall c', s_cn s' c' = if Nat.eqb c' c then mkCnst (c_limit (s_cn s c)) (c_shared (s_cn s c)) (if enabled s v then c_cur (s_cn s c) - share w else c_cur (s_cn s c)) (erase v (c_en (s_cn s c))) (erase v (c_dis (s_cn s c))) else s_cn s c') by reflexivity.
  assert (Hon0 : on s v c) by (eapply lookup_some_in; eassumption).
  assert (Hal : forall u, alive s' u <-> alive s u).
  { intro u. unfold alive. rewrite Hv. destruct (Nat.eqb u v) eqn:E; [apply Nat.eqb_eq in E; subst u|]; cbn; tauto. }
  assert (Hen : forall u, enabled s' u = enabled s u).
  { intro u. unfold enabled. rewrite Hv. destruct (Nat.eqb u v) eqn:E; [apply Nat.eqb_eq in E; subst u|]; reflexivity. }
  assert (Hst : forall u, stagedv s' u = stagedv s u).
  { intro u. unfold stagedv. rewrite Hv. destruct (Nat.eqb u v) eqn:E; [apply Nat.eqb_eq in E; subst u|]; reflexivity. }
  assert (Hon : forall u c', on s' u c' <-> on s u c' /\ ~ (u = v /\ c' = c)).
  { intros u c'. unfold on. rewrite Hv. destruct (Nat.eqb u v) eqn:E.
    - apply Nat.eqb_eq in E. subst u. cbn [v_elems]. rewrite in_del_key. tauto.
    - apply Nat.eqb_neq in E. tauto. }
  assert (Hwt : forall u c', ~ (u = v /\ c' = c) -> weight s' u c' = weight s u c').
  { intros u c' Hn. unfold weight. rewrite Hv. destruct (Nat.eqb u v) eqn:E; [|reflexivity].
    apply Nat.eqb_eq in E. subst u. cbn [v_elems]. rewrite lookup_del_key.
    destruct (Nat.eqb c c') eqn:E2; [|reflexivity]. apply Nat.eqb_eq in E2. subst c'. tauto. }
  assert (Hw0 : weight s v c = w) by (unfold weight; now rewrite El).
  split; [|split; [exact Hv|split; [|split; [|split; [|split; reflexivity]]]]].
  - constructor.
    + intros c' u. rewrite Hc, Hal, Hen, Hon. destruct (Nat.eqb c' c) eqn:E.
      * apply Nat.eqb_eq in E. subst c'. cbn [c_en]. rewrite in_erase, (i_en s I). tauto.
      * apply Nat.eqb_neq in E. rewrite (i_en s I). tauto.
    + intros c' u. rewrite Hc, Hal, Hen, Hon. destruct (Nat.eqb c' c) eqn:E.
      * apply Nat.eqb_eq in E. subst c'. cbn [c_dis]. rewrite in_erase, (i_dis s I). tauto.
      * apply Nat.eqb_neq in E. rewrite (i_dis s I). tauto.
    + intro c'. rewrite Hc. destruct (Nat.eqb c' c); [cbn [c_en]; apply nodup_erase|]; apply (i_nd_en s I).
    + intro c'. rewrite Hc. destruct (Nat.eqb c' c); [cbn [c_dis]; apply nodup_erase|]; apply (i_nd_dis s I).
    + intro u. rewrite Hv. destruct (Nat.eqb u v); [cbn [v_elems]; apply nodup_del_key|]; apply (i_nd_el s I).
    + intro c'. rewrite Hc, count_en_w. destruct (Nat.eqb c' c) eqn:E.
      * apply Nat.eqb_eq in E. subst c'. cbn [c_en c_cur].
        rewrite (count_ext (fun v0 => weight s' v0 c) (fun v0 => weight s v0 c)).
        2:{ intros u Hu. apply Hwt. intros [H _]. subst u. apply in_erase in Hu. tauto. }
        destruct (enabled s v) eqn:Ev.
        -- rewrite count_erase; [|apply (i_nd_en s I)|apply (i_en s I); tauto]. cbv beta. rewrite Hw0, (i_cur s I c), count_en_w. lia.
        -- rewrite erase_notin; [apply (i_cur s I)|]. rewrite (i_en s I). intros [_ [H _]]. congruence.
      * apply Nat.eqb_neq in E. rewrite (i_cur s I c'), count_en_w. apply count_ext. intros u Hu. symmetry. apply Hwt. tauto.
    + intro u. rewrite Hv. destruct (Nat.eqb u v) eqn:E; [apply Nat.eqb_eq in E; subst u; cbn|]; apply (i_sign s I).
    + intro u. rewrite Hst, Hen. apply (i_st_pen s I).
    + intros u Hu. rewrite Hal in Hu. rewrite Hst, Hv. destruct (Nat.eqb u v) eqn:E; [apply Nat.eqb_eq in E; subst u; contradiction|].
      apply (i_dead s I). exact Hu.
    + intros u. rewrite Hst, Hen, Hv. destruct (Nat.eqb u v) eqn:E; [apply Nat.eqb_eq in E; subst u; cbn|]; apply (i_want s I).
  - intros c' Hne. rewrite Hc. apply Nat.eqb_neq in Hne. rewrite Hne. reflexivity.
  - rewrite Hc, Nat.eqb_refl. reflexivity.
  - rewrite Hc, Nat.eqb_refl. cbn [c_cur]. destruct (enabled s v); [destruct (share_01 w)|]; lia.
Qed.

Lemma del_key_notin : forall c es, ~ In c (map fst es) -> del_key c es = es.
Proof.
  induction es as [|[a x] r IH]; cbn; intro H; [reflexivity|]. destruct (Nat.eqb a c) eqn:E.
  - apply Nat.eqb_eq in E. subst. tauto.
  - rewrite IH by tauto. reflexivity.
Qed.

Lemma free_loop_ok : forall es s v,
  inv_struct s -> lim_ok s -> just (map fst es) (Some v) s -> alive s v -> v_elems (s_var s v) = es ->
  let s' := fold_left (fun s e => on_disabled_var (detach s v (fst e) (snd e)) (fst e)) es s in
  inv_struct s' /\ lim_ok s' /\ just [] (Some v) s' /\ v_elems (s_var s' v) = [] /\
  s_nv s' = s_nv s /\ s_nc s' = s_nc s /\ (forall u, v_alive (s_var s' u) = v_alive (s_var s u)) /\
  (forall u, u <> v -> v_elems (s_var s' u) = v_elems (s_var s u)).
Proof.
  induction es as [|[c w] r IH]; intros s v I L J Ha He.
  - cbn. refine (conj I (conj L (conj J (conj He _)))). repeat split; auto.
  - cbn [fold_left fst snd].
    assert (Hnd : NoDup (map fst ((c, w) :: r))) by (rewrite <- He; apply (i_nd_el s I)).
    cbn in Hnd. inv Hnd.
    assert (El : lookup c (v_elems (s_var s v)) = Some w) by (rewrite He; cbn; now rewrite Nat.eqb_refl).
    destruct (detach_facts s v c w I Ha El) as [I1 [Hv1 [Hcn1 [Hlim1 [Hcur1 [Hnv1 Hnc1]]]]]].
    set (s1 := detach s v c w) in *.
    assert (Hel1 : v_elems (s_var s1 v) = r).
    { rewrite Hv1, Nat.eqb_refl. cbn [v_elems]. rewrite He. cbn. rewrite Nat.eqb_refl. apply del_key_notin. assumption. }
    assert (Hother : forall u, u <> v -> s_var s1 u = s_var s u).
    { intros u Hu. rewrite Hv1. apply Nat.eqb_neq in Hu. rewrite Hu. reflexivity. }
    assert (Hal1 : forall u, v_alive (s_var s1 u) = v_alive (s_var s u)).
    { intro u. rewrite Hv1. destruct (Nat.eqb u v) eqn:E; [apply Nat.eqb_eq in E; subst u|]; reflexivity. }
    assert (L1 : lim_ok s1).
    { intro c'. destruct (Nat.eq_dec c' c) as [->|Hne]; [rewrite Hlim1; intro Hl; specialize (L c Hl); lia|].
      rewrite Hcn1 by exact Hne. apply L. }
    assert (J1 : just (c :: map fst r) (Some v) s1).
    { intros u Hx Hau Hsu. assert (Huv : u <> v) by congruence.
      unfold alive in Hau. unfold stagedv in Hsu. rewrite Hother in Hau, Hsu by exact Huv.
      destruct (J u Hx Hau Hsu) as [[c' [A B]]|[c' [A [B C]]]].
      - destruct (Nat.eq_dec c' c) as [->|Hne].
        + right. exists c. split; [now left|]. split; [unfold on; rewrite Hother by exact Huv; exact A|]. rewrite Hlim1. apply B.
        + left. exists c'. split; [unfold on; rewrite Hother by exact Huv; exact A|]. unfold fullc. rewrite Hcn1 by exact Hne. exact B.
      - right. exists c'. split; [exact A|]. split; [unfold on; rewrite Hother by exact Huv; exact B|].
        destruct (Nat.eq_dec c' c) as [->|Hne]; [rewrite Hlim1; exact C|rewrite Hcn1 by exact Hne; exact C]. }
    destruct (on_disabled_var_ok s1 c (map fst r) (Some v) I1 L1 J1) as [I2 [L2 [J2 F2]]].
    set (s2 := on_disabled_var s1 c) in *.
    assert (Ha2 : alive s2 v) by (unfold alive; rewrite (f_alive _ _ F2), Hal1; exact Ha).
    assert (He2 : v_elems (s_var s2 v) = r) by (rewrite (f_elems _ _ F2); exact Hel1).
    destruct (IH s2 v I2 L2 J2 Ha2 He2) as [I3 [L3 [J3 [E3 [N3 [M3 [A3 O3]]]]]]].
    refine (conj I3 (conj L3 (conj J3 (conj E3 _)))).
    split; [rewrite N3, (proj1 (f_nv _ _ F2)); exact Hnv1|]. split; [rewrite M3, (proj2 (f_nv _ _ F2)); exact Hnc1|].
    split.
    + intro u. rewrite A3, (f_alive _ _ F2). apply Hal1.
    + intros u Hu. rewrite O3 by exact Hu. rewrite (f_elems _ _ F2). rewrite Hother by exact Hu. reflexivity.
Qed.

(** ** replacing a variable without elements (variable_new on a fresh slot, release of a freed variable) *)
Lemma set_empty_var_struct : forall s v y, inv_struct s -> v_elems (s_var s v) = [] -> v_elems y = [] ->
  0 <= Qnum (v_pen y) -> 0 <= Qnum (v_staged y) ->
  (qpos (v_staged y) = true -> qpos (v_pen y) = false) ->
  (v_alive y = false -> qpos (v_staged y) = false) ->
  (qpos (v_want y) = false -> qpos (v_pen y) = false /\ qpos (v_staged y) = false) ->
  inv_struct (set_var s v y).
Proof.
  intros s v y I He Hye S1 S2 Hsp Hd Hw.
  assert (Hv : forall u, s_var (set_var s v y) u = if Nat.eqb u v then y else s_var s u) by reflexivity.
  assert (Hel : forall u, v_elems (s_var (set_var s v y) u) = v_elems (s_var s u)).
  { intro u. rewrite Hv. destruct (Nat.eqb u v) eqn:E; [|reflexivity]. apply Nat.eqb_eq in E. subst u. congruence. }
  assert (Hon : forall u c, on (set_var s v y) u c <-> on s u c) by (intros; unfold on; rewrite Hel; tauto).
  assert (Hnov : forall c, ~ on s v c) by (intro c; unfold on; rewrite He; cbn; tauto).
  assert (Hother : forall u, u <> v -> s_var (set_var s v y) u = s_var s u).
  { intros u Hu. rewrite Hv. apply Nat.eqb_neq in Hu. rewrite Hu. reflexivity. }
  constructor.
  - intros c u. rewrite Hon. cbn [set_var s_cn]. destruct (Nat.eq_dec u v) as [->|Hu].
    + rewrite (i_en s I). split; intros [_ [_ H]]; exfalso; eapply Hnov; eassumption.
    + unfold alive, enabled. rewrite Hother by exact Hu. apply (i_en s I).
  - intros c u. rewrite Hon. cbn [set_var s_cn]. destruct (Nat.eq_dec u v) as [->|Hu].
    + rewrite (i_dis s I). split; intros [_ [_ H]]; exfalso; eapply Hnov; eassumption.
    + unfold alive, enabled. rewrite Hother by exact Hu. apply (i_dis s I).
  - apply (i_nd_en s I).
  - apply (i_nd_dis s I).
  - intro u. rewrite Hel. apply (i_nd_el s I).
  - intro c. cbn [set_var s_cn]. rewrite (i_cur s I c). rewrite !count_en_w. apply count_ext. intros u _. unfold weight. rewrite Hel. reflexivity.
  - intro u. rewrite Hv. destruct (Nat.eqb u v); [split; assumption|apply (i_sign s I)].
  - intro u. unfold stagedv, enabled. rewrite Hv. destruct (Nat.eqb u v); [exact Hsp|apply (i_st_pen s I)].
  - intros u Hu. rewrite Hel. destruct (Nat.eq_dec u v) as [->|Hne].
    + split; [exact He|]. unfold stagedv. rewrite Hv, Nat.eqb_refl. apply Hd. unfold alive in Hu. rewrite Hv, Nat.eqb_refl in Hu.
      destruct (v_alive y); [exfalso; apply Hu; reflexivity|reflexivity].
    + unfold alive, stagedv in *. rewrite Hother in * by exact Hne. apply (i_dead s I). exact Hu.
  - intro u. unfold stagedv, enabled. rewrite Hv. destruct (Nat.eqb u v); [exact Hw|apply (i_want s I)].
Qed.

Lemma var_free_inv : forall s v, inv s -> alive s v ->
  let s' := var_free s v in
  inv s' /\ s_nv s' = s_nv s /\ s_nc s' = s_nc s /\
  (forall u, u <> v -> v_alive (s_var s' u) = v_alive (s_var s u) /\ v_elems (s_var s' u) = v_elems (s_var s u)) /\
  s_var s' v = dead_var.
Proof.
  intros s v [I [L J]] Ha. unfold var_free. cbn zeta.
  assert (J0 : just (map fst (v_elems (s_var s v))) (Some v) s).
  { intros u Hx Hau Hsu. destruct (J u) as [H|[c [[] _]]]; try assumption; [discriminate|now left]. }
  destruct (free_loop_ok (v_elems (s_var s v)) s v I L J0 Ha eq_refl) as [I1 [L1 [J1 [E1 [N1 [M1 [A1 O1]]]]]]].
  set (s1 := fold_left _ _ s) in *.
  split; [split; [|split]|].
  - apply set_empty_var_struct; try assumption; try reflexivity; cbn; try lia; try discriminate; auto.
  - exact L1.
  - intros u Hx Hau Hsu. destruct (Nat.eq_dec u v) as [->|Hne].
    + unfold alive in Hau. cbn in Hau. rewrite upd_same in Hau. discriminate.
    + unfold alive, stagedv in Hau, Hsu. cbn [set_var s_var] in Hau, Hsu. rewrite upd_other in Hau, Hsu by exact Hne.
      destruct (J1 u) as [[c [A B]]|[c [[] _]]]; try assumption; [congruence|].
      left. exists c. split; [|exact B]. unfold on. cbn [set_var s_var]. rewrite upd_other by exact Hne. exact A.
  - cbn [set_var s_nv s_nc s_var]. split; [exact N1|]. split; [exact M1|]. split.
    + intros u Hu. rewrite upd_other by exact Hu. split; [apply A1|apply O1; exact Hu].
    + apply upd_same.
Qed.

(** ** identifiers *)
Definition ids_ok (s : sys) : Prop :=
  (forall v, (s_nv s <= v)%nat -> ~ alive s v) /\ (forall v c, on s v c -> (c < s_nc s)%nat).
Definition inv_all (s : sys) : Prop := inv s /\ ids_ok s.

Lemma inv_all_0 : inv_all sys0.
Proof.
  split; [split; [|split]|split].
  - constructor; cbn; intros; try tauto; try constructor; try (split; lia); try (split; reflexivity); try discriminate.
  - intros c. cbn. lia.
  - intros u Hx Ha. discriminate.
  - intros v _ H. discriminate.
  - intros v c H. destruct H.
Qed.

Lemma inv_struct_counters : forall a b a' b' f g, inv_struct (mkSys a b f g) -> inv_struct (mkSys a' b' f g).
Proof. intros a b a' b' f g [H1 H2 H3 H4 H5 H6 H7 H8 H9 H10]. constructor; assumption. Qed.

Lemma step_inv : forall s o, inv_all s -> inv_all (step s o).
Proof.
  intros s o [[I [L J]] [Hfresh Hrange]]. destruct o as [lim sh|p|c v w|v p|v|]; unfold step, step_gen.
  - (* constraint_new *)
    set (k := mkCnst lim sh 0 [] []).
    assert (Hen0 : c_en (s_cn s (s_nc s)) = []).
    { destruct (c_en (s_cn s (s_nc s))) as [|u r] eqn:E; [reflexivity|]. exfalso.
      assert (H : In u (c_en (s_cn s (s_nc s)))) by (rewrite E; now left). apply (i_en s I) in H. destruct H as [_ [_ H]]. apply Hrange in H. lia. }
    assert (Hdis0 : c_dis (s_cn s (s_nc s)) = []).
    { destruct (c_dis (s_cn s (s_nc s))) as [|u r] eqn:E; [reflexivity|]. exfalso.
      assert (H : In u (c_dis (s_cn s (s_nc s)))) by (rewrite E; now left). apply (i_dis s I) in H. destruct H as [_ [_ H]]. apply Hrange in H. lia. }
    assert (Hc : forall c, s_cn (mkSys (s_nv s) (S (s_nc s)) (s_var s) (upd (s_cn s) (s_nc s) k)) c = if Nat.eqb c (s_nc s) then k else s_cn s c) by reflexivity.
    split; [split; [|split]|split].
    + constructor.
      * intros c v. rewrite Hc. destruct (Nat.eqb c (s_nc s)) eqn:E; [|apply (i_en s I)]. apply Nat.eqb_eq in E. subst c.
        cbn [k c_en]. rewrite <- Hen0. apply (i_en s I).
      * intros c v. rewrite Hc. destruct (Nat.eqb c (s_nc s)) eqn:E; [|apply (i_dis s I)]. apply Nat.eqb_eq in E. subst c.
        cbn [k c_dis]. rewrite <- Hdis0. apply (i_dis s I).
      * intro c. rewrite Hc. destruct (Nat.eqb c (s_nc s)); [constructor|apply (i_nd_en s I)].
      * intro c. rewrite Hc. destruct (Nat.eqb c (s_nc s)); [constructor|apply (i_nd_dis s I)].
      * apply (i_nd_el s I).
      * intro c. rewrite Hc. destruct (Nat.eqb c (s_nc s)); [reflexivity|]. rewrite (i_cur s I c). reflexivity.
      * apply (i_sign s I).
      * apply (i_st_pen s I).
      * apply (i_dead s I).
      * apply (i_want s I).
    + intro c. rewrite Hc. destruct (Nat.eqb c (s_nc s)); [cbn; lia|apply L].
    + intros u Hx Hau Hsu. destruct (J u Hx Hau Hsu) as [[c [A B]]|[c [[] _]]]. left. exists c. split; [exact A|].
      unfold fullc. rewrite Hc. assert (c <> s_nc s) by (apply Hrange in A; lia). apply Nat.eqb_neq in H. rewrite H. exact B.
    + exact Hfresh.
    + intros v c H. apply Hrange in H. cbn. lia.
  - (* variable_new *)
    destruct (Qnum p <? 0) eqn:Ep; [split; [split; [|split]|split]; assumption|].
    set (y := mkVar true p 0 p []).
    assert (He : v_elems (s_var s (s_nv s)) = []) by (apply (i_dead s I); apply Hfresh; lia).
    split; [split; [|split]|split].
    + apply (inv_struct_counters (s_nv s) (s_nc s)).
      apply (set_empty_var_struct s (s_nv s) y); try assumption; try reflexivity; cbn; try lia; try discriminate.
      intro Hq. split; [exact Hq|reflexivity].
    + exact L.
    + intros u Hx Hau Hsu. destruct (Nat.eq_dec u (s_nv s)) as [->|Hne].
      * unfold stagedv in Hsu. cbn in Hsu. rewrite upd_same in Hsu. discriminate.
      * unfold alive, stagedv in Hau, Hsu. cbn [s_var] in Hau, Hsu. rewrite upd_other in Hau, Hsu by exact Hne.
        destruct (J u Hx Hau Hsu) as [[c [A B]]|[c [[] _]]]. left. exists c. split; [|exact B]. unfold on. cbn [s_var]. rewrite upd_other by exact Hne. exact A.
    + intros v Hv. cbn [s_nv] in Hv. unfold alive. cbn [s_var]. rewrite upd_other by lia. apply Hfresh. lia.
    + intros v c. unfold on. cbn [s_var s_nc]. destruct (Nat.eq_dec v (s_nv s)) as [->|Hne].
      * rewrite upd_same. cbn. tauto.
      * rewrite upd_other by exact Hne. apply Hrange.
  - (* expand *)
    destruct (Nat.ltb c (s_nc s) && Nat.ltb v (s_nv s) && v_alive (s_var s v) && negb (Qnum w <? 0)) eqn:G;
      [|split; [split; [|split]|split]; assumption].
    apply andb_prop in G. destruct G as [G G4]. apply andb_prop in G. destruct G as [G G3]. apply andb_prop in G. destruct G as [G1 G2].
    apply Nat.ltb_lt in G1.
    destruct (expand_inv s c v w (conj I (conj L J)) G3 ltac:(lia)) as [Inv [N [M [A O]]]].
    split; [exact Inv|split].
    + intros u Hu. rewrite N in Hu. unfold alive. rewrite A. apply Hfresh. exact Hu.
    + intros u c' H. rewrite M. apply O in H. destruct H as [H|[_ ->]]; [apply Hrange in H; exact H|exact G1].
  - (* update_variable_penalty *)
    destruct (Nat.ltb v (s_nv s) && v_alive (s_var s v) && negb (Qnum p <? 0)) eqn:G;
      [|split; [split; [|split]|split]; assumption].
    apply andb_prop in G. destruct G as [G G3]. apply andb_prop in G. destruct G as [G1 G2].
    assert (Hp : 0 <= Qnum p) by lia.
    unfold update_penalty. destruct (qpos p) eqn:Eq.
    + (* want first *)
      set (s0 := set_want s v p).
      assert (I0 : inv_struct s0).
      { apply set_var_struct; try assumption; try reflexivity; cbn; try (apply (i_sign s I)); try (apply (i_st_pen s I)).
        - intro Hq. apply (i_dead s I). unfold alive. congruence.
        - intro Hq. congruence. }
      assert (J0 : just [] None s0) by (apply just_set_var; try reflexivity; try assumption; cbn; intro Hq; now left).
      assert (Ha0 : alive s0 v) by (unfold alive, s0; cbn; rewrite upd_same; exact G2).
      assert (Hw0 : qpos p = true -> qpos (v_want (s_var s0 v)) = true) by (intros _; unfold s0; cbn; rewrite upd_same; exact Eq).
      destruct (update_penalty_core_inv s0 v p (conj I0 (conj L J0)) Ha0 Hp Hw0) as [Inv [N [M [A [E _]]]]].
      assert (Hal0 : forall u, v_alive (s_var s0 u) = v_alive (s_var s u)).
      { intro u. unfold s0. cbn. unfold upd. destruct (Nat.eqb u v) eqn:E0; [apply Nat.eqb_eq in E0; subst u|]; reflexivity. }
      assert (Hel0 : forall u, v_elems (s_var s0 u) = v_elems (s_var s u)).
      { intro u. unfold s0. cbn. unfold upd. destruct (Nat.eqb u v) eqn:E0; [apply Nat.eqb_eq in E0; subst u|]; reflexivity. }
      split; [exact Inv|split].
      * intros u Hu. rewrite N in Hu. unfold alive. rewrite A, Hal0. apply Hfresh. exact Hu.
      * intros u c. unfold on. rewrite E, Hel0, M. apply Hrange.
    + destruct (update_penalty_core_inv s v p (conj I (conj L J)) G2 Hp ltac:(congruence)) as [[I1 [L1 J1]] [N [M [A [E Z]]]]].
      set (s1 := update_penalty_core true true s v p) in *.
      destruct (Z Eq) as [Z1 Z2].
      split; [split; [|split]|split].
      * apply set_var_struct; try assumption; try reflexivity; cbn; try (apply (i_sign s1 I1)); try (apply (i_st_pen s1 I1)).
        intro Hq. exact Z2.
      * exact L1.
      * apply just_set_var; try reflexivity; try assumption. cbn. intro Hq. now left.
      * intros u Hu. cbn [set_want set_var s_nv] in Hu. rewrite N in Hu. unfold alive. cbn [set_want set_var s_var].
        unfold upd. destruct (Nat.eqb u v) eqn:E0.
        -- apply Nat.eqb_eq in E0. subst u. cbn. rewrite A. apply Hfresh. exact Hu.
        -- rewrite A. apply Hfresh. exact Hu.
      * intros u c. unfold on. cbn [set_want set_var s_var s_nc]. rewrite M. unfold upd. destruct (Nat.eqb u v) eqn:E0.
        -- apply Nat.eqb_eq in E0. subst u. cbn. rewrite E. apply Hrange.
        -- rewrite E. apply Hrange.
  - (* variable_free *)
    destruct (Nat.ltb v (s_nv s) && v_alive (s_var s v)) eqn:G; [|split; [split; [|split]|split]; assumption].
    apply andb_prop in G. destruct G as [G1 G2].
    destruct (var_free_inv s v (conj I (conj L J)) G2) as [Inv [N [M [O D]]]].
    split; [exact Inv|split].
    + intros u Hu. rewrite N in Hu. unfold alive. destruct (Nat.eq_dec u v) as [->|Hne]; [rewrite D; cbn; discriminate|].
      rewrite (proj1 (O u Hne)). apply Hfresh. exact Hu.
    + intros u c. unfold on. rewrite M. destruct (Nat.eq_dec u v) as [->|Hne]; [rewrite D; cbn; tauto|].
      rewrite (proj2 (O u Hne)). apply Hrange.
  - split; [split; [|split]|split]; assumption.
Qed.

Theorem run_ops_inv : forall l, inv_all (run_ops sys0 l).
Proof.
  intro l. unfold run_ops. generalize inv_all_0. generalize sys0. induction l as [|o l IH]; intros s H; [exact H|].
  cbn. apply IH. apply step_inv. exact H.
Qed.

(** * the statements of C18 about every history *)
Section Statements.
  Variable l : list op.
  Let s := run_ops sys0 l.

  Lemma counter_exact : forall c,
    c_cur (s_cn s c) = count_en s c (c_en (s_cn s c)) /\ NoDup (c_en (s_cn s c)) /\
    (forall v, In v (c_en (s_cn s c)) <-> v_alive (s_var s v) = true /\ qpos (v_pen (s_var s v)) = true /\ In c (map fst (v_elems (s_var s v)))).
  Proof. intro c. destruct (run_ops_inv l) as [[I _] _]. split; [apply (i_cur _ I)|split; [apply (i_nd_en _ I)|intro v; apply (i_en _ I)]]. Qed.

  Lemma limit_respected : forall c, 0 <= c_limit (s_cn s c) -> c_cur (s_cn s c) <= c_limit (s_cn s c).
  Proof. destruct (run_ops_inv l) as [[_ [L _]] _]. exact L. Qed.

  Lemma no_starvation : forall v, v_alive (s_var s v) = true -> qpos (v_staged (s_var s v)) = true ->
    qpos (v_pen (s_var s v)) = false /\
    exists c, In c (map fst (v_elems (s_var s v))) /\ 0 <= c_limit (s_cn s c) /\ c_cur (s_cn s c) = c_limit (s_cn s c).
  Proof.
    intros v Ha Hs. destruct (run_ops_inv l) as [[I [_ J]] _]. split; [apply (i_st_pen _ I); exact Hs|].
    destruct (J v ltac:(discriminate) Ha Hs) as [[c [A B]]|[c [[] _]]]. exists c. split; [exact A|exact B].
  Qed.

  Lemma sets_consistent : forall v c, v_alive (s_var s v) = true -> In c (map fst (v_elems (s_var s v))) ->
    if qpos (v_pen (s_var s v)) then In v (c_en (s_cn s c)) /\ ~ In v (c_dis (s_cn s c))
    else In v (c_dis (s_cn s c)) /\ ~ In v (c_en (s_cn s c)).
  Proof.
    intros v c Ha Ho. destruct (run_ops_inv l) as [[I _] _]. fold s in I.
    destruct (qpos (v_pen (s_var s v))) eqn:E; rewrite (i_en _ I), (i_dis _ I); unfold alive, enabled, on; rewrite E; split; try tauto;
      intros [_ [H _]]; discriminate.
  Qed.

  Lemma penalty0_not_running : forall v, qpos (v_want (s_var s v)) = false ->
    qpos (v_pen (s_var s v)) = false /\ qpos (v_staged (s_var s v)) = false.
  Proof. intros v H. destruct (run_ops_inv l) as [[I _] _]. apply (i_want _ I). exact H. Qed.

  Lemma never_starving : any_starving s = false.
  Proof.
    destruct (any_starving s) eqn:E; [|reflexivity]. exfalso. unfold any_starving in E. apply existsb_exists in E.
    destruct E as [v [_ Hv]]. unfold starving in Hv. apply andb_prop in Hv. destruct Hv as [Hv Hn]. apply andb_prop in Hv. destruct Hv as [Ha Hs].
    destruct (no_starvation v Ha Hs) as [_ [c [A [B C]]]]. apply negb_true_iff in Hn.
    assert (X : existsb (fun e => full s (fst e)) (v_elems (s_var s v)) = true).
    { apply existsb_exists. apply in_map_iff in A. destruct A as [e [A1 A2]]. exists e. split; [exact A2|]. rewrite A1. unfold full. lia. }
    congruence.
  Qed.
End Statements.

(* the code as pinned (update_variable_penalty without on_disabled_var) starves a staged variable *)
Definition witness_c18 : list op :=
  [NewC 1 true; NewV 1; NewV 1; Expand 0 0 1; Expand 0 1 1; Pen 0 0].
Lemma pinned_refuted : any_starving (fold_left step_pinned witness_c18 sys0) = true /\ any_starving (run_ops sys0 witness_c18) = false.
Proof. split; vm_compute; reflexivity. Qed.
Definition witness_c15 : list op :=
  [NewC 1 true; NewV 1; NewV 1; Expand 0 0 1; Expand 0 1 1; Pen 1 0; Free 0].
Lemma pinned_resumes_suspended :
  resumed_while_suspended (fold_left step_pinned witness_c15 sys0) 1 = true /\ resumed_while_suspended (run_ops sys0 witness_c15) 1 = false.
Proof. split; vm_compute; reflexivity. Qed.
