(** Lmm/MaxminProofs.v — progressive filling never exceeds a capacity (C15, maxmin) and the oracles decide their specs. *)
From SGV Require Import Base.Tactics Lmm.System Lmm.SystemProofs Lmm.Maxmin.
From Coq Require Import QArith Lqa.
Local Open Scope Q_scope.

Lemma qposb_true : forall q, qposb q = true <-> 0 < q.
Proof. intro q. unfold qposb, Qlt. cbn. rewrite Z.ltb_lt. lia. Qed.
Lemma qposb_false : forall q, qposb q = false <-> q <= 0.
Proof. intro q. unfold qposb, Qle. cbn. rewrite Z.ltb_ge. lia. Qed.
Lemma qmx_ge_l : forall a b, a <= qmx a b.
Proof. intros. unfold qmx. destruct (Qle_bool b a) eqn:E; [lra|]. assert (~ b <= a) by (intro H; apply Qle_bool_iff in H; congruence). lra. Qed.
Lemma qmx_ge_r : forall a b, b <= qmx a b.
Proof. intros. unfold qmx. destruct (Qle_bool b a) eqn:E; [apply Qle_bool_iff in E; exact E|lra]. Qed.
Lemma qmx_lub : forall a b c, a <= c -> b <= c -> qmx a b <= c.
Proof. intros. unfold qmx. destruct (Qle_bool b a); assumption. Qed.
Lemma qmn_le_l : forall a b, qmn a b <= a.
Proof. intros. unfold qmn. destruct (Qle_bool a b) eqn:E; [lra|]. assert (~ a <= b) by (intro H; apply Qle_bool_iff in H; congruence). lra. Qed.
Lemma qmn_le_r : forall a b, qmn a b <= b.
Proof. intros. unfold qmn. destruct (Qle_bool a b) eqn:E; [apply Qle_bool_iff in E; exact E|lra]. Qed.
Lemma qmn_cases : forall a b, qmn a b = a \/ qmn a b = b.
Proof. intros. unfold qmn. destruct (Qle_bool a b); auto. Qed.

Section Solve.
  Variable s : msys.
  Hypothesis pen_pos : forall v, 0 < pen s v.
  Hypothesis w_nonneg : forall c e, In e (m_elems (cn s c)) -> 0 <= snd e.
  Hypothesis cap_pos : forall c, 0 < m_bound (cn s c) \/ m_elems (cn s c) = [].
  Hypothesis cap_nonneg : forall c, 0 <= m_bound (cn s c).

  Lemma ip_pos : forall v, 0 < ip s v.
  Proof. intro v. unfold ip. apply Qinv_lt_0_compat. apply pen_pos. Qed.
  Lemma pen_ip : forall v, pen s v * ip s v == 1.
  Proof. intro v. unfold ip. apply Qmult_inv_r. assert (H := pen_pos v). lra. Qed.

  (** *** sums over the elements of one constraint *)
  Lemma wsum_nonneg : forall es v, (forall e, In e es -> 0 <= snd e) -> 0 <= wsum es v.
  Proof.
    induction es as [|[u w] r IH]; cbn; intros v H; [lra|]. assert (0 <= w) by (apply (H (u, w)); now left).
    assert (0 <= wsum r v) by (apply IH; intros; apply H; now right). destruct (Nat.eqb u v); lra.
  Qed.
  Lemma has_var_false : forall es v, has_var es v = false -> forall e, In e es -> fst e <> v.
  Proof.
    intros es v H e He Heq. unfold has_var in H. assert (existsb (fun e0 => Nat.eqb (fst e0) v) es = true); [|congruence].
    apply existsb_exists. exists e. split; [exact He|apply Nat.eqb_eq; exact Heq].
  Qed.
  Lemma load_upd : forall es val v x, val v == 0 -> load es (upd val v x) == load es val + wsum es v * x.
  Proof.
    induction es as [|[u w] r IH]; cbn; intros val v x H; [lra|]. rewrite IH by exact H. unfold upd at 1.
    destruct (Nat.eqb u v) eqn:E; [apply Nat.eqb_eq in E; subst u; rewrite H|]; lra.
  Qed.
  Lemma ufun_nonneg : forall es val, (forall e, In e es -> 0 <= snd e) -> 0 <= ufun s es val.
  Proof.
    induction es as [|[u w] r IH]; cbn; intros val H; [lra|]. assert (0 <= w) by (apply (H (u, w)); now left).
    assert (0 <= ufun s r val) by (apply IH; intros; apply H; now right). assert (Hi := ip_pos u).
    destruct (unfixed val u && qposb w); nra.
  Qed.
  Lemma ufun_upd : forall es val v x, (forall e, In e es -> 0 <= snd e) -> unfixed val v = true -> 0 < x ->
    ufun s es (upd val v x) == ufun s es val - wsum es v * ip s v.
  Proof.
    induction es as [|[u w] r IH]; cbn; intros val v x H Hu Hx; [lra|]. rewrite IH; [|intros; apply H; now right|exact Hu|exact Hx].
    assert (Hw : 0 <= w) by (apply (H (u, w)); now left).
    destruct (Nat.eqb u v) eqn:E.
    - apply Nat.eqb_eq in E. subst u. unfold unfixed at 1. unfold upd at 1. rewrite Nat.eqb_refl. rewrite Hu.
      assert (qposb x = true) by (apply qposb_true; exact Hx). rewrite H0. cbn [negb andb].
      destruct (qposb w) eqn:Ew; [lra|]. apply qposb_false in Ew. assert (w == 0) by lra. rewrite H1. lra.
    - unfold unfixed at 1. unfold upd at 1. rewrite E. fold (unfixed val u). lra.
  Qed.
  Lemma umax_nonneg : forall es val, 0 <= umax s es val.
  Proof.
    induction es as [|[u w] r IH]; cbn; intros val; [lra|]. destruct (unfixed val u && qposb w); [|apply IH].
    eapply Qle_trans; [apply IH|apply qmx_ge_r].
  Qed.
  Lemma umax_ge : forall es val u w, In (u, w) es -> unfixed val u = true -> qposb w = true -> w * ip s u <= umax s es val.
  Proof.
    induction es as [|[u' w'] r IH]; cbn; intros val u w Hin Hu Hw; [tauto|]. destruct Hin as [Hin|Hin].
    - inv Hin. rewrite Hu, Hw. cbn. apply qmx_ge_l.
    - specialize (IH val u w Hin Hu Hw). destruct (unfixed val u' && qposb w'); [|exact IH].
      eapply Qle_trans; [exact IH|apply qmx_ge_r].
  Qed.
  Lemma umax_upd_le : forall es val v x, 0 < x -> umax s es (upd val v x) <= umax s es val.
  Proof.
    induction es as [|[u w] r IH]; cbn; intros val v x Hx; [lra|]. specialize (IH val v x Hx).
    assert (Hn := umax_nonneg r val).
    unfold unfixed at 1. unfold upd at 1. destruct (Nat.eqb u v) eqn:E.
    - assert (qposb x = true) by (apply qposb_true; exact Hx). rewrite H. cbn [negb andb].
      destruct (unfixed val u && qposb w); [eapply Qle_trans; [exact IH|apply qmx_ge_r]|exact IH].
    - fold (unfixed val u). destruct (unfixed val u && qposb w); [|exact IH].
      apply qmx_lub; [apply qmx_ge_l|eapply Qle_trans; [exact IH|apply qmx_ge_r]].
  Qed.

  Lemma nv_all : forall es val v x, (forall e, In e es -> fst e <> v) ->
    load es (upd val v x) = load es val /\ ufun s es (upd val v x) = ufun s es val /\ umax s es (upd val v x) = umax s es val.
  Proof.
    induction es as [|[u w] r IH]; intros val v x H; [repeat split; reflexivity|].
    assert (Hu : Nat.eqb u v = false) by (apply Nat.eqb_neq; apply (H (u, w)); now left).
    destruct (IH val v x) as [I2 [I3 I4]]; [intros; apply H; now right|].
    cbn. unfold unfixed, upd. rewrite Hu. fold (upd val v x). rewrite I2.
    change (ufun s r (fun j => if Nat.eqb j v then x else val j)) with (ufun s r (upd val v x)).
    change (umax s r (fun j => if Nat.eqb j v then x else val j)) with (umax s r (upd val v x)).
    rewrite I3, I4. repeat split; reflexivity.
  Qed.
  Lemma nv_wsum : forall es v, (forall e, In e es -> fst e <> v) -> wsum es v == 0.
  Proof.
    induction es as [|[u w] r IH]; cbn; intros v H; [lra|]. assert (Hu : Nat.eqb u v = false) by (apply Nat.eqb_neq; apply (H (u, w)); now left).
    rewrite Hu, IH; [lra|intros; apply H; now right].
  Qed.

  (** *** the invariant of progressive filling at level L *)
  Record Inv (st : mstate) (L : Q) : Prop := {
    v_load : forall c, m_shared (cn s c) = true -> st_rem st c + load (m_elems (cn s c)) (st_val st) == m_bound (cn s c);
    v_fat : forall c, m_shared (cn s c) = false -> st_rem st c == m_bound (cn s c);
    v_usage : forall c, st_usage st c == if m_shared (cn s c) then ufun s (m_elems (cn s c)) (st_val st) else umax s (m_elems (cn s c)) (st_val st);
    v_level : forall c, L * st_usage st c <= st_rem st c;
    v_dark : forall c, st_light st c = false -> st_usage st c <= 0;
    v_lit : forall c, st_light st c = true -> 0 < st_rem st c /\ 0 < st_usage st c;
    v_fatcap : forall c e, m_shared (cn s c) = false -> In e (m_elems (cn s c)) -> snd e * st_val st (fst e) <= m_bound (cn s c);
    v_val : forall v, 0 <= st_val st v /\ (0 < vbound s v -> st_val st v <= vbound s v);
    v_L : 0 <= L }.

  Lemma usage_nonneg : forall st L c, Inv st L -> 0 <= st_usage st c.
  Proof.
    intros st L c I. rewrite (v_usage st L I c). destruct (m_shared (cn s c)); [apply ufun_nonneg; apply w_nonneg|apply umax_nonneg].
  Qed.
  Lemma rem_nonneg : forall st L c, Inv st L -> 0 <= st_rem st c.
  Proof. intros st L c I. assert (A := v_level st L I c). assert (B := usage_nonneg st L c I). assert (C := v_L st L I). nra. Qed.

  Lemma init_inv : Inv (init s) 0.
  Proof.
    constructor; cbn [init st_val st_rem st_usage st_light].
    - intros c _. assert (H : load (m_elems (cn s c)) (fun _ => 0) == 0) by (induction (m_elems (cn s c)) as [|[u w] r IH]; cbn; lra). lra.
    - intros; lra.
    - intro c. destruct (cap_pos c) as [H|H].
      + apply qposb_true in H. rewrite H. reflexivity.
      + rewrite H. cbn. destruct (qposb _), (m_shared _); reflexivity.
    - intro c. assert (H := cap_nonneg c). lra.
    - intros c H. destruct (qposb (m_bound (cn s c))) eqn:E; [|lra]. cbn [andb] in H. apply qposb_false in H. exact H.
    - intros c H. apply andb_prop in H. destruct H as [H1 H2]. rewrite H1. apply qposb_true in H1. apply qposb_true in H2. split; assumption.
    - intros c e Hs He. destruct (cap_pos c) as [H|H]; [lra|rewrite H in He; destruct He].
    - intro v. split; [lra|intro; lra].
    - lra.
  Qed.

  Lemma relevel : forall st L L', Inv st L -> 0 <= L' ->
    (forall c, st_light st c = true -> L' * st_usage st c <= st_rem st c) -> Inv st L'.
  Proof.
    intros st L L' I HL H. destruct I as [A B C D E F G V W]. constructor; try assumption.
    intro c. destruct (st_light st c) eqn:El; [apply H; exact El|].
    assert (U := E c El). assert (N := usage_nonneg st L c (Build_Inv st L A B C D E F G V W)).
    assert (R := rem_nonneg st L c (Build_Inv st L A B C D E F G V W)). assert (st_usage st c == 0) by lra. rewrite H0. lra.
  Qed.

  Lemma fix_var_inv : forall st L v x, Inv st L -> 0 < L -> 0 < x -> pen s v * x <= L -> (0 < vbound s v -> x <= vbound s v) ->
    Inv (fix_var s v x st) L.
  Proof.
    intros st L v x I HL Hx Hpx Hb. unfold fix_var. destruct (unfixed (st_val st) v) eqn:Eu; [|exact I].
    assert (Hv0 : st_val st v == 0).
    { unfold unfixed in Eu. apply negb_true_iff in Eu. apply qposb_false in Eu. assert (H := proj1 (v_val st L I v)). lra. }
    assert (Hxi : x <= L * ip s v).
    { assert (P := pen_ip v). assert (Q := ip_pos v). assert (x == (pen s v * x) * ip s v) by (rewrite <- Qmult_assoc, (Qmult_comm x), Qmult_assoc, P; lra). nra. }
    set (val' := upd (st_val st) v x).
    assert (Hnv : forall c, has_var (m_elems (cn s c)) v = false -> wsum (m_elems (cn s c)) v == 0 /\
                  load (m_elems (cn s c)) val' == load (m_elems (cn s c)) (st_val st) /\
                  ufun s (m_elems (cn s c)) val' == ufun s (m_elems (cn s c)) (st_val st) /\
                  umax s (m_elems (cn s c)) val' == umax s (m_elems (cn s c)) (st_val st)).
    { intros c Hh. assert (Hne := has_var_false _ _ Hh). destruct (nv_all (m_elems (cn s c)) (st_val st) v x Hne) as [N2 [N3 N4]].
      fold val' in N2, N3, N4. rewrite N2, N3, N4. split; [apply nv_wsum; exact Hne|]. repeat split; reflexivity. }
    constructor; cbn [st_val st_rem st_usage st_light]; fold val'.
    - intros c Hs. rewrite Hs. rewrite andb_true_r. destruct (has_var (m_elems (cn s c)) v) eqn:Eh.
      + unfold val'. rewrite load_upd by exact Hv0. assert (A := v_load st L I c Hs). lra.
      + destruct (Hnv c Eh) as [_ [H2 _]]. rewrite H2. apply (v_load st L I c Hs).
    - intros c Hs. rewrite Hs. rewrite andb_false_r. apply (v_fat st L I c Hs).
    - intro c. destruct (has_var (m_elems (cn s c)) v) eqn:Eh.
      + destruct (m_shared (cn s c)) eqn:Es; [|reflexivity].
        unfold val'. rewrite ufun_upd; [|apply w_nonneg|exact Eu|exact Hx]. assert (A := v_usage st L I c). rewrite Es in A. lra.
      + destruct (Hnv c Eh) as [_ [_ [H3 H4]]]. assert (A := v_usage st L I c). destruct (m_shared (cn s c)); lra.
    - intro c. assert (A := v_level st L I c). destruct (has_var (m_elems (cn s c)) v) eqn:Eh; [|exact A].
      destruct (m_shared (cn s c)) eqn:Es; cbn [andb].
      + assert (W := wsum_nonneg (m_elems (cn s c)) v (w_nonneg c)). nra.
      + assert (U := v_usage st L I c). rewrite Es in U. assert (M := umax_upd_le (m_elems (cn s c)) (st_val st) v x Hx). fold val' in M. nra.
    - intros c. destruct (has_var (m_elems (cn s c)) v) eqn:Eh; [|apply (v_dark st L I c)].
      assert (A := v_level st L I c). assert (U := v_usage st L I c).
      destruct (m_shared (cn s c)) eqn:Es; cbn [andb].
      + assert (W := wsum_nonneg (m_elems (cn s c)) v (w_nonneg c)). assert (Q := ip_pos v). intro H.
        apply andb_false_iff in H. destruct H as [H|H]; [apply andb_false_iff in H; destruct H as [H|H]|].
        * assert (D := v_dark st L I c H). nra.
        * apply qposb_false in H. exact H.
        * apply qposb_false in H. nra.
      + assert (M := umax_upd_le (m_elems (cn s c)) (st_val st) v x Hx). fold val' in M. intro H.
        apply andb_false_iff in H. destruct H as [H|H]; [apply andb_false_iff in H; destruct H as [H|H]|].
        * assert (D := v_dark st L I c H). lra.
        * apply qposb_false in H. exact H.
        * apply qposb_false in H. assert (N := umax_nonneg (m_elems (cn s c)) val'). nra.
    - intros c. destruct (has_var (m_elems (cn s c)) v) eqn:Eh; [|apply (v_lit st L I c)].
      intro H. apply andb_prop in H. destruct H as [H H3]. apply andb_prop in H. destruct H as [H1 H2].
      apply qposb_true in H2. apply qposb_true in H3. split; assumption.
    - intros c [u w] Hs He. cbn [fst snd]. unfold val', upd. destruct (Nat.eqb u v) eqn:E; [|apply (v_fatcap st L I c (u, w) Hs He)].
      apply Nat.eqb_eq in E. subst u. assert (Hw := w_nonneg c (v, w) He). cbn in Hw.
      assert (A := v_level st L I c). assert (U := v_usage st L I c). rewrite Hs in U. assert (B := v_fat st L I c Hs).
      destruct (qposb w) eqn:Ew.
      + assert (G := umax_ge (m_elems (cn s c)) (st_val st) v w He Eu Ew). apply qposb_true in Ew. assert (Q := ip_pos v). nra.
      + apply qposb_false in Ew. assert (w == 0) by lra. rewrite H. assert (N := rem_nonneg st L c I). lra.
    - intro u. unfold val', upd. destruct (Nat.eqb u v) eqn:E; [|apply (v_val st L I u)].
      apply Nat.eqb_eq in E. subst u. split; [lra|exact Hb].
    - apply (v_L st L I).
  Qed.

  (** *** one round *)
  Lemma min_ratio_spec : forall st l acc L,
    (forall c, In c l -> st_light st c = true -> 0 < st_rem st c /\ 0 < st_usage st c) ->
    match acc with None => True | Some a => 0 < a end ->
    fold_left (fun m c => if st_light st c then match m with None => Some (ratio st c) | Some x => Some (qmn x (ratio st c)) end else m) l acc = Some L ->
    0 < L /\ (forall c, In c l -> st_light st c = true -> L <= ratio st c) /\ match acc with None => True | Some a => L <= a end.
  Proof.
    intros st. induction l as [|c r IH]; cbn [fold_left]; intros acc L Hl Ha H.
    - subst acc. split; [exact Ha|]. split; [intros c []|lra].
    - assert (Hr : st_light st c = true -> 0 < ratio st c).
      { intro E. destruct (Hl c (or_introl eq_refl) E) as [A B]. unfold ratio. apply Qlt_shift_div_l; [exact B|lra]. }
      destruct (st_light st c) eqn:El.
      + specialize (Hr eq_refl). destruct acc as [a|].
        * apply IH in H; [|intros; apply Hl; [now right|assumption]|].
          -- destruct H as [H1 [H2 H3]]. split; [exact H1|]. split.
             ++ intros c' [Hc|Hc] E; [subst c'; assert (X := qmn_le_r a (ratio st c)); lra|apply H2; assumption].
             ++ assert (X := qmn_le_l a (ratio st c)). lra.
          -- destruct (qmn_cases a (ratio st c)) as [X|X]; rewrite X; assumption.
        * apply IH in H; [|intros; apply Hl; [now right|assumption]|exact Hr].
          destruct H as [H1 [H2 H3]]. split; [exact H1|]. split; [|exact I].
          intros c' [Hc|Hc] E; [subst c'; exact H3|apply H2; assumption].
      + apply IH in H; [|intros; apply Hl; [now right|assumption]|exact Ha].
        destruct H as [H1 [H2 H3]]. split; [exact H1|]. split; [|exact H3].
        intros c' [Hc|Hc] E; [subst c'; congruence|apply H2; assumption].
  Qed.

  Definition mb_step (L : Q) (m : option Q) (v : nat) : option Q :=
    if qposb (vbound s v) && negb (Qle_bool L (vbound s v * pen s v))
    then match m with None => Some (vbound s v * pen s v) | Some x => Some (qmn x (vbound s v * pen s v)) end
    else m.
  Lemma mb_some : forall L r q0, fold_left (mb_step L) r (Some q0) <> None.
  Proof.
    intros L. induction r as [|u r IH]; cbn; intros q0; [discriminate|]. unfold mb_step at 2.
    destruct (qposb (vbound s u) && negb (Qle_bool L (vbound s u * pen s u))); apply IH.
  Qed.
  Lemma min_bound_spec : forall L vs acc b,
    match acc with None => True | Some a => 0 < a /\ a < L end ->
    fold_left (mb_step L) vs acc = b ->
    match b with
    | Some a => 0 < a /\ a < L
    | None => forall v, In v vs -> 0 < vbound s v -> L <= vbound s v * pen s v
    end.
  Proof.
    intros L. induction vs as [|v r IH]; cbn [fold_left]; intros acc b Ha H.
    - subst b. destruct acc; [exact Ha|intros v []].
    - unfold mb_step at 2 in H. destruct (qposb (vbound s v) && negb (Qle_bool L (vbound s v * pen s v))) eqn:E.
      + apply andb_prop in E. destruct E as [E1 E2]. apply qposb_true in E1. apply negb_true_iff in E2.
        assert (N : ~ L <= vbound s v * pen s v) by (intro X; apply Qle_bool_iff in X; congruence).
        assert (P := pen_pos v). assert (G : 0 < vbound s v * pen s v /\ vbound s v * pen s v < L) by (split; nra).
        destruct acc as [a|].
        * assert (X : 0 < qmn a (vbound s v * pen s v) /\ qmn a (vbound s v * pen s v) < L) by (destruct (qmn_cases a (vbound s v * pen s v)) as [Y|Y]; rewrite Y; tauto).
          specialize (IH (Some (qmn a (vbound s v * pen s v))) b X H). destruct b; [exact IH|]. exfalso. eapply mb_some; exact H.
        * specialize (IH (Some (vbound s v * pen s v)) b G H). destruct b; [exact IH|]. exfalso. eapply mb_some; exact H.
      + specialize (IH acc b Ha H). destruct b; [exact IH|]. intros u [Hu|Hu] Hb; [|apply IH; assumption].
        subst u. apply andb_false_iff in E. destruct E as [E|E]; [apply qposb_false in E; lra|].
        apply negb_false_iff in E. apply Qle_bool_iff in E. exact E.
  Qed.

  Lemma fold_fix_bound : forall b vs st, 0 < b -> Inv st b ->
    Inv (fold_left (fun st v => if Qeq_bool b (vbound s v * pen s v) then fix_var s v (vbound s v) st else st) vs st) b.
  Proof.
    intros b. induction vs as [|v r IH]; intros st B1 Ib; [exact Ib|].
    cbn [fold_left]. apply IH; [exact B1|]. destruct (Qeq_bool b (vbound s v * pen s v)) eqn:E; [|exact Ib].
    apply Qeq_bool_iff in E. assert (P := pen_pos v). apply fix_var_inv; try assumption.
    - nra.
    - rewrite Qmult_comm. lra.
    - intro; lra.
  Qed.
  Lemma fold_fix_level : forall L1 vs st, 0 < L1 -> Inv st L1 ->
    (forall v, In v vs -> 0 < vbound s v -> L1 <= vbound s v * pen s v) ->
    Inv (fold_left (fun st v => fix_var s v (L1 * ip s v) st) vs st) L1.
  Proof.
    intros L1. induction vs as [|v r IH]; intros st H1 I1 Eb; [exact I1|].
    cbn [fold_left]. apply IH; [exact H1| |intros u Hu; apply Eb; now right].
    assert (P := pen_pos v). assert (Q := ip_pos v). assert (PI := pen_ip v). apply fix_var_inv; try assumption.
    - nra.
    - rewrite Qmult_comm, <- Qmult_assoc, (Qmult_comm (ip s v)), PI. lra.
    - intro Hb. assert (X := Eb v (or_introl eq_refl) Hb).
      assert (L1 * ip s v <= (vbound s v * pen s v) * ip s v) by nra. rewrite <- Qmult_assoc, PI in H. lra.
  Qed.

  Lemma round_inv : forall st L, Inv st L -> exists L', Inv (round s st) L'.
  Proof.
    intros st L I. unfold round. destruct (min_ratio s st) as [L1|] eqn:Em; [|exists L; exact I].
    unfold min_ratio in Em. apply min_ratio_spec in Em; [|intros c _ E; apply (v_lit st L I c E)|exact Logic.I].
    destruct Em as [H1 [H2 _]].
    assert (I1 : Inv st L1).
    { apply (relevel st L L1 I); [lra|]. intros c E.
      destruct (le_lt_dec (ncn s) c) as [Hc|Hc].
      - exfalso. destruct (v_lit st L I c E) as [_ U]. rewrite (v_usage st L I c) in U. unfold cn in U. rewrite nth_overflow in U by exact Hc. cbn in U. lra.
      - assert (X := H2 c). rewrite in_seq in X. specialize (X ltac:(lia) E). destruct (v_lit st L I c E) as [R U].
        unfold ratio in X. assert (Y : st_rem st c / st_usage st c * st_usage st c == st_rem st c) by (field; lra).
        assert (Z : L1 * st_usage st c <= st_rem st c / st_usage st c * st_usage st c) by (apply Qmult_le_compat_r; [exact X|lra]). lra. }
    set (vs := sat_vars s st L1).
    destruct (min_bound s vs L1) as [b|] eqn:Eb; unfold min_bound in Eb; apply (min_bound_spec L1 vs None) in Eb; try exact Logic.I.
    - exists b. destruct Eb as [B1 B2]. apply fold_fix_bound; [exact B1|].
      apply (relevel st L1 b I1); [lra|]. intros c E. assert (A := v_level st L1 I1 c). destruct (v_lit st L1 I1 c E) as [_ U]. nra.
    - exists L1. apply fold_fix_level; assumption.
  Qed.

  Lemma rounds_inv : forall fuel st L, Inv st L -> exists L', Inv (rounds fuel s st) L'.
  Proof.
    induction fuel as [|f IH]; intros st L I; [exists L; exact I|]. cbn. destruct (round_inv st L I) as [L' I']. eapply IH; eassumption.
  Qed.

  (** the allocation of any number of rounds is feasible *)
  Theorem rounds_feasible : forall fuel, let st := rounds fuel s (init s) in
    (forall c, m_shared (cn s c) = true -> load (m_elems (cn s c)) (st_val st) <= m_bound (cn s c)) /\
    (forall c e, m_shared (cn s c) = false -> In e (m_elems (cn s c)) -> snd e * st_val st (fst e) <= m_bound (cn s c)) /\
    (forall v, 0 <= st_val st v /\ (0 < vbound s v -> st_val st v <= vbound s v)).
  Proof.
    intros fuel st. destruct (rounds_inv fuel (init s) 0 init_inv) as [L I]. fold st in I. split; [|split].
    - intros c Hs. assert (A := v_load st L I c Hs). assert (R := rem_nonneg st L c I). lra.
    - apply (v_fatcap st L I).
    - apply (v_val st L I).
  Qed.
End Solve.

(** * the allocation checker decides the inequalities of C15 *)
Definition cn_feasible (tol : Q) (val : nat -> Q) (k : mcn) : Prop :=
  if m_shared k then load (m_elems k) val <= m_bound k + tol * m_bound k
  else forall e, In e (m_elems k) -> snd e * val (fst e) <= m_bound k + tol * m_bound k.
Definition var_feasible (tol : Q) (s : msys) (val : nat -> Q) (v : nat) : Prop :=
  (pen s v <= 0 -> val v == 0) /\
  (consumes s v = true -> 0 <= val v /\ (0 < vbound s v -> val v <= vbound s v + tol * vbound s v)).
Definition alloc_feasible (tol : Q) (s : msys) (val : nat -> Q) : Prop :=
  (forall k, In k (m_cns s) -> cn_feasible tol val k) /\ (forall v, (v < length (m_vars s))%nat -> var_feasible tol s val v).

Theorem alloc_feasible_b_ok : forall tol s val, alloc_feasible_b tol s val = true <-> alloc_feasible tol s val.
Proof.
  intros tol s val. unfold alloc_feasible_b, alloc_feasible. rewrite andb_true_iff, !forallb_forall.
  assert (A : forall k, cn_feasible_b tol val k = true <-> cn_feasible tol val k).
  { intro k. unfold cn_feasible_b, cn_feasible. destruct (m_shared k); [apply Qle_bool_iff|].
    rewrite forallb_forall. split; intros H e He; apply Qle_bool_iff, H, He. }
  assert (B : forall v, var_feasible_b tol s val v = true <-> var_feasible tol s val v).
  { intro v. unfold var_feasible_b, var_feasible. rewrite andb_true_iff.
    assert (D : (qposb (pen s v) || Qeq_bool (val v) 0) = true <-> (pen s v <= 0 -> val v == 0)).
    { rewrite orb_true_iff, Qeq_bool_iff. destruct (qposb (pen s v)) eqn:E.
      - apply qposb_true in E. split; [intros _ H; lra|intros _; now left].
      - apply qposb_false in E. split; [intros [H|H] _; [discriminate|exact H]|intro H; right; apply H; exact E]. }
    rewrite D. apply and_iff_compat_l. destruct (consumes s v); cbn [negb orb].
    - rewrite andb_true_iff, orb_true_iff, negb_true_iff, !Qle_bool_iff. split.
      + intros [H1 H2] _. split; [exact H1|]. intro Hb. destruct H2 as [H2|H2]; [apply qposb_false in H2; lra|exact H2].
      + intro H. destruct (H eq_refl) as [H1 H2]. split; [exact H1|]. destruct (qposb (vbound s v)) eqn:E; [right; apply H2; apply qposb_true; exact E|now left].
    - split; [discriminate|reflexivity]. }
  split.
  - intros [H1 H2]. split; [intros k Hk; apply A, H1, Hk|intros v Hv; apply B, H2; apply in_seq; lia].
  - intros [H1 H2]. split; [intros k Hk; apply A, H1, Hk|intros v Hv; apply B, H2; apply in_seq in Hv; lia].
Qed.

(** * what the bottleneck checker establishes (C16): soundness *)
Definition is_bottleneck (tol : Q) (s : msys) (val : nat -> Q) (v : nat) : Prop :=
  consumes s v = false \/ (0 < vbound s v /\ vbound s v - tol * vbound s v <= val v) \/
  exists k, In k (m_cns s) /\ (exists e, In e (m_elems k) /\ fst e = v /\ 0 < snd e) /\
            m_bound k - tol * m_bound k <= cn_load k val /\
            forall e, In e (m_elems k) -> 0 < snd e -> pen s (fst e) * val (fst e) <= pen s v * val v + tol * (pen s v * val v).
Theorem bottleneck_b_sound : forall tol s val, bottleneck_b tol s val = true ->
  forall v, (v < length (m_vars s))%nat -> is_bottleneck tol s val v.
Proof.
  intros tol s val H v Hv. unfold bottleneck_b in H. rewrite forallb_forall in H. specialize (H v ltac:(apply in_seq; lia)).
  unfold var_bottleneck_b in H. apply orb_prop in H. destruct H as [H|H]; [apply orb_prop in H; destruct H as [H|H]|].
  - left. apply negb_true_iff in H. exact H.
  - right; left. unfold at_bound_b in H. apply andb_prop in H. destruct H as [H1 H2]. apply qposb_true in H1. apply Qle_bool_iff in H2. tauto.
  - right; right. apply existsb_exists in H. destruct H as [k [Hk H]]. apply andb_prop in H. destruct H as [H H3]. apply andb_prop in H. destruct H as [H1 H2].
    exists k. split; [exact Hk|]. split; [|split].
    + apply existsb_exists in H1. destruct H1 as [e [He H1]]. apply andb_prop in H1. destruct H1 as [H1 H1']. exists e.
      split; [exact He|]. split; [apply Nat.eqb_eq; exact H1|apply qposb_true; exact H1'].
    + unfold saturated_b in H2. apply Qle_bool_iff in H2. exact H2.
    + intros e He Hw. unfold maximal_on_b in H3. rewrite forallb_forall in H3. specialize (H3 e He). apply orb_prop in H3.
      destruct H3 as [H3|H3]; [apply negb_true_iff, qposb_false in H3; lra|apply Qle_bool_iff; exact H3].
Qed.

Definition is_bmf_share (tol : Q) (s : msys) (val : nat -> Q) (v : nat) : Prop :=
  consumes s v = false \/ (0 < vbound s v /\ vbound s v - tol * vbound s v <= val v) \/
  exists k, In k (m_cns s) /\ (exists e, In e (m_elems k) /\ fst e = v /\ 0 < snd e) /\
            m_bound k - tol * m_bound k <= cn_load k val /\
            ((forall e, In e (m_elems k) -> 0 < snd e ->
                pen s (fst e) * snd e * val (fst e) <= share_on s val k v + tol * share_on s val k v) \/
             (m_shared k = false /\ m_bound k - tol * m_bound k <= wsum (m_elems k) v * val v)).
Theorem bmf_b_sound : forall tol s val, bmf_b tol s val = true ->
  forall v, (v < length (m_vars s))%nat -> is_bmf_share tol s val v.
Proof.
  intros tol s val H v Hv. unfold bmf_b in H. rewrite forallb_forall in H. specialize (H v ltac:(apply in_seq; lia)).
  unfold var_bmf_b in H. apply orb_prop in H. destruct H as [H|H]; [apply orb_prop in H; destruct H as [H|H]|].
  - left. apply negb_true_iff in H. exact H.
  - right; left. unfold at_bound_b in H. apply andb_prop in H. destruct H as [H1 H2]. apply qposb_true in H1. apply Qle_bool_iff in H2. tauto.
  - right; right. apply existsb_exists in H. destruct H as [k [Hk H]]. apply andb_prop in H. destruct H as [H H3]. apply andb_prop in H. destruct H as [H1 H2].
    exists k. split; [exact Hk|]. split; [|split].
    + apply existsb_exists in H1. destruct H1 as [e [He H1]]. apply andb_prop in H1. destruct H1 as [H1 H1']. exists e.
      split; [exact He|]. split; [apply Nat.eqb_eq; exact H1|apply qposb_true; exact H1'].
    + unfold saturated_b in H2. apply Qle_bool_iff in H2. exact H2.
    + apply orb_prop in H3. destruct H3 as [H3|H3].
      * left. intros e He Hw. unfold maximal_share_b in H3. rewrite forallb_forall in H3. specialize (H3 e He). apply orb_prop in H3.
        destruct H3 as [H3|H3]; [apply negb_true_iff, qposb_false in H3; lra|apply Qle_bool_iff; exact H3].
      * right. apply andb_prop in H3. destruct H3 as [H3 H4]. apply negb_true_iff in H3. apply Qle_bool_iff in H4. split; assumption.
Qed.
