Require Import ExtrOcamlBasic.
Require Import SGV.Res.Action.
Extraction "c19_model.ml" run_c19_dates.
