Require Import ExtrOcamlBasic.
Require Import SGV.Smpi.Group.
Extraction "c32_model.ml" run_c32_group run_c32_split.
