Require Import ExtrOcamlBasic.
Require Import SGV.Plugins.FileSystem.
Extraction "c46_model.ml" run_c46 run_c46_pinned run_c46_oracle.
