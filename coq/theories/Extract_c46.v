Require Import ExtrOcamlBasic.
Require Import SGV.Plugins.FileSystem.
Require Import SGV.Plugins.FileSystemConc.
Extraction "c46_model.ml" run_c46 run_c46_pinned run_c46_oracle run_c46_multi.
