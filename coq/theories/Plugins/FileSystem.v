(** C46 — model of src/plugins/file_system/s4u_FileSystem.cpp (one disk = one FileSystemDiskExt, any number of
    File handles on it).  Model only, no proofs (they live in FileSystemProofs.v).

    Paths are integers (the driver maps k >= 0 to "<mount>/f<k>"; a negative path stands for a path that is not under
    the mount point of the disk, which File::move refuses).  Sizes/positions are Z; every unsigned 64-bit operation of
    the C++ is written with an explicit [wrap], every sg_size_t -> sg_offset_t conversion with [to_off].
    [None] = the program is stopped by an xbt_assert (seek before the start of the file). *)
From SGV Require Import Base.Tactics.
Local Open Scope Z_scope.

Definition W : Z := 2 ^ 64.
Definition wrap (x : Z) : Z := x mod W.
(* unsigned long long -> long long *)
Definition to_off (x : Z) : Z := let y := wrap x in if y <? 2 ^ 63 then y else y - W.

(** std::map<std::string, sg_size_t> as an association list without duplicate keys *)
Fixpoint lookup (p : Z) (c : list (Z * Z)) : option Z :=
  match c with
  | [] => None
  | (q, s) :: r => if q =? p then Some s else lookup p r
  end.
Fixpoint erase (p : Z) (c : list (Z * Z)) : list (Z * Z) :=
  match c with
  | [] => []
  | (q, s) :: r => if q =? p then erase p r else (q, s) :: erase p r
  end.
(* std::map::insert does not overwrite an existing key *)
Definition insert (p s : Z) (c : list (Z * Z)) : list (Z * Z) :=
  match lookup p c with Some _ => c | None => (p, s) :: c end.
Fixpoint total (c : list (Z * Z)) : Z :=
  match c with [] => 0 | (_, s) :: r => s + total r end.
Definition fsize (p : Z) (c : list (Z * Z)) : Z :=
  match lookup p c with Some s => s | None => -1 end.

(** a File object: path_, size_, current_position_ *)
Record handle := mkH { hpath : Z; hsize : Z; hpos : Z }.

Fixpoint hget (s : Z) (hs : list (Z * handle)) : option handle :=
  match hs with
  | [] => None
  | (t, h) :: r => if t =? s then Some h else hget s r
  end.
Fixpoint hdel (s : Z) (hs : list (Z * handle)) : list (Z * handle) :=
  match hs with
  | [] => []
  | (t, h) :: r => if t =? s then hdel s r else (t, h) :: hdel s r
  end.
Definition hset (s : Z) (h : handle) (hs : list (Z * handle)) : list (Z * handle) := (s, h) :: hdel s hs.

(** FileSystemDiskExt (content_, used_size_, size_) + the File objects the program holds, by slot number *)
Record st := mkSt { content : list (Z * Z); used : Z; cap : Z; hs : list (Z * handle) }.

Inductive op :=
| Open (slot path : Z)
| Write (slot n : Z) (inside : bool)
| Read (slot n : Z)
| Seek (slot off origin : Z)
| Move (slot path : Z)
| Unlink (slot : Z)
| Close (slot : Z).

Definition slot_of (o : op) : Z :=
  match o with
  | Open s _ | Write s _ _ | Read s _ | Seek s _ _ | Move s _ | Unlink s | Close s => s
  end.

(** File::update_position(sg_offset_t position) *)
Definition update_position (s : st) (slot : Z) (h : handle) (position : Z) : option st :=
  if position <? 0 then None (* xbt_assert(position >= 0) *)
  else
    if hsize h <? position then
      (* incr_used_size(current_position_ - size_); size_ = current_position_; content->erase; content->insert *)
      Some (mkSt (insert (hpath h) position (erase (hpath h) (content s)))
                 (wrap (used s + wrap (position - hsize h))) (cap s)
                 (hset slot (mkH (hpath h) position position) (hs s)))
    else Some (mkSt (content s) (used s) (cap s) (hset slot (mkH (hpath h) (hsize h) position) (hs s))).

(** File::File: look the path up, create an empty file when absent *)
Definition do_open (s : st) (slot path : Z) : st :=
  match lookup path (content s) with
  | Some sz => mkSt (content s) (used s) (cap s) (hset slot (mkH path sz 0) (hs s))
  | None => mkSt (insert path 0 (content s)) (used s) (cap s) (hset slot (mkH path 0 0) (hs s))
  end.

(** File::write(size, write_inside).  [fixed = false] is the code as pinned (the tail is subtracted from used_size_
    but size_ and the content map keep the old size); [fixed = true] is the code after the fix: commit (the file is
    truncated at the position: size_ and the content entry follow). *)
Definition do_write (fixed : bool) (s : st) (slot : Z) (h : handle) (n : Z) (inside : bool) : option (st * Z) :=
  if n =? 0 then Some (s, 0)
  else if cap s <=? used s then Some (s, 0) (* disk full before even starting *)
  else
    let '(s1, h1) :=
      if fixed then
        if negb inside && (hpos h <? hsize h) then
          (mkSt (insert (hpath h) (hpos h) (erase (hpath h) (content s)))
                (wrap (used s - wrap (hsize h - hpos h))) (cap s) (hs s),
           mkH (hpath h) (hpos h) (hpos h))
        else (s, h)
      else
        if inside then (s, h)
        else (mkSt (content s) (wrap (used s - wrap (hsize h - hpos h))) (cap s) (hs s), h) in
    let write_size := n in (* Disk::write performs the whole request *)
    match update_position s1 slot h1 (to_off (hpos h + write_size)) with
    | Some s2 => Some (s2, write_size)
    | None => None
    end.

(** File::read(size) *)
Definition do_read (s : st) (slot : Z) (h : handle) (n : Z) : st * Z :=
  if hsize h =? 0 then (s, 0)
  else
    let to_read := Z.min n (wrap (hsize h - hpos h)) in
    let read_size := to_read in (* Disk::read performs the whole request *)
    (mkSt (content s) (used s) (cap s) (hset slot (mkH (hpath h) (hsize h) (wrap (hpos h + read_size))) (hs s)),
     read_size).

(** File::seek(offset, origin) *)
Definition do_seek (s : st) (slot : Z) (h : handle) (off origin : Z) : option st :=
  if origin =? 0 then update_position s slot h off
  else if origin =? 1 then update_position s slot h (to_off (hpos h + off))
  else if origin =? 2 then update_position s slot h (to_off (hsize h + off))
  else Some s.

(** File::move(fullpath) — const: the File keeps its old path_ *)
Definition do_move (s : st) (h : handle) (path : Z) : st :=
  if path <? 0 then s (* not on the same mount point *)
  else
    match lookup (hpath h) (content s) with
    | Some sz => mkSt (insert path sz (erase (hpath h) (content s))) (used s) (cap s) (hs s)
    | None => s
    end.

(** File::unlink() — const: the File stays open with its old size_ *)
Definition do_unlink (s : st) (h : handle) : st * Z :=
  match lookup (hpath h) (content s) with
  | None => (s, -1)
  | Some _ => (mkSt (erase (hpath h) (content s)) (wrap (used s - hsize h)) (cap s) (hs s), 0)
  end.

(** one operation of the program; result value -2 = the driver ignores the operation (slot busy / not open) *)
Definition step (fixed : bool) (s : st) (o : op) : option (st * Z) :=
  match o with
  | Open slot path =>
      match hget slot (hs s) with
      | Some _ => Some (s, -2)
      | None => Some (do_open s slot path, 0)
      end
  | _ =>
      match hget (slot_of o) (hs s) with
      | None => Some (s, -2)
      | Some h =>
          match o with
          | Open _ _ => Some (s, -2)
          | Write slot n inside => do_write fixed s slot h (wrap n) inside
          | Read slot n => Some (do_read s slot h (wrap n))
          | Seek slot off origin =>
              match do_seek s slot h (to_off off) origin with Some s' => Some (s', 0) | None => None end
          | Move slot path => Some (do_move s h path, 0)
          | Unlink slot => Some (do_unlink s h)
          | Close slot => Some (mkSt (content s) (used s) (cap s) (hdel slot (hs s)), 0)
          end
      end
  end.

Fixpoint run (fixed : bool) (s : st) (ops : list op) : option st :=
  match ops with
  | [] => Some s
  | o :: r => match step fixed s o with Some (s', _) => run fixed s' r | None => None end
  end.

(** FileSystemDiskExt::FileSystemDiskExt + parse_content (distinct paths in the content file) *)
Definition init (c : list (Z * Z)) (capacity : Z) : st := mkSt c (wrap (total c)) capacity [].

(** ------------------------------------------------------------------------------------------------------------
    The discipline under which the accounting theorem holds (state-based, computable):
    the File used by the operation is in sync with the disk: its path_ is in the content map with the File's
    cached size_.  This fails exactly after (a) another File on the same path changed the size, (b) the file was
    moved through this File (path_ is not updated), (c) it was unlinked through this File.  A move onto another
    existing path is excluded as well (std::map::insert keeps the old entry, the moved file vanishes). *)
Definition in_sync (s : st) (h : handle) : bool :=
  match lookup (hpath h) (content s) with Some sz => sz =? hsize h | None => false end.

Definition admissible (s : st) (o : op) : bool :=
  match o with
  | Open _ _ | Close _ => true
  | _ =>
      match hget (slot_of o) (hs s) with
      | None => true (* ignored *)
      | Some h =>
          in_sync s h &&
          match o with
          | Move _ path =>
              (path <? 0) || (path =? hpath h) || match lookup path (content s) with None => true | Some _ => false end
          | _ => true
          end
      end
  end.

Fixpoint all_admissible (fixed : bool) (s : st) (ops : list op) : bool :=
  match ops with
  | [] => true
  | o :: r =>
      admissible s o &&
      match step fixed s o with Some (s', _) => all_admissible fixed s' r | None => true end
  end.

(** ------------------------------------------------------------------------------------------------------------
    Observation of one step, as the driver prints it for the real code, and the oracle that judges it.
    record = [code; n; res; hsize_b; pos_b; fsize_b; used_b; total_b; hsize_a; pos_a; used_a; total_a]
    (hsize/pos = -1 when the slot holds no File; fsize_b = size of the File's path in the content map, -1 if absent) *)
Definition op_code (o : op) : Z :=
  match o with Open _ _ => 0 | Write _ _ _ => 1 | Read _ _ => 2 | Seek _ _ _ => 3 | Move _ _ => 4 | Unlink _ => 5 | Close _ => 6 end.
Definition op_arg (o : op) : Z :=
  match o with Write _ n _ | Read _ n => wrap n | _ => 0 end.

Definition obs_h (s : st) (slot : Z) : Z * Z * Z :=
  match hget slot (hs s) with
  | Some h => (hsize h, hpos h, fsize (hpath h) (content s))
  | None => (-1, -1, -1)
  end.

Definition record (s : st) (o : op) (s' : st) (res : Z) : list Z :=
  let '(sb, pb, fb) := obs_h s (slot_of o) in
  let '(sa, pa, _) := obs_h s' (slot_of o) in
  [op_code o; op_arg o; res; sb; pb; fb; used s; total (content s); sa; pa; used s'; total (content s')].

(* what the property text constrains, on one record *)
Definition step_ok (r : list Z) : bool :=
  match r with
  | [code; n; res; sb; pb; fb; ub; tb; sa; pa; ua; ta] =>
      (ua =? wrap ta)
      && (if (code =? 2) && negb (res =? -2) then (0 <=? res) && (res <=? n) && (res <=? fb - pb) && (pa =? pb + res) else true)
      && (if (code =? 5) && (res =? 0) then (ta =? tb - fb) && (ua =? wrap (ub - fb)) else true)
  | _ => false
  end.

(** ------------------------------------------------------------------------------------------------------------
    Executable entry points.  Input: cap, nfiles, (path size)*, (code slot a b)*.
    Output: per executed step  adm :: record (13 numbers); a step stopped by xbt_assert gives adm :: [-99];
    then -7 :: the final content as (path size)*. *)
Definition decode_op (code slot a b : Z) : op :=
  if code =? 0 then Open slot a
  else if code =? 1 then Write slot a (negb (b =? 0))
  else if code =? 2 then Read slot a
  else if code =? 3 then Seek slot a b
  else if code =? 4 then Move slot a
  else if code =? 5 then Unlink slot
  else Close slot.

Fixpoint decode_ops (fuel : nat) (l : list Z) : list op :=
  match fuel with
  | O => []
  | S f => match l with
           | code :: slot :: a :: b :: r => decode_op code slot a b :: decode_ops f r
           | _ => []
           end
  end.

Definition b2z (b : bool) : Z := if b then 1 else 0.

Fixpoint trace (fixed : bool) (s : st) (ops : list op) : list Z :=
  match ops with
  | [] => -7 :: flat_pairs (content s)
  | o :: r =>
      match step fixed s o with
      | Some (s', res) => (b2z (admissible s o) :: record s o s' res) ++ trace fixed s' r
      | None => [b2z (admissible s o); -99]
      end
  end.

Definition run_gen (fixed : bool) (l : list Z) : list Z :=
  match l with
  | capacity :: nf :: r =>
      let '(c, rest) := take_pairs (Z.to_nat nf) r in
      trace fixed (init c capacity) (decode_ops (length rest) rest)
  | _ => []
  end.
Definition run_c46 := run_gen true.
Definition run_c46_pinned := run_gen false.

(* oracle on a sequence of 12-number records: [1] when all pass, else [0; index of the first rejected record] *)
Fixpoint oracle_from (i : Z) (fuel : nat) (l : list Z) : list Z :=
  match fuel with
  | O => [1]
  | S f =>
      match l with
      | [] => [1]
      | _ => let '(r, rest) := take_n 12 l in
             if step_ok r then oracle_from (i + 1) f rest else [0; i]
      end
  end.
Definition run_c46_oracle (l : list Z) : list Z := oracle_from 0 (length l) l.
