(** C46 — proofs about the multi-actor (atomic segment) model of the file-system plugin (FileSystemConc.v). *)
From SGV Require Import Base.Tactics Plugins.FileSystem Plugins.FileSystemProofs Plugins.FileSystemConc.
Local Open Scope Z_scope.

(** * an operation whose segments run without interruption is the single-actor [step] *)
Lemma flush_app : forall l1 l2 s p, flush s p (l1 ++ l2) = flush (flush s p l1) p l2.
Proof. induction l1 as [|x l1 IH]; intros l2 s p; cbn [flush app]; [reflexivity|apply IH]. Qed.

Lemma up_atoms_refines : forall s slot h position,
  update_position s slot h position =
  match up_atoms h position with
  | Some (h2, l) => Some (flush (set_h s slot h2) (hpath h) l)
  | None => None
  end.
Proof.
  intros s slot h position. unfold update_position, up_atoms. destruct (position <? 0); [reflexivity|].
  destruct (hsize h <? position); reflexivity.
Qed.

Theorem decide_refines_step : forall s o,
  step true s o = match decide s o with
                  | Some (s', r, l) => Some (flush s' (op_path s o) l, r)
                  | None => None
                  end.
Proof.
  intros s o. unfold op_path.
  destruct o as [slot path|slot n inside|slot n|slot off origin|slot path|slot|slot]; cbn [step decide slot_of];
    destruct (hget slot (hs s)) as [h|] eqn:Eg; try reflexivity.
  - (* write *)
    unfold do_write, dec_write. destruct (wrap n =? 0); [reflexivity|]. destruct (cap s <=? used s); [reflexivity|].
    destruct (negb inside && (hpos h <? hsize h)).
    + rewrite up_atoms_refines. cbn [hpath].
      destruct (up_atoms (mkH (hpath h) (hpos h) (hpos h)) (to_off (hpos h + wrap n))) as [[h2 post]|]; [|reflexivity].
      rewrite flush_app. reflexivity.
    + rewrite up_atoms_refines. destruct (up_atoms h (to_off (hpos h + wrap n))) as [[h2 post]|]; reflexivity.
  - (* read *)
    destruct (do_read s slot h (wrap n)) as [s' r]. reflexivity.
  - (* seek *)
    unfold do_seek, dec_seek.
    destruct (origin =? 0); [rewrite up_atoms_refines; destruct (up_atoms h (to_off off)) as [[h2 l]|]; reflexivity|].
    destruct (origin =? 1);
      [rewrite up_atoms_refines; destruct (up_atoms h (to_off (hpos h + to_off off))) as [[h2 l]|]; reflexivity|].
    destruct (origin =? 2);
      [rewrite up_atoms_refines; destruct (up_atoms h (to_off (hsize h + to_off off))) as [[h2 l]|]; reflexivity|].
    reflexivity.
  - (* unlink *)
    unfold do_unlink, dec_unlink. destruct (lookup (hpath h) (content s)); reflexivity.
Qed.

Lemma up_atoms_len : forall h position h2 l, up_atoms h position = Some (h2, l) -> (length l <= 2)%nat.
Proof.
  intros h position h2 l H. unfold up_atoms in H. destruct (position <? 0); [discriminate|].
  destruct (hsize h <? position); inv H; cbn; lia.
Qed.

Lemma decide_len : forall s o s' r l, decide s o = Some (s', r, l) -> (length l <= 4)%nat.
Proof.
  intros s o s' r l H.
  destruct o as [slot path|slot n inside|slot n|slot off origin|slot path|slot|slot]; cbn [decide slot_of] in H;
    destruct (hget slot (hs s)) as [h|] eqn:Eg; try (inv H; cbn; lia).
  - unfold dec_write in H. destruct (wrap n =? 0); [inv H; cbn; lia|]. destruct (cap s <=? used s); [inv H; cbn; lia|].
    destruct (negb inside && (hpos h <? hsize h)).
    + destruct (up_atoms (mkH (hpath h) (hpos h) (hpos h)) (to_off (hpos h + wrap n))) as [[h2 post]|] eqn:Eu; [|discriminate].
      inv H. apply up_atoms_len in Eu. cbn [app length]. lia.
    + destruct (up_atoms h (to_off (hpos h + wrap n))) as [[h2 post]|] eqn:Eu; [|discriminate].
      inv H. apply up_atoms_len in Eu. cbn [app length]. lia.
  - destruct (do_read s slot h (wrap n)) as [s1 r1]. inv H. cbn; lia.
  - unfold dec_seek in H.
    destruct (origin =? 0);
      [destruct (up_atoms h (to_off off)) as [[h2 l2]|] eqn:Eu; [|discriminate]; inv H; apply up_atoms_len in Eu; lia|].
    destruct (origin =? 1);
      [destruct (up_atoms h (to_off (hpos h + to_off off))) as [[h2 l2]|] eqn:Eu; [|discriminate]; inv H;
       apply up_atoms_len in Eu; lia|].
    destruct (origin =? 2);
      [destruct (up_atoms h (to_off (hsize h + to_off off))) as [[h2 l2]|] eqn:Eu; [|discriminate]; inv H;
       apply up_atoms_len in Eu; lia|].
    inv H. cbn; lia.
  - unfold dec_unlink in H. destruct (lookup (hpath h) (content s)); inv H; cbn; lia.
Qed.

(** an actor that is alone on the disk: first segment + its updates = one step of the single-actor model *)
Theorem solo_refines_step : forall s a o,
  mrun (mkM s []) (solo a o) = match step true s o with Some (s', _) => Some (mkM s' []) | None => None end.
Proof.
  intros s a o. rewrite decide_refines_step. unfold solo. cbn [mrun mstep busy pend ms].
  destruct (decide s o) as [[[s' r] l]|] eqn:Ed; [|reflexivity].
  pose proof (decide_len _ _ _ _ _ Ed) as Hl.
  destruct l as [|x1 [|x2 [|x3 [|x4 [|x5 l]]]]]; cbn [length] in Hl; try lia;
    repeat (cbn [mrun mstep busy ptick pend ms orb flush]; rewrite ?Z.eqb_refl); reflexivity.
Qed.

(** * the invariant of the interleaved executions *)
Ltac spl := repeat match goal with |- _ /\ _ => split end.
Definition aok (x : atom) : Prop := match x with ASet v => 0 <= v < W | _ => True end.
Definition eok (e : Z * Z * list atom) : Prop := snd e <> [] /\ Forall aok (snd e).

(* used size = total of the files - what the operations in flight still owe; the Files in flight are distinct *)
Definition MInv (M : mst) : Prop :=
  nodup (content (ms M)) /\ ranged (content (ms M)) /\ hsok (hs (ms M))
  /\ used (ms M) = wrap (total (content (ms M)) - psum (content (ms M)) (pend M))
  /\ NoDup (paths_of (pend M)) /\ Forall eok (pend M).

Lemma cur_frame : forall q c c', lookup q c' = lookup q c -> cur q c' = cur q c.
Proof. intros q c c' H. unfold cur. rewrite H. reflexivity. Qed.

Lemma psum_frame : forall pd c c',
  (forall q, In q (paths_of pd) -> lookup q c' = lookup q c) -> psum c' pd = psum c pd.
Proof.
  induction pd as [|[[b p] l] r IH]; intros c c' H; cbn [psum]; [reflexivity|].
  rewrite (cur_frame p c c') by (apply H; left; reflexivity).
  rewrite (IH c c') by (intros q Hq; apply H; right; exact Hq). reflexivity.
Qed.

Lemma do_atom_spec : forall s p x l,
  nodup (content s) -> ranged (content s) -> aok x ->
  nodup (content (do_atom s p x)) /\ ranged (content (do_atom s p x))
  /\ hs (do_atom s p x) = hs s /\ cap (do_atom s p x) = cap s
  /\ (forall q, q <> p -> lookup q (content (do_atom s p x)) = lookup q (content s))
  /\ exists d, (forall T, used s = wrap T -> used (do_atom s p x) = wrap (T + d))
       /\ total (content (do_atom s p x)) - pot (cur p (content (do_atom s p x))) l
          = total (content s) - pot (cur p (content s)) (x :: l) + d.
Proof.
  intros s p x l Hn Hr Hx. destruct x as [x|x|v|]; cbn [do_atom content used hs cap pot].
  - repeat split; try assumption; try reflexivity. exists x. split; [|lia].
    intros T HT. rewrite HT. apply wrap_add_l.
  - repeat split; try assumption; try reflexivity. exists (- x). split; [|lia].
    intros T HT. rewrite HT. rewrite wrap_sub_l. f_equal; try lia.
  - cbn [aok] in Hx.
    destruct (replace_entry p v (content s) Hn Hr Hx) as (Hn' & Hr' & Hl' & Ht' & Ho').
    repeat split; try assumption; try reflexivity. exists 0. split.
    + intros T HT. rewrite Z.add_0_r. exact HT.
    + unfold cur at 1. rewrite Hl'. rewrite Ht'. unfold cur. lia.
  - repeat split; try reflexivity.
    + apply nodup_erase; exact Hn.
    + apply ranged_erase; exact Hr.
    + intros q Hq. apply lookup_erase_other. exact Hq.
    + exists 0. split.
      * intros T HT. rewrite Z.add_0_r. exact HT.
      * unfold cur at 1. rewrite lookup_erase_same. rewrite total_erase by exact Hn. unfold cur. lia.
Qed.

Lemma ptick_spec : forall a pd s s' pd',
  ptick a s pd = (s', pd') -> nodup (content s) -> ranged (content s) -> NoDup (paths_of pd) -> Forall eok pd ->
  nodup (content s') /\ ranged (content s') /\ hs s' = hs s /\ cap s' = cap s
  /\ Forall eok pd' /\ NoDup (paths_of pd')
  /\ (forall q, In q (paths_of pd') -> In q (paths_of pd))
  /\ (forall q, ~ In q (paths_of pd) -> lookup q (content s') = lookup q (content s))
  /\ exists d, (forall T, used s = wrap T -> used s' = wrap (T + d))
       /\ total (content s') - psum (content s') pd' = total (content s) - psum (content s) pd + d.
Proof.
  intros a. induction pd as [|[[b p] l] r IH]; intros s s' pd' Hpt Hn Hr Hnd Hok; cbn [ptick] in Hpt.
  - inv Hpt. spl; try assumption; try reflexivity; try (constructor; fail); try (intros q Hq; exact Hq).
    exists 0. split; [|cbn [psum]; lia].
    intros T HT. rewrite Z.add_0_r. exact HT.
  - cbn [paths_of map fst snd] in Hnd. inv Hnd. inv Hok. rename H1 into Hpr, H2 into Hndr, H3 into He, H4 into Hokr.
    fold (paths_of r) in Hpr, Hndr.
    destruct (b =? a) eqn:Eb.
    + destruct He as [Hne Hal]. cbn [snd] in Hne, Hal.
      destruct l as [|x l']; [congruence|]. inv Hal. rename H1 into Hx, H2 into Hal'.
      assert (Hfr : forall s1, (forall q, q <> p -> lookup q (content s1) = lookup q (content s)) ->
                    psum (content s1) r = psum (content s) r).
      { intros s1 H1. apply psum_frame. intros q Hq. apply H1. intro E. subst q. exact (Hpr Hq). }
      destruct (do_atom_spec s p x l' Hn Hr Hx) as (Hn' & Hr' & Hh' & Hc' & Ho' & d & Hu' & Ht').
      destruct l' as [|y l''].
      * inv Hpt. repeat split; try assumption.
        -- intros q Hq. right. exact Hq.
        -- intros q Hq. apply Ho'. intro E. apply Hq. left. symmetry. exact E.
        -- exists d. split; [exact Hu'|]. cbn [psum]. rewrite (Hfr _ Ho'). cbn [pot] in Ht'. cbn [pot]. lia.
      * inv Hpt. repeat split; try assumption.
        -- constructor; [|exact Hokr]. split; [cbn [snd]; discriminate|cbn [snd]; exact Hal'].
        -- cbn [paths_of map fst snd]. constructor; assumption.
        -- intros q Hq. exact Hq.
        -- intros q Hq. apply Ho'. intro E. apply Hq. left. symmetry. exact E.
        -- exists d. split; [exact Hu'|]. cbn [psum]. rewrite (Hfr _ Ho'). lia.
    + destruct (ptick a s r) as [s1 r1] eqn:Ept. inv Hpt.
      destruct (IH s s' r1 Ept Hn Hr Hndr Hokr) as (Hn' & Hr' & Hh' & Hc' & Hok' & Hnd' & Hin' & Ho' & d & Hu' & Ht').
      repeat split; try assumption.
      * constructor; assumption.
      * cbn [paths_of map fst snd]. constructor; [|exact Hnd']. intro Hq. apply Hpr. apply Hin'. exact Hq.
      * cbn [paths_of map fst snd]. intros q [Hq|Hq]; [left; exact Hq|right; apply Hin'; exact Hq].
      * intros q Hq. apply Ho'. intro Hq'. apply Hq. right. exact Hq'.
      * exists d. split; [exact Hu'|]. cbn [psum]. rewrite (cur_frame p (content s) (content s')) by (apply Ho'; exact Hpr). lia.
Qed.

Lemma up_atoms_spec : forall h position h2 l,
  hok h -> position < W -> up_atoms h position = Some (h2, l) ->
  hok h2 /\ hpath h2 = hpath h /\ Forall aok l /\ pot (hsize h) l = 0.
Proof.
  intros h position h2 l (Hp & Hs) HpW H. unfold up_atoms in H.
  destruct (position <? 0) eqn:E0; [discriminate|]. destruct (hsize h <? position) eqn:E1; inv H.
  - repeat split; cbn [hpos hsize hpath]; try lia.
    + repeat constructor; cbn [aok]; lia.
    + cbn [pot]. rewrite wrap_small by lia. lia.
  - repeat split; cbn [hpos hsize hpath]; try lia.
    constructor.
Qed.

Lemma decide_spec : forall s o s' r l,
  nodup (content s) -> ranged (content s) -> hsok (hs s) -> admissible s o = true -> decide s o = Some (s', r, l) ->
  nodup (content s') /\ ranged (content s') /\ hsok (hs s') /\ used s' = used s
  /\ total (content s') = total (content s)
  /\ (forall q, ~ In q (op_paths s o) -> lookup q (content s') = lookup q (content s))
  /\ Forall aok l /\ pot (cur (op_path s o) (content s')) l = 0.
Proof.
  intros s o s' r l Hn Hr Hh Hadm Hd. unfold op_paths, op_path.
  destruct o as [slot path|slot n inside|slot n|slot off origin|slot path|slot|slot];
    cbn [decide slot_of] in Hd; cbn [admissible slot_of] in Hadm; cbn [slot_of].
  - (* open *)
    destruct (hget slot (hs s)) as [h|] eqn:Eg; inv Hd; [repeat split; try assumption; try reflexivity; constructor|].
    unfold do_open. destruct (lookup path (content s)) as [sz|] eqn:El; cbn [content used hs].
    + repeat split; try assumption; try reflexivity; [|constructor].
      apply hsok_hset; [|exact Hh]. pose proof (ranged_lookup _ _ _ Hr El). unfold hok. cbn [hpos hsize]. lia.
    + rewrite insert_fresh by exact El. repeat split; try reflexivity; [| | | |constructor].
      * apply nodup_cons; assumption.
      * constructor; [cbn [snd]; rewrite W_val; lia|exact Hr].
      * apply hsok_hset; [|exact Hh]. unfold hok. cbn [hpos hsize]. rewrite W_val. lia.
      * intros q Hq. cbn [lookup]. destruct (path =? q) eqn:E; [|reflexivity].
        exfalso. apply Hq. right. left. lia.
  - (* write *)
    destruct (hget slot (hs s)) as [h|] eqn:Eg; [|inv Hd; repeat split; try assumption; try reflexivity; constructor].
    rewrite andb_true_r in Hadm. apply in_sync_synced in Hadm. unfold synced in Hadm.
    pose proof (hsok_hget _ _ _ Hh Eg) as Hok. pose proof Hok as (Hp & Hs).
    unfold dec_write in Hd.
    destruct (wrap n =? 0); [inv Hd; repeat split; try assumption; try reflexivity; constructor|].
    destruct (cap s <=? used s); [inv Hd; repeat split; try assumption; try reflexivity; constructor|].
    destruct (negb inside && (hpos h <? hsize h)) eqn:Et.
    + apply andb_true_iff in Et. destruct Et as [_ Et].
      destruct (up_atoms (mkH (hpath h) (hpos h) (hpos h)) (to_off (hpos h + wrap n))) as [[h2 post]|] eqn:Eu; [|discriminate].
      inv Hd. apply up_atoms_spec in Eu; [|unfold hok; cbn [hpos hsize]; lia|apply to_off_lt_W].
      destruct Eu as (Hok2 & Hp2 & Hal & Hpot0). cbn [hsize] in Hpot0.
      unfold set_h. cbn [content used hs]. repeat split; try assumption; try reflexivity.
      * apply hsok_hset; assumption.
      * constructor; [exact I|]. constructor; [cbn [aok]; lia|exact Hal].
      * unfold cur. rewrite Hadm. cbn [app pot]. rewrite wrap_small by lia. lia.
    + destruct (up_atoms h (to_off (hpos h + wrap n))) as [[h2 post]|] eqn:Eu; [|discriminate].
      inv Hd. apply up_atoms_spec in Eu; [|exact Hok|apply to_off_lt_W].
      destruct Eu as (Hok2 & Hp2 & Hal & Hpot0).
      unfold set_h. cbn [content used hs app]. repeat split; try assumption; try reflexivity.
      * apply hsok_hset; assumption.
      * unfold cur. rewrite Hadm. exact Hpot0.
  - (* read *)
    destruct (hget slot (hs s)) as [h|] eqn:Eg; [|inv Hd; repeat split; try assumption; try reflexivity; constructor].
    pose proof (hsok_hget _ _ _ Hh Eg) as (Hp & Hs).
    destruct (do_read s slot h (wrap n)) as [s1 r1] eqn:Er. inv Hd.
    unfold do_read in Er. destruct (hsize h =? 0) eqn:E0; inv Er;
      [repeat split; try assumption; try reflexivity; constructor|].
    cbn [content used hs]. repeat split; try assumption; try reflexivity; [|constructor].
    apply hsok_hset; [|exact Hh]. unfold hok. cbn [hpos hsize].
    rewrite (wrap_small (hsize h - hpos h)) by lia.
    pose proof (wrap_range n) as Hn0. rewrite wrap_small by lia. lia.
  - (* seek *)
    destruct (hget slot (hs s)) as [h|] eqn:Eg; [|inv Hd; repeat split; try assumption; try reflexivity; constructor].
    rewrite andb_true_r in Hadm. apply in_sync_synced in Hadm. unfold synced in Hadm.
    pose proof (hsok_hget _ _ _ Hh Eg) as Hok.
    assert (Hgo : forall position, position < W ->
              match up_atoms h position with Some (h2, l0) => Some (set_h s slot h2, 0, l0) | None => None end = Some (s', r, l) ->
              nodup (content s') /\ ranged (content s') /\ hsok (hs s') /\ used s' = used s
              /\ total (content s') = total (content s)
              /\ (forall q, ~ In q [hpath h] -> lookup q (content s') = lookup q (content s))
              /\ Forall aok l /\ pot (cur (hpath h) (content s')) l = 0).
    { intros position HpW H. destruct (up_atoms h position) as [[h2 l0]|] eqn:Eu; [|discriminate]. inv H.
      apply up_atoms_spec in Eu; [|exact Hok|exact HpW].
      destruct Eu as (Hok2 & Hp2 & Hal & Hpot0).
      unfold set_h. cbn [content used hs]. repeat split; try assumption; try reflexivity.
      - apply hsok_hset; assumption.
      - unfold cur. rewrite Hadm. exact Hpot0. }
    unfold dec_seek in Hd.
    destruct (origin =? 0); [apply Hgo in Hd; [exact Hd|apply to_off_lt_W]|].
    destruct (origin =? 1); [apply Hgo in Hd; [exact Hd|apply to_off_lt_W]|].
    destruct (origin =? 2); [apply Hgo in Hd; [exact Hd|apply to_off_lt_W]|].
    inv Hd. repeat split; try assumption; try reflexivity. constructor.
  - (* move *)
    destruct (hget slot (hs s)) as [h|] eqn:Eg; [|inv Hd; repeat split; try assumption; try reflexivity; constructor].
    apply andb_true_iff in Hadm. destruct Hadm as [Hsy Hdst]. apply in_sync_synced in Hsy. unfold synced in Hsy.
    inv Hd. unfold do_move. destruct (path <? 0) eqn:Ep; [repeat split; try assumption; try reflexivity; constructor|].
    rewrite Hsy. pose proof (ranged_lookup _ _ _ Hr Hsy) as Hrg.
    cbn [orb] in Hdst. destruct (path =? hpath h) eqn:Esame.
    + assert (path = hpath h) by lia. subst path.
      destruct (replace_entry (hpath h) (hsize h) (content s) Hn Hr Hrg) as (Hn' & Hr' & Hl' & Ht' & Ho').
      rewrite Hsy in Ht'. cbn [content used hs]. repeat split; try assumption; try reflexivity; [lia| |constructor].
      intros q Hq. apply Ho'. intro E. apply Hq. left. symmetry. exact E.
    + cbn [orb] in Hdst. destruct (lookup path (content s)) eqn:El; [discriminate|].
      assert (Hne : path <> hpath h) by lia.
      rewrite insert_fresh by (rewrite lookup_erase_other by exact Hne; exact El).
      cbn [content used hs total]. repeat split; try assumption; try reflexivity; [| | | |constructor].
      * apply nodup_cons; [rewrite lookup_erase_other by exact Hne; exact El|apply nodup_erase; exact Hn].
      * constructor; [exact Hrg|apply ranged_erase; exact Hr].
      * rewrite total_erase by exact Hn. rewrite Hsy. lia.
      * intros q Hq. cbn [lookup]. destruct (path =? q) eqn:E; [exfalso; apply Hq; right; left; lia|].
        apply lookup_erase_other. intro E2. apply Hq. left. symmetry. exact E2.
  - (* unlink *)
    destruct (hget slot (hs s)) as [h|] eqn:Eg; [|inv Hd; repeat split; try assumption; try reflexivity; constructor].
    rewrite andb_true_r in Hadm. apply in_sync_synced in Hadm. unfold synced in Hadm.
    unfold dec_unlink in Hd. rewrite Hadm in Hd. inv Hd.
    repeat split; try assumption; try reflexivity; [repeat constructor|].
    unfold cur. rewrite Hadm. cbn [pot]. lia.
  - (* close *)
    destruct (hget slot (hs s)) as [h|] eqn:Eg; inv Hd; cbn [content used hs];
      repeat split; try assumption; try reflexivity; try constructor.
    apply hsok_hdel. exact Hh.
Qed.

Lemma mem_In : forall x l, mem x l = true <-> In x l.
Proof.
  intros x l. induction l as [|y r IH]; cbn [mem In]; [split; [discriminate|tauto]|].
  rewrite orb_true_iff, IH. split; intros [H|H]; [left; lia|right; exact H|left; lia|right; exact H].
Qed.
Lemma disjoint_spec : forall l1 l2, disjoint l1 l2 = true -> forall x, In x l1 -> ~ In x l2.
Proof.
  induction l1 as [|y r IH]; intros l2 H x Hx; cbn [disjoint In] in *; [tauto|].
  apply andb_true_iff in H. destruct H as [H1 H2]. destruct Hx as [Hx|Hx].
  - subst y. intro Hin. apply mem_In in Hin. rewrite Hin in H1. discriminate.
  - apply (IH l2 H2 x Hx).
Qed.

(** every event of an admissible interleaving preserves the invariant *)
Theorem mstep_inv : forall M e M' r, MInv M -> madmissible M e = true -> mstep M e = Some (M', r) -> MInv M'.
Proof.
  intros [s pd] e M' r (Hn & Hr & Hh & Hu & Hnd & Hok) Hadm Hst. cbn [ms pend] in *.
  destruct e as [a o|a]; cbn [mstep madmissible ms pend] in Hst, Hadm.
  - destruct (busy a pd) eqn:Eb; [inv Hst; unfold MInv; cbn [ms pend]; tauto|].
    cbn [orb] in Hadm. apply andb_true_iff in Hadm. destruct Hadm as [Ha Hdis].
    pose proof (disjoint_spec _ _ Hdis) as Hd.
    destruct (decide s o) as [[[s1 r1] l]|] eqn:Ed; [|discriminate].
    destruct (decide_spec _ _ _ _ _ Hn Hr Hh Ha Ed) as (Hn' & Hr' & Hh' & Hu' & Ht' & Ho' & Hal & Hpot).
    assert (Hps : psum (content s1) pd = psum (content s) pd).
    { apply psum_frame. intros q Hq. apply Ho'. intro Hin. exact (Hd q Hin Hq). }
    destruct l as [|x l'].
    + inv Hst. unfold MInv. cbn [ms pend]. repeat split; try assumption. rewrite Hu', Ht', Hps. exact Hu.
    + inv Hst. unfold MInv. cbn [ms pend]. repeat split; try assumption.
      * cbn [psum]. rewrite Hpot, Hu', Ht', Hps. rewrite Hu. f_equal.
      * cbn [paths_of map fst snd]. constructor; [|exact Hnd]. apply Hd. unfold op_paths. left. reflexivity.
      * constructor; [|exact Hok]. split; [cbn [snd]; discriminate|cbn [snd]; exact Hal].
  - destruct (busy a pd) eqn:Eb; [|inv Hst; unfold MInv; cbn [ms pend]; tauto].
    destruct (ptick a s pd) as [s1 pd1] eqn:Ept. inv Hst.
    destruct (ptick_spec _ _ _ _ _ Ept Hn Hr Hnd Hok) as (Hn' & Hr' & Hh' & Hc' & Hok' & Hnd' & Hin' & Ho' & d & Hu' & Ht').
    unfold MInv. cbn [ms pend]. repeat split; try assumption.
    + rewrite Hh'. exact Hh.
    + rewrite (Hu' _ Hu). f_equal. lia.
Qed.

Lemma minit_inv : forall c capacity, nodup c -> ranged c -> MInv (minit c capacity).
Proof.
  intros c k Hn Hr. unfold MInv, minit, init. cbn [ms pend content used hs psum paths_of map].
  repeat split; try assumption; try constructor. f_equal. lia.
Qed.

Theorem mrun_inv : forall es M M',
  MInv M -> all_madmissible M es = true -> mrun M es = Some M' -> MInv M'.
Proof.
  induction es as [|e r IH]; intros M M' HI Hadm Hrun; cbn [mrun all_madmissible] in *.
  - inv Hrun. exact HI.
  - apply andb_true_iff in Hadm. destruct Hadm as [Ha Hrest].
    destruct (mstep M e) as [[M1 res]|] eqn:Est; [|discriminate].
    apply (IH M1 M'); [eapply mstep_inv; eassumption|exact Hrest|exact Hrun].
Qed.

(* when nothing is in flight the multi-actor invariant is the single-actor one *)
Lemma MInv_quiescent : forall M, MInv M -> pend M = [] -> Inv (ms M).
Proof.
  intros M (Hn & Hr & Hh & Hu & _) Hp. rewrite Hp in Hu. cbn [psum] in Hu. rewrite Z.sub_0_r in Hu.
  unfold Inv. tauto.
Qed.

(** used size = total size of the files, whatever the interleaving of the segments of the actors' operations *)
Theorem concurrent_used_eq_sum : forall c capacity es M',
  nodup c -> ranged c ->
  all_madmissible (minit c capacity) es = true ->
  mrun (minit c capacity) es = Some M' ->
  used (ms M') = wrap (total (content (ms M')) - psum (content (ms M')) (pend M'))
  /\ (pend M' = [] ->
      used (ms M') = wrap (total (content (ms M')))
      /\ (total (content (ms M')) < W -> used (ms M') = total (content (ms M')))).
Proof.
  intros c k es M' Hn Hr Hadm Hrun.
  pose proof (mrun_inv es _ _ (minit_inv c k Hn Hr) Hadm Hrun) as HI.
  split; [destruct HI as (_ & _ & _ & Hu & _); exact Hu|].
  intro Hp. destruct (MInv_quiescent _ HI Hp) as (Hu & _ & Hrg & _).
  split; [exact Hu|]. intro Hlt. rewrite Hu. apply wrap_small. split; [|exact Hlt].
  clear - Hrg. induction (content (ms M')) as [|[p v] r IH]; cbn [total]; [lia|].
  inv Hrg. cbn [snd] in H1. specialize (IH H2). lia.
Qed.
