(** C46 — proofs about the model of the file-system plugin (FileSystem.v). *)
From SGV Require Import Base.Tactics Plugins.FileSystem.
Local Open Scope Z_scope.

(** * 64-bit arithmetic *)
Lemma W_pos : 0 < W. Proof. reflexivity. Qed.
Lemma W_val : W = 18446744073709551616. Proof. reflexivity. Qed.
Lemma wrap_range : forall x, 0 <= wrap x < W.
Proof. intro x. unfold wrap. apply Z.mod_pos_bound. apply W_pos. Qed.
Lemma wrap_small : forall x, 0 <= x < W -> wrap x = x.
Proof. intros x Hx. unfold wrap. apply Z.mod_small. exact Hx. Qed.
Lemma wrap_add_l : forall a b, wrap (wrap a + b) = wrap (a + b).
Proof. intros a b. unfold wrap. apply Zplus_mod_idemp_l. Qed.
Lemma wrap_add_r : forall a b, wrap (a + wrap b) = wrap (a + b).
Proof. intros a b. unfold wrap. apply Zplus_mod_idemp_r. Qed.
Lemma wrap_sub_l : forall a b, wrap (wrap a - b) = wrap (a - b).
Proof. intros a b. unfold wrap. apply Zminus_mod_idemp_l. Qed.
Lemma wrap_sub_r : forall a b, wrap (a - wrap b) = wrap (a - b).
Proof. intros a b. unfold wrap. apply Zminus_mod_idemp_r. Qed.
Lemma to_off_range : forall x, - 2 ^ 63 <= to_off x < 2 ^ 63.
Proof.
  intro x. unfold to_off. pose proof (wrap_range x) as Hw. rewrite W_val in Hw.
  destruct (wrap x <? 2 ^ 63) eqn:E; rewrite ?W_val; lia.
Qed.
Lemma to_off_lt_W : forall x, to_off x < W.
Proof. intro x. pose proof (to_off_range x). rewrite W_val. lia. Qed.

(** * the content map *)
Definition nodup (c : list (Z * Z)) : Prop := NoDup (map fst c).
Definition ranged (c : list (Z * Z)) : Prop := Forall (fun e => 0 <= snd e < W) c.

Lemma lookup_None_notin : forall p c, lookup p c = None <-> ~ In p (map fst c).
Proof.
  intros p c. induction c as [|[q s] r IH]; cbn [lookup map fst In].
  - tauto.
  - destruct (q =? p) eqn:E.
    + split; [discriminate|]. intro H. exfalso. apply H. left. lia.
    + rewrite IH. split; intro H.
      * intros [H1|H1]; [lia|tauto].
      * intro H1. apply H. right. exact H1.
Qed.
Lemma lookup_Some_in : forall p c s, lookup p c = Some s -> In (p, s) c.
Proof.
  intros p c s. induction c as [|[q t] r IH]; cbn [lookup In]; [discriminate|].
  destruct (q =? p) eqn:E; intro H.
  - inv H. left. f_equal. lia.
  - right. apply IH. exact H.
Qed.
Lemma erase_keys : forall p q c, In q (map fst (erase p c)) -> In q (map fst c) /\ q <> p.
Proof.
  intros p q c. induction c as [|[k s] r IH]; cbn [erase map fst In]; [tauto|].
  destruct (k =? p) eqn:E.
  - intro H. apply IH in H. tauto.
  - cbn [map fst In]. intros [H|H]; [split; [left; exact H|lia]|]. apply IH in H. tauto.
Qed.
Lemma erase_notin : forall p c, ~ In p (map fst c) -> erase p c = c.
Proof.
  intros p c. induction c as [|[k s] r IH]; cbn [erase map fst In]; [reflexivity|].
  intro H. destruct (k =? p) eqn:E; [exfalso; apply H; left; lia|].
  f_equal. apply IH. tauto.
Qed.
Lemma lookup_erase_same : forall p c, lookup p (erase p c) = None.
Proof.
  intros p c. apply lookup_None_notin. intro H. apply erase_keys in H. lia.
Qed.
Lemma lookup_erase_other : forall p q c, q <> p -> lookup q (erase p c) = lookup q c.
Proof.
  intros p q c Hne. induction c as [|[k s] r IH]; cbn [erase lookup]; [reflexivity|].
  destruct (k =? p) eqn:E.
  - rewrite IH. destruct (k =? q) eqn:E2; [lia|reflexivity].
  - cbn [lookup]. rewrite IH. reflexivity.
Qed.
Lemma nodup_erase : forall p c, nodup c -> nodup (erase p c).
Proof.
  intros p c. unfold nodup. induction c as [|[k s] r IH]; cbn [erase map fst]; intro H; [constructor|].
  inv H. destruct (k =? p) eqn:E; [apply IH; assumption|].
  cbn [map fst]. constructor; [|apply IH; assumption].
  intro Hin. apply erase_keys in Hin. tauto.
Qed.
Lemma ranged_erase : forall p c, ranged c -> ranged (erase p c).
Proof.
  intros p c. unfold ranged. induction c as [|[k s] r IH]; cbn [erase]; intro H; [constructor|].
  inv H. destruct (k =? p); [apply IH; assumption|]. constructor; [assumption|apply IH; assumption].
Qed.
Lemma total_erase : forall p c, nodup c ->
  total (erase p c) = total c - match lookup p c with Some s => s | None => 0 end.
Proof.
  intros p c. unfold nodup. induction c as [|[k s] r IH]; cbn [erase total lookup map fst]; intro H; [reflexivity|].
  inv H. destruct (k =? p) eqn:E.
  - assert (k = p) by lia. subst k. rewrite erase_notin by assumption. lia.
  - cbn [total]. rewrite IH by assumption. lia.
Qed.
Lemma insert_fresh : forall p s c, lookup p c = None -> insert p s c = (p, s) :: c.
Proof. intros p s c H. unfold insert. rewrite H. reflexivity. Qed.
Lemma nodup_cons : forall p s c, lookup p c = None -> nodup c -> nodup ((p, s) :: c).
Proof.
  intros p s c H Hn. unfold nodup. cbn [map fst]. constructor; [|exact Hn]. apply lookup_None_notin. exact H.
Qed.
Lemma ranged_lookup : forall p c s, ranged c -> lookup p c = Some s -> 0 <= s < W.
Proof.
  intros p c s Hr Hl. apply lookup_Some_in in Hl. unfold ranged in Hr. rewrite Forall_forall in Hr.
  apply Hr in Hl. exact Hl.
Qed.

(* replace the entry of [p] (erase + insert, as update_position does) *)
Lemma replace_entry : forall p v c, nodup c -> ranged c -> 0 <= v < W ->
  let c' := insert p v (erase p c) in
  nodup c' /\ ranged c' /\ lookup p c' = Some v
  /\ total c' = total c - match lookup p c with Some s => s | None => 0 end + v
  /\ (forall q, q <> p -> lookup q c' = lookup q c).
Proof.
  intros p v c Hn Hr Hv. cbn zeta. rewrite insert_fresh by apply lookup_erase_same.
  repeat split.
  - apply nodup_cons; [apply lookup_erase_same|apply nodup_erase; exact Hn].
  - constructor; [exact Hv|apply ranged_erase; exact Hr].
  - cbn [lookup]. rewrite Z.eqb_refl. reflexivity.
  - cbn [total]. rewrite total_erase by exact Hn. lia.
  - intros q Hq. cbn [lookup]. destruct (p =? q) eqn:E; [lia|]. apply lookup_erase_other. exact Hq.
Qed.

(** * handles *)
Definition hok (h : handle) : Prop := 0 <= hpos h <= hsize h /\ hsize h < W.
Definition hsok (l : list (Z * handle)) : Prop := Forall (fun sh => hok (snd sh)) l.

Lemma hsok_hdel : forall s l, hsok l -> hsok (hdel s l).
Proof.
  intros s l. unfold hsok. induction l as [|[t h] r IH]; cbn [hdel]; intro H; [constructor|].
  inv H. destruct (t =? s); [apply IH; assumption|]. constructor; [assumption|apply IH; assumption].
Qed.
Lemma hsok_hset : forall s h l, hok h -> hsok l -> hsok (hset s h l).
Proof. intros s h l Hh Hl. unfold hset. constructor; [exact Hh|apply hsok_hdel; exact Hl]. Qed.
Lemma hsok_hget : forall s h l, hsok l -> hget s l = Some h -> hok h.
Proof.
  intros s h l. unfold hsok. induction l as [|[t k] r IH]; cbn [hget]; intros H Hg; [discriminate|].
  inv H. destruct (t =? s); [inv Hg; assumption|]. apply IH; assumption.
Qed.
Lemma hget_hset_same : forall s h l, hget s (hset s h l) = Some h.
Proof. intros s h l. unfold hset. cbn [hget]. rewrite Z.eqb_refl. reflexivity. Qed.
Lemma hget_hdel_same : forall s l, hget s (hdel s l) = None.
Proof.
  intros s l. induction l as [|[t k] r IH]; cbn [hdel hget]; [reflexivity|].
  destruct (t =? s) eqn:E; [exact IH|]. cbn [hget]. rewrite E. exact IH.
Qed.
Lemma hget_hdel_other : forall s t l, t <> s -> hget t (hdel s l) = hget t l.
Proof.
  intros s t l Hne. induction l as [|[u k] r IH]; cbn [hdel hget]; [reflexivity|].
  destruct (u =? s) eqn:E.
  - rewrite IH. destruct (u =? t) eqn:E2; [lia|reflexivity].
  - cbn [hget]. rewrite IH. reflexivity.
Qed.
Lemma hget_hset_other : forall s t h l, t <> s -> hget t (hset s h l) = hget t l.
Proof.
  intros s t h l Hne. unfold hset. cbn [hget]. destruct (s =? t) eqn:E; [lia|]. apply hget_hdel_other. exact Hne.
Qed.

(** * the invariant *)
Definition Inv (s : st) : Prop :=
  used s = wrap (total (content s)) /\ nodup (content s) /\ ranged (content s) /\ hsok (hs s).

Definition synced (s : st) (h : handle) : Prop := lookup (hpath h) (content s) = Some (hsize h).
Lemma in_sync_synced : forall s h, in_sync s h = true <-> synced s h.
Proof.
  intros s h. unfold in_sync, synced. destruct (lookup (hpath h) (content s)) as [sz|].
  - split; intro H; [f_equal; lia|inv H; lia].
  - split; discriminate.
Qed.

Lemma init_inv : forall c capacity, nodup c -> ranged c -> Inv (init c capacity).
Proof. intros c k Hn Hr. unfold Inv, init. cbn. repeat split; try assumption. constructor. Qed.

Lemma update_position_inv : forall s slot h position s',
  Inv s -> hok h -> synced s h -> position < W ->
  update_position s slot h position = Some s' ->
  Inv s' /\ exists h', hget slot (hs s') = Some h' /\ synced s' h' /\ hpath h' = hpath h /\ hpos h' = position
                     /\ hsize h' = Z.max (hsize h) position
                     /\ (forall q, q <> hpath h -> lookup q (content s') = lookup q (content s)).
Proof.
  intros s slot h position s' (Hu & Hn & Hr & Hh) (Hp & Hs) Hsy HpW Hup.
  unfold update_position in Hup. unfold synced in Hsy.
  destruct (position <? 0) eqn:E0; [discriminate|].
  destruct (hsize h <? position) eqn:E1; inv Hup.
  - destruct (replace_entry (hpath h) position (content s) Hn Hr) as (Hn' & Hr' & Hl' & Ht' & Ho'); [lia|].
    rewrite Hsy in Ht'. split.
    + unfold Inv. cbn [used content hs]. repeat split; try assumption.
      * rewrite Ht', Hu. rewrite wrap_add_r, wrap_add_l. f_equal. lia.
      * apply hsok_hset; [|exact Hh]. unfold hok. cbn [hpos hsize]. lia.
    + eexists. cbn [hs content]. rewrite hget_hset_same. split; [reflexivity|].
      unfold synced. cbn [hpath hsize hpos content]. repeat split; try assumption; try lia.
  - split.
    + unfold Inv. cbn [used content hs]. repeat split; try assumption.
      apply hsok_hset; [|exact Hh]. unfold hok. cbn [hpos hsize]. lia.
    + eexists. cbn [hs content]. rewrite hget_hset_same. split; [reflexivity|].
      unfold synced. cbn [hpath hsize hpos content]. repeat split; try assumption; try lia.
Qed.

(* the truncation done by the repaired File::write when not write_inside *)
Lemma truncate_inv : forall s h,
  Inv s -> hok h -> synced s h ->
  let s1 := mkSt (insert (hpath h) (hpos h) (erase (hpath h) (content s)))
                 (wrap (used s - wrap (hsize h - hpos h))) (cap s) (hs s) in
  let h1 := mkH (hpath h) (hpos h) (hpos h) in
  Inv s1 /\ hok h1 /\ synced s1 h1.
Proof.
  intros s h (Hu & Hn & Hr & Hh) (Hp & Hs) Hsy. cbn zeta. unfold synced in Hsy.
  destruct (replace_entry (hpath h) (hpos h) (content s) Hn Hr) as (Hn' & Hr' & Hl' & Ht' & Ho'); [lia|].
  rewrite Hsy in Ht'. repeat split; cbn [used content hs hpath hsize hpos]; try assumption; try lia.
  rewrite Ht', Hu. rewrite wrap_sub_r, wrap_sub_l. f_equal. lia.
Qed.

Lemma step_inv : forall s o s' r,
  Inv s -> admissible s o = true -> step true s o = Some (s', r) -> Inv s'.
Proof.
  intros s o s' r HI Hadm Hst.
  pose proof HI as (Hu & Hn & Hr & Hh).
  destruct o as [slot path|slot n inside|slot n|slot off origin|slot path|slot|slot];
    cbn [step slot_of] in Hst; cbn [admissible slot_of] in Hadm.
  - (* open *)
    destruct (hget slot (hs s)) as [h|]; inv Hst; [exact HI|].
    unfold do_open. destruct (lookup path (content s)) as [sz|] eqn:El.
    + unfold Inv. cbn [used content hs]. repeat split; try assumption.
      apply hsok_hset; [|exact Hh]. pose proof (ranged_lookup _ _ _ Hr El). unfold hok. cbn [hpos hsize]. lia.
    + rewrite insert_fresh by exact El. unfold Inv. cbn [used content hs total]. repeat split; try assumption.
      * apply nodup_cons; assumption.
      * constructor; [cbn [snd]; rewrite W_val; lia|exact Hr].
      * apply hsok_hset; [|exact Hh]. unfold hok. cbn [hpos hsize]. rewrite W_val. lia.
  - (* write *)
    destruct (hget slot (hs s)) as [h|] eqn:Eg; [|inv Hst; exact HI].
    rewrite andb_true_r in Hadm. apply in_sync_synced in Hadm.
    pose proof (hsok_hget _ _ _ Hh Eg) as Hok.
    unfold do_write in Hst.
    destruct (wrap n =? 0); [inv Hst; exact HI|].
    destruct (cap s <=? used s); [inv Hst; exact HI|].
    destruct (negb inside && (hpos h <? hsize h)) eqn:Et.
    + destruct (truncate_inv s h HI Hok Hadm) as (HI1 & Hok1 & Hsy1).
      match type of Hst with match update_position ?a ?b ?c ?d with _ => _ end = _ =>
        destruct (update_position a b c d) as [s2|] eqn:Eu; [|discriminate] end.
      inv Hst. apply update_position_inv in Eu; try assumption; [tauto|apply to_off_lt_W].
    + destruct (update_position s slot h (to_off (hpos h + wrap n))) as [s2|] eqn:Eu; [|discriminate].
      inv Hst. apply update_position_inv in Eu; try assumption; [tauto|apply to_off_lt_W].
  - (* read *)
    destruct (hget slot (hs s)) as [h|] eqn:Eg; [|inv Hst; exact HI].
    pose proof (hsok_hget _ _ _ Hh Eg) as (Hp & Hs).
    inv Hst. unfold do_read in H0. destruct (hsize h =? 0) eqn:E0; inv H0; [exact HI|].
    unfold Inv. cbn [used content hs]. repeat split; try assumption.
    apply hsok_hset; [|exact Hh]. unfold hok. cbn [hpos hsize].
    rewrite (wrap_small (hsize h - hpos h)) by lia.
    pose proof (wrap_range n) as Hn0.
    rewrite wrap_small by lia. lia.
  - (* seek *)
    destruct (hget slot (hs s)) as [h|] eqn:Eg; [|inv Hst; exact HI].
    rewrite andb_true_r in Hadm. apply in_sync_synced in Hadm.
    pose proof (hsok_hget _ _ _ Hh Eg) as Hok.
    destruct (do_seek s slot h (to_off off) origin) as [s2|] eqn:Es; [|discriminate]. inv Hst.
    unfold do_seek in Es.
    destruct (origin =? 0); [apply update_position_inv in Es; try assumption; [tauto|apply to_off_lt_W]|].
    destruct (origin =? 1); [apply update_position_inv in Es; try assumption; [tauto|apply to_off_lt_W]|].
    destruct (origin =? 2); [apply update_position_inv in Es; try assumption; [tauto|apply to_off_lt_W]|].
    inv Es. exact HI.
  - (* move *)
    destruct (hget slot (hs s)) as [h|] eqn:Eg; [|inv Hst; exact HI].
    apply andb_true_iff in Hadm. destruct Hadm as [Hsy Hdst]. apply in_sync_synced in Hsy. unfold synced in Hsy.
    inv Hst. unfold do_move. destruct (path <? 0) eqn:Ep; [exact HI|]. rewrite Hsy.
    pose proof (ranged_lookup _ _ _ Hr Hsy) as Hrg.
    cbn [orb] in Hdst. destruct (path =? hpath h) eqn:Esame.
    + assert (path = hpath h) by lia. subst path.
      destruct (replace_entry (hpath h) (hsize h) (content s) Hn Hr Hrg) as (Hn' & Hr' & Hl' & Ht' & Ho').
      rewrite Hsy in Ht'. unfold Inv. cbn [used content hs]. repeat split; try assumption.
      rewrite Ht', Hu. f_equal. lia.
    + cbn [orb] in Hdst. destruct (lookup path (content s)) eqn:El; [discriminate|].
      assert (Hne : path <> hpath h) by lia.
      rewrite insert_fresh by (rewrite lookup_erase_other by exact Hne; exact El).
      unfold Inv. cbn [used content hs total]. repeat split; try assumption.
      * rewrite total_erase by exact Hn. rewrite Hsy, Hu. f_equal. lia.
      * apply nodup_cons; [rewrite lookup_erase_other by exact Hne; exact El|apply nodup_erase; exact Hn].
      * constructor; [exact Hrg|apply ranged_erase; exact Hr].
  - (* unlink *)
    destruct (hget slot (hs s)) as [h|] eqn:Eg; [|inv Hst; exact HI].
    rewrite andb_true_r in Hadm. apply in_sync_synced in Hadm. unfold synced in Hadm.
    inv Hst. unfold do_unlink in H0. rewrite Hadm in H0. inv H0.
    unfold Inv. cbn [used content hs]. repeat split; try assumption.
    + rewrite total_erase by exact Hn. rewrite Hadm, Hu. rewrite wrap_sub_l. reflexivity.
    + apply nodup_erase; exact Hn.
    + apply ranged_erase; exact Hr.
  - (* close *)
    destruct (hget slot (hs s)) as [h|] eqn:Eg; inv Hst; [|exact HI].
    unfold Inv. cbn [used content hs]. repeat split; try assumption. apply hsok_hdel. exact Hh.
Qed.

Theorem run_inv : forall ops s s',
  Inv s -> all_admissible true s ops = true -> run true s ops = Some s' -> Inv s'.
Proof.
  induction ops as [|o r IH]; intros s s' HI Hadm Hrun; cbn [run all_admissible] in *.
  - inv Hrun. exact HI.
  - apply andb_true_iff in Hadm. destruct Hadm as [Ha Hrest].
    destruct (step true s o) as [[s1 res]|] eqn:Est; [|discriminate].
    apply (IH s1 s'); [eapply step_inv; eassumption|exact Hrest|exact Hrun].
Qed.

(** used size = total size of the files, after any admissible history from a disk with initial content *)
Theorem used_eq_sum : forall c capacity ops s',
  nodup c -> ranged c ->
  all_admissible true (init c capacity) ops = true ->
  run true (init c capacity) ops = Some s' ->
  used s' = wrap (total (content s')) /\ (total (content s') < W -> used s' = total (content s')).
Proof.
  intros c k ops s' Hn Hr Hadm Hrun.
  pose proof (run_inv ops _ _ (init_inv c k Hn Hr) Hadm Hrun) as (Hu & _ & Hrg & _).
  split; [exact Hu|]. intro Hlt. rewrite Hu. apply wrap_small. split; [|exact Hlt].
  clear - Hrg. induction (content s') as [|[p v] r IH]; cbn [total]; [lia|].
  inv Hrg. cbn [snd] in H1. specialize (IH H2). lia.
Qed.

(** a read never returns more than the bytes between the position and the end of the file *)
Theorem read_bound : forall s slot n h s' r,
  Inv s -> hget slot (hs s) = Some h -> step true s (Read slot n) = Some (s', r) ->
  0 <= r <= hsize h - hpos h /\ r <= wrap n
  /\ hget slot (hs s') = Some (mkH (hpath h) (hsize h) (hpos h + r))
  /\ content s' = content s /\ used s' = used s
  /\ (in_sync s h = true -> r <= fsize (hpath h) (content s) - hpos h).
Proof.
  intros s slot n h s' r (Hu & Hn & Hr & Hh) Eg Hst.
  cbn [step slot_of] in Hst. rewrite Eg in Hst. inv Hst.
  pose proof (hsok_hget _ _ _ Hh Eg) as (Hp & Hs).
  pose proof (wrap_range n) as Hn0.
  assert (Hsync : forall x, x <= hsize h - hpos h -> in_sync s h = true -> x <= fsize (hpath h) (content s) - hpos h).
  { intros x Hx Hi. apply in_sync_synced in Hi. unfold synced in Hi. unfold fsize. rewrite Hi. exact Hx. }
  unfold do_read in H0. destruct (hsize h =? 0) eqn:E0; inv H0.
  - repeat split; try lia; try reflexivity.
    + rewrite Eg. destruct h as [hp0 hs0 hq0]; cbn [hpath hsize hpos]. rewrite Z.add_0_r. reflexivity.
    + apply Hsync. lia.
  - cbn [hs content used]. rewrite hget_hset_same. rewrite (wrap_small (hsize h - hpos h)) by lia.
    rewrite (wrap_small (hpos h + _)) by lia.
    repeat split; try lia; try reflexivity.
Qed.

(** unlinking a file gives back exactly its size *)
Theorem unlink_returns_size : forall s slot h s' r,
  Inv s -> hget slot (hs s) = Some h -> in_sync s h = true -> step true s (Unlink slot) = Some (s', r) ->
  r = 0 /\ lookup (hpath h) (content s') = None
  /\ fsize (hpath h) (content s) = hsize h
  /\ total (content s') = total (content s) - fsize (hpath h) (content s)
  /\ used s' = wrap (used s - fsize (hpath h) (content s))
  /\ (forall q, q <> hpath h -> lookup q (content s') = lookup q (content s)).
Proof.
  intros s slot h s' r (Hu & Hn & Hr & Hh) Eg Hsy Hst.
  apply in_sync_synced in Hsy. unfold synced in Hsy.
  cbn [step slot_of] in Hst. rewrite Eg in Hst. inv Hst. unfold do_unlink in H0. rewrite Hsy in H0. inv H0.
  cbn [content used]. unfold fsize. rewrite Hsy. repeat split.
  - apply lookup_erase_same.
  - rewrite total_erase by exact Hn. rewrite Hsy. reflexivity.
  - intros q Hq. apply lookup_erase_other. exact Hq.
Qed.

(** the verified model always passes the oracle that judges the implementation's observations *)
Theorem model_passes_oracle : forall s o s' r,
  Inv s -> admissible s o = true -> step true s o = Some (s', r) -> step_ok (record s o s' r) = true.
Proof.
  intros s o s' r HI Hadm Hst.
  pose proof (step_inv _ _ _ _ HI Hadm Hst) as (Hu' & _).
  unfold record. destruct (obs_h s (slot_of o)) as [[sb pb] fb] eqn:Eb.
  destruct (obs_h s' (slot_of o)) as [[sa pa] x] eqn:Ea.
  cbn [step_ok]. apply andb_true_iff. split; [apply andb_true_iff; split|].
  - lia.
  - destruct ((op_code o =? 2) && negb (r =? -2)) eqn:E; [|reflexivity].
    apply andb_true_iff in E. destruct E as [Ec Er].
    destruct o; cbn [op_code] in Ec; try discriminate. cbn [slot_of op_arg] in *.
    unfold obs_h in Eb, Ea.
    destruct (hget slot (hs s)) as [h|] eqn:Eg.
    + cbn [admissible slot_of] in Hadm. rewrite Eg in Hadm. rewrite andb_true_r in Hadm.
      destruct (read_bound _ _ _ _ _ _ HI Eg Hst) as (H1 & H2 & H3 & H4 & H5 & H6).
      rewrite H3 in Ea. cbn [hsize hpos hpath] in Ea. inv Eb. inv Ea. specialize (H6 Hadm). lia.
    + cbn [step slot_of] in Hst. rewrite Eg in Hst. inv Hst. discriminate.
  - destruct ((op_code o =? 5) && (r =? 0)) eqn:E; [|reflexivity].
    apply andb_true_iff in E. destruct E as [Ec Er].
    destruct o; cbn [op_code] in Ec; try discriminate. cbn [slot_of] in *.
    unfold obs_h in Eb. destruct (hget slot (hs s)) as [h|] eqn:Eg.
    + cbn [admissible slot_of] in Hadm. rewrite Eg in Hadm. rewrite andb_true_r in Hadm.
      destruct (unlink_returns_size _ _ _ _ _ HI Eg Hadm Hst) as (H1 & H2 & H3 & H4 & H5 & H6).
      inv Eb. lia.
    + cbn [step slot_of] in Hst. rewrite Eg in Hst. inv Hst. discriminate.
Qed.

(* the oracle is exactly the specification of one observed step *)
Definition StepSpec (r : list Z) : Prop :=
  exists code n res sb pb fb ub tb sa pa ua ta, r = [code; n; res; sb; pb; fb; ub; tb; sa; pa; ua; ta]
  /\ ua = wrap ta
  /\ (code = 2 -> res <> -2 -> 0 <= res <= n /\ res <= fb - pb /\ pa = pb + res)
  /\ (code = 5 -> res = 0 -> ta = tb - fb /\ ua = wrap (ub - fb)).
Theorem step_ok_spec : forall r, step_ok r = true <-> StepSpec r.
Proof.
  intro r. split.
  - intro H. unfold step_ok in H.
    do 12 (destruct r as [|? r]; [discriminate|]). destruct r; [|discriminate].
    do 12 eexists. split; [reflexivity|].
    apply andb_true_iff in H. destruct H as [H H3]. apply andb_true_iff in H. destruct H as [H1 H2].
    split; [lia|]. split.
    + intros Hc Hr. destruct ((z =? 2) && negb (z1 =? -2)) eqn:E; [lia|]. lia.
    + intros Hc Hr. destruct ((z =? 5) && (z1 =? 0)) eqn:E; [lia|]. lia.
  - intros (code & n & res & sb & pb & fb & ub & tb & sa & pa & ua & ta & -> & H1 & H2 & H3).
    cbn [step_ok]. apply andb_true_iff. split; [apply andb_true_iff; split|].
    + lia.
    + destruct ((code =? 2) && negb (res =? -2)) eqn:E; [|reflexivity]. lia.
    + destruct ((code =? 5) && (res =? 0)) eqn:E; [|reflexivity]. lia.
Qed.

(** * the statement fails outside the discipline, and failed on the pinned code inside it *)
Definition viol (s : st) : bool := negb (used s =? wrap (total (content s))).

(* pinned File::write: file of 100 bytes, seek to 0, write 10 (overwrite) -> used 0, file still 100 *)
Lemma pinned_write_refuted :
  exists c capacity ops s', nodup c /\ ranged c /\ all_admissible false (init c capacity) ops = true
    /\ run false (init c capacity) ops = Some s' /\ viol s' = true.
Proof.
  exists [(0, 100)], 1000000, [Open 0 0; Seek 0 0 0; Write 0 10 false].
  eexists. split; [repeat constructor; intros []|]. split; [repeat constructor; cbn; rewrite ?W_val; lia|].
  split; [vm_compute; reflexivity|]. split; [vm_compute; reflexivity|vm_compute; reflexivity].
Qed.
(* the same history on the repaired code *)
Lemma fixed_write_example :
  exists s', run true (init [(0, 100)] 1000000) [Open 0 0; Seek 0 0 0; Write 0 10 false] = Some s'
    /\ used s' = 10 /\ content s' = [(0, 10)].
Proof. eexists. split; [vm_compute; reflexivity|]. split; reflexivity. Qed.

(* two File objects on one path: the second one's cached size_ is stale *)
Lemma two_handles_refuted :
  exists ops s', run true (init [(0, 100)] 1000000) ops = Some s' /\ viol s' = true.
Proof.
  exists [Open 0 0; Open 1 0; Seek 0 0 2; Write 0 50 true; Seek 1 0 2; Write 1 10 true].
  eexists. split; [vm_compute; reflexivity|]. vm_compute. reflexivity.
Qed.
(* write through a File after File::move (path_ still names the old path) *)
Lemma write_after_move_refuted :
  exists ops s', run true (init [(0, 100)] 1000000) ops = Some s' /\ viol s' = true.
Proof.
  exists [Open 0 0; Move 0 1; Seek 0 0 2; Write 0 10 true].
  eexists. split; [vm_compute; reflexivity|]. vm_compute. reflexivity.
Qed.
(* write through a File after File::unlink *)
Lemma write_after_unlink_refuted :
  exists ops s', run true (init [(0, 100)] 1000000) ops = Some s' /\ viol s' = true.
Proof.
  exists [Open 0 0; Unlink 0; Seek 0 0 2; Write 0 10 true].
  eexists. split; [vm_compute; reflexivity|]. vm_compute. reflexivity.
Qed.
(* move onto an existing path: std::map::insert keeps the old entry, the moved file vanishes, used_size_ stays *)
Lemma move_onto_existing_refuted :
  exists ops s', run true (init [(0, 100); (1, 7)] 1000000) ops = Some s' /\ viol s' = true.
Proof.
  exists [Open 0 0; Move 0 1].
  eexists. split; [vm_compute; reflexivity|]. vm_compute. reflexivity.
Qed.
