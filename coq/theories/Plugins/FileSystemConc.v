(** C46 — several actors on one disk: the operations of s4u_FileSystem.cpp cut into their atomic segments.

    An actor runs its own code up to the next simcall; maestro then runs the simcall handlers of all the actors that were
    scheduled in that round, one after the other.  One File operation is therefore NOT atomic with respect to the other
    actors: it is a first segment (everything up to the first simcall that touches the accounting; it may read the disk
    state: content lookup, "disk full" test) followed by the updates that the C++ performs one by one
      - decr_used_size(x)  : simcall  { used_size_ -= x; }                                   [ASub x]
      - incr_used_size(x)  : simcall  { used_size_ += x; }                                   [AAdd x]
      - simcall { content->erase(path_); content->insert({path_, size_}); }                  [ASet size_]
      - content->erase(path_) in File::unlink (actor context, after decr_used_size returned) [ADel]
    and between two of them any segment of any other actor may run (Disk::write / Disk::read even let simulated time pass).
    The File object (path_, size_, current_position_) is private to the actor that holds it, so its update is done in the
    first segment; what the other actors can see - content_ and used_size_ of the FileSystemDiskExt - changes atom by atom.

    [decide] is the first segment and yields the pending atoms; sequential execution of [decide] and its atoms is [step true]
    (FileSystemConcProofs.decide_refines_step), so the differential tie of the single-actor model carries over.
    Model only, no proofs. *)
From SGV Require Import Base.Tactics Plugins.FileSystem.
Local Open Scope Z_scope.

Inductive atom :=
| AAdd (x : Z)
| ASub (x : Z)
| ASet (v : Z)
| ADel.

(* one atomic update of the disk, on behalf of a File whose path_ is [p] *)
Definition do_atom (s : st) (p : Z) (a : atom) : st :=
  match a with
  | AAdd x => mkSt (content s) (wrap (used s + x)) (cap s) (hs s)
  | ASub x => mkSt (content s) (wrap (used s - x)) (cap s) (hs s)
  | ASet v => mkSt (insert p v (erase p (content s))) (used s) (cap s) (hs s)
  | ADel => mkSt (erase p (content s)) (used s) (cap s) (hs s)
  end.

Fixpoint flush (s : st) (p : Z) (l : list atom) : st :=
  match l with [] => s | a :: r => flush (do_atom s p a) p r end.

(** File::update_position: the new File and the updates it triggers *)
Definition up_atoms (h : handle) (position : Z) : option (handle * list atom) :=
  if position <? 0 then None
  else if hsize h <? position then
    Some (mkH (hpath h) position position, [AAdd (wrap (position - hsize h)); ASet position])
  else Some (mkH (hpath h) (hsize h) position, []).

Definition set_h (s : st) (slot : Z) (h : handle) : st := mkSt (content s) (used s) (cap s) (hset slot h (hs s)).

(** first segment of File::write (code after the fix: commit) *)
Definition dec_write (s : st) (slot : Z) (h : handle) (n : Z) (inside : bool) : option (st * Z * list atom) :=
  if n =? 0 then Some (s, 0, [])
  else if cap s <=? used s then Some (s, 0, [])
  else
    let '(h1, pre) :=
      if negb inside && (hpos h <? hsize h)
      then (mkH (hpath h) (hpos h) (hpos h), [ASub (wrap (hsize h - hpos h)); ASet (hpos h)])
      else (h, []) in
    match up_atoms h1 (to_off (hpos h + n)) with
    | Some (h2, post) => Some (set_h s slot h2, n, pre ++ post)
    | None => None
    end.

Definition dec_seek (s : st) (slot : Z) (h : handle) (off origin : Z) : option (st * Z * list atom) :=
  let go position := match up_atoms h position with
                     | Some (h2, l) => Some (set_h s slot h2, 0, l)
                     | None => None
                     end in
  if origin =? 0 then go off
  else if origin =? 1 then go (to_off (hpos h + off))
  else if origin =? 2 then go (to_off (hsize h + off))
  else Some (s, 0, []).

Definition dec_unlink (s : st) (h : handle) : st * Z * list atom :=
  match lookup (hpath h) (content s) with
  | None => (s, -1, [])
  | Some _ => (s, 0, [ASub (hsize h); ADel])
  end.

(** the first segment of an operation: new state, result, pending atoms (they act on the path of the File used) *)
Definition decide (s : st) (o : op) : option (st * Z * list atom) :=
  match o with
  | Open slot path =>
      match hget slot (hs s) with
      | Some _ => Some (s, -2, [])
      | None => Some (do_open s slot path, 0, [])
      end
  | _ =>
      match hget (slot_of o) (hs s) with
      | None => Some (s, -2, [])
      | Some h =>
          match o with
          | Open _ _ => Some (s, -2, [])
          | Write slot n inside => dec_write s slot h (wrap n) inside
          | Read slot n => let '(s', r) := do_read s slot h (wrap n) in Some (s', r, [])
          | Seek slot off origin => dec_seek s slot h (to_off off) origin
          | Move slot path => Some (do_move s h path, 0, [])
          | Unlink slot => Some (dec_unlink s h)
          | Close slot => Some (mkSt (content s) (used s) (cap s) (hdel slot (hs s)), 0, [])
          end
      end
  end.

(* the path of the File the operation goes through (-1: the slot is empty) and the paths it may touch *)
Definition op_path (s : st) (o : op) : Z :=
  match hget (slot_of o) (hs s) with Some h => hpath h | None => -1 end.
Definition op_paths (s : st) (o : op) : list Z :=
  op_path s o :: match o with Open _ p | Move _ p => [p] | _ => [] end.

(** the disk + the operations in flight: (actor, path, remaining atoms), only non-empty atom lists *)
Definition pending := list (Z * Z * list atom).
Record mst := mkM { ms : st; pend : pending }.

Inductive ev :=
| Start (a : Z) (o : op)   (* actor [a] runs the first segment of [o] *)
| Tick (a : Z).            (* the next pending update of actor [a] is executed *)

Fixpoint busy (a : Z) (pd : pending) : bool :=
  match pd with [] => false | (b, _, _) :: r => (b =? a) || busy a r end.

Fixpoint ptick (a : Z) (s : st) (pd : pending) : st * pending :=
  match pd with
  | [] => (s, [])
  | (b, p, l) :: r =>
      if b =? a then
        match l with
        | [] => (s, r)
        | [x] => (do_atom s p x, r)
        | x :: l' => (do_atom s p x, (b, p, l') :: r)
        end
      else let '(s', r') := ptick a s r in (s', (b, p, l) :: r')
  end.

(* result -3: the event is ignored (the actor is in the middle of an operation / has nothing pending) *)
Definition mstep (M : mst) (e : ev) : option (mst * Z) :=
  match e with
  | Start a o =>
      if busy a (pend M) then Some (M, -3)
      else match decide (ms M) o with
           | None => None
           | Some (s', r, []) => Some (mkM s' (pend M), r)
           | Some (s', r, l) => Some (mkM s' ((a, op_path (ms M) o, l) :: pend M), r)
           end
  | Tick a =>
      if busy a (pend M) then let '(s', pd') := ptick a (ms M) (pend M) in Some (mkM s' pd', 0)
      else Some (M, -3)
  end.

Fixpoint mrun (M : mst) (es : list ev) : option mst :=
  match es with
  | [] => Some M
  | e :: r => match mstep M e with Some (M', _) => mrun M' r | None => None end
  end.

(** discipline: as for the single actor ([admissible]: the File is in sync with the disk, a move targets a fresh path),
    and no operation IN FLIGHT concerns a path this operation touches ("different actors work on different files") *)
Definition paths_of (pd : pending) : list Z := map (fun e => snd (fst e)) pd.
Fixpoint mem (x : Z) (l : list Z) : bool := match l with [] => false | y :: r => (y =? x) || mem x r end.
Fixpoint disjoint (l1 l2 : list Z) : bool := match l1 with [] => true | x :: r => negb (mem x l2) && disjoint r l2 end.

Definition madmissible (M : mst) (e : ev) : bool :=
  match e with
  | Tick _ => true
  | Start a o => busy a (pend M) || (admissible (ms M) o && disjoint (op_paths (ms M) o) (paths_of (pend M)))
  end.

Fixpoint all_madmissible (M : mst) (es : list ev) : bool :=
  match es with
  | [] => true
  | e :: r => madmissible M e && match mstep M e with Some (M', _) => all_madmissible M' r | None => true end
  end.

Definition minit (c : list (Z * Z)) (capacity : Z) : mst := mkM (init c capacity) [].

(* an actor alone: the first segment, then its (at most four) updates *)
Definition solo (a : Z) (o : op) : list ev := [Start a o; Tick a; Tick a; Tick a; Tick a].

(** what is still owed to the accounting by the operations in flight: (pending change of used_size_) - (pending change
    of the content total), given the current size [e] of the file (0 when it has no entry) *)
Fixpoint pot (e : Z) (l : list atom) : Z :=
  match l with
  | [] => 0
  | AAdd x :: r => x + pot e r
  | ASub x :: r => - x + pot e r
  | ASet v :: r => (e - v) + pot v r
  | ADel :: r => e + pot 0 r
  end.
Definition cur (p : Z) (c : list (Z * Z)) : Z := match lookup p c with Some v => v | None => 0 end.
Fixpoint psum (c : list (Z * Z)) (pd : pending) : Z :=
  match pd with [] => 0 | (_, p, l) :: r => pot (cur p c) l + psum c r end.

(** ------------------------------------------------------------------------------------------------------------
    Executable entry point for the multi-actor correspondence.
    Input: cap, nfiles, (path size)*, nact, then rounds of nact quadruples (code slot a b), one per actor:
    code mod 10 as in [decode_op], 7 = the actor does nothing in this round (code / 10 = number of extra yields before the
    operation in the driver, irrelevant here).  Slot k of actor a is slot a*16+k of the model.
    All actors wake at the same date: every first segment runs (actor order) before any simcall handler, then the
    handlers are answered actor by actor, sub-round after sub-round.
    Output per round: -8, adm (all Start events admissible), used, total, then per actor res, File size, position
    (res -4 = idle); a round stopped by xbt_assert gives -99 and ends the output; at the end -7 :: content. *)
Fixpoint take_ops (a : Z) (n : nat) (l : list Z) : list (Z * op) * list Z :=
  match n with
  | O => ([], l)
  | S n' =>
      match l with
      | code :: slot :: x :: y :: r =>
          let '(os, rest) := take_ops (a + 1) n' r in
          ((a, decode_op (code mod 10) (a * 16 + slot) x y) :: os, rest)
      | _ => ([], [])
      end
  end.

(* returns state, admissible so far, per-actor results (reversed) *)
Fixpoint start_all (M : mst) (os : list (Z * op)) (codes : list Z) : option (mst * bool * list Z) :=
  match os, codes with
  | (a, o) :: r, code :: cr =>
      if code mod 10 =? 7 then
        match start_all M r cr with Some (M', adm, rs) => Some (M', adm, -4 :: rs) | None => None end
      else
        match mstep M (Start a o) with
        | None => None
        | Some (M', res) =>
            match start_all M' r cr with
            | Some (M'', adm, rs) => Some (M'', madmissible M (Start a o) && adm, res :: rs)
            | None => None
            end
        end
  | _, _ => Some (M, true, [])
  end.

Fixpoint tick_all (M : mst) (n : nat) (a : Z) : mst :=
  match n with
  | O => M
  | S n' => match mstep M (Tick a) with Some (M', _) => tick_all M' n' (a + 1) | None => M end
  end.

Fixpoint obs_all (s : st) (os : list (Z * op)) (codes rs : list Z) : list Z :=
  match os, codes, rs with
  | (_, o) :: r, code :: cr, res :: rr =>
      (if code mod 10 =? 7 then [res; -1; -1]
       else let '(sz, ps, _) := obs_h s (slot_of o) in [res; sz; ps]) ++ obs_all s r cr rr
  | _, _, _ => []
  end.

Fixpoint every4 (l : list Z) : list Z :=
  match l with code :: _ :: _ :: _ :: r => code :: every4 r | _ => [] end.

Fixpoint rounds (fuel : nat) (nact : nat) (M : mst) (l : list Z) : list Z :=
  match fuel with
  | O => -7 :: flat_pairs (content (ms M))
  | S f =>
      match l with
      | [] => -7 :: flat_pairs (content (ms M))
      | _ =>
          let '(os, rest) := take_ops 0 nact l in
          let codes := every4 l in
          match start_all M os codes with
          | None => [-99]
          | Some (M1, adm, rs) =>
              let M2 := tick_all (tick_all (tick_all (tick_all M1 nact 0) nact 0) nact 0) nact 0 in
              ([-8; b2z adm; used (ms M2); total (content (ms M2)); Z.of_nat (length (pend M2))]
                 ++ obs_all (ms M2) os codes rs) ++ rounds f nact M2 rest
          end
      end
  end.

Definition run_c46_multi (l : list Z) : list Z :=
  match l with
  | capacity :: nf :: r =>
      let '(c, rest) := take_pairs (Z.to_nat nf) r in
      match rest with
      | nact :: rest' => if nact <=? 0 then [] else rounds (length rest') (Z.to_nat nact) (minit c capacity) rest'
      | [] => []
      end
  | _ => []
  end.
