Require Import ExtrOcamlBasic.
Require Import SGV.Xbt.Random.
Extraction "c45_model.ml" run_c45_seeded run_c45_forced run_c45_raw.
