(** C47 — proofs about SGV.Instr.Paje. *)
From Coq Require Import Sorting.Sorted Permutation.
From SGV Require Import Base.Tactics Instr.Paje.
Local Open Scope Z_scope.

(** * The specification: a relational reading of "well formed" *)
Definition TypeDeclared (s : st) (ty : Z) : Prop := ty = 0 \/ In ty (types s).
Definition Fresh (s : st) (id : Z) : Prop := ~ In id (types s).
Definition Alive (s : st) (c : Z) : Prop := In c (live s).           (* created and not destroyed since *)
Definition ValueOf (s : st) (v ty : Z) : Prop := In (v, ty) (vals s).
Definition InOrder (s : st) (t : Z) : Prop := last s <= t.

Inductive Step (s : st) : ev -> Prop :=
| S_DefType k id p : Fresh s id -> TypeDeclared s p -> Step s (DefType k id p)
| S_DefLink id p a b : Fresh s id -> TypeDeclared s p -> TypeDeclared s a -> TypeDeclared s b -> Step s (DefLink id p a b)
| S_DefValue id ty : Fresh s id -> TypeDeclared s ty -> Step s (DefValue id ty)
| S_Create t c ty p : InOrder s t -> ~ Alive s c -> TypeDeclared s ty -> (p = 0 \/ Alive s p) -> Step s (Create t c ty p)
| S_Destroy t ty c : InOrder s t -> TypeDeclared s ty -> Alive s c -> Step s (Destroy t ty c)
| S_Var t ty c : InOrder s t -> TypeDeclared s ty -> Alive s c -> Step s (VarEv t ty c)
| S_Set t ty c v : InOrder s t -> TypeDeclared s ty -> Alive s c -> ValueOf s v ty -> Step s (SetSt t ty c v)
| S_Push t ty c v : InOrder s t -> TypeDeclared s ty -> Alive s c -> ValueOf s v ty -> Step s (Push t ty c v)
| S_Pop t ty c : InOrder s t -> TypeDeclared s ty -> Alive s c -> (0 < depth_of c ty (depth s))%nat -> Step s (Pop t ty c)
| S_Reset t ty c : InOrder s t -> TypeDeclared s ty -> Alive s c -> Step s (Reset t ty c)
| S_Link t ty c e : InOrder s t -> TypeDeclared s ty -> Alive s c -> Alive s e -> Step s (LinkEv t ty c e)
| S_New t ty c v : InOrder s t -> TypeDeclared s ty -> Alive s c -> ValueOf s v ty -> Step s (NewEv t ty c v).

Inductive WF : st -> list ev -> Prop :=
| WF_nil s : WF s []
| WF_cons s e r : Step s e -> WF (next s e) r -> WF s (e :: r).
Definition WellFormed (tr : list ev) : Prop := WF init tr.

(** * reflection *)
Lemma mem_In x l : mem x l = true <-> In x l.
Proof.
  unfold mem. rewrite existsb_exists. split.
  - intros [y [Hy E]]. apply Z.eqb_eq in E. subst. exact Hy.
  - intro H. exists x. split; [exact H|apply Z.eqb_refl].
Qed.
Lemma mem2_In x y l : mem2 x y l = true <-> In (x, y) l.
Proof.
  unfold mem2. rewrite existsb_exists. split.
  - intros [[a b] [Hy E]]. cbn in E. apply andb_true_iff in E. destruct E as [E1 E2].
    apply Z.eqb_eq in E1. apply Z.eqb_eq in E2. subst. exact Hy.
  - intro H. exists (x, y). split; [exact H|]. cbn. rewrite !Z.eqb_refl. reflexivity.
Qed.
Lemma type_code_0 s ty : type_code s ty = 0 <-> TypeDeclared s ty.
Proof.
  unfold type_code, type_ok, TypeDeclared. destruct (ty =? 0) eqn:E0; cbn [orb].
  - apply Z.eqb_eq in E0. split; [intros _; left; exact E0|reflexivity].
  - apply Z.eqb_neq in E0. destruct (mem ty (types s)) eqn:E.
    + apply mem_In in E. split; [intros _; right; exact E|reflexivity].
    + split; [discriminate|]. intros [H|H]; [contradiction|]. apply mem_In in H. congruence.
Qed.
Lemma cont_code_0 s c : cont_code s c = 0 <-> Alive s c.
Proof.
  unfold cont_code, cont_ok, Alive. destruct (mem c (live s)) eqn:E.
  - apply mem_In in E. split; [intros _; exact E|reflexivity].
  - split.
    + destruct (mem c (dead s)); discriminate.
    + intro H. apply mem_In in H. congruence.
Qed.
Lemma time_code_0 s t : time_code s t = 0 <-> InOrder s t.
Proof. unfold time_code, InOrder. destruct (last s <=? t) eqn:E; [apply Z.leb_le in E|apply Z.leb_gt in E]; split; try discriminate; try reflexivity; lia. Qed.
Lemma val_code_0 s v ty : val_code s v ty = 0 <-> ValueOf s v ty.
Proof.
  unfold val_code, ValueOf. destruct (mem2 v ty (vals s)) eqn:E.
  - apply mem2_In in E. split; [intros _; exact E|reflexivity].
  - split; [discriminate|]. intro H. apply mem2_In in H. congruence.
Qed.
Lemma fresh_code_0 s id : (if mem id (types s) then 7 else 0) = 0 <-> Fresh s id.
Proof.
  unfold Fresh. destruct (mem id (types s)) eqn:E.
  - apply mem_In in E. split; [discriminate|contradiction].
  - split; [|reflexivity]. intros _ H. apply mem_In in H. congruence.
Qed.
Lemma first_code_cons c r : first_code (c :: r) = 0 <-> c = 0 /\ first_code r = 0.
Proof.
  cbn [first_code fold_right]. destruct (c =? 0) eqn:E.
  - apply Z.eqb_eq in E. tauto.
  - apply Z.eqb_neq in E. split; [intro H; contradiction|tauto].
Qed.
Lemma first_code_nil : first_code [] = 0 <-> True.
Proof. cbn. tauto. Qed.

Lemma check_step s e : check s e = 0 <-> Step s e.
Proof.
  destruct e; cbn [check]; rewrite ?first_code_cons, ?first_code_nil, ?type_code_0, ?time_code_0, ?val_code_0, ?fresh_code_0, ?cont_code_0.
  - split; [intros (A & B & _); constructor; assumption|intro H; inv H; tauto].
  - split; [intros (A & B & C & D & _); constructor; assumption|intro H; inv H; tauto].
  - split; [intros (A & B & _); constructor; assumption|intro H; inv H; tauto].
  - assert (Hc : (if cont_ok s c then 7 else 0) = 0 <-> ~ Alive s c).
    { unfold cont_ok, Alive. destruct (mem c (live s)) eqn:E.
      - apply mem_In in E. split; [discriminate|contradiction].
      - split; [|reflexivity]. intros _ H. apply mem_In in H. congruence. }
    assert (Hp : (if parent =? 0 then 0 else cont_code s parent) = 0 <-> (parent = 0 \/ Alive s parent)).
    { destruct (parent =? 0) eqn:E.
      - apply Z.eqb_eq in E. tauto.
      - apply Z.eqb_neq in E. rewrite cont_code_0. tauto. }
    rewrite Hc, Hp. split; [intros (A & B & C & D & _); constructor; assumption|intro H; inv H; tauto].
  - split; [intros (A & B & C & _); constructor; assumption|intro H; inv H; tauto].
  - split; [intros (A & B & C & _); constructor; assumption|intro H; inv H; tauto].
  - split; [intros (A & B & C & D & _); constructor; assumption|intro H; inv H; tauto].
  - split; [intros (A & B & C & D & _); constructor; assumption|intro H; inv H; tauto].
  - assert (Hd : (if Nat.eqb (depth_of c ty (depth s)) 0 then 6 else 0) = 0 <-> (0 < depth_of c ty (depth s))%nat).
    { destruct (Nat.eqb (depth_of c ty (depth s)) 0) eqn:E.
      - apply Nat.eqb_eq in E. split; [discriminate|lia].
      - apply Nat.eqb_neq in E. split; [lia|reflexivity]. }
    rewrite Hd. split; [intros (A & B & C & D & _); constructor; assumption|intro H; inv H; tauto].
  - split; [intros (A & B & C & _); constructor; assumption|intro H; inv H; tauto].
  - split; [intros (A & B & C & D & _); constructor; assumption|intro H; inv H; tauto].
  - split; [intros (A & B & C & D & _); constructor; assumption|intro H; inv H; tauto].
Qed.

Theorem paje_run_WF : forall tr s, paje_run s tr = true <-> WF s tr.
Proof.
  induction tr as [|e r IH]; intro s; cbn [paje_run].
  - split; [intros _; constructor|reflexivity].
  - rewrite andb_true_iff, Z.eqb_eq, check_step, IH. split; [intros [A B]; constructor; assumption|intro H; inv H; tauto].
Qed.
Theorem paje_ok_sound_complete : forall tr, paje_ok tr = true <-> WellFormed tr.
Proof. intro tr. apply paje_run_WF. Qed.

Lemma complaints_nil_iff : forall tr s i, complaints s i tr = [] <-> paje_run s tr = true.
Proof.
  induction tr as [|e r IH]; intros s i; cbn [complaints paje_run]; [tauto|].
  destruct (check s e =? 0) eqn:E; cbn [andb app].
  - apply IH.
  - split; discriminate.
Qed.

(** * consequences of well-formedness *)
Lemma last_next_ge s e : last s <= last (next s e).
Proof. destruct e; cbn; lia. Qed.
Lemma last_next_stamp s e t : stamp e = Some t -> Step s e -> last (next s e) = t.
Proof. intros Hs Hst. destruct e; cbn in Hs; inv Hs; inv Hst; unfold InOrder in *; cbn; lia. Qed.

Theorem wf_timestamps_sorted : forall tr s, WF s tr -> StronglySorted Z.le (stamps tr) /\ Forall (fun t => last s <= t) (stamps tr).
Proof.
  induction tr as [|e r IH]; intros s H; cbn [stamps]; [split; constructor|].
  inversion H as [|s' e' r' Hstep Hwf]; subst. destruct (IH _ Hwf) as [Hs Hf]. pose proof (last_next_ge s e) as Hge.
  destruct (stamp e) as [t|] eqn:Est.
  - pose proof (last_next_stamp s e t Est Hstep) as Hl. rewrite Hl in Hf.
    assert (Ht : last s <= t) by lia.
    split.
    + constructor; [exact Hs|exact Hf].
    + constructor; [exact Ht|]. eapply Forall_impl; [|exact Hf]. cbn. intros. lia.
  - split; [exact Hs|]. eapply Forall_impl; [|exact Hf]. cbn. intros. lia.
Qed.

Definition uses (e : ev) (c : Z) : Prop :=
  match e with
  | Destroy _ _ x | VarEv _ _ x | SetSt _ _ x _ | Push _ _ x _ | Pop _ _ x | Reset _ _ x | NewEv _ _ x _ => x = c
  | LinkEv _ _ x y => x = c \/ y = c
  | Create _ _ _ p => p = c /\ p <> 0
  | _ => False
  end.
Definition creates (e : ev) (c : Z) : Prop := match e with Create _ x _ _ => x = c | _ => False end.
Lemma creates_dec e c : creates e c \/ ~ creates e c.
Proof. destruct e; cbn; try (right; tauto). destruct (Z.eq_dec c0 c); [left|right]; assumption. Qed.

Lemma step_uses_alive s e c : Step s e -> uses e c -> Alive s c.
Proof.
  intros H U. destruct H as [| | |t c0 ty p Ho Hna Hty Hp| | | | | | |t ty c0 e0 Ho Hty Hc He|]; cbn in U; try contradiction; subst; try assumption.
  - destruct U as [-> Hn]. destruct Hp; [contradiction|assumption].
  - destruct U as [<-|<-]; assumption.
Qed.
Lemma not_alive_next s e c : ~ Alive s c -> ~ creates e c -> ~ Alive (next s e) c.
Proof.
  unfold Alive. intros Hn Hc. destruct e; cbn; try exact Hn.
  - intros [H|H]; [apply Hc; cbn; exact H|exact (Hn H)].
  - unfold remove_z. rewrite filter_In. intros [H _]. exact (Hn H).
Qed.

(* a container that is not alive (never created, or destroyed) is not used before a creation event for it *)
Theorem wf_no_use_unless_alive : forall tr s c pre e post,
  WF s tr -> ~ Alive s c -> tr = pre ++ e :: post -> uses e c -> exists x, In x pre /\ creates x c.
Proof.
  induction tr as [|a r IH]; intros s c pre e post H Hn Heq U.
  - destruct pre; discriminate.
  - inversion H as [|s' e' r' Hstep Hwf]; subst. destruct pre as [|b pre]; cbn in Heq; inversion Heq; subst.
    + exfalso. apply Hn. eapply step_uses_alive; eassumption.
    + destruct (creates_dec b c) as [Hc|Hc].
      * exists b. split; [left; reflexivity|exact Hc].
      * destruct (IH (next s b) c pre e post Hwf (not_alive_next s b c Hn Hc) eq_refl U) as [x [Hx Hcx]].
        exists x. split; [right; exact Hx|exact Hcx].
Qed.

Lemma destroy_not_alive s t ty c : ~ Alive (next s (Destroy t ty c)) c.
Proof. unfold Alive. cbn. unfold remove_z. rewrite filter_In. intros [_ H]. rewrite Z.eqb_refl in H. discriminate. Qed.

(** * the buffer *)
Section Buf.
Variable A : Type.
Notation bev := (Z * A)%type.
Definition sorted (l : list bev) : Prop := StronglySorted (fun x y => fst x <= fst y) l.

Lemma insert_r_spec (e : bev) : forall rl,
  exists l1 l2, rl = l1 ++ l2 /\ insert_r A e rl = l1 ++ e :: l2 /\ Forall (fun x => fst e < fst x) l1 /\
                match l2 with [] => True | x :: _ => fst x <= fst e end.
Proof.
  induction rl as [|e1 r IH]; cbn [insert_r].
  - exists [], []. repeat split; constructor.
  - destruct (fst e1 <=? fst e) eqn:E.
    + apply Z.leb_le in E. exists [], (e1 :: r). repeat split; [constructor|exact E].
    + apply Z.leb_gt in E. destruct IH as [l1 [l2 [H1 [H2 [H3 H4]]]]].
      exists (e1 :: l1), l2. subst r. rewrite H2. repeat split; [constructor; [lia|exact H3]|exact H4].
Qed.

(* stable insertion: the buffer is split in two, the new event goes after every event with a timestamp <= its own *)
Theorem insert_spec (e : bev) (buf : list bev) :
  exists l1 l2, buf = l1 ++ l2 /\ insert A e buf = l1 ++ e :: l2 /\ Forall (fun x => fst e < fst x) l2 /\
                match rev l1 with [] => True | x :: _ => fst x <= fst e end.
Proof.
  destruct (insert_r_spec e (rev buf)) as [r1 [r2 [H1 [H2 [H3 H4]]]]].
  exists (rev r2), (rev r1). unfold insert, Paje.bev in *. rewrite H2. repeat split.
  - rewrite <- rev_app_distr, <- H1, rev_involutive. reflexivity.
  - rewrite rev_app_distr. cbn [rev]. rewrite <- app_assoc. reflexivity.
  - apply Forall_rev. exact H3.
  - rewrite rev_involutive. exact H4.
Qed.

Lemma sorted_app l1 l2 : sorted (l1 ++ l2) <-> sorted l1 /\ sorted l2 /\ (forall x y, In x l1 -> In y l2 -> fst x <= fst y).
Proof.
  unfold sorted. induction l1 as [|a l1 IH]; cbn [app].
  - split; [intro H; repeat split; [constructor|exact H|intros x y []]|tauto].
  - split.
    + intro H. inv H. apply IH in H2. destruct H2 as [S1 [S2 Hc]]. rewrite Forall_app in H3. destruct H3 as [F1 F2].
      repeat split; [constructor; assumption|exact S2|].
      intros x y [<-|Hx] Hy; [rewrite Forall_forall in F2; apply F2, Hy|apply Hc; assumption].
    + intros [S1 [S2 Hc]]. inv S1. constructor.
      * apply IH. repeat split; [assumption|assumption|]. intros x y Hx Hy. apply Hc; [right; exact Hx|exact Hy].
      * rewrite Forall_app. split; [assumption|]. rewrite Forall_forall. intros y Hy. apply Hc; [left; reflexivity|exact Hy].
Qed.

Theorem insert_sorted (e : bev) (buf : list bev) : sorted buf -> sorted (insert A e buf).
Proof.
  intro Hs. destruct (insert_spec e buf) as [l1 [l2 [H1 [H2 [H3 H4]]]]]. rewrite H2. subst buf.
  apply sorted_app in Hs. destruct Hs as [S1 [S2 Hc]].
  assert (Hl1 : forall x, In x l1 -> fst x <= fst e).
  { intros x Hx. destruct (rev l1) as [|z rz] eqn:Er.
    - apply (f_equal (@rev _)) in Er. rewrite rev_involutive in Er. subst l1. inversion Hx.
    - apply (f_equal (@rev _)) in Er. rewrite rev_involutive in Er. cbn [rev] in Er. subst l1.
      apply in_app_or in Hx. destruct Hx as [Hx|[<-|[]]]; [|lia].
      apply sorted_app in S1. destruct S1 as [_ [_ Hc1]]. specialize (Hc1 x z Hx (or_introl eq_refl)). lia. }
  apply sorted_app. repeat split; [exact S1| |].
  - constructor; [exact S2|]. eapply Forall_impl; [|exact H3]. cbn. intros. lia.
  - intros x y Hx [<-|Hy]; [apply Hl1, Hx|apply Hc; assumption].
Qed.

Theorem insert_perm (e : bev) (buf : list bev) : Permutation (e :: buf) (insert A e buf).
Proof.
  destruct (insert_spec e buf) as [l1 [l2 [H1 [H2 _]]]]. rewrite H2. subst buf. apply Permutation_middle.
Qed.

Lemma dump_upto_spec lim : forall buf o k, dump_upto A lim buf = (o, k) ->
  buf = o ++ k /\ Forall (fun x => fst x <= lim) o.
Proof.
  induction buf as [|e r IH]; intros o k H; cbn [dump_upto] in H.
  - inv H. split; [reflexivity|constructor].
  - destruct (fst e >? lim) eqn:E.
    + inv H. split; [reflexivity|constructor].
    + destruct (dump_upto A lim r) as [o' k'] eqn:Ed. inv H. destruct (IH _ _ eq_refl) as [H1 H2]. subst r.
      split; [reflexivity|]. constructor; [|exact H2]. rewrite Z.gtb_ltb in E. apply Z.ltb_ge in E. exact E.
Qed.
Lemma dump_spec f lim buf o k : dump A f lim buf = (o, k) -> buf = o ++ k.
Proof.
  unfold dump. destruct f; intro H.
  - inv H. rewrite app_nil_r. reflexivity.
  - apply dump_upto_spec in H. tauto.
Qed.

(* hypothesis watched by the correspondence: no event is inserted with a timestamp smaller than one already written *)
Fixpoint ops_ok (buf file : list bev) (ops : list (bop A)) : Prop :=
  match ops with
  | [] => True
  | Ins _ e :: r => (forall x, In x file -> fst x <= fst e) /\ ops_ok (insert A e buf) file r
  | Dump _ f lim :: r => let '(o, k) := dump A f lim buf in ops_ok k (file ++ o) r
  end.

Theorem dump_monotone : forall ops buf file,
  sorted buf -> sorted file -> (forall x y, In x file -> In y buf -> fst x <= fst y) -> ops_ok buf file ops ->
  sorted (snd (brun A buf file ops)) /\ sorted (fst (brun A buf file ops)).
Proof.
  induction ops as [|op r IH]; intros buf file Sb Sf Hc Hok; cbn [brun].
  - cbn [fst snd]. split; assumption.
  - destruct op as [e|f lim]; cbn [ops_ok] in Hok.
    + destruct Hok as [He Hr]. apply IH; [apply insert_sorted; exact Sb|exact Sf| |exact Hr].
      intros x y Hx Hy. apply (Permutation_in _ (Permutation_sym (insert_perm e buf))) in Hy.
      destruct Hy as [<-|Hy]; [apply He, Hx|apply Hc; assumption].
    + destruct (dump A f lim buf) as [o k] eqn:Ed. pose proof (dump_spec _ _ _ _ _ Ed) as Hb. subst buf.
      apply sorted_app in Sb. destruct Sb as [So [Sk Hok']].
      apply IH; [exact Sk| | |exact Hok].
      * apply sorted_app. repeat split; [exact Sf|exact So|]. intros x y Hx Hy. apply Hc; [exact Hx|apply in_or_app; left; exact Hy].
      * intros x y Hx Hy. apply in_app_or in Hx. destruct Hx as [Hx|Hx]; [apply Hc; [exact Hx|apply in_or_app; right; exact Hy]|apply Hok'; assumption].
Qed.
End Buf.

(* without that hypothesis the file is not sorted: a forced dump followed by the late insertion of an earlier event,
   which is what resource-utilisation events do after a container destruction (recorded finding) *)
Lemma dump_not_monotone_refuted :
  exists ops : list (bop Z), ~ sorted Z (snd (brun Z [] [] ops)).
Proof.
  exists [Ins Z (3, 0); Dump Z true 3; Ins Z (1, 1); Dump Z true 5]. cbn. intro H. inv H. inv H3. cbn in H1. lia.
Qed.
