(** C47 — the Paje event grammar as SimGrid emits it, a checker for well-formed traces, and the trace buffer
    (src/instr/instr_paje_trace.cpp: PajeEvent::insert_into_buffer, dump_buffer).  Model only, no proofs.
    Aliases of types/values and of containers are integers (two separate name spaces, as in the files SimGrid writes);
    timestamps are integers (the decimal of the file scaled by 10^precision). *)
From SGV Require Import Base.Tactics.
Local Open Scope Z_scope.

Inductive ev :=
| DefType (kind id parent : Z)           (* 0 container, 1 variable, 2 state, 3 event type *)
| DefLink (id parent src dst : Z)        (* 4 *)
| DefValue (id ty : Z)                   (* 5 *)
| Create (t c ty parent : Z)             (* 6 *)
| Destroy (t ty c : Z)                   (* 7 *)
| VarEv (t ty c : Z)                     (* 8 9 10 set/add/sub variable *)
| SetSt (t ty c v : Z)                   (* 11 *)
| Push (t ty c v : Z)                    (* 12 *)
| Pop (t ty c : Z)                       (* 13 *)
| Reset (t ty c : Z)                     (* 14 *)
| LinkEv (t ty c endp : Z)               (* 15 16 start/end link *)
| NewEv (t ty c v : Z).                  (* 17 *)

Record st := { types : list Z; vals : list (Z * Z); live : list Z; dead : list Z; last : Z;
               depth : list (Z * Z * nat) }.

Definition mem (x : Z) (l : list Z) : bool := existsb (Z.eqb x) l.
Definition mem2 (x y : Z) (l : list (Z * Z)) : bool := existsb (fun p => (fst p =? x) && (snd p =? y)) l.
Fixpoint depth_of (c ty : Z) (d : list (Z * Z * nat)) : nat :=
  match d with
  | [] => O
  | (c', ty', n) :: r => if (c' =? c) && (ty' =? ty) then n else depth_of c ty r
  end.
Definition set_depth (c ty : Z) (n : nat) (d : list (Z * Z * nat)) : list (Z * Z * nat) := (c, ty, n) :: d.

(* 0 = the implicit root type / the parent of the root container *)
Definition type_ok (s : st) (ty : Z) : bool := (ty =? 0) || mem ty (types s).
Definition cont_ok (s : st) (c : Z) : bool := mem c (live s).

(* verdict on one event: 0 ok, 1 undeclared type, 2 undeclared value, 3 container never created, 4 container used after
   its destruction, 5 timestamp smaller than the previous one, 6 pop on an empty stack, 7 alias already in use *)
Definition cont_code (s : st) (c : Z) : Z := if cont_ok s c then 0 else if mem c (dead s) then 4 else 3.
Definition first_code (l : list Z) : Z := fold_right (fun c r => if c =? 0 then r else c) 0 l.
Definition time_code (s : st) (t : Z) : Z := if last s <=? t then 0 else 5.
Definition type_code (s : st) (ty : Z) : Z := if type_ok s ty then 0 else 1.
Definition val_code (s : st) (v ty : Z) : Z := if mem2 v ty (vals s) then 0 else 2.

Definition check (s : st) (e : ev) : Z :=
  match e with
  | DefType _ id parent => first_code [if mem id (types s) then 7 else 0; type_code s parent]
  | DefLink id parent src dst => first_code [if mem id (types s) then 7 else 0; type_code s parent; type_code s src; type_code s dst]
  | DefValue id ty => first_code [if mem id (types s) then 7 else 0; type_code s ty]
  | Create t c ty parent =>
      first_code [time_code s t; if cont_ok s c then 7 else 0; type_code s ty; if parent =? 0 then 0 else cont_code s parent]
  | Destroy t ty c => first_code [time_code s t; type_code s ty; cont_code s c]
  | VarEv t ty c => first_code [time_code s t; type_code s ty; cont_code s c]
  | SetSt t ty c v => first_code [time_code s t; type_code s ty; cont_code s c; val_code s v ty]
  | Push t ty c v => first_code [time_code s t; type_code s ty; cont_code s c; val_code s v ty]
  | Pop t ty c => first_code [time_code s t; type_code s ty; cont_code s c; if Nat.eqb (depth_of c ty (depth s)) O then 6 else 0]
  | Reset t ty c => first_code [time_code s t; type_code s ty; cont_code s c]
  | LinkEv t ty c endp => first_code [time_code s t; type_code s ty; cont_code s c; cont_code s endp]
  | NewEv t ty c v => first_code [time_code s t; type_code s ty; cont_code s c; val_code s v ty]
  end.

Definition with_last (s : st) (t : Z) : st :=
  {| types := types s; vals := vals s; live := live s; dead := dead s; last := Z.max (last s) t; depth := depth s |}.
Definition with_depth (s : st) (c ty : Z) (n : nat) : st :=
  {| types := types s; vals := vals s; live := live s; dead := dead s; last := last s; depth := set_depth c ty n (depth s) |}.
Definition remove_z (c : Z) (l : list Z) : list Z := filter (fun x => negb (x =? c)) l.

Definition next (s : st) (e : ev) : st :=
  match e with
  | DefType _ id _ | DefLink id _ _ _ =>
      {| types := id :: types s; vals := vals s; live := live s; dead := dead s; last := last s; depth := depth s |}
  | DefValue id ty =>
      {| types := id :: types s; vals := (id, ty) :: vals s; live := live s; dead := dead s; last := last s; depth := depth s |}
  | Create t c _ _ =>
      let s' := with_last s t in
      {| types := types s'; vals := vals s'; live := c :: live s'; dead := remove_z c (dead s'); last := last s';
         depth := filter (fun x => negb (fst (fst x) =? c)) (depth s') |}
  | Destroy t _ c =>
      let s' := with_last s t in
      {| types := types s'; vals := vals s'; live := remove_z c (live s'); dead := c :: dead s'; last := last s'; depth := depth s' |}
  | VarEv t _ _ | SetSt t _ _ _ | LinkEv t _ _ _ | NewEv t _ _ _ => with_last s t
  | Push t ty c _ => with_depth (with_last s t) c ty (S (depth_of c ty (depth s)))
  | Pop t ty c => with_depth (with_last s t) c ty (Nat.pred (depth_of c ty (depth s)))
  | Reset t ty c => with_depth (with_last s t) c ty O
  end.

(* the root container has the alias 0 and is never declared by SimGrid (Paje's convention): it is alive from the start *)
Definition init : st := {| types := []; vals := []; live := [0]; dead := []; last := 0; depth := [] |}.

Fixpoint paje_run (s : st) (tr : list ev) : bool :=
  match tr with [] => true | e :: r => (check s e =? 0) && paje_run (next s e) r end.
Definition paje_ok (tr : list ev) : bool := paje_run init tr.

(* all the complaints, the checker going on after each of them: (index, code) *)
Fixpoint complaints (s : st) (i : Z) (tr : list ev) : list Z :=
  match tr with
  | [] => []
  | e :: r => let c := check s e in (if c =? 0 then [] else [i; c]) ++ complaints (next s e) (i + 1) r
  end.

Definition stamp (e : ev) : option Z :=
  match e with
  | DefType _ _ _ | DefLink _ _ _ _ | DefValue _ _ => None
  | Create t _ _ _ | Destroy t _ _ | VarEv t _ _ | SetSt t _ _ _ | Push t _ _ _ | Pop t _ _ | Reset t _ _
  | LinkEv t _ _ _ | NewEv t _ _ _ => Some t
  end.
Fixpoint stamps (tr : list ev) : list Z :=
  match tr with [] => [] | e :: r => match stamp e with Some t => t :: stamps r | None => stamps r end end.

(** * The buffer: events are (timestamp, payload) *)
Section Buffer.
Variable A : Type.
Definition bev := (Z * A)%type.
(* insert_into_buffer scans from the END and stops at the first event whose timestamp is <= the new one;
   [insert_r] works on the reversed buffer *)
Fixpoint insert_r (e : bev) (rl : list bev) : list bev :=
  match rl with
  | [] => [e]
  | e1 :: r => if fst e1 <=? fst e then e :: e1 :: r else e1 :: insert_r e r
  end.
Definition insert (e : bev) (buf : list bev) : list bev := rev (insert_r e (rev buf)).

(* dump_buffer(force): everything when forced, else the leading events with timestamp <= last_timestamp_to_dump *)
Fixpoint dump_upto (lim : Z) (buf : list bev) : list bev * list bev :=
  match buf with
  | [] => ([], [])
  | e :: r => if fst e >? lim then ([], buf) else let '(o, k) := dump_upto lim r in (e :: o, k)
  end.
Definition dump (force : bool) (lim : Z) (buf : list bev) : list bev * list bev :=
  if force then (buf, []) else dump_upto lim buf.

Inductive bop := Ins (e : bev) | Dump (force : bool) (lim : Z).
(* (buffer, file) after a sequence of operations *)
Fixpoint brun (buf file : list bev) (ops : list bop) : list bev * list bev :=
  match ops with
  | [] => (buf, file)
  | Ins e :: r => brun (insert e buf) file r
  | Dump f lim :: r => let '(o, k) := dump f lim buf in brun k (file ++ o) r
  end.
End Buffer.

(** * Executable entry point: the trace as a flat integer list, one event = tag followed by its fields
    tags as in the file (8,9,10 -> VarEv; 15,16 -> LinkEv); output = complaints (index, code)* *)
Fixpoint parse (fuel : nat) (l : list Z) : list ev :=
  match fuel with
  | O => []
  | S f =>
      match l with
      | 4 :: a :: b :: c :: d :: r => DefLink a b c d :: parse f r
      | 5 :: a :: b :: r => DefValue a b :: parse f r
      | 6 :: t :: a :: b :: c :: r => Create t a b c :: parse f r
      | 7 :: t :: a :: b :: r => Destroy t a b :: parse f r
      | 11 :: t :: a :: b :: c :: r => SetSt t a b c :: parse f r
      | 12 :: t :: a :: b :: c :: r => Push t a b c :: parse f r
      | 13 :: t :: a :: b :: r => Pop t a b :: parse f r
      | 14 :: t :: a :: b :: r => Reset t a b :: parse f r
      | 17 :: t :: a :: b :: c :: r => NewEv t a b c :: parse f r
      | k :: a :: b :: c :: r =>
          if (0 <=? k) && (k <=? 3) then DefType k a b :: parse f (c :: r)
          else if (8 <=? k) && (k <=? 10) then VarEv a b c :: parse f r
          else if (15 <=? k) && (k <=? 16) then match r with d :: r' => LinkEv a b c d :: parse f r' | [] => [] end
          else []
      | [k; a; b] => if (0 <=? k) && (k <=? 3) then [DefType k a b] else []
      | _ => []
      end
  end.
Definition run_c47_check (l : list Z) : list Z :=
  let tr := parse (length l) l in [Z.of_nat (length tr)] ++ complaints init 0 tr.

(* buffer replay: ops as  0 t id (insert) | 1 force lim (dump);  output = ids in file order, then -1, then buffer ids *)
Fixpoint parse_ops (fuel : nat) (l : list Z) : list (bop Z) :=
  match fuel with
  | O => []
  | S f => match l with
           | 0 :: t :: id :: r => Ins Z (t, id) :: parse_ops f r
           | 1 :: fo :: lim :: r => Dump Z (fo =? 1) lim :: parse_ops f r
           | _ => []
           end
  end.
Definition run_c47_buffer (l : list Z) : list Z :=
  let '(buf, file) := brun Z [] [] (parse_ops (length l) l) in
  map snd file ++ [-1] ++ map snd buf.
