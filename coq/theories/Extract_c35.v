Require Import ExtrOcamlBasic.
Require Import SGV.Smpi.Blocks.
Extraction "c35_model.ml" run_c35_shift run_c35_shift_orig run_c35_merge run_c35_copied run_c35_e2e.
