Require Import ExtrOcamlBasic.
Require Import SGV.Routing.Global.
Extraction "c24_model.ml" run_global.
