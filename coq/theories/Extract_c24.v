Require Import ExtrOcamlBasic.
Require Import SGV.Routing.Global SGV.Routing.Bypass.
Extraction "c24_model.ml" run_global run_global_bp.
