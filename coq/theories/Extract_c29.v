Require Import ExtrOcamlBasic.
Require Import SGV.Smpi.CollSpec.
Extraction "c29_model.ml" run_c29_check run_c29_barrier run_c29_direct.
