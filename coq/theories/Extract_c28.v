Require Import ExtrOcamlBasic.
Require Import SGV.Smpi.Match.
Extraction "c28_model.ml" run_c28_match run_c28_mailbox.
