Require Import ExtrOcamlBasic.
Require Import SGV.Kernel.Engine.
Extraction "c03_model.ml" run_eng.
