Require Import ExtrOcamlBasic.
Require Import SGV.Kernel.TimedComm.
Extraction "c12_model.ml" run_tc.
