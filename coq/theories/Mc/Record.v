(** C41 — RecordTrace::to_string and RecordTrace::RecordTrace(const std::string&) (src/mc/mc_record.cpp).
    A path is a list of (actor id, times_considered); its text is "aid[/times];aid[/times];..." where "/times" is
    omitted when times = 0.  The constructor reads each chunk with sscanf("%u/%d") and then jumps after the next ';'.
    Characters are their codes.  Model only. *)
From Coq Require Import DecimalN DecimalPos Decimal NArith.
From SGV Require Import Base.Tactics.
Local Open Scope Z_scope.

Fixpoint print_uint (d : uint) : list Z :=
  match d with
  | Nil => []
  | D0 d => 48 :: print_uint d | D1 d => 49 :: print_uint d | D2 d => 50 :: print_uint d
  | D3 d => 51 :: print_uint d | D4 d => 52 :: print_uint d | D5 d => 53 :: print_uint d
  | D6 d => 54 :: print_uint d | D7 d => 55 :: print_uint d | D8 d => 56 :: print_uint d
  | D9 d => 57 :: print_uint d
  end.
Definition digit_code (c : Z) : option (uint -> uint) :=
  if c =? 48 then Some D0 else if c =? 49 then Some D1 else if c =? 50 then Some D2 else if c =? 51 then Some D3
  else if c =? 52 then Some D4 else if c =? 53 then Some D5 else if c =? 54 then Some D6 else if c =? 55 then Some D7
  else if c =? 56 then Some D8 else if c =? 57 then Some D9 else None.
(** the longest prefix of digits *)
Fixpoint scan_digits (l : list Z) : uint * list Z :=
  match l with
  | [] => (Nil, [])
  | c :: r => match digit_code c with
              | Some f => let '(d, r') := scan_digits r in (f d, r')
              | None => (Nil, l)
              end
  end.
Definition is_ws (c : Z) : bool := (c =? 32) || ((9 <=? c) && (c <=? 13)).
Fixpoint skip_ws (l : list Z) : list Z :=
  match l with c :: r => if is_ws c then skip_ws r else l | [] => [] end.
(** one %u / %d conversion of sscanf on a non-negative number: white space, optional '+', at least one digit.
    (A '-' sign and values that do not fit the C type are not modelled: [None] / the unbounded value.) *)
Definition scan_num (l : list Z) : option (N * list Z) :=
  let l1 := skip_ws l in
  let l2 := match l1 with 43 :: r => r | _ => l1 end in
  let '(d, r) := scan_digits l2 in
  match d with Nil => None | _ => Some (N.of_uint d, r) end.
(** sscanf(current, "%u/%d", &aid, &times): count 1 or 2 is accepted, times stays 0 when it is not read *)
Definition scan_chunk (l : list Z) : option (N * N) :=
  match scan_num l with
  | None => None
  | Some (a, r) => match r with
                   | 47 :: r' => match scan_num r' with Some (t, _) => Some (a, t) | None => Some (a, 0%N) end
                   | _ => Some (a, 0%N)
                   end
  end.
(** strchr(current, ';') + 1 *)
Fixpoint after_semicolon (l : list Z) : option (list Z) :=
  match l with [] => None | c :: r => if c =? 59 then Some r else after_semicolon r end.
Fixpoint parse_loop (fuel : nat) (l : list Z) : option (list (N * N)) :=
  match fuel with
  | O => None
  | S f => match l with
           | [] => Some []                               (* while ( *current) *)
           | _ => match scan_chunk l with
                  | None => None                         (* throw std::invalid_argument *)
                  | Some e => match after_semicolon l with
                              | None => Some [e]
                              | Some r => match parse_loop f r with Some p => Some (e :: p) | None => None end
                              end
                  end
           end
  end.
Definition parse (l : list Z) : option (list (N * N)) :=
  match l with [] => None (* data.empty(): throw *) | _ => parse_loop (S (length l)) l end.

Definition elem_str (e : N * N) : list Z :=
  print_uint (N.to_uint (fst e)) ++ (if N.eqb (snd e) 0 then [] else 47 :: print_uint (N.to_uint (snd e))).
Fixpoint to_string (p : list (N * N)) : list Z :=
  match p with
  | [] => []
  | [e] => elem_str e
  | e :: r => elem_str e ++ 59 :: to_string r
  end.

(** executable entry points: run_c41_parse: character codes -> [1; n; aid; times; ...] | [0]
                             run_c41_to_string: [aid; times; ...] -> character codes *)
Definition run_c41_parse (l : list Z) : list Z :=
  match parse l with
  | Some p => 1 :: Z.of_nat (length p) :: flat_pairs (map (fun e => (Z.of_N (fst e), Z.of_N (snd e))) p)
  | None => [0]
  end.
Definition run_c41_to_string (l : list Z) : list Z :=
  let '(ps, _) := take_pairs (length l) l in
  to_string (map (fun ab => (Z.to_N (fst ab), Z.to_N (snd ab))) ps).
