(** C40 — Mazurkiewicz traces over a dependency relation: a decision procedure for trace equivalence by normal forms.
    Model only (no proofs; SGV.Mc.MazurProofs).

    A word is a list of letters (nat); two words are equivalent when one is obtained from the other by repeatedly swapping
    adjacent independent letters.  [extract a t] is the step of the checker's own MazurkiewiczTraces::are_equivalent
    (Execution.cpp): find the first occurrence of [a] in [t]; it can be brought to the front iff every letter before it is
    independent of [a]; the rest of the word is returned.  The normal form repeatedly extracts the smallest letter that can
    be brought to the front (lexicographically least representative of the class). *)
From SGV Require Import Base.Tactics.
Local Open Scope nat_scope.

Section Mazur.
Variable dep : nat -> nat -> bool.

Fixpoint extract (a : nat) (t : list nat) : option (list nat) :=
  match t with
  | [] => None
  | x :: r => if x =? a then Some r
              else if dep x a then None
              else match extract a r with Some r' => Some (x :: r') | None => None end
  end.

Definition extractable (t : list nat) (a : nat) : bool :=
  match extract a t with Some _ => true | None => false end.

Fixpoint lmin (d : nat) (l : list nat) : nat :=
  match l with [] => d | x :: r => Nat.min x (lmin x r) end.

Fixpoint nf_fuel (fuel : nat) (t : list nat) : list nat :=
  match fuel, t with
  | S f, x :: _ =>
      let a := lmin x (filter (extractable t) t) in
      match extract a t with
      | Some r => a :: nf_fuel f r
      | None => []          (* unreachable: proved *)
      end
  | _, _ => []
  end.
Definition nf (t : list nat) : list nat := nf_fuel (length t) t.

(* the checker's own test, as written in MazurkiewiczTraces::are_equivalent *)
Fixpoint are_equivalent (fuel : nat) (u v : list nat) : bool :=
  match fuel with
  | O => false
  | S f => match u with
           | [] => match v with [] => true | _ => false end
           | a :: u' => match extract a v with Some v' => are_equivalent f u' v' | None => false end
           end
  end.
End Mazur.

(** executable entry point: input n, dep[n*n] (letters are 0..n-1), then the word -> its normal form *)
Local Open Scope Z_scope.
Definition run_c40_nf (inp : list Z) : list Z :=
  match inp with
  | zn :: r =>
      let n := Z.to_nat zn in
      let '(m, w) := take_n (n * n) r in
      let rows := (fix chunk (k : nat) (l : list Z) : list (list Z) :=
                     match k with O => [] | S k' => let '(row, rest) := take_n n l in row :: chunk k' rest end) n m in
      let dep := fun a b => Z.eqb (nth b (nth a rows []) 0) 1 in
      map Z.of_nat (nf dep (map Z.to_nat w))
  | [] => [-1]
  end.
