(** C38 — the mechanised core of "reductions are sound": on an abstract transition system whose independence relation
    satisfies the commutation conditions (what C39 states for Transition::depends), a depth-first search pruned with sleep
    sets still visits every dead state (terminal or deadlock) reachable from its start state.
    This is the classical theorem (Godefroid 1996, Thm 5.2).  The race analyses of DPOR/SDPOR/ODPOR/UDPOR, which decide
    which *additional* transitions a state must explore, are NOT mechanised; they are checked per program by checks/C38.py. *)
From SGV Require Import Base.Tactics.

Section SleepSets.
  Variable St T : Type.
  Variable T_eq_dec : forall a b : T, {a = b} + {a <> b}.
  (* transitions are partial functions on states *)
  Variable step : St -> T -> option St.
  (* the transitions enabled in a state, in the order in which the search considers them *)
  Variable en : St -> list T.
  Hypothesis en_spec : forall s t, In t (en s) <-> step s t <> None.
  Variable indep : T -> T -> bool.
  Hypothesis indep_sym : forall a b, indep a b = indep b a.
  (* independent transitions enabled together commute and do not disable each other ... *)
  Hypothesis indep_comm : forall s a b s1 s2,
    indep a b = true -> step s a = Some s1 -> step s b = Some s2 ->
    exists s3, step s1 b = Some s3 /\ step s2 a = Some s3.
  (* ... and do not enable each other *)
  Hypothesis indep_back : forall s a b s1 s3,
    indep a b = true -> step s a = Some s1 -> step s1 b = Some s3 -> exists s2, step s b = Some s2.

  Fixpoint run (s : St) (w : list T) : option St :=
    match w with
    | [] => Some s
    | a :: r => match step s a with Some s' => run s' r | None => None end
    end.

  Definition dead (s : St) : Prop := en s = [].

  (** The sleep-set search started in [s] with sleep set [Z] visits [d].  From [s] it fires, in the order of [en s], the
      enabled transitions that are not asleep; the successor by [t] sleeps on what was asleep or already fired here and is
      independent of [t]. *)
  Inductive visits : St -> list T -> St -> Prop :=
  | v_here : forall s Z, visits s Z s
  | v_step : forall s Z pre t post s' d,
      en s = pre ++ t :: post -> ~ In t Z -> step s t = Some s' ->
      visits s' (filter (fun z => indep z t) (Z ++ pre)) d ->
      visits s Z d.

  (** [z] is an initial of the word [w]: it occurs in [w] and is independent of everything before its first occurrence *)
  Fixpoint initb (z : T) (w : list T) : bool :=
    match w with
    | [] => false
    | x :: r => if T_eq_dec x z then true else indep x z && initb z r
    end.

  Fixpoint remove_first (z : T) (w : list T) : list T :=
    match w with
    | [] => []
    | x :: r => if T_eq_dec x z then r else x :: remove_first z r
    end.

  Lemma init_enabled : forall z w s d, initb z w = true -> run s w = Some d -> exists s', step s z = Some s'.
  Proof.
    intros z w. induction w as [|x r IH]; intros s d Hi Hr; cbn [initb run] in *; [discriminate|].
    destruct (step s x) as [s1|] eqn:Hx; [|discriminate].
    destruct (T_eq_dec x z) as [->|Hne].
    - eauto.
    - apply andb_true_iff in Hi. destruct Hi as (Hind & Hi).
      destruct (IH _ _ Hi Hr) as (s3 & H3).
      eapply indep_back; eauto.
  Qed.

  Lemma init_to_front : forall z w s d,
    initb z w = true -> run s w = Some d -> run s (z :: remove_first z w) = Some d.
  Proof.
    intros z w. induction w as [|x r IH]; intros s d Hi Hr; cbn [initb] in Hi; [discriminate|].
    cbn [remove_first]. destruct (T_eq_dec x z) as [->|Hne]; [assumption|].
    apply andb_true_iff in Hi. destruct Hi as (Hind & Hi).
    cbn [run] in Hr. destruct (step s x) as [s1|] eqn:Hx; [|discriminate].
    specialize (IH _ _ Hi Hr). cbn [run] in IH.
    destruct (step s1 z) as [s3|] eqn:H1z; [|discriminate].
    destruct (indep_back _ _ _ _ _ Hind Hx H1z) as (s2 & H2).
    destruct (indep_comm _ _ _ _ _ Hind Hx H2) as (s3' & Ha & Hb).
    rewrite H1z in Ha. inv Ha.
    cbn [run]. rewrite H2, Hb. assumption.
  Qed.

  Lemma init_after_removal : forall t z w,
    initb t w = true -> indep z t = true -> initb z (remove_first t w) = true -> initb z w = true.
  Proof.
    intros t z w. induction w as [|x r IH]; intros Ht Hind Hz; cbn [initb remove_first] in *; [discriminate|].
    destruct (T_eq_dec x t) as [->|Hxt].
    - destruct (T_eq_dec t z); [reflexivity|]. rewrite indep_sym, Hind, Hz. reflexivity.
    - apply andb_true_iff in Ht. destruct Ht as (_ & Ht).
      cbn [initb] in Hz. destruct (T_eq_dec x z); [reflexivity|].
      apply andb_true_iff in Hz. destruct Hz as (Hxz & Hz).
      rewrite Hxz, (IH Ht Hind Hz). reflexivity.
  Qed.

  Lemma remove_first_length : forall t w, initb t w = true -> S (length (remove_first t w)) = length w.
  Proof.
    intros t w. induction w as [|x r IH]; intros Hi; cbn [initb remove_first length] in *; [discriminate|].
    destruct (T_eq_dec x t); [reflexivity|].
    apply andb_true_iff in Hi. destruct Hi as (_ & Hi). cbn [length]. rewrite (IH Hi). reflexivity.
  Qed.

  Lemma first_such : forall (p : T -> bool) l,
    (exists x, In x l /\ p x = true) ->
    exists pre t post, l = pre ++ t :: post /\ p t = true /\ forall y, In y pre -> p y = false.
  Proof.
    intros p l. induction l as [|a l IH]; intros (x & Hin & Hp); [inversion Hin|].
    destruct (p a) eqn:Hpa.
    - exists [], a, l. split; [reflexivity|]. split; [assumption|]. intros y [].
    - destruct IH as (pre & t & post & -> & Ht & Hpre).
      { destruct Hin as [->|Hin]; [congruence|eauto]. }
      exists (a :: pre), t, post. split; [reflexivity|]. split; [assumption|].
      intros y [->|Hy]; auto.
  Qed.

  (** Main theorem: a dead state reached by [w] is visited provided no sleeping transition is an initial of [w] *)
  Theorem sleep_set_search_complete : forall w s Z d,
    run s w = Some d -> dead d -> (forall z, In z Z -> initb z w = false) -> visits s Z d.
  Proof.
    intros w. remember (length w) as n eqn:Hn. revert w Hn.
    induction n as [|n IH]; intros w Hn s Z d Hr Hd HZ.
    - destruct w; [|discriminate]. cbn [run] in Hr. inv Hr. constructor.
    - destruct w as [|a r]; [discriminate|].
      assert (Ha : initb a (a :: r) = true).
      { cbn [initb]. destruct (T_eq_dec a a); [reflexivity|congruence]. }
      destruct (init_enabled _ _ _ _ Ha Hr) as (sa & Hsa).
      destruct (first_such (fun t => initb t (a :: r)) (en s)) as (pre & t & post & Hen & Ht & Hpre).
      { exists a. split; [|assumption]. apply en_spec. congruence. }
      pose proof (init_to_front _ _ _ _ Ht Hr) as Hfront. cbn [run] in Hfront.
      destruct (step s t) as [s'|] eqn:Hst; [|discriminate].
      eapply v_step; eauto.
      + intros Hin. rewrite (HZ _ Hin) in Ht. discriminate.
      + apply (IH (remove_first t (a :: r))); [| assumption | assumption |].
        * pose proof (remove_first_length _ _ Ht) as Hl. cbn [length] in Hn, Hl. lia.
        * intros z Hz. apply filter_In in Hz. destruct Hz as (Hz & Hind).
          destruct (initb z (remove_first t (a :: r))) eqn:Hzi; [|reflexivity].
          pose proof (init_after_removal _ _ _ Ht Hind Hzi) as Hzw.
          apply in_app_or in Hz. destruct Hz as [Hz|Hz].
          -- rewrite (HZ _ Hz) in Hzw. discriminate.
          -- rewrite (Hpre _ Hz) in Hzw. discriminate.
  Qed.

  (** the search only visits reachable states *)
  Theorem sleep_set_search_sound : forall s Z d, visits s Z d -> exists w, run s w = Some d.
  Proof.
    intros s Z d H. induction H as [s Z|s Z pre t post s' d Hen Hn Hs Hv (w & Hw)].
    - exists []. reflexivity.
    - exists (t :: w). cbn [run]. rewrite Hs. assumption.
  Qed.

  (** with an empty initial sleep set: exactly the reachable dead states are visited dead states *)
  Corollary sleep_sets_preserve_dead_states : forall s d,
    dead d -> ((exists w, run s w = Some d) <-> visits s [] d).
  Proof.
    intros s d Hd. split.
    - intros (w & Hw). eapply sleep_set_search_complete; eauto. intros z [].
    - apply sleep_set_search_sound.
  Qed.
End SleepSets.

(** * A concrete instance (non-vacuity): two actors, each with one transition, fully independent *)
Definition ex_step (s : bool * bool) (t : bool) : option (bool * bool) :=
  let '(a, b) := s in
  if t then (if a then None else Some (true, b)) else (if b then None else Some (a, true)).
Definition ex_en (s : bool * bool) : list bool :=
  let '(a, b) := s in (if a then [] else [true]) ++ (if b then [] else [false]).
Definition ex_indep (x y : bool) : bool := negb (Bool.eqb x y).

Lemma ex_en_spec : forall s t, In t (ex_en s) <-> ex_step s t <> None.
Proof.
  intros [[|] [|]] [|]; cbn; split; intros H; try discriminate; try (exfalso; apply H; reflexivity); auto;
    repeat (destruct H as [H|H]; try discriminate); try contradiction.
Qed.
Lemma ex_indep_sym : forall a b, ex_indep a b = ex_indep b a.
Proof. intros [|] [|]; reflexivity. Qed.
Lemma ex_indep_comm : forall s a b s1 s2,
  ex_indep a b = true -> ex_step s a = Some s1 -> ex_step s b = Some s2 ->
  exists s3, ex_step s1 b = Some s3 /\ ex_step s2 a = Some s3.
Proof.
  intros [[|] [|]] [|] [|] s1 s2 Hi H1 H2; cbn in *; try discriminate; inv H1; inv H2; cbn; eauto.
Qed.
Lemma ex_indep_back : forall s a b s1 s3,
  ex_indep a b = true -> ex_step s a = Some s1 -> ex_step s1 b = Some s3 -> exists s2, ex_step s b = Some s2.
Proof.
  intros [[|] [|]] [|] [|] s1 s3 Hi H1 H3; cbn in *; try discriminate; inv H1; cbn in *; try discriminate; eauto.
Qed.
