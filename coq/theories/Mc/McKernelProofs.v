(** C39 — transitions the checker declares independent commute on the synchronisation kernel (mutex and semaphore
    groups), neither disabling the other.  The verdicts come from the regenerated table (Gen/DepLut.v). *)
From SGV Require Import Base.Tactics Mc.Trans Mc.McKernel Gen.DepLut.
Local Open Scope Z_scope.

Ltac cell H :=
  match type of H with
  | context [lut_get dep_table ?i ?j] =>
      let c := eval vm_compute in (lut_get dep_table i j) in change (lut_get dep_table i j) with c in H
  end.
(* turn  depends (Plain ..) (Plain ..) = Some false  into what the table cell says *)
Ltac simp_dep H Hne :=
  unfold depends, depends_with, core_of, mk_core in H; cbn [tr_aid unwrap aid ty o1 o2 mty sty] in H;
  rewrite (proj2 (Z.eqb_neq _ _) Hne) in H;
  cbv [T_MUTEX_ASYNC_LOCK T_MUTEX_TEST T_MUTEX_TRYLOCK T_MUTEX_UNLOCK T_MUTEX_WAIT T_SEM_ASYNC_LOCK T_SEM_UNLOCK
       T_SEM_WAIT] in H;
  cbn [Nat.ltb Nat.leb] in H; cell H; cbn [eval aid ty o1 o2] in H.

Ltac bool_crush :=
  repeat match goal with
         | H : _ && _ = true |- _ => apply andb_true_iff in H; destruct H
         | H : _ || _ = false |- _ => apply orb_false_iff in H; destruct H
         | H : negb _ = true |- _ => apply negb_true_iff in H
         | H : negb _ = false |- _ => apply negb_false_iff in H
         | H : (_ =? _) = true |- _ => apply Z.eqb_eq in H; subst
         | H : Some _ = Some _ |- _ => inversion H; clear H; subst
         end.

Lemma existsb_snoc : forall a b l, existsb (Z.eqb a) (l ++ [b]) = existsb (Z.eqb a) l || (a =? b).
Proof. intros a b l. rewrite existsb_app. cbn. rewrite orb_false_r. reflexivity. Qed.

(** same mutex, different actors, both enabled, declared independent *)
Lemma mutex_commute : forall x a1 a2 m p1 p2,
  wfm x -> a1 <> a2 -> men x a1 p1 = true -> men x a2 p2 = true ->
  depends (Plain (core_of (KM a1 m p1))) (Plain (core_of (KM a2 m p2))) = Some false ->
  fst (mstep (fst (mstep x a1 p1)) a2 p2) = fst (mstep (fst (mstep x a2 p2)) a1 p1) /\
  snd (mstep (fst (mstep x a2 p2)) a1 p1) = snd (mstep x a1 p1) /\
  snd (mstep (fst (mstep x a1 p1)) a2 p2) = snd (mstep x a2 p2) /\
  men (fst (mstep x a1 p1)) a2 p2 = true /\ men (fst (mstep x a2 p2)) a1 p1 = true.
Proof.
  intros [ow q] a1 a2 m p1 p2 Hwf Hne He1 He2 Hd. unfold wfm in Hwf. cbn [owner mq] in Hwf.
  assert (Hne' : a2 <> a1) by congruence.
  destruct p1, p2; simp_dep Hd Hne; rewrite ?Z.eqb_refl in Hd; try discriminate Hd; clear Hd;
    unfold men, mstep, is_owner, holds_or_queued in *; cbn [owner mq fst snd] in *;
    destruct ow as [o|]; cbn [owner mq fst snd] in *;
    try (rewrite (Hwf eq_refl) in *; cbn in *);
    try discriminate;
    try (destruct q as [|b r]; cbn [owner mq fst snd app existsb] in *);
    rewrite ?existsb_snoc in *;
    bool_crush;
    repeat match goal with
           | |- context [?u =? ?v] => destruct (Z.eqb_spec u v); subst; cbn
           | H : context [?u =? ?v] |- _ => destruct (Z.eqb_spec u v); subst; cbn in H
           end;
    try congruence; try discriminate; cbn; repeat split; try reflexivity; try congruence; auto;
    repeat match goal with H : existsb _ _ = _ |- _ => rewrite H end; cbn; try reflexivity; try congruence; auto;
    cbn in *; rewrite ?orb_false_r in *; try assumption; try congruence.
Qed.

Lemma existsb_remove : forall a b l, existsb (Z.eqb a) (remove_z b l) = negb (a =? b) && existsb (Z.eqb a) l.
Proof.
  intros a b l. induction l as [|c l IH]; cbn [remove_z existsb].
  - rewrite andb_false_r. reflexivity.
  - destruct (Z.eqb_spec b c) as [Hbc|Hbc]; cbn [existsb]; rewrite IH;
      destruct (Z.eqb_spec a c); destruct (Z.eqb_spec a b); subst; cbn; try reflexivity; try congruence.
Qed.

Definition wfs (x : sem) : Prop := 0 <= val x.

Ltac atoms :=
  repeat match goal with
         | |- context [existsb ?f ?l] => is_var l; destruct (existsb f l)
         | |- context [?u =? ?v] => destruct (Z.eqb_spec u v); subst
         end; cbn; try reflexivity; try congruence.

(** same semaphore, different actors, both enabled, declared independent *)
Lemma sem_commute : forall x a1 a2 k p1 p2,
  wfs x -> a1 <> a2 -> sen x a1 p1 = true -> sen x a2 p2 = true ->
  depends (Plain (core_of (KS a1 k p1))) (Plain (core_of (KS a2 k p2))) = Some false ->
  same_sem (sstep (sstep x a1 p1) a2 p2) (sstep (sstep x a2 p2) a1 p1) /\
  sen (sstep x a1 p1) a2 p2 = true /\ sen (sstep x a2 p2) a1 p1 = true.
Proof.
  intros [v q g] a1 a2 k p1 p2 Hwf Hne He1 He2 Hd. unfold wfs in Hwf. cbn [val] in Hwf.
  assert (Hne' : a2 <> a1) by congruence.
  destruct p1, p2; simp_dep Hd Hne; rewrite ?Z.eqb_refl in Hd; try discriminate Hd; clear Hd;
    unfold sen, sstep, same_sem in *; cbn [val sq sgr] in *;
    destruct (0 <? v) eqn:Ev; destruct q as [|b r]; cbn [val sq sgr app existsb] in *;
    repeat match goal with
           | |- context [0 <? ?e] => let E := fresh "E" in destruct (0 <? e) eqn:E; cbn [val sq sgr app existsb]
           end;
    try lia; bool_crush;
    repeat split; try lia; try reflexivity; intros;
    repeat (rewrite existsb_app || rewrite existsb_remove); cbn [existsb];
    repeat match goal with H : existsb _ _ = _ |- _ => rewrite H end;
    repeat match goal with |- context [?u =? ?w] => destruct (Z.eqb_spec u w); subst end;
    repeat match goal with |- context [existsb ?f ?l] => destruct (existsb f l) end;
    cbn; try reflexivity; try congruence; try lia.
Qed.

(** ** lifting to the whole state *)
Lemma upd_same : forall A (f : Z -> A) k v, upd f k v k = v.
Proof. intros. unfold upd. rewrite Z.eqb_refl. reflexivity. Qed.
Lemma upd_other : forall A (f : Z -> A) k v k', k' <> k -> upd f k v k' = f k'.
Proof. intros A f k v k' H. unfold upd. destruct (Z.eqb_spec k' k); [contradiction|reflexivity]. Qed.
Lemma same_sem_refl : forall x, same_sem x x.
Proof. intros x. repeat split. Qed.

Definition wf_all (s : st) : Prop := wf s /\ forall k, wfs (S s k).

Lemma obs_commute : forall (Ob : Z -> list Z) a1 a2 (r1 r2 : option Z) a, a1 <> a2 ->
  match r2 with
  | Some v => upd (match r1 with Some w => upd Ob a1 (w :: Ob a1) | None => Ob end) a2
                  (v :: (match r1 with Some w => upd Ob a1 (w :: Ob a1) | None => Ob end) a2)
  | None => match r1 with Some w => upd Ob a1 (w :: Ob a1) | None => Ob end
  end a =
  match r1 with
  | Some w => upd (match r2 with Some v => upd Ob a2 (v :: Ob a2) | None => Ob end) a1
                  (w :: (match r2 with Some v => upd Ob a2 (v :: Ob a2) | None => Ob end) a1)
  | None => match r2 with Some v => upd Ob a2 (v :: Ob a2) | None => Ob end
  end a.
Proof.
  intros Ob a1 a2 r1 r2 a Hne. destruct r1, r2; unfold upd;
    destruct (Z.eqb_spec a a1); destruct (Z.eqb_spec a a2); destruct (Z.eqb_spec a1 a2); destruct (Z.eqb_spec a2 a1);
    subst; try congruence; reflexivity.
Qed.

Theorem commute : forall s t1 t2,
  wf_all s -> kaid t1 <> kaid t2 -> enabled s t1 = true -> enabled s t2 = true ->
  depends (Plain (core_of t1)) (Plain (core_of t2)) = Some false ->
  eqst (step (step s t1) t2) (step (step s t2) t1) /\
  enabled (step s t1) t2 = true /\ enabled (step s t2) t1 = true.
Proof.
  intros s t1 t2 [Hwm Hws] Hne He1 He2 Hd.
  destruct t1 as [a1 m1 p1|a1 k1 p1]; destruct t2 as [a2 m2 p2|a2 k2 p2]; cbn [kaid] in Hne; cbn [enabled] in He1, He2.
  - (* two mutex transitions *)
    destruct (Z.eq_dec m1 m2) as [->|Hm].
    + destruct (mutex_commute (M s m2) a1 a2 m2 p1 p2 (Hwm m2) Hne He1 He2 Hd) as (Hx & Hr1 & Hr2 & Hn1 & Hn2).
      cbn [step enabled M S O]. rewrite !upd_same. (split; [unfold eqst; split; [|split] | split]).
      * intros m. cbn [M]. unfold upd. destruct (m =? m2); [exact Hx|reflexivity].
      * intros k. apply same_sem_refl.
      * intros a. cbn [O]. rewrite Hr1, Hr2. apply obs_commute. exact Hne.
      * exact Hn1.
      * exact Hn2.
    + assert (Hm' : m2 <> m1) by congruence.
      cbn [step enabled M S O]. rewrite !(upd_other _ _ m1 _ m2 Hm'), !(upd_other _ _ m2 _ m1 Hm). (split; [unfold eqst; split; [|split] | split]).
      * intros m. cbn [M]. unfold upd. destruct (Z.eqb_spec m m2); destruct (Z.eqb_spec m m1); subst; try congruence; reflexivity.
      * intros k. apply same_sem_refl.
      * intros a. cbn [O]. apply obs_commute. exact Hne.
      * exact He2.
      * exact He1.
  - (* mutex, semaphore: different objects *)
    cbn [step enabled M S O]. (split; [unfold eqst; split; [|split] | split]); try assumption; try reflexivity; intros k; apply same_sem_refl.
  - cbn [step enabled M S O]. (split; [unfold eqst; split; [|split] | split]); try assumption; try reflexivity; intros k; apply same_sem_refl.
  - (* two semaphore transitions *)
    destruct (Z.eq_dec k1 k2) as [->|Hk].
    + destruct (sem_commute (S s k2) a1 a2 k2 p1 p2 (Hws k2) Hne He1 He2 Hd) as (Hx & Hn1 & Hn2).
      cbn [step enabled M S O]. rewrite !upd_same. (split; [unfold eqst; split; [|split] | split]); try reflexivity; try assumption.
      intros k. cbn [S]. unfold upd. destruct (k =? k2); [exact Hx|apply same_sem_refl].
    + assert (Hk' : k2 <> k1) by congruence.
      cbn [step enabled M S O]. rewrite !(upd_other _ _ k1 _ k2 Hk'), !(upd_other _ _ k2 _ k1 Hk).
      (split; [unfold eqst; split; [|split] | split]); try reflexivity; try assumption.
      intros k. cbn [S]. unfold upd. destruct (Z.eqb_spec k k2); destruct (Z.eqb_spec k k1); subst; try congruence; apply same_sem_refl.
Qed.

(** the side conditions are invariants: the theorem applies in every state reachable from a well-formed one *)
Lemma wf_step : forall s t, wf_all s -> wf_all (step s t).
Proof.
  intros s t [Hm Hs]. destruct t as [a m op|a k op]; split.
  - intros m'. cbn [step M]. unfold upd. destruct (m' =? m); [|apply Hm].
    specialize (Hm m). unfold wfm in *. destruct (M s m) as [ow q]. cbn [owner mq] in *.
    destruct op; cbn [mstep fst owner mq]; try assumption.
    + destruct ow; cbn; discriminate.
    + destruct ow; cbn; [assumption|discriminate].
    + destruct q; cbn; [reflexivity|discriminate].
  - intros k'. cbn [step S]. apply Hs.
  - intros m'. cbn [step M]. apply Hm.
  - intros k'. cbn [step S]. unfold upd. destruct (k' =? k); [|apply Hs].
    specialize (Hs k). unfold wfs in *. destruct (S s k) as [v q g]. cbn [val] in *.
    destruct op; cbn [sstep val sq sgr].
    + destruct (0 <? v) eqn:E; cbn [val]; lia.
    + destruct q; cbn [val]; lia.
    + assumption.
Qed.
