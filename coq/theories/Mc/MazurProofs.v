(** C40 — proofs about SGV.Mc.Mazur: nf t1 = nf t2 <-> t1 and t2 are Mazurkiewicz-equivalent. *)
From SGV Require Import Base.Tactics Mc.Mazur.
From Coq Require Import Relations Sorting.Permutation.
Local Open Scope nat_scope.

Section Proofs.
Variable dep : nat -> nat -> bool.
Hypothesis dep_sym : forall a b, dep a b = dep b a.
Hypothesis dep_refl : forall a, dep a a = true.

(** one swap of two adjacent independent letters, and the equivalence it generates *)
Inductive swap1 : list nat -> list nat -> Prop :=
| swap1_intro u a b v : dep a b = false -> swap1 (u ++ a :: b :: v) (u ++ b :: a :: v).
Definition equiv : list nat -> list nat -> Prop := clos_refl_sym_trans (list nat) swap1.

Lemma swap1_cons x s t : swap1 s t -> swap1 (x :: s) (x :: t).
Proof. intros H; inv H. apply (swap1_intro (x :: u)); auto. Qed.
Lemma swap1_sym s t : swap1 s t -> swap1 t s.
Proof. intros H; inv H. apply swap1_intro. rewrite dep_sym; auto. Qed.

Lemma equiv_refl t : equiv t t.
Proof. apply rst_refl. Qed.
Lemma equiv_sym s t : equiv s t -> equiv t s.
Proof. apply rst_sym. Qed.
Lemma equiv_trans s t u : equiv s t -> equiv t u -> equiv s u.
Proof. apply rst_trans. Qed.
Lemma equiv_cons x s t : equiv s t -> equiv (x :: s) (x :: t).
Proof.
  induction 1 as [s t H| | |s t u _ IH1 _ IH2].
  - apply rst_step, swap1_cons; auto.
  - apply rst_refl.
  - apply rst_sym; auto.
  - eapply rst_trans; eauto.
Qed.
Lemma equiv_perm s t : equiv s t -> Permutation s t.
Proof.
  induction 1 as [s t H| | |s t u _ IH1 _ IH2]; auto.
  - inv H. apply Permutation_app_head. apply perm_swap.
  - apply Permutation_sym; auto.
  - eapply perm_trans; eauto.
Qed.

Notation extract := (extract dep).

Lemma extract_sound a t r : extract a t = Some r -> equiv t (a :: r).
Proof.
  revert r; induction t as [|x t IH]; intros r H; simpl in H; [discriminate|].
  destruct (x =? a) eqn:E.
  - apply Nat.eqb_eq in E. inv H. apply equiv_refl.
  - destruct (dep x a) eqn:D; [discriminate|]. destruct (extract a t) as [r'|]; [|discriminate]. inv H.
    eapply equiv_trans; [apply equiv_cons, IH; reflexivity|].
    apply rst_step. apply (swap1_intro [] x a r'); auto.
Qed.

Lemma extract_length a t r : extract a t = Some r -> length t = S (length r).
Proof.
  revert r; induction t as [|x t IH]; intros r H; simpl in H; [discriminate|].
  destruct (x =? a); [inv H; reflexivity|]. destruct (dep x a); [discriminate|].
  destruct (extract a t) as [r'|]; [|discriminate]. inv H. simpl. rewrite (IH r'); auto.
Qed.

Lemma extract_in a t r : extract a t = Some r -> In a t.
Proof. intros H. apply extract_sound, equiv_perm in H. eapply Permutation_in; [apply Permutation_sym; eauto|simpl; auto]. Qed.

(* a swap does not change which letters can be brought to the front, and the remainders differ by at most that swap *)
Definition rel1 (o o' : option (list nat)) : Prop :=
  match o, o' with
  | Some r, Some r' => r = r' \/ swap1 r r'
  | None, None => True
  | _, _ => False
  end.

Lemma extract_swap1 s t a : swap1 s t -> rel1 (extract a s) (extract a t).
Proof.
  intros H; inv H. rename a0 into x, b into y.
  assert (Hxy : x <> y) by (intros ->; rewrite dep_refl in H0; discriminate).
  assert (Dyx : dep y x = false) by (rewrite dep_sym; auto).
  induction u as [|z u IH]; simpl.
  - destruct (x =? a) eqn:Ex.
    + apply Nat.eqb_eq in Ex. subst a. destruct (y =? x) eqn:Eyx; [apply Nat.eqb_eq in Eyx; congruence|].
      rewrite Dyx. simpl. auto.
    + destruct (y =? a) eqn:Ey.
      * apply Nat.eqb_eq in Ey. subst a. rewrite H0. simpl. auto.
      * destruct (dep x a) eqn:Dx, (dep y a) eqn:Dy; simpl; auto.
        destruct (extract a v) as [r|]; simpl; auto. right. apply (swap1_intro [] x y r); auto.
  - destruct (z =? a); simpl.
    + right. apply swap1_intro; auto.
    + destruct (dep z a); simpl; auto.
      destruct (extract a (u ++ x :: y :: v)) as [r|], (extract a (u ++ y :: x :: v)) as [r'|]; simpl in *; auto.
      destruct IH as [->|IH]; auto. right. apply swap1_cons; auto.
Qed.

Definition rel (o o' : option (list nat)) : Prop :=
  match o, o' with
  | Some r, Some r' => equiv r r'
  | None, None => True
  | _, _ => False
  end.

Lemma extract_equiv s t a : equiv s t -> rel (extract a s) (extract a t).
Proof.
  induction 1 as [s t H|s|s t _ IH|s t u _ IH1 _ IH2].
  - apply (extract_swap1 _ _ a) in H. unfold rel1, rel in *.
    destruct (extract a s), (extract a t); auto. destruct H as [->|H]; [apply equiv_refl|apply rst_step; auto].
  - unfold rel. destruct (extract a s); auto. apply equiv_refl.
  - unfold rel in *. destruct (extract a s), (extract a t); auto. apply equiv_sym; auto.
  - unfold rel in *. destruct (extract a s), (extract a t), (extract a u); auto; try tauto. eapply equiv_trans; eauto.
Qed.

(* the smallest element of a list *)
Lemma lmin_spec d l : (l = [] /\ lmin d l = d) \/ (In (lmin d l) l /\ forall x, In x l -> lmin d l <= x).
Proof.
  revert d; induction l as [|y l IH]; intros d; simpl; auto. right.
  destruct (IH y) as [[-> E]|[A B]]; simpl.
  - rewrite Nat.min_id. split; auto. intros x [<-|[]]; auto.
  - destruct (Nat.min_spec y (lmin y l)) as [[L ->]|[L ->]].
    + split; auto. intros x [<-|Hx]; auto. specialize (B x Hx). lia.
    + split; auto. intros x [<-|Hx]; auto.
Qed.

Lemma lmin_same_set d d' l l' : l <> [] -> (forall x, In x l <-> In x l') -> lmin d l = lmin d' l'.
Proof.
  intros Hne H. assert (l' <> []).
  { destruct l as [|x l]; [congruence|]. intros ->. apply (H x). simpl; auto. }
  destruct (lmin_spec d l) as [[? _]|[A B]]; [congruence|]. destruct (lmin_spec d' l') as [[? _]|[A' B']]; [congruence|].
  apply Nat.le_antisymm; [apply B, H, A'|apply B', H, A].
Qed.

Notation nf_fuel := (nf_fuel dep).
Notation nf := (nf dep).

Lemma head_extractable x t : extractable dep (x :: t) x = true.
Proof. unfold extractable. simpl. rewrite Nat.eqb_refl. reflexivity. Qed.

(* the letter chosen by the normal form can be extracted *)
Lemma chosen_extractable x t : let a := lmin x (filter (extractable dep (x :: t)) (x :: t)) in
  exists r, extract a (x :: t) = Some r.
Proof.
  intros a. destruct (lmin_spec x (filter (extractable dep (x :: t)) (x :: t))) as [[E _]|[A _]].
  - exfalso. assert (In x (filter (extractable dep (x :: t)) (x :: t))) as H by (apply filter_In; split; [simpl; auto|apply head_extractable]).
    rewrite E in H. inv H.
  - fold a in A. apply filter_In in A. destruct A as [_ A]. unfold extractable in A.
    destruct (extract a (x :: t)) as [r|]; [eauto|discriminate].
Qed.

Lemma nf_fuel_equiv fuel : forall t, length t <= fuel -> equiv t (nf_fuel fuel t).
Proof.
  induction fuel as [|f IH]; intros t L.
  - destruct t; [apply equiv_refl|simpl in L; lia].
  - destruct t as [|x t]; [apply equiv_refl|]. cbn [Mazur.nf_fuel].
    destruct (chosen_extractable x t) as (r & E). cbv zeta in E. rewrite E.
    eapply equiv_trans; [apply extract_sound; eauto|]. apply equiv_cons, IH.
    apply extract_length in E. simpl in *. lia.
Qed.

Lemma nf_equiv t : equiv t (nf t).
Proof. apply nf_fuel_equiv; auto. Qed.

Lemma nf_fuel_complete fuel : forall s t, length s <= fuel -> equiv s t -> nf_fuel fuel s = nf_fuel fuel t.
Proof.
  induction fuel as [|f IH]; intros s t L H; [reflexivity|].
  pose proof (equiv_perm _ _ H) as P.
  destruct s as [|x s], t as [|y t]; try reflexivity.
  - apply Permutation_length in P; discriminate.
  - apply Permutation_length in P; discriminate.
  - cbn [Mazur.nf_fuel].
    assert (Hsame : forall a, In a (filter (extractable dep (x :: s)) (x :: s)) <-> In a (filter (extractable dep (y :: t)) (y :: t))).
    { intros a. rewrite !filter_In. pose proof (extract_equiv _ _ a H) as R. unfold rel, extractable in *.
      split; intros [A B].
      - split; [eapply Permutation_in; eauto|]. destruct (extract a (x :: s)), (extract a (y :: t)); auto; tauto.
      - split; [eapply Permutation_in; [apply Permutation_sym|]; eauto|]. destruct (extract a (x :: s)), (extract a (y :: t)); auto; tauto. }
    assert (Hne : filter (extractable dep (x :: s)) (x :: s) <> []).
    { intros E. assert (In x (filter (extractable dep (x :: s)) (x :: s))) as HI by (apply filter_In; split; [simpl; auto|apply head_extractable]).
      rewrite E in HI. inv HI. }
    rewrite (lmin_same_set x y _ _ Hne Hsame).
    set (a := lmin y (filter (extractable dep (y :: t)) (y :: t))).
    pose proof (extract_equiv _ _ a H) as R. unfold rel in R.
    destruct (extract a (x :: s)) as [r|] eqn:E1, (extract a (y :: t)) as [r'|] eqn:E2; try tauto.
    f_equal. apply IH; auto. apply extract_length in E1. simpl in *. lia.
Qed.

(** C40: two words have the same normal form iff they are equivalent *)
Theorem nf_complete s t : nf s = nf t <-> equiv s t.
Proof.
  split.
  - intros H. eapply equiv_trans; [apply nf_equiv|]. rewrite H. apply equiv_sym, nf_equiv.
  - intros H. unfold Mazur.nf. rewrite <- (Permutation_length (equiv_perm _ _ H)). apply nf_fuel_complete; auto.
Qed.

Theorem nf_idempotent t : nf (nf t) = nf t.
Proof. apply nf_complete, equiv_sym, nf_equiv. Qed.

(** the checker's own recursive test (debug-optimality) decides the same relation *)
Theorem are_equivalent_spec fuel : forall u v, length u < fuel -> (are_equivalent dep fuel u v = true <-> equiv u v).
Proof.
  induction fuel as [|f IH]; intros u v L; [lia|]. simpl. destruct u as [|a u].
  - destruct v as [|b v].
    + split; auto. intros _. apply equiv_refl.
    + split; [discriminate|]. intros H. apply equiv_perm, Permutation_length in H. discriminate.
  - destruct (extract a v) as [v'|] eqn:E.
    + rewrite IH by (simpl in L; lia). split.
      * intros H. eapply equiv_trans; [apply equiv_cons; eauto|]. apply equiv_sym, extract_sound; auto.
      * intros H. pose proof (extract_equiv _ _ a H) as R. unfold rel in R. simpl in R. rewrite Nat.eqb_refl, E in R. auto.
    + split; [discriminate|]. intros H. pose proof (extract_equiv _ _ a H) as R. unfold rel in R. simpl in R.
      rewrite Nat.eqb_refl, E in R. tauto.
Qed.
End Proofs.
