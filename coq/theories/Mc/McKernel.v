(** C39 — the synchronisation kernel as the model checker drives it (mutexes and semaphores), object by object.
    Mirrors MutexImpl::{lock_async,try_lock,unlock}, MutexAcquisitionImpl::{wait_for,test} and
    SemaphoreImpl::{acquire_async,release}, SemAcquisitionImpl::wait_for for non-recursive mutexes, without timeouts.
    Model only. *)
From SGV Require Import Base.Tactics.
Local Open Scope Z_scope.

(** ** one mutex: owner_ and the FIFO ongoing_acquisitions_ (actors by pid) *)
Record mtx := { owner : option Z; mq : list Z }.
Inductive mop := MLock | MTest | MTry | MUnlock | MWait.
Definition holds_or_queued (x : mtx) (a : Z) : bool :=
  match owner x with Some o => (o =? a) || existsb (Z.eqb a) (mq x) | None => existsb (Z.eqb a) (mq x) end.
Definition is_owner (x : mtx) (a : Z) : bool := match owner x with Some o => o =? a | None => false end.
(** what the kernel asserts / what is_enabled() answers *)
Definition men (x : mtx) (a : Z) (op : mop) : bool :=
  match op with
  | MLock | MTry => negb (holds_or_queued x a)     (* non-recursive: no second acquisition by the same actor *)
  | MUnlock => is_owner x a                        (* xbt_assert(issuer == owner_) *)
  | MWait => is_owner x a                          (* MutexAcquisitionObserver::is_enabled: granted *)
  | MTest => holds_or_queued x a                   (* the actor tests its own pending acquisition *)
  end.
(** new object state and the value returned to the actor, if any *)
Definition mstep (x : mtx) (a : Z) (op : mop) : mtx * option Z :=
  match op with
  | MLock => match owner x with
             | None => ({| owner := Some a; mq := mq x |}, None)
             | Some _ => ({| owner := owner x; mq := mq x ++ [a] |}, None)
             end
  | MTry => match owner x with
            | None => ({| owner := Some a; mq := mq x |}, Some 1)
            | Some _ => (x, Some 0)
            end
  | MUnlock => match mq x with
               | q :: r => ({| owner := Some q; mq := r |}, None)
               | [] => ({| owner := None; mq := [] |}, None)
               end
  | MWait => (x, None)
  | MTest => (x, Some (if is_owner x a then 1 else 0))
  end.
Definition wfm (x : mtx) : Prop := owner x = None -> mq x = [].

(** ** one semaphore: value_, FIFO ongoing_acquisitions_, and who holds a granted acquisition not yet waited for *)
Record sem := { val : Z; sq : list Z; sgr : list Z }.
Inductive sop := SLock | SUnlock | SWait.
Definition sen (x : sem) (a : Z) (op : sop) : bool :=
  match op with
  | SLock => negb (existsb (Z.eqb a) (sq x)) && negb (existsb (Z.eqb a) (sgr x))   (* one acquisition at a time *)
  | SUnlock => true
  | SWait => existsb (Z.eqb a) (sgr x)             (* SemaphoreAcquisitionObserver::is_enabled: granted_ *)
  end.
Fixpoint remove_z (a : Z) (l : list Z) : list Z :=
  match l with [] => [] | b :: r => if a =? b then remove_z a r else b :: remove_z a r end.
Definition sstep (x : sem) (a : Z) (op : sop) : sem :=
  match op with
  | SLock => if 0 <? val x then {| val := val x - 1; sq := sq x; sgr := sgr x ++ [a] |}
             else {| val := val x; sq := sq x ++ [a]; sgr := sgr x |}
  | SUnlock => match sq x with
               | q :: r => {| val := val x; sq := r; sgr := sgr x ++ [q] |}
               | [] => {| val := val x + 1; sq := []; sgr := sgr x |}
               end
  | SWait => {| val := val x; sq := sq x; sgr := remove_z a (sgr x) |}
  end.
(** the set of granted acquisitions, order-insensitively *)
Definition same_sem (x y : sem) : Prop :=
  val x = val y /\ sq x = sq y /\ forall a, existsb (Z.eqb a) (sgr x) = existsb (Z.eqb a) (sgr y).

(** ** the whole state: objects by id, and per actor the values returned so far *)
Record st := { M : Z -> mtx; S : Z -> sem; O : Z -> list Z }.
Definition upd {A} (f : Z -> A) (k : Z) (v : A) : Z -> A := fun x => if x =? k then v else f x.
Inductive kt := KM (a m : Z) (op : mop) | KS (a k : Z) (op : sop).
Definition kaid (t : kt) : Z := match t with KM a _ _ => a | KS a _ _ => a end.
Definition enabled (s : st) (t : kt) : bool :=
  match t with KM a m op => men (M s m) a op | KS a k op => sen (S s k) a op end.
Definition step (s : st) (t : kt) : st :=
  match t with
  | KM a m op => {| M := upd (M s) m (fst (mstep (M s m) a op)); S := S s;
                    O := match snd (mstep (M s m) a op) with
                         | Some v => upd (O s) a (v :: O s a)
                         | None => O s
                         end |}
  | KS a k op => {| M := M s; S := upd (S s) k (sstep (S s k) a op); O := O s |}
  end.
Definition eqst (s s' : st) : Prop :=
  (forall m, M s m = M s' m) /\ (forall k, same_sem (S s k) (S s' k)) /\ (forall a, O s a = O s' a).
Definition wf (s : st) : Prop := forall m, wfm (M s m).

(** executable entry points for the bounded search of a counter-example when a proof breaks:
    a mutex state [has_owner; owner; n; queue...], an op code, an actor  *)
Definition mop_of (z : Z) : mop := if z =? 0 then MLock else if z =? 1 then MTest else if z =? 2 then MTry else if z =? 3 then MUnlock else MWait.
Definition run_mutex_pair (l : list Z) : list Z :=
  (* [a1; op1; a2; op2; has_owner; owner; queue...] -> [en1; en2; commute(1/0); en2 after 1; en1 after 2] *)
  match l with
  | a1 :: p1 :: a2 :: p2 :: ho :: ow :: q =>
      let x := {| owner := if ho =? 0 then None else Some ow; mq := q |} in
      let o1 := mop_of p1 in let o2 := mop_of p2 in
      let '(x1, r1) := mstep x a1 o1 in let '(x12, r2') := mstep x1 a2 o2 in
      let '(x2, r2) := mstep x a2 o2 in let '(x21, r1') := mstep x2 a1 o1 in
      let same := match owner x12, owner x21 with
                  | Some u, Some v => u =? v | None, None => true | _, _ => false end
                  && (Z.of_nat (length (mq x12)) =? Z.of_nat (length (mq x21)))
                  && forallb (fun p => fst p =? snd p) (combine (mq x12) (mq x21))
                  && match r1, r1' with Some u, Some v => u =? v | None, None => true | _, _ => false end
                  && match r2, r2' with Some u, Some v => u =? v | None, None => true | _, _ => false end in
      [if men x a1 o1 then 1 else 0; if men x a2 o2 then 1 else 0; if same then 1 else 0;
       if men x1 a2 o2 then 1 else 0; if men x2 a1 o1 then 1 else 0]
  | _ => []
  end.

(** ** the transition the checker sees for a kernel step, and the checker's verdict on a pair (regenerated table) *)
From SGV Require Import Mc.Trans Gen.DepLut.
Definition mty (op : mop) : nat :=
  match op with MLock => T_MUTEX_ASYNC_LOCK | MTest => T_MUTEX_TEST | MTry => T_MUTEX_TRYLOCK
              | MUnlock => T_MUTEX_UNLOCK | MWait => T_MUTEX_WAIT end.
Definition sty (op : sop) : nat :=
  match op with SLock => T_SEM_ASYNC_LOCK | SUnlock => T_SEM_UNLOCK | SWait => T_SEM_WAIT end.
Definition mk_core (t : nat) (a obj : Z) : core :=
  {| ty := t; aid := a; o1 := obj; o2 := 0; snd_ := -1; rcv_ := -1; tmo := false |}.
Definition core_of (t : kt) : core :=
  match t with KM a m op => mk_core (mty op) a m | KS a k op => mk_core (sty op) a k end.
Definition depends : tr -> tr -> option bool := depends_with dep_table.
Definition run_c39_depends : list Z -> list Z := run_depends_with dep_table.
Definition run_c39_mutex_pair : list Z -> list Z := run_mutex_pair.
(* [a1; op1; a2; op2; m1; m2] -> checker's verdict on two mutex transitions: [1;b] | [0] *)
Definition run_c39_mutex_dep (l : list Z) : list Z :=
  match l with
  | a1 :: p1 :: a2 :: p2 :: m1 :: m2 :: _ =>
      match depends (Plain (core_of (KM a1 m1 (mop_of p1)))) (Plain (core_of (KM a2 m2 (mop_of p2)))) with
      | Some b => [1; if b then 1 else 0] | None => [0] end
  | _ => []
  end.

(** sequences of operations on one object, for the tie with the real MutexImpl / SemaphoreImpl:
    [a; op; a; op; ...] -> per op  [0] (not enabled, skipped)  or  [1; owner|-1; result|-1; n; queue...] *)
Fixpoint mutex_seq (x : mtx) (l : list Z) (fuel : nat) : list Z :=
  match fuel with
  | Datatypes.O => []
  | Datatypes.S f =>
      match l with
      | a :: p :: rest =>
          let op := mop_of p in
          if men x a op then
            let '(x', r) := mstep x a op in
            [1; match owner x' with Some o => o | None => -1 end; match r with Some v => v | None => -1 end;
             Z.of_nat (length (mq x'))] ++ mq x' ++ mutex_seq x' rest f
          else 0 :: mutex_seq x rest f
      | _ => []
      end
  end.
Definition run_c39_mutex_seq (l : list Z) : list Z := mutex_seq {| owner := None; mq := [] |} l (length l).
Definition sop_of (z : Z) : sop := if z =? 0 then SLock else if z =? 1 then SUnlock else SWait.
(** [capacity; a; op; ...] -> per op [0] or [1; value; n; queue...; k; granted actors in increasing order are compared as a set by the check] *)
Fixpoint sem_seq (x : sem) (l : list Z) (fuel : nat) : list Z :=
  match fuel with
  | Datatypes.O => []
  | Datatypes.S f =>
      match l with
      | a :: p :: rest =>
          let op := sop_of p in
          if sen x a op then
            let x' := sstep x a op in
            [1; val x'; Z.of_nat (length (sq x'))] ++ sq x' ++ [Z.of_nat (length (sgr x'))] ++ sgr x' ++ sem_seq x' rest f
          else 0 :: sem_seq x rest f
      | _ => []
      end
  end.
Definition run_c39_sem_seq (l : list Z) : list Z :=
  match l with c :: rest => sem_seq {| val := c; sq := []; sgr := [] |} rest (length rest) | [] => [] end.
