(** C42 — model of odpor::Execution (src/mc/explo/odpor/Execution.cpp) : clock vectors maintained by
    push_transition, happens_before, get_racing_events_of.   Model only, no proofs (SGV.Mc.HbProofs).

    Events are identified by their handle (position in the execution, 0,1,2,...).  The transitions themselves are
    abstract: all the code ever asks about them is
      [aid h]     = contents_[h].get_transition()->aid_
      [dep a b]   = contents_[a].get_transition()->dispatch_depends(t_b)      (only ever evaluated for a < b)
    so an execution is any pair of such functions, and "pushing the next transition" is pushing handle
    [length contents].  Nothing is assumed about [dep] here; the theorems assume only "same actor => dependent",
    which dispatch_depends establishes in its first statement. *)
From SGV Require Import Base.Tactics.
Local Open Scope nat_scope.

(** ClockVector: contents_ is a vector of Clock, Clock::INVALID = None.  The C++ vector has the fixed size
    max_threads and aids >= max_threads-1 throw; the model is lazy (missing slots are INVALID), hence unbounded. *)
Definition cv := list (option nat).
Definition cv_get (c : cv) (p : nat) : option nat := nth p c None.
(* Clock::operator<=> : INVALID is below every valid clock *)
Definition omax (a b : option nat) : option nat :=
  match a, b with
  | None, x => x
  | x, None => x
  | Some x, Some y => Some (Nat.max x y)
  end.
(* ClockVector::max_emplace_left(cv1, cv2): cv1[i] = max(cv2[i], cv1[i]) *)
Fixpoint cv_max (a b : cv) : cv :=
  match a, b with
  | [], b => b
  | a, [] => a
  | x :: a', y :: b' => omax x y :: cv_max a' b'
  end.
(* max_clock_vector[aid] = v *)
Fixpoint cv_set (c : cv) (p : nat) (v : nat) : cv :=
  match p, c with
  | O, [] => [Some v]
  | O, _ :: c' => Some v :: c'
  | S p', [] => None :: cv_set [] p' v
  | S p', x :: c' => x :: cv_set c' p' v
  end.

(** skip_list_[aid] = handles of the events of that actor; the model keeps the most recent first, so that the
    reverse iteration (crbegin..crend) of push_transition is the list order. *)
Definition skiplist := list (list nat).
Definition skip_get (s : skiplist) (p : nat) : list nat := nth p s [].
(* if (skip_list_.size() <= aid) resize(aid+1); skip_list_[aid].push_back(h) *)
Fixpoint skip_add (s : skiplist) (p h : nat) : skiplist :=
  match p, s with
  | O, [] => [[h]]
  | O, l :: s' => (h :: l) :: s'
  | S p', [] => [] :: skip_add [] p' h
  | S p', l :: s' => l :: skip_add s' p' h
  end.

Record exec := { contents : list cv; skip : skiplist }.
Definition empty_exec : exec := {| contents := []; skip := [[]] |}.
Definition ev_cv (E : exec) (h : nat) : cv := nth h (contents E) [].

Section Hb.
Variable aid : nat -> nat.
Variable dep : nat -> nat -> bool.

(** Execution::push_transition (the memory-epoch part, which does not touch clock vectors, is not modelled) *)
Definition push (E : exec) : exec :=
  let n := length (contents E) in
  (* for each aid: the most recent event with which we are dependent; max its clock into max_clock_vector *)
  let mx := fold_left (fun (acc : cv) (events : list nat) =>
                         match find (fun h => dep h n) events with
                         | Some h => cv_max acc (ev_cv E h)
                         | None => acc
                         end) (skip E) [] in
  let c := cv_set mx (aid n) n in
  {| contents := contents E ++ [c]; skip := skip_add (skip E) (aid n) n |}.

(* the execution made of the first n transitions *)
Fixpoint exec_of (n : nat) : exec :=
  match n with O => empty_exec | S n' => push (exec_of n') end.

(** Execution::happens_before *)
Definition hb (E : exec) (e1 e2 : nat) : bool :=
  if e2 <=? e1 then false
  else match cv_get (ev_cv E e2) (aid e1) with
       | Some v => e1 <=? v
       | None => false
       end.

(** candidates.sort(std::greater); candidates.unique() *)
Fixpoint ins_desc (x : nat) (l : list nat) : list nat :=
  match l with
  | [] => [x]
  | y :: r => if y <? x then x :: l else if y =? x then l else y :: ins_desc x r
  end.
Definition sort_desc (l : list nat) : list nat := fold_right ins_desc [] l.

(* for (aid = 0; aid < max_threads-1; aid++) if (aid != evt_aid and evt_cv.get(aid).has_value()) push_back *)
Definition candidates (c : cv) (a : nat) : list nat :=
  sort_desc (flat_map (fun p => if p =? a then []
                                else match cv_get c p with Some v => [v] | None => [] end)
                      (seq 0 (length c))).

(* for (prev = target-1; prev != MAX; prev--) if (actor(prev) == evt_aid) break; *)
Fixpoint prev_on (a : nat) (t : nat) : option nat :=
  match t with
  | O => None
  | S t' => if aid t' =? a then Some t' else prev_on a t'
  end.

Definition racing_loop (hbb : nat -> nat -> bool) (bad : nat -> bool) (cs : list nat) : list nat :=
  fold_left (fun acc e => if bad e then acc
                          else if existsb (fun ej => hbb e ej) acc then acc
                          else acc ++ [e]) cs [].

(** Execution::get_racing_events_of *)
Definition racing (E : exec) (target : nat) : list nat :=
  let cs := candidates (ev_cv E target) (aid target) in
  let prev := prev_on (aid target) target in
  racing_loop (hb E)
              (fun e => match prev with Some p => hb E e p | None => false end)
              cs.
End Hb.

(** executable entry point.  input: n, aid_0..aid_{n-1}, then the n*n matrix dep (row a, column b; read for a<b only)
    output: n*n bits hb(e1,e2) row-major, then for each target 0..n-1: k, the k racing events (in the code's order) *)
Local Open Scope Z_scope.
Definition run_c42 (inp : list Z) : list Z :=
  match inp with
  | zn :: r =>
      let n := Z.to_nat zn in
      let '(aids, m) := take_n n r in
      let aidf := fun h => Z.to_nat (nth h aids 0) in
      let depf := fun a b => Z.eqb (nth (a * n + b)%nat m 0) 1 in
      let E := exec_of aidf depf n in
      let idx := seq 0 n in
      flat_map (fun e1 => map (fun e2 => if hb aidf E e1 e2 then 1 else 0) idx) idx ++
      flat_map (fun t => let rs := racing aidf E t in Z.of_nat (length rs) :: map Z.of_nat rs) idx
  | [] => [-1]
  end.
