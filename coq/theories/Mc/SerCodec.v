(** C43 — the wire format between the application (observers' serialize(), Channel::pack<T>) and the checker
    (deserialize_transition + Transition constructors, Channel::unpack<T>).  Model only, no proofs.

    Channel::pack<T>(x) appends the sizeof(T) raw bytes of x (little endian, two's complement);
    Channel::pack<std::string>(s) appends unsigned short length, then length+1 bytes (the characters and a NUL);
    Channel::unpack<T>() reads sizeof(T) bytes and reinterprets them; unpack<std::string> reads the length, then
    length+1 bytes and builds a std::string from the C string found there (stops at the first NUL).
    A decoder answering [None] stands for "the checker wants more bytes than the application sent" (it then blocks in
    recv() for ever) or "the checker dies with a clear message" (unknown tag). *)
From SGV Require Import Base.Tactics.
Local Open Scope Z_scope.

(** wire types: what sizeof/representation the (un)packed C++ type has *)
Inductive wire := WBool | WInt (bytes : nat) (signed : bool) | WPtr | WStr | WOther.
(** one step of a (de)serialization sequence: a primitive, or "unsigned n, then n serialized sub-transitions" *)
Inductive item := IP (w : wire) | ICounted.

Definition wire_eqb (a b : wire) : bool :=
  match a, b with
  | WBool, WBool | WPtr, WPtr | WStr, WStr => true
  | WInt n s, WInt m t => Nat.eqb n m && Bool.eqb s t
  | _, _ => false
  end.
(** same bytes on the wire, same meaning up to the sign of an integer of the same width *)
Definition wire_compat (a c : wire) : bool :=
  match a, c with
  | WBool, WBool | WPtr, WPtr | WStr, WStr => true
  | WInt n _, WInt m _ => Nat.eqb n m
  | _, _ => false
  end.
Definition item_compat (a c : item) : bool :=
  match a, c with IP x, IP y => wire_compat x y | ICounted, ICounted => true | _, _ => false end.
Definition item_eqb (a c : item) : bool :=
  match a, c with IP x, IP y => wire_eqb x y | ICounted, ICounted => true | _, _ => false end.
Fixpoint forallb2 {A B} (f : A -> B -> bool) (l : list A) (m : list B) : bool :=
  match l, m with
  | [], [] => true
  | a :: l', b :: m' => f a b && forallb2 f l' m'
  | _, _ => false
  end.
Definition seq_compat := forallb2 item_compat.
Definition seq_eqb := forallb2 item_eqb.

(** ** bytes *)
Fixpoint enc_le (n : nat) (z : Z) : list Z :=
  match n with O => [] | S n' => (z mod 256) :: enc_le n' (z / 256) end.
Fixpoint dec_le (n : nat) (l : list Z) : option (Z * list Z) :=
  match n with
  | O => Some (0, l)
  | S n' => match l with
            | [] => None
            | b :: r => match dec_le n' r with Some (v, r') => Some (b + 256 * v, r') | None => None end
            end
  end.
Definition width (n : nat) : Z := 256 ^ Z.of_nat n.
(** value of an n-byte unsigned reading [u] when the reader's type is signed *)
Definition to_signed (n : nat) (u : Z) : Z := if u <? width n / 2 then u else u - width n.

(** ** primitive values *)
Inductive pval := VBool (b : bool) | VInt (bytes : nat) (signed : bool) (z : Z) | VPtr (z : Z) | VStr (s : list Z).
Definition shape (v : pval) : wire :=
  match v with VBool _ => WBool | VInt n s _ => WInt n s | VPtr _ => WPtr | VStr _ => WStr end.
Definition enc_pval (v : pval) : list Z :=
  match v with
  | VBool b => [if b then 1 else 0]
  | VInt n _ z => enc_le n z
  | VPtr z => enc_le 8 z
  | VStr s => enc_le 2 (Z.of_nat (length s)) ++ s ++ [0]
  end.
(** std::string((char* )p): the bytes before the first NUL *)
Fixpoint cstr (l : list Z) : list Z :=
  match l with [] => [] | c :: r => if c =? 0 then [] else c :: cstr r end.
Fixpoint take_bytes (n : nat) (l : list Z) : option (list Z * list Z) :=
  match n with
  | O => Some ([], l)
  | S n' => match l with
            | [] => None
            | b :: r => match take_bytes n' r with Some (x, r') => Some (b :: x, r') | None => None end
            end
  end.
Definition dec_wire (w : wire) (l : list Z) : option (pval * list Z) :=
  match w with
  | WBool => match l with b :: r => Some (VBool (negb (b =? 0)), r) | [] => None end
  | WInt n sg => match dec_le n l with
                 | Some (u, r) => Some (VInt n sg (if sg then to_signed n u else u), r)
                 | None => None
                 end
  | WPtr => match dec_le 8 l with Some (u, r) => Some (VPtr u, r) | None => None end
  | WStr => match dec_le 2 l with
            | Some (len, r) => match take_bytes (S (Z.to_nat len)) r with
                               | Some (chunk, r') => Some (VStr (cstr chunk), r')
                               | None => None
                               end
            | None => None
            end
  | WOther => None
  end.
(** what the checker holds after reading with type [c] a value packed as [v] (identity unless the signs differ) *)
Definition reinterp (c : wire) (v : pval) : pval :=
  match c, v with
  | WInt m sg, VInt n _ z => VInt n sg (if sg then to_signed n (z mod width n) else z mod width n)
  | _, _ => v
  end.

(** ** transitions: a tag, then fields; the fields of TestAny/WaitAny contain a counted list of simple transitions *)
Inductive fval := FP (v : pval) | FSub (l : list (nat * list pval)).
Definition tval := (nat * list fval)%type.
Definition enc_tag (t : nat) : list Z := enc_le 4 (Z.of_nat t).
Definition enc_simple (tv : nat * list pval) : list Z := enc_tag (fst tv) ++ concat (map enc_pval (snd tv)).
Definition enc_fval (f : fval) : list Z :=
  match f with
  | FP v => enc_pval v
  | FSub l => enc_le 4 (Z.of_nat (length l)) ++ concat (map enc_simple l)
  end.
Definition enc_tval (t : tval) : list Z := enc_tag (fst t) ++ concat (map enc_fval (snd t)).

Section Decode.
  (** the checker's table: tag -> field sequence, None = xbt_die("Invalid transition type") *)
  Variable chk : nat -> option (list item).

  Fixpoint dec_prims (its : list item) (l : list Z) : option (list pval * list Z) :=
    match its with
    | [] => Some ([], l)
    | IP w :: r => match dec_wire w l with
                   | Some (v, l') => match dec_prims r l' with Some (vs, l'') => Some (v :: vs, l'') | None => None end
                   | None => None
                   end
    | ICounted :: _ => None   (* a list inside a list element: deeper than anything the application sends *)
    end.
  Definition dec_simple (l : list Z) : option ((nat * list pval) * list Z) :=
    match dec_le 4 l with
    | Some (tag, l') => match chk (Z.to_nat tag) with
                        | Some its => match dec_prims its l' with
                                      | Some (vs, l'') => Some ((Z.to_nat tag, vs), l'')
                                      | None => None
                                      end
                        | None => None
                        end
    | None => None
    end.
  Fixpoint dec_many (n : nat) (l : list Z) : option (list (nat * list pval) * list Z) :=
    match n with
    | O => Some ([], l)
    | S n' => match dec_simple l with
              | Some (x, l') => match dec_many n' l' with Some (xs, l'') => Some (x :: xs, l'') | None => None end
              | None => None
              end
    end.
  Fixpoint dec_items (its : list item) (l : list Z) : option (list fval * list Z) :=
    match its with
    | [] => Some ([], l)
    | IP w :: r => match dec_wire w l with
                   | Some (v, l') => match dec_items r l' with Some (fs, l'') => Some (FP v :: fs, l'') | None => None end
                   | None => None
                   end
    | ICounted :: r => match dec_le 4 l with
                       | Some (n, l') => match dec_many (Z.to_nat n) l' with
                                         | Some (subs, l'') => match dec_items r l'' with
                                                               | Some (fs, l3) => Some (FSub subs :: fs, l3)
                                                               | None => None
                                                               end
                                         | None => None
                                         end
                       | None => None
                       end
    end.
  (** deserialize_transition *)
  Definition dec_tval (l : list Z) : option (tval * list Z) :=
    match dec_le 4 l with
    | Some (tag, l') => match chk (Z.to_nat tag) with
                        | Some its => match dec_items its l' with
                                      | Some (fs, l'') => Some ((Z.to_nat tag, fs), l'')
                                      | None => None
                                      end
                        | None => None
                        end
    | None => None
    end.

  (** what the checker ends up with, field by field *)
  Fixpoint reinterp_prims (its : list item) (vs : list pval) : list pval :=
    match its, vs with
    | IP w :: r, v :: vs' => reinterp w v :: reinterp_prims r vs'
    | _, _ => vs
    end.
  Definition reinterp_simple (tv : nat * list pval) : nat * list pval :=
    match chk (fst tv) with Some its => (fst tv, reinterp_prims its (snd tv)) | None => tv end.
  Fixpoint reinterp_items (its : list item) (fs : list fval) : list fval :=
    match its, fs with
    | IP w :: r, FP v :: fs' => FP (reinterp w v) :: reinterp_items r fs'
    | ICounted :: r, FSub l :: fs' => FSub (map reinterp_simple l) :: reinterp_items r fs'
    | _, _ => fs
    end.
  Definition reinterp_tval (t : tval) : tval :=
    match chk (fst t) with Some its => (fst t, reinterp_items its (snd t)) | None => t end.
End Decode.

(** ** the tables *)
Definition app_table_t := list (String.string * nat * list item).
Definition lookup (tbl : list (nat * option (list item))) (t : nat) : option (list item) :=
  match find (fun e => Nat.eqb (fst e) t) tbl with Some (_, x) => x | None => None end.
Definition has_counted (its : list item) : bool := existsb (fun i => match i with ICounted => true | _ => false end) its.
Definition memb (t : nat) (l : list nat) : bool := existsb (Nat.eqb t) l.

(** every entry the application can issue under the checker is decodable: the checker knows the tag and reads the
    same wire items *)
Definition agree_entry (chk : nat -> option (list item)) (nomc : list nat) (e : String.string * nat * list item) : bool :=
  let '(_, tag, its) := e in
  if memb tag nomc then true else match chk tag with Some c => seq_compat its c | None => false end.
Definition tables_agree (app : app_table_t) (chk : nat -> option (list item)) (nomc : list nat) : bool :=
  forallb (agree_entry chk nomc) app.
(** elements of TestAny/WaitAny lists are flat, issuable and known to the checker *)
Definition nested_ok (app : app_table_t) (chk : nat -> option (list item)) (nomc nested : list nat) : bool :=
  forallb (fun e => let '(_, tag, its) := e in
                    if memb tag nested then negb (has_counted its) && negb (memb tag nomc) &&
                                            match chk tag with Some c => negb (has_counted c) | None => false end
                    else true) app.
(** entries whose sign differs (same bytes, the checker reads a signed int where the application packed an unsigned) *)
Definition sign_reinterpreted (app : app_table_t) (chk : nat -> option (list item)) (nomc : list nat) :=
  filter (fun e => let '(_, tag, its) := e in
                   negb (memb tag nomc) && match chk tag with Some c => negb (seq_eqb its c) | None => false end) app.

(** ** typing of what the application sends, against its own table *)
Definition prims_typed (its : list item) (vs : list pval) : Prop := Forall2 (fun it v => it = IP (shape v)) its vs.
Definition app_simple (app : app_table_t) (nested : list nat) (tv : nat * list pval) : Prop :=
  memb (fst tv) nested = true /\ exists o its, In (o, fst tv, its) app /\ prims_typed its (snd tv).
Definition field_typed (app : app_table_t) (nested : list nat) (it : item) (f : fval) : Prop :=
  match it, f with
  | IP w, FP v => w = shape v
  | ICounted, FSub l => Forall (app_simple app nested) l
  | _, _ => False
  end.
Definition app_typed (app : app_table_t) (nested : list nat) (t : tval) : Prop :=
  exists o its, In (o, fst t, its) app /\ Forall2 (field_typed app nested) its (snd t).

(** values that fit their C++ type *)
Definition wf_pval (v : pval) : Prop :=
  match v with
  | VBool _ => True
  | VInt n true z => - (width n / 2) <= z < width n / 2
  | VInt n false z => 0 <= z < width n
  | VPtr z => 0 <= z < width 8
  | VStr s => Forall (fun c => 1 <= c <= 255) s /\ Z.of_nat (length s) < 65535   (* Channel::pack's xbt_assert *)
  end.
Definition wf_simple (tv : nat * list pval) : Prop := Z.of_nat (fst tv) < width 4 /\ Forall wf_pval (snd tv).
Definition wf_fval (f : fval) : Prop :=
  match f with FP v => wf_pval v | FSub l => Z.of_nat (length l) < width 4 /\ Forall wf_simple l end.
Definition wf_tval (t : tval) : Prop := Z.of_nat (fst t) < width 4 /\ Forall wf_fval (snd t).

(** ** executable entry points (tie with the real Channel through harness/mc2_ser_drv.cpp)
    input:  k, then k field descriptions  [kind a b]: kind 0 bool b | 1 int bytes=a .. value next | ...          *)
(* value list protocol: each primitive is  [0; b]  |  [1; bytes; signed; z]  |  [2; z]  |  [3; len; c1..clen]  *)
Fixpoint parse_pvals (fuel : nat) (l : list Z) : list pval :=
  match fuel with
  | O => []
  | S f => match l with
           | 0 :: b :: r => VBool (negb (b =? 0)) :: parse_pvals f r
           | 1 :: n :: s :: z :: r => VInt (Z.to_nat n) (negb (s =? 0)) z :: parse_pvals f r
           | 2 :: z :: r => VPtr z :: parse_pvals f r
           | 3 :: len :: r => let '(cs, rest) := take_n (Z.to_nat len) r in VStr cs :: parse_pvals f rest
           | _ => []
           end
  end.
Definition unparse_pval (v : pval) : list Z :=
  match v with
  | VBool b => [0; if b then 1 else 0]
  | VInt n s z => [1; Z.of_nat n; if s then 1 else 0; z]
  | VPtr z => [2; z]
  | VStr s => 3 :: Z.of_nat (length s) :: s
  end.
(** run_c43_enc: [tag; prims...] -> bytes of a simple transition as the application packs it *)
Definition run_c43_enc (l : list Z) : list Z :=
  match l with
  | tag :: r => enc_simple (Z.to_nat tag, parse_pvals (length r) r)
  | [] => []
  end.
