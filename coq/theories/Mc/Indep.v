(** C39 — the dependency relation is symmetric (for any table whose diagonal holds order-insensitive actions). *)
From SGV Require Import Base.Tactics Mc.Trans.
Local Open Scope Z_scope.

Lemma barrier_depends_sym : forall c1 c2, ty c1 = ty c2 -> barrier_depends c1 c2 = barrier_depends c2 c1.
Proof.
  intros c1 c2 H. unfold barrier_depends. rewrite H. rewrite (Z.eqb_sym (o1 c1) (o1 c2)). reflexivity.
Qed.

Lemma eval_sym : forall a c1 c2, sym_action a = true -> ty c1 = ty c2 -> eval a c1 c2 = eval a c2 c1.
Proof.
  intros a c1 c2 Hs Ht. destruct a; cbn in Hs; try discriminate; cbn [eval]; try reflexivity.
  - rewrite barrier_depends_sym by assumption. reflexivity.
  - rewrite orb_comm. reflexivity.
  - rewrite Z.eqb_sym. reflexivity.
  - rewrite Z.eqb_sym. reflexivity.
  - rewrite Z.eqb_sym. reflexivity.
  - rewrite Z.eqb_sym. reflexivity.
  - rewrite Z.eqb_sym. reflexivity.
  - rewrite Z.eqb_sym. reflexivity.
  - rewrite Z.eqb_sym. reflexivity.
  - rewrite orb_comm. reflexivity.
Qed.

Lemma diag_from_sound : forall tbl rows k,
  diag_ok_from tbl k rows = true ->
  forall i, (i < length rows)%nat -> sym_action (nth (k + i) (nth i rows []) PANIC_NOMC) = true.
Proof.
  intros tbl rows. induction rows as [|r rows IH]; intros k H i Hi; cbn in Hi; [lia|].
  cbn [diag_ok_from] in H. apply andb_true_iff in H. destruct H as [H1 H2].
  destruct i as [|i]; cbn [nth].
  - rewrite Nat.add_0_r. exact H1.
  - replace (k + S i)%nat with (S k + i)%nat by lia. apply IH; [assumption|lia].
Qed.

Lemma diag_sound : forall tbl i, diag_ok tbl = true -> sym_action (lut_get tbl i i) = true.
Proof.
  intros tbl i H. unfold lut_get. destruct (Nat.lt_ge_cases i (length tbl)) as [Hi|Hi].
  - apply (diag_from_sound tbl tbl 0 H i Hi).
  - rewrite (nth_overflow tbl) by lia. destruct i; reflexivity.
Qed.

Theorem depends_sym : forall tbl x y, diag_ok tbl = true -> depends_with tbl x y = depends_with tbl y x.
Proof.
  intros tbl x y Hd. unfold depends_with. rewrite (Z.eqb_sym (tr_aid y) (tr_aid x)).
  destruct (tr_aid x =? tr_aid y); [reflexivity|].
  destruct (Nat.ltb (ty (unwrap y)) (ty (unwrap x))) eqn:E1; destruct (Nat.ltb (ty (unwrap x)) (ty (unwrap y))) eqn:E2;
    try reflexivity.
  - apply Nat.ltb_lt in E1. apply Nat.ltb_lt in E2. lia.
  - apply Nat.ltb_ge in E1. apply Nat.ltb_ge in E2.
    assert (Ht : ty (unwrap x) = ty (unwrap y)) by lia.
    rewrite <- Ht.
    apply eval_sym; [apply diag_sound; assumption|assumption].
Qed.
