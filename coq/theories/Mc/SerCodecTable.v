(** C43 — the theorems that depend on the tables regenerated from the source (Gen/SerSpec.v). *)
From SGV Require Import Base.Tactics Mc.SerCodec Mc.SerCodecProofs Gen.SerSpec Mc.SerCodecRun.
Local Open Scope Z_scope.

Lemma tables_agree_now : tables_agree app_table checker_seq nomc_tags = true.
Proof. vm_compute. reflexivity. Qed.
Lemma nested_ok_now : nested_ok app_table checker_seq nomc_tags nested_tags = true.
Proof. vm_compute. reflexivity. Qed.

Lemma field_sequences_agree : forall o tag its,
  In (o, tag, its) app_table -> memb tag nomc_tags = false ->
  exists c, checker_seq tag = Some c /\ seq_compat its c = true.
Proof.
  intros o tag its Hin Hn. pose proof tables_agree_now as H. unfold tables_agree in H.
  rewrite forallb_forall in H. specialize (H _ Hin). unfold agree_entry in H. rewrite Hn in H.
  destruct (checker_seq tag) as [c|]; [|discriminate]. exists c. auto.
Qed.

Lemma decode_encode_now : forall t r,
  app_typed app_table nested_tags t -> wf_tval t -> memb (fst t) nomc_tags = false ->
  dec_tval checker_seq (enc_tval t ++ r) = Some (reinterp_tval checker_seq t, r).
Proof. intros t r. apply decode_encode; [exact tables_agree_now|exact nested_ok_now]. Qed.
