(** C44 — proofs about SGV.Mc.Unfold. *)
From SGV Require Import Base.Tactics Mc.Unfold Mc.UnfoldOracle.
From Coq Require Import Relations Sorting.Permutation.
Local Open Scope nat_scope.

(* ------------------------------------------------------------------------------------------ list-sets *)
Lemma mem_In e s : mem e s = true <-> In e s.
Proof.
  unfold mem. rewrite existsb_exists. split.
  - intros (x & Hx & E). apply Nat.eqb_eq in E. subst; auto.
  - intros H. exists e. split; auto. apply Nat.eqb_refl.
Qed.
Lemma mem_false e s : mem e s = false <-> ~ In e s.
Proof. rewrite <- mem_In. destruct (mem e s); split; congruence. Qed.

Lemma set_add_In e s x : In x (set_add e s) <-> x = e \/ In x s.
Proof.
  unfold set_add. destruct (mem e s) eqn:M; simpl.
  - apply mem_In in M. split; auto. intros [->|]; auto.
  - split; intros [H|H]; auto.
Qed.
Lemma set_add_NoDup e s : NoDup s -> NoDup (set_add e s).
Proof.
  unfold set_add. destruct (mem e s) eqn:M; auto. intros H. constructor; auto. apply mem_false; auto.
Qed.
Lemma set_remove_In e s x : In x (set_remove e s) <-> In x s /\ x <> e.
Proof.
  unfold set_remove. rewrite filter_In. split; intros [A B]; split; auto.
  - apply negb_true_iff, Nat.eqb_neq in B; auto.
  - apply negb_true_iff, Nat.eqb_neq; auto.
Qed.
Lemma set_subtract_In s o x : In x (set_subtract s o) <-> In x s /\ ~ In x o.
Proof.
  unfold set_subtract. rewrite filter_In. split; intros [A B]; split; auto.
  - apply negb_true_iff, mem_false in B; auto.
  - apply negb_true_iff, mem_false; auto.
Qed.
Lemma set_union_In s o x : In x (set_union s o) <-> In x s \/ In x o.
Proof.
  unfold set_union. induction o as [|y o IH]; simpl; [tauto|].
  rewrite set_add_In, IH. intuition.
Qed.
Lemma set_union_NoDup s o : NoDup s -> NoDup (set_union s o).
Proof. intros H. unfold set_union. induction o; simpl; auto. apply set_add_NoDup; auto. Qed.
Lemma filter_NoDup {A} (f : A -> bool) l : NoDup l -> NoDup (filter f l).
Proof.
  induction 1 as [|x l N _ IH]; simpl; [constructor|]. destruct (f x); auto.
  constructor; auto. rewrite filter_In. tauto.
Qed.
Lemma subset_b_spec s o : subset_b s o = true <-> incl s o.
Proof.
  unfold subset_b. rewrite forallb_forall. unfold incl. split; intros H x Hx; [apply mem_In|apply mem_In]; auto.
Qed.
Lemma set_eqb_spec s o : set_eqb s o = true <-> (forall x, In x s <-> In x o).
Proof.
  unfold set_eqb. rewrite andb_true_iff, !subset_b_spec. unfold incl. split.
  - intros [A B] x; split; auto.
  - intros H; split; intros x; apply H.
Qed.

(* ------------------------------------------------------------------------------------------ the History iterator *)
Section Hist.
Variable causes : nat -> eset.
Variable pick : nat -> eset -> nat.
(* events are created after their causes *)
Hypothesis causes_lt : forall e c, In c (causes e) -> c < e.
(* begin() of a non-empty unordered_set is one of its elements -- the only thing assumed about the iteration order *)
Hypothesis pick_in : forall k s, s <> [] -> In (pick k s) s.

(** causality: c is an immediate cause of e;  le = reflexive-transitive closure (e' <= e), lt = transitive closure *)
Definition icause (c e : nat) : Prop := In c (causes e).
Definition le : nat -> nat -> Prop := clos_refl_trans nat icause.
Definition lt : nat -> nat -> Prop := clos_trans nat icause.

Lemma lt_num a b : lt a b -> a < b.
Proof. induction 1 as [a b H|a b c _ H1 _ H2]; [apply causes_lt; auto|lia]. Qed.
Lemma le_num a b : le a b -> a <= b.
Proof. induction 1 as [a b H| |a b c _ H1 _ H2]; [apply causes_lt in H; lia|lia|lia]. Qed.
Lemma le_lt_eq a b : le a b <-> a = b \/ lt a b.
Proof.
  split.
  - induction 1 as [a b H| |a b c _ H1 _ H2]; auto.
    + right; apply t_step; auto.
    + destruct H1 as [->|H1], H2 as [->|H2]; auto. right. eapply t_trans; eauto.
  - intros [->|H]; [apply rt_refl|]. induction H; [apply rt_step; auto|eapply rt_trans; eauto].
Qed.
Lemma le_trans a b c : le a b -> le b c -> le a c.
Proof. intros; eapply rt_trans; eauto. Qed.
Lemma lt_irrefl a : ~ lt a a.
Proof. intros H. apply lt_num in H. lia. Qed.
Lemma lt_first a b : lt a b -> exists h, icause a h /\ le h b.
Proof.
  intros H. apply clos_trans_t1n in H. destruct H as [b H|h b H1 H2].
  - exists b. split; auto. apply rt_refl.
  - exists h. split; auto. apply le_lt_eq. right. apply clos_t1n_trans; auto.
Qed.
Lemma le_antisym a b : le a b -> le b a -> a = b.
Proof. intros H1 H2. apply le_num in H1. apply le_num in H2. lia. Qed.

Definition below (initial : eset) (x : nat) : Prop := exists e0, In e0 initial /\ le x e0.

(** the loop invariant of History::Iterator *)
Record hinv (initial : eset) (it : hiter) (visited : list nat) : Prop := {
  hi_init : forall e, In e initial -> In e (current_history it) \/ In e (frontier it);
  hi_closed : forall h c, In h (current_history it) -> In c (causes h) ->
                          In c (current_history it) \/ In c (frontier it);
  hi_below : forall x, In x (current_history it) \/ In x (frontier it) -> below initial x;
  hi_nodup : NoDup (current_history it);
  hi_disj : forall x, In x (frontier it) -> ~ In x (current_history it);
  hi_max : forall e, In e (maximal_events it) <->
                     In e initial /\ forall h, In h (current_history it) -> ~ In e (causes h);
  hi_visited : visited = rev (current_history it)
}.

Lemma hinv_init initial : hinv initial (hinit initial) [].
Proof.
  constructor; simpl.
  - auto.
  - intros h c [].
  - intros x [[]|H]. exists x. split; auto. apply rt_refl.
  - constructor.
  - auto.
  - intros e. split; [intros H; split; auto|tauto].
  - reflexivity.
Qed.

Lemma hinv_step initial k it v : frontier it <> [] -> hinv initial it v ->
  hinv initial (hstep causes pick k it) (v ++ [pick k (frontier it)]) /\
  ~ In (pick k (frontier it)) (current_history it).
Proof.
  intros Hne I. pose proof (pick_in k _ Hne) as Hp. set (e := pick k (frontier it)) in *.
  pose proof (hi_disj _ _ _ I e Hp) as Hnew.
  split; auto. unfold hstep. fold e.
  assert (Hadd : forall x, In x (set_add e (current_history it)) <-> x = e \/ In x (current_history it))
    by (intros; apply set_add_In).
  constructor; cbn [frontier current_history maximal_events].
  - intros x Hx. destruct (hi_init _ _ _ I x Hx) as [H|H].
    + left. apply Hadd; auto.
    + destruct (Nat.eq_dec x e) as [->|Ne]; [left; apply Hadd; auto|].
      right. apply set_union_In. left. apply set_remove_In. auto.
  - intros h c Hh Hc. apply Hadd in Hh.
    destruct (in_dec Nat.eq_dec c (set_add e (current_history it))) as [Hin|Hnin]; auto.
    right. apply set_union_In. destruct Hh as [->|Hh].
    + right. apply set_subtract_In. auto.
    + destruct (hi_closed _ _ _ I h c Hh Hc) as [H|H].
      * exfalso. apply Hnin. apply Hadd; auto.
      * left. apply set_remove_In. split; auto. intros ->. apply Hnin, Hadd; auto.
  - intros x [Hx|Hx].
    + apply Hadd in Hx. destruct Hx as [->|Hx]; apply (hi_below _ _ _ I); auto.
    + apply set_union_In in Hx. destruct Hx as [Hx|Hx].
      * apply set_remove_In in Hx. apply (hi_below _ _ _ I); tauto.
      * apply set_subtract_In in Hx. destruct Hx as [Hx _].
        destruct (hi_below _ _ _ I e (or_intror Hp)) as (e0 & A & B). exists e0. split; auto.
        eapply le_trans; eauto. apply rt_step; auto.
  - apply set_add_NoDup. apply (hi_nodup _ _ _ I).
  - intros x Hx Hh. apply Hadd in Hh. apply set_union_In in Hx. destruct Hx as [Hx|Hx].
    + apply set_remove_In in Hx. destruct Hx as [Hx Ne]. destruct Hh as [->|Hh]; [congruence|].
      apply (hi_disj _ _ _ I x); auto.
    + apply set_subtract_In in Hx. destruct Hx as [_ Hx]. apply Hx, Hadd; auto.
  - intros x. rewrite set_subtract_In, (hi_max _ _ _ I). split.
    + intros [[A B] C]. split; auto. intros h Hh. apply Hadd in Hh. destruct Hh as [->|Hh]; auto.
    + intros [A B]. split; [split; auto|].
      * intros h Hh. apply B, Hadd; auto.
      * apply B, Hadd; auto.
  - rewrite (hi_visited _ _ _ I). unfold set_add. apply mem_false in Hnew. rewrite Hnew. reflexivity.
Qed.

Lemma hrun_inv initial fuel : forall k it v res vis,
  hinv initial it v -> hrun causes pick fuel k it v = Some (res, vis) ->
  hinv initial res vis /\ frontier res = [].
Proof.
  induction fuel as [|f IH]; intros k it v res vis I H; simpl in H.
  - destruct (frontier it) eqn:F; inv H. auto.
  - destruct (frontier it) eqn:F.
    + inv H. auto.
    + rewrite <- F in H. eapply IH; [|exact H]. apply hinv_step; auto. congruence.
Qed.

(* termination: the history only contains distinct events <= the largest initial one *)
Lemma below_bound initial x : below initial x -> x <= list_max initial.
Proof.
  intros (e0 & A & B). apply le_num in B.
  assert (e0 <= list_max initial).
  { clear -A. induction initial as [|y l IH]; [inv A|]. simpl. destruct A as [->|A]; [lia|]. specialize (IH A). lia. }
  lia.
Qed.

Lemma hist_length initial it v : hinv initial it v -> length (current_history it) <= S (list_max initial).
Proof.
  intros I. rewrite <- (seq_length (S (list_max initial)) 0).
  apply NoDup_incl_length; [apply (hi_nodup _ _ _ I)|].
  intros x Hx. apply in_seq. pose proof (below_bound _ _ (hi_below _ _ _ I x (or_introl Hx))). lia.
Qed.

Lemma hrun_terminates initial fuel : forall k it v,
  hinv initial it v -> S (list_max initial) < fuel + length (current_history it) + (match frontier it with [] => 1 | _ => 0 end) ->
  hrun causes pick fuel k it v <> None.
Proof.
  induction fuel as [|f IH]; intros k it v I H; simpl.
  - destruct (frontier it) eqn:F; [discriminate|]. pose proof (hist_length _ _ _ I). simpl in H. lia.
  - destruct (frontier it) eqn:F; [discriminate|]. rewrite <- F.
    assert (Hne : frontier it <> []) by congruence.
    destruct (hinv_step initial k it v Hne I) as [I' Hnew].
    apply IH; auto.
    assert (length (current_history (hstep causes pick k it)) = S (length (current_history it))) as ->.
    { unfold hstep; cbn [current_history]. unfold set_add. apply mem_false in Hnew. rewrite Hnew. reflexivity. }
    simpl in H. destruct (frontier (hstep causes pick k it)); lia.
Qed.

Lemma history_run_some initial : exists it vis, history_run causes pick initial = Some (it, vis).
Proof.
  unfold history_run. destruct (hrun causes pick (hfuel initial) 0 (hinit initial) []) as [[it vis]|] eqn:R; eauto.
  exfalso. revert R. apply hrun_terminates with (initial := initial); [apply hinv_init|].
  unfold hfuel. simpl. destruct initial; simpl; lia.
Qed.

(** results of a complete iteration *)
Lemma history_run_spec initial it vis : history_run causes pick initial = Some (it, vis) ->
  (forall x, In x (current_history it) <-> below initial x) /\
  NoDup (current_history it) /\
  vis = rev (current_history it) /\
  (forall e, In e (maximal_events it) <-> In e initial /\ forall e', In e' initial -> ~ lt e e').
Proof.
  intros R. destruct (hrun_inv initial _ _ _ _ _ _ (hinv_init initial) R) as [I F].
  assert (Hcl : forall x, below initial x -> In x (current_history it)).
  { intros x (e0 & A & B). destruct (hi_init _ _ _ I e0 A) as [H0|H0]; [|rewrite F in H0; inv H0].
    clear A. apply clos_rt_rt1n in B. induction B as [|x y z Hxy _ IH]; auto.
    specialize (IH H0). destruct (hi_closed _ _ _ I y x IH Hxy) as [H|H]; auto. rewrite F in H; inv H. }
  split; [|split; [|split]].
  - intros x; split; auto. intros Hx. apply (hi_below _ _ _ I); auto.
  - apply (hi_nodup _ _ _ I).
  - apply (hi_visited _ _ _ I).
  - intros e. rewrite (hi_max _ _ _ I). split; intros [A B]; split; auto.
    + intros e' He' Hlt. destruct (lt_first _ _ Hlt) as (h & H1 & H2).
      apply (B h); auto. apply Hcl. exists e'; auto.
    + intros h Hh Hc. destruct (hi_below _ _ _ I h (or_introl Hh)) as (e0 & C & D).
      apply (B e0 C). apply le_lt_eq in D. destruct D as [->|D]; [apply t_step; auto|].
      eapply t_trans; [apply t_step; exact Hc|exact D].
Qed.

(** C44: History(S).get_all_events() is the causal closure of S, whatever the iteration order *)
Theorem get_all_events_spec s x : In x (get_all_events causes pick s) <-> exists e0, In e0 s /\ le x e0.
Proof.
  unfold get_all_events. destruct (history_run_some s) as (it & vis & R). rewrite R.
  apply (history_run_spec _ _ _ R).
Qed.
Theorem get_all_events_nodup s : NoDup (get_all_events causes pick s).
Proof.
  unfold get_all_events. destruct (history_run_some s) as (it & vis & R). rewrite R.
  apply (history_run_spec _ _ _ R).
Qed.
(* iterating over a History yields every event of the closure exactly once *)
Theorem history_sequence_spec s :
  NoDup (history_sequence causes pick s) /\
  forall x, In x (history_sequence causes pick s) <-> exists e0, In e0 s /\ le x e0.
Proof.
  unfold history_sequence. destruct (history_run_some s) as (it & vis & R). rewrite R.
  destruct (history_run_spec _ _ _ R) as (A & B & -> & _). split.
  - apply NoDup_rev; auto.
  - intros x. rewrite <- in_rev. apply A.
Qed.
(** C44: get_all_maximal_events = the events of S that are not a strict cause of another event of S *)
Theorem get_all_maximal_events_spec s e :
  In e (get_all_maximal_events causes pick s) <-> In e s /\ forall e', In e' s -> ~ lt e e'.
Proof.
  unfold get_all_maximal_events. destruct (history_run_some s) as (it & vis & R). rewrite R.
  apply (history_run_spec _ _ _ R).
Qed.

Lemma local_config_spec e x : In x (local_config causes pick e) <-> le x e.
Proof.
  unfold local_config. rewrite get_all_events_spec. split.
  - intros (e0 & [<-|[]] & H); auto.
  - intros H; exists e; simpl; auto.
Qed.
Lemma history_of_spec e x : In x (history_of causes pick e) <-> lt x e.
Proof.
  unfold history_of. rewrite set_remove_In, local_config_spec, le_lt_eq. split.
  - intros [[->|H] N]; auto; congruence.
  - intros H. split; auto. intros ->. apply (lt_irrefl _ H).
Qed.
Lemma in_history_of_spec e other : in_history_of causes pick e other = true <-> le e other.
Proof.
  unfold in_history_of. rewrite existsb_exists. destruct (history_sequence_spec [other]) as [_ H]. split.
  - intros (x & Hx & E). apply Nat.eqb_eq in E; subst x. apply H in Hx. destruct Hx as (e0 & [<-|[]] & L); auto.
  - intros L. exists e. split; [|apply Nat.eqb_refl]. apply H. exists other; simpl; auto.
Qed.
Lemma related_to_spec e other : related_to causes pick e other = true <-> le e other \/ le other e.
Proof. unfold related_to. rewrite orb_true_iff, !in_history_of_spec. tauto. Qed.

(** C44: is_maximal(S) iff no event of S is a strict cause of another one *)
Theorem is_maximal_spec s : is_maximal causes pick s = true <-> forall e e', In e s -> In e' s -> ~ lt e e'.
Proof.
  unfold is_maximal, get_largest_maximal_subset. rewrite set_eqb_spec. split.
  - intros H e e' He He'. apply H in He. apply get_all_maximal_events_spec in He. destruct He as [_ B]. auto.
  - intros H x. rewrite get_all_maximal_events_spec. split; [|tauto]. intros Hx. split; auto.
Qed.
Variable dep : nat -> nat -> bool.

(** C44: the conflict relation computed = its definition on the causal order *)
Definition conflict (e1 e2 : nat) : Prop :=
  ~ le e1 e2 /\ ~ le e2 e1 /\
  ((exists x, le x e1 /\ ~ le x e2 /\ dep x e2 = true) \/ (exists y, le y e2 /\ ~ le y e1 /\ dep y e1 = true)).

Theorem conflicts_with_spec e1 e2 : conflicts_with causes dep pick e1 e2 = true <-> conflict e1 e2.
Proof.
  unfold conflicts_with, conflict. destruct (related_to causes pick e1 e2) eqn:Rl.
  - apply related_to_spec in Rl. split; [discriminate|]. tauto.
  - assert (~ (le e1 e2 \/ le e2 e1)) as NR by (rewrite <- related_to_spec; congruence).
    rewrite orb_true_iff, !existsb_exists. split.
    + intros H. split; [tauto|split; [tauto|]]. destruct H as [(x & Hx & D)|(y & Hy & D)]; [left; exists x|right; exists y];
        apply set_subtract_In in Hx || apply set_subtract_In in Hy; rewrite !local_config_spec in *; tauto.
    + intros (_ & _ & [(x & A & B & C)|(y & A & B & C)]); [left; exists x|right; exists y]; split; auto;
        apply set_subtract_In; rewrite !local_config_spec; auto.
Qed.

Definition causally_closed (s : eset) : Prop := forall e c, In e s -> le c e -> In c s.
Definition conflict_free (s : eset) : Prop := forall e1 e2, In e1 s -> In e2 s -> ~ conflict e1 e2.

Lemma contains_history_spec s : contains_history causes pick s s = true <-> causally_closed s.
Proof.
  unfold contains_history, causally_closed. rewrite forallb_forall. destruct (history_sequence_spec s) as [_ H]. split.
  - intros A e c He L. apply mem_In, A, H. eauto.
  - intros A x Hx. apply mem_In. apply H in Hx. destruct Hx as (e0 & B & C). eauto.
Qed.
Lemma is_conflict_free_spec s : is_conflict_free causes dep pick s = true <-> conflict_free s.
Proof.
  unfold is_conflict_free, conflict_free. rewrite forallb_forall. split.
  - intros A e1 e2 H1 H2 C. specialize (A e1 H1). rewrite forallb_forall in A. specialize (A e2 H2).
    apply conflicts_with_spec in C. rewrite C in A. discriminate.
  - intros A e1 H1. apply forallb_forall. intros e2 H2. apply negb_true_iff.
    destruct (conflicts_with causes dep pick e1 e2) eqn:C; auto. apply conflicts_with_spec in C.
    exfalso. exact (A e1 e2 H1 H2 C).
Qed.

(** C44: a set of events is accepted as a configuration iff it is causally closed and conflict-free *)
Theorem is_valid_configuration_spec s :
  is_valid_configuration causes dep pick s = true <-> causally_closed s /\ conflict_free s.
Proof. unfold is_valid_configuration. rewrite andb_true_iff, contains_history_spec, is_conflict_free_spec. tauto. Qed.

End Hist.

(* ------------------------------------------------------------------------------------------ variable_for_loop *)
(* all tuples >= cur in lexicographic order *)
Fixpoint vfl_from (sizes cur : list nat) : list (list nat) :=
  match sizes, cur with
  | n :: r, c :: cur' =>
      map (cons c) (vfl_from r cur') ++ flat_map (fun c' => map (cons c') (tuples r)) (seq (S c) (n - S c))
  | _, _ => [[]]
  end.

Definition zeros (l : list nat) : list nat := map (fun _ => 0) l.

Lemma vfl_from_zeros sizes : Forall (fun n => 0 < n) sizes -> vfl_from sizes (zeros sizes) = tuples sizes.
Proof.
  induction 1 as [|n r Hn _ IH]; simpl; auto.
  rewrite IH. destruct n as [|n]; [lia|]. simpl. rewrite Nat.sub_0_r. reflexivity.
Qed.

Lemma zeros_zeros (cur r : list nat) : length cur = length r -> map (fun _ => 0) cur = zeros r.
Proof. revert r; induction cur; destruct r; simpl; intros; try lia; auto. f_equal. apply IHcur. lia. Qed.

Lemma vfl_from_step sizes : Forall (fun n => 0 < n) sizes -> forall cur,
  length cur = length sizes -> Forall2 (fun c n => c < n) cur sizes ->
  vfl_from sizes cur = cur :: match vfl_incr sizes cur with Some nx => vfl_from sizes nx | None => [] end.
Proof.
  induction 1 as [|n r Hn Hr IH]; intros cur L F.
  - destruct cur; [reflexivity|discriminate].
  - destruct cur as [|c cur']; [discriminate|]. inv F. simpl in L.
    cbn [vfl_from vfl_incr]. rewrite (IH cur') by (auto; lia).
    destruct (vfl_incr r cur') as [nx|] eqn:E.
    + reflexivity.
    + simpl. destruct (S c <? n) eqn:Lt.
      * apply Nat.ltb_lt in Lt. f_equal. cbn [vfl_from].
        replace (n - S c) with (S (n - S (S c))) by lia. simpl.
        rewrite (zeros_zeros cur' r) by lia. rewrite vfl_from_zeros; auto.
      * apply Nat.ltb_ge in Lt. replace (n - S c) with 0 by lia. reflexivity.
Qed.

Lemma vfl_incr_valid sizes : forall cur nx, Forall2 (fun c n => c < n) cur sizes -> vfl_incr sizes cur = Some nx ->
  Forall2 (fun c n => c < n) nx sizes.
Proof.
  induction sizes as [|n r IH]; intros cur nx F H; [destruct cur; discriminate|].
  destruct cur as [|c cur']; [discriminate|]. assert (c < n /\ Forall2 (fun c n => c < n) cur' r) as [Fc Fr] by (inversion F; auto). simpl in H.
  destruct (vfl_incr r cur') as [nx'|] eqn:E.
  - inv H. constructor; eauto.
  - destruct (S c <? n) eqn:Lt; [|discriminate]. inv H. apply Nat.ltb_lt in Lt. constructor; auto.
    clear -Fr. induction Fr; simpl; constructor; auto. lia.
Qed.

Lemma F2_length {A B} (P : A -> B -> Prop) l1 l2 : Forall2 P l1 l2 -> length l1 = length l2.
Proof. induction 1; simpl; auto. Qed.

Lemma vfl_run_from sizes : Forall (fun n => 0 < n) sizes -> forall fuel cur,
  Forall2 (fun c n => c < n) cur sizes -> length (vfl_from sizes cur) <= fuel ->
  vfl_run fuel sizes (Some cur) = vfl_from sizes cur.
Proof.
  intros P fuel. induction fuel as [|f IH]; intros cur F L.
  - rewrite vfl_from_step in L; auto; [simpl in L; lia|]. eapply F2_length; eauto.
  - rewrite vfl_from_step in *; auto; try (eapply F2_length; eauto). simpl. f_equal.
    destruct (vfl_incr sizes cur) as [nx|] eqn:E.
    + apply IH; [eapply vfl_incr_valid; eauto|]. simpl in L; lia.
    + destruct f; reflexivity.
Qed.

Lemma tuples_length sizes : length (tuples sizes) = fold_right Nat.mul 1 sizes.
Proof.
  induction sizes as [|n r IH]; simpl; auto. rewrite <- IH. generalize (tuples r) as l. intros l.
  generalize 0 as s. induction n as [|n IHn]; intros s; simpl; auto. rewrite app_length, map_length, IHn. reflexivity.
Qed.

(** C44: variable_for_loop yields exactly the tuples of the cartesian product, in lexicographic order *)
Theorem vfl_all_spec sizes : sizes <> [] -> Forall (fun n => 0 < n) sizes -> vfl_all sizes = tuples sizes.
Proof.
  intros Hne P. unfold vfl_all, vfl_init. destruct sizes as [|n r]; [congruence|].
  assert (forallb (fun n => 0 <? n) (n :: r) = true) as ->.
  { apply forallb_forall. intros x Hx. rewrite Forall_forall in P. apply Nat.ltb_lt. auto. }
  fold (zeros (n :: r)). rewrite vfl_run_from; auto.
  - apply vfl_from_zeros; auto.
  - clear Hne. induction P; simpl; constructor; auto.
  - rewrite vfl_from_zeros; auto. rewrite tuples_length. lia.
Qed.
Theorem vfl_all_empty sizes : sizes = [] \/ Exists (fun n => n = 0) sizes -> vfl_all sizes = [].
Proof.
  intros [->|E]; [reflexivity|]. unfold vfl_all, vfl_init. destruct sizes as [|n r]; [reflexivity|].
  assert (forallb (fun n => 0 <? n) (n :: r) = false) as ->.
  { apply Exists_exists in E. destruct E as (x & Hx & ->).
    destruct (forallb (fun n => 0 <? n) (n :: r)) eqn:Fb; auto. rewrite forallb_forall in Fb. specialize (Fb 0 Hx). discriminate. }
  reflexivity.
Qed.

Lemma tuples_spec sizes t : In t (tuples sizes) <-> Forall2 (fun c n => c < n) t sizes.
Proof.
  revert t; induction sizes as [|n r IH]; intros t; simpl.
  - split; [intros [<-|[]]; constructor|]. intros H; inv H; auto.
  - rewrite in_flat_map. split.
    + intros (c & Hc & Ht). apply in_map_iff in Ht. destruct Ht as (t' & <- & Ht'). apply in_seq in Hc.
      constructor; [lia|apply IH; auto].
    + intros H; inv H. exists x. split; [apply in_seq; lia|]. apply in_map_iff. exists l. split; auto. apply IH; auto.
Qed.

Lemma NoDup_app_intro {A} (a b : list A) : NoDup a -> NoDup b -> (forall x, In x a -> In x b -> False) -> NoDup (a ++ b).
Proof.
  induction 1 as [|x a N _ IH]; simpl; auto. intros Hb D. constructor.
  - intros H. apply in_app_or in H. destruct H; [auto|]. eapply D; eauto.
  - apply IH; auto. intros y Hy. apply D; auto.
Qed.

Lemma map_cons_NoDup {A} (c : A) l : NoDup l -> NoDup (map (cons c) l).
Proof.
  induction 1 as [|x l N _ IH]; simpl; constructor; auto.
  intros H. apply in_map_iff in H. destruct H as (y & E & Hy). inv E. auto.
Qed.

Lemma tuples_nodup sizes : NoDup (tuples sizes).
Proof.
  induction sizes as [|n r IH]; simpl; [constructor; auto; constructor|].
  assert (forall s, NoDup (flat_map (fun c => map (cons c) (tuples r)) (seq s n)) /\
                    forall t, In t (flat_map (fun c => map (cons c) (tuples r)) (seq s n)) -> exists c t', t = c :: t' /\ s <= c) as H.
  { induction n as [|n IHn]; intros s; simpl; [split; [constructor|intros ? []]|].
    destruct (IHn (S s)) as [A B]. split.
    - apply NoDup_app_intro; auto.
      + apply map_cons_NoDup; auto.
      + intros t H1 H2. apply in_map_iff in H1. destruct H1 as (t' & <- & _).
        destruct (B _ H2) as (c & t'' & E & L). inv E. lia.
    - intros t Ht. apply in_app_or in Ht. destruct Ht as [Ht|Ht].
      + apply in_map_iff in Ht. destruct Ht as (t' & <- & _). eauto.
      + destruct (B _ Ht) as (c & t' & E & L). exists c, t'. split; auto. lia. }
  apply H.
Qed.

(* ------------------------------------------------------------------------------------------ subset enumerations *)
Inductive sublist : list nat -> list nat -> Prop :=
| sl_nil : sublist [] []
| sl_skip s x l : sublist s l -> sublist s (x :: l)
| sl_take s x l : sublist s l -> sublist (x :: s) (x :: l).

Lemma sublist_incl s l : sublist s l -> incl s l.
Proof. induction 1; intros y Hy; simpl in *; auto. destruct Hy; auto. Qed.
Lemma sublist_nil l : sublist [] l.
Proof. induction l; constructor; auto. Qed.

Lemma allsubsets_spec l s : In s (allsubsets l) <-> sublist s l.
Proof.
  revert s; induction l as [|x r IH]; intros s; simpl.
  - split; [intros [<-|[]]; constructor|]. intros H; inv H; auto.
  - rewrite in_app_iff, in_map_iff. split.
    + intros [(s' & <- & H)|H]; [apply sl_take|apply sl_skip]; apply IH; auto.
    + intros H; inv H; [right; apply IH; auto|left; exists s0; split; auto; apply IH; auto].
Qed.

Lemma allsubsets_nodup l : NoDup l -> NoDup (allsubsets l).
Proof.
  induction 1 as [|x r N _ IH]; simpl; [constructor; auto; constructor|].
  apply NoDup_app_intro; auto; [apply map_cons_NoDup; auto|].
  intros s H1 H2. apply in_map_iff in H1. destruct H1 as (s' & <- & _).
  apply allsubsets_spec, sublist_incl in H2. apply N, H2. simpl; auto.
Qed.

Lemma ksubsets_spec k l s : In s (ksubsets k l) <-> sublist s l /\ length s = k.
Proof.
  revert k s; induction l as [|x r IH]; intros k s.
  - destruct k; simpl.
    + split; [intros [<-|[]]; split; auto; constructor|]. intros [H _]; inv H; auto.
    + split; [intros []|]. intros [H E]; inv H. discriminate.
  - destruct k; simpl.
    + split; [intros [<-|[]]; split; auto; apply sublist_nil|]. intros [_ E]. destruct s; [auto|discriminate].
    + rewrite in_app_iff, in_map_iff. split.
      * intros [(s' & <- & H)|H].
        -- apply IH in H. destruct H. split; [apply sl_take; auto|simpl; lia].
        -- apply (IH (S k)) in H. destruct H. split; auto. apply sl_skip; auto.
      * intros [H E]. inv H.
        -- right. apply (IH (S k)). auto.
        -- left. exists s0. split; auto. apply IH. simpl in E. split; auto; lia.
Qed.

Lemma ksubsets_nodup k l : NoDup l -> NoDup (ksubsets k l).
Proof.
  intros N; revert k; induction N as [|x r Nx _ IH]; intros k; destruct k; simpl;
    try (constructor; auto; constructor).
  apply NoDup_app_intro; auto; [apply map_cons_NoDup; auto|].
  intros s H1 H2. apply in_map_iff in H1. destruct H1 as (s' & <- & _).
  apply ksubsets_spec in H2. destruct H2 as [H2 _]. apply sublist_incl in H2. apply Nx, H2. simpl; auto.
Qed.

(* ------------------------------------------------------------------------------------------ the oracle *)
Lemma list_eqb_eq a b : list_eqb a b = true -> a = b.
Proof.
  revert b; induction a as [|x a IH]; intros [|y b]; simpl; try discriminate; auto.
  intros H. apply andb_true_iff in H. destruct H as [E H]. apply Nat.eqb_eq in E. f_equal; auto.
Qed.
Lemma lists_eqb_eq a b : lists_eqb a b = true -> a = b.
Proof.
  revert b; induction a as [|x a IH]; intros [|y b]; simpl; try discriminate; auto.
  intros H. apply andb_true_iff in H. destruct H as [E H]. apply list_eqb_eq in E. f_equal; auto.
Qed.

Theorem enum_ok_sound out ref : enum_ok out ref = true -> Permutation out ref.
Proof.
  unfold enum_ok. intros H. apply lists_eqb_eq in H.
  eapply perm_trans; [apply LexSort.Permuted_sort|]. rewrite H. apply Permutation_sym, LexSort.Permuted_sort.
Qed.

(** "each qualifying set exactly once": no duplicates, and the yielded sets are exactly the reference ones *)
Theorem enum_ok_each_once out ref : NoDup ref -> enum_ok out ref = true ->
  NoDup out /\ forall s, In s out <-> In s ref.
Proof.
  intros N H. apply enum_ok_sound in H. split.
  - eapply Permutation_NoDup; [apply Permutation_sym; eauto|auto].
  - intros s; split; apply Permutation_in; auto. apply Permutation_sym; auto.
Qed.

Section MaxSubProofs.
Variable causes : nat -> eset.
Variable pick : nat -> eset -> nat.
Hypothesis causes_lt : forall e c, In c (causes e) -> c < e.
Hypothesis pick_in : forall k s, s <> [] -> In (pick k s) s.

Theorem maxsub_ref_spec events k s : In s (maxsub_ref causes pick events k) <->
  sublist s events /\ (forall e e', In e s -> In e' s -> ~ lt causes e e') /\ length s <= k.
Proof.
  unfold maxsub_ref. rewrite filter_In, allsubsets_spec, andb_true_iff, Nat.leb_le.
  rewrite (is_maximal_spec causes pick causes_lt pick_in). tauto.
Qed.
Theorem maxsub_ref_nodup events k : NoDup events -> NoDup (maxsub_ref causes pick events k).
Proof. intros. apply filter_NoDup, allsubsets_nodup; auto. Qed.
End MaxSubProofs.

(* ------------------------------------------------------------------------------------------ closed forms for Props *)
Definition created_after_causes (causes : nat -> eset) : Prop := forall e c, In c (causes e) -> c < e.
Definition picks_a_member (pick : nat -> eset -> nat) : Prop := forall k s, s <> [] -> In (pick k s) s.

Lemma vfl_each_once sizes : sizes <> [] -> Forall (fun n => 0 < n) sizes ->
  NoDup (vfl_all sizes) /\ forall t, In t (vfl_all sizes) <-> Forall2 (fun c n => c < n) t sizes.
Proof.
  intros A B. rewrite vfl_all_spec by auto. split; [apply tuples_nodup|apply tuples_spec].
Qed.

Lemma subsets_oracle k l out : NoDup l -> enum_ok out (ksubsets k l) = true ->
  NoDup out /\ forall s, In s out <-> sublist s l /\ length s = k.
Proof.
  intros N H. destruct (enum_ok_each_once out _ (ksubsets_nodup k l N) H) as [A B]. split; auto.
  intros s. rewrite B. apply ksubsets_spec.
Qed.
Lemma powerset_oracle l out : NoDup l -> enum_ok out (allsubsets l) = true ->
  NoDup out /\ forall s, In s out <-> sublist s l.
Proof.
  intros N H. destruct (enum_ok_each_once out _ (allsubsets_nodup l N) H) as [A B]. split; auto.
  intros s. rewrite B. apply allsubsets_spec.
Qed.
Lemma maxsub_oracle causes pick events k out : created_after_causes causes -> picks_a_member pick -> NoDup events ->
  enum_ok out (maxsub_ref causes pick events k) = true ->
  NoDup out /\ forall s, In s out <->
    sublist s events /\ (forall e e', In e s -> In e' s -> ~ lt causes e e') /\ length s <= k.
Proof.
  intros C P N H. destruct (enum_ok_each_once out _ (maxsub_ref_nodup causes pick events k N) H) as [A B]. split; auto.
  intros s. rewrite B. apply maxsub_ref_spec; auto.
Qed.
