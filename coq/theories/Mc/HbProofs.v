(** C42 — proofs about SGV.Mc.Hb: the clock vectors of odpor::Execution decide exactly the transitive closure of
    "occurs before and is dependent with", and get_racing_events_of returns exactly the races. *)
From SGV Require Import Base.Tactics Mc.Hb.
From Coq Require Import Relations Sorting.Sorted.
Local Open Scope nat_scope.

(* ------------------------------------------------------------------------------------------ clock vectors *)
Lemma cv_get_nil p : cv_get [] p = None.
Proof. destruct p; reflexivity. Qed.

Lemma omax_none_r a : omax a None = a.
Proof. destruct a; reflexivity. Qed.

Lemma cv_get_max a b p : cv_get (cv_max a b) p = omax (cv_get a p) (cv_get b p).
Proof.
  revert b p; induction a as [|x a IH]; intros b p.
  - simpl cv_max. rewrite cv_get_nil. reflexivity.
  - destruct b as [|y b].
    + simpl cv_max. rewrite cv_get_nil, omax_none_r. reflexivity.
    + destruct p as [|p]; [reflexivity|]. apply (IH b p).
Qed.

Lemma cv_get_cons_S x (c : cv) q : cv_get (x :: c) (S q) = cv_get c q.
Proof. reflexivity. Qed.

Lemma cv_get_set c p v q : cv_get (cv_set c p v) q = if q =? p then Some v else cv_get c q.
Proof.
  revert c q; induction p as [|p IH]; intros c q.
  - destruct c, q; try reflexivity. cbn [cv_set]. rewrite cv_get_cons_S, !cv_get_nil. reflexivity.
  - destruct c as [|x c], q as [|q]; try reflexivity; cbn [cv_set]; rewrite cv_get_cons_S, IH.
    + rewrite !cv_get_nil. reflexivity.
    + reflexivity.
Qed.

Lemma omax_some_inv a b j : omax a b = Some j -> a = Some j \/ b = Some j.
Proof.
  destruct a as [x|], b as [y|]; simpl; intros H; auto.
  inv H. destruct (Nat.max_spec x y) as [[_ E]|[_ E]]; rewrite E; auto.
Qed.
Lemma omax_ge_l a b j : a = Some j -> exists j', omax a b = Some j' /\ j <= j'.
Proof. intros ->. destruct b as [y|]; simpl; eexists; split; eauto; lia. Qed.
Lemma omax_ge_r a b j : b = Some j -> exists j', omax a b = Some j' /\ j <= j'.
Proof. intros ->. destruct a as [y|]; simpl; eexists; split; eauto; lia. Qed.

(* ------------------------------------------------------------------------------------------ skip lists *)
Lemma skip_get_nil p : skip_get [] p = [].
Proof. destruct p; reflexivity. Qed.

Lemma skip_get_cons_S x (s : skiplist) q : skip_get (x :: s) (S q) = skip_get s q.
Proof. reflexivity. Qed.

Lemma skip_get_add s p h q : skip_get (skip_add s p h) q = if q =? p then h :: skip_get s p else skip_get s q.
Proof.
  revert s q; induction p as [|p IH]; intros s q.
  - destruct s, q; try reflexivity. cbn [skip_add]. rewrite skip_get_cons_S, !skip_get_nil. reflexivity.
  - destruct s as [|l s], q as [|q]; try reflexivity; cbn [skip_add]; rewrite skip_get_cons_S, IH.
    + rewrite !skip_get_nil. reflexivity.
    + reflexivity.
Qed.

Lemma find_recent (f g : nat -> bool) n h :
  find f (rev (filter g (seq 0 n))) = Some h ->
  f h = true /\ g h = true /\ h < n /\ forall k, h < k -> k < n -> g k = true -> f k = false.
Proof.
  induction n as [|n IH]; [discriminate|].
  rewrite seq_S, filter_app, rev_app_distr. simpl.
  destruct (g n) eqn:Gn; simpl.
  - destruct (f n) eqn:Fn.
    + intros H; inv H. repeat split; auto; intros; lia.
    + intros H. destruct (IH H) as (A & B & C & D). repeat split; auto.
      intros k K1 K2 K3. destruct (Nat.eq_dec k n) as [->|]; auto. apply D; auto; lia.
  - intros H. destruct (IH H) as (A & B & C & D). repeat split; auto.
    intros k K1 K2 K3. destruct (Nat.eq_dec k n) as [->|]; [congruence|]. apply D; auto; lia.
Qed.

Lemma find_recent_none (f g : nat -> bool) n :
  find f (rev (filter g (seq 0 n))) = None -> forall k, k < n -> g k = true -> f k = false.
Proof.
  induction n as [|n IH]; [intros; lia|].
  rewrite seq_S, filter_app, rev_app_distr. simpl.
  destruct (g n) eqn:Gn; simpl.
  - destruct (f n) eqn:Fn; [discriminate|]. intros H k K1 K2.
    destruct (Nat.eq_dec k n) as [->|]; auto. apply IH; auto; lia.
  - intros H k K1 K2. destruct (Nat.eq_dec k n) as [->|]; [congruence|]. apply IH; auto; lia.
Qed.

(* ------------------------------------------------------------------------------------------ the max loop *)
Section Fold.
Variable f : nat -> bool.
Variable g : nat -> cv.
Let F := fun (acc : cv) (events : list nat) =>
           match find f events with Some h => cv_max acc (g h) | None => acc end.

Lemma fold_sound l : forall acc q j,
  cv_get (fold_left F l acc) q = Some j ->
  cv_get acc q = Some j \/ exists evs h, In evs l /\ find f evs = Some h /\ cv_get (g h) q = Some j.
Proof.
  induction l as [|evs l IH]; intros acc q j H; simpl in H; auto.
  apply IH in H. destruct H as [H|(evs' & h & A & B & C)].
  - unfold F in H. destruct (find f evs) as [h|] eqn:Fe; auto.
    rewrite cv_get_max in H. apply omax_some_inv in H. destruct H; auto.
    right. exists evs, h. simpl; auto.
  - right. exists evs', h. simpl; auto.
Qed.

Lemma fold_ge_acc l : forall acc q j,
  cv_get acc q = Some j -> exists j', cv_get (fold_left F l acc) q = Some j' /\ j <= j'.
Proof.
  induction l as [|evs l IH]; intros acc q j H; simpl.
  - eauto.
  - assert (exists j1, cv_get (F acc evs) q = Some j1 /\ j <= j1) as (j1 & A & B).
    { unfold F. destruct (find f evs) as [h|]; eauto. rewrite cv_get_max. apply omax_ge_l; auto. }
    destruct (IH _ _ _ A) as (j' & C & D). exists j'; split; auto; lia.
Qed.

Lemma fold_complete l : forall acc evs h q j,
  In evs l -> find f evs = Some h -> cv_get (g h) q = Some j ->
  exists j', cv_get (fold_left F l acc) q = Some j' /\ j <= j'.
Proof.
  induction l as [|e l IH]; intros acc evs h q j HI Hf Hg; [inv HI|]. simpl.
  destruct HI as [->|HI].
  - assert (exists j1, cv_get (F acc evs) q = Some j1 /\ j <= j1) as (j1 & A & B).
    { unfold F. rewrite Hf, cv_get_max. apply omax_ge_r; auto. }
    destruct (fold_ge_acc l _ _ _ A) as (j' & C & D). exists j'; split; auto; lia.
  - eapply IH; eauto.
Qed.
End Fold.

(* ------------------------------------------------------------------------------------------ racing events *)
Lemma ins_desc_in x l y : In y (ins_desc x l) <-> y = x \/ In y l.
Proof.
  induction l as [|z l IH]; simpl.
  - intuition.
  - destruct (z <? x); simpl; [intuition|].
    destruct (z =? x) eqn:E; simpl.
    + apply Nat.eqb_eq in E; subst. intuition.
    + rewrite IH. intuition.
Qed.

Lemma sort_desc_in l y : In y (sort_desc l) <-> In y l.
Proof.
  induction l as [|x l IH]; simpl; [reflexivity|]. rewrite ins_desc_in, IH. intuition.
Qed.

Lemma ins_desc_sorted x l : StronglySorted gt l -> StronglySorted gt (ins_desc x l).
Proof.
  induction 1 as [|z l S IH F]; simpl.
  - constructor; constructor.
  - destruct (z <? x) eqn:E1.
    + apply Nat.ltb_lt in E1. constructor; [constructor; auto|].
      constructor; [lia|]. rewrite Forall_forall in *. intros y Hy. specialize (F y Hy). lia.
    + apply Nat.ltb_ge in E1. destruct (z =? x) eqn:E2.
      * constructor; auto.
      * apply Nat.eqb_neq in E2. constructor; auto.
        rewrite Forall_forall in *. intros y Hy. apply ins_desc_in in Hy. destruct Hy as [->|Hy]; [lia|auto].
Qed.

Lemma sort_desc_sorted l : StronglySorted gt (sort_desc l).
Proof. induction l; simpl; [constructor|apply ins_desc_sorted; auto]. Qed.

Lemma candidates_in c a v : In v (candidates c a) <-> exists p, p <> a /\ cv_get c p = Some v.
Proof.
  unfold candidates. rewrite sort_desc_in, in_flat_map. split.
  - intros (p & Hp & Hv). destruct (p =? a) eqn:E; [inv Hv|]. apply Nat.eqb_neq in E.
    destruct (cv_get c p) eqn:G; [|inv Hv]. destruct Hv as [->|[]]. eauto.
  - intros (p & Hp & G). exists p. split.
    + apply in_seq. split; [lia|]. simpl. destruct (Nat.lt_ge_cases p (length c)); auto.
      unfold cv_get in G. rewrite nth_overflow in G; auto. discriminate.
    + apply Nat.eqb_neq in Hp. rewrite Hp, G. simpl; auto.
Qed.

Section Prev.
Variable aid : nat -> nat.
Lemma prev_on_some a t p : prev_on aid a t = Some p ->
  p < t /\ aid p = a /\ forall k, p < k -> k < t -> aid k <> a.
Proof.
  induction t as [|t IH]; simpl; [discriminate|].
  destruct (aid t =? a) eqn:E.
  - intros H; inv H. apply Nat.eqb_eq in E. repeat split; auto; intros; lia.
  - intros H. destruct (IH H) as (A & B & C). repeat split; auto.
    intros k K1 K2. destruct (Nat.eq_dec k t) as [->|]; [apply Nat.eqb_neq; auto|apply C; lia].
Qed.

Lemma prev_on_none a t : prev_on aid a t = None -> forall k, k < t -> aid k <> a.
Proof.
  induction t as [|t IH]; simpl; [intros; lia|].
  destruct (aid t =? a) eqn:E; [discriminate|].
  intros H k K. destruct (Nat.eq_dec k t) as [->|]; [apply Nat.eqb_neq; auto|apply IH; auto; lia].
Qed.

End Prev.

(** the filtering loop, for any transitive relation included in < and any downward-closed rejection test *)
Section Loop.
Variable hbb : nat -> nat -> bool.
Variable bad : nat -> bool.
Hypothesis hbb_lt : forall a b, hbb a b = true -> a < b.

Let stepf := fun (acc : list nat) (e : nat) =>
  if bad e then acc else if existsb (fun ej => hbb e ej) acc then acc else acc ++ [e].

Lemma loop_inv todo : forall don acc,
  StronglySorted gt (don ++ todo) ->
  (forall a, In a acc -> In a don /\ bad a = false /\ forall a', In a' acc -> hbb a a' = false) ->
  (forall c, In c don -> In c acc \/ bad c = true \/ exists a, In a acc /\ hbb c a = true) ->
  let res := fold_left stepf todo acc in
  (forall a, In a res -> In a (don ++ todo) /\ bad a = false /\ forall a', In a' res -> hbb a a' = false) /\
  (forall c, In c (don ++ todo) -> In c res \/ bad c = true \/ exists a, In a res /\ hbb c a = true).
Proof.
  induction todo as [|e todo IH]; intros don acc S I1 I2; simpl.
  - rewrite app_nil_r. split; auto.
  - assert (Hgt : forall d, In d don -> d > e).
    { intros d Hd. clear -S Hd. induction don as [|x don IHd]; [inv Hd|].
      simpl in S. inv S. destruct Hd as [->|Hd]; auto.
      rewrite Forall_forall in H2. apply H2. apply in_or_app. right; simpl; auto. }
    replace (don ++ e :: todo) with ((don ++ [e]) ++ todo) in * by (rewrite <- app_assoc; reflexivity).
    apply IH; auto.
    + unfold stepf. destruct (bad e) eqn:Be; [|destruct (existsb (fun ej => hbb e ej) acc) eqn:Ee].
      * intros a Ha. destruct (I1 a Ha) as (A & B & C). repeat split; auto. apply in_or_app; auto.
      * intros a Ha. destruct (I1 a Ha) as (A & B & C). repeat split; auto. apply in_or_app; auto.
      * intros a Ha. apply in_app_or in Ha. destruct Ha as [Ha|[<-|[]]].
        -- destruct (I1 a Ha) as (A & B & C). repeat split; auto; [apply in_or_app; auto|].
           intros a' Ha'. apply in_app_or in Ha'. destruct Ha' as [Ha'|[<-|[]]]; auto.
           destruct (hbb a e) eqn:Hae; auto. apply hbb_lt in Hae. specialize (Hgt a A). lia.
        -- repeat split; auto; [apply in_or_app; simpl; auto|].
           intros a' Ha'. apply in_app_or in Ha'. destruct Ha' as [Ha'|[<-|[]]].
           ++ destruct (hbb e a') eqn:Hea; auto.
              assert (existsb (fun ej => hbb e ej) acc = true) by (apply existsb_exists; eauto). congruence.
           ++ destruct (hbb e e) eqn:Hee; auto. apply hbb_lt in Hee. lia.
    + intros c Hc. apply in_app_or in Hc. unfold stepf.
      destruct Hc as [Hc|[<-|[]]].
      * destruct (I2 c Hc) as [A|[A|(a & A1 & A2)]].
        -- left. destruct (bad e); [|destruct (existsb _ acc)]; auto. apply in_or_app; auto.
        -- auto.
        -- right; right. exists a. split; auto.
           destruct (bad e); [|destruct (existsb _ acc)]; auto. apply in_or_app; auto.
      * destruct (bad e) eqn:Be; auto.
        destruct (existsb (fun ej => hbb e ej) acc) eqn:Ee.
        -- apply existsb_exists in Ee. destruct Ee as (a & A1 & A2). right; right; eauto.
        -- left. apply in_or_app; simpl; auto.
Qed.

Hypothesis hbb_trans : forall a b c, hbb a b = true -> hbb b c = true -> hbb a c = true.
Hypothesis bad_down : forall a b, hbb a b = true -> bad b = true -> bad a = true.

Lemma racing_loop_spec cs e : StronglySorted gt cs ->
  (In e (racing_loop hbb bad cs) <->
   In e cs /\ bad e = false /\ forall c, In c cs -> hbb e c = false).
Proof.
  intros S. unfold racing_loop.
  destruct (loop_inv cs [] [] S) as (I1 & I2); simpl; try (intros ? []).
  fold stepf. set (res := fold_left stepf cs []) in *. split.
  - intros He. destruct (I1 e He) as (A & B & C). repeat split; auto.
    intros c Hc. destruct (hbb e c) eqn:Hec; auto.
    destruct (I2 c Hc) as [D|[D|(a & D1 & D2)]].
    + rewrite C in Hec; auto.
    + rewrite (bad_down _ _ Hec D) in B. discriminate.
    + pose proof (hbb_trans _ _ _ Hec D2) as X. rewrite (C a D1) in X. discriminate.
  - intros (A & B & C). destruct (I2 e A) as [D|[D|(a & D1 & D2)]]; auto; [congruence|].
    destruct (I1 a D1) as (E & _). rewrite C in D2; auto. discriminate.
Qed.

Lemma loop_nodup todo : forall acc, NoDup (acc ++ todo) -> NoDup (fold_left stepf todo acc).
Proof.
  induction todo as [|e todo IH]; intros acc H; simpl.
  - rewrite app_nil_r in H; auto.
  - apply IH. unfold stepf. destruct (bad e); [|destruct (existsb _ acc)].
    + apply NoDup_remove_1 in H; auto.
    + apply NoDup_remove_1 in H; auto.
    + rewrite <- app_assoc; auto.
Qed.
End Loop.

Lemma sorted_gt_nodup l : StronglySorted gt l -> NoDup l.
Proof.
  induction 1 as [|x l S IH F]; constructor; auto.
  intros Hx. rewrite Forall_forall in F. specialize (F x Hx). lia.
Qed.

(* ------------------------------------------------------------------------------------------ executions *)
Section Exec.
Variable aid : nat -> nat.
Variable dep : nat -> nat -> bool.
(* an upper bound on the executions considered; same actor => dependent is only needed below it *)
Variable N : nat.
Hypothesis same_actor_dep : forall a b, a < b -> b < N -> aid a = aid b -> dep a b = true.

(** "e1 occurs before e2 and they are dependent", and its transitive closure = the specification of --> *)
Definition R (a b : nat) : Prop := a < b /\ dep a b = true.
Definition HB : nat -> nat -> Prop := clos_trans nat R.

Lemma HB_lt a b : HB a b -> a < b.
Proof. induction 1 as [a b [H _]|a b c _ H1 _ H2]; lia. Qed.

Lemma HB_last a b : HB a b -> exists k, (a = k \/ HB a k) /\ R k b.
Proof.
  intros H. apply clos_trans_tn1 in H. induction H as [b H|b c H1 H2 IH].
  - exists a; auto.
  - exists b. split; auto. right. apply clos_tn1_trans; auto.
Qed.

Lemma HB_trans a b c : HB a b -> HB b c -> HB a c.
Proof. intros; eapply t_trans; eauto. Qed.

Lemma HB_same_actor a b : a < b -> b < N -> aid a = aid b -> HB a b.
Proof. intros. apply t_step. split; auto. Qed.

Notation EX := (exec_of aid dep).

Lemma exec_length n : length (contents (EX n)) = n.
Proof. induction n; simpl; auto. rewrite app_length, IHn. simpl; lia. Qed.

Lemma exec_skip n p : skip_get (skip (EX n)) p = rev (filter (fun i => aid i =? p) (seq 0 n)).
Proof.
  revert p; induction n as [|n IH]; intros p.
  - destruct p as [|[|p]]; reflexivity.
  - cbn [exec_of push skip]. rewrite exec_length, skip_get_add, !IH.
    rewrite seq_S, filter_app, rev_app_distr. simpl.
    rewrite (Nat.eqb_sym p). destruct (aid n =? p) eqn:E; simpl; auto.
    apply Nat.eqb_eq in E; subst; reflexivity.
Qed.

Lemma ev_cv_old n i : i < n -> ev_cv (EX (S n)) i = ev_cv (EX n) i.
Proof. intros H. unfold ev_cv; simpl. rewrite app_nth1; auto. rewrite exec_length; auto. Qed.

Lemma ev_cv_stable n m i : i < n -> n <= m -> ev_cv (EX m) i = ev_cv (EX n) i.
Proof. intros H1 H2. induction H2; auto. rewrite ev_cv_old; auto; lia. Qed.

Definition newcv n : cv :=
  cv_set (fold_left (fun (acc : cv) (events : list nat) =>
                       match find (fun h => dep h n) events with
                       | Some h => cv_max acc (ev_cv (EX n) h)
                       | None => acc
                       end) (skip (EX n)) []) (aid n) n.

Lemma ev_cv_new n : ev_cv (EX (S n)) n = newcv n.
Proof.
  unfold ev_cv; simpl. rewrite app_nth2; rewrite exec_length; auto.
  rewrite Nat.sub_diag. reflexivity.
Qed.

Lemma in_skip_get n evs : In evs (skip (EX n)) -> exists p, evs = skip_get (skip (EX n)) p.
Proof. intros H. destruct (In_nth _ _ [] H) as (p & _ & E). exists p; auto. Qed.

Lemma skip_get_in n p h : find (fun h => dep h n) (skip_get (skip (EX n)) p) = Some h ->
  In (skip_get (skip (EX n)) p) (skip (EX n)).
Proof.
  intros H. unfold skip_get in *. destruct (Nat.lt_ge_cases p (length (skip (EX n)))) as [L|L].
  - apply nth_In; auto.
  - rewrite nth_overflow in H; auto. discriminate.
Qed.

(** the meaning of a clock vector: component q of event i is the latest event of actor q that is i or --> i *)
Theorem cv_sound n : n <= N -> forall i q j, i < n -> cv_get (ev_cv (EX n) i) q = Some j ->
  aid j = q /\ j <= i /\ (j = i \/ HB j i).
Proof.
  induction n as [|n IH]; intros Hn i q j Hi H; [lia|].
  destruct (Nat.eq_dec i n) as [->|Ne].
  2:{ rewrite ev_cv_old in H by lia. apply IH; auto; lia. }
  rewrite ev_cv_new in H. unfold newcv in H. rewrite cv_get_set in H.
  destruct (q =? aid n) eqn:Eq.
  - apply Nat.eqb_eq in Eq. inv H. auto.
  - apply fold_sound in H. destruct H as [H|(evs & h & A & B & C)].
    + rewrite cv_get_nil in H. discriminate.
    + destruct (in_skip_get _ _ A) as (p & ->). rewrite exec_skip in B.
      apply find_recent in B. destruct B as (B1 & B2 & B3 & _).
      destruct (IH ltac:(lia) h q j B3 C) as (D1 & D2 & D3).
      split; auto. split; [lia|]. right.
      assert (HB h n) by (apply t_step; split; auto).
      destruct D3 as [->|D3]; auto. eapply HB_trans; eauto.
Qed.

Theorem cv_complete n : n <= N -> forall i j, i < n -> (j = i \/ HB j i) ->
  exists j', cv_get (ev_cv (EX n) i) (aid j) = Some j' /\ j <= j'.
Proof.
  induction n as [|n IH]; intros Hn i j Hi H; [lia|].
  destruct (Nat.eq_dec i n) as [->|Ne].
  2:{ rewrite ev_cv_old by lia. apply IH; auto; lia. }
  rewrite ev_cv_new. unfold newcv. rewrite cv_get_set.
  destruct H as [->|H].
  - rewrite Nat.eqb_refl. eauto.
  - destruct (aid j =? aid n) eqn:Eq.
    + exists n. split; auto. apply HB_lt in H. lia.
    + destruct (HB_last _ _ H) as (k & K1 & K2 & K3).
      (* the most recent event of k's actor that is dependent with n *)
      destruct (find (fun h => dep h n) (skip_get (skip (EX n)) (aid k))) as [h|] eqn:Fh.
      2:{ rewrite exec_skip in Fh. eapply find_recent_none in Fh; eauto.
          - congruence.
          - apply Nat.eqb_refl. }
      pose proof (skip_get_in _ _ _ Fh) as Hin.
      pose proof Fh as Fh'. rewrite exec_skip in Fh'. apply find_recent in Fh'.
      destruct Fh' as (B1 & B2 & B3 & B4). apply Nat.eqb_eq in B2.
      assert (k <= h) as Kh.
      { destruct (Nat.le_gt_cases k h); auto. rewrite (B4 k) in K3; auto; try discriminate.
        apply Nat.eqb_refl. }
      assert (j = h \/ HB j h) as Jh.
      { destruct (Nat.eq_dec k h) as [->|Nkh]; auto. right.
        assert (HB k h) by (apply HB_same_actor; auto; lia).
        destruct K1 as [->|K1]; auto. eapply HB_trans; eauto. }
      destruct (IH ltac:(lia) h j B3 Jh) as (j1 & C1 & C2).
      destruct (fold_complete (fun h => dep h n) (ev_cv (EX n)) (skip (EX n)) [] _ _ _ _ Hin Fh C1) as (j2 & D1 & D2).
      exists j2. split; auto. lia.
Qed.

(** C42, first half *)
Theorem hb_iff n e1 e2 : n <= N -> e2 < n ->
  (hb aid (EX n) e1 e2 = true <-> e1 < e2 /\ HB e1 e2).
Proof.
  intros Hn H2. unfold hb. destruct (e2 <=? e1) eqn:L.
  - apply Nat.leb_le in L. split; [discriminate|]. intros [A _]; lia.
  - apply Nat.leb_gt in L. split.
    + destruct (cv_get (ev_cv (EX n) e2) (aid e1)) as [v|] eqn:G; [|discriminate].
      intros Hv. apply Nat.leb_le in Hv. split; auto.
      destruct (cv_sound n Hn _ _ _ H2 G) as (A & B & C).
      destruct (Nat.eq_dec e1 v) as [->|Nv].
      * destruct C as [->|C]; auto. lia.
      * assert (HB e1 v) by (apply HB_same_actor; auto; lia).
        destruct C as [->|C]; auto. eapply HB_trans; eauto.
    + intros [_ H]. destruct (cv_complete n Hn e2 e1 H2 (or_intror H)) as (j' & A & B).
      rewrite A. apply Nat.leb_le; auto.
Qed.

Corollary hb_irreflexive n e : hb aid (EX n) e e = false.
Proof. unfold hb. rewrite Nat.leb_refl. reflexivity. Qed.

(** C42, second half: the racing events of [t] are exactly the events of other actors that happen before [t] with
    no event in between (the races e <. t of the ODPOR papers) *)
Theorem racing_exact n t e : n <= N -> t < n ->
  (In e (racing aid (EX n) t) <->
   aid e <> aid t /\ HB e t /\ forall m, ~ (HB e m /\ HB m t)).
Proof.
  intros Hn Ht. unfold racing.
  assert (HBb : forall a b, b < n -> (hb aid (EX n) a b = true <-> HB a b)).
  { intros a b Hb. rewrite hb_iff by auto. split; [tauto|]. intros H; split; auto. apply HB_lt; auto. }
  assert (HBlt : forall a b, hb aid (EX n) a b = true -> a < b).
  { intros a b H. unfold hb in H. destruct (b <=? a) eqn:L; [discriminate|]. apply Nat.leb_gt in L; auto. }
  set (cs := candidates (ev_cv (EX n) t) (aid t)).
  assert (Hcs : forall c, In c cs -> aid c <> aid t /\ c < t /\ HB c t).
  { intros c Hc. apply candidates_in in Hc. destruct Hc as (p & P1 & P2).
    destruct (cv_sound n Hn _ _ _ Ht P2) as (A & B & C). subst p.
    destruct C as [->|C]; [congruence|]. repeat split; auto. apply HB_lt; auto. }
  set (bad := fun e0 => match prev_on aid (aid t) t with Some p => hb aid (EX n) e0 p | None => false end).
  assert (Hbad : forall x, bad x = true <-> exists p, prev_on aid (aid t) t = Some p /\ HB x p).
  { intros x. unfold bad. destruct (prev_on aid (aid t) t) as [p|] eqn:P.
    - destruct (prev_on_some _ _ _ _ P) as (A & _). rewrite HBb by lia. split; eauto.
      intros (p' & E & H); inv E; auto.
    - split; [discriminate|]. intros (p' & E & _); discriminate. }
  rewrite racing_loop_spec; auto.
  2:{ intros a b c H1 H2.
      assert (Hc : c < n).
      { unfold hb in H2. destruct (c <=? b) eqn:L; [discriminate|].
        destruct (Nat.lt_ge_cases c n) as [|G]; auto.
        unfold ev_cv in H2. rewrite nth_overflow in H2 by (rewrite exec_length; auto).
        rewrite cv_get_nil in H2. discriminate. }
      pose proof (HBlt _ _ H2). apply HBb; auto. apply HBb in H1; [|lia]. apply HBb in H2; auto.
      eapply HB_trans; eauto. }
  2:{ intros a b H1 H2. apply Hbad in H2. destruct H2 as (p & P & H2). apply Hbad. exists p. split; auto.
      destruct (prev_on_some _ _ _ _ P) as (A & _). pose proof (HB_lt _ _ H2).
      apply HBb in H1; [|lia]. eapply HB_trans; eauto. }
  2:{ apply sort_desc_sorted. }
  split.
  - intros (A & B & C). destruct (Hcs e A) as (D1 & D2 & D3). repeat split; auto.
    intros m [M1 M2]. pose proof (HB_lt _ _ M1) as L1. pose proof (HB_lt _ _ M2) as L2.
    destruct (Nat.eq_dec (aid m) (aid t)) as [Em|Em].
    + (* the event in between belongs to t's actor: it is, or precedes, the previous event of that actor *)
      destruct (prev_on aid (aid t) t) as [p|] eqn:P.
      * destruct (prev_on_some _ _ _ _ P) as (P1 & P2 & P3).
        assert (m <= p) by (destruct (Nat.le_gt_cases m p); auto; exfalso; apply (P3 m); auto).
        assert (HB e p).
        { destruct (Nat.eq_dec m p) as [->|]; auto. eapply HB_trans; eauto.
          apply HB_same_actor; try lia; try congruence. }
        assert (bad e = true) by (apply Hbad; eauto). congruence.
      * eapply prev_on_none in P; eauto.
    + (* it belongs to another actor: the candidate of that actor is in between too *)
      destruct (cv_complete n Hn t m Ht (or_intror M2)) as (c & C1 & C2).
      destruct (cv_sound n Hn _ _ _ Ht C1) as (E1 & E2 & E3).
      assert (In c cs) as Hc by (apply candidates_in; exists (aid m); auto).
      assert (HB e c).
      { destruct (Nat.eq_dec m c) as [->|]; auto. eapply HB_trans; eauto.
        apply HB_same_actor; lia. }
      assert (c < n) by (destruct (Hcs c Hc) as (_ & ? & _); lia).
      specialize (C c Hc). apply HBb in H; auto. congruence.
  - intros (A & B & C).
    pose proof (HB_lt _ _ B) as Let.
    destruct (cv_complete n Hn t e Ht (or_intror B)) as (c & C1 & C2).
    destruct (cv_sound n Hn _ _ _ Ht C1) as (E1 & E2 & E3).
    assert (c = e) as ->.
    { destruct (Nat.eq_dec c e); auto. exfalso. destruct E3 as [->|E3]; [congruence|].
      apply (C c). split; auto. apply HB_lt in E3. apply HB_same_actor; lia. }
    assert (In e cs) as He by (apply candidates_in; exists (aid e); auto).
    repeat split; auto.
    + destruct (bad e) eqn:Be; auto. apply Hbad in Be. destruct Be as (p & P & H).
      destruct (prev_on_some _ _ _ _ P) as (P1 & P2 & _). exfalso. apply (C p). split; auto.
      apply HB_same_actor; auto; lia.
    + intros c Hc. destruct (hb aid (EX n) e c) eqn:H; auto. exfalso.
      destruct (Hcs c Hc) as (D1 & D2 & D3). apply HBb in H; [|lia]. apply (C c); auto.
Qed.

(** the same set, in the words of the property text: the maximal predecessors (w.r.t. -->) among the events of other
    actors, not already ordered before the previous event of the actor of [t] *)
Theorem racing_maximal n t e : n <= N -> t < n ->
  (In e (racing aid (EX n) t) <->
   aid e <> aid t /\ HB e t /\
   (forall p, prev_on aid (aid t) t = Some p -> ~ HB e p) /\
   (forall e', aid e' <> aid t -> HB e' t -> ~ HB e e')).
Proof.
  intros Hn Ht. rewrite racing_exact; auto. split.
  - intros (A & B & C). repeat split; auto.
    + intros p P H. destruct (prev_on_some _ _ _ _ P) as (P1 & P2 & _). apply (C p). split; auto.
      apply HB_same_actor; auto; lia.
    + intros e' _ H1 H2. apply (C e'); auto.
  - intros (A & B & C & D). repeat split; auto. intros m [M1 M2].
    destruct (Nat.eq_dec (aid m) (aid t)) as [Em|Em]; [|apply (D m); auto].
    pose proof (HB_lt _ _ M2) as L2.
    destruct (prev_on aid (aid t) t) as [p|] eqn:P.
    + destruct (prev_on_some _ _ _ _ P) as (P1 & P2 & P3).
      assert (m <= p) by (destruct (Nat.le_gt_cases m p); auto; exfalso; apply (P3 m); auto).
      apply (C p); auto. destruct (Nat.eq_dec m p) as [->|]; auto. eapply HB_trans; eauto.
      apply HB_same_actor; try lia; try congruence.
    + eapply prev_on_none in P; eauto.
Qed.

Theorem racing_nodup n t : NoDup (racing aid (EX n) t).
Proof.
  unfold racing, racing_loop. apply loop_nodup. simpl. apply sorted_gt_nodup, sort_desc_sorted.
Qed.
End Exec.

(** closed forms used by Props/Properties_C42.v (the bound N is the length of the execution itself) *)
Definition dep_before (dep : nat -> nat -> bool) (a b : nat) : Prop := a < b /\ dep a b = true.
Definition same_actor_dependent (aid : nat -> nat) (dep : nat -> nat -> bool) (n : nat) : Prop :=
  forall a b, a < b -> b < n -> aid a = aid b -> dep a b = true.

Lemma C42_hb aid dep n : same_actor_dependent aid dep n ->
  forall e1 e2, e2 < n ->
  (hb aid (exec_of aid dep n) e1 e2 = true <-> e1 < e2 /\ clos_trans nat (dep_before dep) e1 e2).
Proof. intros H e1 e2 H2. exact (hb_iff aid dep n H n e1 e2 (le_n n) H2). Qed.

Lemma C42_racing aid dep n : same_actor_dependent aid dep n ->
  forall t e, t < n ->
  (In e (racing aid (exec_of aid dep n) t) <->
   aid e <> aid t /\ clos_trans nat (dep_before dep) e t /\
   forall m, ~ (clos_trans nat (dep_before dep) e m /\ clos_trans nat (dep_before dep) m t)).
Proof. intros H t e Ht. exact (racing_exact aid dep n H n t e (le_n n) Ht). Qed.

Lemma C42_racing_max aid dep n : same_actor_dependent aid dep n ->
  forall t e, t < n ->
  (In e (racing aid (exec_of aid dep n) t) <->
   aid e <> aid t /\ clos_trans nat (dep_before dep) e t /\
   (forall p, prev_on aid (aid t) t = Some p -> ~ clos_trans nat (dep_before dep) e p) /\
   (forall e', aid e' <> aid t -> clos_trans nat (dep_before dep) e' t -> ~ clos_trans nat (dep_before dep) e e')).
Proof. intros H t e Ht. exact (racing_maximal aid dep n H n t e (le_n n) Ht). Qed.

Lemma C42_prev_on aid t p : prev_on aid (aid t) t = Some p <->
  p < t /\ aid p = aid t /\ forall k, p < k -> k < t -> aid k <> aid t.
Proof.
  split; [apply prev_on_some|]. intros (A & B & C).
  destruct (prev_on aid (aid t) t) as [q|] eqn:Q.
  - destruct (prev_on_some _ _ _ _ Q) as (A' & B' & C').
    destruct (Nat.lt_trichotomy p q) as [L|[->|L]]; auto; exfalso; [apply (C q)|apply (C' p)]; auto.
  - exfalso. eapply prev_on_none; eauto.
Qed.
