(** C44 — model of the UDPOR event-structure algebra (src/mc/explo/udpor/{History,EventSet,UnfoldingEvent}.cpp).
    Model only, no proofs (SGV.Mc.UnfoldProofs).

    Events are numbered in creation order (an UnfoldingEvent is built from already existing events), [causes e] is
    get_immediate_causes() and [dep a b] is a->is_dependent_with(b) (= Transition::dispatch_depends of the attached
    transitions), both abstract.  EventSet is an unordered_set of pointers: the model uses duplicate-free lists and never
    relies on their order; the one place where the C++ depends on the iteration order of the unordered_set
    (History::Iterator pops *frontier.begin()) is modelled by an ARBITRARY pick function, which may depend on the step
    number and on the whole frontier. *)
From SGV Require Import Base.Tactics.
Local Open Scope nat_scope.

Definition eset := list nat.
Definition mem (e : nat) (s : eset) : bool := existsb (Nat.eqb e) s.
Definition set_add (e : nat) (s : eset) : eset := if mem e s then s else e :: s.          (* insert *)
Definition set_remove (e : nat) (s : eset) : eset := filter (fun x => negb (x =? e)) s.   (* remove *)
Definition set_subtract (s o : eset) : eset := filter (fun x => negb (mem x o)) s.        (* subtracting *)
Definition set_union (s o : eset) : eset := fold_right set_add s o.                       (* make_union *)
Definition set_inter (s o : eset) : eset := filter (fun x => mem x s) o.                  (* make_intersection *)
Definition subset_b (s o : eset) : bool := forallb (fun x => mem x o) s.                  (* is_subset_of *)
Definition set_eqb (s o : eset) : bool := subset_b s o && subset_b o s.                   (* operator== *)

Section Unfold.
Variable causes : nat -> eset.
Variable dep : nat -> nat -> bool.
(* the iteration order of the unordered_set: which element of the (non-empty) frontier is *frontier.begin() *)
Variable pick : nat -> eset -> nat.

(** History::Iterator : frontier, current_history, maximal_events *)
Record hiter := { frontier : eset; current_history : eset; maximal_events : eset }.

Definition hinit (initial : eset) : hiter :=
  {| frontier := initial; current_history := []; maximal_events := initial |}.

(* History::Iterator::increment (without configuration) *)
Definition hstep (k : nat) (it : hiter) : hiter :=
  let e := pick k (frontier it) in
  let fr := set_remove e (frontier it) in
  let hist := set_add e (current_history it) in
  let candidates := causes e in
  let mx := set_subtract (maximal_events it) candidates in
  let candidates' := set_subtract candidates hist in
  {| frontier := set_union fr candidates'; current_history := hist; maximal_events := mx |}.

(* for (; first != last; ++first);   -- [visited] collects the dereferenced events, in order *)
Fixpoint hrun (fuel : nat) (k : nat) (it : hiter) (visited : list nat) : option (hiter * list nat) :=
  match frontier it with
  | [] => Some (it, visited)
  | _ => match fuel with
         | O => None
         | S f => hrun f (S k) (hstep k it) (visited ++ [pick k (frontier it)])
         end
  end.

(* every event reached is <= the largest initial event: list_max+1 steps always suffice (one spare unit of fuel) *)
Definition hfuel (initial : eset) : nat := S (S (list_max initial)).

Definition history_run (initial : eset) : option (hiter * list nat) := hrun (hfuel initial) 0 (hinit initial) [].

(** History::get_all_events / get_all_maximal_events / the sequence an iteration over the History yields *)
Definition get_all_events (s : eset) : eset :=
  match history_run s with Some (it, _) => current_history it | None => [] end.
Definition get_all_maximal_events (s : eset) : eset :=
  match history_run s with Some (it, _) => maximal_events it | None => [] end.
Definition history_sequence (s : eset) : list nat :=
  match history_run s with Some (_, v) => v | None => [] end.

(** UnfoldingEvent *)
Definition local_config (e : nat) : eset := get_all_events [e].
Definition history_of (e : nat) : eset := set_remove e (local_config e).
(* History(other).contains(this) : any_of over the iteration *)
Definition in_history_of (e other : nat) : bool := existsb (Nat.eqb e) (history_sequence [other]).
Definition related_to (e other : nat) : bool := in_history_of e other || in_history_of other e.
Definition conflicts_with (e other : nat) : bool :=
  if related_to e other then false
  else
    let mine := local_config e in
    let theirs := local_config other in
    existsb (fun x => dep x other) (set_subtract mine theirs) ||
    existsb (fun y => dep y e) (set_subtract theirs mine).

(** EventSet *)
(* contains(const History&): all_of over the iteration *)
Definition contains_history (s : eset) (initial : eset) : bool := forallb (fun e => mem e s) (history_sequence initial).
(* variable_for_loop over {s, s}: all ordered pairs *)
Definition is_conflict_free (s : eset) : bool :=
  forallb (fun e1 => forallb (fun e2 => negb (conflicts_with e1 e2)) s) s.
Definition is_valid_configuration (s : eset) : bool := contains_history s s && is_conflict_free s.
Definition get_largest_maximal_subset (s : eset) : eset := get_all_maximal_events s.
Definition is_maximal (s : eset) : bool := set_eqb s (get_largest_maximal_subset s).
End Unfold.

(** xbt/utils/iter/variable_for_loop.hpp: an odometer over k collections (positions instead of iterators).
    state = None after completion (current_subset.clear()) *)
Fixpoint vfl_incr (sizes : list nat) (cur : list nat) : option (list nat) :=
  (* increments from the LAST position; returns None when every position wrapped *)
  match sizes, cur with
  | n :: sizes', c :: cur' =>
      match vfl_incr sizes' cur' with
      | Some cur'' => Some (c :: cur'')                      (* a later position moved without wrapping: stop *)
      | None => if S c <? n then Some (S c :: map (fun _ => 0) cur')   (* later ones wrapped to begin; this one moves *)
                else None                                    (* wraps too *)
      end
  | _, _ => None
  end.
Definition vfl_init (sizes : list nat) : option (list nat) :=
  match sizes with
  | [] => None
  | _ => if forallb (fun n => 0 <? n) sizes then Some (map (fun _ => 0) sizes) else None
  end.
Fixpoint vfl_run (fuel : nat) (sizes : list nat) (st : option (list nat)) : list (list nat) :=
  match st, fuel with
  | Some cur, S f => cur :: vfl_run f sizes (vfl_incr sizes cur)
  | _, _ => []
  end.
Definition vfl_all (sizes : list nat) : list (list nat) := vfl_run (S (fold_right Nat.mul 1 sizes)) sizes (vfl_init sizes).

(** reference enumerations (structural recursion) used by the verified oracles *)
(* all tuples of positions, lexicographic *)
Fixpoint tuples (sizes : list nat) : list (list nat) :=
  match sizes with
  | [] => [[]]
  | n :: r => flat_map (fun c => map (cons c) (tuples r)) (seq 0 n)
  end.
(* all k-element sub-lists (as increasing position lists) of positions lo..lo+n-1 *)
Fixpoint ksubsets (k : nat) (l : list nat) : list (list nat) :=
  match k, l with
  | O, _ => [[]]
  | S _, [] => []
  | S k', x :: r => map (cons x) (ksubsets k' r) ++ ksubsets k r
  end.
Fixpoint allsubsets (l : list nat) : list (list nat) :=
  match l with
  | [] => [[]]
  | x :: r => map (cons x) (allsubsets r) ++ allsubsets r
  end.

(** verified oracle for "yields every qualifying set exactly once": the yielded sets (each canonicalised as an increasing
    list) must be a permutation of the reference enumeration; decided by sorting both (lexicographic order) *)
Fixpoint lex_leb (a b : list nat) : bool :=
  match a, b with
  | [], _ => true
  | _ :: _, [] => false
  | x :: a', y :: b' => if x <? y then true else if y <? x then false else lex_leb a' b'
  end.
Fixpoint list_eqb (a b : list nat) : bool :=
  match a, b with
  | [], [] => true
  | x :: a', y :: b' => (x =? y) && list_eqb a' b'
  | _, _ => false
  end.
Fixpoint lists_eqb (a b : list (list nat)) : bool :=
  match a, b with
  | [], [] => true
  | x :: a', y :: b' => list_eqb x y && lists_eqb a' b'
  | _, _ => false
  end.
