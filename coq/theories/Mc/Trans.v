(** C39 — transitions as the checker keeps them and Transition::dispatch_depends (src/mc/transition/Transition.cpp).
    Model only.  The Type x Type -> action table is NOT here: it is regenerated into Gen/DepLut.v by gen/deplut.py;
    [depends_with] takes it as a parameter. *)
From SGV Require Import Base.Tactics.
Local Open Scope Z_scope.

(** enum class DependencyAction *)
Inductive action :=
| ALWAYS_INDEP | ALWAYS_DEP | PANIC_UNWRAPPED_ANY | PANIC_NOMC | EVAL_DYNAMIC_UNKNOWN | EVAL_BARRIER_DEPENDS
| EVAL_T1_ACTOR_JOIN | EVAL_T2_ACTOR_JOIN | EVAL_BOTH_ACTOR_JOIN
| EVAL_T1_ACTOR_CREATE | EVAL_T2_ACTOR_CREATE | EVAL_BOTH_ACTOR_CREATE
| EVAL_MUTEX_ID | EVAL_SEM_ID | EVAL_CONDVAR_WAKEUP | EVAL_CONDVAR_WAIT_MUTEX | EVAL_CONDVAR_MUTEX_WAIT
| EVAL_CONDVAR_MUTEX_UNLOCK
| EVAL_COMM_RECV_RECV | EVAL_COMM_RECV_IPROBE | EVAL_COMM_RECV_TEST | EVAL_COMM_RECV_WAIT
| EVAL_COMM_SEND_SEND | EVAL_COMM_SEND_IPROBE | EVAL_COMM_SEND_TEST | EVAL_COMM_SEND_WAIT
| EVAL_COMM_IPROBE_MBOX | EVAL_COMM_WAIT_WAIT | EVAL_COMM_TEST_WAIT.

(** Transition::Type indices used by name below (checked against the source by gen/deplut.py's comment and by K) *)
Definition T_TESTANY := 5%nat.
Definition T_WAITANY := 6%nat.
Definition T_BARRIER_ASYNC_LOCK := 7%nat.
Definition T_BARRIER_WAIT := 8%nat.

(** a non-ANY transition: type, issuer and the fields dispatch_depends reads.
    o1: target (ACTOR_JOIN) | child (ACTOR_CREATE) | barrier | comm id (COMM_ASYNC_x/TEST/WAIT) | mutex | semaphore | condvar
    o2: mailbox (COMM_x) | mutex (CONDVAR_x)
    snd/rcv: sender/receiver of COMM_TEST/COMM_WAIT (-1 = Aid::INVALID)     tmo: timeout_ of COMM_WAIT *)
Record core := { ty : nat; aid : Z; o1 : Z; o2 : Z; snd_ : Z; rcv_ : Z; tmo : bool }.
(** a transition: plain, or TestAny/WaitAny whose current transition is [c] *)
Inductive tr := Plain (c : core) | Any (outer_aid : Z) (c : core).
Definition tr_aid (t : tr) : Z := match t with Plain c => aid c | Any a _ => a end.
Definition unwrap (t : tr) : core := match t with Plain c => c | Any _ c => c end.

(** BarrierTransition::depends *)
Definition barrier_depends (c o : core) : bool :=
  if negb (Nat.eqb (ty o) T_BARRIER_ASYNC_LOCK) && negb (Nat.eqb (ty o) T_BARRIER_WAIT) then false
  else if negb (o1 c =? o1 o) then false
  else if Nat.eqb (ty c) T_BARRIER_ASYNC_LOCK && Nat.eqb (ty o) T_BARRIER_ASYNC_LOCK then false
  else if Nat.eqb (ty c) T_BARRIER_WAIT && Nat.eqb (ty o) T_BARRIER_WAIT then false
  else true.

(** the switch (action) of dispatch_depends, t1 = the one with the smaller type. None = xbt_die *)
Definition eval (a : action) (t1 t2 : core) : option bool :=
  match a with
  | ALWAYS_INDEP => Some false
  | ALWAYS_DEP => Some true
  | PANIC_UNWRAPPED_ANY | PANIC_NOMC => None
  | EVAL_DYNAMIC_UNKNOWN => Some false                      (* Transition::depends of the base class *)
  | EVAL_BARRIER_DEPENDS => Some (barrier_depends t1 t2)
  | EVAL_T1_ACTOR_JOIN => Some (o1 t1 =? aid t2)
  | EVAL_T2_ACTOR_JOIN => Some (o1 t2 =? aid t1)
  | EVAL_BOTH_ACTOR_JOIN => Some ((o1 t1 =? aid t2) || (o1 t2 =? aid t1))
  | EVAL_T1_ACTOR_CREATE => Some (o1 t1 =? aid t2)
  | EVAL_T2_ACTOR_CREATE => Some (o1 t2 =? aid t1)
  | EVAL_BOTH_ACTOR_CREATE => Some true
  | EVAL_CONDVAR_WAKEUP => Some (o1 t1 =? o1 t2)
  | EVAL_CONDVAR_WAIT_MUTEX => Some (o2 t1 =? o2 t2)
  | EVAL_CONDVAR_MUTEX_WAIT => Some (o1 t1 =? o2 t2)
  | EVAL_CONDVAR_MUTEX_UNLOCK => Some (o1 t1 =? o2 t2)
  | EVAL_MUTEX_ID => Some (o1 t1 =? o1 t2)
  | EVAL_SEM_ID => Some (o1 t1 =? o1 t2)
  | EVAL_COMM_RECV_RECV | EVAL_COMM_RECV_IPROBE | EVAL_COMM_SEND_SEND | EVAL_COMM_SEND_IPROBE
  | EVAL_COMM_IPROBE_MBOX => Some (o2 t1 =? o2 t2)
  | EVAL_COMM_TEST_WAIT => Some (tmo t2)
  | EVAL_COMM_WAIT_WAIT => Some (tmo t1 || tmo t2)
  | EVAL_COMM_RECV_TEST | EVAL_COMM_SEND_TEST =>      (* as repaired by 786c1edee0; the pinned rule is eval_test_pinned *)
      if negb (o2 t1 =? o2 t2) then Some false
      else Some (o1 t2 =? o1 t1)
  | EVAL_COMM_RECV_WAIT | EVAL_COMM_SEND_WAIT =>
      if tmo t2 then Some true
      else if negb (o2 t1 =? o2 t2) then Some false
      else if negb (aid t1 =? snd_ t2) && negb (aid t1 =? rcv_ t2) then Some false
      else if negb (aid t1 =? aid t2) && negb (o1 t2 =? o1 t1) then Some false
      else Some true
  end.

(** EVAL_COMM_RECV_TEST / EVAL_COMM_SEND_TEST before 786c1edee0: also filtered on the sender and receiver the test
    reports, which are unknown (-1) when the test ran before the comm was paired *)
Definition eval_test_pinned (t1 t2 : core) : option bool :=
  if negb (o2 t1 =? o2 t2) then Some false
  else if negb (aid t1 =? snd_ t2) && negb (aid t1 =? rcv_ t2) then Some false
  else Some (o1 t2 =? o1 t1).

Definition lut_get (tbl : list (list action)) (i j : nat) : action :=
  nth j (nth i tbl []) PANIC_NOMC.     (* out of the table: undefined behaviour in C++; the model dies *)

(** Transition::dispatch_depends *)
Definition depends_with (tbl : list (list action)) (x y : tr) : option bool :=
  if tr_aid x =? tr_aid y then Some true
  else
    let c1 := unwrap x in
    let c2 := unwrap y in
    if Nat.ltb (ty c2) (ty c1) then eval (lut_get tbl (ty c2) (ty c1)) c2 c1
    else eval (lut_get tbl (ty c1) (ty c2)) c1 c2.

(** actions whose evaluation does not depend on the order of its two arguments when both have the same type:
    the ones that may sit on the diagonal of the table *)
Definition sym_action (a : action) : bool :=
  match a with
  | ALWAYS_INDEP | ALWAYS_DEP | PANIC_UNWRAPPED_ANY | PANIC_NOMC | EVAL_DYNAMIC_UNKNOWN | EVAL_BARRIER_DEPENDS
  | EVAL_BOTH_ACTOR_JOIN | EVAL_BOTH_ACTOR_CREATE | EVAL_MUTEX_ID | EVAL_SEM_ID | EVAL_CONDVAR_WAKEUP
  | EVAL_CONDVAR_WAIT_MUTEX | EVAL_COMM_RECV_RECV | EVAL_COMM_SEND_SEND | EVAL_COMM_IPROBE_MBOX
  | EVAL_COMM_WAIT_WAIT => true
  | _ => false
  end.
Definition action_eqb (a b : action) : bool :=
  match a, b with
  | ALWAYS_INDEP, ALWAYS_INDEP | ALWAYS_DEP, ALWAYS_DEP | PANIC_UNWRAPPED_ANY, PANIC_UNWRAPPED_ANY
  | PANIC_NOMC, PANIC_NOMC | EVAL_DYNAMIC_UNKNOWN, EVAL_DYNAMIC_UNKNOWN | EVAL_BARRIER_DEPENDS, EVAL_BARRIER_DEPENDS
  | EVAL_T1_ACTOR_JOIN, EVAL_T1_ACTOR_JOIN | EVAL_T2_ACTOR_JOIN, EVAL_T2_ACTOR_JOIN
  | EVAL_BOTH_ACTOR_JOIN, EVAL_BOTH_ACTOR_JOIN | EVAL_T1_ACTOR_CREATE, EVAL_T1_ACTOR_CREATE
  | EVAL_T2_ACTOR_CREATE, EVAL_T2_ACTOR_CREATE | EVAL_BOTH_ACTOR_CREATE, EVAL_BOTH_ACTOR_CREATE
  | EVAL_MUTEX_ID, EVAL_MUTEX_ID | EVAL_SEM_ID, EVAL_SEM_ID | EVAL_CONDVAR_WAKEUP, EVAL_CONDVAR_WAKEUP
  | EVAL_CONDVAR_WAIT_MUTEX, EVAL_CONDVAR_WAIT_MUTEX | EVAL_CONDVAR_MUTEX_WAIT, EVAL_CONDVAR_MUTEX_WAIT
  | EVAL_CONDVAR_MUTEX_UNLOCK, EVAL_CONDVAR_MUTEX_UNLOCK | EVAL_COMM_RECV_RECV, EVAL_COMM_RECV_RECV
  | EVAL_COMM_RECV_IPROBE, EVAL_COMM_RECV_IPROBE | EVAL_COMM_RECV_TEST, EVAL_COMM_RECV_TEST
  | EVAL_COMM_RECV_WAIT, EVAL_COMM_RECV_WAIT | EVAL_COMM_SEND_SEND, EVAL_COMM_SEND_SEND
  | EVAL_COMM_SEND_IPROBE, EVAL_COMM_SEND_IPROBE | EVAL_COMM_SEND_TEST, EVAL_COMM_SEND_TEST
  | EVAL_COMM_SEND_WAIT, EVAL_COMM_SEND_WAIT | EVAL_COMM_IPROBE_MBOX, EVAL_COMM_IPROBE_MBOX
  | EVAL_COMM_WAIT_WAIT, EVAL_COMM_WAIT_WAIT | EVAL_COMM_TEST_WAIT, EVAL_COMM_TEST_WAIT => true
  | _, _ => false
  end.
(** the diagonal only holds order-insensitive actions (the builder makes the table itself symmetric) *)
Fixpoint diag_ok_from (tbl : list (list action)) (i : nat) (rows : list (list action)) : bool :=
  match rows with
  | [] => true
  | r :: rest => sym_action (nth i r PANIC_NOMC) && diag_ok_from tbl (S i) rest
  end.
Definition diag_ok (tbl : list (list action)) : bool := diag_ok_from tbl 0 tbl.

(** executable entry point: [t1 ; t2] each as  kind(0 plain,1 any) outer_aid ty aid o1 o2 snd rcv tmo  ->
    [1; b] or [0] (dies) *)
Definition parse_tr (l : list Z) : tr * list Z :=
  match l with
  | k :: oa :: t :: a :: x1 :: x2 :: s :: r :: m :: rest =>
      let c := {| ty := Z.to_nat t; aid := a; o1 := x1; o2 := x2; snd_ := s; rcv_ := r; tmo := negb (m =? 0) |} in
      (if k =? 0 then Plain c else Any oa c, rest)
  | _ => (Plain {| ty := 0; aid := 0; o1 := 0; o2 := 0; snd_ := 0; rcv_ := 0; tmo := false |}, [])
  end.
Definition run_depends_with (tbl : list (list action)) (l : list Z) : list Z :=
  let '(x, rest) := parse_tr l in
  let '(y, _) := parse_tr rest in
  match depends_with tbl x y with Some b => [1; if b then 1 else 0] | None => [0] end.
