(** C43 — executable decoder instantiated with the regenerated checker table (definitions only). *)
From SGV Require Import Base.Tactics Mc.SerCodec Gen.SerSpec.
Local Open Scope Z_scope.

Definition checker_seq : nat -> option (list item) := lookup checker_table.

Definition unparse_simple (tv : nat * list pval) : list Z :=
  Z.of_nat (fst tv) :: Z.of_nat (length (snd tv)) :: concat (map unparse_pval (snd tv)).
Definition unparse_fval (f : fval) : list Z :=
  match f with
  | FP v => unparse_pval v
  | FSub l => 4 :: Z.of_nat (length l) :: concat (map unparse_simple l)
  end.
(** run_c43_dec: bytes -> [1; tag; fields...; -7; number of unread bytes]  or [0] when the checker cannot decode *)
Definition run_c43_dec (l : list Z) : list Z :=
  match dec_tval checker_seq l with
  | Some ((tag, fs), rest) => 1 :: Z.of_nat tag :: concat (map unparse_fval fs) ++ [-7; Z.of_nat (length rest)]
  | None => [0]
  end.
