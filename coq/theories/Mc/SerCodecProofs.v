(** C43 — proofs about the wire codec of SerCodec.v (all for unbounded values / any table). *)
From SGV Require Import Base.Tactics Mc.SerCodec.
Local Open Scope Z_scope.

Lemma width_pos : forall n, 0 < width n.
Proof. intros n. unfold width. apply Z.pow_pos_nonneg; lia. Qed.
Lemma width_S : forall n, width (S n) = 256 * width n.
Proof. intros n. unfold width. rewrite Nat2Z.inj_succ, Z.pow_succ_r by lia. reflexivity. Qed.

(** little-endian bytes: what comes back is the value modulo 2^(8n) *)
Lemma dec_enc_le : forall n z r, dec_le n (enc_le n z ++ r) = Some (z mod width n, r).
Proof.
  induction n as [|n IH]; intros z r; cbn [enc_le dec_le app].
  - unfold width. cbn. rewrite Z.mod_1_r. reflexivity.
  - rewrite IH. rewrite width_S.
    rewrite (Z.rem_mul_r z 256 (width n)) by (pose proof (width_pos n); lia).
    reflexivity.
Qed.

Lemma dec_enc_le_small : forall n z r, 0 <= z < width n -> dec_le n (enc_le n z ++ r) = Some (z, r).
Proof. intros n z r H. rewrite dec_enc_le, Z.mod_small by lia. reflexivity. Qed.

Lemma to_signed_mod : forall n z, - (width n / 2) <= z < width n / 2 -> to_signed n (z mod width n) = z.
Proof.
  intros n z H. unfold to_signed.
  destruct n as [|n].
  - unfold width in *. cbn in *. lia.
  - rewrite width_S in *. pose proof (width_pos n) as Hp. set (w := width n) in *.
    assert (Hh : 256 * w / 2 = 128 * w) by (replace (256 * w) with ((128 * w) * 2) by lia; apply Z.div_mul; lia).
    rewrite Hh in *.
    destruct (Z_lt_ge_dec z 0) as [Hn|Hn].
    + replace (z mod (256 * w)) with (z + 256 * w).
      * destruct (z + 256 * w <? 128 * w) eqn:E; lia.
      * symmetry. rewrite <- (Z_mod_plus_full z 1 (256 * w)). rewrite Z.mod_small; lia.
    + rewrite Z.mod_small by lia. destruct (z <? 128 * w) eqn:E; lia.
Qed.

Lemma cstr_app_nul : forall s r, Forall (fun c => 1 <= c <= 255) s -> cstr (s ++ 0 :: r) = s.
Proof.
  induction s as [|c s IH]; intros r H; cbn [cstr app].
  - reflexivity.
  - inv H. destruct (c =? 0) eqn:E; [lia|]. rewrite IH by assumption. reflexivity.
Qed.

Lemma take_bytes_app : forall s r, take_bytes (length s) (s ++ r) = Some (s, r).
Proof. induction s as [|c s IH]; intros r; cbn [take_bytes length app]; [reflexivity|]. rewrite IH. reflexivity. Qed.

Lemma reinterp_same : forall c v, shape v = c -> wf_pval v -> reinterp c v = v.
Proof.
  intros c v Hs Hw. destruct v as [b|n s z|z|s]; cbn in Hs; subst c; cbn [reinterp]; try reflexivity.
  destruct s; cbn in Hw.
  - rewrite to_signed_mod by assumption. reflexivity.
  - rewrite Z.mod_small by assumption. reflexivity.
Qed.

(** an unsigned value read as signed (or the converse) is unchanged as long as it fits the positive half *)
Lemma reinterp_small : forall n s sg z, 0 <= z < width n / 2 -> reinterp (WInt n sg) (VInt n s z) = VInt n sg z.
Proof.
  intros n s sg z H. cbn [reinterp].
  assert (Hw : width n / 2 <= width n) by (pose proof (width_pos n); apply Z.div_le_upper_bound; lia).
  destruct sg.
  - rewrite to_signed_mod by lia. reflexivity.
  - rewrite Z.mod_small by lia. reflexivity.
Qed.

(** one primitive: the checker reads back what the application packed *)
Lemma dec_wire_enc : forall c v r,
  wire_compat (shape v) c = true -> wf_pval v -> dec_wire c (enc_pval v ++ r) = Some (reinterp c v, r).
Proof.
  intros c v r Hc Hw.
  destruct v as [b|n s z|z|s]; destruct c as [| m sg | | |]; cbn in Hc; try discriminate.
  - destruct b; reflexivity.
  - apply Nat.eqb_eq in Hc. subst m. cbn [enc_pval dec_wire reinterp]. rewrite dec_enc_le. reflexivity.
  - cbn [enc_pval dec_wire reinterp]. cbn in Hw. rewrite dec_enc_le_small by assumption. reflexivity.
  - cbn [enc_pval dec_wire reinterp]. destruct Hw as [Hc1 Hl].
    rewrite <- app_assoc. rewrite dec_enc_le_small by (unfold width; cbn; lia).
    rewrite Nat2Z.id.
    replace ((s ++ [0]) ++ r) with ((s ++ [0]) ++ r) by reflexivity.
    replace (S (length s)) with (length (s ++ [0])) by (rewrite app_length; cbn; lia).
    rewrite take_bytes_app. rewrite cstr_app_nul by assumption. reflexivity.
Qed.

Lemma forallb2_cons_inv : forall A B (f : A -> B -> bool) a l m,
  forallb2 f (a :: l) m = true -> exists b m', m = b :: m' /\ f a b = true /\ forallb2 f l m' = true.
Proof.
  intros A B f a l m H. destruct m as [|b m']; cbn in H; [discriminate|].
  apply andb_true_iff in H. destruct H as [H1 H2]. exists b, m'. auto.
Qed.

Section WithChk.
  Variable chk : nat -> option (list item).

  Lemma dec_prims_enc : forall vs ia ic r,
    prims_typed ia vs -> seq_compat ia ic = true -> Forall wf_pval vs ->
    dec_prims ic (concat (map enc_pval vs) ++ r) = Some (reinterp_prims ic vs, r).
  Proof.
    induction vs as [|v vs IH]; intros ia ic r Ht Hc Hw.
    - inv Ht. destruct ic; cbn in Hc; [|discriminate]. reflexivity.
    - inversion Ht as [|a0 v0 ia' vs' Ha Hrest]; subst. inversion Hw as [|v1 vs1 Hwv Hwr]; subst.
      apply forallb2_cons_inv in Hc. destruct Hc as (b & ic' & -> & Hb & Hc).
      destruct b as [w|]; cbn in Hb; [|discriminate].
      cbn [map concat dec_prims reinterp_prims]. rewrite <- app_assoc.
      rewrite dec_wire_enc by assumption.
      rewrite (IH ia' ic' r) by assumption. reflexivity.
  Qed.

  (** a list element: typed by some application entry whose checker entry is compatible *)
  Definition simple_ok (tv : nat * list pval) : Prop :=
    exists ia ic, chk (fst tv) = Some ic /\ seq_compat ia ic = true /\ prims_typed ia (snd tv) /\ wf_simple tv.

  Lemma dec_tag : forall t r, Z.of_nat t < width 4 -> dec_le 4 (enc_tag t ++ r) = Some (Z.of_nat t, r).
  Proof. intros t r H. unfold enc_tag. apply dec_enc_le_small. lia. Qed.

  Lemma dec_simple_enc : forall tv r, simple_ok tv -> dec_simple chk (enc_simple tv ++ r) = Some (reinterp_simple chk tv, r).
  Proof.
    intros [t vs] r (ia & ic & Hchk & Hc & Ht & Hwt & Hwv). cbn [fst snd] in *.
    unfold dec_simple, enc_simple, reinterp_simple. cbn [fst snd]. rewrite <- app_assoc.
    rewrite dec_tag by assumption. rewrite Nat2Z.id, Hchk.
    rewrite (dec_prims_enc vs ia ic r) by assumption. reflexivity.
  Qed.

  Lemma dec_many_enc : forall l r, Forall simple_ok l ->
    dec_many chk (length l) (concat (map enc_simple l) ++ r) = Some (map (reinterp_simple chk) l, r).
  Proof.
    induction l as [|x l IH]; intros r H; cbn [length map concat dec_many app].
    - reflexivity.
    - inv H. rewrite <- app_assoc. rewrite dec_simple_enc by assumption. rewrite IH by assumption. reflexivity.
  Qed.

  Definition field_ok (ia ic : item) (f : fval) : Prop :=
    match ia, f with
    | IP w, FP v => w = shape v /\ wf_pval v
    | ICounted, FSub l => Forall simple_ok l /\ Z.of_nat (length l) < width 4
    | _, _ => False
    end.

  Lemma dec_items_enc : forall fs ia ic r,
    Forall2 (fun a f => field_ok a a f) ia fs -> seq_compat ia ic = true ->
    dec_items chk ic (concat (map enc_fval fs) ++ r) = Some (reinterp_items chk ic fs, r).
  Proof.
    induction fs as [|f fs IH]; intros ia ic r Ht Hc.
    - inv Ht. destruct ic; cbn in Hc; [|discriminate]. reflexivity.
    - inversion Ht as [|x f0 ia' fs' H1 Hrest]; subst.
      apply forallb2_cons_inv in Hc. destruct Hc as (b & ic' & -> & Hb & Hc).
      cbn [map concat]. rewrite <- app_assoc.
      destruct x as [w|]; destruct f as [v|sub]; cbn in H1; try contradiction.
      + destruct H1 as [-> Hw]. destruct b as [w'|]; cbn in Hb; [|discriminate].
        cbn [dec_items reinterp_items enc_fval]. rewrite dec_wire_enc by assumption.
        rewrite (IH ia' ic' r) by assumption. reflexivity.
      + destruct H1 as [Hs Hl]. destruct b as [w'|]; cbn in Hb; [discriminate|].
        cbn [dec_items reinterp_items enc_fval]. rewrite <- app_assoc.
        rewrite dec_enc_le_small by (split; [lia|assumption]). rewrite Nat2Z.id.
        rewrite dec_many_enc by assumption. rewrite (IH ia' ic' r) by assumption. reflexivity.
  Qed.
End WithChk.

(** ** from the agreement of two tables to the decoding of everything the application can send *)
Lemma memb_false_negb : forall t l, negb (memb t l) = true -> memb t l = false.
Proof. intros t l H. destruct (memb t l); [discriminate|reflexivity]. Qed.

Theorem decode_encode : forall (app : app_table_t) (chk : nat -> option (list item)) (nomc nested : list nat) t r,
  tables_agree app chk nomc = true -> nested_ok app chk nomc nested = true ->
  app_typed app nested t -> wf_tval t -> memb (fst t) nomc = false ->
  dec_tval chk (enc_tval t ++ r) = Some (reinterp_tval chk t, r).
Proof.
  intros app chk nomc nested [tag fs] r Hag Hne (o & ia & Hin & Hty) [Hwt Hwf] Hnm. cbn [fst snd] in *.
  unfold tables_agree in Hag. rewrite forallb_forall in Hag.
  unfold nested_ok in Hne. rewrite forallb_forall in Hne.
  pose proof (Hag _ Hin) as He. cbn in He. rewrite Hnm in He.
  destruct (chk tag) as [ic|] eqn:Hchk; [|discriminate].
  unfold dec_tval, enc_tval, reinterp_tval. cbn [fst snd]. rewrite <- app_assoc.
  rewrite dec_tag by assumption. rewrite Nat2Z.id, Hchk.
  rewrite (dec_items_enc chk fs ia ic r); [reflexivity| |assumption].
  clear Hin He Hchk.
  revert Hwf. induction Hty as [|a f ia' fs' Hf Hrest IH]; intros Hwf; [constructor|].
  inversion Hwf as [|f1 fs1 H1 Hwr]; subst. constructor; [|apply IH; assumption].
  destruct a as [w|]; destruct f as [v|sub]; cbn in Hf; try contradiction; cbn.
  - split; assumption.
  - cbn in H1. destruct H1 as [Hlen Hws]. split; [|assumption].
    rewrite Forall_forall in *. intros tv Htv.
    destruct (Hf tv Htv) as (Hnested & o' & its' & Hin' & Hpt).
    pose proof (Hne _ Hin') as Hn. cbn in Hn. rewrite Hnested in Hn.
    apply andb_true_iff in Hn. destruct Hn as [Hn _]. apply andb_true_iff in Hn. destruct Hn as [_ Hn].
    apply memb_false_negb in Hn.
    pose proof (Hag _ Hin') as He'. cbn in He'. rewrite Hn in He'.
    destruct (chk (fst tv)) as [ic'|] eqn:Hchk'; [|discriminate].
    exists its', ic'. repeat split; try assumption; apply (Hws tv Htv).
Qed.

Lemma wire_compat_refl : forall v, wire_compat (shape v) (shape v) = true.
Proof. destruct v; cbn; try reflexivity. apply Nat.eqb_refl. Qed.

(** primitive round trip, every wire type, unbounded values *)
Theorem prim_roundtrip : forall v r, wf_pval v -> dec_wire (shape v) (enc_pval v ++ r) = Some (v, r).
Proof.
  intros v r H. rewrite dec_wire_enc by (auto using wire_compat_refl).
  rewrite reinterp_same by auto. reflexivity.
Qed.

(** the code as pinned: MessIputSimcall packed COMM_ASYNC_SEND then two pointers; the checker's COMM_ASYNC_SEND
    constructor reads unsigned, unsigned, int, string: it consumes 12 of the 16 bytes, takes the next two as a string
    length and then waits for that many bytes, which never come *)
Definition pinned_send_seq : list item := [IP (WInt 4 false); IP (WInt 4 false); IP (WInt 4 true); IP WStr].
Definition pinned_chk (t : nat) : option (list item) := if Nat.eqb t 10 then Some pinned_send_seq else None.
Definition pinned_mess_value : tval := (10%nat, [FP (VPtr 94390541050544); FP (VPtr 94390541050624)]).
Lemma pinned_messqueue_refuted :
  seq_compat [IP WPtr; IP WPtr] pinned_send_seq = false /\
  wf_tval pinned_mess_value /\ dec_tval pinned_chk (enc_tval pinned_mess_value) = None.
Proof.
  split; [reflexivity|]. split; [|vm_compute; reflexivity].
  split; [vm_compute; reflexivity|]. repeat constructor; vm_compute; congruence.
Qed.
