(** C41 — the recorded path survives printing and parsing, for paths of any length and ids of any size. *)
From Coq Require Import DecimalN DecimalPos Decimal NArith.
From SGV Require Import Base.Tactics Mc.Record.
Local Open Scope Z_scope.

Definition is_digit (c : Z) : Prop := 48 <= c <= 57.
Definition starts_nondigit (l : list Z) : Prop := match l with [] => True | c :: _ => digit_code c = None end.

Lemma print_digits : forall d, Forall is_digit (print_uint d).
Proof. induction d; cbn [print_uint]; constructor; try assumption; unfold is_digit; lia. Qed.

Lemma scan_print : forall d rest, starts_nondigit rest -> scan_digits (print_uint d ++ rest) = (d, rest).
Proof.
  induction d; intros rest H; cbn [print_uint app scan_digits];
    try (rewrite IHd by assumption; reflexivity).
  destruct rest as [|c r]; [reflexivity|]. cbn in H. cbn [scan_digits]. rewrite H. reflexivity.
Qed.

Lemma to_uint_nonnil : forall n, N.to_uint n <> Nil.
Proof. destruct n; cbn; [discriminate|apply Unsigned.to_uint_nonnil]. Qed.

Lemma print_head : forall n, exists c r, print_uint (N.to_uint n) = c :: r /\ is_digit c.
Proof.
  intros n. pose proof (to_uint_nonnil n) as H. pose proof (print_digits (N.to_uint n)) as F.
  destruct (N.to_uint n); try contradiction; cbn [print_uint] in *; inversion F; subst; eauto.
Qed.

Lemma scan_num_print : forall n rest, starts_nondigit rest ->
  scan_num (print_uint (N.to_uint n) ++ rest) = Some (n, rest).
Proof.
  intros n rest H. unfold scan_num.
  destruct (print_head n) as (c & r & E & Hc). unfold is_digit in Hc.
  assert (Hs : skip_ws (print_uint (N.to_uint n) ++ rest) = print_uint (N.to_uint n) ++ rest).
  { rewrite E. cbn [app skip_ws]. unfold is_ws.
    destruct (c =? 32) eqn:E1; [lia|]. destruct ((9 <=? c) && (c <=? 13)) eqn:E2; [lia|]. reflexivity. }
  rewrite Hs.
  assert (Hp : match print_uint (N.to_uint n) ++ rest with 43 :: r0 => r0 | _ => print_uint (N.to_uint n) ++ rest end
               = print_uint (N.to_uint n) ++ rest).
  { rewrite E. cbn [app]. destruct c as [|p|p]; try reflexivity.
    repeat (destruct p as [p|p|]; try reflexivity; try lia). }
  rewrite Hp. rewrite scan_print by assumption.
  pose proof (to_uint_nonnil n) as Hn. rewrite DecimalN.Unsigned.of_to.
  destruct (N.to_uint n); try contradiction; reflexivity.
Qed.

Lemma digit_no_semi : forall l r, Forall is_digit l -> after_semicolon (l ++ r) = after_semicolon r.
Proof.
  induction l as [|c l IH]; intros r H; cbn [app after_semicolon]; [reflexivity|].
  inv H. unfold is_digit in *. destruct (c =? 59) eqn:E; [lia|]. apply IH. assumption.
Qed.

Lemma elem_after : forall e r, after_semicolon (elem_str e ++ r) = after_semicolon r.
Proof.
  intros [a t] r. unfold elem_str. cbn [fst snd]. rewrite <- app_assoc.
  rewrite digit_no_semi by apply print_digits.
  destruct (N.eqb t 0); cbn [app]; [reflexivity|].
  cbn [after_semicolon]. change (47 =? 59) with false. cbn iota. apply digit_no_semi. apply print_digits.
Qed.

(** one chunk, followed by the end of the text or by ';' *)
Lemma scan_chunk_elem : forall e r, (r = [] \/ exists r', r = 59 :: r') -> scan_chunk (elem_str e ++ r) = Some e.
Proof.
  intros [a t] r Hr. unfold elem_str, scan_chunk. cbn [fst snd]. rewrite <- app_assoc.
  assert (Hnd : starts_nondigit r) by (destruct Hr as [->|(r' & ->)]; cbn; auto).
  destruct (N.eqb_spec t 0) as [->|Ht].
  - cbn [app]. rewrite scan_num_print by assumption.
    destruct Hr as [->|(r' & ->)]; reflexivity.
  - rewrite scan_num_print by (cbn; reflexivity).
    cbn [app]. rewrite scan_num_print by assumption. reflexivity.
Qed.

Lemma to_string_cons : forall e p, p <> [] -> to_string (e :: p) = elem_str e ++ 59 :: to_string p.
Proof. intros e p H. destruct p; [contradiction|reflexivity]. Qed.

Lemma elem_nonempty : forall e, elem_str e <> [].
Proof.
  intros [a t]. unfold elem_str. cbn [fst]. destruct (print_head a) as (c & r & E & _). rewrite E. discriminate.
Qed.

Lemma parse_loop_to_string : forall p fuel, (length (to_string p) < fuel)%nat -> parse_loop fuel (to_string p) = Some p.
Proof.
  induction p as [|e p IH]; intros fuel Hf.
  - destruct fuel; [cbn in Hf; lia|reflexivity].
  - destruct fuel as [|f]; [lia|].
    destruct p as [|e' p'].
    + cbn [to_string parse_loop].
      destruct (elem_str e) as [|c l] eqn:E; [exfalso; exact (elem_nonempty e E)|]. rewrite <- E.
      replace (elem_str e) with (elem_str e ++ []) by apply app_nil_r.
      rewrite scan_chunk_elem by (left; reflexivity). rewrite elem_after. reflexivity.
    + rewrite to_string_cons in * by discriminate. cbn [parse_loop].
      assert (Hlen : (length (to_string (e' :: p')) < f)%nat) by (rewrite app_length in Hf; cbn [length] in Hf; lia).
      destruct (elem_str e ++ 59 :: to_string (e' :: p')) as [|c l] eqn:E.
      { exfalso. destruct (elem_str e) eqn:E'; [exact (elem_nonempty e E')|discriminate]. }
      rewrite <- E. rewrite scan_chunk_elem by (right; eauto). rewrite elem_after.
      cbn [after_semicolon]. rewrite Z.eqb_refl.
      rewrite IH by exact Hlen. reflexivity.
Qed.

Theorem path_codec : forall p, p <> [] -> parse (to_string p) = Some p.
Proof.
  intros p Hp. unfold parse.
  destruct (to_string p) as [|c l] eqn:E.
  - destruct p as [|e p]; [contradiction|]. exfalso.
    destruct p; cbn [to_string] in E; [exact (elem_nonempty e E)|].
    destruct (elem_str e) eqn:E'; [exact (elem_nonempty e E')|discriminate].
  - rewrite <- E. apply parse_loop_to_string. lia.
Qed.

(** the empty path (a failure before the first transition) is printed as the empty string, which the parser rejects *)
Lemma empty_path : to_string [] = [] /\ parse [] = None.
Proof. split; reflexivity. Qed.
