(** C39 — transitions the checker declares independent commute on the extended kernel (McKernel2): barriers, actor
    life cycle, random, communications; neither disables the other.  Verdicts from the regenerated table. *)
From SGV Require Import Base.Tactics Mc.Trans Mc.McKernel Mc.McKernelProofs Mc.McKernel2 Gen.DepLut.
Local Open Scope Z_scope.

(* turn  depends (Plain c1) (Plain c2) = Some false  into what the table cell says *)
Ltac simp_dep2 H Hne :=
  unfold xdepends, depends, depends_with in H;
  cbn [xcore comm_core core_of mk_core tr_aid unwrap aid ty o1 o2 snd_ rcv_ tmo mty sty xstep] in H;
  rewrite (proj2 (Z.eqb_neq _ _) Hne) in H;
  cbv [T_MUTEX_ASYNC_LOCK T_MUTEX_TEST T_MUTEX_TRYLOCK T_MUTEX_UNLOCK T_MUTEX_WAIT T_SEM_ASYNC_LOCK T_SEM_UNLOCK
       T_SEM_WAIT T_BARRIER_ASYNC_LOCK T_BARRIER_WAIT T_ACTOR_CREATE T_ACTOR_JOIN T_ACTOR_EXIT T_ACTOR_SLEEP T_RANDOM
       T_COMM_ASYNC_SEND T_COMM_ASYNC_RECV T_COMM_TEST T_COMM_WAIT T_COMM_IPROBE] in H;
  cbn [Nat.ltb Nat.leb] in H; cell H; cbn [eval aid ty o1 o2 snd_ rcv_ tmo] in H.

(** ** barriers *)
Lemma bar_commute : forall x a1 a2 b p1 p2,
  wfb x -> a1 <> a2 -> ben x a1 p1 = true -> ben x a2 p2 = true ->
  depends (Plain (xcore (fun _ _ => 0) x0 (XB a1 b p1))) (Plain (xcore (fun _ _ => 0) x0 (XB a2 b p2))) = Some false ->
  (p1 = BLock -> p2 = BLock -> bar_room x) ->
  same_bar (bstep (bstep x a1 p1) a2 p2) (bstep (bstep x a2 p2) a1 p1) /\
  ben (bstep x a1 p1) a2 p2 = true /\ ben (bstep x a2 p2) a1 p1 = true.
Proof.
  intros [n q g] a1 a2 b p1 p2 [Hn Hq] Hne He1 He2 Hd Hroom. cbn [bn bq] in Hn, Hq.
  assert (Hne' : a2 <> a1) by congruence.
  assert (Hm : (n - 1) mod 2 ^ 32 = n - 1) by (apply Z.mod_small; lia).
  destruct p1, p2; simp_dep2 Hd Hne; unfold barrier_depends in Hd; cbn in Hd; rewrite ?Z.eqb_refl in Hd;
    try discriminate Hd; clear Hd.
  - (* LOCK / LOCK *)
    specialize (Hroom eq_refl eq_refl). unfold bar_room in Hroom. cbn [bn bq] in Hroom.
    unfold ben, bstep, same_bar in *. cbn [bn bq bgr] in *. rewrite Hm.
    apply andb_true_iff in He1. destruct He1 as [He1 He1']. apply andb_true_iff in He2. destruct He2 as [He2 He2'].
    apply negb_true_iff in He1, He1', He2, He2'.
    destruct (Z.ltb_spec (Z.of_nat (length q)) (n - 1)) as [Hlt|Hge]; cbn [bn bq bgr]; rewrite ?Hm;
      rewrite ?app_length; cbn [length];
      repeat match goal with
             | |- context [?u <? ?w] => destruct (Z.ltb_spec u w); cbn [bn bq bgr]; rewrite ?app_length; cbn [length]
             end; try lia;
      (split; [repeat split; try (rewrite ?app_length; cbn [length]; lia); intros c;
               repeat (rewrite existsb_app; cbn [existsb]); rewrite ?orb_false_r;
               destruct (existsb (Z.eqb c) q); destruct (existsb (Z.eqb c) g); destruct (c =? a1); destruct (c =? a2); reflexivity
              |]);
      repeat (rewrite existsb_app; cbn [existsb]); rewrite ?orb_false_r, ?He1, ?He1', ?He2, ?He2';
      rewrite (proj2 (Z.eqb_neq a1 a2) Hne), (proj2 (Z.eqb_neq a2 a1) Hne'); split; reflexivity.
  - (* WAIT / WAIT *)
    unfold ben, bstep, same_bar in *. cbn [bn bq bgr] in *.
    split; [repeat split; intros c; rewrite !existsb_remove;
            destruct (c =? a1); destruct (c =? a2); destruct (existsb (Z.eqb c) g); reflexivity|].
    rewrite !existsb_remove, He1, He2, (proj2 (Z.eqb_neq a1 a2) Hne), (proj2 (Z.eqb_neq a2 a1) Hne'). split; reflexivity.
Qed.

(** ** communications *)
Lemma tf_in : forall w q r rest, take_first w q = Some (r, rest) -> In (w, r) q.
Proof.
  intros w q. induction q as [|[k x] q IH]; intros r rest H; cbn in H; [discriminate|].
  destruct (Bool.eqb k w) eqn:E.
  - apply Bool.eqb_prop in E. inversion H; subst. left. reflexivity.
  - destruct (take_first w q) as [[r' rest']|]; [|discriminate]. inversion H; subst. right. eapply IH. reflexivity.
Qed.
Lemma tf_none : forall w q, take_first w q = None -> forall r, ~ In (w, r) q.
Proof.
  intros w q. induction q as [|[k x] q IH]; intros H r Hin; cbn in *; [assumption|].
  destruct (Bool.eqb k w) eqn:E; [discriminate|].
  destruct (take_first w q) as [[r' rest']|] eqn:E2; [discriminate|].
  destruct Hin as [Hin|Hin]; [inversion Hin; subst; rewrite Bool.eqb_reflx in E; discriminate|].
  eapply IH; eauto.
Qed.
Lemma tf_app_none : forall w q k r, take_first w q = None ->
  take_first w (q ++ [(k, r)]) = if Bool.eqb k w then Some (r, q) else None.
Proof.
  intros w q k r. induction q as [|[k' x] q IH]; intros H; cbn in *.
  - destruct (Bool.eqb k w); reflexivity.
  - destruct (Bool.eqb k' w); [discriminate|].
    destruct (take_first w q) as [[r' rest']|]; [discriminate|]. rewrite IH by reflexivity.
    destruct (Bool.eqb k w); reflexivity.
Qed.
Lemma tf_some_app : forall w q r rest l, take_first w q = Some (r, rest) -> take_first w (q ++ l) = Some (r, rest ++ l).
Proof.
  intros w q. induction q as [|[k' x] q IH]; intros r rest l H; cbn in *; [discriminate|].
  destruct (Bool.eqb k' w); [inversion H; subst; reflexivity|].
  destruct (take_first w q) as [[r' rest']|]; [|discriminate]. inversion H; subst.
  rewrite (IH r rest' l eq_refl). reflexivity.
Qed.
Lemma tf_rest_in : forall w q r rest e, take_first w q = Some (r, rest) -> In e rest -> In e q.
Proof.
  intros w q. induction q as [|[k' x] q IH]; intros r rest e H Hin; cbn in *; [discriminate|].
  destruct (Bool.eqb k' w); [inversion H; subst; right; assumption|].
  destruct (take_first w q) as [[r' rest']|] eqn:E; [|discriminate]. inversion H; subst.
  destruct Hin as [Hin|Hin]; [left; assumption|right; eapply IH; eauto].
Qed.
(* in a queue of one kind, what one side finds excludes that the other side finds anything, also afterwards *)
Lemma tf_homog_other : forall (q : list qent) kd w, (forall e, In e q -> fst e = kd) -> kd <> w -> take_first w q = None.
Proof.
  intros q kd w H Hne. destruct (take_first w q) as [[r rest]|] eqn:E; [|reflexivity].
  apply tf_in in E. apply H in E. cbn in E. congruence.
Qed.

Lemma eqst_refl : forall k, eqst k k.
Proof. intros k. repeat split. Qed.
Lemma same_bar_refl : forall x, same_bar x x.
Proof. intros x. repeat split. Qed.

Ltac eqb_crush :=
  repeat match goal with
         | |- context [?u =? ?v] => destruct (Z.eqb_spec u v); subst; cbn [andb orb negb]
         | H : context [?u =? ?v] |- _ => destruct (Z.eqb_spec u v); subst; cbn [andb orb negb] in H
         end; try reflexivity; try congruence; try lia.

(** two posts (isend / irecv) of different actors on different mailboxes *)
Lemma post_post_diff : forall s a1 a2 m1 m2 d1 d2, wfc s -> a1 <> a2 -> m1 <> m2 ->
  eqx (comm_post (comm_post s a1 m1 d1) a2 m2 d2) (comm_post (comm_post s a2 m2 d2) a1 m1 d1).
Proof.
  intros s a1 a2 m1 m2 d1 d2 (Hcn & Hq & Hh) Hne Hm.
  assert (Hne' : a2 <> a1) by congruence. assert (Hm' : m2 <> m1) by congruence.
  unfold comm_post at 2 4.
  destruct (take_first (negb d1) (Q s m1)) as [[[b1 j1] r1]|] eqn:E1;
    destruct (take_first (negb d2) (Q s m2)) as [[[b2 j2] r2]|] eqn:E2;
    unfold comm_post; cbn [K B AL NP CN RQ Q];
    rewrite ?(upd_other _ _ m1 _ m2 Hm'), ?(upd_other _ _ m2 _ m1 Hm), ?E1, ?E2,
            ?(upd_other _ _ a1 _ a2 Hne'), ?(upd_other _ _ a2 _ a1 Hne);
    try (pose proof (Hq _ _ _ _ (tf_in _ _ _ _ E1)) as [Hj1 Hr1]);
    try (pose proof (Hq _ _ _ _ (tf_in _ _ _ _ E2)) as [Hj2 Hr2]);
    (unfold eqx; cbn [K B AL NP CN RQ Q]; repeat split; try apply eqst_refl; try (intros; apply same_bar_refl);
     [intros a; unfold upd; eqb_crush | intros a k; unfold upd2; cbn [rmb rsend rpeer]; eqb_crush | intros m; unfold upd; eqb_crush]).
Qed.

(** an isend and an irecv of different actors on the same mailbox *)
Lemma post_post_same : forall s a1 a2 m d, wfc s -> a1 <> a2 ->
  eqx (comm_post (comm_post s a1 m d) a2 m (negb d)) (comm_post (comm_post s a2 m (negb d)) a1 m d).
Proof.
  intros s a1 a2 m d (Hcn & Hq & Hh) Hne.
  assert (Hne' : a2 <> a1) by congruence.
  destruct (Hh m) as [kd Hkd].
  unfold comm_post at 2 4. rewrite Bool.negb_involutive.
  destruct (take_first (negb d) (Q s m)) as [[[b1 j1] r1]|] eqn:E1;
    destruct (take_first d (Q s m)) as [[[b2 j2] r2]|] eqn:E2.
  - (* both kinds queued: impossible *)
    apply tf_in in E1. apply tf_in in E2. apply Hkd in E1. apply Hkd in E2. cbn in E1, E2. destruct d; cbn in *; congruence.
  - (* a1 matches the head, a2 is queued behind *)
    pose proof (Hq _ _ _ _ (tf_in _ _ _ _ E1)) as [Hj1 Hr1].
    assert (E2' : take_first d r1 = None).
    { destruct (take_first d r1) as [[x rr]|] eqn:E; [|reflexivity]. exfalso. apply tf_in in E.
      eapply (tf_none _ _ E2). eapply tf_rest_in; eauto. }
    unfold comm_post; cbn [K B AL NP CN RQ Q]. rewrite ?upd_same, ?Bool.negb_involutive, E2'.
    rewrite (tf_some_app _ _ _ _ [(negb d, (a2, CN s a2))] E1).
    rewrite ?(upd_other _ _ a1 _ a2 Hne'), ?(upd_other _ _ a2 _ a1 Hne).
    unfold eqx; cbn [K B AL NP CN RQ Q]; repeat split; try apply eqst_refl; try (intros; apply same_bar_refl);
      [intros a; unfold upd; eqb_crush | intros a k; unfold upd2; cbn [rmb rsend rpeer]; eqb_crush | intros m'; unfold upd; eqb_crush].
  - (* a2 matches the head, a1 is queued behind *)
    pose proof (Hq _ _ _ _ (tf_in _ _ _ _ E2)) as [Hj2 Hr2].
    assert (E1' : take_first (negb d) r2 = None).
    { destruct (take_first (negb d) r2) as [[x rr]|] eqn:E; [|reflexivity]. exfalso. apply tf_in in E.
      eapply (tf_none _ _ E1). eapply tf_rest_in; eauto. }
    unfold comm_post; cbn [K B AL NP CN RQ Q]. rewrite ?upd_same, ?Bool.negb_involutive, E1'.
    rewrite (tf_some_app _ _ _ _ [(d, (a1, CN s a1))] E2).
    rewrite ?(upd_other _ _ a1 _ a2 Hne'), ?(upd_other _ _ a2 _ a1 Hne).
    unfold eqx; cbn [K B AL NP CN RQ Q]; repeat split; try apply eqst_refl; try (intros; apply same_bar_refl);
      [intros a; unfold upd; eqb_crush | intros a k; unfold upd2; cbn [rmb rsend rpeer]; eqb_crush | intros m'; unfold upd; eqb_crush].
  - (* nothing to match: whoever comes second matches the first *)
    unfold comm_post; cbn [K B AL NP CN RQ Q]. rewrite ?upd_same, ?Bool.negb_involutive.
    rewrite (tf_app_none _ _ d (a1, CN s a1) E2), (tf_app_none _ _ (negb d) (a2, CN s a2) E1), !Bool.eqb_reflx.
    rewrite ?(upd_other _ _ a1 _ a2 Hne'), ?(upd_other _ _ a2 _ a1 Hne).
    unfold eqx; cbn [K B AL NP CN RQ Q]; repeat split; try apply eqst_refl; try (intros; apply same_bar_refl);
      [intros a; unfold upd; eqb_crush | intros a k; unfold upd2; cbn [rmb rsend rpeer]; eqb_crush | intros m'; unfold upd; eqb_crush].
Qed.

Lemma post_with_K : forall s k a m d, comm_post (with_K s k) a m d = with_K (comm_post s a m d) k.
Proof. intros. unfold comm_post, with_K; cbn [K B AL NP CN RQ Q]. destruct (take_first (negb d) (Q s m)) as [[[b j] r]|]; reflexivity. Qed.
Lemma post_AL : forall s a m d, AL (comm_post s a m d) = AL s.
Proof. intros. unfold comm_post. destruct (take_first (negb d) (Q s m)) as [[[b j] r]|]; reflexivity. Qed.
Lemma post_K : forall s a m d, K (comm_post s a m d) = K s.
Proof. intros. unfold comm_post. destruct (take_first (negb d) (Q s m)) as [[[b j] r]|]; reflexivity. Qed.
Lemma post_CN : forall s a m d a', CN (comm_post s a m d) a' = if a' =? a then CN s a + 1 else CN s a'.
Proof. intros. unfold comm_post. destruct (take_first (negb d) (Q s m)) as [[[b j] r]|]; reflexivity. Qed.
Lemma post_Q_other : forall s a m d m', m' <> m -> Q (comm_post s a m d) m' = Q s m'.
Proof. intros. unfold comm_post. destruct (take_first (negb d) (Q s m)) as [[[b j] r]|]; cbn [Q]; apply upd_other; assumption. Qed.
Lemma post_matched : forall s a m d a' k, a' <> a -> is_matched (RQ s a' k) = true -> is_matched (RQ (comm_post s a m d) a' k) = true.
Proof.
  intros s a m d a' k Hne H. unfold comm_post. destruct (take_first (negb d) (Q s m)) as [[[b j] r]|]; cbn [RQ]; unfold upd2;
    eqb_crush.
Qed.
(* the request of another actor changes only when this post matches it *)
Lemma post_RQ : forall s a m d a' k, a' <> a ->
  RQ (comm_post s a m d) a' k =
  match take_first (negb d) (Q s m) with
  | Some ((b, j), _) => if (a' =? b) && (k =? j)
                        then {| rmb := rmb (RQ s a' k); rsend := rsend (RQ s a' k); rpeer := Some (a, CN s a) |}
                        else RQ s a' k
  | None => RQ s a' k
  end.
Proof.
  intros s a m d a' k Hne. unfold comm_post. destruct (take_first (negb d) (Q s m)) as [[[b j] r]|]; cbn [RQ]; unfold upd2;
    eqb_crush.
Qed.
Lemma push_push : forall k a1 a2 v1 v2, a1 <> a2 ->
  eqst (push_obs (push_obs k a1 v1) a2 v2) (push_obs (push_obs k a2 v2) a1 v1).
Proof.
  intros k a1 a2 v1 v2 Hne. unfold eqst, push_obs; cbn [M S O]. repeat split. intros a. unfold upd. eqb_crush.
Qed.
Lemma eqx_K : forall s k k', eqst k k' -> eqx (with_K s k) (with_K s k').
Proof. intros s k k' H. unfold eqx, with_K; cbn [K B AL NP CN RQ Q]. repeat split; try apply H; try reflexivity. Qed.
Lemma eqx_refl : forall s, eqx s s.
Proof. intros s. unfold eqx. repeat split. Qed.

Lemma post_rmb : forall s a m d a' k, a' <> a -> rmb (RQ (comm_post s a m d) a' k) = rmb (RQ s a' k).
Proof.
  intros s a m d a' k Hne. rewrite post_RQ by assumption.
  destruct (take_first (negb d) (Q s m)) as [[[b j] r]|]; [destruct ((a' =? b) && (k =? j))|]; reflexivity.
Qed.
(* a post that the checker declares independent of a test does not pair the tested request *)
Lemma post_keeps_tested : forall cid s a a' m d k,
  wfc s -> a' <> a ->
  (if negb (m =? rmb (RQ s a' k)) then Some false else Some (cid a' k =? cid a (CN s a))) = Some false ->
  (cid a' k = cid a (CN s a) <-> rpeer (RQ (comm_post s a m d) a' k) = Some (a, CN s a)) ->
  is_matched (RQ (comm_post s a m d) a' k) = is_matched (RQ s a' k).
Proof.
  intros cid s a a' m d k (Hcn & Hq & Hh) Hne Hd Hc. rewrite post_RQ in * by assumption.
  destruct (take_first (negb d) (Q s m)) as [[[b j] r]|] eqn:E; [|reflexivity].
  destruct ((a' =? b) && (k =? j)) eqn:Eh; [|reflexivity]. exfalso.
  apply andb_true_iff in Eh. destruct Eh as [E1 E2]. apply Z.eqb_eq in E1, E2. subst b j.
  destruct (Hq _ _ _ _ (tf_in _ _ _ _ E)) as [_ Hr]. rewrite Hr, Z.eqb_refl in Hd. cbn [negb] in Hd.
  cbn [rpeer] in Hc. rewrite (proj2 Hc eq_refl), Z.eqb_refl in Hd. discriminate Hd.
Qed.
Lemma with_K_with_K : forall s k k', with_K (with_K s k) k' = with_K s k'.
Proof. reflexivity. Qed.

Ltac en_split H := unfold xenabled in H; cbn [xaid] in H; apply andb_true_iff in H; destruct H as [?Hal H].

Lemma comm_commute : forall cid s a1 a2 p1 p2,
  xwf s -> a1 <> a2 -> xenabled s (XC a1 p1) = true -> xenabled s (XC a2 p2) = true ->
  cid_ok cid (xstep (xstep s (XC a1 p1)) (XC a2 p2)) ->
  xdepends cid s (XC a1 p1) (XC a2 p2) = Some false ->
  eqx (xstep (xstep s (XC a1 p1)) (XC a2 p2)) (xstep (xstep s (XC a2 p2)) (XC a1 p1)) /\
  xenabled (xstep s (XC a1 p1)) (XC a2 p2) = true /\ xenabled (xstep s (XC a2 p2)) (XC a1 p1) = true.
Proof.
  intros cid s a1 a2 p1 p2 (_ & _ & _ & _ & Hwc) Hne He1 He2 Hcid Hd.
  assert (Hne' : a2 <> a1) by congruence.
  pose proof Hwc as (Hcn & Hq & Hh).
  en_split He1. en_split He2.
  destruct p1 as [m1|m1|k1|k1|m1 sd1], p2 as [m2|m2|k2|k2|m2 sd2];
    simp_dep2 Hd Hne; rewrite ?Z.eqb_refl in Hd; cbn [negb] in Hd.
  all: cbn [xstep]; unfold xenabled; cbn [xaid xstep]; rewrite ?post_AL, ?Hal, ?Hal0; cbn [andb AL with_K].
  (* posts against posts *)
  1: { destruct (Z.eqb_spec m1 m2) as [->|Hm]; [discriminate Hd|]. split; [apply post_post_diff; assumption|split; reflexivity]. }
  1: { destruct (Z.eqb_spec m1 m2) as [->|Hm]; (split; [|split; reflexivity]);
       [apply (post_post_same s a1 a2 m2 true Hwc Hne) | apply post_post_diff; assumption]. }
  4: { destruct (Z.eqb_spec m1 m2) as [->|Hm]; (split; [|split; reflexivity]);
       [apply (post_post_same s a1 a2 m2 false Hwc Hne) | apply post_post_diff; assumption]. }
  4: { destruct (Z.eqb_spec m1 m2) as [->|Hm]; [discriminate Hd|]. split; [apply post_post_diff; assumption|split; reflexivity]. }
  all: rewrite ?post_with_K, ?post_K; cbn [K with_K].
  all: rewrite ?post_CN, ?(proj2 (Z.eqb_neq _ _) Hne), ?(proj2 (Z.eqb_neq _ _) Hne'), ?Hal, ?Hal0; cbn [andb].
  all: cbn [with_K CN RQ Q K AL].
  (* read-only against read-only, wait against anything: nothing to reconcile *)
  all: try solve [ repeat split; try reflexivity; try assumption; try apply eqx_refl;
                   try (apply eqx_K; apply push_push; assumption);
                   try (apply andb_true_iff in He2; destruct He2 as [He2 Hmt]; rewrite He2, (post_matched _ _ _ _ _ _ Hne' Hmt); reflexivity);
                   try (apply andb_true_iff in He1; destruct He1 as [He1 Hmt]; rewrite He1, (post_matched _ _ _ _ _ _ Hne Hmt); reflexivity) ].
  all: rewrite ?with_K_with_K.
  all: try solve [ repeat split; try reflexivity; try assumption; apply eqx_K; apply push_push; assumption ].
  (* a probe and a post: different mailboxes *)
  all: try solve [ match type of Hd with Some (?u =? ?v) = Some false => destruct (Z.eqb_spec u v) as [->|Hm]; [discriminate Hd|] end;
                   rewrite post_Q_other by congruence; repeat split; apply eqx_refl ].
  (* a post then a test by the other actor *)
  1,2: cbn [comm_core o1 o2] in Hd; rewrite (post_rmb _ _ _ _ _ _ Hne') in Hd;
       specialize (Hcid a2 k2 a1 (CN s a1) Hne'); cbn [xstep with_K RQ] in Hcid;
       rewrite (post_keeps_tested cid s a1 a2 _ _ k2 Hwc Hne' Hd Hcid);
       repeat split; try assumption; apply eqx_refl.
  (* a test then a post by the other actor *)
  1,2: cbn [comm_core o1 o2 with_K CN RQ] in Hd;
       specialize (Hcid a1 k1 a2 (CN s a2) Hne); cbn [xstep] in Hcid; rewrite post_with_K in Hcid; cbn [with_K RQ] in Hcid;
       rewrite (post_keeps_tested cid s a2 a1 _ _ k1 Hwc Hne Hd Hcid);
       repeat split; try assumption; apply eqx_refl.
Qed.

(** ** lifting to the whole state *)
Lemma enabled_push : forall k a v t, enabled (push_obs k a v) t = enabled k t.
Proof. intros k a v t. destruct t; reflexivity. Qed.
Lemma step_push : forall k a v t, kaid t <> a -> eqst (step (push_obs k a v) t) (push_obs (step k t) a v).
Proof.
  intros k a v t Hne. destruct t as [a1 m op|a1 s op]; cbn [kaid] in Hne; unfold eqst, step, push_obs; cbn [M S O];
    repeat split; intros x; try destruct (snd (mstep (M k m) a1 op)); unfold upd; eqb_crush.
Qed.
Lemma push_step : forall k a v t, kaid t <> a -> eqst (push_obs (step k t) a v) (step (push_obs k a v) t).
Proof.
  intros k a v t Hne. destruct t as [a1 m op|a1 s op]; cbn [kaid] in Hne; unfold eqst, step, push_obs; cbn [M S O];
    repeat split; intros x; try destruct (snd (mstep (M k m) a1 op)); unfold upd; eqb_crush.
Qed.

Definition xwf_K (s : xst) : xwf s -> wf_all (K s).
Proof. intros (H1 & H2 & _). split; [exact H1|]. intros k. unfold wfs. apply H2. Qed.

Ltac xsplit := unfold eqx; cbn [K B AL NP CN RQ Q with_K]; repeat split;
               try apply eqst_refl; try (intros; apply same_bar_refl); try reflexivity.

Theorem xcommute : forall cid s t1 t2,
  xwf s -> xaid t1 <> xaid t2 -> xenabled s t1 = true -> xenabled s t2 = true ->
  cid_ok cid (xstep (xstep s t1) t2) ->
  xdepends cid s t1 t2 = Some false ->
  bar_side s t1 t2 ->
  eqx (xstep (xstep s t1) t2) (xstep (xstep s t2) t1) /\
  xenabled (xstep s t1) t2 = true /\ xenabled (xstep s t2) t1 = true.
Proof.
  intros cid s t1 t2 Hwf Hne He1 He2 Hcid Hd Hside.
  assert (Hne' : xaid t2 <> xaid t1) by congruence.
  destruct t1 as [t1|a1 b1 p1|a1 p1|a1 p1], t2 as [t2|a2 b2 p2|a2 p2|a2 p2]; cbn [xaid] in Hne, Hne'.
  1: { (* mutex / semaphore kernel: McKernelProofs.commute *)
    pose proof He1 as He1'. pose proof He2 as He2'. en_split He1'. en_split He2'.
    destruct (commute (K s) t1 t2 (xwf_K s Hwf) Hne He1' He2' Hd) as (Hx & Hn1 & Hn2).
    cbn [xstep]. unfold xenabled; cbn [xaid with_K K AL]. rewrite Hal, Hal0, Hn1, Hn2.
    split; [|split; reflexivity]. unfold eqx; cbn [K B AL NP CN RQ Q with_K]; repeat split; try apply Hx; try (intros; apply same_bar_refl). }
  15: { (* communications *) apply (comm_commute cid s a1 a2 p1 p2 Hwf Hne He1 He2 Hcid Hd). }
  5: { (* two barrier transitions *)
    pose proof Hwf as (_ & _ & Hwb & _).
    pose proof He1 as He1'. pose proof He2 as He2'. en_split He1'. en_split He2'.
    cbn [xstep]. unfold xenabled; cbn [xaid K B AL NP CN RQ Q]. rewrite Hal, Hal0. cbn [andb].
    destruct (Z.eq_dec b1 b2) as [->|Hb].
    - assert (Hroom : p1 = BLock -> p2 = BLock -> bar_room (B s b2)) by (intros -> ->; apply Hside; reflexivity).
      destruct (bar_commute (B s b2) a1 a2 b2 p1 p2 (Hwb b2) Hne He1' He2' Hd Hroom) as (Hx & Hn1 & Hn2).
      rewrite !upd_same. split; [|split; assumption]. unfold eqx; cbn [K B AL NP CN RQ Q]. split; [apply eqst_refl|]. split; [|repeat split]. intros bb. unfold upd. destruct (bb =? b2); [exact Hx|apply same_bar_refl].
    - assert (Hb' : b2 <> b1) by congruence.
      rewrite !(upd_other _ _ b1 _ b2 Hb'), !(upd_other _ _ b2 _ b1 Hb). split; [|split; assumption]. unfold eqx; cbn [K B AL NP CN RQ Q]. split; [apply eqst_refl|]. split; [|repeat split].
      intros bb. unfold upd. destruct (Z.eqb_spec bb b2); destruct (Z.eqb_spec bb b1); subst; try congruence; apply same_bar_refl. }
  all: pose proof Hwf as (_ & _ & Hwb & Hwa & Hwc).
  all: unfold xenabled in He1, He2; cbn [xaid] in He1, He2;
       apply andb_true_iff in He1; destruct He1 as [Hal1 He1]; apply andb_true_iff in He2; destruct He2 as [Hal2 He2].
  all: try (destruct p1); try (destruct p2).
  all: cbn [xstep]; unfold xenabled, comm_post; cbn [xaid xstep K B AL NP CN RQ Q with_K];
       repeat match goal with |- context [take_first ?w ?q] => destruct (take_first w q) as [[[? ?] ?]|] end;
       cbn [xaid xstep K B AL NP CN RQ Q with_K]; rewrite ?enabled_push.
  all: try solve [ (split; [xsplit; try (apply push_step; assumption); try (apply step_push; assumption); try (apply push_push; assumption);
                            try (intros; unfold upd; eqb_crush) | ]);
                   rewrite ?Hal1, ?Hal2, ?He1, ?He2; cbn [andb]; try (split; reflexivity);
                   unfold upd; split; eqb_crush ].
  (* creation against join / exit: pids of existing actors are below the next pid *)
  all: repeat match goal with H : (AL _ ?p =? ?c) = true |- _ => apply Z.eqb_eq in H; pose proof (Hwa p ltac:(lia)) end;
       (split; [xsplit; intros; unfold upd; eqb_crush | unfold upd; split; eqb_crush]).
Qed.

(** the side conditions are invariants of the kernel *)
Lemma tf_rest_sub : forall w q r rest, take_first w q = Some (r, rest) -> forall e, In e rest -> In e q.
Proof. intros. eapply tf_rest_in; eauto. Qed.

Lemma tf_none_all : forall w q, take_first w q = None -> forall e, In e q -> fst e = negb w.
Proof.
  intros w q H [k r] Hin. cbn. destruct (Bool.eqb k w) eqn:E.
  - apply Bool.eqb_prop in E. subst. exfalso. eapply tf_none; eauto.
  - destruct k, w; cbn in *; congruence.
Qed.

Lemma wfc_post : forall s a m d, wfc s -> wfc (comm_post s a m d).
Proof.
  intros s a m d (Hcn & Hq & Hh). unfold comm_post.
  destruct (take_first (negb d) (Q s m)) as [[[b j] rest]|] eqn:E; unfold wfc; cbn [CN RQ Q].
  - pose proof (Hq _ _ _ _ (tf_in _ _ _ _ E)) as [Hj Hr].
    split; [intros a'; unfold upd; destruct (a' =? a); [specialize (Hcn a); lia|apply Hcn]|]. split.
    + intros m' kd b' j' Hin. unfold upd in Hin. destruct (Z.eqb_spec m' m) as [->|Hm].
      * pose proof (Hq _ _ _ _ (tf_rest_in _ _ _ _ _ E Hin)) as [Hj' Hr'].
        unfold upd, upd2; cbn [rmb]. specialize (Hcn a). split; eqb_crush.
      * pose proof (Hq _ _ _ _ Hin) as [Hj' Hr'].
        unfold upd, upd2; cbn [rmb]. specialize (Hcn a). split; eqb_crush.
    + intros m'. unfold upd. destruct (Z.eqb_spec m' m) as [->|Hm]; [|apply Hh].
      destruct (Hh m) as [kd Hkd]. exists kd. intros e Hin. apply Hkd. eapply tf_rest_in; eauto.
  - split; [intros a'; unfold upd; destruct (a' =? a); [specialize (Hcn a); lia|apply Hcn]|]. split.
    + intros m' kd b' j' Hin. unfold upd in Hin. destruct (Z.eqb_spec m' m) as [->|Hm].
      * apply in_app_or in Hin. destruct Hin as [Hin|[Hin|[]]].
        -- pose proof (Hq _ _ _ _ Hin) as [Hj' Hr']. unfold upd, upd2; cbn [rmb]. specialize (Hcn a). split; eqb_crush.
        -- inversion Hin; subst. unfold upd, upd2; cbn [rmb]. rewrite !Z.eqb_refl. cbn [andb rmb]. specialize (Hcn b'). split; [lia|reflexivity].
      * pose proof (Hq _ _ _ _ Hin) as [Hj' Hr']. unfold upd, upd2; cbn [rmb]. specialize (Hcn a). split; eqb_crush.
    + intros m'. unfold upd. destruct (Z.eqb_spec m' m) as [->|Hm]; [|apply Hh].
      exists d. intros e Hin. apply in_app_or in Hin. destruct Hin as [Hin|[Hin|[]]]; [|subst; reflexivity].
      rewrite (tf_none_all _ _ E e Hin). apply Bool.negb_involutive.
Qed.

(** well-formedness is preserved by every enabled step *)
Theorem xwf_step : forall s t, xwf s -> xenabled s t = true -> xwf (xstep s t).
Proof.
  intros s t (Hk & Hv & Hb & Ha & Hc) He.
  assert (Hall : wf_all (K s)) by (split; [exact Hk|intros k; unfold wfs; apply Hv]).
  unfold xenabled in He. apply andb_true_iff in He. destruct He as [Hal He]. apply Z.eqb_eq in Hal.
  assert (Hlt : xaid t < NP s) by (apply Ha; lia).
  destruct t as [t|a b op|a op|a op]; cbn [xaid] in *.
  - destruct (wf_step (K s) t Hall) as [H1 H2]. unfold xwf; cbn [xstep with_K K B AL NP CN RQ Q].
    split; [exact H1|]. split; [exact H2|]. split; [exact Hb|]. split; [exact Ha|exact Hc].
  - unfold xwf; cbn [xstep K B AL NP CN RQ Q]. split; [assumption|]. split; [assumption|]. split; [|split; assumption].
    intros b'. unfold upd. destruct (b' =? b); [|apply Hb]. destruct (Hb b) as [Hn Hq]. unfold wfb.
    assert (Hm : (bn (B s b) - 1) mod 2 ^ 32 = bn (B s b) - 1) by (apply Z.mod_small; lia).
    destruct op; cbn [bstep]; [rewrite Hm; destruct (Z.ltb_spec (Z.of_nat (length (bq (B s b)))) (bn (B s b) - 1))|];
      cbn [bn bq]; rewrite ?app_length; cbn [length]; lia.
  - destruct op; unfold xwf; cbn [xstep with_K push_obs K B AL NP CN RQ Q M S];
      (split; [exact Hk|]); (split; [exact Hv|]); (split; [exact Hb|]); (split; [|exact Hc]); try exact Ha;
      intros p; unfold upd;
      match goal with |- context [p =? ?x] => destruct (Z.eqb_spec p x) end; intros Hp; try (specialize (Ha p Hp)); lia.
  - destruct op; cbn [xstep]; try (unfold xwf; cbn [with_K push_obs K B AL NP CN RQ Q M S]; (split; [exact Hk|]); (split; [exact Hv|]); (split; [exact Hb|]); (split; [exact Ha|exact Hc]); fail);
      unfold xwf; rewrite ?post_K, ?post_AL;
      (split; [assumption|]); (split; [assumption|]); (split; [unfold comm_post; destruct (take_first _ _) as [[[? ?] ?]|]; assumption|]);
      (split; [unfold comm_post; destruct (take_first _ _) as [[[? ?] ?]|]; assumption|]); apply wfc_post; assumption.
Qed.
