(** C39 — the kernel as the model checker drives it, extended beyond McKernel (mutexes, semaphores) with
    barriers (BarrierImpl::acquire_async, BarrierAcquisitionImpl::wait_for), the actor life cycle (ActorCreateSimcall,
    ActorJoinSimcall::is_enabled, this_actor::exit, sleep_for under MC), MC_random, and communications on mailboxes
    (CommImpl::isend / irecv / test in MC mode, ActivityWaitSimcall::is_enabled, MailboxImpl::iprobe /
    find_matching_comm) without match functions, permanent receivers, detached sends or timeouts.
    Also: how each step is described to the checker right after its execution (the observers' serialize()).
    Model only. *)
From SGV Require Import Base.Tactics Mc.Trans Mc.McKernel Gen.DepLut.
Local Open Scope Z_scope.

(** ** one barrier: expected_actors_, ongoing_acquisitions_ (issuers, FIFO), and who holds a granted acquisition
       that it has not waited for yet *)
Record bar := { bn : Z; bq : list Z; bgr : list Z }.
Inductive bop := BLock | BWait.
Definition ben (x : bar) (a : Z) (op : bop) : bool :=
  match op with
  | BLock => negb (existsb (Z.eqb a) (bq x)) && negb (existsb (Z.eqb a) (bgr x))  (* Barrier::wait: one acquisition at a time *)
  | BWait => existsb (Z.eqb a) (bgr x)                       (* BarrierObserver::is_enabled: acquisition_->granted_ *)
  end.
Definition bstep (x : bar) (a : Z) (op : bop) : bar :=
  match op with
  | BLock =>  (* if (ongoing_acquisitions_.size() < expected_actors_ - 1)   -- unsigned arithmetic *)
      if Z.of_nat (length (bq x)) <? (bn x - 1) mod 2 ^ 32
      then {| bn := bn x; bq := bq x ++ [a]; bgr := bgr x |}
      else {| bn := bn x; bq := []; bgr := bgr x ++ bq x ++ [a] |}
  | BWait => {| bn := bn x; bq := bq x; bgr := remove_z a (bgr x) |}
  end.
(** both collections order-insensitively: every queued acquisition is granted at the same instant *)
Definition same_bar (x y : bar) : Prop :=
  bn x = bn y /\ length (bq x) = length (bq y) /\
  (forall a, existsb (Z.eqb a) (bq x) = existsb (Z.eqb a) (bq y)) /\
  (forall a, existsb (Z.eqb a) (bgr x) = existsb (Z.eqb a) (bgr y)).
Definition wfb (x : bar) : Prop := 1 <= bn x < 2 ^ 32 /\ Z.of_nat (length (bq x)) <= bn x - 1.
(** there is room for two more arrivals in the current round, or every arrival completes a round *)
Definition bar_room (x : bar) : Prop := bn x = 1 \/ Z.of_nat (length (bq x)) <> bn x - 1.

(** ** communications.  A request is what one actor created with put_async/get_async; (actor, rank among the
       actor's requests) names it whatever the interleaving.  A CommImpl is one unmatched request or two requests
       that point to each other. *)
Record req := { rmb : Z; rsend : bool; rpeer : option (Z * Z) }.
Definition req0 : req := {| rmb := 0; rsend := false; rpeer := None |}.
(** a mailbox's comm_queue_: (is a send, issuer, rank) *)
Definition qent := (bool * (Z * Z))%type.
(** MailboxImpl::find_matching_comm(type, no match functions, remove_matching): the first entry of that type *)
Fixpoint take_first (want_send : bool) (q : list qent) : option ((Z * Z) * list qent) :=
  match q with
  | [] => None
  | (k, r) :: rest =>
      if Bool.eqb k want_send then Some (r, rest)
      else match take_first want_send rest with
           | Some (r', rest') => Some (r', (k, r) :: rest')
           | None => None
           end
  end.
Inductive cop := CSend (m : Z) | CRecv (m : Z) | CTest (k : Z) | CWait (k : Z) | CProbe (m : Z) (sender_side : bool).
Inductive aop := ACreate | AJoin (target : Z) | AExit | ASleep | ARandom (value : Z).

(** ** the whole state *)
Record xst := {
  K : st;                 (* mutexes, semaphores, values returned to each actor *)
  B : Z -> bar;
  AL : Z -> Z;            (* 0 not created yet, 1 alive, 2 terminated *)
  NP : Z;                 (* next pid *)
  CN : Z -> Z;            (* number of requests each actor created *)
  RQ : Z -> Z -> req;
  Q : Z -> list qent }.
Definition upd2 {A} (f : Z -> Z -> A) (a k : Z) (v : A) : Z -> Z -> A :=
  fun a' k' => if (a' =? a) && (k' =? k) then v else f a' k'.
Inductive xt := XK (t : kt) | XB (a b : Z) (op : bop) | XA (a : Z) (op : aop) | XC (a : Z) (op : cop).
Definition xaid (t : xt) : Z := match t with XK t => kaid t | XB a _ _ => a | XA a _ => a | XC a _ => a end.
Definition is_matched (r : req) : bool := match rpeer r with Some _ => true | None => false end.
Definition xenabled (s : xst) (t : xt) : bool :=
  (AL s (xaid t) =? 1) &&
  match t with
  | XK t => enabled (K s) t
  | XB a b op => ben (B s b) a op
  | XA a (AJoin tg) => AL s tg =? 2                   (* ActorJoinSimcall::is_enabled: the target wannadie() *)
  | XA a _ => true
  | XC a (CSend _) | XC a (CRecv _) | XC a (CProbe _ _) => true
  | XC a (CTest k) => (0 <=? k) && (k <? CN s a)      (* an actor tests and waits its own requests *)
  | XC a (CWait k) => (0 <=? k) && (k <? CN s a) && is_matched (RQ s a k)
                      (* ActivityWaitSimcall::is_enabled -> CommImpl::test in MC mode: src_actor_ && dst_actor_ *)
  end.
Definition push_obs (k : st) (a v : Z) : st := {| M := M k; S := S k; O := upd (O k) a (v :: O k a) |}.
Definition b2z (b : bool) : Z := if b then 1 else 0.
(** CommImpl::isend / irecv: a fresh request; match the first queued request of the other type or queue this one *)
Definition comm_post (s : xst) (a m : Z) (snd : bool) : xst :=
  let k := CN s a in
  match take_first (negb snd) (Q s m) with
  | Some ((b, j), rest) =>
      {| K := K s; B := B s; AL := AL s; NP := NP s; CN := upd (CN s) a (k + 1);
         RQ := upd2 (upd2 (RQ s) a k {| rmb := m; rsend := snd; rpeer := Some (b, j) |})
                    b j {| rmb := rmb (RQ s b j); rsend := rsend (RQ s b j); rpeer := Some (a, k) |};
         Q := upd (Q s) m rest |}
  | None =>
      {| K := K s; B := B s; AL := AL s; NP := NP s; CN := upd (CN s) a (k + 1);
         RQ := upd2 (RQ s) a k {| rmb := m; rsend := snd; rpeer := None |};
         Q := upd (Q s) m (Q s m ++ [(snd, (a, k))]) |}
  end.
Definition with_K (s : xst) (k : st) : xst :=
  {| K := k; B := B s; AL := AL s; NP := NP s; CN := CN s; RQ := RQ s; Q := Q s |}.
Definition xstep (s : xst) (t : xt) : xst :=
  match t with
  | XK t => with_K s (step (K s) t)
  | XB a b op => {| K := K s; B := upd (B s) b (bstep (B s b) a op); AL := AL s; NP := NP s; CN := CN s; RQ := RQ s; Q := Q s |}
  | XA a ACreate => {| K := K s; B := B s; AL := upd (AL s) (NP s) 1; NP := NP s + 1; CN := CN s; RQ := RQ s; Q := Q s |}
  | XA a AExit => {| K := K s; B := B s; AL := upd (AL s) a 2; NP := NP s; CN := CN s; RQ := RQ s; Q := Q s |}
  | XA a (AJoin _) | XA a ASleep => s
  | XA a (ARandom v) => with_K s (push_obs (K s) a v)
  | XC a (CSend m) => comm_post s a m true
  | XC a (CRecv m) => comm_post s a m false
  | XC a (CTest k) => with_K s (push_obs (K s) a (b2z (is_matched (RQ s a k))))
  | XC a (CWait k) => s
  | XC a (CProbe m snd) =>   (* iprobe of kind SEND looks for a queued RECEIVE and vice versa; tells whether there is one *)
      with_K s (push_obs (K s) a (b2z (match take_first (negb snd) (Q s m) with Some _ => true | None => false end)))
  end.

Definition eqx (s s' : xst) : Prop :=
  eqst (K s) (K s') /\ (forall b, same_bar (B s b) (B s' b)) /\ (forall p, AL s p = AL s' p) /\ NP s = NP s' /\
  (forall a, CN s a = CN s' a) /\ (forall a k, RQ s a k = RQ s' a k) /\ (forall m, Q s m = Q s' m).

(** ** what the checker is told about a step executed from [s] (serialized right after simcall_handle).
    [cid] names the CommImpl behind a request by an integer (the real kernel: CommImpl::id_). *)
Definition peer_aid (r : req) : Z := match rpeer r with Some (b, _) => b | None => -1 end.
Definition comm_core (cid : Z -> Z -> Z) (t : nat) (s' : xst) (a k : Z) : core :=
  let r := RQ s' a k in
  {| ty := t; aid := a; o1 := cid a k; o2 := rmb r;
     snd_ := if rsend r then a else peer_aid r; rcv_ := if rsend r then peer_aid r else a; tmo := false |}.
Definition xcore (cid : Z -> Z -> Z) (s : xst) (t : xt) : core :=
  match t with
  | XK t => core_of t
  | XB a b BLock => mk_core T_BARRIER_ASYNC_LOCK a b
  | XB a b BWait => mk_core T_BARRIER_WAIT a b
  | XA a ACreate => mk_core T_ACTOR_CREATE a (NP s)
  | XA a (AJoin tg) => mk_core T_ACTOR_JOIN a tg
  | XA a AExit => mk_core T_ACTOR_EXIT a 0
  | XA a ASleep => mk_core T_ACTOR_SLEEP a 0
  | XA a (ARandom _) => mk_core T_RANDOM a 0
  | XC a (CSend m) => {| ty := T_COMM_ASYNC_SEND; aid := a; o1 := cid a (CN s a); o2 := m; snd_ := -1; rcv_ := -1; tmo := false |}
  | XC a (CRecv m) => {| ty := T_COMM_ASYNC_RECV; aid := a; o1 := cid a (CN s a); o2 := m; snd_ := -1; rcv_ := -1; tmo := false |}
  | XC a (CTest k) => comm_core cid T_COMM_TEST s a k
  | XC a (CWait k) => comm_core cid T_COMM_WAIT s a k
  | XC a (CProbe m _) => {| ty := T_COMM_IPROBE; aid := a; o1 := 0; o2 := m; snd_ := -1; rcv_ := -1; tmo := false |}
  end.
(** [cid] is faithful for the trace that ends in [s]: two requests of different actors carry the same id exactly when
    they are the two ends of one CommImpl.  (The kernel's global counter is one such naming for the trace it runs.) *)
Definition cid_ok (cid : Z -> Z -> Z) (s : xst) : Prop :=
  forall a k b j, a <> b -> (cid a k = cid b j <-> rpeer (RQ s a k) = Some (b, j)).
(** the verdict of the checker on  s --t1--> . --t2--> .  *)
Definition xdepends (cid : Z -> Z -> Z) (s : xst) (t1 t2 : xt) : option bool :=
  depends (Plain (xcore cid s t1)) (Plain (xcore cid (xstep s t1) t2)).

(** ** executable entry points for the ties and for the search of a counter-example when a proof breaks *)
Definition bop_of (z : Z) : bop := if z =? 0 then BLock else BWait.
(** [expected; a; op; ...] -> per op  [0] (not enabled, skipped)  or  [1; n; queue...; k; granted...] *)
Fixpoint bar_seq (x : bar) (l : list Z) (fuel : nat) : list Z :=
  match fuel with
  | Datatypes.O => []
  | Datatypes.S f =>
      match l with
      | a :: p :: rest =>
          let op := bop_of p in
          if ben x a op then
            let x' := bstep x a op in
            [1; Z.of_nat (length (bq x'))] ++ bq x' ++ [Z.of_nat (length (bgr x'))] ++ bgr x' ++ bar_seq x' rest f
          else 0 :: bar_seq x rest f
      | _ => []
      end
  end.
Definition run_c39_bar_seq (l : list Z) : list Z :=
  match l with n :: rest => bar_seq {| bn := n; bq := []; bgr := [] |} rest (length rest) | [] => [] end.
(** [expected; n; queue(n)...; a1; a2] -> two BARRIER_ASYNC_LOCK by a1 and a2 on that barrier:
    [enabled both; same_bar of the two orders decided on the actors 0..15; the checker's verdict (1 dep, 0 indep, -1 dies)] *)
Definition run_c39_bar_pair (l : list Z) : list Z :=
  match l with
  | n :: k :: rest =>
      let q := firstn (Z.to_nat k) rest in
      match skipn (Z.to_nat k) rest with
      | a1 :: a2 :: _ =>
          let x := {| bn := n; bq := q; bgr := [] |} in
          let x12 := bstep (bstep x a1 BLock) a2 BLock in
          let x21 := bstep (bstep x a2 BLock) a1 BLock in
          let same := (Z.of_nat (length (bq x12)) =? Z.of_nat (length (bq x21))) &&
                      forallb (fun a => Bool.eqb (existsb (Z.eqb a) (bq x12)) (existsb (Z.eqb a) (bq x21)) &&
                                        Bool.eqb (existsb (Z.eqb a) (bgr x12)) (existsb (Z.eqb a) (bgr x21)))
                              (map Z.of_nat (seq 0 16)) in
          [b2z (ben x a1 BLock && ben x a2 BLock); b2z same;
           match depends (Plain (mk_core T_BARRIER_ASYNC_LOCK a1 0)) (Plain (mk_core T_BARRIER_ASYNC_LOCK a2 0)) with
           | Some true => 1 | Some false => 0 | None => -1 end]
      | _ => []
      end
  | _ => []
  end.

(** communications: an initial state where the actors 0..7 are alive, nothing else exists *)
Definition x0 : xst :=
  {| K := {| M := fun _ => {| owner := None; mq := [] |}; S := fun _ => {| val := 0; sq := []; sgr := [] |}; O := fun _ => [] |};
     B := fun _ => {| bn := 1; bq := []; bgr := [] |};
     AL := fun p => if (0 <=? p) && (p <? 8) then 1 else 0; NP := 8;
     CN := fun _ => 0; RQ := fun _ _ => req0; Q := fun _ => [] |}.
Definition cop_of (c arg : Z) : cop :=
  if c =? 0 then CSend arg else if c =? 1 then CRecv arg else if c =? 2 then CTest arg else if c =? 3 then CWait arg
  else if c =? 4 then CProbe arg true else CProbe arg false.
(** the canonical id the tie uses: the send side of the CommImpl in the state reached so far, as  actor * 1000 + rank *)
Definition canon_cid (s : xst) (a k : Z) : Z :=
  let r := RQ s a k in
  if rsend r then a * 1000 + k else match rpeer r with Some (b, j) => b * 1000 + j | None => a * 1000 + k end.
Definition qdump (q : list qent) : list Z := flat_map (fun e => [b2z (fst e); fst (snd e); snd (snd e)]) q.
(** [a; c; arg; ...] -> per op  [0]  or  [1; value returned | -1; ty; request actor; request rank | -1 -1; mailbox;
    sender; receiver; n; queue of that mailbox (is_send actor rank)...]
    The request named is the issuer's one; the check maps real CommImpl ids to requests. *)
Fixpoint comm_seq (s : xst) (l : list Z) (fuel : nat) : list Z :=
  match fuel with
  | Datatypes.O => []
  | Datatypes.S f =>
      match l with
      | a :: c :: arg :: rest =>
          let t := XC a (cop_of c arg) in
          if xenabled s t then
            let s' := xstep s t in
            let d := xcore (fun _ _ => 0) s t in
            let d' := xcore (fun _ _ => 0) s' t in       (* test/wait: sender and receiver as they are after the step *)
            let rk := match cop_of c arg with
                      | CSend _ | CRecv _ => CN s a | CTest k | CWait k => k | CProbe _ _ => -1 end in
            let ret := match cop_of c arg with
                       | CTest _ | CProbe _ _ => match O (K s') a with v :: _ => v | [] => -1 end
                       | _ => -1 end in
            let mb := match cop_of c arg with CTest _ | CWait _ => o2 d' | _ => o2 d end in
            [1; ret; Z.of_nat (ty d); a; rk; mb; snd_ d'; rcv_ d'; Z.of_nat (length (Q s' mb))] ++ qdump (Q s' mb) ++
            comm_seq s' rest f
          else 0 :: comm_seq s rest f
      | _ => []
      end
  end.
Definition run_c39_comm_seq (l : list Z) : list Z := comm_seq x0 l (length l).
(** the checker's verdict on every adjacent pair of the enabled subsequence executed from x0, ids taken in the state
    after the pair:  [a; c; arg; ...] -> per adjacent pair of different actors  1 dependent | 0 independent | -1 dies *)
Fixpoint comm_deps (s : xst) (prev : option xt) (sprev : xst) (l : list Z) (fuel : nat) : list Z :=
  match fuel with
  | Datatypes.O => []
  | Datatypes.S f =>
      match l with
      | a :: c :: arg :: rest =>
          let t := XC a (cop_of c arg) in
          if xenabled s t then
            let s' := xstep s t in
            let v := match prev with
                     | Some p => if xaid p =? a then []
                                 else [match xdepends (canon_cid s') sprev p t with
                                       | Some true => 1 | Some false => 0 | None => -1 end]
                     | None => [] end in
            v ++ comm_deps s' (Some t) s rest f
          else comm_deps s prev sprev rest f
      | _ => []
      end
  end.
Definition run_c39_comm_deps (l : list Z) : list Z := comm_deps x0 None x0 l (length l).

(** ** well-formed states (invariants of the kernel, see McKernel2Proofs.xwf_step) *)
Definition wfc (s : xst) : Prop :=
  (forall a, 0 <= CN s a) /\
  (forall m kd b j, In (kd, (b, j)) (Q s m) -> 0 <= j < CN s b /\ rmb (RQ s b j) = m) /\
  (forall m, exists kd, forall e, In e (Q s m) -> fst e = kd).   (* a queue never mixes sends and receives *)
Definition xwf (s : xst) : Prop :=
  wf s.(K) /\ (forall k, 0 <= val (S (K s) k)) /\ (forall b, wfb (B s b)) /\ (forall p, AL s p <> 0 -> p < NP s) /\ wfc s.
(** the region excluded from the commutation theorem (finding barrier-lock-lock-oversubscribed): two arrivals at a
    barrier whose current round lacks exactly one participant, i.e. more users than expected_actors_ *)
Definition bar_side (s : xst) (t1 t2 : xt) : Prop :=
  match t1, t2 with
  | XB _ b1 BLock, XB _ b2 BLock => b1 = b2 -> bar_room (B s b1)
  | _, _ => True
  end.
