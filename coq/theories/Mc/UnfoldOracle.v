(** C44 — executable oracles and entry points (extracted).  The only proof here is the totality of the lexicographic
    order needed to instantiate the standard library's merge sort. *)
From SGV Require Import Base.Tactics Mc.Unfold.
From Coq Require Import Sorting.Mergesort.
Local Open Scope nat_scope.

Module LexOrder <: Orders.TotalLeBool.
  Definition t := list nat.
  Definition leb := lex_leb.
  Theorem leb_total : forall a1 a2, leb a1 a2 = true \/ leb a2 a1 = true.
  Proof.
    unfold leb. induction a1 as [|x a IH]; intros [|y b]; simpl; auto.
    destruct (x <? y) eqn:E1; auto. destruct (y <? x) eqn:E2; auto.
  Qed.
End LexOrder.
Module LexSort := Sort LexOrder.

(* the yielded sets are, up to order, exactly the reference enumeration (with multiplicities) *)
Definition enum_ok (out ref : list (list nat)) : bool := lists_eqb (LexSort.sort out) (LexSort.sort ref).

Section MaxSub.
Variable causes : nat -> eset.
Variable pick : nat -> eset -> nat.
(* qualifying sets of maximal_subsets_iterator(events, nullopt, k): the subsets of the events, of size <= k, no member of
   which is a cause of another one *)
Definition maxsub_ref (events : list nat) (k : nat) : list (list nat) :=
  filter (fun s => is_maximal causes pick s && (length s <=? k)) (allsubsets events).
End MaxSub.

(** concrete iteration orders for the executable model (the theorems hold for every one of them) *)
Definition pick_mode (mode : nat) (k : nat) (s : eset) : nat :=
  match mode with
  | 0 => hd 0 s
  | 1 => last s 0
  | _ => nth ((k * 7 + 3) mod (length s)) s 0
  end.

Local Open Scope Z_scope.
Fixpoint take_lists (count : nat) (l : list Z) : list (list nat) * list Z :=
  match count with
  | O => ([], l)
  | S c => match l with
           | len :: r => let '(xs, r1) := take_n (Z.to_nat len) r in
                         let '(ls, r2) := take_lists c r1 in (map Z.to_nat xs :: ls, r2)
           | [] => ([], [])
           end
  end.
Definition b2z (b : bool) : Z := if b then 1 else 0.
Definition zl (l : list nat) : list Z := Z.of_nat (length l) :: map Z.of_nat l.

(* input: n, dep[n*n], (nc c_1..c_nc){n}, pickmode, m, S_1..S_m
   output: |closure| closure, |maximal| maximal, |sequence| sequence, valid, conflict_free, is_maximal, conflicts[n*n] *)
Definition run_c44_sets (inp : list Z) : list Z :=
  match inp with
  | zn :: r =>
      let n := Z.to_nat zn in
      let '(m, r1) := take_n (n * n) r in
      let '(cs, r2) := take_lists n r1 in
      match r2 with
      | mode :: zm :: r3 =>
          let s := map Z.to_nat (fst (take_n (Z.to_nat zm) r3)) in
          let causes := fun e => nth e cs [] in
          let dep := fun a b => Z.eqb (nth (a * n + b)%nat m 0) 1 in
          let pick := pick_mode (Z.to_nat mode) in
          let idx := seq 0 n in
          zl (get_all_events causes pick s) ++ zl (get_all_maximal_events causes pick s) ++
          zl (history_sequence causes pick s) ++
          [b2z (is_valid_configuration causes dep pick s); b2z (is_conflict_free causes dep pick s);
           b2z (is_maximal causes pick s)] ++
          flat_map (fun a => map (fun b => b2z (conflicts_with causes dep pick a b)) idx) idx
      | _ => [-1]
      end
  | [] => [-1]
  end.

(* input: k sizes -> count, tuples *)
Definition run_c44_vfl (inp : list Z) : list Z :=
  let sizes := map Z.to_nat inp in
  let ts := vfl_all sizes in
  Z.of_nat (length ts) :: flat_map (fun t => map Z.of_nat t) ts.

(* input: mode (0: k-subsets, 1: powerset), k, n, count, (len elems){count} : positions 0..n-1 -> 1 iff each qualifying set once *)
Definition run_c44_enum_ok (inp : list Z) : list Z :=
  match inp with
  | mode :: k :: n :: count :: r =>
      let out := fst (take_lists (Z.to_nat count) r) in
      let ref := if Z.eqb mode 0 then ksubsets (Z.to_nat k) (seq 0 (Z.to_nat n)) else allsubsets (seq 0 (Z.to_nat n)) in
      [b2z (enum_ok out ref)]
  | _ => [-1]
  end.

(* input: n, (nc c..){n}, m, S (increasing), k, count, (len elems){count} -> 1 iff each maximal subset of S of size <= k once *)
Definition run_c44_maxsub_ok (inp : list Z) : list Z :=
  match inp with
  | zn :: r =>
      let n := Z.to_nat zn in
      let '(cs, r1) := take_lists n r in
      match r1 with
      | zm :: r2 =>
          let '(s, r3) := take_n (Z.to_nat zm) r2 in
          match r3 with
          | k :: count :: r4 =>
              let out := fst (take_lists (Z.to_nat count) r4) in
              let causes := fun e => nth e cs [] in
              [b2z (enum_ok out (maxsub_ref causes (pick_mode 0) (map Z.to_nat s) (Z.to_nat k)))]
          | _ => [-1]
          end
      | _ => [-1]
      end
  | [] => [-1]
  end.
