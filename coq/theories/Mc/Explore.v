(** C38 — executable reference explorer: depth-first search with a visited list over the reference semantics
    SGV.Mc.McRef.  Model only; the proofs are in ExploreProofs.v. *)
From SGV Require Import Base.Tactics Mc.McRef.
Local Open Scope Z_scope.

(** * Generic worklist DFS over a finitely branching successor function *)
Section Dfs.
  Variable St : Type.
  Variable eq_dec : forall x y : St, {x = y} + {x <> y}.
  Variable next : St -> list St.

  Fixpoint dfs (fuel : nat) (stack visited : list St) : option (list St) :=
    match fuel with
    | O => None
    | S f =>
        match stack with
        | [] => Some visited
        | s :: rest =>
            if in_dec eq_dec s visited then dfs f rest visited
            else dfs f (next s ++ rest) (s :: visited)
        end
    end.
End Dfs.
Arguments dfs {St}.

(** * The reference explorer of a program *)
Record result := mkR {
  r_states   : list state;       (* every reachable state *)
  r_outcomes : list (list Z);    (* outcomes of the reachable terminal states (with repetitions) *)
  r_deadlock : bool;             (* a deadlock is reachable *)
  r_failure  : bool;             (* an MC_assert failure is reachable *)
  r_invalid  : bool              (* the program leaves the modelled fragment on some path *)
}.

Definition explore (fuel : nat) (P : prog) : option result :=
  match dfs state_eq_dec (succs P) fuel [init P] [] with
  | None => None
  | Some V =>
      Some (mkR V (map outcome (filter (terminal P) V)) (existsb (deadlocked P) V)
                (existsb (fun s => s_err s =? 1) V) (existsb (fun s => s_err s =? 2) V))
  end.

(** * Entry point for the extracted driver
    input  = fuel :: program            (see McRef.decode_prog)
    output = [0]                                                  when the fuel ran out
           | 1 :: deadlock :: failure :: invalid :: nstates :: nout :: outcome_1 (8 values) ... outcome_nout ++ [ntransitions] *)
Definition b2z (b : bool) : Z := if b then 1 else 0.

Definition run_c38 (l : list Z) : list Z :=
  match l with
  | [] => [0]
  | f :: r =>
      match explore (Z.to_nat f) (decode_prog r) with
      | None => [0]
      | Some R =>
          1 :: b2z (r_deadlock R) :: b2z (r_failure R) :: b2z (r_invalid R) :: Z.of_nat (length (r_states R))
            :: Z.of_nat (length (r_outcomes R)) :: concat (r_outcomes R)
            ++ [Z.of_nat (length (flat_map (succs (decode_prog r)) (r_states R)))]
      end
  end.
