(** C38 — reference interleaving semantics of small S4U programs, at the granularity of the model checker's
    transitions (MUTEX_ASYNC_LOCK / MUTEX_WAIT, SEM_ASYNC_LOCK / SEM_WAIT, BARRIER_ASYNC_LOCK / BARRIER_WAIT,
    COMM_ASYNC_SEND|RECV / COMM_WAIT, MUTEX_TRYLOCK, MUTEX_UNLOCK, SEM_UNLOCK, ACTOR_JOIN, RANDOM).
    The same program encoding is interpreted with the real S4U API by harness/mc3_prog.cpp.
    Model only (no proofs): total computable Gallina. *)
From SGV Require Import Base.Tactics.
Local Open Scope Z_scope.

(** * Programs *)
Record op := mkOp { ocode : Z; oa : Z; ob : Z }.

Record prog := mkP {
  p_caps   : list Z;          (* initial value of the 4 semaphores *)
  p_cnts   : list Z;          (* expected actors of the 4 barriers *)
  p_actors : list (list op)   (* one op list per actor *)
}.

(** * States *)
Record astate := mkA {
  a_pc   : nat;                 (* index of the next op *)
  a_ph   : bool;                (* true: the asynchronous half of a two-transition op is done, the WAIT remains *)
  a_gr   : bool;                (* the pending acquisition (mutex / semaphore / barrier) is granted *)
  a_reg  : Z;                   (* the actor's register *)
  a_cur  : nat;                 (* comm of the pending synchronous put/get *)
  a_pend : list (nat * bool)    (* pending asynchronous comms, oldest first; true = receive *)
}.

Record comm := mkC { c_src : option nat; c_dst : option nat; c_val : Z }.

Record state := mkS {
  s_acts  : list astate;
  s_mown  : list (option nat);  (* mutex owners *)
  s_mq    : list (list nat);    (* mutex FIFO queues of ungranted acquisitions *)
  s_sval  : list Z;             (* semaphore values *)
  s_sq    : list (list nat);    (* semaphore FIFO queues *)
  s_bq    : list (list nat);    (* barrier queues *)
  s_mbq   : list (list nat);    (* per mailbox: FIFO of unmatched comms (all sends or all receives) *)
  s_comms : list comm;          (* every comm ever created, indexed by creation rank *)
  s_vars  : list Z;             (* shared variables *)
  s_err   : Z                   (* 0 ok | 1 MC_assert failed | 2 program outside the modelled fragment *)
}.

(** * Helpers *)
Fixpoint upd {A} (l : list A) (i : nat) (x : A) : list A :=
  match l, i with
  | [], _ => []
  | _ :: r, O => x :: r
  | y :: r, S j => y :: upd r j x
  end.

Definition ix (a : Z) : nat := Z.to_nat (a mod 4).

Definition dflA : astate := mkA 0 false false 0 0 [].
Definition dflC : comm := mkC None None 0.

Definition getA (s : state) (a : nat) : astate := nth a (s_acts s) dflA.
Definition setA (s : state) (a : nat) (x : astate) : state :=
  mkS (upd (s_acts s) a x) (s_mown s) (s_mq s) (s_sval s) (s_sq s) (s_bq s) (s_mbq s) (s_comms s) (s_vars s) (s_err s).
Definition set_err (s : state) (e : Z) : state :=
  mkS (s_acts s) (s_mown s) (s_mq s) (s_sval s) (s_sq s) (s_bq s) (s_mbq s) (s_comms s) (s_vars s) e.
Definition set_vars (s : state) (v : list Z) : state :=
  mkS (s_acts s) (s_mown s) (s_mq s) (s_sval s) (s_sq s) (s_bq s) (s_mbq s) (s_comms s) v (s_err s).
Definition set_mutex (s : state) (m : nat) (o : option nat) (q : list nat) : state :=
  mkS (s_acts s) (upd (s_mown s) m o) (upd (s_mq s) m q) (s_sval s) (s_sq s) (s_bq s) (s_mbq s) (s_comms s) (s_vars s)
      (s_err s).
Definition set_sem (s : state) (k : nat) (v : Z) (q : list nat) : state :=
  mkS (s_acts s) (s_mown s) (s_mq s) (upd (s_sval s) k v) (upd (s_sq s) k q) (s_bq s) (s_mbq s) (s_comms s) (s_vars s)
      (s_err s).
Definition set_bar (s : state) (b : nat) (q : list nat) : state :=
  mkS (s_acts s) (s_mown s) (s_mq s) (s_sval s) (s_sq s) (upd (s_bq s) b q) (s_mbq s) (s_comms s) (s_vars s) (s_err s).
Definition set_mb (s : state) (b : nat) (q : list nat) (cs : list comm) : state :=
  mkS (s_acts s) (s_mown s) (s_mq s) (s_sval s) (s_sq s) (s_bq s) (upd (s_mbq s) b q) cs (s_vars s) (s_err s).

Definition with_pc (x : astate) (pc : nat) : astate := mkA pc false false (a_reg x) (a_cur x) (a_pend x).
Definition with_reg (x : astate) (r : Z) : astate := mkA (a_pc x) (a_ph x) (a_gr x) r (a_cur x) (a_pend x).
Definition with_wait (x : astate) (g : bool) : astate := mkA (a_pc x) true g (a_reg x) (a_cur x) (a_pend x).
Definition with_gr (x : astate) (g : bool) : astate := mkA (a_pc x) (a_ph x) g (a_reg x) (a_cur x) (a_pend x).
Definition with_cur (x : astate) (c : nat) : astate := mkA (a_pc x) true false (a_reg x) c (a_pend x).
Definition with_pend (x : astate) (p : list (nat * bool)) : astate :=
  mkA (a_pc x) (a_ph x) (a_gr x) (a_reg x) (a_cur x) p.

Definition grant (s : state) (b : nat) : state := setA s b (with_gr (getA s b) true).
Definition grant_all (s : state) (l : list nat) : state := fold_left grant l s.

Definition ops_of (P : prog) (a : nat) : list op := nth a (p_actors P) [].
Definition nact (P : prog) : nat := length (p_actors P).
Definition finished (P : prog) (s : state) (a : nat) : bool := (length (ops_of P a) <=? a_pc (getA s a))%nat.

Definition is_local (c : Z) : bool := (20 <=? c) && (c <=? 25).

(** * Local operations: run inside the transition that precedes them *)
Definition do_local (s : state) (a : nat) (o : op) : state :=
  let x := getA s a in
  let v := ix (oa o) in
  let c := ocode o in
  if c =? 20 then set_vars s (upd (s_vars s) v (ob o))
  else if c =? 21 then set_vars s (upd (s_vars s) v ((3 * nth v (s_vars s) 0 + ob o) mod 1000003))
  else if c =? 22 then (if nth v (s_vars s) 0 =? ob o then set_err s 1 else s)
  else if c =? 23 then (if a_reg x =? oa o then set_err s 1 else s)
  else if c =? 24 then setA s a (with_reg x (nth v (s_vars s) 0))
  else if c =? 25 then set_vars s (upd (s_vars s) v (a_reg x))
  else s.

(* [n] = fuel, the number of ops of the actor is enough *)
Fixpoint run_local (n : nat) (ops : list op) (a : nat) (s : state) : state :=
  match n with
  | O => s
  | S n' =>
      if negb (s_err s =? 0) then s
      else
        let x := getA s a in
        match nth_error ops (a_pc x) with
        | None => match a_pend x with [] => s | _ :: _ => set_err s 2 end
        | Some o =>
            if is_local (ocode o)
            then let s1 := do_local s a o in
                 run_local n' ops a (setA s1 a (with_pc (getA s1 a) (S (a_pc x))))
            else s
        end
  end.

(* advance actor [a] to pc [pc] and run the local ops found there *)
Definition advance (P : prog) (s : state) (a : nat) (pc : nat) : state :=
  let ops := ops_of P a in
  run_local (S (length ops)) ops a (setA s a (with_pc (getA s a) pc)).

(** * Communications *)
Definition comm_matched (s : state) (id : nat) : bool :=
  let c := nth id (s_comms s) dflC in
  match c_src c, c_dst c with Some _, Some _ => true | _, _ => false end.

(* isend of value [v] by [a] on mailbox [b]: returns the new state and the comm *)
Definition do_isend (s : state) (a b : nat) (v : Z) : state * nat :=
  let q := nth b (s_mbq s) [] in
  match q with
  | id :: r =>
      let c := nth id (s_comms s) dflC in
      match c_src c with
      | None => (set_mb s b r (upd (s_comms s) id (mkC (Some a) (c_dst c) v)), id)
      | Some _ => let id' := length (s_comms s) in
                  (set_mb s b (q ++ [id']) (s_comms s ++ [mkC (Some a) None v]), id')
      end
  | [] => let id' := length (s_comms s) in (set_mb s b [id'] (s_comms s ++ [mkC (Some a) None v]), id')
  end.

Definition do_irecv (s : state) (a b : nat) : state * nat :=
  let q := nth b (s_mbq s) [] in
  match q with
  | id :: r =>
      let c := nth id (s_comms s) dflC in
      match c_src c with
      | Some _ => (set_mb s b r (upd (s_comms s) id (mkC (c_src c) (Some a) (c_val c))), id)
      | None => let id' := length (s_comms s) in
                (set_mb s b (q ++ [id']) (s_comms s ++ [mkC None (Some a) 0]), id')
      end
  | [] => let id' := length (s_comms s) in (set_mb s b [id'] (s_comms s ++ [mkC None (Some a) 0]), id')
  end.

Definition sent_value (x : astate) (o : op) : Z := if ob o <? 0 then a_reg x else ob o.

Fixpoint zrange (lo : Z) (n : nat) : list Z :=
  match n with O => [] | S n' => lo :: zrange (lo + 1) n' end.

(** * One transition of actor [a]; [] = not enabled (or finished) *)
Definition step (P : prog) (s : state) (a : nat) : list state :=
  let x := getA s a in
  match nth_error (ops_of P a) (a_pc x) with
  | None => []
  | Some o =>
      let c := ocode o in
      let k := ix (oa o) in
      let next := S (a_pc x) in
      if c =? 1 then
        if a_ph x then (if a_gr x then [advance P s a next] else [])
        else match nth k (s_mown s) None with
             | None => [setA (set_mutex s k (Some a) (nth k (s_mq s) [])) a (with_wait x true)]
             | Some _ => [setA (set_mutex s k (nth k (s_mown s) None) (nth k (s_mq s) [] ++ [a])) a (with_wait x false)]
             end
      else if c =? 2 then
        match nth k (s_mown s) None with
        | Some w =>
            if Nat.eqb w a then
              match nth k (s_mq s) [] with
              | [] => [advance P (set_mutex s k None []) a next]
              | b :: r => [advance P (grant (set_mutex s k (Some b) r) b) a next]
              end
            else [set_err s 2]
        | None => [set_err s 2]
        end
      else if c =? 3 then
        match nth k (s_mown s) None with
        | None => [advance P (setA (set_mutex s k (Some a) (nth k (s_mq s) [])) a (with_reg x 1)) a next]
        | Some _ => [advance P (setA s a (with_reg x 0)) a (next + Z.to_nat (ob o))%nat]
        end
      else if c =? 4 then
        if a_ph x then (if a_gr x then [advance P s a next] else [])
        else if 0 <? nth k (s_sval s) 0
             then [setA (set_sem s k (nth k (s_sval s) 0 - 1) (nth k (s_sq s) [])) a (with_wait x true)]
             else [setA (set_sem s k (nth k (s_sval s) 0) (nth k (s_sq s) [] ++ [a])) a (with_wait x false)]
      else if c =? 5 then
        match nth k (s_sq s) [] with
        | [] => [advance P (set_sem s k (nth k (s_sval s) 0 + 1) []) a next]
        | b :: r => [advance P (grant (set_sem s k (nth k (s_sval s) 0) r) b) a next]
        end
      else if c =? 6 then
        if a_ph x then (if a_gr x then [advance P s a next] else [])
        else let q := nth k (s_bq s) [] in
             if (Z.of_nat (length q) <? Z.max 1 (nth k (p_cnts P) 1) - 1)
             then [setA (set_bar s k (q ++ [a])) a (with_wait x false)]
             else let s1 := grant_all (set_bar s k []) q in [setA s1 a (with_wait (getA s1 a) true)]
      else if c =? 7 then
        if a_ph x then (if comm_matched s (a_cur x) then [advance P s a next] else [])
        else let '(s1, id) := do_isend s a k (sent_value x o) in [setA s1 a (with_cur x id)]
      else if c =? 8 then
        if a_ph x then
          (if comm_matched s (a_cur x)
           then [advance P (setA s a (with_reg x (c_val (nth (a_cur x) (s_comms s) dflC)))) a next] else [])
        else let '(s1, id) := do_irecv s a k in [setA s1 a (with_cur x id)]
      else if c =? 9 then
        if (0 <=? oa o) && (oa o <? Z.of_nat (nact P)) && negb (Z.to_nat (oa o) =? a)%nat
        then (if finished P s (Z.to_nat (oa o)) then [advance P s a next] else [])
        else [set_err s 2]
      else if c =? 10 then
        if (oa o <=? ob o) && (ob o - oa o <? 8)
        then map (fun v => advance P (setA s a (with_reg x v)) a next) (zrange (oa o) (Z.to_nat (ob o - oa o + 1)))
        else [set_err s 2]
      else if c =? 11 then
        let '(s1, id) := do_isend s a k (sent_value x o) in
        [advance P (setA s1 a (with_pend x (a_pend x ++ [(id, false)]))) a next]
      else if c =? 12 then
        let '(s1, id) := do_irecv s a k in
        [advance P (setA s1 a (with_pend x (a_pend x ++ [(id, true)]))) a next]
      else if c =? 13 then
        match a_pend x with
        | [] => [set_err s 2]
        | (id, isrecv) :: r =>
            if comm_matched s id
            then let x1 := with_pend x r in
                 let x2 := if isrecv then with_reg x1 (c_val (nth id (s_comms s) dflC)) else x1 in
                 [advance P (setA s a x2) a next]
            else []
        end
      else [set_err s 2]
  end.

(** * Initial state: every actor runs up to its first simcall, in actor order *)
Definition init_raw (P : prog) : state :=
  mkS (map (fun _ => dflA) (p_actors P)) [None; None; None; None] [[]; []; []; []]
      (map (fun i => Z.max 0 (nth i (p_caps P) 0)) [0; 1; 2; 3]%nat) [[]; []; []; []] [[]; []; []; []] [[]; []; []; []] []
      [0; 0; 0; 0] 0.

Definition init (P : prog) : state :=
  fold_left (fun s a => advance P s a 0) (seq 0 (nact P)) (init_raw P).

(** all successors of a state: none once an error is flagged *)
Definition succs (P : prog) (s : state) : list state :=
  if s_err s =? 0 then flat_map (step P s) (seq 0 (nact P)) else [].

Definition terminal (P : prog) (s : state) : bool :=
  (s_err s =? 0) && forallb (finished P s) (seq 0 (nact P)).

Definition deadlocked (P : prog) (s : state) : bool :=
  (s_err s =? 0) && negb (terminal P s) && match succs P s with [] => true | _ => false end.

(** what the program prints at the end of a complete execution: registers (padded to 4) then shared variables *)
Definition outcome (s : state) : list Z :=
  map (fun a => a_reg (getA s a)) [0; 1; 2; 3]%nat ++ map (fun i => nth i (s_vars s) 0) [0; 1; 2; 3]%nat.

(** * Decidable equality of states (visited set of the reference explorer) *)
Definition op_nat_eq_dec : forall x y : option nat, {x = y} + {x <> y}.
Proof. decide equality; apply Nat.eq_dec. Defined.
Definition pend_eq_dec : forall x y : nat * bool, {x = y} + {x <> y}.
Proof. decide equality; [apply Bool.bool_dec | apply Nat.eq_dec]. Defined.
Definition astate_eq_dec : forall x y : astate, {x = y} + {x <> y}.
Proof.
  decide equality; try apply Nat.eq_dec; try apply Bool.bool_dec; try apply Z.eq_dec.
  apply (list_eq_dec pend_eq_dec).
Defined.
Definition comm_eq_dec : forall x y : comm, {x = y} + {x <> y}.
Proof. decide equality; try apply Z.eq_dec; apply op_nat_eq_dec. Defined.
Definition state_eq_dec : forall x y : state, {x = y} + {x <> y}.
Proof.
  decide equality; try apply Z.eq_dec.
  - apply (list_eq_dec Z.eq_dec).
  - apply (list_eq_dec comm_eq_dec).
  - apply (list_eq_dec (list_eq_dec Nat.eq_dec)).
  - apply (list_eq_dec (list_eq_dec Nat.eq_dec)).
  - apply (list_eq_dec (list_eq_dec Nat.eq_dec)).
  - apply (list_eq_dec Z.eq_dec).
  - apply (list_eq_dec (list_eq_dec Nat.eq_dec)).
  - apply (list_eq_dec op_nat_eq_dec).
  - apply (list_eq_dec astate_eq_dec).
Defined.

(** * Decoding programs from the integer-list protocol
    P = nact cap0..cap3 cnt0..cnt3 { nops { code a b }*nops }*nact *)
Fixpoint take_ops (n : nat) (l : list Z) : list op * list Z :=
  match n with
  | O => ([], l)
  | S n' => match l with
            | c :: a :: b :: r => let '(os, rest) := take_ops n' r in (mkOp c a b :: os, rest)
            | _ => ([], [])
            end
  end.

Fixpoint take_actors (n : nat) (l : list Z) : list (list op) :=
  match n with
  | O => []
  | S n' => match l with
            | k :: r => let '(os, rest) := take_ops (Z.to_nat k) r in os :: take_actors n' rest
            | [] => [] :: take_actors n' []
            end
  end.

Definition decode_prog (l : list Z) : prog :=
  match l with
  | n :: r =>
      let '(caps, r1) := take_n 4 r in
      let '(cnts, r2) := take_n 4 r1 in
      mkP caps cnts (take_actors (Z.to_nat (Z.min n 4)) r2)
  | [] => mkP [] [] []
  end.
