(** C38 — the reference explorer is sound and complete w.r.t. the inductive reachability relation of the
    reference semantics (fuel exhaustion excluded). *)
From SGV Require Import Base.Tactics Mc.McRef Mc.Explore.
Local Open Scope Z_scope.

(** * Generic DFS *)
Section DfsProofs.
  Variable St : Type.
  Variable eq_dec : forall x y : St, {x = y} + {x <> y}.
  Variable next : St -> list St.

  Inductive reach (s0 : St) : St -> Prop :=
  | reach_refl : reach s0 s0
  | reach_step : forall s t, reach s0 s -> In t (next s) -> reach s0 t.

  Lemma reach_trans : forall a b c, reach a b -> reach b c -> reach a c.
  Proof.
    intros a b c Hab Hbc. induction Hbc as [|s t Hbs IH Hin]; [assumption|].
    eapply reach_step; eauto.
  Qed.

  (* every successor of a visited state is visited or still on the stack *)
  Definition closed (stack visited : list St) : Prop :=
    forall v, In v visited -> forall t, In t (next v) -> In t visited \/ In t stack.

  Lemma dfs_closed : forall fuel stack visited V,
    dfs eq_dec next fuel stack visited = Some V ->
    closed stack visited ->
    closed [] V /\ incl visited V /\ incl stack V.
  Proof.
    induction fuel as [|f IH]; intros stack visited V Hd Hc; cbn [dfs] in Hd; [discriminate|].
    destruct stack as [|s rest].
    - inv Hd. split; [assumption|]. split; intros x Hx; [assumption|inversion Hx].
    - destruct (in_dec eq_dec s visited) as [Hin|Hnin].
      + assert (Hc' : closed rest visited).
        { intros v Hv t Ht. destruct (Hc v Hv t Ht) as [H|[H|H]]; subst; auto. }
        destruct (IH _ _ _ Hd Hc') as (H1 & H2 & H3).
        split; [assumption|]. split; [assumption|].
        intros x [Hx|Hx]; subst; auto.
      + assert (Hc' : closed (next s ++ rest) (s :: visited)).
        { intros v [Hv|Hv] t Ht.
          - subst v. right. apply in_or_app. left. assumption.
          - destruct (Hc v Hv t Ht) as [H|[H|H]].
            + left. right. assumption.
            + subst t. left. left. reflexivity.
            + right. apply in_or_app. right. assumption. }
        destruct (IH _ _ _ Hd Hc') as (H1 & H2 & H3).
        split; [assumption|]. split.
        * intros x Hx. apply H2. right. assumption.
        * intros x [Hx|Hx].
          -- subst x. apply H2. left. reflexivity.
          -- apply H3. apply in_or_app. right. assumption.
  Qed.

  Lemma dfs_sound : forall s0 fuel stack visited V,
    dfs eq_dec next fuel stack visited = Some V ->
    (forall x, In x stack -> reach s0 x) ->
    (forall x, In x visited -> reach s0 x) ->
    forall x, In x V -> reach s0 x.
  Proof.
    induction fuel as [|f IH]; intros stack visited V Hd Hs Hv; cbn [dfs] in Hd; [discriminate|].
    destruct stack as [|s rest].
    - inv Hd. assumption.
    - destruct (in_dec eq_dec s visited) as [Hin|Hnin].
      + eapply IH; eauto. intros x Hx. apply Hs. right. assumption.
      + eapply IH; eauto.
        * intros x Hx. apply in_app_or in Hx. destruct Hx as [Hx|Hx].
          -- eapply reach_step; [apply Hs; left; reflexivity|assumption].
          -- apply Hs. right. assumption.
        * intros x [Hx|Hx]; [subst; apply Hs; left; reflexivity|auto].
  Qed.

  Theorem dfs_correct : forall s0 fuel V,
    dfs eq_dec next fuel [s0] [] = Some V -> forall s, In s V <-> reach s0 s.
  Proof.
    intros s0 fuel V Hd s. split.
    - eapply dfs_sound; eauto.
      + intros x [Hx|[]]. subst. constructor.
      + intros x [].
    - intros Hr.
      destruct (dfs_closed _ _ _ _ Hd) as (Hc & _ & Hi).
      { intros v []. }
      induction Hr as [|u t Hu IH Ht].
      + apply Hi. left. reflexivity.
      + destruct (Hc u IH t Ht) as [H|[]]. assumption.
  Qed.
End DfsProofs.

(** * Reference semantics: inductive specification *)

(* one transition of some actor, from a state without error flag *)
Definition trans (P : prog) (s t : state) : Prop :=
  s_err s = 0 /\ exists a, (a < nact P)%nat /\ In t (step P s a).

Inductive reachable (P : prog) : state -> Prop :=
| reachable_init : reachable P (init P)
| reachable_step : forall s t, reachable P s -> trans P s t -> reachable P t.

(* all actors ran to the end of their code, no error *)
Definition is_terminal (P : prog) (s : state) : Prop :=
  s_err s = 0 /\ forall a, (a < nact P)%nat -> (length (ops_of P a) <= a_pc (getA s a))%nat.

(* an outcome printed by some complete execution *)
Definition reachable_terminal (P : prog) (o : list Z) : Prop :=
  exists s, reachable P s /\ is_terminal P s /\ outcome s = o.

(* some actor has code left, nobody can move *)
Definition is_deadlock (P : prog) (s : state) : Prop :=
  s_err s = 0 /\ ~ is_terminal P s /\ forall t, ~ trans P s t.

Definition deadlock_reachable (P : prog) : Prop := exists s, reachable P s /\ is_deadlock P s.
Definition failure_reachable (P : prog) : Prop := exists s, reachable P s /\ s_err s = 1.
Definition invalid_reachable (P : prog) : Prop := exists s, reachable P s /\ s_err s = 2.

Lemma succs_trans : forall P s t, In t (succs P s) <-> trans P s t.
Proof.
  intros P s t. unfold succs, trans. destruct (s_err s =? 0) eqn:He.
  - apply Z.eqb_eq in He. rewrite in_flat_map. split.
    + intros (a & Ha & Ht). apply in_seq in Ha. split; [assumption|]. exists a. split; [lia|assumption].
    + intros (_ & a & Ha & Ht). exists a. split; [apply in_seq; lia|assumption].
  - apply Z.eqb_neq in He. split; [intros []|]. intros (H0 & _). contradiction.
Qed.

Lemma reach_reachable : forall P s, reach state (succs P) (init P) s <-> reachable P s.
Proof.
  intros P s. split; intros H.
  - induction H as [|u t Hu IH Ht]; [constructor|]. econstructor; [eassumption|]. apply succs_trans. assumption.
  - induction H as [|u t Hu IH Ht]; [constructor|]. econstructor; [eassumption|]. apply succs_trans. assumption.
Qed.

Lemma terminal_spec : forall P s, terminal P s = true <-> is_terminal P s.
Proof.
  intros P s. unfold terminal, is_terminal, finished. rewrite andb_true_iff, forallb_forall, Z.eqb_eq.
  split; intros (H0 & H); (split; [assumption|]).
  - intros a Ha. specialize (H a). rewrite Nat.leb_le in H. apply H. apply in_seq. lia.
  - intros a Ha. apply in_seq in Ha. apply Nat.leb_le. apply H. lia.
Qed.

Lemma deadlocked_spec : forall P s, deadlocked P s = true <-> is_deadlock P s.
Proof.
  intros P s. unfold deadlocked, is_deadlock. rewrite !andb_true_iff, negb_true_iff, Z.eqb_eq.
  split.
  - intros ((H0 & Ht) & Hs). split; [assumption|]. split.
    + intros Hterm. apply terminal_spec in Hterm. congruence.
    + intros t Htr. apply succs_trans in Htr. destruct (succs P s); [inversion Htr|discriminate].
  - intros (H0 & Hnt & Hno). split; [split; [assumption|]|].
    + destruct (terminal P s) eqn:Ht; [|reflexivity]. exfalso. apply Hnt. apply terminal_spec. assumption.
    + destruct (succs P s) as [|t l] eqn:Hs; [reflexivity|]. exfalso. apply (Hno t). apply succs_trans. rewrite Hs. left. reflexivity.
Qed.

(** * Main theorems *)
Theorem explore_states : forall fuel P R,
  explore fuel P = Some R -> forall s, In s (r_states R) <-> reachable P s.
Proof.
  intros fuel P R He s. unfold explore in He.
  destruct (dfs state_eq_dec (succs P) fuel [init P] []) as [V|] eqn:Hd; [|discriminate].
  inv He. cbn [r_states]. rewrite <- reach_reachable. eapply dfs_correct. eassumption.
Qed.

Theorem explore_outcomes : forall fuel P R,
  explore fuel P = Some R -> forall o, reachable_terminal P o <-> In o (r_outcomes R).
Proof.
  intros fuel P R He o. pose proof (explore_states _ _ _ He) as Hs. unfold explore in He.
  destruct (dfs state_eq_dec (succs P) fuel [init P] []) as [V|] eqn:Hd; [|discriminate].
  inv He. cbn [r_outcomes r_states] in *. rewrite in_map_iff. unfold reachable_terminal.
  split.
  - intros (s & Hr & Ht & Ho). exists s. split; [assumption|]. apply filter_In. split; [apply Hs; assumption|].
    apply terminal_spec. assumption.
  - intros (s & Ho & Hf). apply filter_In in Hf. destruct Hf as (Hin & Ht). exists s.
    split; [apply Hs; assumption|]. split; [apply terminal_spec; assumption|assumption].
Qed.

Theorem explore_deadlock : forall fuel P R,
  explore fuel P = Some R -> (r_deadlock R = true <-> deadlock_reachable P).
Proof.
  intros fuel P R He. pose proof (explore_states _ _ _ He) as Hs. unfold explore in He.
  destruct (dfs state_eq_dec (succs P) fuel [init P] []) as [V|] eqn:Hd; [|discriminate].
  inv He. cbn [r_deadlock r_states] in *. rewrite existsb_exists. unfold deadlock_reachable.
  split; intros (s & H1 & H2); exists s.
  - split; [apply Hs; assumption|apply deadlocked_spec; assumption].
  - split; [apply Hs; assumption|apply deadlocked_spec; assumption].
Qed.

Theorem explore_failure : forall fuel P R,
  explore fuel P = Some R -> (r_failure R = true <-> failure_reachable P).
Proof.
  intros fuel P R He. pose proof (explore_states _ _ _ He) as Hs. unfold explore in He.
  destruct (dfs state_eq_dec (succs P) fuel [init P] []) as [V|] eqn:Hd; [|discriminate].
  inv He. cbn [r_failure r_states] in *. rewrite existsb_exists. unfold failure_reachable.
  split; intros (s & H1 & H2); exists s.
  - split; [apply Hs; assumption|apply Z.eqb_eq; assumption].
  - split; [apply Hs; assumption|apply Z.eqb_eq; assumption].
Qed.

Theorem explore_invalid : forall fuel P R,
  explore fuel P = Some R -> (r_invalid R = true <-> invalid_reachable P).
Proof.
  intros fuel P R He. pose proof (explore_states _ _ _ He) as Hs. unfold explore in He.
  destruct (dfs state_eq_dec (succs P) fuel [init P] []) as [V|] eqn:Hd; [|discriminate].
  inv He. cbn [r_invalid r_states] in *. rewrite existsb_exists. unfold invalid_reachable.
  split; intros (s & H1 & H2); exists s.
  - split; [apply Hs; assumption|apply Z.eqb_eq; assumption].
  - split; [apply Hs; assumption|apply Z.eqb_eq; assumption].
Qed.

(* an error flag stops the execution: failure and invalid states have no successor, so they are neither terminal nor
   deadlocks, and every reachable state is of exactly one kind: running, terminal, deadlock, failed, invalid *)
Lemma error_is_final : forall P s t, s_err s <> 0 -> ~ trans P s t.
Proof. intros P s t H (H0 & _). contradiction. Qed.
