Require Import ExtrOcamlBasic.
Require Import SGV.Mc.Explore.
Extraction "c38_model.ml" run_c38.
