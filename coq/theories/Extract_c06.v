Require Import ExtrOcamlBasic.
Require Import SGV.Kernel.CondVar.
Extraction "c06_model.ml" run_c06.
